/-
Helper lemmas for C13 (address text forms).

* CRC-16 with zero initial value is xor-LINEAR over equal-length byte strings (`crcV_xor`), derived from the
  C18 step lemmas (`step16_xor`, `iter_xor`);
* a fast natural-number CRC (`crcN`) equal to the bitwise spec, used to evaluate the complete table of the
  48 x 63 single-character error patterns in the kernel (`syndrome_table`);
* the parsers on texts produced by `to_str`.
-/
import TonVerif.Model.Address
import TonVerif.Proofs.Base64
import TonVerif.Proofs.AddressTable
import TonVerif.Proofs.Crc
import TonVerif.Properties.C18

namespace TonVerif.Proofs.Address
open TonVerif TonVerif.Spec TonVerif.Proofs.Crc TonVerif.Proofs.Base64
open TonVerif.Model TonVerif.Model.Base64 TonVerif.Model.Address

/-! ### CRC-16 of Nat byte lists -/

/-- the bitwise CRC-16/XMODEM (Spec/Crc.lean) of a Nat byte list. -/
def crcV (data : Bytes) : BitVec 16 := Spec.crc16 (data.map (BitVec.ofNat 8))

/-- big-endian bytes of a 16-bit value. -/
def be16N (V : BitVec 16) : Bytes := [V.toNat / 256, V.toNat % 256]

/-- the library's `crc16` (translated code, C18) in terms of the spec. -/
theorem model_crc16 (data : Bytes) (h : Bytes.WF data) : Model.crc16 data = some (be16N (crcV data)) := by
  rw [TonVerif.Properties.C18.c18_crc16 data h]
  have hV : (Spec.crc16 (data.map (BitVec.ofNat 8))).toNat < 65536 := (Spec.crc16 _).isLt
  simp only [be16, be16N, crcV, List.map_cons, List.map_nil, BitVec.toNat_setWidth, BitVec.toNat_ushiftRight,
    Nat.shiftRight_eq_div_pow]
  congr 2
  omega

theorem be16N_wf (V : BitVec 16) : Bytes.WF (be16N V) := by
  have hV : V.toNat < 65536 := V.isLt
  intro b hb
  simp only [be16N, List.mem_cons, List.not_mem_nil, or_false] at hb
  rcases hb with rfl | rfl <;> omega

theorem be16N_xor (V W : BitVec 16) :
    be16N (V ^^^ W) = [V.toNat / 256 ^^^ W.toNat / 256, V.toNat % 256 ^^^ W.toNat % 256] := by
  have a := @Nat.xor_div_two_pow V.toNat W.toNat 8
  have b := @Nat.xor_mod_two_pow V.toNat W.toNat 8
  simp only [Nat.reducePow] at a b
  simp only [be16N, BitVec.toNat_xor, a, b]

/-! ### linearity -/

theorem byte16_xor (c c' : BitVec 16) (b b' : BitVec 8) :
    byte16 (c ^^^ c') (b ^^^ b') = byte16 c b ^^^ byte16 c' b' := by
  unfold byte16
  rw [← iter_xor _ step16_xor]
  congr 1
  have : (b ^^^ b').zeroExtend 16 <<< 8 = (b.zeroExtend 16 <<< 8) ^^^ (b'.zeroExtend 16 <<< 8) := by
    ext i hi; simp; cases decide (i < 8) <;> simp
  rw [this]; ac_rfl

theorem fold_xor : ∀ (A B : Bytes), A.length = B.length → ∀ (c c' : BitVec 16),
    ((List.zipWith (· ^^^ ·) A B).map (BitVec.ofNat 8)).foldl byte16 (c ^^^ c')
      = (A.map (BitVec.ofNat 8)).foldl byte16 c ^^^ (B.map (BitVec.ofNat 8)).foldl byte16 c' := by
  intro A
  induction A with
  | nil => intro B h c c'; cases B with
    | nil => simp
    | cons _ _ => simp at h
  | cons a A ih =>
    intro B h c c'
    cases B with
    | nil => simp at h
    | cons b B =>
      simp only [List.length_cons] at h
      simp only [List.zipWith_cons_cons, List.map_cons, List.foldl_cons, BitVec.ofNat_xor, byte16_xor]
      exact ih B (by omega) _ _

/-- CRC-16/XMODEM (zero initial value) is xor-linear on byte strings of equal length. -/
theorem crcV_xor (A B : Bytes) (h : A.length = B.length) :
    crcV (List.zipWith (· ^^^ ·) A B) = crcV A ^^^ crcV B := by
  have := fold_xor A B h 0#16 0#16
  simpa [crcV, Spec.crc16] using this

theorem zipWith_xor_wf : ∀ (A B : Bytes), Bytes.WF A → Bytes.WF B → Bytes.WF (List.zipWith (· ^^^ ·) A B) := by
  intro A
  induction A with
  | nil => intro B _ _ x hx; simp at hx
  | cons a A ih =>
    intro B hA hB
    cases B with
    | nil => intro x hx; simp at hx
    | cons b B =>
      intro x hx
      simp only [List.zipWith_cons_cons, List.mem_cons] at hx
      rcases hx with rfl | hx
      · have ha : a < 2 ^ 8 := hA a (by simp)
        have hb : b < 2 ^ 8 := hB b (by simp)
        exact Nat.xor_lt_two_pow ha hb
      · exact ih B (fun y hy => hA y (by simp [hy])) (fun y hy => hB y (by simp [hy])) x hx

/-! ### the fast Nat CRC of Proofs/AddressTable.lean equals the bitwise spec -/

theorem step16_toNat (C : BitVec 16) : (step16 C).toNat = stepN C.toNat := by
  have hC : C.toNat < 65536 := C.isLt
  unfold step16 stepN
  by_cases h : C.msb
  · have h2 : 32768 ≤ C.toNat := by
      rw [BitVec.msb_eq_decide] at h; simpa using h
    have h3 : C.toNat / 32768 = 1 := by omega
    simp [h, h3, BitVec.toNat_xor, BitVec.toNat_shiftLeft, Nat.shiftLeft_eq]
  · have h2 : C.toNat < 32768 := by
      rw [BitVec.msb_eq_decide] at h; simpa using h
    have h3 : C.toNat / 32768 = 0 := by omega
    simp [h, h3, BitVec.toNat_shiftLeft, Nat.shiftLeft_eq]

theorem byte16_toNat (C : BitVec 16) (b : Nat) (hb : b < 256) :
    (byte16 C (BitVec.ofNat 8 b)).toNat = byteN C.toNat b := by
  simp only [byte16, iter, step16_toNat, byteN]
  congr 8
  simp only [BitVec.toNat_xor, BitVec.toNat_shiftLeft, BitVec.toNat_setWidth, BitVec.toNat_ofNat,
    Nat.shiftLeft_eq]
  congr 1
  omega

theorem crcN_fold : ∀ (data : Bytes), Bytes.WF data → ∀ (C : BitVec 16),
    ((data.map (BitVec.ofNat 8)).foldl byte16 C).toNat = crcN data C.toNat := by
  intro data
  induction data with
  | nil => intro _ C; rfl
  | cons b bs ih =>
    intro hw C
    simp only [List.map_cons, List.foldl_cons, crcN]
    rw [ih (fun x hx => hw x (by simp [hx])), byte16_toNat C b (hw b (by simp))]

theorem crcV_toNat (data : Bytes) (hw : Bytes.WF data) : (crcV data).toNat = crcN data 0 :=
  crcN_fold data hw 0#16

theorem unsextets_wf : ∀ (S : List Nat), (∀ s ∈ S, s < 64) → Bytes.WF (unsextets S) := by
  intro S
  induction S using unsextets.induct with
  | case1 s0 s1 s2 s3 rest ih =>
    intro h x hx
    have h0 := h s0 (by simp)
    have h1 := h s1 (by simp)
    have h2 := h s2 (by simp)
    have h3 := h s3 (by simp)
    simp only [unsextets, List.mem_cons] at hx
    rcases hx with rfl | rfl | rfl | hx
    · omega
    · omega
    · omega
    · exact ih (fun s hs => h s (by simp [hs])) x hx
  | case2 S hS =>
    intro _ x hx
    match S, hS, hx with
    | [], _, hx => simp [unsextets] at hx
    | [_], _, hx => simp [unsextets] at hx
    | [_, _], _, hx => simp [unsextets] at hx
    | [_, _, _], _, hx => simp [unsextets] at hx
    | a :: b :: c :: d :: r, hS, _ => exact absurd rfl (hS a b c d r)

theorem unsextets_length : ∀ (S : List Nat), S.length % 4 = 0 → (unsextets S).length * 4 = S.length * 3 := by
  intro S
  induction S using unsextets.induct with
  | case1 s0 s1 s2 s3 rest ih =>
    intro h
    simp only [List.length_cons] at h
    have := ih (by omega)
    simp only [unsextets, List.length_cons]; omega
  | case2 S hS =>
    intro h
    match S, hS, h with
    | [], _, _ => simp [unsextets]
    | [_], _, h => simp at h
    | [_, _], _, h => simp at h
    | [_, _, _], _, h => simp at h
    | a :: b :: c :: d :: r, hS, _ => exact absurd rfl (hS a b c d r)

theorem pattern_lt (n i e : Nat) (he : e < 64) : ∀ s ∈ (List.replicate n 0).set i e, s < 64 := by
  intro s hs
  rcases List.mem_or_eq_of_mem_set hs with h | rfl
  · rw [List.mem_replicate] at h; omega
  · exact he

theorem xor_cancel {a b c : Nat} (h : a ^^^ b = a ^^^ c) : b = c := by
  have := congrArg (a ^^^ ·) h
  simp [← Nat.xor_assoc] at this
  exact this

theorem xor_ne_zero {a b : Nat} (h : a ≠ b) : a ^^^ b ≠ 0 := by
  intro h0
  apply h
  have : a ^^^ b = a ^^^ a := by rw [h0, Nat.xor_self]
  exact (xor_cancel this).symm

/-! ### `is_b64` / `is_hex` -/

theorem isB64_none_of {s : List Char} {d : Bytes} (h : decodeUrlsafe s = some d)
    (hc : ∀ crc, Model.crc16 (d.take 34) = some crc → d.drop 34 ≠ crc) : isB64 s = none := by
  unfold isB64
  rw [h]
  cases d with
  | nil => rfl
  | cons t r =>
    simp only []
    cases hcrc : Model.crc16 ((t :: r).take 34) with
    | none => rfl
    | some crc =>
      have := hc crc hcrc
      simp only []
      rw [if_pos (by simpa [bne_iff_ne] using this)]

theorem splitColon_no_colon : ∀ (s : List Char), (∀ c ∈ s, c ≠ ':') → splitColon s = [s] := by
  intro s
  induction s with
  | nil => intro _; rfl
  | cons c s ih =>
    intro h
    have hc : c ≠ ':' := h c (by simp)
    simp [splitColon, hc, ih (fun x hx => h x (by simp [hx]))]

theorem isHex_no_colon (s : List Char) (h : ∀ c ∈ s, c ≠ ':') : isHex s = none := by
  unfold isHex
  rw [splitColon_no_colon s h]

theorem map_encChar_no_colon (url : Bool) (S : List Nat) (h : ∀ s ∈ S, s < 64) :
    ∀ c ∈ S.map (encChar url), c ≠ ':' := by
  intro c hc
  rw [List.mem_map] at hc
  obtain ⟨s, hs, rfl⟩ := hc
  exact encChar_ne_colon url s (h s hs)

/-- CORE of the substitution theorem: take any 34-byte body followed by its CRC, look at the 48 sextets of
these 36 bytes, replace sextet `i` by a different value `j`: `is_b64` rejects the resulting text. -/
theorem isB64_subst_none (body : Bytes) (hb : Bytes.WF body) (hlen : body.length = 34) (url : Bool)
    (i j : Nat) (hi : i < 48) (hj : j < 64)
    (hne : (sextets (body ++ be16N (crcV body)))[i]? ≠ some j) :
    isB64 (((sextets (body ++ be16N (crcV body))).set i j).map (encChar url)) = none := by
  -- the codeword and its sextets
  have hDw : Bytes.WF (body ++ be16N (crcV body)) := by
    intro x hx
    rw [List.mem_append] at hx
    rcases hx with hx | hx
    · exact hb x hx
    · exact be16N_wf _ x hx
  have hDlen : (body ++ be16N (crcV body)).length = 36 := by simp [be16N, hlen]
  generalize hD : body ++ be16N (crcV body) = D at *
  have hSlt := sextets_lt D hDw
  have hSlen : (sextets D).length = 48 := by
    have := sextets_length D (by omega); omega
  generalize hS : sextets D = S at *
  have hU : unsextets S = D := by rw [← hS]; exact unsextets_sextets D hDw (by omega)
  have hi' : i < S.length := by omega
  have hne' : S[i] ≠ j := by
    intro h; apply hne; rw [List.getElem?_eq_getElem hi', h]
  -- the substituted text decodes to D xor (error pattern)
  have he64 : S[i] ^^^ j < 64 := by
    have a : S[i] < 2 ^ 6 := hSlt _ (List.getElem_mem hi')
    have b : j < 2 ^ 6 := hj
    exact Nat.xor_lt_two_pow a b
  have he0 : S[i] ^^^ j ≠ 0 := xor_ne_zero hne'
  have hS'lt : ∀ s ∈ S.set i j, s < 64 := by
    intro s hs
    rcases List.mem_or_eq_of_mem_set hs with h | rfl
    · exact hSlt s h
    · exact hj
  have hdec := decodeUrlsafe_map_sextets url (S.set i j) hS'lt (by rw [List.length_set]; omega)
  have hxor : unsextets (S.set i j) = List.zipWith (· ^^^ ·) D (errPat i (S[i] ^^^ j)) := by
    rw [set_eq_zipWith_xor S i j hi', unsextets_xor S _ hSlt (pattern_lt _ _ _ he64) (by simp), hSlen]
    rw [hU]
    rfl
  apply isB64_none_of hdec
  intro crc hcrc
  rw [hxor] at hcrc ⊢
  -- the error pattern
  generalize hE : errPat i (S[i] ^^^ j) = E at *
  have hEw : Bytes.WF E := by
    rw [← hE]; exact unsextets_wf _ (pattern_lt _ _ _ he64)
  have hElen : E.length = 36 := by
    have := unsextets_length ((List.replicate 48 0).set i (S[i] ^^^ j)) (by simp)
    rw [← hE]; unfold errPat; simp at this ⊢; omega
  have htab := syndrome_table i hi _ he64 he0
  rw [hE] at htab
  -- split the codeword again
  have hDt : D.take 34 = body := by rw [← hD]; exact List.take_left' hlen
  have hDd : D.drop 34 = be16N (crcV body) := by rw [← hD]; exact List.drop_left' hlen
  rw [List.take_zipWith, hDt] at hcrc
  rw [List.drop_zipWith, hDd]
  have hEtw : Bytes.WF (E.take 34) := fun x hx => hEw x (List.mem_of_mem_take hx)
  rw [model_crc16 _ (zipWith_xor_wf _ _ hb hEtw), crcV_xor _ _ (by simp [hlen, hElen])] at hcrc
  injection hcrc with hcrc
  rw [← hcrc, be16N_xor]
  -- the last two bytes of the pattern
  have hd2 : (E.drop 34).length = 2 := by simp [hElen]
  match hEd : E.drop 34, hd2 with
  | [x, y], _ =>
    intro heq
    simp only [be16N, List.zipWith_cons_cons, List.zipWith_nil_right, List.cons.injEq, and_true] at heq
    have hx := xor_cancel heq.1
    have hy := xor_cancel heq.2
    simp only [syndOK, hEd, ← crcV_toNat _ hEtw, bne_iff_ne, ne_eq, List.cons.injEq, and_true, not_and] at htab
    exact htab hx hy

/-! ### the friendly form produced by `to_str` -/

/-- the tag byte written by `to_str`. -/
def tagOf (bounceable testOnly : Bool) : Nat :=
  let tag := if bounceable then 0x11 else 0x51
  if testOnly then tag ||| 0x80 else tag

/-- tag, workchain byte, hash: the 34 bytes covered by the checksum. -/
def bodyOf (a : Addr) (bounceable testOnly : Bool) : Bytes :=
  tagOf bounceable testOnly :: (a.wc % 256).toNat :: a.hash

theorem tagOf_lt (b t : Bool) : tagOf b t < 256 := by cases b <;> cases t <;> decide

theorem bodyOf_wf (a : Addr) (b t : Bool) (hw : Bytes.WF a.hash) : Bytes.WF (bodyOf a b t) := by
  intro x hx
  simp only [bodyOf, List.mem_cons] at hx
  rcases hx with rfl | rfl | hx
  · exact tagOf_lt b t
  · omega
  · exact hw x hx

theorem codeword_wf (body : Bytes) (hb : Bytes.WF body) : Bytes.WF (body ++ be16N (crcV body)) := by
  intro x hx
  rw [List.mem_append] at hx
  rcases hx with hx | hx
  · exact hb x hx
  · exact be16N_wf _ x hx

/-- `to_str(user-friendly)` of an address with a workchain in -128..127: base64 of body ++ crc16(body). -/
theorem toStr_friendly (a : Addr) (url b t : Bool) (hw : Bytes.WF a.hash) (hwc : -128 ≤ a.wc ∧ a.wc ≤ 127) :
    toStr a true url b t = some (encode url (bodyOf a b t ++ be16N (crcV (bodyOf a b t)))) := by
  have hcrc := model_crc16 (bodyOf a b t) (bodyOf_wf a b t hw)
  unfold bodyOf tagOf at hcrc
  simp only [toStr, wcByte?, hwc, and_self, if_true, Bool.not_true, Bool.false_eq_true, if_false]
  simp only [hcrc]
  rfl

/-- conversely `to_str(user-friendly)` raises for any other workchain. -/
theorem toStr_friendly_none (a : Addr) (url b t : Bool) (hwc : ¬ (-128 ≤ a.wc ∧ a.wc ≤ 127)) :
    toStr a true url b t = none := by
  simp [toStr, wcByte?, hwc]

theorem signedByte_wc (wc : Int) (hwc : -128 ≤ wc ∧ wc ≤ 127) : signedByte [(wc % 256).toNat] = wc := by
  unfold signedByte
  simp only
  split <;> omega

/-- `is_b64` on the text of a codeword whose body is `tagOf b t :: wc byte :: 32-byte hash`. -/
theorem isB64_friendly (a : Addr) (url b t : Bool) (hw : Bytes.WF a.hash) (hlen : a.hash.length = 32)
    (hwc : -128 ≤ a.wc ∧ a.wc ≤ 127) :
    isB64 (encode url (bodyOf a b t ++ be16N (crcV (bodyOf a b t))))
      = some { wc := a.wc, hash := a.hash, bounceable := b, testOnly := t } := by
  have hbw := bodyOf_wf a b t hw
  have hblen : (bodyOf a b t).length = 34 := by simp [bodyOf, hlen]
  have hdec := decodeUrlsafe_encode url _ (codeword_wf _ hbw)
  have ht : (bodyOf a b t ++ be16N (crcV (bodyOf a b t))).take 34 = bodyOf a b t := List.take_left' hblen
  have hd : (bodyOf a b t ++ be16N (crcV (bodyOf a b t))).drop 34 = be16N (crcV (bodyOf a b t)) :=
    List.drop_left' hblen
  have hcrc := model_crc16 _ hbw
  generalize hC : be16N (crcV (bodyOf a b t)) = C at *
  unfold isB64
  rw [hdec]
  have hsplit : bodyOf a b t ++ C = tagOf b t :: ((a.wc % 256).toNat :: a.hash ++ C) := rfl
  rw [hsplit] at ht hd ⊢
  simp only [ht, hd, hcrc, bne_self_eq_false, Bool.false_eq_true, if_false]
  have h1 : ((tagOf b t :: ((a.wc % 256).toNat :: a.hash ++ C)).drop 1).take 1 = [(a.wc % 256).toNat] := by
    simp
  have h2 : ((tagOf b t :: ((a.wc % 256).toNat :: a.hash ++ C)).drop 2).take 32 = a.hash := by
    simp only [List.drop_succ_cons, List.cons_append, List.drop_zero]
    exact List.take_left' hlen
  rw [h1, h2, signedByte_wc a.wc hwc]
  cases b <;> cases t <;> rfl

/-! ### the raw form `"{wc}:{hash.hex()}"` -/

/-- a character that `int(.., base)` reads as a plain digit: no white space, sign, underscore, prefix letter
or colon. -/
def PlainDigit (base : Nat) (c : Char) : Prop :=
  isPySpace c = false ∧ c ≠ ':' ∧ c ≠ '_' ∧ c ≠ '-' ∧ c ≠ '+' ∧ c ≠ 'x' ∧ c ≠ 'X' ∧
    (digitVal? base c).isSome = true

theorem hexDigit_plain : ∀ n, n < 16 → PlainDigit 16 (hexDigit n) ∧ hexVal? (hexDigit n) = some n := by
  unfold PlainDigit; decide +kernel

theorem decDigit_plain : ∀ n, n < 10 →
    PlainDigit 10 (Char.ofNat (48 + n)) ∧ digitVal? 10 (Char.ofNat (48 + n)) = some n := by
  unfold PlainDigit; decide +kernel

/-- value of a digit string, most significant first. -/
def valOf (base : Nat) (s : List Char) : Nat :=
  s.foldl (fun a c => a * base + (digitVal? base c).getD 0) 0

theorem dropWhile_none {p : Char → Bool} : ∀ (s : List Char), (∀ c ∈ s, p c = false) → s.dropWhile p = s := by
  intro s h
  cases s with
  | nil => rfl
  | cons c r => simp [List.dropWhile, h c (by simp)]

theorem stripSpace_id (s : List Char) (h : ∀ c ∈ s, isPySpace c = false) : stripSpace s = s := by
  unfold stripSpace
  rw [dropWhile_none s h, dropWhile_none s.reverse (by simpa using h), List.reverse_reverse]

theorem digitsGo_plain (base : Nat) : ∀ (s : List Char), (∀ c ∈ s, PlainDigit base c) → ∀ (acc cnt : Nat),
    digitsGo base s acc cnt =
      some (s.foldl (fun a c => a * base + (digitVal? base c).getD 0) acc, cnt + s.length) := by
  intro s
  induction s with
  | nil => intro _ acc cnt; simp [digitsGo]
  | cons c r ih =>
    intro h acc cnt
    have hc := h c (by simp)
    obtain ⟨v, hv⟩ := Option.isSome_iff_exists.mp hc.2.2.2.2.2.2.2
    rw [digitsGo.eq_def]
    simp only [hc.2.2.1, if_false, hv]
    rw [ih (fun x hx => h x (by simp [hx]))]
    simp [hv]; omega

theorem stripHexPrefix_plain (base : Nat) (s : List Char) (h : ∀ c ∈ s, PlainDigit base c) :
    stripHexPrefix s = s := by
  match s, h with
  | [], _ => rfl
  | [_], _ => rfl
  | c :: x :: r, h =>
    have hx := h x (by simp)
    simp [stripHexPrefix, hx.2.2.2.2.2.1, hx.2.2.2.2.2.2.1]

/-- `int()` on an optional minus sign followed by plain digits. -/
theorem pyInt_plain (base : Nat) (neg : Bool) (ds : List Char) (hne : ds ≠ [])
    (hp : ∀ c ∈ ds, PlainDigit base c) (hlim : ¬ (base = 10 ∧ maxStrDigits < ds.length)) :
    pyInt base (if neg then '-' :: ds else ds)
      = some (if neg then -(valOf base ds : Int) else (valOf base ds : Int)) := by
  obtain ⟨c, r, rfl⟩ := List.exists_cons_of_ne_nil hne
  have hc := hp c (by simp)
  have hsp : ∀ x ∈ (if neg then '-' :: c :: r else c :: r), isPySpace x = false := by
    intro x hx
    cases neg
    · exact (hp x (by simpa using hx)).1
    · simp only [if_true, List.mem_cons] at hx
      rcases hx with rfl | hx
      · decide
      · exact (hp x (by simpa using hx)).1
  have hsign : stripSign (if neg then '-' :: c :: r else c :: r) = (neg, c :: r) := by
    cases neg
    · simp [stripSign, hc.2.2.2.1, hc.2.2.2.2.1]
    · simp [stripSign]
  have hpre : (if base = 16 then stripHexPrefix (c :: r) else c :: r) = c :: r := by
    split
    · exact stripHexPrefix_plain base _ hp
    · rfl
  unfold pyInt
  simp only [stripSpace_id _ hsp, hsign, hpre, hc.2.2.1, if_false, digitsGo_plain base (c :: r) hp 0 0,
    Nat.zero_add, hlim, valOf]

theorem decDigits_ne_nil (n : Nat) : decDigits n ≠ [] := by
  rw [decDigits]; split <;> simp

theorem decDigits_plain : ∀ (n : Nat), ∀ c ∈ decDigits n, PlainDigit 10 c := by
  intro n
  induction n using decDigits.induct with
  | case1 n h =>
    intro c hc
    rw [decDigits, if_pos h] at hc
    simp only [List.mem_cons, List.not_mem_nil, or_false] at hc
    rw [hc]; exact (decDigit_plain n h).1
  | case2 n h ih =>
    intro c hc
    rw [decDigits, if_neg h, List.mem_append] at hc
    rcases hc with hc | hc
    · exact ih c hc
    · simp only [List.mem_cons, List.not_mem_nil, or_false] at hc
      rw [hc]; exact (decDigit_plain (n % 10) (by omega)).1

theorem decDigits_val : ∀ (n : Nat), valOf 10 (decDigits n) = n := by
  intro n
  induction n using decDigits.induct with
  | case1 n h =>
    rw [decDigits, if_pos h]
    simp [valOf, (decDigit_plain n h).2]
  | case2 n h ih =>
    rw [decDigits, if_neg h]
    unfold valOf at ih ⊢
    rw [List.foldl_append, ih]
    simp only [List.foldl_cons, List.foldl_nil, (decDigit_plain (n % 10) (by omega)).2, Option.getD_some]
    omega

/-- `int(str(z)) == z` whenever `str(z)` exists. -/
theorem pyInt_pyStrInt (z : Int) (w : List Char) (h : pyStrInt z = some w) : pyInt 10 w = some z := by
  unfold pyStrInt at h
  simp only at h
  split at h
  · cases h
  · rename_i hlim
    injection h with h
    have := pyInt_plain 10 (decide (z < 0)) (decDigits z.natAbs) (decDigits_ne_nil _) (decDigits_plain _)
      (by intro hh; exact hlim hh.2)
    rw [decDigits_val] at this
    by_cases hz : z < 0
    · simp only [hz, decide_true, if_true] at this h
      rw [← h, this]; congr 1; omega
    · simp only [hz, decide_false, Bool.false_eq_true, if_false] at this h
      rw [← h, this]; congr 1; omega

theorem pyStrInt_no_colon (z : Int) (w : List Char) (h : pyStrInt z = some w) : ∀ c ∈ w, c ≠ ':' := by
  unfold pyStrInt at h
  simp only at h
  split at h
  · cases h
  · injection h with h
    intro c hc
    rw [← h] at hc
    split at hc
    · simp only [List.mem_cons] at hc
      rcases hc with rfl | hc
      · decide
      · exact (decDigits_plain _ c hc).2.1
    · exact (decDigits_plain _ c hc).2.1

theorem hexChars_plain : ∀ (bs : Bytes), Bytes.WF bs → ∀ c ∈ hexChars bs, PlainDigit 16 c := by
  intro bs hw c hc
  unfold hexChars at hc
  rw [List.mem_flatMap] at hc
  obtain ⟨b, hb, hc⟩ := hc
  have := hw b hb
  simp only [List.mem_cons, List.not_mem_nil, or_false] at hc
  rcases hc with rfl | rfl
  · exact (hexDigit_plain _ (by omega)).1
  · exact (hexDigit_plain _ (by omega)).1

theorem pyFromHex_hexChars : ∀ (bs : Bytes), Bytes.WF bs → pyFromHex (hexChars bs) = some bs := by
  intro bs
  induction bs with
  | nil => intro _; rfl
  | cons b bs ih =>
    intro hw
    have hb : b < 256 := hw b (by simp)
    have h1 := hexDigit_plain (b / 16) (by omega)
    have h2 := hexDigit_plain (b % 16) (by omega)
    have e : hexChars (b :: bs) = hexDigit (b / 16) :: hexDigit (b % 16) :: hexChars bs := rfl
    rw [e, pyFromHex]
    simp only [h1.1.1, Bool.false_eq_true, if_false, h1.2, h2.2, ih (fun x hx => hw x (by simp [hx]))]
    congr 2; omega

theorem splitColon_two : ∀ (w h : List Char), (∀ c ∈ w, c ≠ ':') → (∀ c ∈ h, c ≠ ':') →
    splitColon (w ++ ':' :: h) = [w, h] := by
  intro w
  induction w with
  | nil => intro h _ hh; simp [splitColon, splitColon_no_colon h hh]
  | cons c w ih =>
    intro h hw hh
    have hc : c ≠ ':' := hw c (by simp)
    simp [splitColon, hc, ih h (fun x hx => hw x (by simp [hx])) hh]

/-- `is_hex` on the raw text of an address with a non-empty hash. -/
theorem isHex_raw (z : Int) (w : List Char) (hash : Bytes) (hz : pyStrInt z = some w) (hw : Bytes.WF hash)
    (hne : hash ≠ []) : isHex (w ++ ':' :: hexChars hash) = some { wc := z, hash := hash } := by
  have hp := hexChars_plain hash hw
  unfold isHex
  rw [splitColon_two w _ (pyStrInt_no_colon z w hz) (fun c hc => (hp c hc).2.1)]
  have hhne : hexChars hash ≠ [] := by
    obtain ⟨b, r, rfl⟩ := List.exists_cons_of_ne_nil hne
    simp [hexChars]
  have h16 := pyInt_plain 16 false (hexChars hash) hhne hp (by simp)
  simp only [Bool.false_eq_true, if_false] at h16
  simp only [h16, pyInt_pyStrInt z w hz, pyFromHex_hexChars hash hw]

theorem decDigits_length_le : ∀ (k n : Nat), n < 10 ^ (k + 1) → (decDigits n).length ≤ k + 1 := by
  intro k
  induction k with
  | zero =>
    intro n h
    rw [decDigits, if_pos (by simpa using h)]; simp
  | succ k ih =>
    intro n h
    rw [decDigits]
    split
    · simp
    · have h2 : n / 10 < 10 ^ (k + 1) := by
        apply Nat.div_lt_of_lt_mul
        rw [Nat.pow_succ] at h; omega
      have := ih (n / 10) h2
      simp only [List.length_append, List.length_cons, List.length_nil]; omega

/-- `str(z)` exists for every integer of at most 4300 digits. -/
theorem pyStrInt_isSome (z : Int) (h : z.natAbs < 10 ^ (4299 + 1)) : (pyStrInt z).isSome = true := by
  have := decDigits_length_le 4299 z.natAbs h
  unfold pyStrInt maxStrDigits
  simp only
  rw [if_neg (by omega)]
  rfl

end TonVerif.Proofs.Address
