/-
Generation-independent lemmas for the TL framing source theorems (`c14_src_*`, `c19_src_*`): the translator's bytes
built-ins (`PyBytes.lean`, `PyBytes2.lean`) against the little-endian helpers of Spec/Tl.lean and the slices of the TL models.
Nothing here mentions a `Generated.*` definition.
-/
import TonVerif.Proofs.SrcArith2
import TonVerif.Spec.Tl

namespace TonVerif.Proofs.SrcTl
open TonVerif

theorem natToLE_eq (w v : Nat) : Spec.Tl.natToLE w v = (natToBE w v).reverse := by
  induction w generalizing v with
  | zero => rfl
  | succ w ih => simp [Spec.Tl.natToLE, natToBE, ih]

theorem natOfBE_append (bs : Bytes) (b : Nat) : natOfBE (bs ++ [b]) = natOfBE bs * 256 + b := by
  simp [natOfBE, List.foldl_append]

theorem natOfLE_eq (bs : Bytes) : Spec.Tl.natOfLE bs = natOfBE bs.reverse := by
  induction bs with
  | nil => rfl
  | cons b bs ih => simp [Spec.Tl.natOfLE, natOfBE_append, ih]; omega

theorem py_toBytes_le (w v : Nat) : Py.toBytes false w v = Spec.Tl.natToLE w v := by
  simp [Py.toBytes, natToLE_eq]

theorem py_fromBytes_le (bs : Bytes) : Py.fromBytes false bs = Spec.Tl.natOfLE bs := by
  simp [Py.fromBytes, natOfLE_eq]

/-- `data[i + a : i + b] = data[i:][a:b]` -/
theorem py_slice_shift {α : Type} (xs : List α) (i a b : Nat) : Py.slice xs (i + a) (i + b) = Py.slice (xs.drop i) a b := by
  simp [Py.slice, List.take_drop, List.drop_drop]

theorem py_slice_shift0 {α : Type} (xs : List α) (i b : Nat) : Py.slice xs i (i + b) = (xs.drop i).take b := by
  have := py_slice_shift xs i 0 b
  simpa [Py.slice] using this

theorem py_repeat_zero (k : Nat) : Py.repeatBytes ([0] : Bytes) k = List.replicate k 0 := by
  induction k with
  | zero => rfl
  | succ k ih => simp [Py.repeatBytes, List.replicate_succ] at ih ⊢

end TonVerif.Proofs.SrcTl
