/-
Semantic layer, first half: every cell object built (`Cell.build`) from a spec-valid (`CellSpec.TreeWF`), typed
(`Typed`) tree satisfies `SemOK`, and the cell it denotes (`scellOf`) is the tree's (`toSCell`).

Node level (`node_sem`): on top of C02's `construct_agrees`, the constructed info's cached representation hash
`_hashes[-1]` is `get_hash(3)` (`construct_hash3`), the spec mask is ≤ 7 and the spec values are `Stable`.
Tree level (`build_sem` / `builds_sem`): mutual induction over `Cell.build` / `Cell.builds`.
-/
import TonVerif.Proofs.BocSem
import TonVerif.Proofs.OrdCell

namespace TonVerif.Proofs.BocSem
open TonVerif TonVerif.Model TonVerif.Spec.Boc TonVerif.Proofs.BocOrder TonVerif.Proofs.BocEmit
open TonVerif.Proofs.CellSpec

set_option linter.unusedSimpArgs false

/-! ### one node -/

theorem bitLength_le3 (m : Nat) (h : m ≤ 7) : bitLength m ≤ 3 := by
  obtain ⟨b0, b1, b2, b3, b4, b5, b6, b7⟩ := bitLength_vals
  have : m = 0 ∨ m = 1 ∨ m = 2 ∨ m = 3 ∨ m = 4 ∨ m = 5 ∨ m = 6 ∨ m = 7 := by omega
  rcases this with rfl | rfl | rfl | rfl | rfl | rfl | rfl | rfl <;> omega

theorem node_mask (H : Bytes → Bytes) (k : Spec.Kind) (bits : Bits) (kss : List Spec.SInfo) :
    (Spec.node H k bits kss).mask = Spec.nodeMask k bits kss := by
  cases k <;> rfl

/-- the spec values of a node with level mask ≤ 7 do not change above level 3 (a fortiori above level 4) -/
theorem node_stable (H : Bytes → Bytes) (k : Spec.Kind) (bits : Bits) (kss : List Spec.SInfo)
    (hm : Spec.nodeMask k bits kss ≤ 7) : Stable (Spec.node H k bits kss) := by
  intro l
  by_cases hl : l ≤ 4
  · rw [Nat.min_eq_left hl]; exact ⟨rfl, rfl⟩
  · have hl' : 4 ≤ l := by omega
    rw [Nat.min_eq_right hl']
    have hb := bitLength_le3 _ hm
    by_cases hp : k = .pruned
    · subst hp
      have hnode : Spec.node H .pruned bits kss = Spec.SInfo.mk (Spec.nodeMask .pruned bits kss)
          (Spec.prunedHashAt H bits (Spec.nodeMask .pruned bits kss))
          (Spec.prunedDepthAt bits (Spec.nodeMask .pruned bits kss)) := rfl
      rw [hnode]
      generalize Spec.nodeMask .pruned bits kss = mask at *
      simp only [Spec.prunedHashAt, Spec.prunedDepthAt]
      rw [mod_ge_bitLength mask (l := l) (by omega), mod_ge_bitLength mask (l := 4) (by omega)]
      exact ⟨rfl, rfl⟩
    · rw [node_plain H k bits kss hp]
      generalize Spec.nodeMask k bits kss = mask at *
      simp only
      rw [plainHashAt_ge H k bits kss mask (l := l) (by omega), plainHashAt_ge H k bits kss mask (l := 4) (by omega),
        plainDepthAt_ge k kss mask (l := l) (by omega), plainDepthAt_ge k kss mask (l := 4) (by omega)]
      exact ⟨rfl, rfl⟩

theorem getLast?_eq_of_length {α : Type} (xs : List α) (n : Nat) (h : xs.length = n + 1) :
    xs.getLast? = xs[n]? := by
  rw [List.getLast?_eq_getElem?, h, Nat.add_sub_cancel]

/-- non-pruned node: `_hashes` has `popcount mask + 1` entries, so `_hashes[-1]` is `get_hash(3)` -/
theorem construct_hash3_plain (H : Bytes → Bytes) (k : Spec.Kind) (bits : Bits)
    (kis : List CellInfo) (kss : List Spec.SInfo)
    (hk : AllAgree kis kss) (wf : NodeWF H k bits kss) (hnp : k ≠ .pruned) (i : CellInfo)
    (hc : construct H (kindCode k) bits kis = some i) : i.getHash 3 = some i.hash := by
  obtain ⟨hres, hm⟩ := resolveMask_eq H k bits kis kss hk wf
  obtain ⟨f1, f2, f3, f4⟩ := kind_facts k hnp
  have hdepth := wf.depthOk hnp
  rw [node_plain H k bits kss hnp] at hdepth
  simp only at hdepth
  generalize Spec.nodeMask k bits kss = mask at *
  obtain ⟨st, hfold, hidx, hlh, hld, hall⟩ :=
    loop_plain H k bits kis kss mask hk hnp wf.bitsLen wf.nrefs hm hdepth (bitLength mask)
  obtain ⟨x, hx⟩ := getLast?_isSome st.hashes (by omega)
  have hlen := hk.length_eq
  have hc' : construct H (kindCode k) bits kis = some
      { kind := kindCode k, bits := bits, nrefs := kis.length, mask := mask, hashes := st.hashes, depths := st.depths } := by
    simp only [construct, hres, Option.bind_eq_bind, Option.bind_some, f2, Bool.false_eq_true, if_false, Nat.sub_self,
      hfold, f1, hlen, descriptors_eq kss.length k.isExotic bits.length mask wf.nrefs wf.bitsLen hm, hx, Option.pure_def]
  rw [hc'] at hc
  cases hc
  rw [mod_ge_bitLength mask (Nat.le_refl _)] at hidx
  have h8 : mask % 2 ^ 3 = mask := Nat.mod_eq_of_lt (by omega)
  have hlast := getLast?_eq_of_length st.hashes (popcount mask) (by omega)
  simp only [CellInfo.getHash, CellInfo.hash, f2, Bool.false_eq_true, if_false, hashIndexAt, maskApply, h8]
  rw [← hlast, hx]
  rfl

/-- pruned node: exactly one cached hash, and `get_hash(3)` reads it -/
theorem construct_hash3_pruned (H : Bytes → Bytes) (bits : Bits)
    (kis : List CellInfo) (kss : List Spec.SInfo)
    (hk : AllAgree kis kss) (wf : NodeWF H .pruned bits kss) (i : CellInfo)
    (hc : construct H (kindCode .pruned) bits kis = some i) : i.getHash 3 = some i.hash := by
  obtain ⟨hres, hm⟩ := resolveMask_eq H .pruned bits kis kss hk wf
  obtain ⟨h1, h2, h3, h4⟩ := wf.pruned rfl
  subst h1
  have : kis = [] := by cases kis with
    | nil => rfl
    | cons a as => exact hk.elim
  subst this
  generalize Spec.nodeMask .pruned bits [] = mask at *
  have hfold := loop_pruned H bits mask h3 h4 wf.bitsLen
  have hkc : kindCode .pruned = kPruned := rfl
  rw [hkc] at hres hc
  have e1 : (kPruned == kPruned) = true := by decide
  have e2 : (kPruned != kOrdinary) = true := by decide
  have hc' : construct H kPruned bits [] = some
      { kind := kPruned, bits := bits, nrefs := 0, mask := mask,
        hashes := [H ([Spec.d1 0 true mask, Spec.d2 bits.length] ++ dataBytes bits)], depths := [0] } := by
    simp only [construct, hres, Option.bind_eq_bind, Option.bind_some, e1, e2, if_true, Nat.add_sub_cancel,
      hfold, List.length_nil, descriptors_eq 0 true bits.length mask (by omega) wf.bitsLen hm,
      List.getLast?_singleton, Option.pure_def]
  rw [hc'] at hc
  cases hc
  have h8 : mask % 2 ^ 3 = mask := Nat.mod_eq_of_lt (by omega)
  simp [CellInfo.getHash, CellInfo.hash, e1, hashIndexAt, maskApply, h8]

theorem construct_hash3 (H : Bytes → Bytes) (k : Spec.Kind) (bits : Bits)
    (kis : List CellInfo) (kss : List Spec.SInfo)
    (hk : AllAgree kis kss) (wf : NodeWF H k bits kss) (i : CellInfo)
    (hc : construct H (kindCode k) bits kis = some i) : i.getHash 3 = some i.hash := by
  by_cases hp : k = .pruned
  · subst hp; exact construct_hash3_pruned H bits kis kss hk wf i hc
  · exact construct_hash3_plain H k bits kis kss hk wf hp i hc

/-- everything the semantic layer needs of ONE constructed node over children that agree with their specs -/
theorem node_sem (H : Bytes → Bytes) (k : Spec.Kind) (bits : Bits)
    (kis : List CellInfo) (kss : List Spec.SInfo)
    (hk : AllAgree kis kss) (wf : NodeWF H k bits kss) (i : CellInfo)
    (hc : construct H (kindCode k) bits kis = some i) :
    Agrees i (Spec.node H k bits kss) ∧ i.kind = kindCode k ∧ i.bits = bits ∧
      (Spec.node H k bits kss).mask ≤ 7 ∧ Stable (Spec.node H k bits kss) ∧
      i.hash = (Spec.node H k bits kss).hashAt 3 := by
  obtain ⟨i', hc', hag, hkind, hbits, _⟩ := construct_agrees H k bits kis kss hk wf
  rw [hc] at hc'
  cases hc'
  have hm := (resolveMask_eq H k bits kis kss hk wf).2
  have h3 := construct_hash3 H k bits kis kss hk wf i hc
  rw [(hag.2 3).1] at h3
  refine ⟨hag, hkind, hbits, by rw [node_mask]; exact hm, node_stable H k bits kss hm, ?_⟩
  exact (Option.some.inj h3).symm

/-! ### trees -/

theorem kindD_of {kind : Int} {k : Spec.Kind} (h : kindOf kind = some k) : kindD kind = k := by
  simp [kindD, h]

mutual
  /-- the invariant of `Cell.build` on a spec-valid, typed tree: the object caches the model info of the tree, its
  spec values are the spec values of the tree and agree with the cached info, it denotes the tree, and every cell
  object below (and including) it is `SemOK` -/
  theorem build_sem (H : Bytes → Bytes) : ∀ (t : Cell) (p : PCell), TreeWF H t → Typed t → Cell.build H t = some p →
      Cell.info H t = some p.info ∧ specInfo H t = some (sinfoOf H p) ∧ Agrees p.info (sinfoOf H p) ∧
      scellOf p = toSCell t ∧ ∀ c ∈ subcells p, SemOK H c
    | .mk kind bits refs, p, wf, ty, hb => by
      rw [TreeWF] at wf
      obtain ⟨wfs, k, ks, hkind, hks, nwf⟩ := wf
      rw [Typed] at ty
      rw [Cell.build] at hb
      simp only [Option.bind_eq_bind, Option.bind_eq_some_iff] at hb
      obtain ⟨rs, hrs, i, hi, hp⟩ := hb
      cases hp
      obtain ⟨ih1, ih2, ih3, ih4, ih5⟩ := builds_sem H refs rs wfs ty.2 hrs
      have hkseq : ks = sinfosOf H rs := by rw [hks] at ih2; exact Option.some.inj ih2
      subst hkseq
      have hkc := kindCode_of_kindOf hkind
      have hi' : construct H (kindCode k) bits (rs.map PCell.info) = some i := by rw [hkc]; exact hi
      obtain ⟨hag, hik, hib, hmle, hst, hh⟩ := node_sem H k bits _ _ ih3 nwf i hi'
      have hik' : i.kind = kind := by rw [hik, hkc]
      have hs : sinfoOf H (.mk i rs) = Spec.node H k bits (sinfosOf H rs) := by
        rw [sinfoOf, hik', kindD_of hkind, hib]
      refine ⟨?_, ?_, ?_, ?_, ?_⟩
      · simp [Cell.info, ih1, hi, PCell.info]
      · simp [specInfo, hkind, hks, hs]
      · rw [hs]; exact hag
      · rw [scellOf, toSCell, hik', hib, ih4]
      · intro c hc
        rw [subcells] at hc
        rcases List.mem_cons.1 hc with rfl | hc
        · refine ⟨⟨k, ?_⟩, ?_, ?_, ?_, ?_, ?_⟩
          · show kindOf i.kind = some k
            rw [hik']; exact hkind
          · show i.kind ≠ kOrdinary → 8 ≤ i.bits.length ∧ (natOfBits (i.bits.take 8) : Int) = i.kind
            rw [hik', hib]; exact ty.1
          · rw [hs]; exact hag.1
          · rw [hs]; exact hmle
          · show natOfBE i.hash = _
            rw [hs, hh]
          · rw [hs]; exact hst
        · exact ih5 c hc
  theorem builds_sem (H : Bytes → Bytes) : ∀ (ts : List Cell) (ps : List PCell), TreesWF H ts → TypedL ts →
      Cell.builds H ts = some ps →
      Cell.infos H ts = some (ps.map PCell.info) ∧ specInfos H ts = some (sinfosOf H ps) ∧
      AllAgree (ps.map PCell.info) (sinfosOf H ps) ∧ scellsOf ps = toSCells ts ∧ ∀ c ∈ subcellsList ps, SemOK H c
    | [], ps, _, _, hb => by
      rw [Cell.builds] at hb; cases hb
      refine ⟨by simp [Cell.infos], by simp [specInfos, sinfosOf], by simp [sinfosOf, AllAgree], by simp [scellsOf, toSCells], ?_⟩
      intro c hc; simp [subcellsList] at hc
    | t :: ts, ps, wf, ty, hb => by
      rw [TreesWF] at wf
      rw [TypedL] at ty
      rw [Cell.builds] at hb
      simp only [Option.bind_eq_bind, Option.bind_eq_some_iff] at hb
      obtain ⟨p, hp, ps', hps, hq⟩ := hb
      cases hq
      obtain ⟨a1, a2, a3, a4, a5⟩ := build_sem H t p wf.1 ty.1 hp
      obtain ⟨b1, b2, b3, b4, b5⟩ := builds_sem H ts ps' wf.2 ty.2 hps
      refine ⟨by simp [Cell.infos, a1, b1], by simp [specInfos, sinfosOf, a2, b2], ?_, ?_, ?_⟩
      · rw [sinfosOf]; exact ⟨a3, b3⟩
      · rw [scellsOf, toSCells, a4, b4]
      · intro c hc
        rw [subcellsList] at hc
        rcases List.mem_append.1 hc with hc | hc
        · exact a5 c hc
        · exact b5 c hc
end

/-- **cells built from a spec-valid, typed tree**: every cell object reachable from the built root satisfies `SemOK`
(known kind, type byte, the cached level mask is the spec's and ≤ 7, the dict key is the number of the spec's
representation hash, the spec values are stable above level 4), and the root denotes the tree. -/
theorem sem_of_tree (H : Bytes → Bytes) (t : Cell) (p : PCell) (wf : CellSpec.TreeWF H t) (ty : Typed t)
    (hb : Cell.build H t = some p) :
    (∀ c ∈ subcells p, SemOK H c) ∧ scellOf p = toSCell t := by
  obtain ⟨_, _, _, h4, h5⟩ := build_sem H t p wf ty hb
  exact ⟨h5, h4⟩

/-- the full invariant, for users that also need the cached info / spec values of the root -/
theorem sem_of_tree_full (H : Bytes → Bytes) (t : Cell) (p : PCell) (wf : CellSpec.TreeWF H t) (ty : Typed t)
    (hb : Cell.build H t = some p) :
    Cell.info H t = some p.info ∧ specInfo H t = some (sinfoOf H p) ∧ Agrees p.info (sinfoOf H p) ∧
    scellOf p = toSCell t ∧ ∀ c ∈ subcells p, SemOK H c :=
  build_sem H t p wf ty hb

/-! ### the hypotheses are satisfiable: building never fails on a spec-valid tree; ordinary trees -/

mutual
  theorem build_of_info (H : Bytes → Bytes) : ∀ (t : Cell) (i : CellInfo), Cell.info H t = some i →
      ∃ p, Cell.build H t = some p ∧ p.info = i
    | .mk kind bits refs, i, h => by
      rw [Cell.info] at h
      simp only [Option.bind_eq_bind, Option.bind_eq_some_iff] at h
      obtain ⟨rs, hrs, hc⟩ := h
      obtain ⟨ps, hps, hmap⟩ := builds_of_infos H refs rs hrs
      refine ⟨.mk i ps, ?_, rfl⟩
      rw [Cell.build]
      simp [hps, hmap, hc]
  theorem builds_of_infos (H : Bytes → Bytes) : ∀ (ts : List Cell) (is : List CellInfo), Cell.infos H ts = some is →
      ∃ ps, Cell.builds H ts = some ps ∧ ps.map PCell.info = is
    | [], is, h => by
      rw [Cell.infos] at h; cases h
      exact ⟨[], by rw [Cell.builds], rfl⟩
    | t :: ts, is, h => by
      rw [Cell.infos] at h
      simp only [Option.bind_eq_bind, Option.bind_eq_some_iff] at h
      obtain ⟨i, hi, is', his, hq⟩ := h
      cases hq
      obtain ⟨p, hp, hpi⟩ := build_of_info H t i hi
      obtain ⟨ps, hps, hmap⟩ := builds_of_infos H ts is' his
      refine ⟨p :: ps, ?_, by simp [hpi, hmap]⟩
      rw [Cell.builds]
      simp [hp, hps]
end

/-- a spec-valid tree can always be built (C02 constructibility, lifted to cell objects) -/
theorem tree_builds (H : Bytes → Bytes) (t : Cell) (wf : TreeWF H t) : ∃ p, Cell.build H t = some p := by
  obtain ⟨i, _, hi, _⟩ := tree_agrees H t wf
  obtain ⟨p, hp, _⟩ := build_of_info H t i hi
  exact ⟨p, hp⟩

/-- `sem_of_tree` without the build hypothesis -/
theorem sem_of_tree_exists (H : Bytes → Bytes) (t : Cell) (wf : TreeWF H t) (ty : Typed t) :
    ∃ p, Cell.build H t = some p ∧ (∀ c ∈ subcells p, SemOK H c) ∧ scellOf p = toSCell t := by
  obtain ⟨p, hp⟩ := tree_builds H t wf
  exact ⟨p, hp, sem_of_tree H t p wf ty hp⟩

open TonVerif.Proofs.OrdCell in
mutual
  /-- every tree of ordinary cells within the limits (C01's domain) is spec-valid and typed -/
  theorem ord_treeWF (H : Bytes → Bytes) : ∀ (c : Cell), OrdWF c → ordDepth c ≤ 1023 →
      TreeWF H c ∧ Typed c ∧ ∃ s, specInfo H c = some s ∧ SGood H c s
    | .mk kind bits refs, wf, hd => by
      rw [OrdWF] at wf
      obtain ⟨hkind, hb, hr, wfs⟩ := wf
      subst hkind
      obtain ⟨t1, t2, ss, hss, hrel⟩ := ords_treesWF H refs wfs (ordDepthMax_le _ bits refs hd)
      refine ⟨?_, ?_, _, ?_, node_good H (-1) bits refs ss hrel⟩
      · rw [TreeWF]
        exact ⟨t1, .ordinary, ss, rfl, hss, node_wf H (-1) bits refs ss hrel hb hr hd⟩
      · rw [Typed]
        exact ⟨fun h => absurd rfl h, t2⟩
      · simp [specInfo, kindOf, hss]
  theorem ords_treesWF (H : Bytes → Bytes) : ∀ (cs : List Cell), OrdWFs cs → ordDepthMax cs ≤ 1023 →
      TreesWF H cs ∧ TypedL cs ∧ ∃ ss, specInfos H cs = some ss ∧ Rel H cs ss
    | [], _, _ => ⟨by simp [TreesWF], by simp [TypedL], [], by simp [specInfos], trivial⟩
    | c :: cs, wf, hd => by
      rw [OrdWFs] at wf
      simp only [ordDepthMax, natmax_eq] at hd
      obtain ⟨a1, a2, s, hs, hg⟩ := ord_treeWF H c wf.1 (by omega)
      obtain ⟨b1, b2, ss, hss, hrel⟩ := ords_treesWF H cs wf.2 (by omega)
      refine ⟨?_, ?_, s :: ss, by simp [specInfos, hs, hss], ⟨hg, hrel⟩⟩
      · rw [TreesWF]; exact ⟨a1, b1⟩
      · rw [TypedL]; exact ⟨a2, b2⟩
end

/-! Non-vacuity: a 5-bit ordinary cell over two ordinary leaves is spec-valid and typed for EVERY `H`; it builds, all
its cell objects are `SemOK`, and the root denotes the tree. -/
def sampleTree : Cell := .mk (-1) [true, false, true, true, false] [.mk (-1) [] [], .mk (-1) [true] []]

theorem sampleTree_ok (H : Bytes → Bytes) : TreeWF H sampleTree ∧ Typed sampleTree := by
  have h := ord_treeWF H sampleTree (by simp [sampleTree, OrdCell.OrdWF, OrdCell.OrdWFs])
    (by simp [sampleTree, OrdCell.ordDepth, OrdCell.ordDepthMax])
  exact ⟨h.1, h.2.1⟩

example (H : Bytes → Bytes) : TreeWF H sampleTree ∧ Typed sampleTree := sampleTree_ok H

example (H : Bytes → Bytes) :
    ∃ p, Cell.build H sampleTree = some p ∧ (∀ c ∈ subcells p, SemOK H c) ∧ scellOf p = toSCell sampleTree :=
  sem_of_tree_exists H sampleTree (sampleTree_ok H).1 (sampleTree_ok H).2

/-- exotic non-vacuity: C02's pruned branch with the gap mask 0b110 is spec-valid and typed (first byte = type 1) -/
def prunedMask6 : Cell := .mk 1 (bytesToBits ([1, 6] ++ List.replicate 68 0)) []

example (H : Bytes → Bytes) : TreeWF H prunedMask6 ∧ Typed prunedMask6 := by
  constructor
  · unfold prunedMask6 TreeWF
    refine ⟨by simp [TreesWF], .pruned, [], by decide, by simp [specInfos], ?_⟩
    refine ⟨by decide +kernel, by decide, by simp, by simp, ?_, by simp, by simp, by simp⟩
    intro _
    refine ⟨rfl, by decide +kernel, ?_, ?_⟩ <;> decide +kernel
  · unfold prunedMask6 Typed
    refine ⟨fun _ => ⟨by decide +kernel, by decide +kernel⟩, by simp [TypedL]⟩

end TonVerif.Proofs.BocSem
