/-
Assembly of the full C04 statement: `strictParse H (to_boc t) = some [toSCell t]`.
-/
import TonVerif.Proofs.BocSemEval
import TonVerif.Proofs.BocSemTree

namespace TonVerif.Proofs.BocSem
open TonVerif TonVerif.Model TonVerif.Spec.Boc TonVerif.Proofs.BocOrder TonVerif.Proofs.BocEmit TonVerif.Proofs.CellSpec

theorem specInfos_length (H : Bytes → Bytes) : ∀ (ts : List Cell) (ks : List Spec.SInfo), specInfos H ts = some ks → ks.length = ts.length
  | [], ks, h => by rw [specInfos] at h; cases h; rfl
  | t :: ts, ks, h => by
    rw [specInfos] at h
    simp only [Option.bind_eq_bind, Option.bind_eq_some_iff] at h
    obtain ⟨i, _, is, his, hq⟩ := h
    cases hq
    simp [specInfos_length H ts is his]

mutual
  /-- spec-valid typed trees are in the emitter's input domain -/
  theorem shape_of (H : Bytes → Bytes) : ∀ (t : Cell), TreeWF H t → Typed t → Shape t
    | .mk kind bits refs, wf, ty => by
      rw [TreeWF] at wf; rw [Typed] at ty; rw [Shape]
      obtain ⟨wfs, k, ks, _, hks, nwf⟩ := wf
      refine ⟨?_, fun h => (ty.1 h).1, shapes_of H refs wfs ty.2⟩
      rw [← specInfos_length H refs ks hks]
      exact nwf.nrefs
  theorem shapes_of (H : Bytes → Bytes) : ∀ (ts : List Cell), TreesWF H ts → TypedL ts → Shapes ts
    | [], _, _ => by rw [Shapes]; trivial
    | t :: ts, wf, ty => by
      rw [TreesWF] at wf; rw [TypedL] at ty; rw [Shapes]
      exact ⟨shape_of H t wf.1 ty.1, shapes_of H ts wf.2 ty.2⟩
end

/-- `to_boc` of a well-formed typed tree is accepted by the FULL strict reader and decodes to the same tree -/
theorem strictParse_toBoc (H : Bytes → Bytes) (t : Cell) (wf : TreeWF H t) (ty : Typed t) (p : PCell)
    (hb : Cell.build H t = some p) (nc : NoCollision p) (fuel : Nat) (ord : List PCell) (h : p.order fuel = some ord)
    (o : Opts) (hv : o.valid = true) (hn : ord.length < 2 ^ 32)
    (hP : (payloadOf (sizeW (orderRecs ord)) (orderRecs ord)).length * 2 < 2 ^ 64) :
    ValidOrder p ord ∧ ∃ bs, p.toBoc fuel o = some bs ∧ strictParse H bs = some [toSCell t] := by
  have sh := shape_of H t wf ty
  have okp := build_ok H t p sh hb
  obtain ⟨vo, bs, hbs, hflat⟩ := toBoc_conforms p fuel ord o hv nc okp h hn hP
  obtain ⟨sem, hsc⟩ := sem_of_tree H t p wf ty hb
  refine ⟨vo, bs, hbs, ?_⟩
  rw [← hsc]
  exact strictParse_order H ord (ordOK_of_valid H p ord vo nc okp sem) p vo.root_first bs hflat

/-- the same for ANY valid order of the cells (the implementation's freedom), not only the one `Cell.order` computes -/
theorem strictParse_anyOrder (H : Bytes → Bytes) (t : Cell) (wf : TreeWF H t) (ty : Typed t) (p : PCell)
    (hb : Cell.build H t = some p) (nc : NoCollision p) (ord : List PCell) (vo : ValidOrder p ord)
    (o : Opts) (hv : o.valid = true) (hn : ord.length < 2 ^ 32)
    (hP : (payloadOf (sizeW (orderRecs ord)) (orderRecs ord)).length * 2 < 2 ^ 64) :
    ∃ recs bs, flattenCells (indexMap ord) ord = some recs ∧ emit recs o = some bs ∧
      strictParse H bs = some [toSCell t] := by
  have okp := build_ok H t p (shape_of H t wf ty) hb
  have okord : ∀ c ∈ ord, CellOK c := fun c hc => okp c (vo.sound c hc)
  obtain ⟨hfl, hok, hfw⟩ := flatten_order p ord vo okord
  have hlen : (orderRecs ord).length = ord.length := by simp [orderRecs]
  have h1 : 1 ≤ (orderRecs ord).length := by
    rw [hlen]
    have := vo.root_first
    cases ord with
    | nil => simp at this
    | cons a l => simp
  obtain ⟨bs, he, _, hs⟩ := strictFlat_emit o (orderRecs ord) hv h1 (by rw [hlen]; exact hn) hP hok hfw
  obtain ⟨sem, hsc⟩ := sem_of_tree H t p wf ty hb
  refine ⟨_, bs, hfl, he, ?_⟩
  rw [← hsc]
  apply strictParse_order H ord (ordOK_of_valid H p ord vo nc okp sem) p vo.root_first bs
  rw [hs]
  simp [orderRecs, cellSRec, cell_toSRec, Function.comp_def]

end TonVerif.Proofs.BocSem
