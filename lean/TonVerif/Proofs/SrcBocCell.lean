/-
`Generated.BocHeader.cell_layout` (regenerated on every run from the statements of `Boc.deserialize_cell`,
pytoniq_core/boc/deserialize.py, that precede `bits = bitarray()`) equals the first part `cellLayout` of the hand model's cell
reader, and the hand model's `deserializeCell` is that first part followed by `cellRest` (Model/BocHeaderView.lean).
-/
import TonVerif.Model.BocHeaderView
import TonVerif.Proofs.SrcBytes
import TonVerif.Proofs.SrcArith

namespace TonVerif.Proofs.SrcBocCell
open TonVerif TonVerif.Model TonVerif.Model.BocParse TonVerif.Generated.BocHeader
open TonVerif.Proofs.SrcBytes

/-- the hand model's cell reader = layout part, then data bits / completion tag / exotic type / reference indices. -/
theorem deserializeCell_eq (data : Bytes) (refSize : Nat) :
    deserializeCell data refSize = (cellLayout data refSize).bind (cellRest data refSize) := by
  unfold deserializeCell cellLayout cellRest
  cases h0 : data[0]? with
  | none => rfl
  | some d1 =>
    simp only [Option.bind_some, ite_none_bind]
    cases h1 : data[1]? with
    | none => rfl
    | some d2 =>
      simp only [Option.bind_some, ite_none_bind]

/-- **the regenerated first part of `deserialize_cell` is the hand model's**, for every byte list and index width: the same
raise / continue decision (missing descriptor bytes, absent-cell marker, too few bytes for stored hashes + depths + data +
reference indices) and the same number of references, exotic flag, completion-tag flag, number of data bytes and start
position of the data (behind `popcount(level mask) + 1` stored hashes of 32 bytes and depths of 2 bytes, if present). -/
theorem src_cell_layout_eq (data : Bytes) (refSize : Nat) : cell_layout data refSize = cellLayout data refSize := by
  unfold cell_layout cellLayout
  cases h0 : data[0]? with
  | none => rfl
  | some d1 =>
    cases h1 : data[1]? with
    | none =>
      simp only [Option.bind_some, Option.bind_none]
      split <;> simp
    | some d2 =>
      -- everything as arithmetic on d1, d2
      simp only [Option.bind_some, and7, and1a, and16a, and8a, shiftRight_lit, Nat.reducePow, TonVerif.Proofs.SrcArith.py_popcount_eq,
        decide_eq_true_eq, beq_iff_eq, Bool.and_eq_true, bne_iff_ne, ne_eq]
      have p : ¬ (popcount (d1 / 32) + 1) * 32 = 0 := by omega
      have hex : decide (¬ d1 / 8 % 2 * 8 = 0) = (d1 / 8 % 2 == 1) := by
        rw [Bool.eq_iff_iff]; simp only [decide_eq_true_eq, beq_iff_eq]; omega
      have hau : decide (¬ d2 % 2 = 0) = (d2 % 2 == 1) := by
        rw [Bool.eq_iff_iff]; simp only [decide_eq_true_eq, beq_iff_eq]; omega
      rw [hex, hau]
      by_cases hh : d1 / 16 % 2 = 1
      · have e : ¬ d1 / 16 % 2 * 16 = 0 := by omega
        simp only [e, p, not_false_eq_true, if_true, and_true]
        simp only [hh, p, if_true, and_true, not_false_eq_true]
        by_cases h7 : d1 % 8 = 7
        · simp only [h7, if_true]
        · simp only [h7, if_false]
          rcases Nat.lt_or_ge data.length (2 + ((popcount (d1 / 32) + 1) * 32 + (popcount (d1 / 32) + 1) * 2 + (d2 / 2 + d2 % 2) + refSize * (d1 % 8))) with hl | hl
          · rw [if_pos (by omega), if_pos (by omega)]
          · rw [if_neg (by omega), if_neg (by omega)]
      · have e : d1 / 16 % 2 * 16 = 0 := by omega
        simp only [e, not_true_eq_false, if_false, and_false, Nat.zero_add, Nat.add_zero]
        simp only [hh, not_true_eq_false, if_false, and_false, Nat.zero_add, Nat.add_zero]
        rcases Nat.lt_or_ge data.length (2 + (d2 / 2 + d2 % 2 + refSize * (d1 % 8))) with hl | hl
        · rw [if_pos (by omega), if_pos (by omega)]
        · rw [if_neg (by omega), if_neg (by omega)]

end TonVerif.Proofs.SrcBocCell
