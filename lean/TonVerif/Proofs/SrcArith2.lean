/-
Generation-independent lemmas for the round-2 source theorems (`cXX_src_*` of C09, C11, C12, C13, C14, C15, C17, C19):
the translator's `bytes` built-ins (`PyBytes.lean`, `PyBytes2.lean`) expressed through the functions the hand models use.
Nothing here mentions a `Generated.*` definition: a source change can never break this file.
-/
import TonVerif.PyBytes2
import TonVerif.Model.Cell
import TonVerif.Proofs.SrcArith

namespace TonVerif.Proofs.SrcArith2
open TonVerif

/-- the translator's reading of `xs[a:b]` is the models' `pySlice`. -/
theorem py_slice_eq {α : Type} (xs : List α) (a b : Nat) : Py.slice xs a b = Model.pySlice xs a b := rfl

theorem py_toBytes_big (w v : Nat) : Py.toBytes true w v = natToBE w v := by simp [Py.toBytes]

theorem py_toBytes_little (w v : Nat) : Py.toBytes false w v = (natToBE w v).reverse := by simp [Py.toBytes]

theorem py_fromBytes_big (bs : Bytes) : Py.fromBytes true bs = natOfBE bs := by simp [Py.fromBytes]

theorem py_fromBytes_little (bs : Bytes) : Py.fromBytes false bs = natOfBE bs.reverse := by simp [Py.fromBytes]

/-- `int.to_bytes(w, 'big')` of the models (`none` = OverflowError) against the translator's total reading + side condition. -/
theorem toBytesBE?_eq (w v : Nat) : toBytesBE? w v = if v < 256 ^ w then some (Py.toBytes true w v) else none := by
  simp [toBytesBE?, Py.toBytes]

/-- Bool-valued `decide (a ≠ b)` is the models' `a != b`. -/
theorem decide_ne_eq_bne {α : Type} [BEq α] [LawfulBEq α] [DecidableEq α] (a b : α) : decide (a ≠ b) = (a != b) := by
  by_cases h : a = b <;> simp [h]

/-- closes `b₁ = b₂` between a regenerated Boolean test (unfolded) and the model's Boolean expression: both sides are turned
into propositions (`decide`, `!=`, `||`, `&&`, `!`), the translator's bytes built-ins into the models' functions, literal
arithmetic is evaluated, and `grind` decides the propositional / equational / linear-arithmetic rest.  It is about the
value computed, not the spelling: reordered operands, De Morgan forms, `1 + 32` for `33`, swapped sides of `!=` still prove. -/
macro "src_bool" : tactic =>
  `(tactic| (rw [Bool.eq_iff_iff]
             (try simp only [decide_eq_true_eq, Bool.or_eq_true, Bool.and_eq_true, Bool.not_eq_true', Bool.not_eq_eq_eq_not,
               Bool.not_true, Bool.not_false, decide_eq_false_iff_not, bne_iff_ne, beq_iff_eq, ne_eq, py_slice_eq, py_toBytes_big,
               py_toBytes_little, py_fromBytes_big, py_fromBytes_little, List.append_assoc, Nat.reduceAdd, Nat.reduceMul,
               Nat.reducePow, Nat.reduceSub, Bool.true_eq_false, Bool.false_eq_true, if_true, if_false])
             first | done | grind))

/-- the same for a goal that already is a proposition (`test = false ↔ bound`, side conditions). -/
macro "src_prop" : tactic =>
  `(tactic| ((try simp only [decide_eq_true_eq, Bool.or_eq_true, Bool.and_eq_true, Bool.not_eq_true', Bool.not_eq_eq_eq_not,
               Bool.not_true, Bool.not_false, decide_eq_false_iff_not, bne_iff_ne, beq_iff_eq, ne_eq, py_slice_eq, py_toBytes_big,
               py_toBytes_little, py_fromBytes_big, py_fromBytes_little, List.append_assoc, Nat.reduceAdd, Nat.reduceMul,
               Nat.reducePow, Nat.reduceSub, Bool.true_eq_false, Bool.false_eq_true, if_true, if_false])
             first | done | grind))

/-- finisher after the regenerated definition has been unfolded and the translator's built-ins rewritten: nothing left, or a
goal that `grind` / `omega` decide (different but equivalent spelling of a test, reordered sums, nested `if`s). -/
macro "src_close" : tactic =>
  `(tactic| first | done | rfl | omega | grind | (split <;> first | rfl | omega | grind) | (split <;> split <;> first | rfl | omega | grind))

end TonVerif.Proofs.SrcArith2
