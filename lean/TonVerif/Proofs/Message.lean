/- C15 helper lemmas, part 1: the builder programs of the model write exactly the spec encoding (`Appends`) -/
import TonVerif.Proofs.MsgBits
import TonVerif.Model.Message

namespace TonVerif.Proofs.Message
open TonVerif TonVerif.Model TonVerif.Model.BOp TonVerif.Model.Message TonVerif.Spec.Tlb
open TonVerif.Proofs.MsgBits

variable {R : Type}

/-- a builder in its valid range -/
def WFB (b : Builder R) : Prop := b.bits.length ≤ 1023 ∧ b.refs.length ≤ 4

/-- the chunk fits behind what the builder holds -/
def Fits (b : Builder R) (c : Chunk R) : Prop := b.bits.length + c.1.length ≤ 1023 ∧ b.refs.length + c.2.length ≤ 4

def app (b : Builder R) (c : Chunk R) : Builder R := ⟨b.bits ++ c.1, b.refs ++ c.2⟩

/-- `op` behaves as "append the encoding `e`" whenever the value has an encoding: it returns normally exactly
    when `e` fits, and then the builder holds the old content followed by `e` -/
def Appends (op : BOp R) (e : Enc R) : Prop :=
  ∀ b : Builder R, WFB b → ∀ c, e = some c →
    (Fits b c → op b = (app b c, true)) ∧ (¬ Fits b c → (op b).2 = false)

theorem app_wfb {b : Builder R} {c : Chunk R} (h : Fits b c) : WFB (app b c) := by
  unfold WFB app Fits at *; simp; omega

theorem Enc.cat_assoc (a b c : Enc R) : (a +++ b) +++ c = a +++ (b +++ c) := by
  rcases a with _ | ⟨a1, a2⟩ <;> rcases b with _ | ⟨b1, b2⟩ <;> rcases c with _ | ⟨c1, c2⟩ <;> simp [Enc.cat]

theorem Enc.cat_some {a b : Enc R} {c : Chunk R} (h : a +++ b = some c) :
    ∃ x y, a = some x ∧ b = some y ∧ c = (x.1 ++ y.1, x.2 ++ y.2) := by
  rcases a with _ | ⟨a1, a2⟩ <;> rcases b with _ | ⟨b1, b2⟩ <;> simp [Enc.cat] at h
  exact ⟨(a1, a2), (b1, b2), rfl, rfl, h.symm⟩

theorem Enc.cat_eNil (a : Enc R) : a +++ eNil = a := by
  rcases a with _ | ⟨a1, a2⟩ <;> simp [Enc.cat, eNil]

theorem Appends.andThen {f g : BOp R} {e1 e2 : Enc R} (hf : Appends f e1) (hg : Appends g e2) :
    Appends (f ⊳ g) (e1 +++ e2) := by
  intro b hb c hc
  obtain ⟨c1, c2, rfl, rfl, rfl⟩ := Enc.cat_some hc
  obtain ⟨hfit, hnfit⟩ := hf b hb c1 rfl
  by_cases h1 : Fits b c1
  · have hfb := hfit h1
    obtain ⟨hgfit, hgnfit⟩ := hg (app b c1) (app_wfb h1) c2 rfl
    constructor
    · intro hfit2
      have h2 : Fits (app b c1) c2 := by
        unfold Fits app at *; simp at *; omega
      have := hgfit h2
      simp only [BOp.andThen, hfb, if_true, this]
      simp [app, List.append_assoc]
    · intro hn
      have h2 : ¬ Fits (app b c1) c2 := by
        intro h2; apply hn; unfold Fits app at *; simp at *; omega
      have := hgnfit h2
      simp [BOp.andThen, hfb, this]
  · have hfb := hnfit h1
    constructor
    · intro hfit2; exfalso; apply h1; unfold Fits at *; simp at *; omega
    · intro _; simp [BOp.andThen, hfb]

theorem Appends.congr {f : BOp R} {e e' : Enc R} (h : Appends f e) (he : e = e') : Appends f e' := he ▸ h

/-! primitives -/

theorem appends_extend (xs : Bits) : Appends (extend xs : BOp R) (some (xs, [])) := by
  intro b hb c hc
  cases hc
  simp only [Fits, WFB] at *
  constructor
  · intro h; simp [extend, app]; omega
  · intro h
    have h2 : b.bits.length + xs.length > 1023 := by
      apply Classical.byContradiction; intro hc; apply h; simp; omega
    simp [extend, h2]

theorem appends_storeRef (r : R) : Appends (storeRef r) (eRef r) := by
  intro b hb c hc
  cases hc
  simp only [Fits, WFB] at *
  constructor
  · intro h; simp at h; simp [storeRef, app]; omega
  · intro h
    have h2 : b.refs.length ≥ 4 := by
      apply Classical.byContradiction; intro hc; apply h; simp; omega
    simp [storeRef, h2]

theorem appends_none (f : BOp R) : Appends f none := by
  intro b _ c hc; simp at hc

theorem appends_skip : Appends (BOp.skip : BOp R) eNil := by
  intro b hb c hc
  cases hc
  simp only [Fits, WFB] at *
  constructor
  · intro _; simp [skip, app]
  · intro h; exfalso; apply h; simp; omega

theorem appends_storeBit (x : Bool) : Appends (storeBit x : BOp R) (eBool x) := appends_extend [x]
theorem appends_storeBits (xs : Bits) : Appends (storeBits xs : BOp R) (eBits xs) := appends_extend xs
theorem appends_storeBytes (xs : Bytes) : Appends (storeBytes xs : BOp R) (eBits (bytesToBits xs)) := appends_extend _

theorem appends_storeUint (v : Int) (n : Nat) (hn : 0 < n) : Appends (storeUint v n : BOp R) (eUint n v) := by
  unfold eUint
  by_cases h : 0 ≤ v ∧ v < (2:Int) ^ n
  · simp only [h, and_self, if_true]
    unfold storeUint int2baU
    have hn' : n ≠ 0 := by omega
    have h0 : ¬ v < 0 := by omega
    have h1 : ¬ v.toNat ≥ 2 ^ n := by
      intro h1
      have : (v.toNat : Int) = v := Int.toNat_of_nonneg h.1
      have h3 : ((2 ^ n : Nat) : Int) ≤ v := by rw [← this]; exact_mod_cast h1
      simp at h3; omega
    simp only [hn', if_false, h0, h1]; exact appends_extend _
  · simp only [h, if_false]; exact appends_none _

theorem appends_storeInt (v : Int) (n : Nat) : Appends (storeInt v n : BOp R) (eInt n v) := by
  unfold eInt
  by_cases h : (-(2 ^ (n - 1) : Int) ≤ v ∧ v < (2 ^ (n - 1) : Int) ∧ 0 < n)
  · simp only [h, and_self, if_true]
    unfold storeInt int2baS
    have hn : n ≠ 0 := by omega
    have h' : ¬ (v < -(2 ^ (n - 1) : Int) ∨ v ≥ (2 ^ (n - 1) : Int)) := by omega
    simp only [hn, if_false, h']
    have e : (v ≥ 0) = (0 ≤ v) := rfl
    simp only [e]
    exact appends_extend _
  · simp only [h, if_false]; exact appends_none _

theorem appends_storeCell (cb : Bits) (cr : List R) : Appends (storeCell cb cr) (some (cb, cr)) := by
  intro b hb c hc
  cases hc
  simp only [Fits, WFB] at *
  constructor
  · intro h
    have h1 : ¬ (b.refs.length + cr.length > 4) := by omega
    have h2 : ¬ (b.bits.length + cb.length > 1023) := by omega
    simp [storeCell, extend, h1, h2, app]
  · intro h
    unfold storeCell
    by_cases h1 : b.refs.length + cr.length > 4
    · simp [h1]
    · have h2 : b.bits.length + cb.length > 1023 := by
        apply Classical.byContradiction; intro hc; apply h; omega
      simp [h1, extend, h2]

theorem appends_storeMaybeRef (o : Option R) : Appends (storeMaybeRef o) (eMaybeRef o) := by
  cases o with
  | none => exact appends_storeBit false
  | some r => exact (appends_storeBit true).andThen (appends_storeRef r)

theorem wfb_empty : WFB (Builder.empty : Builder R) := by simp [WFB, Builder.empty]

/-- running a program that appends `c` on the empty builder -/
theorem Appends.run {op : BOp R} {e : Enc R} (h : Appends op e) {c : Chunk R} (he : e = some c) :
    (c.1.length ≤ 1023 ∧ c.2.length ≤ 4 → op Builder.empty = (⟨c.1, c.2⟩, true)) ∧
    (¬ (c.1.length ≤ 1023 ∧ c.2.length ≤ 4) → (op Builder.empty).2 = false) := by
  obtain ⟨h1, h2⟩ := h Builder.empty wfb_empty c he
  constructor
  · intro hc
    have := h1 (by simpa [Fits, Builder.empty] using hc)
    simpa [app, Builder.empty] using this
  · intro hc
    exact h2 (by simpa [Fits, Builder.empty] using hc)

/-- a piece serialised on its own and then stored with `store_cell` -/
theorem Appends.sub {op : BOp R} {e : Enc R} (h : Appends op e) : Appends (Message.sub op) e := by
  intro b hb c hc
  obtain ⟨hfit, hnfit⟩ := h.run hc
  by_cases hE : c.1.length ≤ 1023 ∧ c.2.length ≤ 4
  · have hr := hfit hE
    have hs := (appends_storeCell c.1 c.2) b hb c rfl
    simp only [Message.sub, hr, if_true]
    exact hs
  · have hr := hnfit hE
    constructor
    · intro hf; exfalso; apply hE; unfold Fits at *; omega
    · intro _; simp [Message.sub, hr]

theorem appends_storeVarUint (v : Int) (k : Nat) (hk : 0 < k) : Appends (storeVarUint v k : BOp R) (eVarUint k v) := by
  unfold storeVarUint eVarUint
  by_cases h0 : v = 0
  · subst h0
    simp only [if_true, Int.toNat_zero, nbytes_zero, Nat.zero_mul, Int.le_refl]
    have : (eUint 0 0 : Enc R) = eNil := by simp [eUint, eNil, natToBits]
    rw [this, Enc.cat_eNil]
    exact appends_storeUint 0 k hk
  · simp only [h0, if_false]
    by_cases hneg : 0 ≤ v
    · simp only [hneg, if_true]
      have hb : (bitLen v.natAbs + 7) / 8 = nbytes v.toNat := by
        rw [bitLen_nbytes]; congr 1; omega
      simp only [hb]
      have hpos : 0 < nbytes v.toNat := by
        have : 0 < v.toNat := by omega
        rw [nbytes_pos _ this]; omega
      exact (appends_storeUint _ k hk).andThen (appends_storeUint v _ (by omega))
    · simp only [hneg, if_false]; exact appends_none _

theorem appends_storeCoins (v : Int) : Appends (storeCoins v : BOp R) (eGrams v) :=
  appends_storeVarUint v 4 (by omega)

theorem eUint_refs {n : Nat} {v : Int} {c : Chunk R} (h : eUint n v = some c) : c.2 = [] := by
  unfold eUint at h; split at h <;> simp at h; rw [← h]

theorem appends_storeAddress (a : Addr) : Appends (storeAddress a : BOp R) (eAddr a) := by
  cases a with
  | none => exact appends_storeBits _
  | ext len val =>
    have hin : Appends (storeBits [false, true] ⊳ storeUint len 9 ⊳ (if len = 0 ∧ val = 0 then skip else storeUint val len) : BOp R)
        (eBits [false, true] +++ eUint 9 len +++ (if len = 0 then (if val = 0 then eNil else none) else eUint len val)) := by
      rw [← Enc.cat_assoc]
      refine Appends.andThen (Appends.andThen (appends_storeBits _) (appends_storeUint _ 9 (by omega))) ?_
      by_cases h : len = 0
      · by_cases hv : val = 0
        · simp only [h, hv, and_self, if_true]; exact appends_skip
        · simp only [h, hv, and_false, if_true, if_false]; exact appends_none _
      · simp only [h, false_and, if_false]; exact appends_storeUint _ _ (by omega)
    intro b hb c hc
    have hc' : (eBits [false, true] +++ eUint 9 (len : Int) +++ (if len = 0 then (if val = 0 then eNil else none) else eUint len val) : Enc R) = some c := hc
    -- the inner cell has no refs
    have hc2 : c.2 = [] := by
      obtain ⟨x, y, hx, hy, rfl⟩ := Enc.cat_some hc'
      obtain ⟨y1, y2, hy1, hy2, rfl⟩ := Enc.cat_some hy
      have h1 : x.2 = [] := by simp [eBits] at hx; rw [← hx]
      have h2 : y1.2 = [] := eUint_refs hy1
      have h3 : y2.2 = [] := by
        split at hy2
        · split at hy2
          · simp [eNil] at hy2; rw [← hy2]
          · simp at hy2
        · exact eUint_refs hy2
      simp [h1, h2, h3]
    have hs := hin.sub b hb c hc'
    have key : storeAddress (Addr.ext len val) b
        = Message.sub (storeBits [false, true] ⊳ storeUint len 9 ⊳ (if len = 0 ∧ val = 0 then skip else storeUint val len)) b := by
      simp only [storeAddress, Message.sub]
      obtain ⟨hfit, hnfit⟩ := hin.run hc'
      by_cases hE : c.1.length ≤ 1023 ∧ c.2.length ≤ 4
      · rw [hfit hE]; simp [hc2]
      · have := hnfit hE
        generalize ((storeBits [false, true] ⊳ storeUint (len : Int) 9 ⊳ (if len = 0 ∧ val = 0 then skip else storeUint val len) : BOp R) Builder.empty) = r at *
        rcases r with ⟨rb, rf⟩
        simp at this; subst this; simp
    rw [key]; exact hs
  | std anycast wc hash =>
    simp only [storeAddress, eAddr]
    rw [← Enc.cat_assoc, ← Enc.cat_assoc]
    refine Appends.andThen (Appends.andThen (Appends.andThen (appends_storeBits _) ?_) (appends_storeInt wc 8)) ?_
    · cases anycast with
      | none => exact appends_storeBit false
      | some dp =>
        rcases dp with ⟨d, p⟩
        simp only
        by_cases hd : 1 ≤ d ∧ d ≤ 30
        · simp only [hd, and_self, if_true]
          rw [← Enc.cat_assoc]
          exact Appends.andThen (Appends.andThen (appends_storeBit true) (appends_storeUint _ 5 (by omega))) (appends_storeUint _ _ (by omega))
        · simp only [hd, if_false]; exact appends_none _
    · by_cases hh : hash.length = 32 ∧ Bytes.WF hash
      · simp only [hh, and_self, if_true]; exact appends_storeBytes _
      · simp only [hh, if_false]; exact appends_none _

/-! the composite serialisers -/

theorem appends_currencyB (c : Currency R) : Appends (currencyB c) (encCurrency c) :=
  (appends_storeCoins _).andThen (appends_storeMaybeRef _).sub

theorem appends_tickTockB (t : TickTock) : Appends (tickTockB t : BOp R) (encTickTock t) :=
  (appends_storeBit _).andThen (appends_storeBit _)

theorem appends_stateInitB (s : StateInit R) : Appends (stateInitB s) (encStateInit s) := by
  unfold stateInitB encStateInit
  rw [← Enc.cat_assoc, ← Enc.cat_assoc, ← Enc.cat_assoc]
  refine Appends.andThen (Appends.andThen (Appends.andThen (Appends.andThen ?_ ?_) (appends_storeMaybeRef _)) (appends_storeMaybeRef _)) (appends_storeMaybeRef _)
  · cases s.splitDepth with
    | none => exact appends_storeBit false
    | some d => exact (appends_storeBit true).andThen (appends_storeUint _ 5 (by omega))
  · cases s.special with
    | none => exact appends_storeBit false
    | some t => exact (appends_storeBit true).andThen (appends_tickTockB t).sub

theorem eUint_1_0 : (eUint 1 0 : Enc R) = eBool false := by simp [eUint, eBool, natToBits]
theorem eUint_2_2 : (eUint 2 2 : Enc R) = eBits [true, false] := by simp [eUint, eBits, natToBits]
theorem eUint_2_3 : (eUint 2 3 : Enc R) = eBits [true, true] := by simp [eUint, eBits, natToBits]

theorem appends_infoB (i : Info R) : Appends (infoB i) (encInfo i) := by
  cases i with
  | int a b c src dest value ihr fwd lt at_ =>
    unfold infoB encInfo
    simp only [← Enc.cat_assoc]
    rw [← eUint_1_0]
    exact ((((((((((appends_storeUint 0 1 (by omega)).andThen (appends_storeBit a)).andThen (appends_storeBit b)).andThen
      (appends_storeBit c)).andThen (appends_storeAddress src)).andThen (appends_storeAddress dest)).andThen
      (appends_currencyB value).sub).andThen (appends_storeCoins ihr)).andThen (appends_storeCoins fwd)).andThen
      (appends_storeUint lt 64 (by omega))).andThen (appends_storeUint at_ 32 (by omega))
  | extIn src dest fee =>
    unfold infoB encInfo
    simp only [← Enc.cat_assoc]
    rw [← eUint_2_2]
    exact (((appends_storeUint 2 2 (by omega)).andThen (appends_storeAddress src)).andThen (appends_storeAddress dest)).andThen
      (appends_storeCoins fee)
  | extOut src dest lt at_ =>
    unfold infoB encInfo
    simp only [← Enc.cat_assoc]
    rw [← eUint_2_3]
    exact ((((appends_storeUint 3 2 (by omega)).andThen (appends_storeAddress src)).andThen (appends_storeAddress dest)).andThen
      (appends_storeUint lt 64 (by omega))).andThen (appends_storeUint at_ 32 (by omega))


/-! sizes of encodings -/

def Enc.nrefs (e : Enc R) : Nat := match e with | some c => c.2.length | none => 0
def Enc.nbits (e : Enc R) : Nat := match e with | some c => c.1.length | none => 0

theorem nrefs_cat_le {a b : Enc R} {x y : Nat} (ha : Enc.nrefs a ≤ x) (hb : Enc.nrefs b ≤ y) : Enc.nrefs (a +++ b) ≤ x + y := by
  rcases a with _ | ⟨a1, a2⟩ <;> rcases b with _ | ⟨b1, b2⟩ <;> simp [Enc.cat, Enc.nrefs] at * <;> omega

theorem nbits_cat_le {a b : Enc R} {x y : Nat} (ha : Enc.nbits a ≤ x) (hb : Enc.nbits b ≤ y) : Enc.nbits (a +++ b) ≤ x + y := by
  rcases a with _ | ⟨a1, a2⟩ <;> rcases b with _ | ⟨b1, b2⟩ <;> simp [Enc.cat, Enc.nbits] at * <;> omega

theorem nrefs_eBool (x : Bool) : Enc.nrefs (eBool x : Enc R) ≤ 0 := by simp [eBool, Enc.nrefs]
theorem nrefs_eBits (x : Bits) : Enc.nrefs (eBits x : Enc R) ≤ 0 := by simp [eBits, Enc.nrefs]
theorem nrefs_eNil : Enc.nrefs (eNil : Enc R) ≤ 0 := by simp [eNil, Enc.nrefs]
theorem nrefs_eUint (n : Nat) (v : Int) : Enc.nrefs (eUint n v : Enc R) ≤ 0 := by
  unfold eUint; split <;> simp [Enc.nrefs]
theorem nrefs_eInt (n : Nat) (v : Int) : Enc.nrefs (eInt n v : Enc R) ≤ 0 := by
  unfold eInt; split <;> simp [Enc.nrefs]
theorem nrefs_eGrams (v : Int) : Enc.nrefs (eGrams v : Enc R) ≤ 0 := by
  unfold eGrams eVarUint; split
  · exact nrefs_cat_le (x := 0) (y := 0) (nrefs_eUint _ _) (nrefs_eUint _ _)
  · simp [Enc.nrefs]
theorem nrefs_eMaybeRef (o : Option R) : Enc.nrefs (eMaybeRef o) ≤ 1 := by
  cases o <;> simp [eMaybeRef, eBool, eRef, Enc.cat, Enc.nrefs]
theorem nrefs_eAddr (a : Addr) : Enc.nrefs (eAddr a : Enc R) ≤ 0 := by
  cases a with
  | none => exact nrefs_eBits _
  | ext len val =>
    unfold eAddr
    refine nrefs_cat_le (x := 0) (y := 0) (nrefs_eBits _) (nrefs_cat_le (x := 0) (y := 0) (nrefs_eUint _ _) ?_)
    split
    · split
      · exact nrefs_eNil
      · simp [Enc.nrefs]
    · exact nrefs_eUint _ _
  | std anycast wc hash =>
    unfold eAddr
    refine nrefs_cat_le (x := 0) (y := 0) (nrefs_eBits _) (nrefs_cat_le (x := 0) (y := 0) ?_ (nrefs_cat_le (x := 0) (y := 0) (nrefs_eInt _ _) ?_))
    · cases anycast with
      | none => exact nrefs_eBool _
      | some dp =>
        simp only; split
        · exact nrefs_cat_le (x := 0) (y := 0) (nrefs_eBool _) (nrefs_cat_le (x := 0) (y := 0) (nrefs_eUint _ _) (nrefs_eUint _ _))
        · simp [Enc.nrefs]
    · split
      · exact nrefs_eBits _
      · simp [Enc.nrefs]

theorem nrefs_encCurrency (c : Currency R) : Enc.nrefs (encCurrency c) ≤ 1 :=
  nrefs_cat_le (x := 0) (y := 1) (nrefs_eGrams _) (nrefs_eMaybeRef _)

/-- a header has at most one reference (the extra-currency dictionary) -/
theorem nrefs_encInfo (i : Info R) : Enc.nrefs (encInfo i) ≤ 1 := by
  cases i with
  | int a b c src dest value ihr fwd lt at_ =>
    exact nrefs_cat_le (x := 0) (y := 1) (nrefs_eBool _) <| nrefs_cat_le (x := 0) (y := 1) (nrefs_eBool _) <|
      nrefs_cat_le (x := 0) (y := 1) (nrefs_eBool _) <| nrefs_cat_le (x := 0) (y := 1) (nrefs_eBool _) <|
      nrefs_cat_le (x := 0) (y := 1) (nrefs_eAddr _) <| nrefs_cat_le (x := 0) (y := 1) (nrefs_eAddr _) <|
      nrefs_cat_le (x := 1) (y := 0) (nrefs_encCurrency _) <| nrefs_cat_le (x := 0) (y := 0) (nrefs_eGrams _) <|
      nrefs_cat_le (x := 0) (y := 0) (nrefs_eGrams _) <| nrefs_cat_le (x := 0) (y := 0) (nrefs_eUint _ _) (nrefs_eUint _ _)
  | extIn src dest fee =>
    exact Nat.le_trans (nrefs_cat_le (x := 0) (y := 0) (nrefs_eBits _) <| nrefs_cat_le (x := 0) (y := 0) (nrefs_eAddr _) <|
      nrefs_cat_le (x := 0) (y := 0) (nrefs_eAddr _) (nrefs_eGrams _)) (by omega)
  | extOut src dest lt at_ =>
    exact Nat.le_trans (nrefs_cat_le (x := 0) (y := 0) (nrefs_eBits _) <| nrefs_cat_le (x := 0) (y := 0) (nrefs_eAddr _) <|
      nrefs_cat_le (x := 0) (y := 0) (nrefs_eAddr _) <| nrefs_cat_le (x := 0) (y := 0) (nrefs_eUint _ _) (nrefs_eUint _ _)) (by omega)

theorem nbits_eBool (x : Bool) : Enc.nbits (eBool x : Enc R) ≤ 1 := by simp [eBool, Enc.nbits]
theorem nbits_eUint (n : Nat) (v : Int) : Enc.nbits (eUint n v : Enc R) ≤ n := by
  unfold eUint; split <;> simp [Enc.nbits, natToBits_length]
theorem nbits_eMaybeRef (o : Option R) : Enc.nbits (eMaybeRef o) ≤ 1 := by
  cases o <;> simp [eMaybeRef, eBool, eRef, Enc.cat, Enc.nbits]

/-- a state-init has at most 12 bits and 3 references -/
theorem size_encStateInit (s : StateInit R) : Enc.nbits (encStateInit s) ≤ 12 ∧ Enc.nrefs (encStateInit s) ≤ 3 := by
  unfold encStateInit
  constructor
  · refine Nat.le_trans (nbits_cat_le (x := 6) (y := 6) ?_ (nbits_cat_le (x := 3) (y := 3) ?_
      (nbits_cat_le (x := 1) (y := 2) (nbits_eMaybeRef _) (nbits_cat_le (x := 1) (y := 1) (nbits_eMaybeRef _) (nbits_eMaybeRef _))))) (by omega)
    · cases s.splitDepth with
      | none => exact Nat.le_trans (nbits_eBool _) (by omega)
      | some d => exact nbits_cat_le (x := 1) (y := 5) (nbits_eBool _) (nbits_eUint _ _)
    · cases s.special with
      | none => exact Nat.le_trans (nbits_eBool _) (by omega)
      | some t => exact nbits_cat_le (x := 1) (y := 2) (nbits_eBool _) (nbits_cat_le (x := 1) (y := 1) (nbits_eBool _) (nbits_eBool _))
  · refine Nat.le_trans (nrefs_cat_le (x := 0) (y := 3) ?_ (nrefs_cat_le (x := 0) (y := 3) ?_
      (nrefs_cat_le (x := 1) (y := 2) (nrefs_eMaybeRef _) (nrefs_cat_le (x := 1) (y := 1) (nrefs_eMaybeRef _) (nrefs_eMaybeRef _))))) (by omega)
    · cases s.splitDepth with
      | none => exact nrefs_eBool _
      | some d => exact nrefs_cat_le (x := 0) (y := 0) (nrefs_eBool _) (nrefs_eUint _ _)
    · cases s.special with
      | none => exact nrefs_eBool _
      | some t => exact nrefs_cat_le (x := 0) (y := 0) (nrefs_eBool _) (nrefs_cat_le (x := 0) (y := 0) (nrefs_eBool _) (nrefs_eBool _))


/-! ### `MessageAny.serialize`: which encoding it produces and that it always has room -/

theorem enc_some_sizes {e : Enc R} {c : Chunk R} (h : e = some c) : Enc.nbits e = c.1.length ∧ Enc.nrefs e = c.2.length := by
  subst h; simp [Enc.nbits, Enc.nrefs]

/-- what the body step needs from the builder it starts on -/
def BodyRoom (body : Chunk R) (b : Builder R) : Prop :=
  b.bits.length + 1 ≤ 1023 ∧
  (b.refs.length + 1 ≤ 4 ∨ (body.1.length + b.bits.length + 1 ≤ 1023 ∧ body.2.length + b.refs.length ≤ 4))

theorem bodyB_ok (ops : CellOps R) (ht : ops.Total) (body : Chunk R)
    (hbody : body.1.length ≤ 1023 ∧ body.2.length ≤ 4) (b : Builder R) (hb : WFB b) (hroom : BodyRoom body b) :
    ∃ br ch, encBody ops body br = some ch ∧ Fits b ch ∧ bodyB ops body b = some (app b ch, true) := by
  obtain ⟨h1, h2⟩ := hroom
  unfold bodyB
  by_cases hc : (decide ((body.1.length : Int) ≤ (1023 - (b.bits.length : Int)) - 1) && decide (body.2.length + b.refs.length ≤ 4)) = true
  · simp only [hc, if_true]
    simp only [Bool.and_eq_true, decide_eq_true_eq] at hc
    refine ⟨false, (false :: body.1, body.2), ?_, ?_, ?_⟩
    · simp [encBody, eBool, Enc.cat]
    · simp only [Fits, List.length_cons]; omega
    · have ha := ((appends_storeBit false).andThen (appends_storeCell body.1 body.2)) b hb (false :: body.1, body.2)
        (by simp [eBool, Enc.cat])
      have hf : Fits b (false :: body.1, body.2) := by simp only [Fits, List.length_cons]; omega
      rw [ha.1 hf]
  · simp only [hc, Bool.false_eq_true, if_false]
    simp only [Bool.and_eq_true, decide_eq_true_eq] at hc
    have hr : b.refs.length + 1 ≤ 4 := by
      rcases h2 with h | h
      · exact h
      · exfalso; apply hc; omega
    have hm := ht body.1 body.2 hbody.1 hbody.2
    obtain ⟨bc, hbc⟩ := Option.isSome_iff_exists.mp hm
    simp only [hbc]
    refine ⟨true, ([true], [bc]), ?_, ?_, ?_⟩
    · simp [encBody, mkChunk, hbody, hbc, eBool, eRef, Enc.cat]
    · simp only [Fits, List.length_cons, List.length_nil]; omega
    · have ha := ((appends_storeBit true).andThen (appends_storeRef bc)) b hb ([true], [bc])
        (by simp [eBool, eRef, Enc.cat])
      have hf : Fits b ([true], [bc]) := by simp only [Fits, List.length_cons, List.length_nil]; omega
      rw [ha.1 hf]

theorem initB_ok (ops : CellOps R) (hl : ops.Lawful) (ht : ops.Total) (init : Option (StateInit R))
    (hinit : ∀ s, init = some s → (encStateInit s).isSome) (body : Chunk R) (b : Builder R) (hb : WFB b)
    (hbits : b.bits.length + (if init.isSome then 3 else 2) ≤ 1023) (hrefs : b.refs.length ≤ 1) :
    ∃ ir ch, encInit ops init ir = some ch ∧ Fits b ch ∧ initB ops init body b = some (app b ch, true) ∧
      BodyRoom body (app b ch) := by
  cases init with
  | none =>
    simp only [Option.isSome_none, Bool.false_eq_true, if_false] at hbits
    refine ⟨false, ([false], []), by simp [encInit, eBool], ?_, ?_, ?_⟩
    · simp only [Fits, List.length_cons, List.length_nil]; omega
    · have ha := (appends_storeBit (R := R) false) b hb ([false], []) (by simp [eBool])
      have hf : Fits b ([false], []) := by simp only [Fits, List.length_cons, List.length_nil]; omega
      simp only [initB]; rw [ha.1 hf]
    · simp only [BodyRoom, app, List.length_append, List.length_cons, List.length_nil]; omega
  | some s =>
    simp only [Option.isSome_some, if_true] at hbits
    obtain ⟨sc, hsc⟩ := Option.isSome_iff_exists.mp (hinit s rfl)
    have hsz := size_encStateInit s
    obtain ⟨e1, e2⟩ := enc_some_sizes hsc
    rw [e1, e2] at hsz
    -- the init cell
    have hrun := ((appends_stateInitB s).run hsc).1 (by omega)
    obtain ⟨ic, hic⟩ := Option.isSome_iff_exists.mp (ht sc.1 sc.2 (by omega) (by omega))
    have hview := hl _ _ _ hic
    have hcell : cellOf ops (stateInitB s) = some ic := by
      simp [cellOf, runB, hrun, hic]
    -- store_bit(1)
    have ha := (appends_storeBit (R := R) true) b hb ([true], []) (by simp [eBool])
    have hf1 : Fits b ([true], []) := by simp only [Fits, List.length_cons, List.length_nil]; omega
    have hb1 := ha.1 hf1
    have hwf1 : WFB (app b ([true], [])) := app_wfb hf1
    simp only [initB, hb1, hcell, hview]
    simp only [Bool.not_true, Bool.false_eq_true, if_false]
    have hlen1 : (app b ([true], [])).bits.length = b.bits.length + 1 := by simp [app]
    have hlen2 : (app b ([true], [])).refs.length = b.refs.length := by simp [app]
    by_cases hc : (decide ((1023 - ((app b ([true], [])).bits.length : Int)) - 2 - (sc.1.length : Int) ≥ 0) &&
        (decide (4 - ((app b ([true], [])).refs.length : Int) - (sc.2.length : Int) ≥ 1) ||
          (decide (4 - ((app b ([true], [])).refs.length : Int) - (sc.2.length : Int) = 0) && body.2.isEmpty &&
            decide ((body.1.length : Int) ≤ (1023 - ((app b ([true], [])).bits.length : Int)) - 2 - (sc.1.length : Int))))) = true
    · simp only [hc, if_true]
      simp only [Bool.and_eq_true, Bool.or_eq_true, decide_eq_true_eq, List.isEmpty_iff, hlen1, hlen2] at hc
      have hb2e : body.2 = [] → body.2.length = 0 := fun h => by simp [h]
      refine ⟨false, ([true, false] ++ sc.1, sc.2), ?_, ?_, ?_, ?_⟩
      · simp [encInit, hsc, eBits, Enc.cat]
      · simp only [Fits, List.length_append, List.length_cons, List.length_nil]
        rcases hc with ⟨h1, h2 | ⟨⟨h2, h3⟩, h4⟩⟩ <;> omega
      · have hx := ((appends_storeBit false).andThen (appends_storeCell sc.1 sc.2)) (app b ([true], [])) hwf1
          (false :: sc.1, sc.2) (by simp [eBool, Enc.cat])
        have hf : Fits (app b ([true], [])) (false :: sc.1, sc.2) := by
          simp only [Fits, hlen1, hlen2, List.length_cons]
          rcases hc with ⟨h1, h2 | ⟨⟨h2, h3⟩, h4⟩⟩ <;> omega
        rw [hx.1 hf]; simp [app, List.append_assoc]
      · simp only [BodyRoom, app, List.length_append, List.length_cons, List.length_nil]
        rcases hc with ⟨h1, h2 | ⟨⟨h2, h3⟩, h4⟩⟩
        · omega
        · have := hb2e h3; omega
    · simp only [hc, Bool.false_eq_true, if_false]
      refine ⟨true, ([true, true], [ic]), ?_, ?_, ?_, ?_⟩
      · have : mkChunk ops sc = some ic := by simp [mkChunk, hic]; omega
        simp [encInit, hsc, this, eBits, eRef, Enc.cat]
      · simp only [Fits, List.length_cons, List.length_nil]; omega
      · have hx := ((appends_storeBit true).andThen (appends_storeRef ic)) (app b ([true], [])) hwf1
          ([true], [ic]) (by simp [eBool, eRef, Enc.cat])
        have hf : Fits (app b ([true], [])) ([true], [ic]) := by
          simp only [Fits, hlen1, hlen2, List.length_cons, List.length_nil]; omega
        rw [hx.1 hf]; simp [app, List.append_assoc]
      · simp only [BodyRoom, app, List.length_append, List.length_cons, List.length_nil]; omega

/-- `MessageAny.serialize` produces one of the spec encodings of the message and never lacks room -/
theorem serialize_cases (ops : CellOps R) (hl : ops.Lawful) (ht : ops.Total) (m : Msg R)
    {ib : Bits} {ir : List R} (hinfo : encInfo m.info = some (ib, ir))
    (hI : ib.length + (if m.init.isSome then 3 else 2) ≤ 1023)
    (hinit : ∀ s, m.init = some s → (encStateInit s).isSome)
    (hbody : m.body.1.length ≤ 1023 ∧ m.body.2.length ≤ 4) :
    ∃ i b c, encMessage ops m i b = some c ∧ Message.serialize ops m = some c := by
  have hir : ir.length ≤ 1 := by
    have := nrefs_encInfo m.info; rw [(enc_some_sizes hinfo).2] at this; exact this
  have hib : ib.length ≤ 1023 := by split at hI <;> omega
  have hrun := ((appends_infoB m.info).run hinfo).1 ⟨hib, by show ir.length ≤ 4; omega⟩
  dsimp only at hrun
  obtain ⟨icell, hicell⟩ := Option.isSome_iff_exists.mp (ht ib ir hib (by omega))
  have hview := hl _ _ _ hicell
  have hcell : cellOf ops (infoB m.info) = some icell := by simp [cellOf, runB, hrun, hicell]
  have h0 := ((appends_storeCell ib ir).run rfl).1 ⟨hib, by show ir.length ≤ 4; omega⟩
  dsimp only at h0
  have hwf0 : WFB (⟨ib, ir⟩ : Builder R) := ⟨hib, by simp; omega⟩
  obtain ⟨i, ch1, he1, hf1, hi1, hroom⟩ := initB_ok ops hl ht m.init hinit m.body ⟨ib, ir⟩ hwf0 hI hir
  obtain ⟨b, ch2, he2, hf2, hb2⟩ := bodyB_ok ops ht m.body hbody _ (app_wfb hf1) hroom
  have hfin : (app (app (⟨ib, ir⟩ : Builder R) ch1) ch2).bits.length ≤ 1023 ∧ (app (app (⟨ib, ir⟩ : Builder R) ch1) ch2).refs.length ≤ 4 :=
    app_wfb hf2
  obtain ⟨c, hc⟩ := Option.isSome_iff_exists.mp (ht _ _ hfin.1 hfin.2)
  refine ⟨i, b, c, ?_, ?_⟩
  · simp only [encMessage, encMessageChunk, hinfo, he1, he2, Enc.cat, Option.bind_some, mkChunk]
    simp only [app, List.append_assoc] at hfin hc
    have hfin' := hfin
    simp only [List.length_append] at hfin'
    simp [hfin', hc]
  · simp only [Message.serialize, hcell, hview, h0, hi1, hb2]
    simpa using hc

end TonVerif.Proofs.Message
