/-
The decision paths of the hand model's header parser (`Model.BocParse.deserializeBocHeader`), as a relation:
`Path data v` lists, for every way the parser can end (`v = none`: which check fails; `v = some h`: accepted), the
facts about `data` that select that way, in a form from which the left-hand side of `src_header_eq_model`
(Proofs/SrcBocHeader.lean) can be evaluated step by step.  `model_path : Path data (deserializeBocHeader data)` for ALL
`data`.  `Path` is a proof device only: the statement of `src_header_eq_model` / `c05_src_header` does not mention it.

Generation independent (nothing here mentions `Generated.*`).
-/
import TonVerif.Model.BocParse

namespace TonVerif.Proofs.BocHeaderPath
open TonVerif TonVerif.Model TonVerif.Model.BocParse

/-- first `if / elif / elif` of `deserialize_boc_header` took this branch and `data[4]` exists. -/
inductive FlagsAt (data : Bytes) : Flags → Prop
  | generic (fb : Nat) (hm : pySlice data 0 4 = magicGeneric) (h4 : data[4]? = some fb) :
      FlagsAt data { generic := true, hasIdx := fb.testBit 7, hasCrc := fb.testBit 6, hasCacheBits := fb.testBit 5,
                     flags := (if fb.testBit 4 then 16 else 0) * 2 + (if fb.testBit 3 then 8 else 0), sizeBytes := fb % 8 }
  | idx (s : Nat) (hm0 : ¬ pySlice data 0 4 = magicGeneric) (hm : pySlice data 0 4 = magicIdx) (h4 : data[4]? = some s) :
      FlagsAt data { generic := false, hasIdx := true, hasCrc := false, hasCacheBits := false, flags := 0, sizeBytes := s }
  | idxCrc (s : Nat) (hm0 : ¬ pySlice data 0 4 = magicGeneric) (hm1 : ¬ pySlice data 0 4 = magicIdx)
      (hm : pySlice data 0 4 = magicIdxCrc) (h4 : data[4]? = some s) :
      FlagsAt data { generic := false, hasIdx := true, hasCrc := true, hasCacheBits := false, flags := 0, sizeBytes := s }

/-- the fixed-position fields are read (`s = size_bytes > 0`, the pre-check passes). -/
structure Fixed (data : Bytes) (fl : Flags) (off cells roots absent tot : Nat) : Prop where
  hfl : FlagsAt data fl
  hpre : ¬ data.length < 6 + 3 * fl.sizeBytes
  hs : fl.sizeBytes ≠ 0
  h5 : data[5]? = some off
  hcells : natOfBE (pySlice data 6 (6 + fl.sizeBytes)) = cells
  hroots : natOfBE (pySlice data (6 + fl.sizeBytes) (6 + fl.sizeBytes + fl.sizeBytes)) = roots
  habsent : natOfBE (pySlice data (6 + 2 * fl.sizeBytes) (6 + 2 * fl.sizeBytes + fl.sizeBytes)) = absent
  htot : natOfBE (pySlice data (6 + 3 * fl.sizeBytes) (6 + 3 * fl.sizeBytes + off)) = tot

/-- the root list stage passes: `rlen` bytes of root indices (0 for the legacy constructors), list `rl`. -/
inductive RootsOk (data : Bytes) (fl : Flags) (off roots : Nat) : Nat → List Nat → Prop
  | generic (hg : fl.generic = true) (h : ¬ data.length < 6 + 3 * fl.sizeBytes + off + roots * fl.sizeBytes) :
      RootsOk data fl off roots (roots * fl.sizeBytes) (uintsAt data (6 + 3 * fl.sizeBytes + off) fl.sizeBytes roots)
  | legacy (hg : fl.generic = false) (h : roots = 1) : RootsOk data fl off roots 0 [0]

/-- the index stage passes: it starts at `i2`, takes `ilen` bytes, list `ix`. -/
inductive IndexOk (data : Bytes) (fl : Flags) (off cells i2 : Nat) : Nat → List Nat → Prop
  | some (hi : fl.hasIdx = true) (h : ¬ data.length < i2 + off * cells) (h0 : off ≠ 0) :
      IndexOk data fl off cells i2 (cells * off) (uintsAt data i2 off cells)
  | none (hi : fl.hasIdx = false) : IndexOk data fl off cells i2 0 []

/-- the checksum stage passes: the checked part ends at `i4`, the checksum takes `clen` bytes. -/
inductive CrcOk (data : Bytes) (fl : Flags) (i4 : Nat) : Nat → Prop
  | some (hc : fl.hasCrc = true) (h : ¬ data.length < i4 + 4) (c : Bytes) (hcrc : Model.crc32c (data.take i4) = some c)
      (heq : c = pySlice data i4 (i4 + 4)) : CrcOk data fl i4 4
  | none (hc : fl.hasCrc = false) : CrcOk data fl i4 0

/-- rejected before the cell data are located -/
inductive PathEarly (data : Bytes) : Prop
  | short (h : data.length < 4) : PathEarly data
  | badMagic (h : ¬ data.length < 4) (h1 : ¬ pySlice data 0 4 = magicGeneric) (h2 : ¬ pySlice data 0 4 = magicIdx)
      (h3 : ¬ pySlice data 0 4 = magicIdxCrc) : PathEarly data
  | noFlag (h : ¬ data.length < 4) (h4 : data[4]? = none) : PathEarly data
  | pre {fl : Flags} (hfl : FlagsAt data fl) (h : data.length < 6 + 3 * fl.sizeBytes) : PathEarly data
  | size0 {fl : Flags} {off : Nat} (hfl : FlagsAt data fl) (hpre : ¬ data.length < 6 + 3 * fl.sizeBytes) (h5 : data[5]? = some off)
      (hs : fl.sizeBytes = 0) : PathEarly data
  | rootsShort {fl off cells roots absent tot} (hx : Fixed data fl off cells roots absent tot) (hg : fl.generic = true)
      (h : data.length < 6 + 3 * fl.sizeBytes + off + roots * fl.sizeBytes) : PathEarly data
  | rootsNe1 {fl off cells roots absent tot} (hx : Fixed data fl off cells roots absent tot) (hg : fl.generic = false)
      (h : roots ≠ 1) : PathEarly data
  | idxShort {fl off cells roots absent tot rlen rl} (hx : Fixed data fl off cells roots absent tot)
      (hr : RootsOk data fl off roots rlen rl) (hi : fl.hasIdx = true)
      (h : data.length < 6 + 3 * fl.sizeBytes + off + rlen + off * cells) : PathEarly data
  | off0 {fl off cells roots absent tot rlen rl} (hx : Fixed data fl off cells roots absent tot)
      (hr : RootsOk data fl off roots rlen rl) (hi : fl.hasIdx = true)
      (h : ¬ data.length < 6 + 3 * fl.sizeBytes + off + rlen + off * cells) (h0 : off = 0) : PathEarly data

/-- rejected at the cell data / checksum -/
inductive PathMid (data : Bytes) : Prop
  | totShort {fl off cells roots absent tot rlen rl ilen ix} (hx : Fixed data fl off cells roots absent tot)
      (hr : RootsOk data fl off roots rlen rl) (hix : IndexOk data fl off cells (6 + 3 * fl.sizeBytes + off + rlen) ilen ix)
      (h : data.length < 6 + 3 * fl.sizeBytes + off + rlen + ilen + tot) : PathMid data
  | crcShort {fl off cells roots absent tot rlen rl ilen ix} (hx : Fixed data fl off cells roots absent tot)
      (hr : RootsOk data fl off roots rlen rl) (hix : IndexOk data fl off cells (6 + 3 * fl.sizeBytes + off + rlen) ilen ix)
      (ht : ¬ data.length < 6 + 3 * fl.sizeBytes + off + rlen + ilen + tot) (hc : fl.hasCrc = true)
      (h : data.length < 6 + 3 * fl.sizeBytes + off + rlen + ilen + tot + 4) : PathMid data
  | crcNone {fl off cells roots absent tot rlen rl ilen ix} (hx : Fixed data fl off cells roots absent tot)
      (hr : RootsOk data fl off roots rlen rl) (hix : IndexOk data fl off cells (6 + 3 * fl.sizeBytes + off + rlen) ilen ix)
      (ht : ¬ data.length < 6 + 3 * fl.sizeBytes + off + rlen + ilen + tot) (hc : fl.hasCrc = true)
      (h : ¬ data.length < 6 + 3 * fl.sizeBytes + off + rlen + ilen + tot + 4)
      (hcrc : Model.crc32c (data.take (6 + 3 * fl.sizeBytes + off + rlen + ilen + tot)) = none) : PathMid data
  | crcBad {fl off cells roots absent tot rlen rl ilen ix} (hx : Fixed data fl off cells roots absent tot)
      (hr : RootsOk data fl off roots rlen rl) (hix : IndexOk data fl off cells (6 + 3 * fl.sizeBytes + off + rlen) ilen ix)
      (ht : ¬ data.length < 6 + 3 * fl.sizeBytes + off + rlen + ilen + tot) (hc : fl.hasCrc = true)
      (h : ¬ data.length < 6 + 3 * fl.sizeBytes + off + rlen + ilen + tot + 4) (c : Bytes)
      (hcrc : Model.crc32c (data.take (6 + 3 * fl.sizeBytes + off + rlen + ilen + tot)) = some c)
      (hne : c ≠ pySlice data (6 + 3 * fl.sizeBytes + off + rlen + ilen + tot) (6 + 3 * fl.sizeBytes + off + rlen + ilen + tot + 4)) :
      PathMid data

/-- reaches the final length check -/
inductive PathEnd (data : Bytes) : Option Header → Prop
  | trailing {fl off cells roots absent tot rlen rl ilen ix clen} (hx : Fixed data fl off cells roots absent tot)
      (hr : RootsOk data fl off roots rlen rl) (hix : IndexOk data fl off cells (6 + 3 * fl.sizeBytes + off + rlen) ilen ix)
      (ht : ¬ data.length < 6 + 3 * fl.sizeBytes + off + rlen + ilen + tot)
      (hc : CrcOk data fl (6 + 3 * fl.sizeBytes + off + rlen + ilen + tot) clen)
      (h : data.length ≠ 6 + 3 * fl.sizeBytes + off + rlen + ilen + tot + clen) : PathEnd data none
  | accept {fl off cells roots absent tot rlen rl ilen ix clen} (hx : Fixed data fl off cells roots absent tot)
      (hr : RootsOk data fl off roots rlen rl) (hix : IndexOk data fl off cells (6 + 3 * fl.sizeBytes + off + rlen) ilen ix)
      (ht : ¬ data.length < 6 + 3 * fl.sizeBytes + off + rlen + ilen + tot)
      (hc : CrcOk data fl (6 + 3 * fl.sizeBytes + off + rlen + ilen + tot) clen)
      (h : data.length = 6 + 3 * fl.sizeBytes + off + rlen + ilen + tot + clen) :
      PathEnd data (some { fl := fl, offsetBytes := off, cellsNum := cells, rootsNum := roots, absentNum := absent, totCellsSize := tot,
                           rootList := rl, index := ix,
                           cellsData := pySlice data (6 + 3 * fl.sizeBytes + off + rlen + ilen) (6 + 3 * fl.sizeBytes + off + rlen + ilen + tot) })


inductive Path (data : Bytes) : Option Header → Prop
  | early (h : PathEarly data) : Path data none
  | mid (h : PathMid data) : Path data none
  | final {v : Option Header} (h : PathEnd data v) : Path data v

/-! ### the model follows these paths -/

theorem idx_ne_gen : ¬ magicIdx = magicGeneric := by decide
theorem crc_ne_gen : ¬ magicIdxCrc = magicGeneric := by decide
theorem crc_ne_idx : ¬ magicIdxCrc = magicIdx := by decide

/-- stage A: `readFlags`. -/
theorem readFlags_cases (data : Bytes) :
    (readFlags data = none ∧ (data.length < 4 ∨
        (¬ data.length < 4 ∧ ¬ pySlice data 0 4 = magicGeneric ∧ ¬ pySlice data 0 4 = magicIdx ∧ ¬ pySlice data 0 4 = magicIdxCrc) ∨
        (¬ data.length < 4 ∧ data[4]? = none))) ∨
    ∃ fl, readFlags data = some fl ∧ FlagsAt data fl := by
  unfold readFlags
  by_cases h : data.length < 4
  · exact Or.inl ⟨by simp [h], Or.inl h⟩
  · cases h4 : data[4]? with
    | none => exact Or.inl ⟨by simp [h], Or.inr (Or.inr ⟨h, rfl⟩)⟩
    | some fb =>
      by_cases hg : pySlice data 0 4 = magicGeneric
      · exact Or.inr ⟨_, by simp [h, hg], FlagsAt.generic fb hg h4⟩
      · by_cases hi : pySlice data 0 4 = magicIdx
        · exact Or.inr ⟨_, by simp [h, hi, idx_ne_gen], FlagsAt.idx fb hg hi h4⟩
        · by_cases hc : pySlice data 0 4 = magicIdxCrc
          · exact Or.inr ⟨_, by simp [h, hc, crc_ne_gen, crc_ne_idx], FlagsAt.idxCrc fb hg hi hc h4⟩
          · exact Or.inl ⟨by simp [h, hg, hi, hc], Or.inr (Or.inl ⟨h, hg, hi, hc⟩)⟩

/-- stage B: `readFields`. -/
theorem readFields_cases (data : Bytes) (fl : Flags) (hf : readFlags data = some fl) (hfl : FlagsAt data fl) :
    (readFields data = none ∧ (data.length < 6 + 3 * fl.sizeBytes ∨
        (¬ data.length < 6 + 3 * fl.sizeBytes ∧ ∃ off, data[5]? = some off ∧ fl.sizeBytes = 0))) ∨
    ∃ off cells roots absent tot, readFields data = some { fl := fl, off := off, cells := cells, roots := roots, absent := absent, tot := tot } ∧
      Fixed data fl off cells roots absent tot := by
  unfold readFields
  rw [hf]
  simp only [Option.bind_some]
  by_cases hpre : data.length < 6 + 3 * fl.sizeBytes
  · refine Or.inl ⟨?_, Or.inl hpre⟩
    have : data.length < 5 + (1 + 3 * fl.sizeBytes) := by omega
    rw [if_pos this]
  · have hpre' : ¬ data.length < 5 + (1 + 3 * fl.sizeBytes) := by omega
    have h5 : data[5]? = some (data[5]'(by omega)) := by simp
    by_cases hs : fl.sizeBytes = 0
    · exact Or.inl ⟨by rw [if_neg hpre', h5]; simp [hs], Or.inr ⟨hpre, _, h5, hs⟩⟩
    · refine Or.inr ⟨data[5]'(by omega), uintAt data 6 fl.sizeBytes, uintAt data (6 + fl.sizeBytes) fl.sizeBytes,
        uintAt data (6 + 2 * fl.sizeBytes) fl.sizeBytes, _, ?_, ⟨hfl, hpre, hs, h5, rfl, rfl, rfl, rfl⟩⟩
      rw [if_neg hpre', h5]
      simp [hs]

/-! the stages after `readFields`, as functions of the position reached (copied from `deserializeBocHeader`; `model_staged`
is `rfl`) -/

/-- from the cell-data length check on; `i3` = position where the cell data start. -/
def stData (data : Bytes) (f : Fields) (rootList index : List Nat) (i3 : Nat) : Option Header :=
  if data.length < i3 + f.tot then none
  else
    let cellsData := pySlice data i3 (i3 + f.tot)
    let i := i3 + f.tot
    (if f.fl.hasCrc then
        (if data.length < i + 4 then none
         else if Model.crc32c (data.take i) != some (pySlice data i (i + 4)) then none
         else some (i + 4))
      else some i).bind fun i =>
    if data.length != i then none
    else some { fl := f.fl, offsetBytes := f.off, cellsNum := f.cells, rootsNum := f.roots, absentNum := f.absent,
                totCellsSize := f.tot, rootList := rootList, index := index, cellsData := cellsData }

/-- from the index on; `i2` = position where the index starts. -/
def stIndex (data : Bytes) (f : Fields) (rootList : List Nat) (i2 : Nat) : Option Header :=
  (if f.fl.hasIdx then
      (if data.length < i2 + f.off * f.cells then none
       else if f.off = 0 then none
       else some (uintsAt data i2 f.off f.cells))
    else some []).bind fun index =>
  stData data f rootList index (i2 + f.indexLen)

theorem model_staged (data : Bytes) : deserializeBocHeader data =
    (readFields data).bind fun f =>
      (if f.fl.generic then
          (if data.length < f.hdrEnd + f.roots * f.fl.sizeBytes then none
           else some (uintsAt data f.hdrEnd f.fl.sizeBytes f.roots))
        else (if f.roots != 1 then none else some [0])).bind fun rootList =>
      stIndex data f rootList (f.hdrEnd + f.rootsLen) := rfl

theorem stData_path (data : Bytes) {fl : Flags} {off cells roots absent tot rlen ilen : Nat} {rl ix : List Nat}
    (hx : Fixed data fl off cells roots absent tot) (hr : RootsOk data fl off roots rlen rl)
    (hix : IndexOk data fl off cells (6 + 3 * fl.sizeBytes + off + rlen) ilen ix) :
    Path data (stData data { fl := fl, off := off, cells := cells, roots := roots, absent := absent, tot := tot } rl ix
      (6 + 3 * fl.sizeBytes + off + rlen + ilen)) := by
  unfold stData
  simp only []
  by_cases ht : data.length < 6 + 3 * fl.sizeBytes + off + rlen + ilen + tot
  · rw [if_pos ht]; exact Path.mid <| PathMid.totShort hx hr hix ht
  rw [if_neg ht]
  cases hc : fl.hasCrc with
  | false =>
    simp only [Bool.false_eq_true, if_false, Option.bind_some]
    by_cases hl : data.length = 6 + 3 * fl.sizeBytes + off + rlen + ilen + tot
    · have := Path.final (PathEnd.accept hx hr hix ht (CrcOk.none hc) (by omega))
      simpa [hl] using this
    · have := Path.final (PathEnd.trailing hx hr hix ht (CrcOk.none hc) (by omega))
      simpa [hl] using this
  | true =>
    simp only [if_true]
    by_cases h4 : data.length < 6 + 3 * fl.sizeBytes + off + rlen + ilen + tot + 4
    · rw [if_pos h4]; exact Path.mid <| PathMid.crcShort hx hr hix ht hc h4
    rw [if_neg h4]
    cases hcrc : Model.crc32c (data.take (6 + 3 * fl.sizeBytes + off + rlen + ilen + tot)) with
    | none =>
      have := Path.mid (PathMid.crcNone hx hr hix ht hc h4 hcrc)
      simpa using this
    | some c =>
      by_cases hcs : c = pySlice data (6 + 3 * fl.sizeBytes + off + rlen + ilen + tot) (6 + 3 * fl.sizeBytes + off + rlen + ilen + tot + 4)
      · by_cases hl : data.length = 6 + 3 * fl.sizeBytes + off + rlen + ilen + tot + 4
        · have := Path.final (PathEnd.accept hx hr hix ht (CrcOk.some hc h4 c hcrc hcs) hl)
          simpa [hcs, hl] using this
        · have := Path.final (PathEnd.trailing hx hr hix ht (CrcOk.some hc h4 c hcrc hcs) hl)
          simpa [hcs, hl] using this
      · have := Path.mid (PathMid.crcBad hx hr hix ht hc h4 c hcrc hcs)
        simpa [hcs] using this

theorem stIndex_path (data : Bytes) {fl : Flags} {off cells roots absent tot rlen : Nat} {rl : List Nat}
    (hx : Fixed data fl off cells roots absent tot) (hr : RootsOk data fl off roots rlen rl) :
    Path data (stIndex data { fl := fl, off := off, cells := cells, roots := roots, absent := absent, tot := tot } rl
      (6 + 3 * fl.sizeBytes + off + rlen)) := by
  unfold stIndex
  simp only [Fields.indexLen]
  cases hi : fl.hasIdx with
  | false =>
    simp only [Bool.false_eq_true, if_false, Option.bind_some]
    exact stData_path data hx hr (IndexOk.none hi)
  | true =>
    simp only [if_true]
    by_cases hs : data.length < 6 + 3 * fl.sizeBytes + off + rlen + off * cells
    · rw [if_pos hs]; exact Path.early <| PathEarly.idxShort hx hr hi hs
    rw [if_neg hs]
    by_cases h0 : off = 0
    · rw [if_pos h0]; exact Path.early <| PathEarly.off0 hx hr hi hs h0
    rw [if_neg h0]
    simp only [Option.bind_some]
    exact stData_path data hx hr (IndexOk.some hi hs h0)

/-- the hand model follows one of the listed paths, for every input. -/
theorem model_path (data : Bytes) : Path data (deserializeBocHeader data) := by
  rw [model_staged]
  rcases readFlags_cases data with ⟨h0, hc⟩ | ⟨fl, hf, hfl⟩
  · have : readFields data = none := by simp [readFields, h0]
    rw [this]
    rcases hc with h | ⟨h, h1, h2, h3⟩ | ⟨h, h4⟩
    · exact Path.early <| PathEarly.short h
    · exact Path.early <| PathEarly.badMagic h h1 h2 h3
    · exact Path.early <| PathEarly.noFlag h h4
  rcases readFields_cases data fl hf hfl with ⟨h0, hc⟩ | ⟨off, cells, roots, absent, tot, hF, hx⟩
  · rw [h0]
    rcases hc with h | ⟨h, off, h5, hs⟩
    · exact Path.early <| PathEarly.pre hfl h
    · exact Path.early <| PathEarly.size0 hfl h h5 hs
  rw [hF]
  simp only [Option.bind_some, Fields.hdrEnd, Fields.rootsLen]
  cases hg : fl.generic with
  | true =>
    simp only [if_true]
    by_cases hs : data.length < 6 + 3 * fl.sizeBytes + off + roots * fl.sizeBytes
    · simp only [hs, ↓reduceIte]; exact Path.early <| PathEarly.rootsShort hx hg hs
    simp only [hs, ↓reduceIte, Option.bind_some]
    exact stIndex_path data hx (RootsOk.generic hg hs)
  | false =>
    simp only [Bool.false_eq_true, if_false]
    by_cases h1 : roots = 1
    · have : (roots != 1) = false := by simp [h1]
      rw [this]
      simp only [Bool.false_eq_true, if_false, Option.bind_some]
      exact stIndex_path data hx (RootsOk.legacy hg h1)
    · have : (roots != 1) = true := by simp [h1]
      rw [this]
      exact Path.early <| PathEarly.rootsNe1 hx hg h1

end TonVerif.Proofs.BocHeaderPath
