/-
C16 source tie — per class: the regenerated reader (Generated/TlbParsers.lean) refines the spec decoder of its block.tlb
type (Spec/Tlb/Block.lean) under the declared view (Spec/Tlb/PyView.lean).  Method: Proofs/SrcTlb.lean.
-/
import TonVerif.Proofs.SrcTlb
import TonVerif.Generated.TlbParsers

namespace TonVerif.Tlb
open TonVerif

theorem refines_HashUpdate : Refines (Src.HashUpdate false) hashUpdate view_HashUpdate := by
  tlb_refine [hashUpdate, Src.HashUpdate, view_HashUpdate]

theorem refines_TickTock : Refines (Src.TickTock false) tickTock view_TickTock := by
  tlb_refine [tickTock, Src.TickTock, view_TickTock]

theorem refines_StorageUsed : Refines (Src.StorageUsed false) storageUsed view_StorageUsed := by
  tlb_refine [storageUsed, Src.StorageUsed, view_StorageUsed]

theorem refines_StorageUsedShort : Refines (Src.StorageUsedShort false) storageUsedShort view_StorageUsedShort := by
  tlb_refine [storageUsedShort, Src.StorageUsedShort, view_StorageUsedShort]

theorem refines_StorageInfo : Refines (Src.StorageInfo false) storageInfo view_StorageInfo := by
  tlb_refine [storageInfo, Src.StorageInfo, view_StorageInfo, refines_StorageUsed.keep]

theorem refines_AccountStatus : Refines (Src.AccountStatus false) accountStatus view_AccountStatus := by
  tlb_refine [accountStatus, accountStatusAlts, Src.AccountStatus, view_AccountStatus]

theorem nonUnit_tickTock : NonUnit tickTock := by unfold tickTock; tlb_nonunit

theorem refines_StateInit : Refines (Src.StateInit false) stateInit view_StateInit := by
  tlb_refine [stateInit, Src.StateInit, view_StateInit, refines_TickTock.keepM nonUnit_tickTock]

theorem refines_AccountState : Refines (Src.AccountState false) accountState view_AccountState := by
  tlb_refine [accountState, accountStateAlts, Src.AccountState, view_AccountState, refines_StateInit.keep]

theorem refines_ExtBlkRef : Refines (Src.ExtBlkRef false) extBlkRef view_ExtBlkRef := by
  tlb_refine [extBlkRef, Src.ExtBlkRef, view_ExtBlkRef]

theorem refines_BlkMasterInfo : Refines (Src.BlkMasterInfo false) blkMasterInfo view_BlkMasterInfo := by
  tlb_refine [blkMasterInfo, Src.BlkMasterInfo, view_BlkMasterInfo, refines_ExtBlkRef.keep]

theorem refines_KeyExtBlkRef : Refines (Src.KeyExtBlkRef false) keyExtBlkRef view_KeyExtBlkRef := by
  tlb_refine [keyExtBlkRef, Src.KeyExtBlkRef, view_KeyExtBlkRef, refines_ExtBlkRef.keep]

theorem refines_KeyMaxLt : Refines (Src.KeyMaxLt false) keyMaxLt view_KeyMaxLt := by
  tlb_refine [keyMaxLt, Src.KeyMaxLt, view_KeyMaxLt]

theorem refines_Counters : Refines (Src.Counters false) counters view_Counters := by
  tlb_refine [counters, Src.Counters, view_Counters]

theorem refines_CreatorStats : Refines (Src.CreatorStats false) creatorStats view_CreatorStats := by
  tlb_refine [creatorStats, Src.CreatorStats, view_CreatorStats, refines_Counters.keep]

theorem refines_ValidatorInfo : Refines (Src.ValidatorInfo false) validatorInfo view_ValidatorInfo := by
  tlb_refine [validatorInfo, Src.ValidatorInfo, view_ValidatorInfo]

theorem refines_ShardIdent : Refines (Src.ShardIdent false) shardIdent view_ShardIdent := by
  tlb_refine [shardIdent, Src.ShardIdent, view_ShardIdent]

theorem refines_GlobalVersion : Refines (Src.GlobalVersion false) globalVersion view_GlobalVersion := by
  tlb_refine [globalVersion, Src.GlobalVersion, view_GlobalVersion]

theorem refines_SplitMergeInfo : Refines (Src.SplitMergeInfo false) splitMergeInfo view_SplitMergeInfo := by
  tlb_refine [splitMergeInfo, Src.SplitMergeInfo, view_SplitMergeInfo]

theorem refines_SigPubKey : Refines (Src.SigPubKey false) sigPubKey view_SigPubKey := by
  tlb_refine [sigPubKey, Src.SigPubKey, view_SigPubKey]

theorem refines_AccStatusChange : Refines (Src.AccStatusChange false) accStatusChange view_AccStatusChange := by
  tlb_refine [accStatusChange, accStatusChangeAlts, Src.AccStatusChange, view_AccStatusChange]

theorem refines_ComputeSkipReason : Refines (Src.ComputeSkipReason false) computeSkipReason view_ComputeSkipReason := by
  tlb_refine [computeSkipReason, computeSkipReasonAlts, Src.ComputeSkipReason, view_ComputeSkipReason]

theorem refines_TrStoragePhase : Refines (Src.TrStoragePhase false) trStoragePhase view_TrStoragePhase := by
  tlb_refine [trStoragePhase, Src.TrStoragePhase, view_TrStoragePhase, refines_AccStatusChange.keep]

theorem refines_TrComputePhase : Refines (Src.TrComputePhase false) trComputePhase view_TrComputePhase := by
  tlb_refine [trComputePhase, trComputePhaseAlts, Src.TrComputePhase, view_TrComputePhase, refines_ComputeSkipReason.keep]

theorem refines_TrBouncePhase : Refines (Src.TrBouncePhase false) trBouncePhase view_TrBouncePhase := by
  tlb_refine [trBouncePhase, trBouncePhaseAlts, Src.TrBouncePhase, view_TrBouncePhase, refines_StorageUsedShort.keep]

theorem refines_FutureSplitMerge : Refines (Src.FutureSplitMerge false) futureSplitMerge view_FutureSplitMerge := by
  tlb_refine [futureSplitMerge, futureSplitMergeAlts, Src.FutureSplitMerge, view_FutureSplitMerge]

theorem refines_IntermediateAddress :
    Refines (Src.IntermediateAddress false) intermediateAddress view_IntermediateAddress := by
  tlb_refine [intermediateAddress, intermediateAddressAlts, Src.IntermediateAddress, view_IntermediateAddress]

theorem refines_ValidatorDescr : Refines (Src.ValidatorDescr false) validatorDescr view_ValidatorDescr := by
  tlb_refine [validatorDescr, validatorDescrAlts, Src.ValidatorDescr, view_ValidatorDescr, refines_SigPubKey.keep]

theorem refines_CatchainConfig : Refines (Src.CatchainConfig false) catchainConfig view_CatchainConfig := by
  tlb_refine [catchainConfig, catchainConfigAlts, Src.CatchainConfig, view_CatchainConfig]

theorem refines_BlkPrevInfo0 :
    Refines (fun s => Src.BlkPrevInfo false s (.int 0)) (blkPrevInfo 0) view_BlkPrevInfo := by
  tlb_refine [blkPrevInfo, Src.BlkPrevInfo, view_BlkPrevInfo, refines_ExtBlkRef.keep]

theorem refines_BlkPrevInfo1 :
    Refines (fun s => Src.BlkPrevInfo false s (.int 1)) (blkPrevInfo 1) view_BlkPrevInfo := by
  tlb_refine [blkPrevInfo, Src.BlkPrevInfo, view_BlkPrevInfo, refines_ExtBlkRef.keep]

end TonVerif.Tlb
