/-
Helper lemmas for the account part of C11: the TL-B walk `locateAccount` (Model/Locate.lean) — full dictionary parse on
constructed cells — versus the lookup-only walk `lookupShardAccount` of hashmap.tlb / block.tlb.
-/
import TonVerif.Model.Proof
import TonVerif.Proofs.Hashmap
import TonVerif.Proofs.Prune

namespace TonVerif.Proofs.Locate
open TonVerif TonVerif.Model TonVerif.Model.Hashmap TonVerif.Proofs.Hashmap

set_option linter.unusedSimpArgs false
set_option linter.unusedVariables false

/-! ### labels -/

theorem loadBits_length {n : Nat} {bits s r : Bits} (h : loadBits n bits = some (s, r)) : s.length = n := by
  unfold loadBits at h
  split at h
  · cases h
  · rename_i hl
    simp only [Option.some.injEq, Prod.mk.injEq] at h
    rw [← h.1, List.length_take]; omega

/-- the label read by the constructor branches of `deserialize_hml` has the announced length -/
theorem readHml_length {bits : Bits} {m : Int} {n : Nat} {s rest : Bits}
    (h : readHml bits m = some (n, s, rest)) : s.length = n := by
  unfold readHml at h
  split at h
  · cases h
  · simp only [Option.bind_eq_bind, Option.bind_eq_some_iff] at h
    obtain ⟨⟨a, r1⟩, h1, ⟨s', r2⟩, h2, h3⟩ := h
    simp only [Option.some.injEq, Prod.mk.injEq] at h3
    obtain ⟨rfl, rfl, rfl⟩ := h3
    exact loadBits_length h2
  · cases h
  · simp only [Option.bind_eq_bind, Option.bind_eq_some_iff] at h
    obtain ⟨⟨a, r1⟩, h1, ⟨s', r2⟩, h2, h3⟩ := h
    simp only [Option.some.injEq, Prod.mk.injEq] at h3
    obtain ⟨rfl, rfl, rfl⟩ := h3
    exact loadBits_length h2
  · cases h
  · simp only [Option.bind_eq_bind, Option.bind_eq_some_iff] at h
    obtain ⟨⟨a, r1⟩, h1, h3⟩ := h
    simp only [Option.some.injEq, Prod.mk.injEq] at h3
    obtain ⟨rfl, rfl, rfl⟩ := h3
    simp

/-- the label returned by `deserialize_hml` has the announced length -/
theorem deserializeHml_length {bits : Bits} {m : Int} {n : Nat} {s rest : Bits}
    (h : deserializeHml bits m = some (n, s, rest)) : s.length = n :=
  readHml_length (deserializeHml_some.1 h).1

/-! ### `parse_aug` on constructed cells: what a successful parse says -/

mutual
  /-- below a negative remaining key length there are no leaves (since the `{n <= m}` repair of `deserialize_hml` an ordinary
  cell is refused there outright, `Proofs.Hashmap.deserializeHml_le`; this weaker form is all `parseAugP_lookup` needs) -/
  theorem parseAugP_neg {X : Type} (decY : PSlice → Option PSlice) (decX : PSlice → Option X) :
      ∀ (c : PCell) (keyLen : Int) (pfx : Bits) (kv : List (Bits × X)),
        keyLen < 0 → parseAugP decY decX c keyLen pfx = some kv → kv = []
    | .mk info refs, keyLen, pfx, kv, hneg, h => by
      rw [parseAugP] at h
      split at h
      · cases h; rfl
      · split at h
        · cases h
        · rename_i n s rest hd
          have hne : ¬ (keyLen - (n : Int) = 0) := by omega
          rw [if_neg hne] at h
          exact parseAugForkP_neg decY decX refs rest (keyLen - n - 1) (pfx ++ s) kv (by omega) h
  theorem parseAugForkP_neg {X : Type} (decY : PSlice → Option PSlice) (decX : PSlice → Option X) :
      ∀ (refs : List PCell) (rest : Bits) (m : Int) (pfx : Bits) (kv : List (Bits × X)),
        m < 0 → parseAugForkP decY decX refs rest m pfx = some kv → kv = []
    | [], rest, m, pfx, kv, hneg, h => by simp [parseAugForkP] at h
    | [_], rest, m, pfx, kv, hneg, h => by simp [parseAugForkP] at h
    | l :: r :: more, rest, m, pfx, kv, hneg, h => by
      rw [parseAugForkP] at h
      split at h
      · rename_i a b ha hb
        split at h
        · cases h
        · cases h
          rw [parseAugP_neg decY decX l m _ a hneg ha, parseAugP_neg decY decX r m _ b hneg hb]; rfl
      · cases h
end

theorem lookupAug_leaf (c : PCell) (n : Nat) (s rest : Bits) (fuel : Nat)
    (hk : c.info.kind = -1) (hd : deserializeHml c.info.bits (n : Int) = some (n, s, rest)) (hs : s.length = n) :
    lookupAug pcellView (fuel + 1) c n s = some (rest, c.refs) := by
  subst hs
  simp [lookupAug, pcellView, hk, hd]

theorem lookupAug_fork (c c0 c1 : PCell) (more : List PCell) (n l : Nat) (s rest : Bits) (b : Bool) (k : Bits) (fuel : Nat)
    (hk : c.info.kind = -1) (hd : deserializeHml c.info.bits (n : Int) = some (l, s, rest)) (hs : s.length = l)
    (hl : l < n) (hr : c.refs = c0 :: c1 :: more) :
    lookupAug pcellView (fuel + 1) c n (s ++ b :: k) = lookupAug pcellView fuel (if b then c1 else c0) (n - l - 1) k := by
  subst hs
  have h1 : ¬ (s.length > n) := by omega
  have h2 : n - s.length ≠ 0 := by omega
  simp [lookupAug, pcellView, hk, hd, h1, h2, hr]

mutual
  /-- every entry a successful `parse_aug` returns is what the LOOKUP of its key finds: the key is the prefix handed in
  followed by `n` bits `k'`, the walk `lookupAug` from this cell along `k'` ends in a leaf whose slice the two
  deserialisers turn into the entry's value -/
  theorem parseAugP_lookup {X : Type} (decY : PSlice → Option PSlice) (decX : PSlice → Option X) :
      ∀ (c : PCell) (n : Nat) (pfx : Bits) (kv : List (Bits × X)),
        parseAugP decY decX c (n : Int) pfx = some kv → ∀ key x, (key, x) ∈ kv →
        ∃ k', key = pfx ++ k' ∧ k'.length = n ∧ ∀ fuel, n < fuel →
          ∃ rest refs sl, lookupAug pcellView fuel c n k' = some (rest, refs) ∧ decY (rest, refs) = some sl ∧
            decX sl = some x
    | .mk info refs, n, pfx, kv, h, key, x, hmem => by
      rw [parseAugP] at h
      split at h
      · cases h; simp at hmem
      · rename_i hkind
        have hkind : info.kind = -1 := by simpa using hkind
        split at h
        · cases h
        · rename_i l s rest hd
          have hs := deserializeHml_length hd
          split at h
          · rename_i hz
            have hln : l = n := by omega
            subst hln
            split at h
            · cases h
            · rename_i sl hy
              split at h
              · cases h
              · rename_i x' hx
                cases h
                simp only [List.mem_singleton, Prod.mk.injEq] at hmem
                obtain ⟨rfl, rfl⟩ := hmem
                refine ⟨s, rfl, hs, ?_⟩
                intro fuel hf
                cases fuel with
                | zero => omega
                | succ f =>
                  exact ⟨rest, refs, sl, lookupAug_leaf (.mk info refs) l s rest f hkind hd hs, hy, hx⟩
          · rename_i hz
            by_cases hgt : n < l
            · have := parseAugForkP_neg decY decX refs rest _ _ kv (by omega) h
              subst this; simp at hmem
            · have hlt : l < n := by omega
              have hcast : (n : Int) - (l : Int) - 1 = ((n - l - 1 : Nat) : Int) := by omega
              rw [hcast] at h
              obtain ⟨c0, c1, more, b, k'', hrefs, hkey, hlen, hlk⟩ :=
                parseAugForkP_lookup decY decX refs rest (n - l - 1) (pfx ++ s) kv h key x hmem
              refine ⟨s ++ b :: k'', by rw [hkey]; simp, by simp [hs, hlen]; omega, ?_⟩
              intro fuel hf
              cases fuel with
              | zero => omega
              | succ f =>
                rw [lookupAug_fork (.mk info refs) c0 c1 more n l s rest b k'' f hkind hd hs hlt hrefs]
                exact hlk f (by omega)
  theorem parseAugForkP_lookup {X : Type} (decY : PSlice → Option PSlice) (decX : PSlice → Option X) :
      ∀ (refs : List PCell) (rest0 : Bits) (m : Nat) (pfx : Bits) (kv : List (Bits × X)),
        parseAugForkP decY decX refs rest0 (m : Int) pfx = some kv → ∀ key x, (key, x) ∈ kv →
        ∃ c0 c1 more b k'', refs = c0 :: c1 :: more ∧ key = pfx ++ b :: k'' ∧ k''.length = m ∧ ∀ fuel, m < fuel →
          ∃ rest refs' sl, lookupAug pcellView fuel (if b then c1 else c0) m k'' = some (rest, refs') ∧
            decY (rest, refs') = some sl ∧ decX sl = some x
    | [], rest0, m, pfx, kv, h, key, x, hmem => by simp [parseAugForkP] at h
    | [_], rest0, m, pfx, kv, h, key, x, hmem => by simp [parseAugForkP] at h
    | c0 :: c1 :: more, rest0, m, pfx, kv, h, key, x, hmem => by
      rw [parseAugForkP] at h
      split at h
      · rename_i a b ha hb
        split at h
        · cases h
        · cases h
          rcases List.mem_append.1 hmem with hm | hm
          · obtain ⟨k', hk, hl, hlk⟩ := parseAugP_lookup decY decX c0 m _ a ha key x hm
            exact ⟨c0, c1, more, false, k', rfl, by rw [hk]; simp, hl, by simpa using hlk⟩
          · obtain ⟨k', hk, hl, hlk⟩ := parseAugP_lookup decY decX c1 m _ b hb key x hm
            exact ⟨c0, c1, more, true, k', rfl, by rw [hk]; simp, hl, by simpa using hlk⟩
      · cases h
end

theorem prefix_fork_absurd {pfx k : Bits} (h1 : pfx ++ [false] <+: k) (h2 : pfx ++ [true] <+: k) : False := by
  obtain ⟨t1, e1⟩ := h1
  obtain ⟨t2, e2⟩ := h2
  rw [← e2] at e1
  simp only [List.append_assoc, List.append_cancel_left_eq, List.cons_append, List.nil_append, List.cons.injEq] at e1
  exact absurd e1.1 (by decide)

mutual
  /-- the keys a parse returns all extend the prefix handed in and are pairwise different -/
  theorem parseAugP_keys {X : Type} (decY : PSlice → Option PSlice) (decX : PSlice → Option X) :
      ∀ (c : PCell) (keyLen : Int) (pfx : Bits) (kv : List (Bits × X)),
        parseAugP decY decX c keyLen pfx = some kv → (∀ q ∈ kv, pfx <+: q.1) ∧ (kv.map Prod.fst).Nodup
    | .mk info refs, keyLen, pfx, kv, h => by
      rw [parseAugP] at h
      split at h
      · cases h; simp
      · split at h
        · cases h
        · rename_i l s rest hd
          split at h
          · split at h
            · cases h
            · split at h
              · cases h
              · cases h; simp
          · obtain ⟨h1, h2⟩ := parseAugForkP_keys decY decX refs rest _ (pfx ++ s) kv h
            exact ⟨fun q hq => (List.prefix_append pfx s).trans (h1 q hq), h2⟩
  theorem parseAugForkP_keys {X : Type} (decY : PSlice → Option PSlice) (decX : PSlice → Option X) :
      ∀ (refs : List PCell) (rest0 : Bits) (m : Int) (pfx : Bits) (kv : List (Bits × X)),
        parseAugForkP decY decX refs rest0 m pfx = some kv → (∀ q ∈ kv, pfx <+: q.1) ∧ (kv.map Prod.fst).Nodup
    | [], rest0, m, pfx, kv, h => by simp [parseAugForkP] at h
    | [_], rest0, m, pfx, kv, h => by simp [parseAugForkP] at h
    | c0 :: c1 :: more, rest0, m, pfx, kv, h => by
      rw [parseAugForkP] at h
      split at h
      · rename_i a b ha hb
        split at h
        · cases h
        · cases h
          obtain ⟨pa, na⟩ := parseAugP_keys decY decX c0 m _ a ha
          obtain ⟨pb, nb⟩ := parseAugP_keys decY decX c1 m _ b hb
          refine ⟨?_, ?_⟩
          · intro q hq
            rcases List.mem_append.1 hq with hq | hq
            · exact (List.prefix_append pfx [false]).trans (pa q hq)
            · exact (List.prefix_append pfx [true]).trans (pb q hq)
          · rw [List.map_append, List.nodup_append]
            refine ⟨na, nb, ?_⟩
            intro x hx y hy hxy
            obtain ⟨qa, hqa, rfl⟩ := List.mem_map.1 hx
            obtain ⟨qb, hqb, rfl⟩ := List.mem_map.1 hy
            have h1 := pa qa hqa
            have h2 := pb qb hqb
            rw [← hxy] at h2
            exact prefix_fork_absurd h1 h2
      · cases h
end

/-! ### `int(i, 2)` keys and the dict lookup -/

theorem natOfBits_inj : ∀ (a b : Bits), a.length = b.length → natOfBits a = natOfBits b → a = b
  | [], [], _, _ => rfl
  | [], _ :: _, h, _ => by simp at h
  | _ :: _, [], h, _ => by simp at h
  | x :: t, y :: u, hl, hv => by
    simp only [List.length_cons, Nat.add_right_cancel_iff] at hl
    rw [natOfBits_cons, natOfBits_cons, hl] at hv
    have h1 := natOfBits_lt t
    have h2 := natOfBits_lt u
    rw [hl] at h1
    have hp : 0 < 2 ^ u.length := Nat.pow_pos (by decide)
    have hxy : x = y := by
      cases x <;> cases y <;> simp at hv ⊢ <;> omega
    subst hxy
    have : natOfBits t = natOfBits u := by omega
    rw [natOfBits_inj t u hl this]

theorem foldl_dictSet_get {V : Type} (k : Nat) (x : V) : ∀ (kv : List (Bits × V)) (acc : Dict V),
    dictGet k (kv.foldl (fun d p => dictSet (natOfBits p.1) p.2 d) acc) = some x →
    (∃ key, (key, x) ∈ kv ∧ natOfBits key = k) ∨ dictGet k acc = some x
  | [], acc, h => Or.inr h
  | p :: kv, acc, h => by
    rw [List.foldl_cons] at h
    rcases foldl_dictSet_get k x kv _ h with ⟨key, hm, hk⟩ | h'
    · exact Or.inl ⟨key, List.mem_cons_of_mem _ hm, hk⟩
    · rw [dictGet_dictSet] at h'
      split at h'
      · rename_i e
        simp only [Option.some.injEq] at h'
        exact Or.inl ⟨p.1, by rw [← h']; simp, e.symm⟩
      · exact Or.inr h'

/-- an entry of the re-keyed dict comes from a parsed entry with that integer key -/
theorem intKeys_get {V : Type} (kv : List (Bits × V)) (k : Nat) (x : V) (h : dictGet k (intKeys kv) = some x) :
    ∃ key, (key, x) ∈ kv ∧ natOfBits key = k := by
  rcases foldl_dictSet_get k x kv [] h with h | h
  · exact h
  · simp [dictGet] at h

theorem foldl_dictSet_other {V : Type} (k : Nat) : ∀ (kv : List (Bits × V)) (acc : Dict V),
    (∀ p ∈ kv, natOfBits p.1 ≠ k) →
    dictGet k (kv.foldl (fun d p => dictSet (natOfBits p.1) p.2 d) acc) = dictGet k acc
  | [], acc, _ => rfl
  | p :: kv, acc, h => by
    rw [List.foldl_cons, foldl_dictSet_other k kv _ (fun q hq => h q (List.mem_cons_of_mem _ hq)), dictGet_dictSet]
    have := h p (by simp)
    rw [if_neg (fun e => this e.symm)]

theorem foldl_dictSet_mem {V : Type} (key : Bits) (x : V) : ∀ (kv : List (Bits × V)) (acc : Dict V),
    (kv.map (fun p => natOfBits p.1)).Nodup → (key, x) ∈ kv →
    dictGet (natOfBits key) (kv.foldl (fun d p => dictSet (natOfBits p.1) p.2 d) acc) = some x
  | [], acc, _, h => by simp at h
  | p :: kv, acc, hn, h => by
    rw [List.map_cons, List.nodup_cons] at hn
    rw [List.foldl_cons]
    rcases List.mem_cons.1 h with h | h
    · subst h
      rw [foldl_dictSet_other]
      · rw [dictGet_dictSet]; simp
      · intro q hq e
        exact hn.1 (List.mem_map.2 ⟨q, hq, e⟩)
    · exact foldl_dictSet_mem key x kv _ hn.2 h

/-- a parsed entry is found under its integer key when the keys are pairwise different and equally long -/
theorem intKeys_mem {V : Type} (kv : List (Bits × V)) (n : Nat) (hl : ∀ q ∈ kv, q.1.length = n)
    (hn : (kv.map Prod.fst).Nodup) (key : Bits) (x : V) (h : (key, x) ∈ kv) :
    dictGet (natOfBits key) (intKeys kv) = some x := by
  apply foldl_dictSet_mem key x kv [] _ h
  have : kv.map (fun p => natOfBits p.1) = (kv.map Prod.fst).map natOfBits := by simp [List.map_map, Function.comp_def]
  rw [this]
  apply nodup_map_on natOfBits _ _ hn
  intro a ha b hb e
  obtain ⟨qa, hqa, rfl⟩ := List.mem_map.1 ha
  obtain ⟨qb, hqb, rfl⟩ := List.mem_map.1 hb
  exact natOfBits_inj _ _ (by rw [hl qa hqa, hl qb hqb]) e

theorem foldl_be_bits : ∀ (bs : Bytes), Bytes.WF bs → ∀ acc : Nat,
    bs.foldl (fun a b => a * 256 + b) acc = acc * 2 ^ (8 * bs.length) + natOfBits (bytesToBits bs)
  | [], _, acc => by simp [bytesToBits, natOfBits_nil]
  | b :: t, hw, acc => by
    have hb : b < 256 := hw b (by simp)
    have ht : Bytes.WF t := fun x hx => hw x (by simp [hx])
    rw [List.foldl_cons, foldl_be_bits t ht, Prune.bytesToBits_cons, natOfBits_append, Prune.length_bytesToBits]
    have : natOfBits (byteToBits b) = b := natOfBits_natToBits 8 b (by omega)
    have e : 2 ^ (8 * (t.length + 1)) = 2 ^ (8 * t.length) * 256 := by rw [Nat.mul_succ, Nat.pow_add]
    rw [this, List.length_cons, e]
    ring

/-- `int.from_bytes(addr, 'big')` is the number whose `8·|addr|` binary digits are `bytesToBits addr` -/
theorem natOfBE_bits (bs : Bytes) (hw : Bytes.WF bs) : natOfBE bs = natOfBits (bytesToBits bs) := by
  unfold natOfBE
  rw [foldl_be_bits bs hw 0]; simp

/-! ### the value readers -/

/-- `DepthBalanceInfo.deserialize` consumes exactly what block.tlb says a `DepthBalanceInfo` occupies -/
theorem readDepthBalance_skip {rest : Bits} {refs : List PCell} {sl : PSlice} (h : readDepthBalance (rest, refs) = some sl) :
    ∃ k, skipDepthBalance rest = some (sl.1, k) ∧ sl.2 = refs.drop k := by
  unfold readDepthBalance at h
  split at h
  · cases h
  · rename_i hl
    unfold readCurrencyCollection at h
    simp only at h hl
    unfold skipDepthBalance
    rw [if_neg hl]
    split at h
    · cases h
    · rename_i r hr
      unfold readExtraCurrencies at h
      simp only at h
      split at h
      · cases h
      · cases h; exact ⟨0, rfl, rfl⟩
      · split at h
        · cases h
        · rename_i r' _ c more
          have : sl = (r', more) := by
            split at h
            · exact (Option.some.inj h).symm
            · split at h
              · cases h
              · split at h
                · exact (Option.some.inj h).symm
                · cases h
          subst this
          exact ⟨1, rfl, by simp⟩

/-- `ShardAccount.deserialize(...).cell[0]` is the first reference left after the extra, and 320 value bits are there -/
theorem readShardAccount_head {O : Opaque} {sl : PSlice} {acc : PCell} (h : readShardAccount O sl = some acc) :
    (∃ t, sl.2 = acc :: t) ∧ 320 ≤ sl.1.length := by
  unfold readShardAccount at h
  split at h
  · cases h
  · rename_i a t hs
    split at h
    · cases h
    · split at h
      · cases h
      · split at h
        · cases h
        · cases h
          exact ⟨⟨t, hs⟩, by omega⟩

/-! ### `locateAccount` finds what the lookup of block.tlb / hashmap.tlb finds -/

/-- what a successful `ShardAccounts.deserialize(...)[0]` says about the accounts cell -/
theorem loadShardAccounts_some {O : Opaque} {accs : PCell} {d : Dict PCell} (h : loadShardAccounts O accs = some d) :
    accs.info.kind = -1 ∧ ∃ rest root more kv, accs.info.bits = true :: rest ∧ accs.refs = root :: more ∧
      root.info.kind = -1 ∧ parseAugP readDepthBalance (readShardAccount O) root 256 [] = some kv ∧
      (∃ sl, readDepthBalance (rest, more) = some sl) ∧ d = intKeys kv := by
  unfold loadShardAccounts at h
  split at h
  · cases h
  · rename_i hk
    refine ⟨by simpa using hk, ?_⟩
    split at h
    · cases h
    · cases h
    · rename_i rest hb
      split at h
      · cases h
      · rename_i root more hr
        split at h
        · cases h
        · rename_i hrk
          split at h
          · cases h
          · rename_i kv hp
            split at h
            · cases h
            · split at h
              · cases h
              · rename_i sl hy
                cases h
                exact ⟨rest, root, more, kv, hb, hr, by simpa using hrk, hp, ⟨sl, hy⟩, rfl⟩

/-- what a successful `locateAccount` says: the state cell is an ordinary cell with the `shard_state` tag and at
least 361 bits, its second reference passes `ShardAccounts.deserialize`, and the account cell is the dict entry -/
theorem locateAccount_some {O : Opaque} {st : PCell} {addr : Bytes} {acc : PCell} (h : locateAccount O st addr = some acc) :
    st.info.kind = -1 ∧ 361 ≤ st.info.bits.length ∧ st.info.bits.take 32 = shardStateTag ∧
    ∃ omq accs rest d, st.refs = omq :: accs :: rest ∧ loadShardAccounts O accs = some d ∧
      dictGet (natOfBE addr) d = some acc := by
  unfold locateAccount at h
  simp only at h
  split at h
  · cases h
  · rename_i hk
    split at h
    · cases h
    · rename_i hlen
      split at h
      · cases h
      · rename_i htag
        split at h
        · cases h
        · split at h
          · rename_i omq accs rest hrefs
            split at h
            · cases h
            · rename_i d hd
              refine ⟨by simpa using hk, by omega, by simpa using htag, omq, accs, rest, d, hrefs, hd, ?_⟩
              split at h
              · cases h
              · split at h
                · cases h
                · split at h
                  · cases h
                  · exact h
                  · split at h
                    · cases h
                    · split at h
                      · exact h
                      · cases h
          · cases h

theorem getElem?_of_drop {α : Type} {l : List α} {k : Nat} {a : α} {t : List α} (h : l.drop k = a :: t) : l[k]? = some a := by
  have := List.getElem?_drop (xs := l) (i := k) (j := 0)
  rw [h] at this
  simpa using this.symm

/-- LOCATE ⊆ LOOKUP.  Whatever `ShardStateUnsplit.deserialize(st).accounts[0][addr].cell[0]` returns is the cell the
lookup-only reading of block.tlb designates: the `account:^Account` reference of the leaf that the dictionary walk
along the 256 bits of `addr` reaches below `st[1][0]`. -/
theorem locateAccount_lookup (O : Opaque) (st : PCell) (addr : Bytes) (acc : PCell) (hl : addr.length = 32)
    (hw : Bytes.WF addr) (h : locateAccount O st addr = some acc) :
    lookupShardAccount pcellView st (bytesToBits addr) = some acc := by
  obtain ⟨hk, hlen, htag, omq, accs, rest, d, hrefs, hd, hget⟩ := locateAccount_some h
  obtain ⟨hak, arest, root, more, kv, hab, har, hrk, hp, _, rfl⟩ := loadShardAccounts_some hd
  obtain ⟨key, hmem, hkey⟩ := intKeys_get kv _ acc hget
  obtain ⟨k', hk', hlen', hlk⟩ := parseAugP_lookup readDepthBalance (readShardAccount O) root 256 [] kv hp key acc hmem
  simp only [List.nil_append] at hk'
  subst hk'
  have hkeq : key = bytesToBits addr := by
    apply natOfBits_inj
    · rw [hlen', Prune.length_bytesToBits, hl]
    · rw [hkey, natOfBE_bits addr hw]
  subst hkeq
  obtain ⟨lrest, lrefs, sl, hlook, hy, hx⟩ := hlk 257 (by omega)
  obtain ⟨k, hskip, hdrop⟩ := readDepthBalance_skip hy
  obtain ⟨⟨t, hhead⟩, h320⟩ := readShardAccount_head hx
  have hroot : accountsRoot pcellView st = some root := by
    have h1 : ¬ st.info.bits.length < 361 := by omega
    simp [accountsRoot, pcellView, hk, h1, htag, hrefs, hak, hab, har]
  have hidx : lrefs[k]? = some acc := getElem?_of_drop (by rw [← hdrop, hhead])
  have h2 : ¬ sl.1.length < 320 := by omega
  simp [lookupShardAccount, hroot, hlook, hskip, h2, hidx]

/-! ### `parseAugP` is the C10 parser model (`Hashmap.parseAugEdge`) transported to constructed cells -/

theorem toCells_cons2 (l r : PCell) (more : List PCell) :
    PCell.toCells (l :: r :: more) = l.toCell :: r.toCell :: PCell.toCells more := by
  simp [PCell.toCells]

/-- decoders on constructed-cell slices and decoders on tree slices (`Spec.Hashmap.AugDec`) that do the same: the extra
reader succeeds on the same slices and leaves the same rest, the value reader succeeds on the same slices -/
structure DecCompat {X X' Y' : Type} (decY : PSlice → Option PSlice) (decX : PSlice → Option X)
    (D : Spec.Hashmap.AugDec X' Y') : Prop where
  extra : ∀ rest refs, (decY (rest, refs)).map (fun sl => (sl.1, PCell.toCells sl.2)) =
    (D.decY (rest, PCell.toCells refs)).map (·.2)
  value : ∀ sl : PSlice, (decX sl).isSome = (D.decX (sl.1, PCell.toCells sl.2)).isSome

mutual
  /-- same success, same keys in the same order as the C10 model `parseAugEdge` run on the underlying tree (the model
  the C10 correspondence and `c10_parse_any_aug` are about) -/
  theorem parseAugP_c10 {X X' Y' : Type} (decY : PSlice → Option PSlice) (decX : PSlice → Option X)
      (D : Spec.Hashmap.AugDec X' Y') (hc : DecCompat decY decX D) :
      ∀ (c : PCell) (keyLen : Int) (pfx : Bits),
        (parseAugP decY decX c keyLen pfx).map (·.map Prod.fst) =
          (parseAugEdge D c.toCell keyLen pfx).map (·.1.map Prod.fst)
    | .mk info refs, keyLen, pfx => by
      rw [parseAugP, PCell.toCell, parseAugEdge]
      by_cases hk : info.kind ≠ -1
      · simp [hk]
      · rw [if_neg hk, if_neg hk]
        cases hd : deserializeHml info.bits keyLen with
        | none => simp
        | some r =>
          obtain ⟨n, s, rest⟩ := r
          simp only
          by_cases hz : keyLen - (n : Int) = 0
          · rw [if_pos hz, if_pos hz]
            have he := hc.extra rest refs
            cases hy : decY (rest, refs) with
            | none =>
              rw [hy] at he
              cases hy' : D.decY (rest, PCell.toCells refs) with
              | none => simp
              | some q => rw [hy'] at he; simp at he
            | some sl =>
              rw [hy] at he
              cases hy' : D.decY (rest, PCell.toCells refs) with
              | none => rw [hy'] at he; simp at he
              | some q =>
                obtain ⟨y, sl'⟩ := q
                rw [hy'] at he
                simp only [Option.map_some, Option.some.injEq] at he
                subst he
                have hv := hc.value sl
                cases hx : decX sl with
                | none => rw [hx] at hv; cases hx' : D.decX (sl.1, PCell.toCells sl.2) with
                  | none => simp [hx, hx']
                  | some x' => rw [hx'] at hv; simp at hv
                | some x =>
                  rw [hx] at hv
                  cases hx' : D.decX (sl.1, PCell.toCells sl.2) with
                  | none => rw [hx'] at hv; simp at hv
                  | some x' => simp [hx, hx']
          · rw [if_neg hz, if_neg hz]
            exact parseAugForkP_c10 decY decX D hc refs rest (keyLen - n - 1) (pfx ++ s)
  theorem parseAugForkP_c10 {X X' Y' : Type} (decY : PSlice → Option PSlice) (decX : PSlice → Option X)
      (D : Spec.Hashmap.AugDec X' Y') (hc : DecCompat decY decX D) :
      ∀ (refs : List PCell) (rest : Bits) (m : Int) (pfx : Bits),
        (parseAugForkP decY decX refs rest m pfx).map (·.map Prod.fst) =
          (parseAugFork D (PCell.toCells refs) rest m pfx).map (·.1.map Prod.fst)
    | [], rest, m, pfx => by simp [parseAugForkP, PCell.toCells, parseAugFork]
    | [_], rest, m, pfx => by simp [parseAugForkP, PCell.toCells, parseAugFork]
    | l :: r :: more, rest, m, pfx => by
      have hl := parseAugP_c10 decY decX D hc l m (pfx ++ [false])
      have hr := parseAugP_c10 decY decX D hc r m (pfx ++ [true])
      rw [parseAugForkP, toCells_cons2, parseAugFork]
      cases ha : parseAugP decY decX l m (pfx ++ [false]) with
      | none =>
        rw [ha] at hl
        cases ha' : parseAugEdge D l.toCell m (pfx ++ [false]) with
        | none => simp
        | some q => rw [ha'] at hl; simp at hl
      | some a =>
        rw [ha] at hl
        cases ha' : parseAugEdge D l.toCell m (pfx ++ [false]) with
        | none => rw [ha'] at hl; simp at hl
        | some qa =>
          obtain ⟨a', ea⟩ := qa
          rw [ha'] at hl
          simp only [Option.map_some, Option.some.injEq] at hl
          cases hb : parseAugP decY decX r m (pfx ++ [true]) with
          | none =>
            rw [hb] at hr
            cases hb' : parseAugEdge D r.toCell m (pfx ++ [true]) with
            | none => simp
            | some q => rw [hb'] at hr; simp at hr
          | some b =>
            rw [hb] at hr
            cases hb' : parseAugEdge D r.toCell m (pfx ++ [true]) with
            | none => rw [hb'] at hr; simp at hr
            | some qb =>
              obtain ⟨b', eb⟩ := qb
              rw [hb'] at hr
              simp only [Option.map_some, Option.some.injEq] at hr
              simp only
              have he := hc.extra rest more
              cases hy : decY (rest, more) with
              | none =>
                rw [hy] at he
                cases hy' : D.decY (rest, PCell.toCells more) with
                | none => simp
                | some q => rw [hy'] at he; simp at he
              | some sl =>
                rw [hy] at he
                cases hy' : D.decY (rest, PCell.toCells more) with
                | none => rw [hy'] at he; simp at he
                | some q => simp [hl, hr]
end

/-! ### spec-valid augmented dictionaries inside a proof (completeness side) -/

open TonVerif.Spec.Hashmap (LabelEnc pre)

/-- `ValidAugP decY decX n c kv`: the constructed cell `c` is the root edge of a `HashmapAug n X Y` (hashmap.tlb; every
label in ANY constructor that can express it) in which any edge may have been replaced by a non-ordinary cell (a
pruned branch); on every unpruned fork the extra is readable (`decY`), on every unpruned leaf the extra and the value
(`decX`).  `kv` = the unpruned leaves, left to right, keys relative to this edge. -/
inductive ValidAugP {X : Type} (decY : PSlice → Option PSlice) (decX : PSlice → Option X) :
    Nat → PCell → List (Bits × X) → Prop where
  | leaf {n s k lb rest refs info sl x} : LabelEnc n s k lb → s.length = n → info.kind = -1 → info.bits = lb ++ rest →
      decY (rest, refs) = some sl → decX sl = some x → ValidAugP decY decX n (.mk info refs) [(s, x)]
  | fork {n m s k lb rest l r more info kvl kvr sl} : LabelEnc n s k lb → n = s.length + 1 + m → info.kind = -1 →
      info.bits = lb ++ rest → ValidAugP decY decX m l kvl → ValidAugP decY decX m r kvr →
      decY (rest, more) = some sl →
      ValidAugP decY decX n (.mk info (l :: r :: more)) (kvl.map (pre (s ++ [false])) ++ kvr.map (pre (s ++ [true])))
  | pruned {n c} : c.info.kind ≠ -1 → ValidAugP decY decX n c []

/-- `parse_aug` accepts every such dictionary and returns its unpruned leaves -/
theorem parseAugP_valid {X : Type} {decY : PSlice → Option PSlice} {decX : PSlice → Option X} {n c kv}
    (h : ValidAugP decY decX n c kv) : ∀ pfx : Bits, parseAugP decY decX c (n : Int) pfx = some (kv.map (pre pfx)) := by
  induction h with
  | @leaf n s k lb rest refs info sl x hl hn hk hb hy hx =>
    intro pfx
    rw [parseAugP, hb, deserializeHml_enc hl]
    simp [hk, hn, hy, hx, pre]
  | @fork n m s k lb rest l r more info kvl kvr sl hl hn hk hb _ _ hy ihl ihr =>
    intro pfx
    rw [parseAugP, hb, deserializeHml_enc hl]
    have hm : ((n : Int) - (s.length : Int) = 0) = False := by simp; omega
    have hm2 : (n : Int) - (s.length : Int) - 1 = (m : Int) := by omega
    simp only [hk, ne_eq, not_true_eq_false, if_false, hm, hm2, parseAugForkP]
    rw [ihl, ihr]
    simp [hy, pre_comp, List.append_assoc]
  | @pruned n c hk =>
    intro pfx
    cases c with
    | mk info refs =>
      simp only [PCell.info] at hk
      rw [parseAugP, if_pos hk]; rfl

theorem validAugP_len {X : Type} {decY : PSlice → Option PSlice} {decX : PSlice → Option X} {n c kv}
    (h : ValidAugP decY decX n c kv) : ∀ q ∈ kv, q.1.length = n := by
  induction h with
  | leaf _ hn _ _ _ _ => intro q hq; simp at hq; subst hq; exact hn
  | fork _ hn _ _ _ _ _ ihl ihr =>
    intro q hq
    simp only [List.mem_append, List.mem_map] at hq
    rcases hq with ⟨a, ha, rfl⟩ | ⟨a, ha, rfl⟩
    · have := ihl a ha; simp [pre, this]; omega
    · have := ihr a ha; simp [pre, this]; omega
  | pruned _ => intro q hq; simp at hq

/-- LOCATE is complete on honest states: an ordinary `shard_state` cell with ≥ 362 bits whose second reference is
`ahme_root$1 ^root extra` with a readable top-level extra, `root` a spec-valid `HashmapAug 256` (any pruning of edges)
that still holds the address with account reference `acc`, a readable (or pruned) `^[…]` group and `custom` absent,
pruned or accepted by `McStateExtra.deserialize`. -/
theorem locateAccount_complete (O : Opaque) (st omq accs grp root : PCell) (rest2 emore : List PCell) (erest : Bits)
    (kv : List (Bits × PCell)) (addr : Bytes) (acc : PCell)
    (hk : st.info.kind = -1) (hlen : 361 < st.info.bits.length) (htag : st.info.bits.take 32 = shardStateTag)
    (hsi : (st.info.bits.drop 64).take 2 = [false, false]) (hrefs : st.refs = omq :: accs :: grp :: rest2)
    (hak : accs.info.kind = -1) (hab : accs.info.bits = true :: erest) (har : accs.refs = root :: emore)
    (hext : ∃ sl, readDepthBalance (erest, emore) = some sl) (hrk : root.info.kind = -1)
    (hv : ValidAugP readDepthBalance (readShardAccount O) 256 root kv) (hmem : (bytesToBits addr, acc) ∈ kv)
    (hw : Bytes.WF addr) (hgrp : stateRefGroup grp = true)
    (hcu : st.info.bits[361]? = some false ∨
      ∃ cu more, rest2 = cu :: more ∧ (cu.info.kind ≠ -1 ∨ O.mcExtra cu = true)) :
    locateAccount O st addr = some acc := by
  have hp : parseAugP readDepthBalance (readShardAccount O) root 256 [] = some kv := by
    have := parseAugP_valid hv []
    rw [map_pre_nil] at this
    exact this
  have hlens := validAugP_len hv
  have hne : kv.any (fun p => p.1.isEmpty) = false := by
    rw [List.any_eq_false]
    intro q hq
    have := hlens q hq
    cases hq1 : q.1 with
    | nil => rw [hq1] at this; simp at this
    | cons a t => simp
  obtain ⟨sl, hsl⟩ := hext
  have hload : loadShardAccounts O accs = some (intKeys kv) := by
    simp [loadShardAccounts, hak, hab, har, hrk, hp, hne, hsl]
  have hget : dictGet (natOfBE addr) (intKeys kv) = some acc := by
    rw [natOfBE_bits addr hw]
    exact intKeys_mem kv 256 hlens (parseAugP_keys _ _ root 256 [] kv hp).2 _ _ hmem
  have h1 : ¬ st.info.bits.length < 361 := by omega
  obtain ⟨b, tl, hdrop⟩ : ∃ b tl, st.info.bits.drop 361 = b :: tl := by
    cases hd : st.info.bits.drop 361 with
    | nil => have := congrArg List.length hd; simp at this; omega
    | cons b tl => exact ⟨b, tl, rfl⟩
  have hb361 : st.info.bits[361]? = some b := getElem?_of_drop hdrop
  unfold locateAccount
  simp only [hk, ne_eq, not_true_eq_false, if_false, h1, htag, hsi, hrefs, hload, hgrp, Bool.not_true,
    Bool.false_eq_true, hdrop]
  rcases hcu with hcu | ⟨cu, more, rfl, hcu⟩
  · rw [hb361] at hcu
    cases hcu
    exact hget
  · cases b with
    | false => exact hget
    | true =>
      rcases hcu with hcu | hcu
      · simp [hcu, hget]
      · simp [hcu, hget]

end TonVerif.Proofs.Locate
