/-
Helper lemmas for the account part of C11: the TL-B walk `locateAccount` (Model/Locate.lean) — full dictionary parse on
constructed cells — versus the lookup-only walk `lookupShardAccount` of hashmap.tlb / block.tlb.
-/
import TonVerif.Model.Proof
import TonVerif.Proofs.Hashmap

namespace TonVerif.Proofs.Locate
open TonVerif TonVerif.Model TonVerif.Model.Hashmap TonVerif.Proofs.Hashmap

set_option linter.unusedSimpArgs false
set_option linter.unusedVariables false

/-! ### labels -/

theorem loadBits_length {n : Nat} {bits s r : Bits} (h : loadBits n bits = some (s, r)) : s.length = n := by
  unfold loadBits at h
  split at h
  · cases h
  · rename_i hl
    simp only [Option.some.injEq, Prod.mk.injEq] at h
    rw [← h.1, List.length_take]; omega

/-- the label returned by `deserialize_hml` has the announced length -/
theorem deserializeHml_length {bits : Bits} {m : Int} {n : Nat} {s rest : Bits}
    (h : deserializeHml bits m = some (n, s, rest)) : s.length = n := by
  unfold deserializeHml at h
  split at h
  · cases h
  · simp only [Option.bind_eq_bind, Option.bind_eq_some_iff] at h
    obtain ⟨⟨a, r1⟩, h1, ⟨s', r2⟩, h2, h3⟩ := h
    simp only [Option.some.injEq, Prod.mk.injEq] at h3
    obtain ⟨rfl, rfl, rfl⟩ := h3
    exact loadBits_length h2
  · cases h
  · simp only [Option.bind_eq_bind, Option.bind_eq_some_iff] at h
    obtain ⟨⟨a, r1⟩, h1, ⟨s', r2⟩, h2, h3⟩ := h
    simp only [Option.some.injEq, Prod.mk.injEq] at h3
    obtain ⟨rfl, rfl, rfl⟩ := h3
    exact loadBits_length h2
  · cases h
  · simp only [Option.bind_eq_bind, Option.bind_eq_some_iff] at h
    obtain ⟨⟨a, r1⟩, h1, h3⟩ := h
    simp only [Option.some.injEq, Prod.mk.injEq] at h3
    obtain ⟨rfl, rfl, rfl⟩ := h3
    simp

/-! ### `parse_aug` on constructed cells: what a successful parse says -/

mutual
  /-- below a negative remaining key length (label longer than the key) there are no leaves -/
  theorem parseAugP_neg {X : Type} (decY : PSlice → Option PSlice) (decX : PSlice → Option X) :
      ∀ (c : PCell) (keyLen : Int) (pfx : Bits) (kv : List (Bits × X)),
        keyLen < 0 → parseAugP decY decX c keyLen pfx = some kv → kv = []
    | .mk info refs, keyLen, pfx, kv, hneg, h => by
      rw [parseAugP] at h
      split at h
      · cases h; rfl
      · split at h
        · cases h
        · rename_i n s rest hd
          have hne : ¬ (keyLen - (n : Int) = 0) := by omega
          rw [if_neg hne] at h
          exact parseAugForkP_neg decY decX refs rest (keyLen - n - 1) (pfx ++ s) kv (by omega) h
  theorem parseAugForkP_neg {X : Type} (decY : PSlice → Option PSlice) (decX : PSlice → Option X) :
      ∀ (refs : List PCell) (rest : Bits) (m : Int) (pfx : Bits) (kv : List (Bits × X)),
        m < 0 → parseAugForkP decY decX refs rest m pfx = some kv → kv = []
    | [], rest, m, pfx, kv, hneg, h => by simp [parseAugForkP] at h
    | [_], rest, m, pfx, kv, hneg, h => by simp [parseAugForkP] at h
    | l :: r :: more, rest, m, pfx, kv, hneg, h => by
      rw [parseAugForkP] at h
      split at h
      · rename_i a b ha hb
        split at h
        · cases h
        · cases h
          rw [parseAugP_neg decY decX l m _ a hneg ha, parseAugP_neg decY decX r m _ b hneg hb]; rfl
      · cases h
end

theorem lookupAug_leaf (c : PCell) (n : Nat) (s rest : Bits) (fuel : Nat)
    (hk : c.info.kind = -1) (hd : deserializeHml c.info.bits (n : Int) = some (n, s, rest)) (hs : s.length = n) :
    lookupAug pcellView (fuel + 1) c n s = some (rest, c.refs) := by
  subst hs
  simp [lookupAug, pcellView, hk, hd]

theorem lookupAug_fork (c c0 c1 : PCell) (more : List PCell) (n l : Nat) (s rest : Bits) (b : Bool) (k : Bits) (fuel : Nat)
    (hk : c.info.kind = -1) (hd : deserializeHml c.info.bits (n : Int) = some (l, s, rest)) (hs : s.length = l)
    (hl : l < n) (hr : c.refs = c0 :: c1 :: more) :
    lookupAug pcellView (fuel + 1) c n (s ++ b :: k) = lookupAug pcellView fuel (if b then c1 else c0) (n - l - 1) k := by
  subst hs
  have h1 : ¬ (s.length > n) := by omega
  have h2 : n - s.length ≠ 0 := by omega
  simp [lookupAug, pcellView, hk, hd, h1, h2, hr]

mutual
  /-- every entry a successful `parse_aug` returns is what the LOOKUP of its key finds: the key is the prefix handed in
  followed by `n` bits `k'`, the walk `lookupAug` from this cell along `k'` ends in a leaf whose slice the two
  deserialisers turn into the entry's value -/
  theorem parseAugP_lookup {X : Type} (decY : PSlice → Option PSlice) (decX : PSlice → Option X) :
      ∀ (c : PCell) (n : Nat) (pfx : Bits) (kv : List (Bits × X)),
        parseAugP decY decX c (n : Int) pfx = some kv → ∀ key x, (key, x) ∈ kv →
        ∃ k', key = pfx ++ k' ∧ k'.length = n ∧ ∀ fuel, n < fuel →
          ∃ rest refs sl, lookupAug pcellView fuel c n k' = some (rest, refs) ∧ decY (rest, refs) = some sl ∧
            decX sl = some x
    | .mk info refs, n, pfx, kv, h, key, x, hmem => by
      rw [parseAugP] at h
      split at h
      · cases h; simp at hmem
      · rename_i hkind
        have hkind : info.kind = -1 := by simpa using hkind
        split at h
        · cases h
        · rename_i l s rest hd
          have hs := deserializeHml_length hd
          split at h
          · rename_i hz
            have hln : l = n := by omega
            subst hln
            split at h
            · cases h
            · rename_i sl hy
              split at h
              · cases h
              · rename_i x' hx
                cases h
                simp only [List.mem_singleton, Prod.mk.injEq] at hmem
                obtain ⟨rfl, rfl⟩ := hmem
                refine ⟨s, rfl, hs, ?_⟩
                intro fuel hf
                cases fuel with
                | zero => omega
                | succ f =>
                  exact ⟨rest, refs, sl, lookupAug_leaf (.mk info refs) l s rest f hkind hd hs, hy, hx⟩
          · rename_i hz
            by_cases hgt : n < l
            · have := parseAugForkP_neg decY decX refs rest _ _ kv (by omega) h
              subst this; simp at hmem
            · have hlt : l < n := by omega
              have hcast : (n : Int) - (l : Int) - 1 = ((n - l - 1 : Nat) : Int) := by omega
              rw [hcast] at h
              obtain ⟨c0, c1, more, b, k'', hrefs, hkey, hlen, hlk⟩ :=
                parseAugForkP_lookup decY decX refs rest (n - l - 1) (pfx ++ s) kv h key x hmem
              refine ⟨s ++ b :: k'', by rw [hkey]; simp, by simp [hs, hlen]; omega, ?_⟩
              intro fuel hf
              cases fuel with
              | zero => omega
              | succ f =>
                rw [lookupAug_fork (.mk info refs) c0 c1 more n l s rest b k'' f hkind hd hs hlt hrefs]
                exact hlk f (by omega)
  theorem parseAugForkP_lookup {X : Type} (decY : PSlice → Option PSlice) (decX : PSlice → Option X) :
      ∀ (refs : List PCell) (rest0 : Bits) (m : Nat) (pfx : Bits) (kv : List (Bits × X)),
        parseAugForkP decY decX refs rest0 (m : Int) pfx = some kv → ∀ key x, (key, x) ∈ kv →
        ∃ c0 c1 more b k'', refs = c0 :: c1 :: more ∧ key = pfx ++ b :: k'' ∧ k''.length = m ∧ ∀ fuel, m < fuel →
          ∃ rest refs' sl, lookupAug pcellView fuel (if b then c1 else c0) m k'' = some (rest, refs') ∧
            decY (rest, refs') = some sl ∧ decX sl = some x
    | [], rest0, m, pfx, kv, h, key, x, hmem => by simp [parseAugForkP] at h
    | [_], rest0, m, pfx, kv, h, key, x, hmem => by simp [parseAugForkP] at h
    | c0 :: c1 :: more, rest0, m, pfx, kv, h, key, x, hmem => by
      rw [parseAugForkP] at h
      split at h
      · rename_i a b ha hb
        split at h
        · cases h
        · cases h
          rcases List.mem_append.1 hmem with hm | hm
          · obtain ⟨k', hk, hl, hlk⟩ := parseAugP_lookup decY decX c0 m _ a ha key x hm
            exact ⟨c0, c1, more, false, k', rfl, by rw [hk]; simp, hl, by simpa using hlk⟩
          · obtain ⟨k', hk, hl, hlk⟩ := parseAugP_lookup decY decX c1 m _ b hb key x hm
            exact ⟨c0, c1, more, true, k', rfl, by rw [hk]; simp, hl, by simpa using hlk⟩
      · cases h
end

end TonVerif.Proofs.Locate
