/-
`Builder.store_snake_bytes / store_snake_string` and `Slice.load_snake_bytes / load_snake_string`, regenerated from the source
(Generated/SnakeOps.lean, translator harness/translate/pymeth.py: a `for` loop with a loop-carried cell built from the TAIL of the
chain, a `while True:` over a cursor that starts as an alias of `self`), equal the hand model `BOp.storeSnake` / `SOp.loadSnakeFuel`
(RECURSIVE from the head of the chain) for ALL byte strings and ALL builder / slice states.
-/
import TonVerif.Generated.SnakeOps
import TonVerif.Proofs.SrcBuilder
import TonVerif.Proofs.SrcSlice
import TonVerif.Proofs.Snake

namespace TonVerif.Proofs.SrcSnake
open TonVerif TonVerif.Model TonVerif.Generated.SnakeOps TonVerif.Proofs.SrcBuilder TonVerif.Proofs.Snake
variable {R : Type}
set_option linter.unusedSimpArgs false
set_option linter.unusedVariables false

/-! ### generation independent: a loop whose body does not touch `self` is a fold over the loop-carried local -/

/-- the loop-carried local after the loop (`none` = an iteration raised) -/
def foldO {ι τ : Type} (g : ι → τ → Option τ) : List ι → τ → Option τ
  | [], acc => some acc
  | x :: xs, acc => match g x acc with
    | none => none
    | some a => foldO g xs a

theorem forL_pure {σ ι τ : Type} (g : ι → τ → Option τ) (f : ι → σ → τ → σ × Option τ)
    (h : ∀ j s t, f j s t = (s, g j t)) : ∀ (L : List ι) (s : σ) (acc : τ), Py.forL L s acc f = (s, foldO g L acc) := by
  intro L
  induction L with
  | nil => intro s acc; rfl
  | cons x xs ih =>
    intro s acc
    simp only [Py.forL, foldO, h]
    cases hg : g x acc with
    | none => rfl
    | some a => simp only [Py.bindS]; exact ih s a

theorem foldO_append {ι τ : Type} (g : ι → τ → Option τ) (L1 L2 : List ι) (acc : τ) :
    foldO g (L1 ++ L2) acc = (foldO g L1 acc).bind (foldO g L2) := by
  induction L1 generalizing acc with
  | nil => rfl
  | cons x xs ih =>
    simp only [List.cons_append, foldO]
    cases g x acc with
    | none => rfl
    | some a => exact ih a

theorem foldO_map {ι κ τ : Type} (g : ι → τ → Option τ) (h : κ → ι) (L : List κ) (acc : τ) :
    foldO g (L.map h) acc = foldO (fun j => g (h j)) L acc := by
  induction L generalizing acc with
  | nil => rfl
  | cons x xs ih =>
    simp only [List.map_cons, foldO]
    cases g (h x) acc with
    | none => rfl
    | some a => exact ih a

theorem foldO_congr {ι τ : Type} (g g' : ι → τ → Option τ) (h : ∀ j t, g j t = g' j t) (L : List ι) (acc : τ) :
    foldO g L acc = foldO g' L acc := by
  have : g = g' := funext fun j => funext fun t => h j t
  rw [this]

/-! ### `range(0, n, 127)` -/

theorem rangeStep_small (n : Nat) (h0 : 0 < n) (h : n ≤ 127) : Py.rangeStep 0 n 127 = [0] := by
  unfold Py.rangeStep
  have : (n - 0 + 127 - 1) / 127 = 1 := by omega
  rw [this]; rfl

theorem rangeStep_big (n : Nat) (h : 127 < n) :
    Py.rangeStep 0 n 127 = 0 :: (Py.rangeStep 0 (n - 127) 127).map (· + 127) := by
  unfold Py.rangeStep
  have : (n - 0 + 127 - 1) / 127 = (n - 127 - 0 + 127 - 1) / 127 + 1 := by omega
  rw [this, List.range_succ_eq_map]
  simp only [List.map_cons, List.map_map, Nat.zero_mul, Nat.add_zero, List.cons.injEq, true_and]
  apply List.map_congr_left
  intro k _
  simp only [Function.comp]
  rw [Nat.succ_mul]; omega

/-! ### the tail cells: the loop builds them from the END of the chain, the model recursively from its head -/

/-- one iteration of the regenerated loop, as a function of the loop-carried `tail` -/
def step (mk : Bits → List R → Option R) (rest : Bytes) (j : Nat) (tail : Option R) : Option (Option R) :=
  (mk (bytesToBits (Py.slice rest j (j + 127))) tail.toList).map some

/-- the cell the MODEL hangs under the first cell for the bytes `rest` (`none` = it raised) -/
def tailOf (mk : Bits → List R → Option R) (fuel : Nat) (rest : Bytes) : Option R :=
  if (BOp.storeSnakeFuel mk fuel rest Builder.empty).2 then
    mk (BOp.storeSnakeFuel mk fuel rest Builder.empty).1.bits (BOp.storeSnakeFuel mk fuel rest Builder.empty).1.refs
  else none

theorem slice_shift (rest : Bytes) (j : Nat) :
    Py.slice rest (j + 127) (j + 127 + 127) = Py.slice (rest.drop 127) j (j + 127) := by
  simp only [Py.slice, List.take_drop, List.drop_drop]
  rw [show 127 + j = j + 127 by omega, show 127 + (j + 127) = j + 127 + 127 by omega]

theorem step_shift (mk : Bits → List R → Option R) (rest : Bytes) (j : Nat) (t : Option R) :
    step mk rest (j + 127) t = step mk (rest.drop 127) j t := by
  unfold step; rw [slice_shift]

theorem tail_chain (mk : Bits → List R → Option R) : ∀ (n : Nat) (rest : Bytes), rest.length = n → rest ≠ [] →
    ∀ fuel, n + 1 ≤ fuel →
      foldO (step mk rest) (Py.rangeStep 0 rest.length 127).reverse none = (tailOf mk fuel rest).map some := by
  intro n
  induction n using Nat.strongRecOn with
  | _ n ih =>
    intro rest hn hne fuel hf
    obtain ⟨f, rfl⟩ : ∃ f, fuel = f + 1 := ⟨fuel - 1, by omega⟩
    have hpos : 0 < rest.length := List.length_pos_iff.mpr hne
    have hemp : rest.isEmpty = false := by cases rest <;> simp_all
    unfold tailOf
    rw [storeSnakeFuel_succ]
    simp only [hemp, Bool.false_eq_true, if_false, Builder.empty, List.length_nil, Nat.sub_zero, show 1023 / 8 = 127 by rfl]
    by_cases hfit : rest.length ≤ 127
    · rw [if_pos hfit, storeBytes_fits rest _ (by simp; omega), rangeStep_small _ hpos hfit]
      simp only [List.reverse_cons, List.reverse_nil, List.nil_append, foldO, step, Option.toList, if_true, List.nil_append]
      have : Py.slice rest 0 (0 + 127) = rest := by simp [Py.slice, List.take_of_length_le (by omega : rest.length ≤ 0 + 127)]
      rw [this]
      cases mk (bytesToBits rest) [] <;> rfl
    · rw [if_neg hfit]
      have h1 := storeBytes_fits (R := R) (rest.take 127) ⟨[], []⟩ (by simp [List.length_take]; omega)
      rw [h1, rangeStep_big _ (by omega)]
      simp only [Bool.not_true, Bool.false_eq_true, if_false, List.reverse_cons, foldO_append, ← List.map_reverse, foldO_map]
      rw [foldO_congr _ _ (fun j t => step_shift mk rest j t)]
      have hl : (rest.drop 127).length = rest.length - 127 := List.length_drop
      have hne' : rest.drop 127 ≠ [] := by
        intro e; have := congrArg List.length e; simp at this; omega
      have := ih (rest.length - 127) (by omega) (rest.drop 127) hl hne' f (by omega)
      rw [hl] at this
      rw [this]
      unfold tailOf
      simp only [Builder.empty]
      have hs : Py.slice rest 0 (0 + 127) = rest.take 127 := by simp [Py.slice]
      have hn4 : ¬ (0 ≥ 4) := by omega
      by_cases hr : (BOp.storeSnakeFuel mk f (List.drop 127 rest) ⟨[], []⟩).2 = true
      · simp only [hr, if_true, Bool.not_true, Bool.false_eq_true, if_false]
        cases hc : mk (BOp.storeSnakeFuel mk f (List.drop 127 rest) ⟨[], []⟩).1.bits
            (BOp.storeSnakeFuel mk f (List.drop 127 rest) ⟨[], []⟩).1.refs with
        | none => simp
        | some c =>
          simp only [Option.map_some, Option.bind_some, foldO, step, hs, Option.toList, List.nil_append, BOp.storeRef,
            List.length_nil, hn4, if_false, if_true]
          cases mk (bytesToBits (List.take 127 rest)) [c] <;> rfl
      · have hr' : (BOp.storeSnakeFuel mk f (List.drop 127 rest) ⟨[], []⟩).2 = false := by
          cases h : (BOp.storeSnakeFuel mk f (List.drop 127 rest) ⟨[], []⟩).2 <;> simp_all
        simp [hr']

/-! ### `store_snake_bytes` -/

theorem bindS_some {σ α β : Type} (s : σ) (a : α) (k : σ → α → σ × Option β) : Py.bindS (s, some a) k = k s a := rfl
theorem bindS_none {σ α β : Type} (s : σ) (k : σ → α → σ × Option β) : Py.bindS (s, (none : Option α)) k = (s, none) := rfl
theorem ofFlag_self {σ : Type} (r : σ × Bool) : (r.1, if r.2 = true then some () else none) = ofFlag r := rfl

theorem sliceI_to (bs : Bytes) (i : Nat) : Py.sliceI bs none (some ((i : Nat) : Int)) = bs.take i := by
  simp only [Py.sliceI, Py.bound, List.drop_zero]
  rw [if_pos (by omega)]
  simp [List.take_eq_take_iff]

theorem sliceI_from (bs : Bytes) (i : Nat) : Py.sliceI bs (some ((i : Nat) : Int)) none = bs.drop i := by
  simp only [Py.sliceI, Py.bound]
  rw [if_pos (by omega), List.take_length]
  by_cases h : i ≤ bs.length
  · simp [Nat.min_eq_left h]
  · have : min i bs.length = bs.length := by omega
    simp [this, List.drop_of_length_le (by omega : bs.length ≤ i)]

/-- one iteration of the regenerated loop leaves `self` alone and computes `step` -/
theorem end_cell_eq (mk : Bits → List R → Option R) (b : Builder R) : end_cell mk b = (b, mk b.bits b.refs) := by
  unfold end_cell Py.bindO; cases mk b.bits b.refs <;> rfl

theorem chunk_store (chunk : Bytes) (h : chunk.length ≤ 127) :
    TonVerif.Generated.BuilderOps.store_bytes chunk ({ bits := [], refs := [] } : Builder R) =
      (⟨bytesToBits chunk, []⟩, some ()) := by
  rw [src_store_bytes_eq, storeBytes_fits chunk _ (by simp; omega)]; rfl

theorem slice_len (rest : Bytes) (j : Nat) : (Py.slice rest j (j + 127)).length ≤ 127 := by
  simp only [Py.slice, List.length_drop, List.length_take]; omega

/-- other spellings of the chunk `rest[j:j + 127]`: `rest[j:][:127]` -/
theorem chunk_respell (rest : Bytes) (j : Nat) : Py.slice (rest.drop j) 0 127 = Py.slice rest j (j + 127) := by
  simp only [Py.slice, List.drop_zero, List.take_drop, Nat.add_comm]

/-- THE TIE, snake store: for EVERY byte string and EVERY builder state the regenerated `store_snake_bytes` (iterative: the head
bytes, then the tail cells built from the end of the chain in a loop-carried local) equals the hand model `BOp.storeSnake`
(recursive from the head): same decision to raise (`end_cell` of any tail cell, capacity of the first builder), same builder
afterwards (the head bytes stay written when a tail cell cannot be built). -/
theorem src_store_snake_bytes_eq (mk : Bits → List R → Option R) (value : Bytes) (b : Builder R) :
    store_snake_bytes mk value b = ofFlag (BOp.storeSnake mk value b) := by
  unfold store_snake_bytes BOp.storeSnake
  rw [storeSnakeFuel_succ]
  by_cases he : value = []
  · subst he; simp [ofFlag]
  have hlen : 0 < value.length := List.length_pos_iff.mpr he
  have hemp : value.isEmpty = false := by cases value <;> simp_all
  -- the emptiness test, however it is spelled (`len(value) == 0`, `not value`)
  first
    | rw [if_neg (by omega)]
    | rw [if_neg (by simp [he])]
  simp only [hemp, Bool.false_eq_true, if_false]
  by_cases hcap : b.bits.length ≤ 1023
  · -- the invariant case: `available_bytes` is the model's `(1023 - used) / 8`
    have hi : (((1023 : Int) - ((b.bits.length : Nat) : Int)) / (8 : Int)) = (((1023 - b.bits.length) / 8 : Nat) : Int) := by omega
    simp only [hi]
    have hroom : b.bits.length + 8 * ((1023 - b.bits.length) / 8) ≤ 1023 := by omega
    generalize hI : (1023 - b.bits.length) / 8 = i at hroom ⊢
    by_cases hfit : value.length ≤ i
    · rw [if_pos (by omega), if_pos hfit, src_store_bytes_eq, bindS_retU]
    · rw [if_neg (by omega), if_neg hfit, sliceI_to, sliceI_from, src_store_bytes_eq,
        storeBytes_fits (value.take i) b (by rw [List.length_take]; omega)]
      simp only [ofFlag, if_true, bindS_some, Bool.not_true, Bool.false_eq_true, if_false]
      rw [forL_pure (step mk (value.drop i)) _ (fun j s t => by
        try simp only [chunk_respell]
        simp only [chunk_store _ (slice_len _ j), Py.bindL, end_cell_eq, step]
        cases t with
        | none => simp only [Option.toList]; cases mk _ [] <;> rfl
        | some c =>
          simp only [src_store_ref_eq, BOp.storeRef, ofFlag, List.length_nil, Option.toList, List.nil_append]
          have hn4 : ¬ (0 ≥ 4) := by omega
          simp only [hn4, if_false, if_true]
          cases mk _ [c] <;> rfl)]
      have hne : value.drop i ≠ [] := by
        intro e; have := congrArg List.length e; simp at this; omega
      rw [tail_chain mk _ (value.drop i) rfl hne (value.length + 1) (by rw [List.length_drop]; omega)]
      unfold tailOf
      by_cases hr : (BOp.storeSnakeFuel mk (value.length + 1) (List.drop i value) Builder.empty).2 = true
      · simp only [hr, if_true, Bool.not_true, Bool.false_eq_true, if_false]
        cases hc : mk (BOp.storeSnakeFuel mk (value.length + 1) (List.drop i value) Builder.empty).1.bits
            (BOp.storeSnakeFuel mk (value.length + 1) (List.drop i value) Builder.empty).1.refs with
        | none => rfl
        | some c => simp only [Option.map_some, bindS_some, Py.bindO, src_store_ref_eq, bindS_retU, ofFlag_self]
      · have hr' : (BOp.storeSnakeFuel mk (value.length + 1) (List.drop i value) Builder.empty).2 = false := by
          cases h : (BOp.storeSnakeFuel mk (value.length + 1) (List.drop i value) Builder.empty).2 <;> simp_all
        simp [hr', bindS_none]
  · -- outside the builder invariant (more than 1023 bits): both refuse at once, nothing is written
    have hi : (((1023 : Int) - ((b.bits.length : Nat) : Int)) / (8 : Int)) < 0 := by omega
    have h0 : (1023 - b.bits.length) / 8 = 0 := by omega
    rw [if_neg (by omega), h0, if_neg (by omega), src_store_bytes_eq]
    have hov : ∀ bs : Bytes, BOp.storeBytes bs b = (b, false) := by
      intro bs; unfold BOp.storeBytes BOp.extend; rw [if_pos (by omega)]
    simp [hov, ofFlag, Py.bindS]

/-- `store_snake_string(value, need_prefix)`: `value.encode()` (a str travels as its UTF-8 bytes), the optional zero byte, then
`store_snake_bytes` -/
theorem src_store_snake_string_eq (mk : Bits → List R → Option R) (bs : Bytes) (p : Bool) (b : Builder R) :
    store_snake_string mk bs p b = ofFlag (BOp.storeSnakeString mk bs p b) := by
  unfold store_snake_string BOp.storeSnakeString
  cases p <;> simp [src_store_snake_bytes_eq, bindS_retU]

/-! ### `load_snake_bytes`: a `while True:` over a cursor that starts as an alias of `self` -/

open TonVerif.Generated.SliceOps TonVerif.Proofs.SrcSlice TonVerif.Proofs.Slice in
theorem load_bytes_untouched (n : Nat) (st : Py.SliceSt R) :
    (load_bytes n st).1.refs = st.refs ∧ (load_bytes n st).1.ref_offset = st.ref_offset := by
  obtain ⟨bits, refs, off⟩ := st
  constructor <;>
    simp only [load_bytes, preload_bytes, skip_bits, Py.bindS, Py.bindO, Py.zoom] <;>
    (repeat' split) <;> simp_all

open TonVerif.Generated.SliceOps TonVerif.Proofs.SrcSlice TonVerif.Proofs.Slice in
/-- reading all whole bytes of a byte-aligned slice never raises, empties the bits and leaves the references alone -/
theorem load_all_bytes (st : Py.SliceSt R) (h8 : st.bits.length % 8 = 0) :
    load_bytes (st.bits.length / 8) st = ({ st with bits := [] }, some (bitsToBytes st.bits)) := by
  have h := src_load_bytes_eq (st.bits.length / 8) st
  have hu := load_bytes_untouched (st.bits.length / 8) st
  have hn : st.bits.length / 8 * 8 = st.bits.length := by omega
  rw [show view st = ⟨st.bits, st.refs.drop st.ref_offset⟩ from rfl, loadBytes_eq, if_neg (by omega), hn] at h
  simp only [List.drop_length, List.take_length, viewR, view, Option.map_id, id, Prod.mk.injEq, Slice.mk.injEq] at h
  obtain ⟨⟨hb, _⟩, hv⟩ := h
  refine Prod.ext ?_ hv
  cases hs : (load_bytes (st.bits.length / 8) st).1 with
  | mk b r o =>
    rw [hs] at hb hu
    simp only at hb hu
    obtain ⟨h1, h2⟩ := hu
    subst hb h1 h2
    rfl

/-- one iteration on the slice the cursor stands for: `none` = an assert failed (nothing was consumed); otherwise the slice
afterwards, the bytes read and the next cell of the chain -/
def iterOn (X : Py.SliceSt R) : Option (Py.SliceSt R × Bytes × Option R) :=
  if X.bits.length % 8 = 0 ∧ (X.ref_offset = X.refs.length ∨ X.ref_offset + 1 = X.refs.length) then
    match X.refs[X.ref_offset]? with
    | none => some ({ X with bits := [] }, bitsToBytes X.bits, none)
    | some c => some ({ X with bits := [], ref_offset := X.ref_offset + 1 }, bitsToBytes X.bits, some c)
  else none

/-- the loop body in closed form (`cur = none`: the cursor is `self`) -/
def iter (view : R → Py.CellV R) (self : Py.SliceSt R) (acc : Bytes × Option (Py.SliceSt R)) :
    Py.SliceSt R × Option ((Bytes × Option (Py.SliceSt R)) ⊕ Bytes) :=
  match iterOn (Py.curOf acc.2 self) with
  | none => (self, none)
  | some (X', hd, nxt) =>
    ((match acc.2 with | none => X' | some _ => self),
      some (match nxt with
        | none => Sum.inr (acc.1 ++ hd)
        | some c => Sum.inl (acc.1 ++ hd, some ⟨(view c).bits, (view c).refs, 0⟩)))

open TonVerif.Generated.SliceOps in
theorem load_snake_loop (view : R → Py.CellV R) (fuel : Nat) (s : Py.SliceSt R) :
    Slice_load_snake_bytes view fuel s = Py.whileS fuel s (([] : Bytes), (none : Option (Py.SliceSt R))) (iter view) := by
  unfold Slice_load_snake_bytes
  show Py.whileS fuel s (([] : Bytes), (none : Option (Py.SliceSt R))) _ = _
  congr 1
  funext self acc
  obtain ⟨result, cur⟩ := acc
  simp only [iter, iterOn]
  by_cases h8 : (Py.curOf cur self).bits.length % 8 = 0
  · by_cases hr : (Py.curOf cur self).ref_offset = (Py.curOf cur self).refs.length ∨
        (Py.curOf cur self).ref_offset + 1 = (Py.curOf cur self).refs.length
    · rw [if_pos (by omega), if_pos (by omega), if_pos ⟨h8, hr⟩]
      cases cur with
      | none =>
        simp only [Py.curOf, Option.getD_none] at h8 hr ⊢
        simp only [Py.bindA, load_all_bytes self h8, load_ref, Py.bindO]
        rcases hr with hr | hr
        · have hg : self.refs[self.ref_offset]? = none := by rw [List.getElem?_eq_none]; omega
          have hz : ((self.refs.length : Nat) : Int) - ((self.ref_offset : Nat) : Int) = 0 := by omega
          simp [hg, hz, Py.curOf]
        · have hlt : self.ref_offset < self.refs.length := by omega
          have hg : self.refs[self.ref_offset]? = some self.refs[self.ref_offset] := List.getElem?_eq_getElem hlt
          have hz : ((self.refs.length : Nat) : Int) - ((self.ref_offset : Nat) : Int) = 1 := by omega
          simp [hg, hz, Py.curOf]
      | some st =>
        simp only [Py.curOf, Option.getD_some] at h8 hr ⊢
        simp only [Py.bindA, load_all_bytes st h8, load_ref, Py.bindO]
        rcases hr with hr | hr
        · have hg : st.refs[st.ref_offset]? = none := by rw [List.getElem?_eq_none]; omega
          have hz : ((st.refs.length : Nat) : Int) - ((st.ref_offset : Nat) : Int) = 0 := by omega
          simp [hg, hz, Py.curOf]
        · have hlt : st.ref_offset < st.refs.length := by omega
          have hg : st.refs[st.ref_offset]? = some st.refs[st.ref_offset] := List.getElem?_eq_getElem hlt
          have hz : ((st.refs.length : Nat) : Int) - ((st.ref_offset : Nat) : Int) = 1 := by omega
          simp [hg, hz, Py.curOf]
    · rw [if_pos (by omega), if_neg (by omega), if_neg (fun h => hr h.2)]
  · rw [if_neg (by omega), if_neg (fun h => h8 h.1)]

/-- the model's `view` argument (`c.begin_parse()` as a pair) from the regenerated code's `view` (as a record) -/
def viewP (view : R → Py.CellV R) (c : R) : Bits × List R := ((view c).bits, (view c).refs)

theorem drop_last (refs : List R) (off : Nat) (h : off + 1 = refs.length) :
    refs.drop off = [refs[off]'(by omega)] := by
  rw [List.drop_eq_getElem_cons (by omega), List.drop_of_length_le (by omega)]

open TonVerif.Proofs.Slice in
/-- the model on the slice the cursor stands for, in the four cases of one iteration -/
theorem model_iter (view : R → Py.CellV R) (fuel : Nat) (X : Py.SliceSt R) (hX : X.ref_offset ≤ X.refs.length) :
    SOp.loadSnakeFuel (viewP view) (fuel + 1) (SrcSlice.view X) =
      match iterOn X with
      | none => (SrcSlice.view X, none)
      | some (X', hd, none) => (SrcSlice.view X', some hd)
      | some (X', hd, some c) =>
        (SrcSlice.view X',
          (SOp.loadSnakeFuel (viewP view) fuel (SrcSlice.view ⟨(view c).bits, (view c).refs, 0⟩)).2.map (hd ++ ·)) := by
  obtain ⟨bits, refs, off⟩ := X
  simp only at hX
  simp only [iterOn, SrcSlice.view, SOp.loadSnakeFuel]
  by_cases h8 : bits.length % 8 = 0
  · have hn : bits.length / 8 * 8 = bits.length := by omega
    by_cases h0 : off = refs.length
    · have hg : refs[off]? = none := by rw [List.getElem?_eq_none]; omega
      have hd : refs.drop off = [] := List.drop_of_length_le (by omega)
      simp [h8, h0, hg, hd, loadBytes_eq, hn]
    · by_cases h1 : off + 1 = refs.length
      · have hg : refs[off]? = some (refs[off]'(by omega)) := List.getElem?_eq_getElem (by omega)
        have hd : refs.drop off = [refs[off]'(by omega)] := drop_last refs off h1
        have hd1 : refs.drop (off + 1) = [] := List.drop_of_length_le (by omega)
        simp only [h8, h1, hg, hd, hd1, loadBytes_eq, hn, bne_self_eq_false, Bool.false_eq_true, if_false, List.length_cons,
          List.length_nil, Nat.lt_irrefl, List.isEmpty_cons, or_true, and_self, if_true, SOp.loadRef, List.drop_zero,
          List.drop_length, List.take_length, viewP, gt_iff_lt, Nat.zero_add]
        cases SOp.loadSnakeFuel (viewP view) fuel ⟨(view (refs[off]'(by omega))).bits, (view (refs[off]'(by omega))).refs⟩ with
        | mk s2 r => cases r <;> rfl
      · have hl : (refs.drop off).length > 1 := by rw [List.length_drop]; omega
        have hl' : ¬ (refs.length ≤ 1 + off) := by omega
        simp [h8, h0, h1, hl, hl']
  · simp [h8]

/-- the loop once the cursor is an object of its own: `self` stays as it is -/
theorem loop_own (view : R → Py.CellV R) : ∀ (fuel : Nat) (self : Py.SliceSt R) (result : Bytes) (st : Py.SliceSt R),
    st.ref_offset ≤ st.refs.length →
    Py.whileS fuel self (result, some st) (iter view) =
      (self, (SOp.loadSnakeFuel (viewP view) fuel (SrcSlice.view st)).2.map (result ++ ·)) := by
  intro fuel
  induction fuel with
  | zero => intro self result st _; rfl
  | succ fuel ih =>
    intro self result st hst
    rw [model_iter view fuel st hst]
    simp only [Py.whileS, iter, Py.curOf, Option.getD_some]
    cases hi : iterOn st with
    | none => rfl
    | some t =>
      obtain ⟨X', hd, nxt⟩ := t
      cases nxt with
      | none => rfl
      | some c =>
        simp only [ih self (result ++ hd) ⟨(view c).bits, (view c).refs, 0⟩ (Nat.zero_le _), Option.map_map]
        congr 2
        funext tl
        simp [List.append_assoc]

/-- THE TIE, snake load: for EVERY slice state within `ref_offset ≤ len(refs)` and EVERY iteration bound the regenerated
`load_snake_bytes` (iterative, cursor aliasing `self` in the first round) seen through `view` equals the hand model
`SOp.loadSnakeFuel` (recursive): same asserts, same bytes, and `self` is left after its own bytes and reference. -/
theorem src_load_snake_bytes_eq (view : R → Py.CellV R) (fuel : Nat) (s : Py.SliceSt R) (hs : s.ref_offset ≤ s.refs.length) :
    SrcSlice.viewR id (Slice_load_snake_bytes view fuel s) = SOp.loadSnakeFuel (viewP view) fuel (SrcSlice.view s) := by
  rw [load_snake_loop]
  cases fuel with
  | zero => rfl
  | succ fuel =>
    rw [model_iter view fuel s hs]
    simp only [Py.whileS, iter, Py.curOf, Option.getD_none]
    cases hi : iterOn s with
    | none => rfl
    | some t =>
      obtain ⟨X', hd, nxt⟩ := t
      cases nxt with
      | none => simp [SrcSlice.viewR]
      | some c =>
        simp only [SrcSlice.viewR, List.nil_append, Option.map_id, id,
          loop_own view fuel X' hd ⟨(view c).bits, (view c).refs, 0⟩ (Nat.zero_le _)]

/-- `load_snake_string` = `load_snake_bytes().decode()` (a str travels as its UTF-8 bytes) -/
theorem src_load_snake_string_eq (view : R → Py.CellV R) (fuel : Nat) (s : Py.SliceSt R) (hs : s.ref_offset ≤ s.refs.length) :
    SrcSlice.viewR id (Slice_load_snake_string view fuel s) = SOp.loadSnakeStringFuel (viewP view) fuel (SrcSlice.view s) := by
  unfold Slice_load_snake_string SOp.loadSnakeStringFuel
  rw [SrcSlice.bindS_ret]
  exact src_load_snake_bytes_eq view fuel s hs

/-! ### every cell the snake store asks for is within capacity -/

/-- a cell constructor that additionally REFUSES more than 1023 bits / 4 references -/
def guardCap (mk : Bits → List R → Option R) (bits : Bits) (refs : List R) : Option R :=
  if bits.length ≤ 1023 ∧ refs.length ≤ 4 then mk bits refs else none

theorem storeSnakeFuel_guard (mk : Bits → List R → Option R) : ∀ (fuel : Nat) (value : Bytes) (b : Builder R),
    BOp.storeSnakeFuel (guardCap mk) fuel value b = BOp.storeSnakeFuel mk fuel value b := by
  intro fuel
  induction fuel with
  | zero => intro value b; rfl
  | succ fuel ih =>
    intro value b
    rw [storeSnakeFuel_succ, storeSnakeFuel_succ, ih]
    have hinv := TonVerif.Proofs.Typed.safe_storeSnakeFuel mk fuel (value.drop ((1023 - b.bits.length) / 8)) Builder.empty
      TonVerif.Proofs.Builder.inv_empty
    have : guardCap mk (BOp.storeSnakeFuel mk fuel (value.drop ((1023 - b.bits.length) / 8)) Builder.empty).1.bits
        (BOp.storeSnakeFuel mk fuel (value.drop ((1023 - b.bits.length) / 8)) Builder.empty).1.refs =
        mk (BOp.storeSnakeFuel mk fuel (value.drop ((1023 - b.bits.length) / 8)) Builder.empty).1.bits
        (BOp.storeSnakeFuel mk fuel (value.drop ((1023 - b.bits.length) / 8)) Builder.empty).1.refs := by
      unfold guardCap; exact if_pos hinv
    rw [this]

/-- guarding the cell constructor by the capacity test changes nothing: the regenerated `store_snake_bytes` never asks for a cell
with more than 1023 bits or more than 4 references -/
theorem src_snake_guard (mk : Bits → List R → Option R) (value : Bytes) (b : Builder R) :
    store_snake_bytes (guardCap mk) value b = store_snake_bytes mk value b := by
  rw [src_store_snake_bytes_eq, src_store_snake_bytes_eq]
  unfold BOp.storeSnake
  rw [storeSnakeFuel_guard]

end TonVerif.Proofs.SrcSnake
