/-
C11 / locsrc (b), the accounts dictionary: `ShardAccounts.deserialize(accs.begin_parse())[0][key].cell[0]` on the regenerated parsers
(`Rd.loadHashmapAugE 256`, Python dict with decimal-rendered int keys) = `loadShardAccounts srcOpaque accs` + `dictGet key` of the hand model.
-/
import TonVerif.Proofs.SrcLocateDict
namespace TonVerif.Proofs.SrcLocate
open TonVerif TonVerif.Model TonVerif.Tlb TonVerif.Model.Hashmap TonVerif.Proofs.Hashmap TonVerif.Proofs.Locate

/-- the real readers of the accounts dictionary agree -/
theorem readersAgree_accounts :
    ReadersAgree (SrcLoc.ShardAccount false) (SrcBlk.DepthBalanceInfo false) (readShardAccount srcOpaque) readDepthBalance :=
  ⟨depthBalance_rest false, shardAccount_agree⟩

/-- the entry a Python dict built by successive `d[int(key, 2)] = v` holds under `k`: the LAST entry with that key -/
def lastMatch {α : Type} (k : Nat) (e : List (Bits × Option α)) : Option α :=
  (e.reverse.find? fun q => natOfBits q.1 == k).bind (·.2)

theorem dictGet_foldl {V : Type} (k : Nat) : ∀ (kv : List (Bits × V)) (acc : Dict V),
    dictGet k (kv.foldl (fun d p => dictSet (natOfBits p.1) p.2 d) acc) =
      match kv.reverse.find? (fun q => natOfBits q.1 == k) with
      | some q => some q.2
      | none => dictGet k acc
  | [], acc => by simp
  | p :: kv, acc => by
    rw [List.foldl_cons, dictGet_foldl k kv, List.reverse_cons, List.find?_append]
    rcases hf : kv.reverse.find? (fun q => natOfBits q.1 == k) with _ | q
    · simp only [hf, Option.none_or, List.find?_cons, List.find?_nil, dictGet_dictSet]
      by_cases he : k = natOfBits p.1
      · simp [he]
      · have : (natOfBits p.1 == k) = false := by simpa using fun e => he e.symm
        simp [he, this]
    · simp [hf]

theorem intKeys_lastMatch (k : Nat) (kv : List (Bits × PCell)) :
    (dictGet k (intKeys kv)).map tcell = lastMatch k (mdlEntries kv) := by
  rw [intKeys, dictGet_foldl]
  simp only [lastMatch, mdlEntries, ← List.map_reverse, List.find?_map]
  rcases hf : kv.reverse.find? ((fun q : Bits × Option Tlb.Cell => natOfBits q.1 == k) ∘ fun p => (p.1, some (tcell p.2))) with _ | q
  · have : kv.reverse.find? (fun q => natOfBits q.1 == k) = none := by
      rw [← hf]; rfl
    simp [this, hf, dictGet]
  · have : kv.reverse.find? (fun q => natOfBits q.1 == k) = some q := by
      rw [← hf]; rfl
    simp [this, hf]

theorem nat_toString_inj (a b : Nat) : (toString a == toString b) = (a == b) := by
  by_cases h : a = b
  · simp [h]
  · have : toString a ≠ toString b := fun e => h (Nat.repr_injective e)
    simp [h, this]

theorem lookup_lastMatch (k : Nat) (kv : List (Bits × Val)) :
    (pyDictItem (Rd.dict kv) k).bind cell0 = lastMatch k (srcEntries (kv, ([] : List Val))) := by
  simp only [pyDictItem, Rd.dict, lastMatch, srcEntries, ← List.map_reverse]
  induction kv.reverse with
  | nil => simp
  | cons p t ih =>
    simp only [List.map_cons, List.lookup_cons, List.find?_cons]
    rw [nat_toString_inj]
    by_cases he : natOfBits p.1 = k
    · have : (k == natOfBits p.1) = true := by simp [he]
      simp [he, this]
    · have : (k == natOfBits p.1) = false := by simpa using fun e => he e.symm
      have h2 : (natOfBits p.1 == k) = false := by simpa using he
      simp [h2, this] at ih ⊢
      exact ih

theorem label_facts (n : Nat) (b : Bits) (r : List Tlb.Cell) (lv : Val) (s1 : Frag) (h : (hmLabel n).dec ⟨b, r⟩ = some (lv, s1)) :
    (Rd.labelBitsOf lv).length = labelLen lv ∧ labelLen lv ≤ n := by
  have he := hmLabel_dec_eq n b r
  rw [h] at he
  rcases hm : deserializeHml b (n : Int) with _ | ⟨l, s, rest⟩ <;> rw [hm] at he <;> simp [labelView] at he
  obtain ⟨h1, h2, _, _⟩ := he
  have hlen := deserializeHml_length hm
  have hle := deserializeHml_le hm
  subst h1 h2
  exact ⟨hlen, by omega⟩

/-- every key the augmented walk returns has `|prefix| + n` bits -/
theorem augWalk_key_len (x y : Frag → Rd.R) : ∀ (fuel n : Nat) (pfx : Bits) (c : Tlb.Cell) (r : List (Bits × Val) × List Val),
    Rd.augWalk x y fuel n pfx c = some r → ∀ p ∈ r.1, p.1.length = pfx.length + n := by
  intro fuel
  induction fuel with
  | zero => intro n pfx c r h; simp [Rd.augWalk] at h
  | succ fuel ih =>
    intro n pfx c r h
    rw [Rd.augWalk] at h
    by_cases hx : c.exotic = true
    · simp [hx] at h; subst h; simp
    · simp only [hx, Bool.false_eq_true, if_false] at h
      rcases hd : (hmLabel n).dec ⟨c.bits, c.refs⟩ with _ | ⟨lv, s1⟩ <;> simp only [hd] at h
      · cases h
      · obtain ⟨hlen, hle⟩ := label_facts n _ _ lv s1 hd
        by_cases hz : n - labelLen lv = 0
        · simp only [hz, if_true] at h
          rcases hy : y s1 with _ | ⟨e, s2⟩ <;> simp only [hy] at h
          · cases h
          · rcases hxv : x s2 with _ | ⟨v, s3⟩ <;> simp only [hxv] at h
            · cases h
            · simp only [Option.some.injEq] at h
              subst h
              intro p hp
              simp only [List.mem_singleton] at hp
              subst hp
              simp only [List.length_append, hlen]; omega
        · simp only [hz, if_false] at h
          match hr : s1.refs with
          | [] => simp [hr] at h
          | [a] => simp [hr] at h
          | a :: b :: more =>
            simp only [hr] at h
            rcases ha : Rd.augWalk x y fuel (n - labelLen lv - 1) (pfx ++ Rd.labelBitsOf lv ++ [false]) a with _ | ra <;> simp only [ha] at h
            · cases h
            rcases hb : Rd.augWalk x y fuel (n - labelLen lv - 1) (pfx ++ Rd.labelBitsOf lv ++ [true]) b with _ | rb <;> simp only [hb] at h
            · cases h
            rcases hy : y ⟨s1.bits, more⟩ with _ | ⟨e, s2⟩ <;> simp only [hy] at h
            · cases h
            · simp only [Option.some.injEq] at h
              subst h
              intro p hp
              simp only [List.mem_append] at hp
              rcases hp with hp | hp
              · have := ih _ _ _ _ ha p hp
                simp only [List.length_append, List.length_singleton, hlen] at this; omega
              · have := ih _ _ _ _ hb p hp
                simp only [List.length_append, List.length_singleton, hlen] at this; omega

/-- `ShardAccounts.deserialize(accs.begin_parse())[0][key].cell[0]` on the regenerated parsers -/
def srcAccountsLookup (accs : PCell) (key : Nat) : Option Tlb.Cell :=
  (SrcLoc.ShardAccounts (Rd.special (tcell accs)) (Rd.beginParse (tcell accs))).bind fun r =>
    (pyItem0 r.1).bind fun d => (pyDictItem d key).bind cell0

theorem tuple_item0 (a b : Val) : pyItem0 (Rd.tuple [a, b]) = some a := by
  simp [pyItem0, Rd.tuple, Rd.enumFrom, List.lookup]
  rfl

theorem keys_nonempty (r : List (Bits × Val) × List Val) (kv : List (Bits × PCell)) (h : srcEntries r = mdlEntries kv)
    (hl : ∀ p ∈ r.1, p.1.length = 256) : (kv.any fun p => p.1.isEmpty) = false := by
  have hk : r.1.map (·.1) = kv.map (·.1) := by
    have := congrArg (List.map (·.1)) h
    simpa [srcEntries, mdlEntries, List.map_map, Function.comp_def] using this
  rw [List.any_eq_false]
  intro p hp
  have : p.1 ∈ r.1.map (·.1) := by rw [hk]; exact List.mem_map_of_mem hp
  obtain ⟨q, hq, he⟩ := List.mem_map.1 this
  have := hl q hq
  rw [he] at this
  cases hpp : p.1 <;> simp_all

/-- (b) the accounts dictionary of the walk: regenerated parsers = hand model, for every accounts cell and key -/
theorem accounts_agree (accs : PCell) (key : Nat) :
    srcAccountsLookup accs key = ((loadShardAccounts srcOpaque accs).bind (dictGet key)).map tcell := by
  obtain ⟨info, refs⟩ := accs
  simp only [srcAccountsLookup, tcell_mk, Rd.special, Rd.beginParse, Tlb.Cell.exotic, Tlb.Cell.bits, Tlb.Cell.refs, SrcLoc.ShardAccounts,
    loadShardAccounts, PCell.info, PCell.refs]
  by_cases hk : info.kind = -1
  · simp only [hk, bne_self_eq_false, ne_eq, not_true_eq_false, if_false]
    match info.bits with
    | [] => simp [Rd.loadHashmapAugE, Rd.loadBit]
    | false :: rest =>
      simp only [Rd.loadHashmapAugE, Rd.loadBit, Rd.truthy, Bool.false_eq_true, if_false]
      rcases SrcBlk.DepthBalanceInfo false ⟨rest, tcells refs⟩ with _ | ⟨e, s2⟩
      · simp
      · simp [tuple_item0, pyDictItem, Rd.dict]
    | true :: rest =>
      match refs with
      | [] => simp [Rd.loadHashmapAugE, Rd.loadBit, Rd.truthy, Rd.loadRef, tcells_nil]
      | root :: more =>
        have hw := augWalk_eq readersAgree_accounts 257 256 [] root (by omega)
        have hl := augWalk_key_len (SrcLoc.ShardAccount false) (SrcBlk.DepthBalanceInfo false) 257 256 [] (tcell root)
        have hy := depthBalance_rest false (rest, more)
        obtain ⟨ri, rr⟩ := root
        have h256 : ((256 : Nat) : Int) = 256 := rfl
        rw [tcell_mk, h256] at hw
        rw [tcell_mk] at hl
        simp only [Rd.loadHashmapAugE, Rd.loadBit, Rd.truthy, Rd.loadRef, tcells_cons, tcell_mk, Tlb.Cell.exotic, PCell.info, psliceFrag] at hy ⊢
        by_cases hrk : ri.kind = -1
        · simp only [hrk, bne_self_eq_false, ne_eq, not_true_eq_false, if_false, Bool.false_eq_true] at hw hl ⊢
          rcases hv : Rd.augWalk (SrcLoc.ShardAccount false) (SrcBlk.DepthBalanceInfo false) 257 256 [] (Tlb.Cell.mk false ri.bits (tcells rr)) with _ | r <;>
            rcases hp : parseAugP readDepthBalance (readShardAccount srcOpaque) (PCell.mk ri rr) 256 [] with _ | kv <;>
            rw [hv, hp] at hw <;> simp at hw
          · simp
          · have hne := keys_nonempty r kv hw (fun p hp => by simpa using hl r hv p hp)
            rcases hyv : SrcBlk.DepthBalanceInfo false ⟨rest, tcells more⟩ with _ | ⟨e, s3⟩ <;>
              rcases hdy : readDepthBalance (rest, more) with _ | sl <;> rw [hyv, hdy] at hy <;> simp at hy
            · simp [hne]
            · simp only [hne, Bool.false_eq_true, if_false, Option.map_some, Option.bind_some, tuple_item0]
              rw [intKeys_lastMatch, ← hw]
              exact lookup_lastMatch key r.1
        · have hb : (ri.kind != -1) = true := by simpa using hrk
          simp only [hb, hrk, ne_eq, not_false_eq_true, if_true]
          rcases SrcBlk.DepthBalanceInfo false ⟨rest, tcells more⟩ with _ | ⟨e, s3⟩ <;> simp [pyItem0]
  · have hb : (info.kind != -1) = true := by simpa using hk
    simp [Rd.loadHashmapAugE, hb, hk, pyItem0, Rd.toCell]

end TonVerif.Proofs.SrcLocate
