/-
`Generated.BocCells.deserialize` (regenerated on every run from `Boc.deserialize`, pytoniq_core/boc/deserialize.py, by
harness/translate/pyloops.py) equals the hand model's `Model.BocParse.deserialize` for every byte list and every cell
constructor, the constructor callback being a parameter on both sides (`liftMk`: the Python callback receives children that
may be `None`; every cell constructor raises on one).

The translator names two continuations (`deserialize_rest` = from the second loop on, `deserialize_rest2` = from
`root_cells = []` on).  The inductions are in Proofs/BocDeserLoops.lean (generation independent, parameterised by the loop
bodies); this file shows that the regenerated loop bodies compute what those lemmas assume:
* first loop body  = `deserialize_cell` on `cells_data[i:]` (`src_deserialize_cell_eq`), position advanced, record appended;
* second loop body = `rebuildStep` (inner loop = `refs_loop`; topological-order check; callback; in-place `'result'` update);
* third loop body  = append `cells_array[ri]['result']`.
-/
import TonVerif.Proofs.BocDeserLoops
import TonVerif.Proofs.SrcBocCells
import TonVerif.Proofs.SrcBocHeader
set_option linter.unusedSimpArgs false

namespace TonVerif.Proofs.SrcBocDeser
open TonVerif TonVerif.Model TonVerif.Model.BocParse TonVerif.Generated.BocHeader TonVerif.Generated.BocCells
open TonVerif.Proofs.SrcBytes TonVerif.Proofs.SrcLoops TonVerif.Proofs.BocDeserLoops

/-- third loop: the roots are read out of the rebuilt array. -/
theorem deser_rest2_eq {R : Type} (cls : Bits → List (Option R) → Int → Option R) (data : Bytes) (h : HeaderOut) (arr : List (CellOut R)) :
    deserialize_rest2 data cls h arr = h.root_list.mapM fun ri => (arr[ri]?).map (·.result) := by
  unfold deserialize_rest2
  simp only []
  rw [roots_loop arr _ (by intro ri acc; rfl)]
  cases List.mapM (fun ri => Option.map (fun x => x.result) arr[ri]?) h.root_list <;> simp

/-- second and third loop on the array of freshly read records. -/
theorem deser_rest_eq {R : Type} (mk : Bits → List R → Int → Option R) (data : Bytes) (h : HeaderOut) (recs : List RawCell)
    (hn : h.cells_num = recs.length) :
    deserialize_rest data (liftMk mk) h (recs.map CellOut.ofModel) =
      (rebuildFrom mk recs 0).bind fun all => (h.root_list.mapM fun ri => all[ri]?).map (·.map some) := by
  unfold deserialize_rest
  simp only [range?_bind_zero_one, deser_rest2_eq, hn, List.range_eq_range']
  refine (rebuild_loop_bind mk _ ?hb recs _).trans ?_
  case hb =>
    intro ci arr
    unfold rebuildStep
    cases h1 : arr[ci]? with
    | none => rfl
    | some c =>
      simp only [Option.bind_some]
      rw [← List.range_eq_range', refs_loop (fun r => if r < ci then none else (arr[r]?).map (·.result)) c.refs _ (by
        intro ri acc
        cases c.refs[ri]? with
        | none => rfl
        | some r =>
          simp only [Option.bind_some]
          split
          · rfl
          · cases arr[r]? <;> rfl)]
  cases h : rebuildFrom mk recs 0 with
  | none => rfl
  | some all =>
    have hl := TonVerif.Proofs.BocParse.rebuildFrom_length mk recs 0 all h
    simp only [Option.bind_some]
    simp only [result_of_rebuilt recs all hl]
    rw [mapM_map]

/-- **the regenerated `Boc.deserialize` is the hand model's `deserialize`** for every byte list and every constructor `mk`. -/
theorem src_deserialize_eq {R : Type} (mk : Bits → List R → Int → Option R) (data : Bytes) :
    Generated.BocCells.deserialize data (liftMk mk) = (Model.BocParse.deserialize mk data).map (·.map some) := by
  unfold Generated.BocCells.deserialize Model.BocParse.deserialize
  rw [TonVerif.Proofs.SrcBocHeader.src_header_eq_model]
  cases hh : deserializeBocHeader data with
  | none => rfl
  | some h =>
    simp only [Option.map_some, Option.bind_some, range?_bind_zero_one]
    have e1 : (HeaderOut.ofModel h).cells_num = h.cellsNum := rfl
    have e2 : (HeaderOut.ofModel h).cells_data = h.cellsData := rfl
    have e3 : (HeaderOut.ofModel h).size_bytes = h.fl.sizeBytes := rfl
    have e4 : (HeaderOut.ofModel h).root_list = h.rootList := rfl
    rw [e1, e2, e3]
    have hlen : (List.range h.cellsNum).length = h.cellsNum := List.length_range
    refine (cells_loop h.cellsData h.fl.sizeBytes _ ?hbody _ ?hF (List.range h.cellsNum) 0 []).trans ?_
    case hbody =>
      intro x i acc
      simp only [TonVerif.Proofs.SrcBocCells.src_deserialize_cell_eq, cellOfModel]
      cases deserializeCell (List.drop i h.cellsData) h.fl.sizeBytes <;> first | rfl | simp
    case hF => intro a b l; rfl
    rw [hlen, List.drop_zero]
    cases hr : readCells h.cellsNum h.cellsData h.fl.sizeBytes with
    | none => rfl
    | some recs =>
      have hn := TonVerif.Proofs.BocParse.readCells_length _ _ _ _ hr
      simp only [Option.bind_some, List.nil_append]
      rw [deser_rest_eq mk data (HeaderOut.ofModel h) recs (by rw [e1]; exact hn.symm), e4]
      cases rebuildFrom mk recs 0 <;> rfl

end TonVerif.Proofs.SrcBocDeser
