/-
The deserialisers of pytoniq_core/tlb/vm_stack.py as regenerated from the source (Generated/VmStackSrc.lean) equal the hand
model's parsers `Model.Vm.De.*` for ALL slices and every recursion budget: same decision to raise, same value, same slice
state afterwards (also after a failure).  Generation dependent.
-/
import TonVerif.Generated.VmStackSrc
import TonVerif.Model.VmStack
import TonVerif.Proofs.SrcSOp
set_option linter.unusedSimpArgs false
namespace TonVerif.Proofs.SrcVmDe
open TonVerif TonVerif.Model TonVerif.Model.Vm TonVerif.Spec.Vm TonVerif.Generated.VmStackSrc TonVerif.Proofs.SrcSOp

variable {R : Type} {view : R → Bits × List R} {ord : R → Bool}

/-- both sides as `SOp.bind` chains: monad laws, conditionals pushed outwards -/
macro "sop_norm" " [" ls:Lean.Parser.Tactic.simpLemma,* "]" : tactic =>
  `(tactic| simp only [bind_def, pure_def, sop_pure_bind, sop_bind_pure, sop_bind_assoc, sop_fail_bind, sop_ite_bind, $ls,*])

theorem cellSlice_eq : VmCellSlice_deserialize view ord = De.cellSlice view := by
  unfold VmCellSlice_deserialize De.cellSlice
  sop_norm []
  rfl

theorem saveList_eq : VmSaveList_deserialize view ord = (SOp.loadMaybeRef : SOp R (Option R)) := by
  unfold VmSaveList_deserialize
  sop_norm []

/-- what the regenerated `VmCont.deserialize` computes, in terms of the hand model: Python returns `None` when no constructor
    tag matches (the hand model's `De.cont` has no value for that and fails; `De.val` tests `contTagKnown` first) -/
def contOpt (view : R → Bits × List R) (ord : R → Bool) : Nat → SOp R (Option (Cont R))
  | 0 => SOp.fail
  | f + 1 => fun s =>
    if De.contTagKnown s then ((De.cont view ord (f + 1) s).1, (De.cont view ord (f + 1) s).2.map some) else (s, some none)

theorem mapSome_eq_bind {α : Type} (X : SOp R α) (s : Slice R) :
    ((X s).1, (X s).2.map some) = SOp.bind X (fun a => SOp.pure (some a)) s := by
  unfold SOp.bind; rcases X s with ⟨s1, _ | a⟩ <;> rfl

theorem cont_unknown (f : Nat) (s : Slice R) (h : De.contTagKnown s = false) : (De.cont view ord (f + 1) s).2 = none := by
  simp only [De.contTagKnown, De.contTags, List.any_cons, List.any_nil, Bool.or_false, Bool.or_eq_false_iff] at h
  rw [De.cont]
  simp [h]

theorem cont_unknown' (f : Nat) (s : Slice R) (h : De.contTagKnown s = false) : (De.cont view ord f s).2 = none := by
  cases f with
  | zero => rfl
  | succ f => exact cont_unknown f s h

/-- a sub-continuation: `cls.deserialize(cell_slice.load_ref().begin_parse())` used where a continuation is required -/
theorem sub_unNone {β : Type} (f : Nat) (c : R) (K : Cont R → SOp R β) :
    SOp.bind (De.sub view (contOpt view ord f) c) (fun r => SOp.bind (Py.Tlb.unNone r) K) =
      SOp.bind (De.sub view (De.cont view ord f) c) K := by
  funext s
  cases f with
  | zero => rfl
  | succ f =>
    simp only [SOp.bind, De.sub, contOpt, Py.Tlb.unNone, SOp.ofOption]
    by_cases hk : De.contTagKnown (⟨(view c).1, (view c).2⟩ : Slice R) = true
    · simp only [hk, if_true]
      rcases (De.cont view ord (f + 1) ⟨(view c).1, (view c).2⟩).2 with _ | k <;> rfl
    · simp only [hk]
      rw [cont_unknown f _ (by simpa using hk)]
      rfl

/-- the `vm_stk_cont` branch of `VmStackValue.deserialize` -/
theorem val_cont_branch (f : Nat) :
    SOp.bind (contOpt view ord f) (fun r => SOp.pure (Py.Tlb.valOfOptCont r)) =
      SOp.bind (fun s' => (s', some (De.contTagKnown s'))) (fun known =>
        if known = true then SOp.bind (De.cont view ord f) (fun k => SOp.pure (Val.cont k))
        else (if f = 0 then SOp.fail else SOp.pure Val.null)) := by
  funext s
  cases f with
  | zero =>
    by_cases hk : De.contTagKnown s = true <;> simp [SOp.bind, contOpt, hk, De.cont, SOp.fail]
  | succ f =>
    by_cases hk : De.contTagKnown s = true
    · simp only [SOp.bind, contOpt, hk, if_true]
      generalize De.cont view ord (f + 1) s = r
      rcases r with ⟨s1, _ | k⟩ <;> rfl
    · simp [SOp.bind, contOpt, hk, SOp.pure, Py.Tlb.valOfOptCont]

theorem cast_succ_sub_one (m : Nat) : ((m + 1 : Nat) : Int) - (1 : Int) = (m : Int) := by omega

/-! ### one level of the recursion: every method at budget `f + 1`, given all methods at budget `f` -/

theorem tuple_step (f : Nat) (ihV : VmStackValue_deserialize view ord f = De.val view ord f)
    (ihTR : ∀ n : Nat, VmTupleRef_deserialize view ord f (n : Int) = De.tupleRef view ord f n) (n : Nat) :
    VmTuple_deserialize view ord (f + 1) (n : Int) = De.tuple view ord (f + 1) n := by
  cases n with
  | zero => simp [VmTuple_deserialize, De.tuple, pure_def]
  | succ m =>
    have h0 : ¬ ((m + 1 : Nat) : Int) = 0 := by omega
    rw [VmTuple_deserialize, De.tuple]
    simp only [h0, if_false, Nat.succ_ne_zero, cast_succ_sub_one, ihV, ihTR, Nat.add_sub_cancel, Py.RL.push]

theorem tupleRef_step (f : Nat) (ihV : VmStackValue_deserialize view ord f = De.val view ord f)
    (ihT : ∀ n : Nat, VmTuple_deserialize view ord f (n : Int) = De.tuple view ord f n) (n : Nat) :
    VmTupleRef_deserialize view ord (f + 1) (n : Int) = De.tupleRef view ord (f + 1) n := by
  rcases n with _ | _ | m
  · simp [VmTupleRef_deserialize, De.tupleRef, pure_def]
  · rw [VmTupleRef_deserialize, De.tupleRef]
    simp only [ihV]
    simp [bind_def, pure_def, sop_bind_assoc, sop_bind_pure, sop_pure_bind]
  · have h0 : ¬ ((m + 1 + 1 : Nat) : Int) = 0 := by omega
    have h1 : ¬ ((m + 1 + 1 : Nat) : Int) = 1 := by omega
    rw [VmTupleRef_deserialize, De.tupleRef]
    simp only [h0, h1, if_false, ihT]
    simp [bind_def, pure_def, sop_bind_assoc, sop_bind_pure, sop_pure_bind]

theorem stackList_step (f : Nat) (ihV : VmStackValue_deserialize view ord f = De.val view ord f)
    (ihL : ∀ n : Nat, VmStackList_deserialize view ord f (n : Int) = De.stackList view ord f n) (n : Nat) :
    VmStackList_deserialize view ord (f + 1) (n : Int) = De.stackList view ord (f + 1) n := by
  cases n with
  | zero => simp [VmStackList_deserialize, De.stackList, pure_def]
  | succ m =>
    have h0 : ¬ ((m + 1 : Nat) : Int) = 0 := by omega
    rw [VmStackList_deserialize, De.stackList]
    simp only [h0, if_false, Nat.succ_ne_zero, cast_succ_sub_one, ihV, ihL, Nat.add_sub_cancel, Py.RL.push]

theorem stackBlock_eq {β : Type} (f : Nat) (ihL : ∀ n : Nat, VmStackList_deserialize view ord f (n : Int) = De.stackList view ord f n)
    (K : List (Val R) → SOp R β) :
    SOp.bind (SOp.loadUint 24) (fun d => SOp.bind (VmStackList_deserialize view ord f d) K) =
      SOp.bind (SOp.loadUint 24) (fun d => SOp.bind (De.stackList view ord f d.toNat) K) := by
  refine loadUint_bind_congr 24 (fun v hv => ?_)
  rw [← ihL v.toNat, Int.toNat_of_nonneg hv]

theorem ctl_step (f : Nat) (ihL : ∀ n : Nat, VmStackList_deserialize view ord f (n : Int) = De.stackList view ord f n) :
    VmControlData_deserialize view ord (f + 1) = De.ctl view ord (f + 1) := by
  rw [VmControlData_deserialize, De.ctl]
  simp only [saveList_eq]
  sop_norm [stackBlock_eq f ihL]

theorem take6_2 (bs : Bits) : Py.slice (List.take 6 bs) 0 2 = List.take 2 bs := by simp [Py.slice, List.take_take]
theorem take6_4 (bs : Bits) : Py.slice (List.take 6 bs) 0 4 = List.take 4 bs := by simp [Py.slice, List.take_take]
theorem take6_5 (bs : Bits) : Py.slice (List.take 6 bs) 0 5 = List.take 5 bs := by simp [Py.slice, List.take_take]
theorem take6_6 (bs : Bits) : Py.slice (List.take 6 bs) 0 6 = List.take 6 bs := by simp [Py.slice, List.take_take]

theorem bind_ite_fun {α β : Type} (c : Slice R → Prop) [DecidablePred c] (A B : SOp R α) (K : α → SOp R β) (s : Slice R) :
    SOp.bind (fun s => if c s then A s else B s) K s = if c s then SOp.bind A K s else SOp.bind (fun s => B s) K s := by
  unfold SOp.bind
  by_cases h : c s <;> simp [h]

theorem bind_fail_fun {α β : Type} (K : α → SOp R β) (s : Slice R) :
    SOp.bind (fun s => ((s, none) : Slice R × Option α)) K s = (s, none) := rfl

theorem cont_step (f : Nat) (ihK : VmCont_deserialize view ord f = contOpt view ord f)
    (ihC : VmControlData_deserialize view ord f = De.ctl view ord f) :
    VmCont_deserialize view ord (f + 1) = contOpt view ord (f + 1) := by
  funext s
  rw [VmCont_deserialize]
  simp only [contOpt, mapSome_eq_bind]
  rw [De.cont]
  simp only [bind_def, pure_def, peekBits_bind, sop_ite_apply, take6_2, take6_4, take6_5, take6_6, ihK, ihC, cellSlice_eq,
    De.isPrefix, List.length_cons, List.length_nil, beq_iff_eq, sop_bind_assoc, sub_unNone, Nat.zero_add, Nat.reduceAdd,
    bind_ite_fun, bind_fail_fun, sop_pure_bind]
  by_cases hk : De.contTagKnown s = true
  · simp only [hk, if_true]
    by_cases h1 : List.take 2 s.bits = [false, false]
    · simp only [if_pos h1]
    simp only [if_neg h1]
    by_cases h2 : List.take 2 s.bits = [false, true]
    · simp only [if_pos h2]
    simp only [if_neg h2]
    by_cases h3 : List.take 4 s.bits = [true, false, false, false]
    · simp only [if_pos h3]
    simp only [if_neg h3]
    by_cases h4 : List.take 4 s.bits = [true, false, false, true]
    · simp only [if_pos h4]
    simp only [if_neg h4]
    by_cases h5 : List.take 5 s.bits = [true, false, true, false, false]
    · simp only [if_pos h5]
    simp only [if_neg h5]
    by_cases h6 : List.take 6 s.bits = [true, true, false, false, false, false]
    · simp only [if_pos h6]
    simp only [if_neg h6]
    by_cases h7 : List.take 6 s.bits = [true, true, false, false, false, true]
    · simp only [if_pos h7]
    simp only [if_neg h7]
    by_cases h8 : List.take 6 s.bits = [true, true, false, false, true, false]
    · simp only [if_pos h8]
    simp only [if_neg h8]
    by_cases h9 : List.take 6 s.bits = [true, true, false, false, true, true]
    · simp only [if_pos h9]
    simp only [if_neg h9]
    by_cases h10 : List.take 4 s.bits = [true, true, true, true]
    · simp only [if_pos h10]
    simp only [if_neg h10]
    exfalso
    simp [De.contTagKnown, De.contTags, De.isPrefix, *] at hk
  · have hk' := hk
    simp only [De.contTagKnown, De.contTags, List.any_cons, List.any_nil, Bool.or_false, Bool.or_eq_true, De.isPrefix,
      List.length_cons, List.length_nil, beq_iff_eq, Nat.zero_add, Nat.reduceAdd, not_or] at hk'
    simp [hk, hk', SOp.pure]

theorem tupleBlock_eq {β : Type} (f : Nat) (ihT : ∀ n : Nat, VmTuple_deserialize view ord f (n : Int) = De.tuple view ord f n)
    (K : List (Val R) → SOp R β) :
    SOp.bind (SOp.loadUint 16) (fun d => SOp.bind (VmTuple_deserialize view ord f d) K) =
      SOp.bind (SOp.loadUint 16) (fun d => SOp.bind (De.tuple view ord f d.toNat) K) := by
  refine loadUint_bind_congr 16 (fun v hv => ?_)
  rw [← ihT v.toNat, Int.toNat_of_nonneg hv]

theorem toBuilder_bind {β : Type} (c : R) (K : Bits × List R → SOp R β) :
    SOp.bind (SOp.ofOption (Py.Tlb.toBuilder? view ord c)) K = if ord c = true then K (view c) else SOp.fail := by
  unfold Py.Tlb.toBuilder?
  cases ord c <;> rfl

theorem val_step (f : Nat) (ihT : ∀ n : Nat, VmTuple_deserialize view ord f (n : Int) = De.tuple view ord f n)
    (ihK : VmCont_deserialize view ord f = contOpt view ord f) :
    VmStackValue_deserialize view ord (f + 1) = De.val view ord (f + 1) := by
  funext s
  rw [VmStackValue_deserialize, De.val]
  simp only [bind_def, pure_def, peekBits_bind, preloadBytes_bind, sop_ite_apply, Py.slice, List.drop_zero, beq_iff_eq, tagInt257,
    ihK, cellSlice_eq, sop_bind_assoc, sop_pure_bind, tupleBlock_eq f ihT, toBuilder_bind, val_cont_branch, Nat.reduceMul]
  rfl

/-! ### all methods, every budget -/

theorem src_de_all (fuel : Nat) :
    VmStackValue_deserialize view ord fuel = De.val view ord fuel ∧
    (∀ n : Nat, VmTuple_deserialize view ord fuel (n : Int) = De.tuple view ord fuel n) ∧
    (∀ n : Nat, VmTupleRef_deserialize view ord fuel (n : Int) = De.tupleRef view ord fuel n) ∧
    (∀ n : Nat, VmStackList_deserialize view ord fuel (n : Int) = De.stackList view ord fuel n) ∧
    VmCont_deserialize view ord fuel = contOpt view ord fuel ∧
    VmControlData_deserialize view ord fuel = De.ctl view ord fuel := by
  induction fuel with
  | zero =>
    refine ⟨?_, fun n => ?_, fun n => ?_, fun n => ?_, ?_, ?_⟩
    · rw [VmStackValue_deserialize, De.val]
    · rw [VmTuple_deserialize, De.tuple]
    · rw [VmTupleRef_deserialize, De.tupleRef]
    · rw [VmStackList_deserialize, De.stackList]
    · rw [VmCont_deserialize, contOpt]
    · rw [VmControlData_deserialize, De.ctl]
  | succ f ih =>
    obtain ⟨ihV, ihT, ihTR, ihL, ihK, ihC⟩ := ih
    exact ⟨val_step f ihT ihK, tuple_step f ihV ihTR, tupleRef_step f ihV ihT, stackList_step f ihV ihL, cont_step f ihK ihC,
      ctl_step f ihL⟩

/-- `VmStack.deserialize` -/
theorem src_stack_eq (fuel : Nat) : VmStack_deserialize view ord fuel = De.stack view ord fuel := by
  unfold VmStack_deserialize De.stack
  simp only [bind_def, pure_def, sop_bind_pure]
  refine loadUint_bind_congr 24 (fun v hv => ?_)
  rw [← (src_de_all (view := view) (ord := ord) fuel).2.2.2.1 v.toNat, Int.toNat_of_nonneg hv]

end TonVerif.Proofs.SrcVmDe
