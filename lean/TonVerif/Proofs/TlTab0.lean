/- Kernel evaluation over the generated TL table, chunk slots 0..7 (of 32; absent chunks are empty):
   every constructor id is the id of its declaration text (CRC-32 / explicit), ids below 2^32, flag variables well placed,
   constructors sharing an id agree in name and arguments. -/
import TonVerif.Proofs.Tl
import TonVerif.Generated.TlTable

namespace TonVerif.Proofs.TlTab0
open TonVerif TonVerif.Spec.Tl TonVerif.Proofs.Tl TonVerif.Generated.Tl

theorem ids_0 : idsOK (chunks.getD 0 []) = true := by decide +kernel
theorem ok_0 : chunkAgree table (chunks.getD 0 []) = true := by decide +kernel
theorem ids_1 : idsOK (chunks.getD 1 []) = true := by decide +kernel
theorem ok_1 : chunkAgree table (chunks.getD 1 []) = true := by decide +kernel
theorem ids_2 : idsOK (chunks.getD 2 []) = true := by decide +kernel
theorem ok_2 : chunkAgree table (chunks.getD 2 []) = true := by decide +kernel
theorem ids_3 : idsOK (chunks.getD 3 []) = true := by decide +kernel
theorem ok_3 : chunkAgree table (chunks.getD 3 []) = true := by decide +kernel
theorem ids_4 : idsOK (chunks.getD 4 []) = true := by decide +kernel
theorem ok_4 : chunkAgree table (chunks.getD 4 []) = true := by decide +kernel
theorem ids_5 : idsOK (chunks.getD 5 []) = true := by decide +kernel
theorem ok_5 : chunkAgree table (chunks.getD 5 []) = true := by decide +kernel
theorem ids_6 : idsOK (chunks.getD 6 []) = true := by decide +kernel
theorem ok_6 : chunkAgree table (chunks.getD 6 []) = true := by decide +kernel
theorem ids_7 : idsOK (chunks.getD 7 []) = true := by decide +kernel
theorem ok_7 : chunkAgree table (chunks.getD 7 []) = true := by decide +kernel

theorem ids (k : Nat) (h1 : 0 ≤ k) (h2 : k < 8) : idsOK (chunks.getD k []) = true :=
  match k, h1, h2 with
  | 0, _, _ => ids_0
  | 1, _, _ => ids_1
  | 2, _, _ => ids_2
  | 3, _, _ => ids_3
  | 4, _, _ => ids_4
  | 5, _, _ => ids_5
  | 6, _, _ => ids_6
  | 7, _, _ => ids_7
  | n + 8, _, h => absurd h (by omega)

theorem ok (k : Nat) (h1 : 0 ≤ k) (h2 : k < 8) : chunkAgree table (chunks.getD k []) = true :=
  match k, h1, h2 with
  | 0, _, _ => ok_0
  | 1, _, _ => ok_1
  | 2, _, _ => ok_2
  | 3, _, _ => ok_3
  | 4, _, _ => ok_4
  | 5, _, _ => ok_5
  | 6, _, _ => ok_6
  | 7, _, _ => ok_7
  | n + 8, _, h => absurd h (by omega)

end TonVerif.Proofs.TlTab0
