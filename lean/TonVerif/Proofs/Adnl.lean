/-
Helper lemmas and the HYPOTHESES (algebraic laws of the primitives) for C20.
Nothing here is an axiom: the laws are structures of propositions that the property theorems take as
arguments, and `Properties/C20.lean` exhibits toy primitives satisfying all of them.
-/
import TonVerif.Model.Adnl

namespace TonVerif.Proofs.Adnl
open TonVerif TonVerif.Model.Adnl

/-- what the channel theorems assume about X25519 / the Ed25519→Curve25519 maps / AES-CTR / SHA-256. -/
structure ChannelLaws {W : Type} (P : Prims W) : Prop where
  /-- Diffie–Hellman: `scalar_mult(a, pub(b)) = scalar_mult(b, pub(a))`. -/
  dh_comm : ∀ a b, P.dh a (P.xPub b) = P.dh b (P.xPub a)
  /-- converting an Ed25519 public key to Curve25519 gives the public key of the converted private key
  (the peer is known by its Ed25519 public key only). -/
  conv : ∀ seed, P.edToXPub (P.edPub seed) = P.xPub (P.edToXPriv seed)
  /-- CTR mode with the same key and initial counter is an involution … -/
  ctr_invol : ∀ k iv m, P.ctr k iv (P.ctr k iv m) = m
  /-- … that preserves length. -/
  ctr_len : ∀ k iv m, (P.ctr k iv m).length = m.length
  /-- SHA-256 digests have 32 bytes. -/
  H_len : ∀ x, (P.H x).length = 32
  /-- X25519 shared secrets have 32 bytes. -/
  dh_len : ∀ a b, (P.dh a b).length = 32

/-- what the signing theorem assumes about libsodium's `crypto_sign_seed_keypair` / `crypto_sign` /
verification: the signed message is a 64-byte signature followed by the message, and that signature
verifies under the public half of the key pair (CORRECTNESS of Ed25519; unforgeability is not assumed and
no rejection statement is proved). -/
structure SignLaw {W : Type} (P : Prims W) : Prop where
  sign_ok : ∀ seed m, ∃ sig, sig.length = 64 ∧ P.cryptoSign m (P.keypair seed).2 = sig ++ m ∧
    P.verify (P.keypair seed).1 m sig = true
  /-- `SigningKey(seed).verify_key` is the public half of `crypto_sign_seed_keypair(seed)`. -/
  pub_ok : ∀ seed, P.edPub seed = (P.keypair seed).1

/-! ## CTR mode as "xor with a key stream": the involution law follows -/

def xorBytes (m s : Bytes) : Bytes := List.zipWith (· ^^^ ·) m s

theorem xorBytes_length (m s : Bytes) (h : m.length ≤ s.length) : (xorBytes m s).length = m.length := by
  simp [xorBytes]; omega

theorem xorBytes_invol : ∀ (m s : Bytes), m.length ≤ s.length → xorBytes (xorBytes m s) s = m
  | [], _, _ => by simp [xorBytes]
  | _ :: _, [], h => by simp at h
  | a :: as, b :: bs, h => by
    have ih := xorBytes_invol as bs (by simpa using h)
    unfold xorBytes at ih ⊢
    simp only [List.zipWith_cons_cons, ih, Nat.xor_assoc, Nat.xor_self, Nat.xor_zero]

/-- the DEFINITION of counter mode, as a weaker-looking hypothesis: the output is the input xor the first
`len` bytes of a key stream determined by key and initial counter. -/
def CtrIsStream {W : Type} (P : Prims W) : Prop :=
  ∃ ks : Bytes → Bytes → Nat → Bytes, (∀ k iv n, (ks k iv n).length = n) ∧
    ∀ k iv m, P.ctr k iv m = xorBytes m (ks k iv m.length)

theorem ctr_laws_of_stream {W : Type} (P : Prims W) (h : CtrIsStream P) :
    (∀ k iv m, P.ctr k iv (P.ctr k iv m) = m) ∧ (∀ k iv m, (P.ctr k iv m).length = m.length) := by
  obtain ⟨ks, hl, hc⟩ := h
  have hlen : ∀ k iv m, (P.ctr k iv m).length = m.length := fun k iv m => by
    rw [hc]; exact xorBytes_length _ _ (by rw [hl]; exact Nat.le_refl _)
  refine ⟨fun k iv m => ?_, hlen⟩
  rw [hc k iv (P.ctr k iv m), hlen, hc k iv m]
  exact xorBytes_invol _ _ (by rw [hl]; exact Nat.le_refl _)

/-- `ChannelLaws` from DH commutativity, the conversion law, digest lengths and "CTR is a stream cipher". -/
theorem channelLaws_of_stream {W : Type} (P : Prims W)
    (dh_comm : ∀ a b, P.dh a (P.xPub b) = P.dh b (P.xPub a))
    (conv : ∀ seed, P.edToXPub (P.edPub seed) = P.xPub (P.edToXPriv seed))
    (H_len : ∀ x, (P.H x).length = 32) (dh_len : ∀ a b, (P.dh a b).length = 32)
    (hs : CtrIsStream P) : ChannelLaws P :=
  { dh_comm := dh_comm, conv := conv, ctr_invol := (ctr_laws_of_stream P hs).1,
    ctr_len := (ctr_laws_of_stream P hs).2, H_len := H_len, dh_len := dh_len }

/-! ## bytes comparison -/

theorem bytesLt_asymm : ∀ (a b : Bytes), bytesLt a b = true → bytesLt b a = false
  | [], [], h => by simp [bytesLt] at h
  | [], _ :: _, _ => by simp [bytesLt]
  | _ :: _, [], h => by simp [bytesLt] at h
  | x :: xs, y :: ys, h => by
    unfold bytesLt at h ⊢
    by_cases h1 : x < y
    · have : ¬ y < x := by omega
      simp [this, h1]
    · by_cases h2 : y < x
      · simp [h1, h2] at h
      · simp only [h1, h2, if_false] at h ⊢
        exact bytesLt_asymm xs ys h

theorem bytesLt_irrefl : ∀ a : Bytes, bytesLt a a = false
  | [] => by simp [bytesLt]
  | x :: xs => by
    unfold bytesLt
    simp [bytesLt_irrefl xs]

/-- neither smaller nor greater means equal: the `else` branch of `AdnlChannel.__init__` is exactly `local_id == peer_id`. -/
theorem bytesLt_total : ∀ (a b : Bytes), bytesLt a b = false → bytesLt b a = false → a = b
  | [], [], _, _ => rfl
  | [], _ :: _, h, _ => by simp [bytesLt] at h
  | _ :: _, [], _, h => by simp [bytesLt] at h
  | x :: xs, y :: ys, h1, h2 => by
    unfold bytesLt at h1 h2
    by_cases c1 : x < y
    · simp [c1] at h1
    · by_cases c2 : y < x
      · simp [c2] at h2
      · simp only [c1, c2, if_false] at h1 h2
        have hxy : x = y := by omega
        rw [hxy, bytesLt_total xs ys h1 h2]

/-! ## cipher parameters -/

theorem slice_length (b : Bytes) (i j : Nat) : (slice b i j).length = min (j - i) (b.length - i) := by
  simp [slice]

theorem cipherParams_some (key data : Bytes) (hk : 32 ≤ key.length) (hd : 32 ≤ data.length) :
    cipherParams key data = some (slice key 0 16 ++ slice data 16 32, slice data 0 4 ++ slice key 20 32) := by
  unfold cipherParams
  have h1 : (slice key 0 16 ++ slice data 16 32).length = 32 := by
    simp only [List.length_append, slice_length]; omega
  have h2 : (slice data 0 4 ++ slice key 20 32).length = 16 := by
    simp only [List.length_append, slice_length]; omega
  simp [h1, h2]

/-- the cipher can be created exactly when key and data have at least 32 bytes. -/
theorem cipherParams_isSome_iff (key data : Bytes) :
    (cipherParams key data).isSome ↔ 32 ≤ key.length ∧ 32 ≤ data.length := by
  constructor
  · intro h
    unfold cipherParams at h
    simp only [List.length_append, slice_length] at h
    by_cases h1 : min 16 key.length + min 16 (data.length - 16) = 32
    · by_cases h2 : min 4 data.length + min 12 (key.length - 20) = 16
      · omega
      · simp [h1, h2] at h
    · simp [h1] at h
  · rintro ⟨hk, hd⟩
    simp [cipherParams_some key data hk hd]

/-! ## the two ends of a channel -/

/-- end A: opened by the holder of `a` towards the peer known by `edPub b`. -/
def chanOf {W} (P : Prims W) (a b localId peerId : Bytes) : Channel :=
  Channel.new P (Client.new P a) (Server.new P (P.edPub b)) localId peerId

theorem shared_eq {W} (P : Prims W) (L : ChannelLaws P) (a b ida idb : Bytes) :
    (chanOf P a b ida idb).shared = (chanOf P b a idb ida).shared := by
  simp only [chanOf, Channel.new, Client.new, Server.new]
  rw [L.conv b, L.conv a, L.dh_comm]

theorem chan_keys {W} (P : Prims W) (a b ida idb : Bytes) :
    let s := P.dh (P.edToXPriv a) (P.edToXPub (P.edPub b))
    (chanOf P a b ida idb).shared = s ∧
    (chanOf P a b ida idb).clientAesKeyId = keyAesId P (chanOf P a b ida idb).encKey ∧
    (chanOf P a b ida idb).serverAesKeyId = keyAesId P (chanOf P a b ida idb).decKey ∧
    ((chanOf P a b ida idb).encKey, (chanOf P a b ida idb).decKey) =
      if bytesLt idb ida then (s, s.reverse) else if bytesLt ida idb then (s.reverse, s) else (s, s) := by
  simp only [chanOf, Channel.new, Client.new, Server.new]
  exact ⟨trivial, trivial, trivial, trivial⟩

/-- what one side encrypts with is what the other side decrypts with — in all three id orderings. -/
theorem enc_eq_dec {W} (P : Prims W) (L : ChannelLaws P) (a b ida idb : Bytes) :
    (chanOf P a b ida idb).encKey = (chanOf P b a idb ida).decKey := by
  have hs := shared_eq P L a b ida idb
  obtain ⟨h1, _, _, h4⟩ := chan_keys P a b ida idb
  obtain ⟨g1, _, _, g4⟩ := chan_keys P b a idb ida
  rw [h1, g1] at hs
  rw [hs] at h4
  generalize P.dh (P.edToXPriv b) (P.edToXPub (P.edPub a)) = s at *
  cases c1 : bytesLt idb ida <;> cases c2 : bytesLt ida idb
  · simp only [c1, c2, Bool.false_eq_true, if_false, Prod.mk.injEq] at h4 g4
    rw [h4.1, g4.2]
  · simp only [c1, c2, Bool.false_eq_true, if_false, if_true, Prod.mk.injEq] at h4 g4
    rw [h4.1, g4.2]
  · simp only [c1, c2, Bool.false_eq_true, if_false, if_true, Prod.mk.injEq] at h4 g4
    rw [h4.1, g4.2]
  · rw [bytesLt_asymm _ _ c1] at c2; cases c2

theorem encKey_len {W} (P : Prims W) (L : ChannelLaws P) (a b ida idb : Bytes) :
    (chanOf P a b ida idb).encKey.length = 32 := by
  obtain ⟨_, _, _, h4⟩ := chan_keys P a b ida idb
  have hl := L.dh_len (P.edToXPriv a) (P.edToXPub (P.edPub b))
  cases c1 : bytesLt idb ida <;> cases c2 : bytesLt ida idb <;>
    simp only [c1, c2, Bool.false_eq_true, if_false, if_true, Prod.mk.injEq] at h4 <;>
    rw [h4.1] <;> simpa using hl

/-- one direction of the channel: A's packet is (B's expected key id) ‖ H m ‖ body, and B decrypts body to m. -/
theorem one_way {W} (P : Prims W) (L : ChannelLaws P) (a b ida idb m : Bytes) :
    ∃ body, (chanOf P a b ida idb).encrypt P m =
        some ((chanOf P b a idb ida).serverAesKeyId ++ P.H m ++ body) ∧
      body.length = m.length ∧
      (chanOf P b a idb ida).decrypt P body (P.H m) = some m := by
  have hk := enc_eq_dec P L a b ida idb
  have hl := encKey_len P L a b ida idb
  have hid : (chanOf P a b ida idb).clientAesKeyId = (chanOf P b a idb ida).serverAesKeyId := by
    rw [(chan_keys P a b ida idb).2.1, (chan_keys P b a idb ida).2.2.1, hk]
  have hc := cipherParams_some (chanOf P a b ida idb).encKey (P.H m) (by omega) (by rw [L.H_len]; omega)
  refine ⟨P.ctr (slice (chanOf P a b ida idb).encKey 0 16 ++ slice (P.H m) 16 32)
      (slice (P.H m) 0 4 ++ slice (chanOf P a b ida idb).encKey 20 32) m, ?_, L.ctr_len _ _ _, ?_⟩
  · simp only [Channel.encrypt, hc, hid]
  · simp only [Channel.decrypt, ← hk, hc, L.ctr_invol]

/-! ## signing -/

theorem slice_append_left (s m : Bytes) (n : Nat) (h : s.length = n) : slice (s ++ m) 0 n = s := by
  simp [slice, ← h]

/-! ## mnemonic generator -/

theorem secureRandomNumber_range (rnd : Nat → Bytes) (minV maxV : Nat) :
    ∀ (fuel k r k' : Nat), secureRandomNumber rnd minV maxV fuel k = some (r, k') → minV ≤ r ∧ r < maxV
  | 0, _, _, _, h => by simp [secureRandomNumber] at h
  | fuel + 1, k, r, k', h => by
    unfold secureRandomNumber at h
    simp only at h
    split at h
    · cases h
    · split at h
      · cases h
      · split at h
        · cases h
        · split at h
          · exact secureRandomNumber_range rnd minV maxV fuel _ r k' h
          · simp only [Option.some.injEq, Prod.mk.injEq] at h
            omega

theorem drawWords_spec {W} (words : List W) (rnd : Nat → Bytes) (fuel : Nat) :
    ∀ (n k : Nat) (ws : List W) (k' : Nat), drawWords words rnd fuel n k = some (ws, k') →
      ws.length = n ∧ ∀ w ∈ ws, w ∈ words
  | 0, k, ws, k', h => by
    simp only [drawWords, Option.some.injEq, Prod.mk.injEq] at h
    simp [← h.1]
  | n + 1, k, ws, k', h => by
    unfold drawWords at h
    split at h
    · cases h
    · rename_i idx k1 _
      split at h
      · cases h
      · rename_i w hw
        split at h
        · cases h
        · rename_i ws' k2 hrec
          simp only [Option.some.injEq, Prod.mk.injEq] at h
          obtain ⟨ih1, ih2⟩ := drawWords_spec words rnd fuel n k1 ws' k2 hrec
          rw [← h.1]
          refine ⟨by simp [ih1], ?_⟩
          intro x hx
          simp only [List.mem_cons] at hx
          rcases hx with rfl | hx
          · exact List.mem_of_getElem? hw
          · exact ih2 x hx

theorem mnemonicNew_spec {W} (P : Prims W) (words : List W) (rnd : Nat → Bytes) (wc inner : Nat) :
    ∀ (fuel k : Nat) (arr : List W) (k' : Nat), mnemonicNew P words rnd wc inner fuel k = some (arr, k') →
      arr.length = wc ∧ (∀ w ∈ arr, w ∈ words) ∧ isBasicSeed P (mnemonicToEntropy P arr) = true
  | 0, _, _, _, h => by simp [mnemonicNew] at h
  | fuel + 1, k, arr, k', h => by
    unfold mnemonicNew at h
    split at h
    · cases h
    · rename_i arr0 k1 hd
      by_cases hb : isBasicSeed P (mnemonicToEntropy P arr0) = true
      · simp only [hb, Bool.not_true, Bool.false_eq_true, if_false, Option.some.injEq, Prod.mk.injEq] at h
        obtain ⟨h1, h2⟩ := drawWords_spec words rnd inner wc k arr0 k1 hd
        rw [← h.1]
        exact ⟨h1, h2, hb⟩
      · have hb' : isBasicSeed P (mnemonicToEntropy P arr0) = false := by simpa using hb
        simp only [hb', Bool.not_false, if_true] at h
        exact mnemonicNew_spec P words rnd wc inner fuel k1 arr k' h

end TonVerif.Proofs.Adnl
