/-
The ITERATION-COUNTING copy of the regenerated cell constructor (Generated/CellCtorCnt.lean, translator harness/translate/ctorcnt.py):
  * `init_cnt_erase`  : it computes exactly the value of the regenerated `Cell.__init__` (Generated/CellCtor.lean);
  * `calc_ticks`      : the level loop of `calculate_hashes` (counter 1) starts at most `bit_length(mask) + 1` iterations, the depth loop
                        (2) and the hash loop (3) at most `len(refs)` iterations per level iteration; `resolve_mask` (0) at most `len(refs)`;
  * `init_ticks`      : one constructor call: all loop iterations ≤ `Cost.ctorSteps (bit_length(mask) + 1) len(refs)`.
-/
import TonVerif.Generated.CellCtorCnt
import TonVerif.Proofs.SrcW
import TonVerif.Model.Cost
import TonVerif.Proofs.Bits

set_option linter.unusedSimpArgs false
namespace TonVerif.Proofs.SrcCtorCnt
open TonVerif TonVerif.Py TonVerif.Model TonVerif.Generated.CellCtor TonVerif.Generated.CellCtorCnt
open TonVerif.Proofs.SrcW

theorem resolve_mask_cnt_erase (ty : Int) (refs : List CellInfo) (bits : Bits) :
    (resolve_mask_cnt ty refs bits).1 = resolve_mask ty refs bits := by
  unfold resolve_mask_cnt resolve_mask
  simp only [bnd_opt_fst, bnd_w_fst, ite_fst, ret_fst, raise_fst, lift_fst, foldW_fst]

theorem calculate_hashes_cnt_erase (H : Bytes → Bytes) (mask : Nat) (ty : Int) (ds : List Nat) (hs : List Bytes) (refs : List CellInfo)
    (ex : Bool) (bits : Bits) :
    (calculate_hashes_cnt H mask ty ds hs refs ex bits).1 = calculate_hashes H mask ty ds hs refs ex bits := by
  unfold calculate_hashes_cnt calculate_hashes
  simp only [bnd_opt_fst, bnd_w_fst, ite_fst, ret_fst, raise_fst, lift_fst, foldW_fst]

theorem init_cnt_erase (H : Bytes → Bytes) (bits : Bits) (refs : List CellInfo) (ty : Int) :
    (init_cnt H bits refs ty).1 = init H bits refs ty := by
  unfold init_cnt init
  simp only [bnd_opt_fst, bnd_w_fst, ite_fst, ret_fst, raise_fst, lift_fst, foldW_fst, resolve_mask_cnt_erase, calculate_hashes_cnt_erase]

/-! ## ticks -/

theorem resolve_mask_ticks (ty : Int) (refs : List CellInfo) (bits : Bits) (j : Nat) :
    (resolve_mask_cnt ty refs bits).2 j ≤ if j = 0 then refs.length else 0 := by
  unfold resolve_mask_cnt
  simp only [bnd_opt_snd, bnd_w_snd, ite_snd, ret_snd, raise_snd, lift_snd, match_zero, ite_self, Nat.add_zero]
  split
  · have := foldW_le 0 j 0 (fun (mask : Nat) (r : CellInfo) => W.ret (mask ||| r.mask)) (fun s x => Nat.le_refl 0) refs 0
    simpa using this
  · exact Nat.zero_le _

theorem calc_ticks (H : Bytes → Bytes) (mask : Nat) (ty : Int) (ds : List Nat) (hs : List Bytes) (refs : List CellInfo)
    (ex : Bool) (bits : Bits) (j : Nat) :
    (calculate_hashes_cnt H mask ty ds hs refs ex bits).2 j ≤
      (if j = 1 then Py.bitLength mask + 1 else 0) +
        (Py.bitLength mask + 1) * ((if j = 2 then refs.length else 0) + (if j = 3 then refs.length else 0)) := by
  unfold calculate_hashes_cnt
  dsimp only
  refine le_bnd_w _ _ j 0 _ _ ?_ ?_ (Nat.le_of_eq (Nat.zero_add _))
  · exact le_ite _ _ _ _ _ (le_ret _ _ _) (le_ret _ _ _)
  intro hc
  refine le_bnd_w _ _ j _ 0 _ (foldW_le 1 j ((if j = 2 then refs.length else 0) + (if j = 3 then refs.length else 0)) _ ?_ _ _) (fun _ => le_ret _ _ _) ?_
  · intro x li
    refine le_ite _ _ _ _ _ (le_ret _ _ _) (le_ite _ _ _ _ _ (le_ret _ _ _) ?_)
    refine le_bnd_opt _ _ _ _ fun dsc => ?_
    refine le_bnd_w _ _ j 0 _ _ ?_ (fun h0 => ?_) (Nat.le_of_eq (Nat.zero_add _))
    · exact le_ite _ _ _ _ _ (le_ite _ _ _ _ _ (le_raise _ _) (le_bnd_opt _ _ _ _ fun _ => le_ret _ _ _))
        (le_ite _ _ _ _ _ (le_raise _ _) (le_bnd_opt _ _ _ _ fun _ => le_ret _ _ _))
    refine le_bnd_w _ _ j (if j = 2 then refs.length else 0) (if j = 3 then refs.length else 0) _ ?_ (fun dh => ?_) (Nat.le_refl _)
    · refine Nat.le_trans (foldW_le 2 j 0 _ ?_ _ _) (by simp)
      intro st r
      refine le_bnd_w _ _ j 0 0 _ ?_ (fun rd => le_bnd_opt _ _ _ _ fun _ => le_ite _ _ _ _ _ (le_ret _ _ _) (le_ret _ _ _)) (Nat.le_refl _)
      exact le_ite _ _ _ _ _ (le_bnd_opt _ _ _ _ fun _ => le_ret _ _ _) (le_bnd_opt _ _ _ _ fun _ => le_ret _ _ _)
    refine le_bnd_w _ _ j 0 _ _ ?_ (fun dep => ?_) (Nat.le_of_eq (Nat.zero_add _))
    · exact le_ite _ _ _ _ _ (le_ite _ _ _ _ _ (le_raise _ _) (le_ret _ _ _)) (le_ret _ _ _)
    refine le_bnd_w _ _ j (if j = 3 then refs.length else 0) 0 _ ?_ (fun _ => le_ret _ _ _) (Nat.le_refl _)
    refine Nat.le_trans (foldW_le 3 j 0 _ ?_ _ _) (by simp)
    intro st r
    exact le_ite _ _ _ _ _ (le_bnd_opt _ _ _ _ fun _ => le_ret _ _ _) (le_bnd_opt _ _ _ _ fun _ => le_ret _ _ _)
  · simp [Generated.lmLevel]

/-! ## one constructor call -/

/-- levels the constructor hashes at most: `bit_length(level mask) + 1` iterations of `for li in range(level + 1)` -/
def levelIters (ty : Int) (refs : List CellInfo) (bits : Bits) : Nat :=
  match resolve_mask ty refs bits with
  | none => 0          -- the constructor raised before `calculate_hashes`
  | some m => Py.bitLength m + 1

theorem init_ticks_j (H : Bytes → Bytes) (bits : Bits) (refs : List CellInfo) (ty : Int) (j : Nat) :
    (init_cnt H bits refs ty).2 j ≤ (if j = 0 then refs.length else 0) +
      ((if j = 1 then levelIters ty refs bits else 0) +
        levelIters ty refs bits * ((if j = 2 then refs.length else 0) + (if j = 3 then refs.length else 0))) := by
  unfold init_cnt
  dsimp only
  refine le_bnd_opt' _ _ _ _ fun a ha => ?_
  simp only [NullCell_init, Option.some.injEq] at ha
  subst ha
  dsimp only
  refine le_bnd_w' _ _ j _ _ _ (resolve_mask_ticks ty refs bits j) (fun m hm => ?_) (Nat.le_refl _)
  rw [resolve_mask_cnt_erase] at hm
  refine le_bnd_w _ _ j _ 0 _ (calc_ticks H m ty [] [] refs _ bits j) (fun _ => ?_) ?_
  · exact le_bnd_opt _ _ _ _ fun _ => le_bnd_opt _ _ _ _ fun _ => le_bnd_opt _ _ _ _ fun _ => le_ret _ _ _
  · simp only [levelIters, hm, Nat.add_zero]; exact Nat.le_refl _

theorem ctor_total (H : Bytes → Bytes) (bits : Bits) (refs : List CellInfo) (ty : Int) :
    (init_cnt H bits refs ty).2 0 + (init_cnt H bits refs ty).2 1 + (init_cnt H bits refs ty).2 2 + (init_cnt H bits refs ty).2 3 ≤
      Cost.ctorSteps (levelIters ty refs bits) refs.length := by
  have h0 := init_ticks_j H bits refs ty 0
  have h1 := init_ticks_j H bits refs ty 1
  have h2 := init_ticks_j H bits refs ty 2
  have h3 := init_ticks_j H bits refs ty 3
  simp only [if_true, show ((0:Nat) = 1) = False by decide, show ((0:Nat) = 2) = False by decide, show ((0:Nat) = 3) = False by decide,
    show ((1:Nat) = 0) = False by decide, show ((1:Nat) = 2) = False by decide, show ((1:Nat) = 3) = False by decide,
    show ((2:Nat) = 0) = False by decide, show ((2:Nat) = 1) = False by decide, show ((2:Nat) = 3) = False by decide,
    show ((3:Nat) = 0) = False by decide, show ((3:Nat) = 1) = False by decide, show ((3:Nat) = 2) = False by decide,
    if_false, Nat.add_zero, Nat.zero_add, Nat.mul_zero] at h0 h1 h2 h3
  unfold Cost.ctorSteps
  generalize levelIters ty refs bits = L at *
  have : L * (1 + 2 * refs.length) = L + L * refs.length + L * refs.length := by
    rw [Nat.mul_add, Nat.mul_one, Nat.two_mul, Nat.mul_add]; omega
  omega

theorem ctor_other (H : Bytes → Bytes) (bits : Bits) (refs : List CellInfo) (ty : Int) (j : Nat) (hj : 4 ≤ j) :
    (init_cnt H bits refs ty).2 j = 0 := by
  have := init_ticks_j H bits refs ty j
  simp only [show ¬ j = 0 by omega, show ¬ j = 1 by omega, show ¬ j = 2 by omega, show ¬ j = 3 by omega, if_false, Nat.add_zero, Nat.mul_zero] at this
  omega

theorem bitLength_le3 : ∀ m, m ≤ 7 → Py.bitLength m ≤ 3 := by
  intro m hm
  have : m = 0 ∨ m = 1 ∨ m = 2 ∨ m = 3 ∨ m = 4 ∨ m = 5 ∨ m = 6 ∨ m = 7 := by omega
  rcases this with rfl | rfl | rfl | rfl | rfl | rfl | rfl | rfl <;> decide

theorem or_fold : ∀ (refs : List CellInfo) (a : Nat), a < 8 → (∀ r ∈ refs, r.mask < 8) →
    ∃ m, List.foldlM (m := Option) (fun (mask : Nat) (r : CellInfo) => some (mask ||| r.mask)) a refs = some m ∧ m < 8 := by
  intro refs
  induction refs with
  | nil => intro a ha _; exact ⟨a, rfl, ha⟩
  | cons r rs ih =>
    intro a ha h
    rw [List.foldlM_cons]
    have hr := h r (by simp)
    have : a ||| r.mask < 2 ^ 3 := Nat.or_lt_two_pow (by simpa using ha) (by simpa using hr)
    exact ih _ (by simpa using this) (fun x hx => h x (by simp [hx]))

/-- the level mask an ordinary / library / Merkle cell gets from children of level ≤ 3 is ≤ 7 (the mask of a pruned branch is read from its data) -/
theorem resolve_mask_le (ty : Int) (refs : List CellInfo) (bits : Bits) (hty : ty ≠ 1) (hr : ∀ r ∈ refs, r.mask ≤ 7) (m : Nat)
    (hm : resolve_mask ty refs bits = some m) : m ≤ 7 := by
  unfold resolve_mask at hm
  have hr' : ∀ r ∈ refs, r.mask < 8 := fun r h => Nat.lt_succ_of_le (hr r h)
  split at hm
  · obtain ⟨m', h1, h2⟩ := or_fold refs 0 (by decide) hr'
    simp only [h1, Option.bind_some, Option.some.injEq] at hm
    omega
  · split at hm
    · cases h0 : refs[0]? with
      | none => simp [h0] at hm
      | some a =>
        simp only [h0, Option.bind_some, Option.some.injEq] at hm
        have := hr' a (List.mem_of_getElem? h0)
        rw [← hm, Nat.shiftRight_eq_div_pow]; omega
    · split at hm
      · cases h0 : refs[0]? with
        | none => simp [h0] at hm
        | some a =>
          cases h1 : refs[1]? with
          | none => simp [h0, h1] at hm
          | some b =>
            simp only [h0, h1, Option.bind_some, Option.some.injEq] at hm
            have ha := hr' a (List.mem_of_getElem? h0)
            have hb := hr' b (List.mem_of_getElem? h1)
            have : a.mask ||| b.mask < 2 ^ 3 := Nat.or_lt_two_pow (by simpa using ha) (by simpa using hb)
            rw [← hm, Nat.shiftRight_eq_div_pow]; omega
      · split at hm
        · simp only [Option.some.injEq] at hm; omega
        · cases hm

/-- one constructor call on children of level ≤ 3, not a pruned branch: the level loop starts ≤ 4 iterations and all loops of
`resolve_mask` + `calculate_hashes` together ≤ `4 + 9·len(refs)` -/
theorem ctor_le (H : Bytes → Bytes) (bits : Bits) (refs : List CellInfo) (ty : Int) (hl : levelIters ty refs bits ≤ 4) :
    (init_cnt H bits refs ty).2 1 ≤ 4 ∧
    (init_cnt H bits refs ty).2 0 + (init_cnt H bits refs ty).2 1 + (init_cnt H bits refs ty).2 2 + (init_cnt H bits refs ty).2 3 ≤
      4 + 9 * refs.length := by
  have h1 := init_ticks_j H bits refs ty 1
  simp only [if_true, show ((1:Nat) = 0) = False by decide, show ((1:Nat) = 2) = False by decide, show ((1:Nat) = 3) = False by decide,
    if_false, Nat.add_zero, Nat.zero_add, Nat.mul_zero] at h1
  refine ⟨Nat.le_trans h1 hl, Nat.le_trans (ctor_total H bits refs ty) ?_⟩
  unfold Cost.ctorSteps
  have : levelIters ty refs bits * (1 + 2 * refs.length) ≤ 4 * (1 + 2 * refs.length) := Nat.mul_le_mul_right _ hl
  omega

theorem levelIters_le (ty : Int) (refs : List CellInfo) (bits : Bits) (hty : ty ≠ 1) (hr : ∀ r ∈ refs, r.mask ≤ 7) :
    levelIters ty refs bits ≤ 4 := by
  unfold levelIters
  cases hm : resolve_mask ty refs bits with
  | none => simp
  | some m =>
    have := bitLength_le3 m (resolve_mask_le ty refs bits hty hr m hm)
    simp only; omega

/-! ## pruned branches; masks that fit a byte (no hypothesis beyond what the constructor itself guarantees) -/

theorem bitLength_le8 (m : Nat) (hm : m < 256) : Py.bitLength m ≤ 8 := by
  unfold Py.bitLength
  split
  · omega
  · rename_i h
    have : Nat.log2 m < 8 := (Nat.log2_lt h).2 (by simpa using hm)
    omega

/-- a pruned branch: the constructor returns only without references, its level mask is the second data byte -/
theorem resolve_mask_pruned (refs : List CellInfo) (bits : Bits) (m : Nat) (hm : resolve_mask 1 refs bits = some m) :
    refs = [] ∧ m < 256 := by
  unfold resolve_mask at hm
  simp only [show ((1 : Int) = -1) = False by decide, if_false, if_true] at hm
  split at hm
  · cases hm
  · rename_i h
    refine ⟨by simpa using h, ?_⟩
    unfold Py.intOfBits? at hm
    split at hm
    · cases hm
    · simp only [Option.bind_some, Option.some.injEq] at hm
      have h1 := TonVerif.Proofs.Bits.natOfBits_lt (Py.slice bits 8 16)
      have h2 : (Py.slice bits 8 16).length ≤ 8 := by simp [Py.slice]; omega
      have : 2 ^ (Py.slice bits 8 16).length ≤ 2 ^ 8 := Nat.pow_le_pow_right (by decide) h2
      omega

theorem or_fold256 : ∀ (refs : List CellInfo) (a : Nat), a < 256 → (∀ r ∈ refs, r.mask < 256) →
    ∃ m, List.foldlM (m := Option) (fun (mask : Nat) (r : CellInfo) => some (mask ||| r.mask)) a refs = some m ∧ m < 256 := by
  intro refs
  induction refs with
  | nil => intro a ha _; exact ⟨a, rfl, ha⟩
  | cons r rs ih =>
    intro a ha h
    rw [List.foldlM_cons]
    have hr := h r (by simp)
    have : a ||| r.mask < 2 ^ 8 := Nat.or_lt_two_pow (by simpa using ha) (by simpa using hr)
    exact ih _ (by simpa using this) (fun x hx => h x (by simp [hx]))

/-- level masks fit a byte: closed under the constructor, for EVERY cell type -/
theorem resolve_mask_le255 (ty : Int) (refs : List CellInfo) (bits : Bits) (hr : ∀ r ∈ refs, r.mask ≤ 255) (m : Nat)
    (hm : resolve_mask ty refs bits = some m) : m ≤ 255 := by
  by_cases hty : ty = 1
  · subst hty; have := (resolve_mask_pruned refs bits m hm).2; omega
  unfold resolve_mask at hm
  have hr' : ∀ r ∈ refs, r.mask < 256 := fun r h => Nat.lt_succ_of_le (hr r h)
  split at hm
  · obtain ⟨m', h1, h2⟩ := or_fold256 refs 0 (by decide) hr'
    simp only [h1, Option.bind_some, Option.some.injEq] at hm
    omega
  · split at hm
    · cases h0 : refs[0]? with
      | none => simp [h0] at hm
      | some a =>
        simp only [h0, Option.bind_some, Option.some.injEq] at hm
        have := hr' a (List.mem_of_getElem? h0)
        rw [← hm, Nat.shiftRight_eq_div_pow]; omega
    · split at hm
      · cases h0 : refs[0]? with
        | none => simp [h0] at hm
        | some a =>
          cases h1 : refs[1]? with
          | none => simp [h0, h1] at hm
          | some b =>
            simp only [h0, h1, Option.bind_some, Option.some.injEq] at hm
            have ha := hr' a (List.mem_of_getElem? h0)
            have hb := hr' b (List.mem_of_getElem? h1)
            have : a.mask ||| b.mask < 2 ^ 8 := Nat.or_lt_two_pow (by simpa using ha) (by simpa using hb)
            rw [← hm, Nat.shiftRight_eq_div_pow]; omega
      · split at hm
        · simp only [Option.some.injEq] at hm; omega
        · cases hm

theorem levelIters_le9 (ty : Int) (refs : List CellInfo) (bits : Bits) (hr : ∀ r ∈ refs, r.mask ≤ 255) :
    levelIters ty refs bits ≤ 9 := by
  unfold levelIters
  cases hm : resolve_mask ty refs bits with
  | none => simp
  | some m =>
    have := bitLength_le8 m (Nat.lt_succ_of_le (resolve_mask_le255 ty refs bits hr m hm))
    simp only; omega

/-- the mask stored in the constructed cell is the resolved one -/
theorem init_mask (H : Bytes → Bytes) (bits : Bits) (refs : List CellInfo) (ty : Int) (out : CtorOut)
    (h : init H bits refs ty = some out) : resolve_mask ty refs bits = some out.mask := by
  unfold init at h
  simp only [NullCell_init, Option.bind_some, Option.bind_eq_some_iff] at h
  obtain ⟨m, hm, _, _, _, _, _, _, _, _, h⟩ := h
  simp only [Option.some.injEq] at h
  rw [← h]; exact hm

/-- PRUNED BRANCH: the level loop starts at most `bit_length(mask byte) + 1 ≤ 9` iterations and no loop over the references runs at all -/
theorem pruned_ticks (H : Bytes → Bytes) (bits : Bits) (refs : List CellInfo) :
    (init_cnt H bits refs 1).2 1 ≤ levelIters 1 refs bits ∧ levelIters 1 refs bits ≤ 9 ∧
    (init_cnt H bits refs 1).2 2 = 0 ∧ (init_cnt H bits refs 1).2 3 = 0 := by
  have h1 := init_ticks_j H bits refs 1 1
  have h2 := init_ticks_j H bits refs 1 2
  have h3 := init_ticks_j H bits refs 1 3
  simp only [if_true, show ((1:Nat) = 0) = False by decide, show ((1:Nat) = 2) = False by decide, show ((1:Nat) = 3) = False by decide,
    show ((2:Nat) = 0) = False by decide, show ((2:Nat) = 1) = False by decide, show ((2:Nat) = 3) = False by decide,
    show ((3:Nat) = 0) = False by decide, show ((3:Nat) = 1) = False by decide, show ((3:Nat) = 2) = False by decide,
    if_false, Nat.add_zero, Nat.zero_add, Nat.mul_zero] at h1 h2 h3
  have hz : levelIters 1 refs bits * refs.length = 0 ∧ levelIters 1 refs bits ≤ 9 := by
    unfold levelIters
    cases hm : resolve_mask 1 refs bits with
    | none => simp
    | some m =>
      obtain ⟨hr, hm'⟩ := resolve_mask_pruned refs bits m hm
      have := bitLength_le8 m hm'
      simp only [hr, List.length_nil, Nat.mul_zero, true_and]; omega
  exact ⟨h1, hz.2, by omega, by omega⟩

/-- one constructor call on children whose masks fit a byte (true of every cell any constructor call returned): ≤ 9 level iterations,
`≤ 9 + 19·len(refs)` loop iterations -/
theorem ctor_le_any (H : Bytes → Bytes) (bits : Bits) (refs : List CellInfo) (ty : Int) (hr : ∀ r ∈ refs, r.mask ≤ 255) :
    (init_cnt H bits refs ty).2 0 + (init_cnt H bits refs ty).2 1 + (init_cnt H bits refs ty).2 2 + (init_cnt H bits refs ty).2 3 ≤
      9 + 19 * refs.length := by
  refine Nat.le_trans (ctor_total H bits refs ty) ?_
  unfold Cost.ctorSteps
  have hl := levelIters_le9 ty refs bits hr
  have : levelIters ty refs bits * (1 + 2 * refs.length) ≤ 9 * (1 + 2 * refs.length) := Nat.mul_le_mul_right _ hl
  omega

end TonVerif.Proofs.SrcCtorCnt
