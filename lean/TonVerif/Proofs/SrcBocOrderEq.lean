/-
The traversal of `Cell.order` regenerated from the source (Generated/BocEmitSrc.lean) equals the hand model `PCell.order`
(Model/BocEmit.lean) — same visiting order of the references, same iteration budget — and hence `Cell.to_boc` regenerated equals
`PCell.toBoc`: `src_order_eq`, `src_toBoc_eq`.  This is the MODEL-EQUALITY tie of the traversal; it breaks when the source visits
the references in another order (also another VALID one).  The property-level statements about the regenerated `Cell.order`
that do not depend on the visiting order are in Proofs/SrcOrderAny.lean (`src_order_valid_any`, `src_order_linear`).
-/
import TonVerif.Proofs.SrcBocEmit

namespace TonVerif.Proofs.SrcBocEmit
open TonVerif TonVerif.Model TonVerif.Generated.BocEmitSrc TonVerif.Proofs.SrcDict

/-! ### `Cell.order` -/

/-- one iteration of `while stack:` in canonical form -/
def orderStep (s : OState) : Option OState :=
  (Py.listPop? s.2.1).bind fun x =>
    if x.2.2 = true then some (s.1 ++ [x.2.1], x.1, s.2.2)
    else if Py.setHas PCell.key s.2.2 x.2.1 = true then some (s.1, x.1, s.2.2)
    else some (s.1, x.1 ++ [(x.2.1, true)] ++ x.2.1.refs.map (fun r => (r, false)), Py.setAdd PCell.key s.2.2 x.2.1)

/-- the `while stack:` loop = the hand model's `orderLoop` (same iteration budget): the Python list `stack` is the model's stack
reversed, `post_order` the model's `post` reversed, `visited` the model's hash set -/
theorem while_orderLoop (body : OState → Option OState) (hb : ∀ s, body s = orderStep s) :
    ∀ (fuel : Nat) (po : List PCell) (stack : List (PCell × Bool)) (vis : Py.KSet PCell) (hs : Std.HashSet Nat),
      SetSim PCell.key vis hs →
      ((Py.while? (fun s : OState => decide (s.2.1 ≠ [])) body fuel (po, stack, vis)).map fun s => s.1.reverse) =
        orderLoop fuel stack.reverse hs po.reverse
  | 0, _, _, _, _, _ => by simp [Py.while?, orderLoop]
  | fuel + 1, po, stack, vis, hs, h => by
    rcases List.eq_nil_or_concat stack with rfl | ⟨init, ⟨c, e⟩, hst⟩
    · simp [Py.while?, orderLoop]
    · rw [List.concat_eq_append] at hst
      subst hst
      have hne : (init ++ [(c, e)] ≠ []) := by simp
      simp only [Py.while?, hne, decide_true, if_true, ne_eq, not_false_eq_true, hb, orderStep, listPop_append,
        Option.bind_some, List.reverse_append, List.reverse_cons, List.reverse_nil, List.nil_append, List.singleton_append]
      cases e with
      | true =>
        simp only [if_true, Option.bind_some, orderLoop]
        rw [while_orderLoop body hb fuel _ _ _ _ h]; simp
      | false =>
        simp only [Bool.false_eq_true, if_false, setSim_has h, orderLoop]
        by_cases hc : hs.contains c.key = true
        · simp only [hc, if_true, Option.bind_some]
          rw [while_orderLoop body hb fuel _ _ _ _ h]
        · simp only [hc, if_false, Option.bind_some, Bool.false_eq_true]
          rw [while_orderLoop body hb fuel _ _ _ _ (setSim_add h c)]
          simp [List.map_reverse]

/-- the result dict of the re-insertion loop vs the model's `(keys latest first, key set)` -/
def DSim (d : Py.KDict PCell Unit) (cd : CDict) : Prop :=
  d.map (·.1) = cd.1.reverse ∧ ∀ k, cd.2.contains k = d.any (fun e => PCell.key e.1 == k)

theorem filter_fst (c : PCell) (d : Py.KDict PCell Unit) : (d.filter (fun e => PCell.key e.1 != PCell.key c)).map (·.1) =
    (d.map (·.1)).filter (fun x => PCell.key x != PCell.key c) := by
  induction d with
  | nil => rfl
  | cons e d ih => by_cases he : PCell.key e.1 = PCell.key c <;> simp [he, ih]

theorem dsim_step (d : Py.KDict PCell Unit) (cd : CDict) (c : PCell) (h : DSim d cd) :
    DSim (moveToEnd PCell.key d c ()) (dictMoveToEnd cd c) := by
  obtain ⟨h1, h2⟩ := h
  have hfilter := filter_fst c d
  unfold dictMoveToEnd moveToEnd
  by_cases hc : cd.2.contains c.key = true
  · rw [if_pos hc]
    refine ⟨?_, ?_⟩
    · simp only [List.map_append, hfilter, h1, List.map_cons, List.map_nil, List.reverse_cons, List.filter_reverse]
    · intro k
      simp only [List.any_append, List.any_cons, List.any_nil, Bool.or_false]
      by_cases hk : PCell.key c = k
      · subst hk; simp [hc]
      · rw [h2 k]
        have : (PCell.key c == k) = false := by simpa using hk
        rw [this, Bool.or_false, List.any_filter]
        congr 1; funext e
        by_cases he : PCell.key e.1 = k
        · have h3 : ¬ k = PCell.key c := fun h => hk h.symm
          simp [he, h3]
        · simp [he]
  · rw [if_neg hc]
    have hc' : Py.dictHas PCell.key d c = false := by
      have := h2 c.key
      simp only [Bool.not_eq_true] at hc
      rw [hc] at this
      exact this.symm
    rw [filter_absent PCell.key d c hc']
    refine ⟨by simp [h1], ?_⟩
    intro k
    rw [Std.HashSet.contains_insert, h2 k]
    simp [List.any_append, Bool.or_comm]

theorem dsim_foldl : ∀ (xs : List PCell) (d : Py.KDict PCell Unit) (cd : CDict), DSim d cd →
    DSim (xs.foldl (fun d c => moveToEnd PCell.key d c ()) d) (xs.foldl dictMoveToEnd cd)
  | [], _, _, h => h
  | x :: xs, d, cd, h => dsim_foldl xs _ _ (dsim_step d cd x h)

theorem dictOf_keys (d : Py.KDict PCell Unit) : dictOf (d.map (·.1)) = d := by
  induction d with
  | nil => rfl
  | cons e d ih =>
    simp only [dictOf, List.map_cons] at ih ⊢
    rw [ih]

/-- the two loops of `Cell.order` with canonical bodies = the hand model (generation independent) -/
theorem order_shape (body : OState → Option OState) (step : Py.KDict PCell Unit → PCell → Option (Py.KDict PCell Unit))
    (hb : ∀ s, body s = orderStep s) (hs : ∀ d c, step d c = moveStep PCell.key () d c) (fuel : Nat) (p : PCell) :
    ((Py.while? (fun s : OState => decide (s.2.1 ≠ [])) body fuel ([], [(p, false)], [])).bind fun x =>
      (List.foldlM step [] x.1.reverse).bind fun r => some r) = (p.order fuel).map dictOf := by
  have hw := while_orderLoop body hb fuel [] [(p, false)] [] ∅ (setSim_empty _)
  simp only [List.reverse_cons, List.reverse_nil, List.nil_append] at hw
  have hstep : step = moveStep PCell.key () := by funext d c; exact hs d c
  unfold PCell.order
  rw [← hw, hstep]
  cases Py.while? (fun s : OState => decide (s.2.1 ≠ [])) body fuel ([], [(p, false)], []) with
  | none => rfl
  | some s =>
    simp only [Option.bind_some, Option.map_some, foldlM_moveStep, Option.bind_eq_bind, Option.pure_def]
    have hd := dsim_foldl s.1.reverse [] ([], ∅) ⟨rfl, by intro k; simp⟩
    rw [← hd.1, dictOf_keys]

/-- **`Cell.order` regenerated = the hand model**, for every cell object and every iteration budget: same decision to return
(also "budget exhausted"), and the returned dict has exactly the model's key list, in iteration order. -/
theorem src_order_eq (fuel : Nat) (p : PCell) : order fuel p [] = (p.order fuel).map dictOf := by
  unfold order
  simp only [foldlM_append]
  refine order_shape _ _ ?hb ?hs fuel p
  case hb => intro s; rfl
  case hs => intro d c; rfl

/-! ### `Cell.to_boc` -/

/-- **`Cell.to_boc` regenerated = the hand model** `PCell.toBoc`, for every cell object (any DAG behind it), every option set
(also invalid ones: cache bits without index, `flags ≠ 0`) and every iteration budget: same bytes, same decision to raise. -/
theorem src_toBoc_eq (fuel : Nat) (p : PCell) (o : Opts) :
    to_boc fuel p o.hasIdx o.hasCrc o.hasCache o.flags = p.toBoc fuel o := by
  unfold PCell.toBoc
  cases hm : p.order fuel with
  | none =>
    have h := src_order_eq fuel p
    rw [hm] at h
    unfold to_boc
    simp [h]
  | some cells =>
    have h := src_order_eq fuel p
    rw [hm] at h
    have hnd := order_nodup fuel p _ h
    have hnd' : (cells.map PCell.key).Nodup := by
      simpa [NodupKeys, dictOf, Function.comp_def] using hnd
    rw [to_boc_given fuel p _ _ _ _ cells h hnd']
    rfl

end TonVerif.Proofs.SrcBocEmit
