/-
Invertibility of the completion-tag padding (tvm.pdf 3.1.4): the data bytes of a cell together with its
bit-length descriptor `d2` determine the bit string, for every length.

  dataBytes bits = bitsToBytes (bits ++ 1 0…0)   (nothing appended when byte aligned)
  d2 (len)       = ⌊len/8⌋ + ⌈len/8⌉             (odd exactly when a completion tag was added)

Used by C11 (binding gives equal BIT STRINGS, not only equal padded bytes) and exported for C01
(`repr_injective`: the standard representation determines descriptors, bits, child depths and child hashes).
-/
import TonVerif.Proofs.Prune

namespace TonVerif.Proofs.Pad
open TonVerif TonVerif.Model TonVerif.Proofs.CellSpec TonVerif.Proofs.Prune

set_option linter.unusedSimpArgs false
set_option linter.unusedVariables false

/-! ### bytes -> bits -> bytes and back -/

theorem chunk8 (chunk : Bits) (h : chunk.length = 8) : byteToBits (natOfBits chunk) = chunk := by
  match chunk, h with
  | [a, b, c, d, e, f, g, i], _ =>
    cases a <;> cases b <;> cases c <;> cases d <;> cases e <;> cases f <;> cases g <;> cases i <;> decide

/-- a whole number of bytes of bits survives the round trip through `tobytes()` -/
theorem bytesToBits_bitsToBytes : ∀ (n : Nat) (xs : Bits), xs.length = 8 * n → bytesToBits (bitsToBytes xs) = xs := by
  intro n
  induction n with
  | zero =>
    intro xs h
    have : xs = [] := List.eq_nil_of_length_eq_zero (by omega)
    subst this
    simp [bitsToBytes, bytesToBits]
  | succ n ih =>
    intro xs h
    cases xs with
    | nil => simp at h
    | cons b0 rest =>
      have ht : ((b0 :: rest).take 8).length = 8 := by
        rw [List.length_take]; simp only [List.length_cons] at h ⊢; omega
      have hd : ((b0 :: rest).drop 8).length = 8 * n := by
        rw [List.length_drop]; simp only [List.length_cons] at h ⊢; omega
      rw [bitsToBytes]
      simp only [ht, Nat.sub_self, List.replicate_zero, List.append_nil]
      rw [Prune.bytesToBits_cons, chunk8 _ ht, ih _ hd, List.take_append_drop]

theorem padBits_length_mod (bits : Bits) : ∃ n, (Spec.padBits bits).length = 8 * n := by
  unfold Spec.padBits
  split
  · rename_i h; exact ⟨bits.length / 8, by omega⟩
  · rename_i h
    refine ⟨bits.length / 8 + 1, ?_⟩
    simp only [List.length_append, List.length_singleton, List.length_replicate]
    omega

/-- the padded bit string is recovered from the data bytes -/
theorem padBits_eq (bits : Bits) : Spec.padBits bits = bytesToBits (Spec.dataBytes bits) := by
  obtain ⟨n, hn⟩ := padBits_length_mod bits
  unfold Spec.dataBytes
  rw [bytesToBits_bitsToBytes n _ hn]

/-! ### removing the completion tag -/

theorem tag_tail_inj_rev : ∀ (k k' : Nat) (xs ys : Bits),
    List.replicate k false ++ true :: xs = List.replicate k' false ++ true :: ys → xs = ys := by
  intro k
  induction k with
  | zero =>
    intro k' xs ys h
    cases k' with
    | zero => simpa using h
    | succ k' => simp [List.replicate_succ] at h
  | succ k ih =>
    intro k' xs ys h
    cases k' with
    | zero => simp [List.replicate_succ] at h
    | succ k' =>
      simp only [List.replicate_succ, List.cons_append, List.cons.injEq, true_and] at h
      exact ih k' xs ys h

theorem tag_tail_inj (k k' : Nat) (xs ys : Bits)
    (h : xs ++ [true] ++ List.replicate k false = ys ++ [true] ++ List.replicate k' false) : xs = ys := by
  have := congrArg List.reverse h
  simp only [List.reverse_append, List.reverse_replicate, List.reverse_cons, List.reverse_nil, List.nil_append,
    List.singleton_append, List.append_assoc] at this
  have := tag_tail_inj_rev k k' _ _ this
  simpa using congrArg List.reverse this

/-- PADDING IS INVERTIBLE: two bit strings that are both byte aligned or both not, with the same padded form, are equal -/
theorem padBits_inj (a b : Bits) (hal : a.length % 8 = 0 ↔ b.length % 8 = 0)
    (h : Spec.padBits a = Spec.padBits b) : a = b := by
  unfold Spec.padBits at h
  by_cases ha : a.length % 8 = 0
  · have hb := hal.mp ha
    simpa [ha, hb] using h
  · have hb : ¬ b.length % 8 = 0 := fun hb => ha (hal.mpr hb)
    rw [if_neg ha, if_neg hb] at h
    exact tag_tail_inj _ _ a b h

theorem d2_aligned_iff (m n : Nat) (h : Spec.d2 m = Spec.d2 n) : (m % 8 = 0 ↔ n % 8 = 0) ∧ m / 8 = n / 8 := by
  unfold Spec.d2 at h
  omega

/-- DATA BYTES + BIT DESCRIPTOR DETERMINE THE BITS (every length; in particular 0..1023):
`get_data_bytes()` is injective among cells with the same `d2`. -/
theorem dataBytes_inj (a b : Bits) (hd2 : Spec.d2 a.length = Spec.d2 b.length)
    (h : Spec.dataBytes a = Spec.dataBytes b) : a = b := by
  apply padBits_inj a b (d2_aligned_iff _ _ hd2).1
  rw [padBits_eq, padBits_eq, h]

/-- the same about the model's `get_data_bytes` -/
theorem model_dataBytes_inj (a b : Bits) (hd2 : Spec.d2 a.length = Spec.d2 b.length)
    (h : Model.dataBytes a = Model.dataBytes b) : a = b := by
  rw [dataBytes_eq, dataBytes_eq] at h
  exact dataBytes_inj a b hd2 h

end TonVerif.Proofs.Pad
