/-
Helper definitions and lemmas for C06 / C07 on sequences of typed values, peeks, operation histories.
-/
import TonVerif.Proofs.Slice

namespace TonVerif.Proofs.Typed
open TonVerif TonVerif.Model TonVerif.Spec.Tlb TonVerif.Proofs.Bits TonVerif.Proofs.Builder
  TonVerif.Proofs.Slice
variable {R : Type} {α β : Type}

/-! ### sequences -/

/-- `b.store_X(v1).store_Y(v2)…` -/
def storeAll : List (TVal R) → BOp R
  | [] => BOp.skip
  | tv :: tvs => tv.store ⊳ storeAll tvs

/-- `[s.load_X(), s.load_Y(), …]` -/
def loadAll : List Kind → SOp R (List (TVal R))
  | [] => SOp.pure []
  | k :: ks => SOp.bind k.load (fun v => SOp.bind (loadAll ks) (fun vs => SOp.pure (v :: vs)))

def encAll : List (TVal R) → Bits
  | [] => []
  | tv :: tvs => enc tv ++ encAll tvs

def refsAll : List (TVal R) → List R
  | [] => []
  | tv :: tvs => refsOf tv ++ refsAll tvs

theorem storeAll_spec (tvs : List (TVal R)) :
    OpSpec (storeAll tvs) (∀ tv ∈ tvs, InRange tv) (encAll tvs) (refsAll tvs) := by
  induction tvs with
  | nil => exact opSpec_skip.congr (by simp) (fun _ => ⟨rfl, rfl⟩)
  | cons tv tvs ih =>
    exact (opSpec_andThen (store_spec tv) ih).congr (by simp) (fun _ => ⟨rfl, rfl⟩)

theorem loadAll_rt (tvs : List (TVal R)) (h : ∀ tv ∈ tvs, InRange tv ∧ WF tv) (kb : Bits) (kr : List R) :
    loadAll (tvs.map TVal.kind) ⟨encAll tvs ++ kb, refsAll tvs ++ kr⟩ = (⟨kb, kr⟩, some tvs) := by
  induction tvs with
  | nil => rfl
  | cons tv tvs ih =>
    have h1 := h tv (by simp)
    have h2 : ∀ t ∈ tvs, InRange t ∧ WF t := fun t ht => h t (by simp [ht])
    simp only [List.map_cons, loadAll, encAll, refsAll, List.append_assoc]
    rw [bind_some (load_rt tv h1.1 h1.2 _ _), bind_some (ih h2)]
    rfl

/-! ### peeks -/

theorem preloadUint_of_load {n : Nat} {s s' : Slice R} {v : Int} (h : SOp.loadUint n s = (s', some v)) :
    SOp.preloadUint n s = (s, some v) := by
  obtain ⟨bits, refs⟩ := s
  rw [loadUint_eq] at h
  split at h
  · simp at h
  · rename_i hc
    simp only [Prod.mk.injEq, Option.some.injEq] at h
    simp only [SOp.preloadUint, bind_eq, SOp.bind, SOp.peekBits, SOp.ofOption, SOp.ba2intU]
    rw [take_isEmpty_false (by omega) (by omega)]
    simp [h.2]

theorem preloadInt_of_load {n : Nat} {s s' : Slice R} {v : Int} (h : SOp.loadInt n s = (s', some v)) :
    SOp.preloadInt n s = (s, some v) := by
  obtain ⟨bits, refs⟩ := s
  rw [loadInt_eq] at h
  split at h
  · simp at h
  · simp only [Prod.mk.injEq] at h
    simp only [SOp.preloadInt, bind_eq, SOp.bind, SOp.peekBits, SOp.ofOption]
    simp [h.2]

theorem peekBits_of_load {n : Nat} {s s' : Slice R} {v : Bits} (h : SOp.loadBits n s = (s', some v)) :
    SOp.peekBits n s = (s, some v) := by
  obtain ⟨bits, refs⟩ := s
  rw [loadBits_eq] at h
  split at h
  · simp at h
  · simp only [Prod.mk.injEq, Option.some.injEq] at h
    simp [SOp.peekBits, h.2]

theorem preloadBytes_of_load {n : Nat} {s s' : Slice R} {v : Bytes} (h : SOp.loadBytes n s = (s', some v)) :
    SOp.preloadBytes n s = (s, some v) := by
  obtain ⟨bits, refs⟩ := s
  rw [loadBytes_eq] at h
  split at h
  · simp at h
  · simp only [Prod.mk.injEq, Option.some.injEq] at h
    simp [SOp.preloadBytes, SOp.bind, SOp.peekBits, SOp.pure, h.2]

theorem preloadBit_of_load {s s' : Slice R} {v : Bool} (h : SOp.loadBit s = (s', some v)) :
    SOp.preloadBit s = (s, some v) := by
  obtain ⟨bits, refs⟩ := s
  cases bits with
  | nil => simp [SOp.loadBit] at h
  | cons b rest => simp [SOp.loadBit] at h; simp [SOp.preloadBit, h.2]

theorem preloadRef_of_load {s s' : Slice R} {v : R} (h : SOp.loadRef s = (s', some v)) :
    SOp.preloadRef s = (s, some v) := by
  obtain ⟨bits, refs⟩ := s
  cases refs with
  | nil => simp [SOp.loadRef] at h
  | cons b rest => simp [SOp.loadRef] at h; simp [SOp.preloadRef, h.2]

theorem preloadMaybeRef_of_load {s s' : Slice R} {v : Option R} (h : SOp.loadMaybeRef s = (s', some v)) :
    SOp.preloadMaybeRef s = (s, some v) := by
  obtain ⟨bits, refs⟩ := s
  cases bits with
  | nil => simp [SOp.loadMaybeRef, SOp.bind, SOp.loadBit] at h
  | cons b rest =>
    cases b with
    | false =>
      simp [SOp.loadMaybeRef, SOp.bind, SOp.loadBit, SOp.pure] at h
      simp [SOp.preloadMaybeRef, SOp.bind, SOp.preloadBit, SOp.pure, h.2]
    | true =>
      cases refs with
      | nil => simp [SOp.loadMaybeRef, SOp.bind, SOp.loadBit, SOp.loadRef] at h
      | cons r rs =>
        simp [SOp.loadMaybeRef, SOp.bind, SOp.loadBit, SOp.loadRef, SOp.pure] at h
        obtain ⟨_, h2⟩ := h
        subst h2
        simp [SOp.preloadMaybeRef, SOp.bind, SOp.preloadBit, SOp.preloadRef, SOp.pure]

theorem preloadDict_of_load {s s' : Slice R} {v : Option R} (h : SOp.loadDict s = (s', some v)) :
    SOp.preloadDict s = (s, some v) := preloadMaybeRef_of_load h

theorem drop_take_eq (bits : Bits) (k m : Nat) : (bits.take (k + m)).drop k = (bits.drop k).take m := by
  rw [List.drop_take]; congr 1; omega

theorem preloadVarUint_of_load {k : Nat} {s s' : Slice R} {v : Int} (h : SOp.loadVarUint k s = (s', some v)) :
    SOp.preloadVarUint k s = (s, some v) := by
  obtain ⟨bits, refs⟩ := s
  simp only [SOp.loadVarUint, bind_eq, pure_eq] at h
  cases h1 : SOp.loadUint k ⟨bits, refs⟩ with
  | mk s1 r1 =>
    cases r1 with
    | none => rw [bind_none h1] at h; simp at h
    | some len =>
      rw [bind_some h1] at h
      have hp := preloadUint_of_load h1
      simp only [SOp.preloadVarUint, bind_eq, pure_eq]
      rw [bind_some hp]
      by_cases hl : len = 0
      · simp only [hl, if_true, SOp.pure, Prod.mk.injEq, Option.some.injEq] at h ⊢
        exact ⟨trivial, h.2⟩
      · simp only [hl, if_false] at h ⊢
        rw [loadUint_eq] at h1
        split at h1
        · simp at h1
        · simp only [Prod.mk.injEq] at h1
          rw [← h1.1, loadUint_eq] at h
          split at h
          · simp at h
          · rename_i hc2
            simp only [Prod.mk.injEq, Option.some.injEq] at h
            simp only [SOp.bind, SOp.peekBits, SOp.ofOption, SOp.ba2intU, drop_take_eq]
            rw [take_isEmpty_false (by omega) (by omega)]
            simp [h.2]

theorem preloadVarInt_of_load {k : Nat} {s s' : Slice R} {v : Int} (h : SOp.loadVarInt k s = (s', some v)) :
    SOp.preloadVarInt k s = (s, some v) := by
  obtain ⟨bits, refs⟩ := s
  simp only [SOp.loadVarInt, bind_eq, pure_eq] at h
  cases h1 : SOp.loadUint k ⟨bits, refs⟩ with
  | mk s1 r1 =>
    cases r1 with
    | none => rw [bind_none h1] at h; simp at h
    | some len =>
      rw [bind_some h1] at h
      have hp := preloadUint_of_load h1
      simp only [SOp.preloadVarInt, bind_eq, pure_eq]
      rw [bind_some hp]
      by_cases hl : len = 0
      · simp only [hl, if_true, SOp.pure, Prod.mk.injEq, Option.some.injEq] at h ⊢
        exact ⟨trivial, h.2⟩
      · simp only [hl, if_false] at h ⊢
        rw [loadUint_eq] at h1
        split at h1
        · simp at h1
        · simp only [Prod.mk.injEq] at h1
          rw [← h1.1, loadInt_eq] at h
          split at h
          · simp at h
          · simp only [Prod.mk.injEq] at h
            simp only [SOp.bind, SOp.peekBits, SOp.ofOption, drop_take_eq]
            simp [h.2]

theorem preloadString_of_load {n : Nat} {s s' : Slice R} {v : Bytes} (h : SOp.loadString n s = (s', some v)) :
    SOp.preloadString n s = (s, some v) := by
  unfold SOp.loadString at h
  unfold SOp.preloadString
  exact preloadBytes_of_load h

theorem bind_some_inv {f : SOp R α} {g : α → SOp R β} {s s' : Slice R} {b : β}
    (h : SOp.bind f g s = (s', some b)) : ∃ s1 a, f s = (s1, some a) ∧ g a s1 = (s', some b) := by
  unfold SOp.bind at h
  cases hf : f s with
  | mk s1 r =>
    rw [hf] at h
    cases r with
    | none => simp at h
    | some a => exact ⟨s1, a, rfl, h⟩

theorem preloadAddress_of_load {s s' : Slice R} {a : Addr} (h : SOp.loadAddress s = (s', some a)) :
    SOp.preloadAddress s = (s, some a) := by
  obtain ⟨bits, refs⟩ := s
  have h0 := h
  match bits with
  | [] => simp [SOp.loadAddress, SOp.bind, loadUint_eq] at h
  | [b0] => simp [SOp.loadAddress, SOp.bind, loadUint_eq] at h
  | b0 :: b1 :: rest =>
    have h2 : SOp.loadUint 2 ⟨b0 :: b1 :: rest, refs⟩ = (⟨rest, refs⟩, some (natOfBits [b0, b1] : Int)) := by
      rw [loadUint_eq]; simp
    have p2 := preloadUint_of_load h2
    simp only [SOp.loadAddress, bind_eq, pure_eq] at h
    rw [bind_some h2] at h
    unfold SOp.preloadAddress
    simp only [p2]
    cases b0 <;> cases b1
    · simp [natOfBits, SOp.pure] at h ⊢
      exact h.2
    · have e : ((natOfBits [false, true] : Nat) : Int) = 1 := rfl
      simp only [e, show ¬((1:Int) = 0) by decide, if_true, if_false] at h ⊢
      cases h9 : SOp.loadUint 9 ⟨rest, refs⟩ with
      | mk s2 r9 =>
        cases r9 with
        | none => rw [bind_none h9] at h; simp at h
        | some len =>
          rw [bind_some h9] at h
          rw [loadUint_eq] at h9
          split at h9
          · simp at h9
          · rename_i hc9
            simp only [Prod.mk.injEq, Option.some.injEq] at h9
            obtain ⟨hs2, hlen⟩ := h9
            have elb : ((false :: true :: rest).take 11).drop 2 = rest.take 9 := by simp
            have hne : (rest.take 9).isEmpty = false := take_isEmpty_false (by omega) (by omega)
            simp only [elb, hne, Bool.false_eq_true, if_false]
            generalize hL : natOfBits (List.take 9 rest) = L at *
            subst hlen; subst hs2
            by_cases hl0 : L = 0
            · subst hl0
              simp only [Int.natCast_zero, if_true, SOp.pure, Prod.mk.injEq, Option.some.injEq] at h ⊢
              exact ⟨trivial, h.2⟩
            · have hne0 : ¬ ((L : Nat) : Int) = 0 := by omega
              simp only [hne0, hl0, if_false, Int.toNat_natCast] at h ⊢
              cases hv : SOp.loadUint L ⟨List.drop 9 rest, refs⟩ with
              | mk s3 rv =>
                cases rv with
                | none => rw [bind_none hv] at h; simp at h
                | some v =>
                  rw [bind_some hv] at h
                  rw [loadUint_eq] at hv
                  split at hv
                  · simp at hv
                  · rename_i hcv
                    simp only [Prod.mk.injEq, Option.some.injEq] at hv
                    have eab : List.drop 11 (List.take (11 + L) (false :: true :: rest)) = List.take L (List.drop 9 rest) := by
                      rw [drop_take_eq]; simp
                    have hne2 : (List.take L (List.drop 9 rest)).isEmpty = false :=
                      take_isEmpty_false (by omega) (by omega)
                    simp only [eab, hne2, Bool.false_eq_true, if_false, hv.2]
                    simp only [SOp.pure, Prod.mk.injEq, Option.some.injEq] at h
                    rw [h.2]
    · -- tag 2: addr_std
      have e : ((natOfBits [true, false] : Nat) : Int) = 2 := rfl
      simp only [e, show ¬((2:Int) = 0) by decide, show ¬((2:Int) = 1) by decide, if_true, if_false,
        show ((2:Int) != 2) = false by decide, Bool.false_eq_true] at h ⊢
      obtain ⟨s1, any, hb, h⟩ := bind_some_inv h
      cases rest with
      | nil => simp [SOp.loadBit] at hb
      | cons b2 rest2 =>
        simp only [SOp.loadBit, Prod.mk.injEq, Option.some.injEq] at hb
        obtain ⟨rfl, rfl⟩ := hb
        have p3 : SOp.preloadUint 3 ⟨true :: false :: b2 :: rest2, refs⟩
            = (⟨true :: false :: b2 :: rest2, refs⟩, some (natOfBits [true, false, b2] : Int)) := by
          simp [SOp.preloadUint, SOp.bind, SOp.peekBits, SOp.ofOption, SOp.ba2intU]
        simp only [p3]
        cases b2 with
        | true =>
          have e3 : ((natOfBits [true, false, true] : Nat) : Int) = 5 := rfl
          simp only [e3, show (((5:Int) % 2) != 0) = true by decide, if_true, h0]
        | false =>
          have e3 : ((natOfBits [true, false, false] : Nat) : Int) = 4 := rfl
          simp only [e3, show (((4:Int) % 2) != 0) = false by decide, Bool.false_eq_true, if_false]
          obtain ⟨s2, ac, hac, h⟩ := bind_some_inv h
          simp only [Bool.false_eq_true, if_false, SOp.pure, Prod.mk.injEq, Option.some.injEq] at hac
          obtain ⟨rfl, rfl⟩ := hac
          obtain ⟨s3, wc, hwc, h⟩ := bind_some_inv h
          obtain ⟨s4, hp, hhp, h⟩ := bind_some_inv h
          rw [loadInt_eq] at hwc
          split at hwc
          · simp at hwc
          · rename_i c1
            simp only [Prod.mk.injEq] at hwc
            obtain ⟨rfl, hwc⟩ := hwc
            rw [loadBytes_eq] at hhp
            split at hhp
            · simp at hhp
            · rename_i c2
              simp only [Prod.mk.injEq, Option.some.injEq] at hhp
              obtain ⟨rfl, rfl⟩ := hhp
              simp only [SOp.pure, Prod.mk.injEq, Option.some.injEq] at h
              have e1 : List.drop 3 (List.take 11 (List.take 267 (true :: false :: false :: rest2))) = List.take 8 rest2 := by
                simp [List.take_take]
              have e2 : List.drop 11 (List.take 267 (true :: false :: false :: rest2)) = List.take (32 * 8) (List.drop 8 rest2) := by
                rw [show 267 = 11 + 256 by rfl, drop_take_eq]; simp
              simp only [e1, e2, hwc]
              rw [← h.2]
    · -- tag 3: not supported, load fails
      have e : ((natOfBits [true, true] : Nat) : Int) = 3 := rfl
      simp only [e, show ¬((3:Int) = 0) by decide, show ¬((3:Int) = 1) by decide, show ¬((3:Int) = 2) by decide,
        if_false] at h
      obtain ⟨s1, any, hb, h⟩ := bind_some_inv h
      obtain ⟨s2, ac, hac, h⟩ := bind_some_inv h
      simp [SOp.fail] at h
theorem map_some_inv {f : SOp R α} {g : α → β} {s s' : Slice R} {v : β} (h : f.map g s = (s', some v)) :
    ∃ a, f s = (s', some a) ∧ g a = v := by
  unfold SOp.map at h
  cases hf : f s with
  | mk s1 r =>
    rw [hf] at h
    cases r with
    | none => simp at h
    | some a => simp at h; exact ⟨a, by rw [h.1], h.2⟩

theorem map_of_some {f : SOp R α} (g : α → β) {s s' : Slice R} {a : α} (h : f s = (s', some a)) :
    f.map g s = (s', some (g a)) := by
  simp [SOp.map, h]

/-! ### operation histories -/

theorem inv_snake_tail (mk : Bits → List R → Option R) (r1 r : Builder R × Bool) (h1 : Inv r1.1) :
    Inv (if (!r1.2) = true then r1 else if (!r.2) = true then (r1.1, false) else
      match mk r.1.bits r.1.refs with
      | none => (r1.1, false)
      | some c => BOp.storeRef c r1.1).1 := by
  by_cases c1 : (!r1.2) = true
  · rw [if_pos c1]; exact h1
  · rw [if_neg c1]
    by_cases c2 : (!r.2) = true
    · rw [if_pos c2]; exact h1
    · rw [if_neg c2]
      cases mk r.1.bits r.1.refs with
      | none => exact h1
      | some c => exact safe_storeRef _ _ h1

theorem safe_storeSnakeFuel (mk : Bits → List R → Option R) (fuel : Nat) (value : Bytes) :
    Safe (BOp.storeSnakeFuel mk fuel value) := by
  intro b hb
  cases fuel with
  | zero => exact hb
  | succ fuel =>
    unfold BOp.storeSnakeFuel
    dsimp only
    split
    · exact hb
    · split
      · exact safe_extend _ b hb
      · have h1 := safe_extend (R := R) (bytesToBits (List.take ((1023 - b.bits.length) / 8) value)) b hb
        simp only [BOp.storeBytes]
        exact inv_snake_tail mk _ _ h1

theorem safe_run (op : Op R) : Safe op.run := by
  cases op with
  | val tv => exact (store_spec tv).2
  | cell b r => exact safe_storeCell b r
  | slice b r => exact (opSpec_storeSlice b r).2
  | snake mk bs => exact safe_storeSnakeFuel mk _ bs

/-- the builder after a history of operations (each may have returned normally or raised) -/
def runAll (ops : List (Op R)) (b : Builder R) : Builder R := ops.foldl (fun b op => (op.run b).1) b

theorem inv_runAll (ops : List (Op R)) (b : Builder R) (hb : Inv b) : Inv (runAll ops b) := by
  induction ops generalizing b with
  | nil => exact hb
  | cons op ops ih => exact ih _ (safe_run op b hb)

end TonVerif.Proofs.Typed
