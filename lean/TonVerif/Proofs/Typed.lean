/-
Helper definitions and lemmas for C06 / C07 on sequences of typed values, peeks, operation histories.
-/
import TonVerif.Proofs.Slice

namespace TonVerif.Proofs.Typed
open TonVerif TonVerif.Model TonVerif.Spec.Tlb TonVerif.Proofs.Bits TonVerif.Proofs.Builder
  TonVerif.Proofs.Slice
variable {R : Type} {α β : Type}

/-! ### sequences -/

/-- `b.store_X(v1).store_Y(v2)…` -/
def storeAll : List (TVal R) → BOp R
  | [] => BOp.skip
  | tv :: tvs => tv.store ⊳ storeAll tvs

/-- `[s.load_X(), s.load_Y(), …]` -/
def loadAll : List Kind → SOp R (List (TVal R))
  | [] => SOp.pure []
  | k :: ks => SOp.bind k.load (fun v => SOp.bind (loadAll ks) (fun vs => SOp.pure (v :: vs)))

def encAll : List (TVal R) → Bits
  | [] => []
  | tv :: tvs => enc tv ++ encAll tvs

def refsAll : List (TVal R) → List R
  | [] => []
  | tv :: tvs => refsOf tv ++ refsAll tvs

theorem storeAll_spec (tvs : List (TVal R)) :
    OpSpec (storeAll tvs) (∀ tv ∈ tvs, InRange tv) (encAll tvs) (refsAll tvs) := by
  induction tvs with
  | nil => exact opSpec_skip.congr (by simp) (fun _ => ⟨rfl, rfl⟩)
  | cons tv tvs ih =>
    exact (opSpec_andThen (store_spec tv) ih).congr (by simp) (fun _ => ⟨rfl, rfl⟩)

theorem loadAll_rt (tvs : List (TVal R)) (h : ∀ tv ∈ tvs, InRange tv ∧ WF tv) (kb : Bits) (kr : List R) :
    loadAll (tvs.map TVal.kind) ⟨encAll tvs ++ kb, refsAll tvs ++ kr⟩ = (⟨kb, kr⟩, some tvs) := by
  induction tvs with
  | nil => rfl
  | cons tv tvs ih =>
    have h1 := h tv (by simp)
    have h2 : ∀ t ∈ tvs, InRange t ∧ WF t := fun t ht => h t (by simp [ht])
    simp only [List.map_cons, loadAll, encAll, refsAll, List.append_assoc]
    rw [bind_some (load_rt tv h1.1 h1.2 _ _), bind_some (ih h2)]
    rfl

/-! ### peeks -/

theorem preloadUint_of_load {n : Nat} {s s' : Slice R} {v : Int} (h : SOp.loadUint n s = (s', some v)) :
    SOp.preloadUint n s = (s, some v) := by
  obtain ⟨bits, refs⟩ := s
  rw [loadUint_eq] at h
  split at h
  · simp at h
  · rename_i hc
    simp only [Prod.mk.injEq, Option.some.injEq] at h
    simp only [SOp.preloadUint, bind_eq, SOp.bind, SOp.peekBits, SOp.ofOption, SOp.ba2intU]
    rw [take_isEmpty_false (by omega) (by omega)]
    simp [h.2]

theorem preloadInt_of_load {n : Nat} {s s' : Slice R} {v : Int} (h : SOp.loadInt n s = (s', some v)) :
    SOp.preloadInt n s = (s, some v) := by
  obtain ⟨bits, refs⟩ := s
  rw [loadInt_eq] at h
  split at h
  · simp at h
  · simp only [Prod.mk.injEq] at h
    simp only [SOp.preloadInt, bind_eq, SOp.bind, SOp.peekBits, SOp.ofOption]
    simp [h.2]

theorem peekBits_of_load {n : Nat} {s s' : Slice R} {v : Bits} (h : SOp.loadBits n s = (s', some v)) :
    SOp.peekBits n s = (s, some v) := by
  obtain ⟨bits, refs⟩ := s
  rw [loadBits_eq] at h
  split at h
  · simp at h
  · simp only [Prod.mk.injEq, Option.some.injEq] at h
    simp [SOp.peekBits, h.2]

theorem preloadBytes_of_load {n : Nat} {s s' : Slice R} {v : Bytes} (h : SOp.loadBytes n s = (s', some v)) :
    SOp.preloadBytes n s = (s, some v) := by
  obtain ⟨bits, refs⟩ := s
  rw [loadBytes_eq] at h
  split at h
  · simp at h
  · simp only [Prod.mk.injEq, Option.some.injEq] at h
    simp [SOp.preloadBytes, SOp.bind, SOp.peekBits, SOp.pure, h.2]

theorem preloadBit_of_load {s s' : Slice R} {v : Bool} (h : SOp.loadBit s = (s', some v)) :
    SOp.preloadBit s = (s, some v) := by
  obtain ⟨bits, refs⟩ := s
  cases bits with
  | nil => simp [SOp.loadBit] at h
  | cons b rest => simp [SOp.loadBit] at h; simp [SOp.preloadBit, h.2]

theorem preloadRef_of_load {s s' : Slice R} {v : R} (h : SOp.loadRef s = (s', some v)) :
    SOp.preloadRef s = (s, some v) := by
  obtain ⟨bits, refs⟩ := s
  cases refs with
  | nil => simp [SOp.loadRef] at h
  | cons b rest => simp [SOp.loadRef] at h; simp [SOp.preloadRef, h.2]

theorem preloadMaybeRef_of_load {s s' : Slice R} {v : Option R} (h : SOp.loadMaybeRef s = (s', some v)) :
    SOp.preloadMaybeRef s = (s, some v) := by
  obtain ⟨bits, refs⟩ := s
  cases bits with
  | nil => simp [SOp.loadMaybeRef, SOp.bind, SOp.loadBit] at h
  | cons b rest =>
    cases b with
    | false =>
      simp [SOp.loadMaybeRef, SOp.bind, SOp.loadBit, SOp.pure] at h
      simp [SOp.preloadMaybeRef, SOp.bind, SOp.preloadBit, SOp.pure, h.2]
    | true =>
      cases refs with
      | nil => simp [SOp.loadMaybeRef, SOp.bind, SOp.loadBit, SOp.loadRef] at h
      | cons r rs =>
        simp [SOp.loadMaybeRef, SOp.bind, SOp.loadBit, SOp.loadRef, SOp.pure] at h
        obtain ⟨_, h2⟩ := h
        subst h2
        simp [SOp.preloadMaybeRef, SOp.bind, SOp.preloadBit, SOp.preloadRef, SOp.pure]

theorem preloadDict_of_load {s s' : Slice R} {v : Option R} (h : SOp.loadDict s = (s', some v)) :
    SOp.preloadDict s = (s, some v) := preloadMaybeRef_of_load h

theorem drop_take_eq (bits : Bits) (k m : Nat) : (bits.take (k + m)).drop k = (bits.drop k).take m := by
  rw [List.drop_take]; congr 1; omega

theorem preloadVarUint_of_load {k : Nat} {s s' : Slice R} {v : Int} (h : SOp.loadVarUint k s = (s', some v)) :
    SOp.preloadVarUint k s = (s, some v) := by
  obtain ⟨bits, refs⟩ := s
  simp only [SOp.loadVarUint, bind_eq, pure_eq] at h
  cases h1 : SOp.loadUint k ⟨bits, refs⟩ with
  | mk s1 r1 =>
    cases r1 with
    | none => rw [bind_none h1] at h; simp at h
    | some len =>
      rw [bind_some h1] at h
      have hp := preloadUint_of_load h1
      simp only [SOp.preloadVarUint, bind_eq, pure_eq]
      rw [bind_some hp]
      by_cases hl : len = 0
      · simp only [hl, if_true, SOp.pure, Prod.mk.injEq, Option.some.injEq] at h ⊢
        exact ⟨trivial, h.2⟩
      · simp only [hl, if_false] at h ⊢
        rw [loadUint_eq] at h1
        split at h1
        · simp at h1
        · simp only [Prod.mk.injEq] at h1
          rw [← h1.1, loadUint_eq] at h
          split at h
          · simp at h
          · rename_i hc2
            simp only [Prod.mk.injEq, Option.some.injEq] at h
            simp only [SOp.bind, SOp.peekBits, SOp.ofOption, SOp.ba2intU, drop_take_eq]
            rw [take_isEmpty_false (by omega) (by omega)]
            simp [h.2]

theorem preloadVarInt_of_load {k : Nat} {s s' : Slice R} {v : Int} (h : SOp.loadVarInt k s = (s', some v)) :
    SOp.preloadVarInt k s = (s, some v) := by
  obtain ⟨bits, refs⟩ := s
  simp only [SOp.loadVarInt, bind_eq, pure_eq] at h
  cases h1 : SOp.loadUint k ⟨bits, refs⟩ with
  | mk s1 r1 =>
    cases r1 with
    | none => rw [bind_none h1] at h; simp at h
    | some len =>
      rw [bind_some h1] at h
      have hp := preloadUint_of_load h1
      simp only [SOp.preloadVarInt, bind_eq, pure_eq]
      rw [bind_some hp]
      by_cases hl : len = 0
      · simp only [hl, if_true, SOp.pure, Prod.mk.injEq, Option.some.injEq] at h ⊢
        exact ⟨trivial, h.2⟩
      · simp only [hl, if_false] at h ⊢
        rw [loadUint_eq] at h1
        split at h1
        · simp at h1
        · simp only [Prod.mk.injEq] at h1
          rw [← h1.1, loadInt_eq] at h
          split at h
          · simp at h
          · simp only [Prod.mk.injEq] at h
            simp only [SOp.bind, SOp.peekBits, SOp.ofOption, drop_take_eq]
            simp [h.2]

theorem preloadString_of_load {n : Nat} {s s' : Slice R} {v : Bytes} (h : SOp.loadString n s = (s', some v)) :
    SOp.preloadString n s = (s, some v) := by
  unfold SOp.loadString at h
  unfold SOp.preloadString
  exact preloadBytes_of_load h

theorem map_some_inv {f : SOp R α} {g : α → β} {s s' : Slice R} {v : β} (h : f.map g s = (s', some v)) :
    ∃ a, f s = (s', some a) ∧ g a = v := by
  unfold SOp.map at h
  cases hf : f s with
  | mk s1 r =>
    rw [hf] at h
    cases r with
    | none => simp at h
    | some a => simp at h; exact ⟨a, by rw [h.1], h.2⟩

theorem map_of_some {f : SOp R α} (g : α → β) {s s' : Slice R} {a : α} (h : f s = (s', some a)) :
    f.map g s = (s', some (g a)) := by
  simp [SOp.map, h]

/-! ### operation histories -/

theorem inv_snake_tail (mk : Bits → List R → Option R) (r1 r : Builder R × Bool) (h1 : Inv r1.1) :
    Inv (if (!r1.2) = true then r1 else if (!r.2) = true then (r1.1, false) else
      match mk r.1.bits r.1.refs with
      | none => (r1.1, false)
      | some c => BOp.storeRef c r1.1).1 := by
  by_cases c1 : (!r1.2) = true
  · rw [if_pos c1]; exact h1
  · rw [if_neg c1]
    by_cases c2 : (!r.2) = true
    · rw [if_pos c2]; exact h1
    · rw [if_neg c2]
      cases mk r.1.bits r.1.refs with
      | none => exact h1
      | some c => exact safe_storeRef _ _ h1

theorem safe_storeSnakeFuel (mk : Bits → List R → Option R) (fuel : Nat) (value : Bytes) :
    Safe (BOp.storeSnakeFuel mk fuel value) := by
  intro b hb
  cases fuel with
  | zero => exact hb
  | succ fuel =>
    unfold BOp.storeSnakeFuel
    dsimp only
    split
    · exact hb
    · split
      · exact safe_extend _ b hb
      · have h1 := safe_extend (R := R) (bytesToBits (List.take ((1023 - b.bits.length) / 8) value)) b hb
        simp only [BOp.storeBytes]
        exact inv_snake_tail mk _ _ h1

theorem safe_run (op : Op R) : Safe op.run := by
  cases op with
  | val tv => exact (store_spec tv).2
  | cell b r => exact safe_storeCell b r
  | slice b r => exact (opSpec_storeSlice b r).2
  | snake mk bs => exact safe_storeSnakeFuel mk _ bs

/-- the builder after a history of operations (each may have returned normally or raised) -/
def runAll (ops : List (Op R)) (b : Builder R) : Builder R := ops.foldl (fun b op => (op.run b).1) b

theorem inv_runAll (ops : List (Op R)) (b : Builder R) (hb : Inv b) : Inv (runAll ops b) := by
  induction ops generalizing b with
  | nil => exact hb
  | cons op ops ih => exact ih _ (safe_run op b hb)

end TonVerif.Proofs.Typed
