/-
From cells to records: a constructed cell's descriptor/data bytes form a well-formed record (`cell_arec_ok`), the
`indexes[ref]` lookups of `Cell.serialize` along a valid order give strictly forward indices (`flatten_order`), hence
`Cell.to_boc` as a whole is accepted by the byte-level strict reader (`toBoc_conforms`).
-/
import TonVerif.Proofs.BocEmit
import TonVerif.Proofs.BocOrder
namespace TonVerif.Proofs.BocEmit
open TonVerif TonVerif.Model TonVerif.Spec.Boc TonVerif.Proofs.BocOrder

/-- `{j: i for i, j in enumerate(cells)}` folded from index `k` on top of `m` -/
theorem indexFold_not_mem (cells : List PCell) : ∀ (k : Nat) (m : Std.HashMap Nat Nat) (key : Nat),
    key ∉ cells.map PCell.key →
    ((cells.zipIdx k).foldl (fun m (ci : PCell × Nat) => m.insert ci.1.key ci.2) m)[key]? = m[key]? := by
  induction cells with
  | nil => intro k m key _; simp
  | cons c cs ih =>
    intro k m key h
    simp only [List.map_cons, List.mem_cons, not_or] at h
    simp only [List.zipIdx_cons, List.foldl_cons]
    rw [ih (k + 1) _ key h.2, Std.HashMap.getElem?_insert]
    have : (c.key == key) = false := by simp; exact fun e => h.1 e.symm
    simp [this]

theorem indexFold_get (cells : List PCell) : ∀ (k : Nat) (m : Std.HashMap Nat Nat),
    (cells.map PCell.key).Nodup → ∀ key, key ∈ cells.map PCell.key →
    ((cells.zipIdx k).foldl (fun m (ci : PCell × Nat) => m.insert ci.1.key ci.2) m)[key]? =
      some (k + (cells.map PCell.key).idxOf key) := by
  induction cells with
  | nil => intro k m _ key h; simp at h
  | cons c cs ih =>
    intro k m nd key h
    simp only [List.map_cons, List.nodup_cons] at nd
    simp only [List.zipIdx_cons, List.foldl_cons, List.map_cons]
    by_cases hk : c.key = key
    · subst hk
      rw [indexFold_not_mem cs (k + 1) _ _ nd.1, Std.HashMap.getElem?_insert]
      simp
    · have hmem : key ∈ cs.map PCell.key := by
        simp only [List.map_cons, List.mem_cons] at h
        rcases h with h | h
        · exact absurd h.symm hk
        · exact h
      have hb : (c.key == key) = false := by simp [hk]
      rw [ih (k + 1) _ nd.2 key hmem, List.idxOf_cons, hb]
      simp; omega

/-- position of a key in the order -/
def posOf (ord : List PCell) (k : Nat) : Nat := (ord.map PCell.key).idxOf k

theorem indexMap_get (ord : List PCell) (nd : (ord.map PCell.key).Nodup) (key : Nat) (h : key ∈ ord.map PCell.key) :
    (indexMap ord)[key]? = some (posOf ord key) := by
  unfold indexMap posOf
  rw [indexFold_get ord 0 ∅ nd key h]
  simp


/-- first descriptor byte -/
def cellD1 (nrefs : Nat) (exotic : Bool) (mask : Nat) : Nat := nrefs + 8 * (if exotic then 1 else 0) + 32 * mask

/-- what the emitter needs of a constructed cell (all true of cells built from well-formed trees whose exotic cells
carry their type byte) -/
structure CellOK (c : PCell) : Prop where
  nrefs : c.info.nrefs = c.refs.length
  refs_le : c.refs.length ≤ 4
  bits_le : c.info.bits.length ≤ 1023
  mask_le : c.info.mask ≤ 7
  tagged : c.info.kind ≠ kOrdinary → 8 ≤ c.info.bits.length

/-- the record of a cell once its references have been replaced by indices `rs` -/
def cellARec (c : PCell) (rs : List Nat) : ARec :=
  ⟨cellD1 c.info.nrefs (c.info.kind != kOrdinary) c.info.mask, cellD2 c.info.bits.length, c.data, rs⟩

theorem cell_desc (c : PCell) (ok : CellOK c) :
    c.desc = some [cellD1 c.info.nrefs (c.info.kind != kOrdinary) c.info.mask, cellD2 c.info.bits.length] := by
  have h1 : cellD1 c.info.nrefs (c.info.kind != kOrdinary) c.info.mask < 256 := by
    have := ok.nrefs; have := ok.refs_le; have := ok.mask_le
    unfold cellD1; split <;> omega
  have h2 : cellD2 c.info.bits.length < 256 := by
    have := ok.bits_le
    unfold cellD2; split <;> omega
  unfold PCell.desc descriptors
  rw [show c.info.nrefs + 8 * (if (c.info.kind != kOrdinary) = true then 1 else 0) + 32 * c.info.mask =
    cellD1 c.info.nrefs (c.info.kind != kOrdinary) c.info.mask from rfl,
    show c.info.bits.length / 8 * 2 + (if (c.info.bits.length % 8 != 0) = true then 1 else 0) = cellD2 c.info.bits.length from rfl,
    CellSpec.toBytesBE_one _ h1, CellSpec.toBytesBE_one _ h2]
  rfl

theorem cell_arec_ok (c : PCell) (ok : CellOK c) (n : Nat) (rs : List Nat) (hlen : rs.length = c.refs.length)
    (hlt : ∀ j ∈ rs, j < n) : (cellARec c rs).OK n := by
  obtain ⟨d1, d2, d3, d4⟩ := data_ok c.info.bits
  have hn := ok.nrefs; have hr := ok.refs_le; have hm := ok.mask_le; have hb := ok.bits_le
  refine ⟨?_, ?_, ?_, by simp [cellARec]; omega, ?_, d1, d2, d3, ?_, hlt⟩
  · simp only [cellARec, cellD1]; split <;> omega
  · simp only [cellARec, cellD2]; split <;> omega
  · simp only [cellARec, cellD1]; split <;> omega
  · simp only [cellARec, cellD1]; split <;> omega
  · intro he
    show 8 ≤ (decodeBits (cellD2 c.info.bits.length) (dataBytes c.info.bits)).length
    rw [d4]
    apply ok.tagged
    intro hk
    simp only [cellARec, cellD1, hk, bne_self_eq_false, Bool.false_eq_true, if_false] at he
    omega

theorem cell_toSRec (c : PCell) (rs : List Nat) :
    (cellARec c rs).toSRec = ⟨cellD1 c.info.nrefs (c.info.kind != kOrdinary) c.info.mask, c.info.bits, rs⟩ := by
  simp only [ARec.toSRec, cellARec, PCell.data, (data_ok c.info.bits).2.2.2]

/-- the records of the cells of an order: references replaced by positions -/
def orderRecs (ord : List PCell) : List ARec :=
  ord.map (fun c => cellARec c (c.refs.map (fun r => posOf ord r.key)))

theorem idxOf_of_getElem? (l : List Nat) (nd : l.Nodup) (j : Nat) (x : Nat) (h : l[j]? = some x) : l.idxOf x = j := by
  induction l generalizing j with
  | nil => simp at h
  | cons a l ih =>
    rw [List.nodup_cons] at nd
    cases j with
    | zero => simp at h; subst h; simp
    | succ j =>
      simp at h
      have hx : x ∈ l := List.mem_of_getElem? h
      have hne : (a == x) = false := by
        simp; intro e; subst e; exact nd.1 hx
      rw [List.idxOf_cons, hne]
      simp [ih nd.2 j h]

theorem mapM_eq_map {α β : Type} (f : α → Option β) (g : α → β) : ∀ (l : List α), (∀ x ∈ l, f x = some (g x)) →
    l.mapM f = some (l.map g)
  | [], _ => by simp
  | x :: xs, h => by
    have ih := mapM_eq_map f g xs (fun y hy => h y (by simp [hy]))
    simp [List.mapM_cons, h x (by simp), ih]

/-- along a valid order, `Cell.serialize`'s index lookups succeed and produce well-formed, strictly forward records -/
theorem flatten_order (root : PCell) (ord : List PCell) (vo : ValidOrder root ord) (ok : ∀ c ∈ ord, CellOK c) :
    flattenCells (indexMap ord) ord = some ((orderRecs ord).map ARec.toRec) ∧
    (∀ a ∈ orderRecs ord, a.OK (orderRecs ord).length) ∧ Forward (orderRecs ord) := by
  have hpos : ∀ (i : Nat) (c : PCell), ord[i]? = some c → ∀ r ∈ c.refs,
      r.key ∈ ord.map PCell.key ∧ i < posOf ord r.key ∧ posOf ord r.key < ord.length := by
    intro i c hc r hr
    obtain ⟨j, hij, hj⟩ := vo.forward i c hc r hr
    have hj' : (ord.map PCell.key)[j]? = some r.key := by simpa using hj
    have := idxOf_of_getElem? _ vo.nodup j _ hj'
    have hlt : j < (ord.map PCell.key).length := by
      apply Nat.lt_of_not_le; intro hle
      rw [List.getElem?_eq_none hle] at hj'; cases hj'
    refine ⟨List.mem_of_getElem? hj', ?_, ?_⟩
    · unfold posOf; omega
    · unfold posOf; simp at hlt; omega
  refine ⟨?_, ?_, ?_⟩
  · unfold flattenCells orderRecs
    rw [List.map_map]
    apply mapM_eq_map
    intro c hc
    obtain ⟨i, hi⟩ := List.mem_iff_getElem?.1 hc
    have hrefs : c.refs.mapM (fun r => (indexMap ord)[r.key]?) = some (c.refs.map (fun r => posOf ord r.key)) := by
      apply mapM_eq_map
      intro r hr
      exact indexMap_get ord vo.nodup r.key (hpos i c hi r hr).1
    simp [cell_desc c (ok c hc), hrefs, ARec.toRec, cellARec]
  · intro a ha
    unfold orderRecs at ha ⊢
    obtain ⟨c, hc, rfl⟩ := List.mem_map.1 ha
    obtain ⟨i, hi⟩ := List.mem_iff_getElem?.1 hc
    apply cell_arec_ok c (ok c hc)
    · simp
    · intro j hj
      obtain ⟨r, hr, rfl⟩ := List.mem_map.1 hj
      simpa using (hpos i c hi r hr).2.2
  · intro i a hia j hj
    unfold orderRecs at hia
    simp only [List.getElem?_map, Option.map_eq_some_iff] at hia
    obtain ⟨c, hc, rfl⟩ := hia
    simp only [cellARec, List.mem_map] at hj
    obtain ⟨r, hr, rfl⟩ := hj
    exact (hpos i c hc r hr).2.1

/-- the record the strict reader recovers for a cell of the order -/
def cellSRec (ord : List PCell) (c : PCell) : SRec :=
  ⟨cellD1 c.info.nrefs (c.info.kind != kOrdinary) c.info.mask, c.info.bits, c.refs.map (fun r => posOf ord r.key)⟩

/-- **`Cell.to_boc` end to end, byte level**: whenever the model of `Cell.order` returns (it does, with the driver's fuel:
`order_fuel_suffices`), under the local no-collision hypothesis and for cells within the format's limits, `to_boc` succeeds
for every valid option set and the strict reader's byte-level layer decodes the bytes to: one record per distinct cell in
the order, carrying that cell's d1 (refs count, exotic flag, level mask), its exact data bits, and for each reference the
position of the referenced cell — strictly greater than the cell's own position — and the single root 0. -/
theorem toBoc_conforms (root : PCell) (fuel : Nat) (ord : List PCell) (o : Opts) (hv : o.valid = true)
    (nc : NoCollision root) (ok : ∀ c ∈ subcells root, CellOK c) (h : root.order fuel = some ord)
    (hn : ord.length < 2 ^ 32) (hP : (payloadOf (sizeW (orderRecs ord)) (orderRecs ord)).length * 2 < 2 ^ 64) :
    ValidOrder root ord ∧ ∃ bs, root.toBoc fuel o = some bs ∧ strictFlat bs = some ⟨ord.map (cellSRec ord), [0]⟩ := by
  have vo := order_valid root fuel ord nc h
  refine ⟨vo, ?_⟩
  have okord : ∀ c ∈ ord, CellOK c := fun c hc => ok c (vo.sound c hc)
  obtain ⟨hfl, hok, hfw⟩ := flatten_order root ord vo okord
  have hlen : (orderRecs ord).length = ord.length := by simp [orderRecs]
  have h1 : 1 ≤ (orderRecs ord).length := by
    rw [hlen]
    have := vo.root_first
    cases ord with
    | nil => simp at this
    | cons a l => simp
  obtain ⟨bs, he, _, hs⟩ := strictFlat_emit o (orderRecs ord) hv h1 (by rw [hlen]; exact hn) hP hok hfw
  refine ⟨bs, ?_, ?_⟩
  · simp [PCell.toBoc, h, hfl, he]
  · rw [hs]
    simp [orderRecs, cellSRec, cell_toSRec, Function.comp_def]

/-! ### cells built from trees -/

theorem toBytesBE_one_lt (x : Nat) (bs : Bytes) (h : toBytesBE? 1 x = some bs) : x < 256 := by
  unfold toBytesBE? at h
  split at h
  · simpa using ‹x < 256 ^ 1›
  · cases h

theorem descriptors_limits (nrefs : Nat) (e : Bool) (len mask : Nat) (bs : Bytes)
    (h : descriptors nrefs e len mask = some bs) : mask ≤ 7 ∧ len ≤ 1023 := by
  unfold descriptors at h
  simp only [Option.bind_eq_bind, Option.bind_eq_some_iff] at h
  obtain ⟨d1, h1, d2, h2, _⟩ := h
  have := toBytesBE_one_lt _ _ h1
  have := toBytesBE_one_lt _ _ h2
  constructor
  · omega
  · split at this <;> omega

/-- every cell the constructor accepts is within the descriptor limits -/
theorem construct_limits (H : Bytes → Bytes) (kind : Int) (bits : Bits) (kis : List CellInfo) (i : CellInfo)
    (h : construct H kind bits kis = some i) :
    i.nrefs = kis.length ∧ i.bits = bits ∧ i.kind = kind ∧ i.bits.length ≤ 1023 ∧ i.mask ≤ 7 := by
  unfold construct at h
  simp only [Option.bind_eq_bind, Option.bind_eq_some_iff] at h
  obtain ⟨mask, _, st, _, d, hd, l, _, hi⟩ := h
  cases hi
  obtain ⟨hm, hl⟩ := descriptors_limits _ _ _ _ _ hd
  exact ⟨rfl, rfl, rfl, hl, hm⟩

mutual
  /-- input domain of the format: at most 4 references; an exotic cell's data starts with (at least) its type byte -/
  def Shape : Cell → Prop
    | .mk kind bits refs => refs.length ≤ 4 ∧ (kind ≠ kOrdinary → 8 ≤ bits.length) ∧ Shapes refs
  def Shapes : List Cell → Prop
    | [] => True
    | c :: cs => Shape c ∧ Shapes cs
end

mutual
  theorem build_ok (H : Bytes → Bytes) : ∀ (t : Cell) (p : PCell), Shape t → Cell.build H t = some p →
      ∀ c ∈ subcells p, CellOK c
    | .mk kind bits refs, p, sh, hb => by
      rw [Shape] at sh
      rw [Cell.build] at hb
      simp only [Option.bind_eq_bind, Option.bind_eq_some_iff] at hb
      obtain ⟨rs, hrs, i, hi, hp⟩ := hb
      cases hp
      obtain ⟨h1, h2, h3, h4, h5⟩ := construct_limits H kind bits _ i hi
      have hlen := builds_length H refs rs hrs
      intro c hc
      rw [subcells] at hc
      rcases List.mem_cons.1 hc with rfl | hc
      · refine ⟨by simpa [PCell.info, PCell.refs] using h1, by simp [PCell.refs]; omega, h4, h5, ?_⟩
        intro hk
        simp only [PCell.info] at hk ⊢
        rw [h2]; rw [h3] at hk
        exact sh.2.1 hk
      · exact builds_ok H refs rs sh.2.2 hrs c hc
  theorem builds_ok (H : Bytes → Bytes) : ∀ (ts : List Cell) (ps : List PCell), Shapes ts → Cell.builds H ts = some ps →
      ∀ c ∈ subcellsList ps, CellOK c
    | [], ps, _, hb => by
      rw [Cell.builds] at hb; cases hb
      intro c hc; simp [subcellsList] at hc
    | t :: ts, ps, sh, hb => by
      rw [Shapes] at sh
      rw [Cell.builds] at hb
      simp only [Option.bind_eq_bind, Option.bind_eq_some_iff] at hb
      obtain ⟨p, hp, ps', hps, hq⟩ := hb
      cases hq
      intro c hc
      rw [subcellsList] at hc
      rcases List.mem_append.1 hc with hc | hc
      · exact build_ok H t p sh.1 hp c hc
      · exact builds_ok H ts ps' sh.2 hps c hc
  theorem builds_length (H : Bytes → Bytes) : ∀ (ts : List Cell) (ps : List PCell), Cell.builds H ts = some ps → ps.length = ts.length
    | [], ps, hb => by rw [Cell.builds] at hb; cases hb; rfl
    | t :: ts, ps, hb => by
      rw [Cell.builds] at hb
      simp only [Option.bind_eq_bind, Option.bind_eq_some_iff] at hb
      obtain ⟨p, hp, ps', hps, hq⟩ := hb
      cases hq
      simp [builds_length H ts ps' hps]
end

/-- `to_boc` on a tree of cells (`Model.Cell`, as in C01/C02): shape hypotheses instead of `CellOK` -/
theorem toBoc_conforms_tree (H : Bytes → Bytes) (t : Cell) (p : PCell) (sh : Shape t) (hb : Cell.build H t = some p)
    (nc : NoCollision p) (fuel : Nat) (ord : List PCell) (h : p.order fuel = some ord) (o : Opts) (hv : o.valid = true)
    (hn : ord.length < 2 ^ 32) (hP : (payloadOf (sizeW (orderRecs ord)) (orderRecs ord)).length * 2 < 2 ^ 64) :
    ValidOrder p ord ∧ ∃ bs, p.toBoc fuel o = some bs ∧ strictFlat bs = some ⟨ord.map (cellSRec ord), [0]⟩ :=
  toBoc_conforms p fuel ord o hv nc (build_ok H t p sh hb) h hn hP

end TonVerif.Proofs.BocEmit
