/-
Helper lemmas for C09 / C10: bit-string arithmetic, the label functions generated from utils.py,
label reader vs. hashmap.tlb label encodings, parser vs. `ValidHMK`.
-/
import TonVerif.Model.Hashmap
import Mathlib.Tactic.Ring

namespace TonVerif.Proofs.Hashmap
open TonVerif TonVerif.Model TonVerif.Model.Hashmap TonVerif.Spec.Hashmap
open TonVerif.Generated.LabelFns

/-! ### numbers and bit strings -/

theorem bitLength_le_iff (a : Nat) : ∀ n, bitLength a ≤ n ↔ a < 2 ^ n := by
  induction a using Nat.strongRecOn with
  | _ a ih =>
    intro n
    cases a with
    | zero => simp [bitLength]
    | succ a =>
      rw [bitLength]
      cases n with
      | zero => simp
      | succ n =>
        have := ih ((a + 1) / 2) (by omega) n
        rw [Nat.pow_succ]
        omega

theorem lt_two_pow_bitLength (m : Nat) : m < 2 ^ bitLength m := (bitLength_le_iff m _).1 (Nat.le_refl _)

theorem natToBits_length (w v : Nat) : (natToBits w v).length = w := by
  induction w generalizing v with
  | zero => simp [natToBits]
  | succ w ih => simp [natToBits, ih]

theorem foldl_bits (bs : Bits) (acc : Nat) :
    bs.foldl (fun acc b => acc * 2 + (if b then 1 else 0)) acc = acc * 2 ^ bs.length + natOfBits bs := by
  unfold natOfBits
  induction bs generalizing acc with
  | nil => simp
  | cons b t ih =>
    simp only [List.foldl_cons, List.length_cons]
    rw [ih, ih (0 * 2 + _)]
    rw [Nat.pow_succ]
    simp [Nat.add_mul, Nat.mul_assoc, Nat.add_assoc, Nat.mul_comm 2]

theorem natOfBits_nil : natOfBits [] = 0 := rfl

theorem natOfBits_cons (b : Bool) (t : Bits) :
    natOfBits (b :: t) = (if b then 1 else 0) * 2 ^ t.length + natOfBits t := by
  show List.foldl _ _ _ = _
  simp only [List.foldl_cons]
  rw [foldl_bits]; simp

theorem natOfBits_append (a b : Bits) : natOfBits (a ++ b) = natOfBits a * 2 ^ b.length + natOfBits b := by
  induction a with
  | nil => simp [natOfBits_nil]
  | cons x t ih =>
    simp only [List.cons_append, natOfBits_cons, ih, List.length_append, Nat.pow_add]
    ring

theorem natOfBits_lt (b : Bits) : natOfBits b < 2 ^ b.length := by
  induction b with
  | nil => simp [natOfBits_nil]
  | cons x t ih =>
    rw [natOfBits_cons, List.length_cons, Nat.pow_succ]
    cases x <;> simp <;> omega

theorem natOfBits_natToBits (w v : Nat) (h : v < 2 ^ w) : natOfBits (natToBits w v) = v := by
  induction w generalizing v with
  | zero => simp at h; simp [natToBits, natOfBits_nil, h]
  | succ w ih =>
    rw [natToBits, natOfBits_append, ih (v / 2) (by rw [Nat.pow_succ] at h; omega)]
    simp only [natOfBits_cons, natOfBits_nil, List.length_cons, List.length_nil]
    by_cases h2 : v % 2 = 1 <;> simp [h2] <;> omega

/-! ### the generated label functions (utils.py) -/

theorem any_ne_eq (a : Bool) (t : Bits) : t.any (fun e => e != a) = !(t.all (fun b => b == a)) := by
  induction t with
  | nil => simp
  | cons b t ih => rw [List.any_cons, List.all_cons, ih]; cases a <;> cases b <;> simp

/-- `is_same` of utils.py is "all bits equal" -/
theorem is_same_eq (s : Bits) : is_same s = allSame s := by
  unfold is_same allSame
  match s with
  | [] => simp
  | [a] => simp
  | a :: b :: t =>
    have h : ((a :: b :: t).length == 0 || (a :: b :: t).length == 1) = false := by simp
    rw [h]
    simp only [List.drop_succ_cons, List.drop_zero, List.getD_cons_zero, List.headD_cons, any_ne_eq,
      List.all_cons, beq_self_eq_true, Bool.true_and]
    generalize (b == a && t.all (fun b => b == a)) = x
    cases x <;> rfl

/-- `detect_label_type` of utils.py is the reference choice of dict.cpp, for every label and bound -/
theorem detect_eq (s : Bits) (max : Nat) :
    detect_label_type s max = refLabelKind s.length max (allSame s) := by
  unfold detect_label_type refLabelKind label_short_length label_long_length label_same_length lenBits
  rw [is_same_eq]
  generalize bitLength max = k
  generalize allSame s = sm
  generalize s.length = len
  cases sm <;> simp <;> grind

theorem allSame_iff (s : Bits) : allSame s = true ↔ ∃ v, s = List.replicate s.length v := by
  unfold allSame
  constructor
  · intro h
    refine ⟨s.headD false, ?_⟩
    rw [List.all_eq_true] at h
    apply List.ext_getElem (by simp)
    intro i h1 h2
    have := h s[i] (List.getElem_mem h1)
    simp at this ⊢
    exact this
  · rintro ⟨v, hv⟩
    rw [hv]
    cases s with
    | nil => simp
    | cons a t => simp [List.replicate_succ]

/-! ### reading labels -/

theorem readUnary_replicate (n : Nat) (rest : Bits) :
    readUnary (List.replicate n true ++ false :: rest) = some (n, rest) := by
  induction n with
  | zero => simp [readUnary]
  | succ n ih => simp [List.replicate_succ, readUnary, ih]

theorem loadBits_append (s rest : Bits) : loadBits s.length (s ++ rest) = some (s, rest) := by
  simp [loadBits]

theorem loadLen_enc (m len : Nat) (rest : Bits) (h : len ≤ m) :
    loadLen (m : Int) (natToBits (lenBits m) len ++ rest) = some (len, rest) := by
  unfold loadLen lenBits
  simp only [Int.natAbs_natCast]
  by_cases h0 : bitLength m = 0
  · have : m < 2 ^ 0 := (bitLength_le_iff m 0).1 (by omega)
    have hl : len = 0 := by simp at this; omega
    simp [h0, natToBits, hl]
  · have hlt : len < 2 ^ bitLength m := Nat.lt_of_le_of_lt h (lt_two_pow_bitLength m)
    simp [h0, Hashmap.loadUint, natToBits_length, natOfBits_natToBits _ _ hlt]

/-- the label reader inverts every hashmap.tlb label encoding -/
theorem deserializeHml_enc {m : Nat} {s : Bits} {k : LabelKind} {lb : Bits} (h : LabelEnc m s k lb) (rest : Bits) :
    deserializeHml (lb ++ rest) (m : Int) = some (s.length, s, rest) := by
  cases h with
  | short hl =>
    simp [deserializeHml, readUnary_replicate, loadBits_append]
  | long hl =>
    simp only [deserializeHml, List.cons_append, List.append_assoc]
    rw [loadLen_enc m s.length _ hl]
    simp [loadBits_append]
  | same v hs hl =>
    simp only [deserializeHml, List.cons_append]
    rw [loadLen_enc m s.length _ hl]
    simp [← hs]

/-! ### the parser on spec-valid trees -/

theorem pre_pre {α} (a b : Bits) (kv : List (Bits × α)) : (kv.map (pre b)).map (pre a) = kv.map (pre (a ++ b)) := by
  simp [pre, List.map_map, Function.comp_def]

theorem pre_comp {α} (a b : Bits) : (pre a ∘ pre b : Bits × α → Bits × α) = pre (a ++ b) := by
  funext x; simp [pre]

theorem map_pre_nil {α} (kv : List (Bits × α)) : kv.map (pre []) = kv := by
  have : (pre [] : Bits × α → Bits × α) = id := by funext x; simp [pre]
  simp [this]

theorem pruned_bits {bits : Bits} (h : bits.take 8 = byteToBits 1) : ∃ r, bits = false :: false :: r := by
  match bits, h with
  | a :: b :: r, h =>
    simp [byteToBits, natToBits] at h
    exact ⟨r, by simp [h.1, h.2.1]⟩

theorem parseEdge_valid {ok p n c kv} (h : ValidHMK ok p n c kv) :
    ∀ (pfx : Bits), (pfx ≠ [] ∨ 0 < n) → parseEdge c (n : Int) pfx = some (kv.map (pre pfx)) := by
  induction h with
  | @leaf p n s k lb vb vr hl _ hn =>
    intro pfx hne
    rw [parseEdge, deserializeHml_enc hl]
    have : pfx ++ s ≠ [] := by
      rcases hne with h | h
      · simp [h]
      · intro hh; simp at hh; rw [hh.2] at hn; simp at hn; omega
    simp [hn, this, pre]
  | @fork p n m s k lb l r kvl kvr hl _ hn _ _ ihl ihr =>
    intro pfx hne
    have e : lb = lb ++ [] := by simp
    rw [parseEdge, e, deserializeHml_enc hl]
    have hm : ((n : Int) - (s.length : Int) = 0) = False := by simp; omega
    have hm2 : (n : Int) - (s.length : Int) - 1 = (m : Int) := by omega
    simp only [ne_eq, not_true_eq_false, if_false, hm, hm2, parseFork]
    rw [ihl _ (Or.inl (by simp)), ihr _ (Or.inl (by simp))]
    simp [pre_comp, List.append_assoc]
  | @pruned n bits hb =>
    intro pfx _
    obtain ⟨r, rfl⟩ := pruned_bits hb
    simp [parseEdge, deserializeHml, readUnary, loadBits]

theorem parseAugEdge_valid {X Y : Type} {D : AugDec X Y} {p n c kv ex} (h : ValidAug D p n c kv ex) :
    ∀ (pfx : Bits), parseAugEdge D c (n : Int) pfx = some (kv.map (pre pfx), ex) := by
  induction h with
  | @leaf p n s k lb rest refs y s' x hl hn hy hx =>
    intro pfx
    rw [parseAugEdge, deserializeHml_enc hl]
    simp [hn, hy, hx, pre]
  | @fork p n m s k lb rest l r refs kvl kvr el er y s' hl hn _ _ hy ihl ihr =>
    intro pfx
    rw [parseAugEdge, deserializeHml_enc hl]
    have hm : ((n : Int) - (s.length : Int) = 0) = False := by simp; omega
    have hm2 : (n : Int) - (s.length : Int) - 1 = (m : Int) := by omega
    simp only [ne_eq, not_true_eq_false, if_false, hm, hm2, parseAugFork]
    rw [ihl, ihr]
    simp [hy, pre_comp, List.append_assoc]
  | @pruned n kind bits refs hk =>
    intro pfx
    simp [parseAugEdge, hk]

/-! ### keys -/
theorem natOfBits_replicate_false (j : Nat) (b : Bits) : natOfBits (List.replicate j false ++ b) = natOfBits b := by
  induction j with
  | zero => simp
  | succ j ih => simp [List.replicate_succ, natOfBits_cons, ih]

theorem natOfBits_binDigits (k : Nat) : natOfBits (binDigits k) = k := by
  unfold binDigits
  split
  · simp [natOfBits_cons, natOfBits_nil, *]
  · exact natOfBits_natToBits _ _ (lt_two_pow_bitLength k)

theorem natOfBits_keyBits (n k : Nat) : natOfBits (keyBits n k) = k := by
  simp [keyBits, natOfBits_replicate_false, natOfBits_binDigits]

theorem keyBits_length (n k : Nat) (hn : 0 < n) (hk : k < 2 ^ n) : (keyBits n k).length = n := by
  unfold keyBits binDigits
  have := (bitLength_le_iff k n).2 hk
  split <;> simp [natToBits_length] <;> omega

theorem setIntKey_none {V} (n : Nat) (k : Int) (v : V) (d : Dict V) (h : k < 0 ∨ k ≥ 2 ^ n) : setIntKey n k v d = none := by
  unfold setIntKey
  rcases h with h | h
  · simp [h]
  · have : ¬ bitLength k.natAbs ≤ n := by
      rw [bitLength_le_iff]
      have : (2:Int)^n = ((2^n : Nat) : Int) := by simp
      omega
    simp; omega

theorem setIntKey_some {V} (n : Nat) (k : Int) (v : V) (d : Dict V) (h0 : 0 ≤ k) (h : k < 2 ^ n) :
    setIntKey n k v d = some (dictSet k.toNat v d) := by
  unfold setIntKey
  have : bitLength k.natAbs ≤ n := by
    rw [bitLength_le_iff]
    have : (2:Int)^n = ((2^n : Nat) : Int) := by simp
    omega
  have h2 : ¬ (k < 0 ∨ bitLength k.natAbs > n) := by omega
  simp [h2]

end TonVerif.Proofs.Hashmap
