/-
Helper lemmas for C09 / C10: bit-string arithmetic, the label functions generated from utils.py,
label reader vs. hashmap.tlb label encodings, parser vs. `ValidHMK`.
-/
import TonVerif.Model.Hashmap
import Mathlib.Tactic.Ring

namespace TonVerif.Proofs.Hashmap
open TonVerif TonVerif.Model TonVerif.Model.Hashmap TonVerif.Spec.Hashmap
open TonVerif.Generated.LabelFns

/-! ### numbers and bit strings -/

theorem bitLength_le_iff (a : Nat) : ∀ n, bitLength a ≤ n ↔ a < 2 ^ n := by
  induction a using Nat.strongRecOn with
  | _ a ih =>
    intro n
    cases a with
    | zero => simp [bitLength]
    | succ a =>
      rw [bitLength]
      cases n with
      | zero => simp
      | succ n =>
        have := ih ((a + 1) / 2) (by omega) n
        rw [Nat.pow_succ]
        omega

theorem lt_two_pow_bitLength (m : Nat) : m < 2 ^ bitLength m := (bitLength_le_iff m _).1 (Nat.le_refl _)

theorem natToBits_length (w v : Nat) : (natToBits w v).length = w := by
  induction w generalizing v with
  | zero => simp [natToBits]
  | succ w ih => simp [natToBits, ih]

theorem foldl_bits (bs : Bits) (acc : Nat) :
    bs.foldl (fun acc b => acc * 2 + (if b then 1 else 0)) acc = acc * 2 ^ bs.length + natOfBits bs := by
  unfold natOfBits
  induction bs generalizing acc with
  | nil => simp
  | cons b t ih =>
    simp only [List.foldl_cons, List.length_cons]
    rw [ih, ih (0 * 2 + _)]
    rw [Nat.pow_succ]
    simp [Nat.add_mul, Nat.mul_assoc, Nat.add_assoc, Nat.mul_comm 2]

theorem natOfBits_nil : natOfBits [] = 0 := rfl

theorem natOfBits_cons (b : Bool) (t : Bits) :
    natOfBits (b :: t) = (if b then 1 else 0) * 2 ^ t.length + natOfBits t := by
  show List.foldl _ _ _ = _
  simp only [List.foldl_cons]
  rw [foldl_bits]; simp

theorem natOfBits_append (a b : Bits) : natOfBits (a ++ b) = natOfBits a * 2 ^ b.length + natOfBits b := by
  induction a with
  | nil => simp [natOfBits_nil]
  | cons x t ih =>
    simp only [List.cons_append, natOfBits_cons, ih, List.length_append, Nat.pow_add]
    ring

theorem natOfBits_lt (b : Bits) : natOfBits b < 2 ^ b.length := by
  induction b with
  | nil => simp [natOfBits_nil]
  | cons x t ih =>
    rw [natOfBits_cons, List.length_cons, Nat.pow_succ]
    cases x <;> simp <;> omega

theorem natOfBits_natToBits (w v : Nat) (h : v < 2 ^ w) : natOfBits (natToBits w v) = v := by
  induction w generalizing v with
  | zero => simp at h; simp [natToBits, natOfBits_nil, h]
  | succ w ih =>
    rw [natToBits, natOfBits_append, ih (v / 2) (by rw [Nat.pow_succ] at h; omega)]
    simp only [natOfBits_cons, natOfBits_nil, List.length_cons, List.length_nil]
    by_cases h2 : v % 2 = 1 <;> simp [h2] <;> omega

/-! ### the generated label functions (utils.py) -/

theorem any_ne_eq (a : Bool) (t : Bits) : t.any (fun e => e != a) = !(t.all (fun b => b == a)) := by
  induction t with
  | nil => simp
  | cons b t ih => rw [List.any_cons, List.all_cons, ih]; cases a <;> cases b <;> simp

/-- `is_same` of utils.py is "all bits equal" -/
theorem is_same_eq (s : Bits) : is_same s = allSame s := by
  unfold is_same allSame
  match s with
  | [] => simp
  | [a] => simp
  | a :: b :: t =>
    have h : ((a :: b :: t).length == 0 || (a :: b :: t).length == 1) = false := by simp
    rw [h]
    simp only [List.drop_succ_cons, List.drop_zero, List.getD_cons_zero, List.headD_cons, any_ne_eq,
      List.all_cons, beq_self_eq_true, Bool.true_and]
    generalize (b == a && t.all (fun b => b == a)) = x
    cases x <;> rfl

/-- `detect_label_type` of utils.py is the reference choice of dict.cpp, for every label and bound -/
theorem detect_eq (s : Bits) (max : Nat) :
    detect_label_type s max = refLabelKind s.length max (allSame s) := by
  unfold detect_label_type refLabelKind label_short_length label_long_length label_same_length lenBits
  rw [is_same_eq]
  generalize bitLength max = k
  generalize allSame s = sm
  generalize s.length = len
  cases sm <;> simp <;> grind

theorem allSame_iff (s : Bits) : allSame s = true ↔ ∃ v, s = List.replicate s.length v := by
  unfold allSame
  constructor
  · intro h
    refine ⟨s.headD false, ?_⟩
    rw [List.all_eq_true] at h
    apply List.ext_getElem (by simp)
    intro i h1 h2
    have := h s[i] (List.getElem_mem h1)
    simp at this ⊢
    exact this
  · rintro ⟨v, hv⟩
    rw [hv]
    cases s with
    | nil => simp
    | cons a t => simp [List.replicate_succ]

/-! ### reading labels -/

theorem readUnary_replicate (n : Nat) (rest : Bits) :
    readUnary (List.replicate n true ++ false :: rest) = some (n, rest) := by
  induction n with
  | zero => simp [readUnary]
  | succ n ih => simp [List.replicate_succ, readUnary, ih]

theorem loadBits_append (s rest : Bits) : loadBits s.length (s ++ rest) = some (s, rest) := by
  simp [loadBits]

/-- a `#<= m` field holding any value that fits its width is read back (also values above `m`: the reader has no range test) -/
theorem loadLen_fits (m len : Nat) (rest : Bits) (h : len < 2 ^ lenBits m) :
    loadLen (m : Int) (natToBits (lenBits m) len ++ rest) = some (len, rest) := by
  unfold loadLen
  unfold lenBits at h ⊢
  simp only [Int.natAbs_natCast]
  by_cases h0 : bitLength m = 0
  · have hl : len = 0 := by rw [h0] at h; simp at h; omega
    simp [h0, natToBits, hl]
  · simp [h0, Hashmap.loadUint, natToBits_length, natOfBits_natToBits _ _ h]

theorem loadLen_enc (m len : Nat) (rest : Bits) (h : len ≤ m) :
    loadLen (m : Int) (natToBits (lenBits m) len ++ rest) = some (len, rest) :=
  loadLen_fits m len rest (Nat.lt_of_le_of_lt h (lt_two_pow_bitLength m))

/-- the constructor branches of the label reader read every label PATTERN back, whether or not it respects `{n <= m}` -/
theorem readHml_bits {m : Nat} {s : Bits} {k : LabelKind} {lb : Bits} (h : LabelBits m s k lb) (rest : Bits) :
    readHml (lb ++ rest) (m : Int) = some (s.length, s, rest) := by
  cases h with
  | short =>
    simp [readHml, readUnary_replicate, loadBits_append]
  | long hl =>
    simp only [readHml, List.cons_append, List.append_assoc]
    rw [loadLen_fits m s.length _ hl]
    simp [loadBits_append]
  | same v hs hl =>
    simp only [readHml, List.cons_append]
    rw [loadLen_fits m s.length _ hl]
    simp [← hs]

/-- the constructor branches of the label reader invert every hashmap.tlb label encoding -/
theorem readHml_enc {m : Nat} {s : Bits} {k : LabelKind} {lb : Bits} (h : LabelEnc m s k lb) (rest : Bits) :
    readHml (lb ++ rest) (m : Int) = some (s.length, s, rest) := by
  cases h with
  | short hl =>
    simp [readHml, readUnary_replicate, loadBits_append]
  | long hl =>
    simp only [readHml, List.cons_append, List.append_assoc]
    rw [loadLen_enc m s.length _ hl]
    simp [loadBits_append]
  | same v hs hl =>
    simp only [readHml, List.cons_append]
    rw [loadLen_enc m s.length _ hl]
    simp [← hs]

theorem labelEnc_len_le {m : Nat} {s : Bits} {k : LabelKind} {lb : Bits} (h : LabelEnc m s k lb) : s.length ≤ m := by
  cases h <;> assumption

/-- the label reader inverts every hashmap.tlb label encoding (`{n <= m}` is part of `LabelEnc`, so the length test of
`deserialize_hml` passes) -/
theorem deserializeHml_enc {m : Nat} {s : Bits} {k : LabelKind} {lb : Bits} (h : LabelEnc m s k lb) (rest : Bits) :
    deserializeHml (lb ++ rest) (m : Int) = some (s.length, s, rest) := by
  have hl := labelEnc_len_le h
  simp only [deserializeHml, readHml_enc h]
  have : ¬ ((s.length : Int) > (m : Int)) := by omega
  simp [this]

/-- what `deserialize_hml` returns is what its constructor branches read, and the label is not longer than the remaining key -/
theorem deserializeHml_some {bits : Bits} {m : Int} {n : Nat} {s rest : Bits} :
    deserializeHml bits m = some (n, s, rest) ↔ readHml bits m = some (n, s, rest) ∧ (n : Int) ≤ m := by
  unfold deserializeHml
  cases hr : readHml bits m with
  | none => simp
  | some t =>
    obtain ⟨n', s', rest'⟩ := t
    by_cases hgt : (n' : Int) > m
    · simp only [hgt, if_true, Option.some.injEq, Prod.mk.injEq]
      constructor
      · intro h; cases h
      · rintro ⟨⟨rfl, _, _⟩, hle⟩; omega
    · simp only [hgt, if_false, Option.some.injEq, Prod.mk.injEq]
      constructor
      · rintro ⟨rfl, rfl, rfl⟩; exact ⟨⟨rfl, rfl, rfl⟩, by omega⟩
      · rintro ⟨h, _⟩; exact h

/-- a label the reader accepts fits the remaining key; in particular the remaining key was not negative -/
theorem deserializeHml_le {bits : Bits} {m : Int} {n : Nat} {s rest : Bits}
    (h : deserializeHml bits m = some (n, s, rest)) : (n : Int) ≤ m := (deserializeHml_some.1 h).2

/-- a label longer than the remaining key is refused -/
theorem deserializeHml_too_long {bits : Bits} {m : Int} {n : Nat} {s rest : Bits}
    (h : readHml bits m = some (n, s, rest)) (hgt : m < (n : Int)) : deserializeHml bits m = none := by
  simp [deserializeHml, h, hgt]

theorem labelEnc_iff_bits {m : Nat} {s : Bits} {k : LabelKind} {lb : Bits} :
    LabelEnc m s k lb ↔ LabelBits m s k lb ∧ s.length ≤ m := by
  constructor
  · intro h
    have hl := labelEnc_len_le h
    have hlt : s.length < 2 ^ lenBits m := Nat.lt_of_le_of_lt hl (lt_two_pow_bitLength m)
    refine ⟨?_, hl⟩
    cases h with
    | short _ => exact .short
    | long _ => exact .long hlt
    | same v hs _ => exact .same v hs hlt
  · rintro ⟨h, hl⟩
    cases h with
    | short => exact .short hl
    | long _ => exact .long hl
    | same v hs _ => exact .same v hs hl

/-- `deserialize_hml` on a label pattern: returned iff the label fits the remaining key -/
theorem deserializeHml_bits {m : Nat} {s : Bits} {k : LabelKind} {lb : Bits} (h : LabelBits m s k lb) (rest : Bits) :
    deserializeHml (lb ++ rest) (m : Int) = if s.length ≤ m then some (s.length, s, rest) else none := by
  simp only [deserializeHml, readHml_bits h]
  by_cases hl : s.length ≤ m
  · have : ¬ ((s.length : Int) > (m : Int)) := by omega
    simp [this, hl]
  · have : (s.length : Int) > (m : Int) := by omega
    simp [this, hl]

/-- the first data byte of every exotic cell is its type (1..4): the label reader sees `00…` = an empty `hml_short` label -/
theorem deserializeHml_zero_zero (r : Bits) {m : Int} (hm : 0 ≤ m) :
    deserializeHml (false :: false :: r) m = some (0, [], r) := by
  simp [deserializeHml, readHml, readUnary, loadBits, hm]

/-! ### the parser on spec-valid trees -/

theorem pre_pre {α} (a b : Bits) (kv : List (Bits × α)) : (kv.map (pre b)).map (pre a) = kv.map (pre (a ++ b)) := by
  simp [pre, List.map_map, Function.comp_def]

theorem pre_comp {α} (a b : Bits) : (pre a ∘ pre b : Bits × α → Bits × α) = pre (a ++ b) := by
  funext x; simp [pre]

theorem map_pre_nil {α} (kv : List (Bits × α)) : kv.map (pre []) = kv := by
  have : (pre [] : Bits × α → Bits × α) = id := by funext x; simp [pre]
  simp [this]

theorem pruned_bits {bits : Bits} (h : bits.take 8 = byteToBits 1) : ∃ r, bits = false :: false :: r := by
  match bits, h with
  | a :: b :: r, h =>
    simp [byteToBits, natToBits] at h
    exact ⟨r, by simp [h.1, h.2.1]⟩

theorem parseEdge_valid {ok p n c kv} (h : ValidHMK ok p n c kv) :
    ∀ (pfx : Bits), (pfx ≠ [] ∨ 0 < n) → parseEdge c (n : Int) pfx = some (kv.map (pre pfx)) := by
  induction h with
  | @leaf p n s k lb vb vr hl _ hn =>
    intro pfx hne
    rw [parseEdge, deserializeHml_enc hl]
    have : pfx ++ s ≠ [] := by
      rcases hne with h | h
      · simp [h]
      · intro hh; simp at hh; rw [hh.2] at hn; simp at hn; omega
    simp [hn, this, pre]
  | @fork p n m s k lb l r kvl kvr hl _ hn _ _ ihl ihr =>
    intro pfx hne
    have e : lb = lb ++ [] := by simp
    rw [parseEdge, e, deserializeHml_enc hl]
    have hm : ((n : Int) - (s.length : Int) = 0) = False := by simp; omega
    have hm2 : (n : Int) - (s.length : Int) - 1 = (m : Int) := by omega
    simp only [ne_eq, not_true_eq_false, if_false, hm, hm2, parseFork]
    rw [ihl _ (Or.inl (by simp)), ihr _ (Or.inl (by simp))]
    simp [pre_comp, List.append_assoc]
  | @pruned n bits hb =>
    intro pfx _
    obtain ⟨r, rfl⟩ := pruned_bits hb
    simp [parseEdge, deserializeHml_zero_zero r (Int.natCast_nonneg n)]

theorem parseAugEdge_valid {X Y : Type} {D : AugDec X Y} {p n c kv ex} (h : ValidAug D p n c kv ex) :
    ∀ (pfx : Bits), parseAugEdge D c (n : Int) pfx = some (kv.map (pre pfx), ex) := by
  induction h with
  | @leaf p n s k lb rest refs y s' x hl hn hy hx =>
    intro pfx
    rw [parseAugEdge, deserializeHml_enc hl]
    simp [hn, hy, hx, pre]
  | @fork p n m s k lb rest l r refs kvl kvr el er y s' hl hn _ _ hy ihl ihr =>
    intro pfx
    rw [parseAugEdge, deserializeHml_enc hl]
    have hm : ((n : Int) - (s.length : Int) = 0) = False := by simp; omega
    have hm2 : (n : Int) - (s.length : Int) - 1 = (m : Int) := by omega
    simp only [ne_eq, not_true_eq_false, if_false, hm, hm2, parseAugFork]
    rw [ihl, ihr]
    simp [hy, pre_comp, List.append_assoc]
  | @pruned n kind bits refs hk =>
    intro pfx
    simp [parseAugEdge, hk]

/-! ### labels longer than the remaining key (hashmap.tlb `{n <= m}`) -/

/-- `parse` reads the label BEFORE it looks at the cell type: a refused label raises whatever the cell is -/
theorem parseEdge_label_none {kind : Int} {bits : Bits} {refs : List Cell} {k : Int} {pfx : Bits}
    (h : deserializeHml bits k = none) : parseEdge (.mk kind bits refs) k pfx = none := by
  rw [parseEdge, h]

/-- `parse_aug` tests the type first; on an ordinary cell a refused label raises -/
theorem parseAugEdge_label_none {X Y : Type} (D : AugDec X Y) {bits : Bits} {refs : List Cell} {k : Int} {pfx : Bits}
    (h : deserializeHml bits k = none) : parseAugEdge D (.mk (-1) bits refs) k pfx = none := by
  rw [parseAugEdge]; simp [h]

/-- an exception in either child ends the whole parse -/
theorem parseFork_none {l r : Cell} {more : List Cell} {m : Int} {pfx : Bits}
    (h : parseEdge l m (pfx ++ [false]) = none ∨ parseEdge r m (pfx ++ [true]) = none) :
    parseFork (l :: r :: more) m pfx = none := by
  rw [parseFork]
  rcases h with h | h
  · rw [h]
  · rw [h]; cases parseEdge l m (pfx ++ [false]) <;> rfl

theorem parseAugFork_none {X Y : Type} (D : AugDec X Y) {l r : Cell} {more : List Cell} {rest : Bits} {m : Int} {pfx : Bits}
    (h : parseAugEdge D l m (pfx ++ [false]) = none ∨ parseAugEdge D r m (pfx ++ [true]) = none) :
    parseAugFork D (l :: r :: more) rest m pfx = none := by
  rw [parseAugFork]
  rcases h with h | h
  · rw [h]
  · rw [h]; cases parseAugEdge D l m (pfx ++ [false]) <;> rfl

/-- a negative (remaining) key length is refused by the first label read, on every cell -/
theorem parseEdge_neg (c : Cell) {k : Int} (hk : k < 0) (pfx : Bits) : parseEdge c k pfx = none := by
  cases c with
  | mk kind bits refs =>
    apply parseEdge_label_none
    cases hd : deserializeHml bits k with
    | none => rfl
    | some t => obtain ⟨n, s, rest⟩ := t; have := deserializeHml_le hd; omega

theorem parseAugEdge_neg {X Y : Type} (D : AugDec X Y) (bits : Bits) (refs : List Cell) {k : Int} (hk : k < 0) (pfx : Bits) :
    parseAugEdge D (.mk (-1) bits refs) k pfx = none := by
  apply parseAugEdge_label_none
  cases hd : deserializeHml bits k with
  | none => rfl
  | some t => obtain ⟨n, s, rest⟩ := t; have := deserializeHml_le hd; omega

mutual
  /-- every edge a parse walks through: its label is readable and not longer than the key length remaining there; the walk
  continues below ordinary cells whose label leaves key bits over (first two references, remaining length minus the fork bit) -/
  def labelsFit : Cell → Int → Prop
    | .mk kind bits refs, k =>
      match readHml bits k with
      | none => False
      | some (n, _, _) => (n : Int) ≤ k ∧ (kind ≠ -1 ∨ k - (n : Int) = 0 ∨ labelsFitFork refs (k - (n : Int) - 1))
  def labelsFitFork : List Cell → Int → Prop
    | l :: r :: _, m => labelsFit l m ∧ labelsFit r m
    | _, _ => False
end

mutual
  /-- a `parse` that returns has met only labels that fit the remaining key -/
  theorem parseEdge_labelsFit : ∀ (c : Cell) (k : Int) (pfx : Bits) (kv : List (Bits × Val)),
      parseEdge c k pfx = some kv → labelsFit c k
    | .mk kind bits refs, k, pfx, kv, h => by
      rw [parseEdge] at h
      cases hd : deserializeHml bits k with
      | none => rw [hd] at h; cases h
      | some t =>
        obtain ⟨n, s, rest⟩ := t
        rw [hd] at h
        simp only [] at h
        obtain ⟨hr, hle⟩ := deserializeHml_some.1 hd
        rw [labelsFit, hr]
        refine ⟨hle, ?_⟩
        by_cases hk : kind = -1
        · right
          by_cases hm : k - (n : Int) = 0
          · left; exact hm
          · right
            simp only [hk, ne_eq, not_true_eq_false, if_false, hm] at h
            exact parseFork_labelsFit refs _ _ _ h
        · left; exact hk
  theorem parseFork_labelsFit : ∀ (refs : List Cell) (m : Int) (pfx : Bits) (kv : List (Bits × Val)),
      parseFork refs m pfx = some kv → labelsFitFork refs m
    | [], m, pfx, kv, h => by simp [parseFork] at h
    | [_], m, pfx, kv, h => by simp [parseFork] at h
    | l :: r :: more, m, pfx, kv, h => by
      rw [parseFork] at h
      split at h
      · rename_i a b ha hb
        rw [labelsFitFork]
        exact ⟨parseEdge_labelsFit l m _ a ha, parseEdge_labelsFit r m _ b hb⟩
      · cases h
end

/-- wherever the walk stands, the remaining key length is not negative -/
theorem labelsFit_nonneg : ∀ (c : Cell) (k : Int), labelsFit c k → 0 ≤ k
  | .mk kind bits refs, k, h => by
    rw [labelsFit] at h
    split at h
    · exact h.elim
    · have := h.1; omega

/-! ### keys -/
theorem natOfBits_replicate_false (j : Nat) (b : Bits) : natOfBits (List.replicate j false ++ b) = natOfBits b := by
  induction j with
  | zero => simp
  | succ j ih => simp [List.replicate_succ, natOfBits_cons, ih]

theorem natOfBits_binDigits (k : Nat) : natOfBits (binDigits k) = k := by
  unfold binDigits
  split
  · simp [natOfBits_cons, natOfBits_nil, *]
  · exact natOfBits_natToBits _ _ (lt_two_pow_bitLength k)

theorem natOfBits_keyBits (n k : Nat) : natOfBits (keyBits n k) = k := by
  simp [keyBits, natOfBits_replicate_false, natOfBits_binDigits]

theorem keyBits_length (n k : Nat) (hn : 0 < n) (hk : k < 2 ^ n) : (keyBits n k).length = n := by
  unfold keyBits binDigits
  have := (bitLength_le_iff k n).2 hk
  split <;> simp [natToBits_length] <;> omega

theorem setIntKey_none {V} (n : Nat) (k : Int) (v : V) (d : Dict V) (h : k < 0 ∨ k ≥ 2 ^ n) : setIntKey n k v d = none := by
  unfold setIntKey
  rcases h with h | h
  · simp [h]
  · have : ¬ bitLength k.natAbs ≤ n := by
      rw [bitLength_le_iff]
      have : (2:Int)^n = ((2^n : Nat) : Int) := by simp
      omega
    simp; omega

theorem setIntKey_some {V} (n : Nat) (k : Int) (v : V) (d : Dict V) (h0 : 0 ≤ k) (h : k < 2 ^ n) :
    setIntKey n k v d = some (dictSet k.toNat v d) := by
  unfold setIntKey
  have : bitLength k.natAbs ≤ n := by
    rw [bitLength_le_iff]
    have : (2:Int)^n = ((2^n : Nat) : Int) := by simp
    omega
  have h2 : ¬ (k < 0 ∨ bitLength k.natAbs > n) := by omega
  simp [h2]

/-! ### the serialiser writes canonical trees -/
/-- leaves of the dict tree, left to right, keys relative to this edge -/
def Edge.leaves {V} : Edge V → List (Bits × V)
  | .leaf s v => [(s, v)]
  | .fork s l r => (Edge.leaves l).map (pre (s ++ [false])) ++ (Edge.leaves r).map (pre (s ++ [true]))

/-- the tree spells keys of exactly `n` bits -/
def Edge.Sized {V} : Edge V → Nat → Prop
  | .leaf s _, n => s.length = n
  | .fork s l r, n => ∃ m, n = s.length + 1 + m ∧ Edge.Sized l m ∧ Edge.Sized r m

theorem int2baU_nat (v w : Nat) (h : v < 2 ^ w) (hw : w ≠ 0) : BOp.int2baU (v : Int) w = some (natToBits w v) := by
  unfold BOp.int2baU
  have : ¬ ((v : Int) < 0) := by omega
  simp [hw, this]
  omega

theorem allSame_head {s : Bits} (h : allSame s = true) : s = List.replicate s.length (s.headD false) := by
  obtain ⟨v, hv⟩ := (allSame_iff s).1 h
  cases s with
  | nil => simp
  | cons a t =>
    have : a = v := by
      rw [List.length_cons, List.replicate_succ] at hv
      exact (List.cons.inj hv).1
    subst this
    simpa using hv

/-- `write_label` writes a hashmap.tlb encoding of the label with the reference constructor -/
theorem labelBits_enc {s : Bits} {n : Nat} {lb : Bits} (hl : s.length ≤ n) (h : labelBits s n = some lb) :
    LabelEnc n s (refLabelKind s.length n (allSame s)) lb := by
  unfold labelBits at h
  rw [detect_eq] at h
  have hlt : s.length < 2 ^ bitLength n := Nat.lt_of_le_of_lt hl (lt_two_pow_bitLength n)
  cases hk : refLabelKind s.length n (allSame s) with
  | short =>
    rw [hk] at h; simp at h; subst h; exact LabelEnc.short hl
  | long =>
    rw [hk] at h
    have hw : bitLength n ≠ 0 := by
      intro h0; unfold refLabelKind lenBits at hk; rw [h0] at hk
      rw [h0] at hlt; simp at hlt; simp [hlt] at hk
    rw [int2baU_nat _ _ hlt hw] at h
    simp at h; subst h
    exact LabelEnc.long hl
  | same =>
    rw [hk] at h
    have hs : allSame s = true ∧ s.length > 1 := by
      simp only [refLabelKind] at hk
      by_cases hc : allSame s = true ∧ s.length > 1 ∧ lenBits n < 2 * s.length - 1
      · exact ⟨hc.1, hc.2.1⟩
      · rw [if_neg hc] at hk
        split at hk <;> simp at hk
    have hw : bitLength n ≠ 0 := by
      intro h0
      have : n < 2 ^ 0 := (bitLength_le_iff n 0).1 (by omega)
      simp at this; omega
    rw [int2baU_nat _ _ hlt hw] at h
    simp at h; subst h
    have := LabelEnc.same (m := n) (s.headD false) (allSame_head hs.1) hl
    simpa [lenBits, List.headD_eq_head?_getD] using this

/-- labels always fit the declared bound when they are written (needed the other way round: existence) -/
theorem labelBits_some {s : Bits} {n : Nat} (hl : s.length ≤ n) : ∃ lb, labelBits s n = some lb := by
  unfold labelBits
  have hlt : s.length < 2 ^ bitLength n := Nat.lt_of_le_of_lt hl (lt_two_pow_bitLength n)
  by_cases hw : bitLength n = 0
  · have : n < 2 ^ 0 := (bitLength_le_iff n 0).1 (by omega)
    have h0 : s.length = 0 := by simp at this; omega
    rw [detect_eq]
    simp [refLabelKind, lenBits, hw, h0]
  · rw [int2baU_nat _ _ hlt hw]
    cases detect_label_type s n <;> simp

def serKV {V} (ser : V → Option Val) (p : Bits × V) : Bits × Option Val := (p.1, ser p.2)
def someKV (p : Bits × Val) : Bits × Option Val := (p.1, some p.2)

theorem writeEdge_valid {V} (ser : V → Option Val) (t : Edge V) : ∀ (n : Nat) (c : Cell), Edge.Sized t n →
    writeEdge ser t n = some c →
    ∃ kv, ValidHMK refPolicy false n c kv ∧ (Edge.leaves t).map (serKV ser) = kv.map someKV := by
  induction t with
  | leaf s v =>
    intro n c hs h
    simp only [Edge.Sized] at hs
    simp only [writeEdge, Option.bind_eq_bind] at h
    cases hlb : labelBits s n with
    | none => simp [hlb] at h
    | some lb =>
      cases hv : ser v with
      | none => simp [hlb, hv] at h
      | some val =>
        obtain ⟨vb, vr⟩ := val
        simp [hlb, hv] at h
        obtain ⟨_, rfl⟩ := h
        refine ⟨[(s, (vb, vr))], ?_, by simp [Edge.leaves, serKV, someKV, hv]⟩
        exact ValidHMK.leaf (labelBits_enc (by omega) hlb) rfl hs
  | fork s l r ihl ihr =>
    intro n c hs h
    obtain ⟨m, hn, hsl, hsr⟩ := hs
    simp only [writeEdge, Option.bind_eq_bind] at h
    cases hlb : labelBits s n with
    | none => simp [hlb] at h
    | some lb =>
      have hm : n - s.length - 1 = m := by omega
      simp only [hlb, Option.bind_some, hm] at h
      split at h
      · simp at h
      · cases hlc : writeEdge ser l m with
        | none => simp [hlc] at h
        | some lc =>
          cases hrc : writeEdge ser r m with
          | none => simp [hlc, hrc] at h
          | some rc =>
            simp [hlc, hrc] at h
            subst h
            obtain ⟨kvl, vl, el⟩ := ihl m lc hsl hlc
            obtain ⟨kvr, vr, er⟩ := ihr m rc hsr hrc
            refine ⟨kvl.map (pre (s ++ [false])) ++ kvr.map (pre (s ++ [true])), ?_, ?_⟩
            · exact ValidHMK.fork (labelBits_enc (by omega) hlb) rfl hn vl vr
            · simp only [Edge.leaves, List.map_append, List.map_map]
              have e1 : ∀ p : Bits, (serKV ser ∘ pre p : Bits × V → _) = (fun q : Bits × Option Val => (p ++ q.1, q.2)) ∘ serKV ser := by
                intro p; funext x; simp [serKV, pre]
              have e2 : ∀ p : Bits, (someKV ∘ pre p) = (fun q : Bits × Option Val => (p ++ q.1, q.2)) ∘ someKV := by
                intro p; funext x; simp [someKV, pre]
              rw [e1, e1, e2, e2, ← List.map_map, ← List.map_map, ← List.map_map, ← List.map_map, el, er]

/-! ### find_common_prefix -/
theorem lexLe_refl (a : Bits) : lexLe a a = true := by
  induction a with
  | nil => simp [lexLe]
  | cons x t ih => simp [lexLe, ih]

theorem lexLe_total (a b : Bits) : lexLe a b = true ∨ lexLe b a = true := by
  induction a generalizing b with
  | nil => simp [lexLe]
  | cons x t ih =>
    cases b with
    | nil => simp [lexLe]
    | cons y u =>
      simp only [lexLe]
      cases x <;> cases y <;> simp [ih]

theorem lexLe_trans (a b c : Bits) : lexLe a b = true → lexLe b c = true → lexLe a c = true := by
  induction a generalizing b c with
  | nil => simp [lexLe]
  | cons x t ih =>
    cases b with
    | nil => simp [lexLe]
    | cons y u =>
      cases c with
      | nil => simp [lexLe]
      | cons z w =>
        simp only [lexLe]
        cases x <;> cases y <;> cases z <;> simp <;> exact ih u w

/-- a common prefix of the two ends of a lexicographic interval is a prefix of everything in between -/
theorem prefix_between (p a b c : Bits) : lexLe a b = true → lexLe b c = true → p <+: a → p <+: c → p <+: b := by
  induction p generalizing a b c with
  | nil => simp
  | cons x p ih =>
    intro hab hbc ha hc
    obtain ⟨a1, rfl⟩ := ha
    obtain ⟨c1, rfl⟩ := hc
    cases b with
    | nil => simp [lexLe] at hab
    | cons y b1 =>
      simp only [List.cons_append, lexLe] at hab hbc
      have hxy : x = y := by
        cases x <;> cases y <;> simp_all
      subst hxy
      simp at hab hbc
      have := ih (p ++ a1) b1 (p ++ c1) hab hbc (by simp) (by simp)
      simpa using this

theorem commonPrefix_left (a b : Bits) : commonPrefix a b <+: a := by
  induction a generalizing b with
  | nil => simp [commonPrefix]
  | cons x t ih =>
    cases b with
    | nil => simp [commonPrefix]
    | cons y u =>
      simp only [commonPrefix]
      split
      · rename_i h; simp at h; subst h; simpa using ih u
      · simp

theorem commonPrefix_right (a b : Bits) : commonPrefix a b <+: b := by
  induction a generalizing b with
  | nil => simp [commonPrefix]
  | cons x t ih =>
    cases b with
    | nil => simp [commonPrefix]
    | cons y u =>
      simp only [commonPrefix]
      split
      · rename_i h; simp at h; subst h; simpa using ih u
      · simp

theorem lexMin_le (k : Bits) (ks : List Bits) : ∀ x ∈ k :: ks, lexLe (lexMin k ks) x = true := by
  induction ks generalizing k with
  | nil => intro x hx; simp at hx; subst hx; simp [lexMin, lexLe_refl]
  | cons b ks ih =>
    intro x hx
    have hstep : lexMin k (b :: ks) = lexMin (if lexLe k b then k else b) ks := by simp [lexMin]
    rw [hstep]
    have hk' := ih (if lexLe k b then k else b)
    by_cases hkb : lexLe k b = true
    · simp only [hkb, if_true] at hk' ⊢
      rcases List.mem_cons.1 hx with rfl | hx
      · exact hk' _ (by simp)
      · rcases List.mem_cons.1 hx with rfl | hx
        · exact lexLe_trans _ _ _ (hk' k (by simp)) hkb
        · exact hk' _ (by simp [hx])
    · have hbk : lexLe b k = true := by
        rcases lexLe_total k b with h | h
        · exact absurd h hkb
        · exact h
      simp only [hkb] at hk' ⊢
      simp only [Bool.false_eq_true, if_false] at hk' ⊢
      rcases List.mem_cons.1 hx with rfl | hx
      · exact lexLe_trans _ _ _ (hk' b (by simp)) hbk
      · rcases List.mem_cons.1 hx with rfl | hx
        · exact hk' _ (by simp)
        · exact hk' _ (by simp [hx])

theorem le_lexMax (k : Bits) (ks : List Bits) : ∀ x ∈ k :: ks, lexLe x (lexMax k ks) = true := by
  induction ks generalizing k with
  | nil => intro x hx; simp at hx; subst hx; simp [lexMax, lexLe_refl]
  | cons b ks ih =>
    intro x hx
    have hstep : lexMax k (b :: ks) = lexMax (if lexLe k b then b else k) ks := by simp [lexMax]
    rw [hstep]
    have hk' := ih (if lexLe k b then b else k)
    by_cases hkb : lexLe k b = true
    · simp only [hkb, if_true] at hk' ⊢
      rcases List.mem_cons.1 hx with rfl | hx
      · exact lexLe_trans _ _ _ hkb (hk' b (by simp))
      · rcases List.mem_cons.1 hx with rfl | hx
        · exact hk' _ (by simp)
        · exact hk' _ (by simp [hx])
    · have hbk : lexLe b k = true := by
        rcases lexLe_total k b with h | h
        · exact absurd h hkb
        · exact h
      simp only [hkb] at hk' ⊢
      simp only [Bool.false_eq_true, if_false] at hk' ⊢
      rcases List.mem_cons.1 hx with rfl | hx
      · exact hk' _ (by simp)
      · rcases List.mem_cons.1 hx with rfl | hx
        · exact lexLe_trans _ _ _ hbk (hk' k (by simp))
        · exact hk' _ (by simp [hx])

/-- `find_common_prefix` returns a prefix of every key -/
theorem findCommonPrefix_prefix (keys : List Bits) : ∀ x ∈ keys, findCommonPrefix keys <+: x := by
  match keys with
  | [] => simp
  | [k] => simp [findCommonPrefix]
  | k :: b :: ks =>
    intro x hx
    simp only [findCommonPrefix]
    exact prefix_between _ _ _ _ (lexMin_le k (b :: ks) x hx) (le_lexMax k (b :: ks) x hx)
      (commonPrefix_left _ _) (commonPrefix_right _ _)

/-! ### build_edge -/
def leftOf {V} (src : List (Bits × V)) : List (Bits × V) :=
  src.filterMap (fun kv => match kv.1 with | false :: t => some (t, kv.2) | _ => none)
def rightOf {V} (src : List (Bits × V)) : List (Bits × V) :=
  src.filterMap (fun kv => match kv.1 with | false :: _ => none | k => some (k.drop 1, kv.2))

theorem forkMap_eq {V} (src : List (Bits × V)) :
    forkMap src = if (leftOf src).isEmpty || (rightOf src).isEmpty then none else some (leftOf src, rightOf src) := rfl

theorem fork_perm {V} (rest : List (Bits × V)) (h : ∀ kv ∈ rest, kv.1 ≠ []) :
    List.Perm rest ((leftOf rest).map (pre [false]) ++ (rightOf rest).map (pre [true])) := by
  induction rest with
  | nil => simp [leftOf, rightOf]
  | cons kv rest ih =>
    have ih' := ih (fun x hx => h x (List.mem_cons_of_mem _ hx))
    obtain ⟨k, v⟩ := kv
    cases k with
    | nil => exact absurd rfl (h (([] : Bits), v) (by simp))
    | cons b t =>
      cases b with
      | false =>
        simp only [leftOf, rightOf, List.filterMap_cons, List.map_cons, List.cons_append, pre] at ih' ⊢
        exact List.Perm.cons _ ih'
      | true =>
        simp only [leftOf, rightOf, List.filterMap_cons, List.map_cons, List.drop_succ_cons, List.drop_zero, pre] at ih' ⊢
        exact (List.Perm.cons _ ih').trans List.perm_middle.symm

theorem leftOf_len {V} (rest : List (Bits × V)) (m : Nat) (h : ∀ kv ∈ rest, kv.1.length = m + 1) :
    ∀ kv ∈ leftOf rest, kv.1.length = m := by
  intro kv hkv
  simp only [leftOf, List.mem_filterMap] at hkv
  obtain ⟨a, ha, hm⟩ := hkv
  have := h a ha
  obtain ⟨k, v⟩ := a
  cases k with
  | nil => simp at hm
  | cons b t => cases b <;> simp at hm; subst hm; simpa using this

theorem rightOf_len {V} (rest : List (Bits × V)) (m : Nat) (h : ∀ kv ∈ rest, kv.1.length = m + 1) :
    ∀ kv ∈ rightOf rest, kv.1.length = m := by
  intro kv hkv
  simp only [rightOf, List.mem_filterMap] at hkv
  obtain ⟨a, ha, hm⟩ := hkv
  have := h a ha
  obtain ⟨k, v⟩ := a
  cases k with
  | nil => simp at this
  | cons b t => cases b <;> simp at hm; subst hm; simpa using this

theorem map_pre_fst {V} (p : Bits) (l : List (Bits × V)) : (l.map (pre p)).map Prod.fst = (l.map Prod.fst).map (p ++ ·) := by
  simp [pre, List.map_map, Function.comp_def]

theorem nodup_of_map_append {l : List Bits} (p : Bits) (h : (l.map (p ++ ·)).Nodup) : l.Nodup := by
  exact (List.pairwise_map.1 h).imp (fun {a b} hab heq => hab (congrArg _ heq))

/-- main structural fact about `build_edge`: if it returns, the tree spells n-bit keys and its leaves are a permutation of the input -/
theorem buildEdge_leaves {V} : ∀ (fuel n : Nat) (src : List (Bits × V)) (t : Edge V),
    (∀ kv ∈ src, kv.1.length = n) → (src.map Prod.fst).Nodup → buildEdge fuel src = some t →
    Edge.Sized t n ∧ List.Perm (Edge.leaves t) src := by
  intro fuel
  induction fuel with
  | zero => intro n src t _ _ h; simp [buildEdge] at h
  | succ fuel ih =>
    intro n src t hlen hnd h
    rw [buildEdge] at h
    dsimp only at h
    split at h
    · simp at h
    · rename_i hne
      -- label is a prefix of every key
      have hpre : ∀ kv ∈ src, findCommonPrefix (src.map (·.1)) <+: kv.1 :=
        fun kv hkv => findCommonPrefix_prefix _ kv.1 (List.mem_map_of_mem (f := (·.1)) hkv)
      generalize hlab : findCommonPrefix (src.map (·.1)) = label at h hpre
      have hsrc : src = (src.map (fun kv => (kv.1.drop label.length, kv.2))).map (pre label) := by
        rw [List.map_map]
        conv => lhs; rw [← List.map_id src]
        apply List.map_congr_left
        intro kv hkv
        obtain ⟨r, hr⟩ := hpre kv hkv
        obtain ⟨k, v⟩ := kv
        simp only at hr
        simp [pre, ← hr]
      generalize hrest : src.map (fun kv => (kv.1.drop label.length, kv.2)) = rest at h hsrc
      have hrlen : ∀ kv ∈ rest, kv.1.length = n - label.length := by
        intro kv hkv
        rw [← hrest] at hkv
        obtain ⟨a, ha, rfl⟩ := List.mem_map.1 hkv
        simp [hlen a ha]
      have hlabn : ∀ kv ∈ src, label.length ≤ n := by
        intro kv hkv
        have := (hpre kv hkv).length_le
        rw [hlen kv hkv] at this; exact this
      split at h
      · -- single entry: leaf
        rename_i k v
        simp at h; subst h
        simp only [List.map_cons, List.map_nil, pre] at hsrc
        have hk : k.length = n - label.length := hrlen (k, v) (by simp)
        have hl := hlabn (label ++ k, v) (by rw [hsrc]; simp)
        have hfull := hlen (label ++ k, v) (by rw [hsrc]; simp)
        -- single key: find_common_prefix returns the key itself
        have hk0 : k = [] := by
          have : src.map (·.1) = [label ++ k] := by rw [hsrc]; simp
          rw [this] at hlab
          simp [findCommonPrefix] at hlab
          exact hlab
        subst hk0
        simp at hfull
        refine ⟨by simpa [Edge.Sized] using hfull, ?_⟩
        rw [hsrc]; simp [Edge.leaves]
      · rename_i hnotsingle
        rw [forkMap_eq] at h
        by_cases hemp : (leftOf rest = [] ∨ rightOf rest = [])
        · simp [hemp] at h
        · have hnonempty := hemp
          simp only [Bool.or_eq_true, List.isEmpty_iff, hemp, if_false] at h
          cases hl : buildEdge fuel (leftOf rest) with
          | none => simp [hl] at h
          | some le =>
            cases hr : buildEdge fuel (rightOf rest) with
            | none => simp [hl, hr] at h
            | some re =>
              simp [hl, hr] at h
              subst h
              -- rest keys are non-empty: otherwise all keys equal the label, contradicting distinctness of ≥ 2 keys
              have hnd_rest : (rest.map Prod.fst).Nodup := by
                rw [hsrc, map_pre_fst] at hnd
                exact nodup_of_map_append _ hnd
              have hpos : 0 < n - label.length := by
                by_contra hz
                have hz : n - label.length = 0 := by omega
                have hall : ∀ kv ∈ rest, kv.1 = [] := fun kv hkv => List.length_eq_zero_iff.1 (by rw [hrlen kv hkv, hz])
                -- rest has ≥ 2 elements or exactly... rest ≠ [] and not singleton
                match rest, hnotsingle, hall, hnd_rest, hnonempty with
                | [], _, _, _, hne' => simp [leftOf] at hne'
                | [(k, v)], hns, _, _, _ => exact hns k v rfl
                | a :: b :: tl, _, hall, hnd', _ =>
                  have ha := hall a (by simp)
                  have hb := hall b (by simp)
                  simp [ha, hb] at hnd'
              obtain ⟨m, hm⟩ : ∃ m, n - label.length = m + 1 := ⟨n - label.length - 1, by omega⟩
              have hrlen' : ∀ kv ∈ rest, kv.1.length = m + 1 := fun kv hkv => by rw [hrlen kv hkv, hm]
              have hne' : ∀ kv ∈ rest, kv.1 ≠ [] := by
                intro kv hkv h0; have := hrlen' kv hkv; rw [h0] at this; simp at this
              have hperm := fork_perm rest hne'
              have hnd2 : ((leftOf rest).map (pre [false]) ++ (rightOf rest).map (pre [true])).map Prod.fst |>.Nodup :=
                (hperm.map Prod.fst).nodup_iff.1 hnd_rest
              rw [List.map_append, map_pre_fst, map_pre_fst] at hnd2
              have hndl : ((leftOf rest).map Prod.fst).Nodup := nodup_of_map_append _ (List.nodup_append.1 hnd2).1
              have hndr : ((rightOf rest).map Prod.fst).Nodup := nodup_of_map_append _ (List.nodup_append.1 hnd2).2.1
              obtain ⟨sl, pl⟩ := ih m (leftOf rest) le (leftOf_len rest m hrlen') hndl hl
              obtain ⟨sr, pr⟩ := ih m (rightOf rest) re (rightOf_len rest m hrlen') hndr hr
              have hsome : ∃ kv, kv ∈ src := by
                cases src with
                | nil => simp at hne
                | cons a _ => exact ⟨a, by simp⟩
              obtain ⟨kv0, hkv0⟩ := hsome
              have := hlabn kv0 hkv0
              refine ⟨⟨m, by omega, sl, sr⟩, ?_⟩
              rw [hsrc]
              simp only [Edge.leaves]
              have e : ∀ (b : Bool) (l : List (Bits × V)), l.map (pre (label ++ [b])) = (l.map (pre [b])).map (pre label) := by
                intro b l; rw [pre_pre]
              rw [e, e, ← List.map_append]
              apply List.Perm.map
              exact ((pl.map _).append (pr.map _)).trans hperm.symm

/-- every leaf key of a sized tree has n bits -/
theorem Sized_len {V} (t : Edge V) : ∀ n, Edge.Sized t n → ∀ kv ∈ Edge.leaves t, kv.1.length = n := by
  induction t with
  | leaf s v => intro n h kv hkv; simp [Edge.leaves] at hkv; subst hkv; exact h
  | fork s l r ihl ihr =>
    intro n ⟨m, hn, hl, hr⟩ kv hkv
    simp only [Edge.leaves, List.mem_append, List.mem_map] at hkv
    rcases hkv with ⟨a, ha, rfl⟩ | ⟨a, ha, rfl⟩
    · have := ihl m hl a ha; simp [pre, this]; omega
    · have := ihr m hr a ha; simp [pre, this]; omega

/-- leaves come out in strictly ascending key order -/
theorem Sized_sorted {V} (t : Edge V) : ∀ n, Edge.Sized t n →
    (Edge.leaves t).Pairwise (fun a b => natOfBits a.1 < natOfBits b.1) := by
  induction t with
  | leaf s v => intro n _; simp [Edge.leaves]
  | fork s l r ihl ihr =>
    intro n ⟨m, hn, hl, hr⟩
    simp only [Edge.leaves]
    rw [List.pairwise_append]
    refine ⟨?_, ?_, ?_⟩
    · rw [List.pairwise_map]
      refine (ihl m hl).imp_of_mem ?_
      intro a b ha hb hab
      have la := Sized_len l m hl a ha
      have lb := Sized_len l m hl b hb
      simp only [pre, natOfBits_append, la, lb]
      omega
    · rw [List.pairwise_map]
      refine (ihr m hr).imp_of_mem ?_
      intro a b ha hb hab
      have la := Sized_len r m hr a ha
      have lb := Sized_len r m hr b hb
      simp only [pre, natOfBits_append, la, lb]
      omega
    · intro a ha b hb
      simp only [List.mem_map] at ha hb
      obtain ⟨a', ha', rfl⟩ := ha
      obtain ⟨b', hb', rfl⟩ := hb
      have la := Sized_len l m hl a' ha'
      have lb := Sized_len r m hr b' hb'
      have h1 := natOfBits_lt a'.1
      simp only [pre, natOfBits_append, la, lb, natOfBits_cons, natOfBits_nil, List.length_cons, List.length_nil] at h1 ⊢
      simp only [Bool.false_eq_true, if_false, if_true, Nat.zero_mul, Nat.zero_add, Nat.add_zero, Nat.pow_zero, Nat.mul_one, Nat.pow_one]
      generalize natOfBits s * 2 = x
      have : (x + 1) * 2 ^ m = x * 2 ^ m + 2 ^ m := by rw [Nat.add_mul]; simp
      omega

/-! ### the HashMap.map dict -/
/-- invariant of `HashMap.map` under `set_int_key`: distinct keys, all below 2^n -/
def DictOK {V} (n : Nat) (d : Dict V) : Prop := (d.map Prod.fst).Nodup ∧ ∀ kv ∈ d, kv.1 < 2 ^ n

theorem dictSet_new {V} (k : Nat) (v : V) (d : Dict V) (h : k ∉ d.map Prod.fst) : dictSet k v d = d ++ [(k, v)] := by
  induction d with
  | nil => simp [dictSet]
  | cons a d ih =>
    obtain ⟨k', v'⟩ := a
    simp only [List.map_cons, List.mem_cons, not_or] at h
    have : ¬ k' = k := fun e => h.1 e.symm
    simp [dictSet, this, ih h.2]

theorem dictSet_keys_old {V} (k : Nat) (v : V) (d : Dict V) (h : k ∈ d.map Prod.fst) :
    (dictSet k v d).map Prod.fst = d.map Prod.fst := by
  induction d with
  | nil => simp at h
  | cons a d ih =>
    obtain ⟨k', v'⟩ := a
    by_cases e : k' = k
    · simp [dictSet, e]
    · simp only [List.map_cons, List.mem_cons] at h
      have : k ∈ d.map Prod.fst := by
        rcases h with h | h
        · exact absurd h.symm e
        · exact h
      simp [dictSet, e, ih this]

theorem dictSet_mem {V} (k : Nat) (v : V) (d : Dict V) : ∀ kv ∈ dictSet k v d, kv ∈ d ∨ kv = (k, v) := by
  induction d with
  | nil => simp [dictSet]
  | cons a d ih =>
    obtain ⟨k', v'⟩ := a
    intro kv hkv
    by_cases e : k' = k
    · simp only [dictSet, e, if_true, List.mem_cons] at hkv
      rcases hkv with h | h
      · right; simp [h]
      · left; simp [h]
    · simp only [dictSet, e, if_false, List.mem_cons] at hkv
      rcases hkv with h | h
      · left; simp [h]
      · rcases ih kv h with h | h
        · left; simp [h]
        · right; exact h

theorem dictSet_ok {V} (n k : Nat) (v : V) (d : Dict V) (hd : DictOK n d) (hk : k < 2 ^ n) : DictOK n (dictSet k v d) := by
  constructor
  · by_cases h : k ∈ d.map Prod.fst
    · rw [dictSet_keys_old k v d h]; exact hd.1
    · rw [dictSet_new k v d h, List.map_append, List.nodup_append]
      refine ⟨hd.1, by simp, ?_⟩
      intro a ha b hb
      simp at hb; subst hb
      intro e; subst e; exact h ha
  · intro kv hkv
    rcases dictSet_mem k v d kv hkv with h | h
    · exact hd.2 kv h
    · subst h; exact hk

theorem setIntKey_ok {V} (n : Nat) (k : Int) (v : V) (d d' : Dict V) (hd : DictOK n d) (h : setIntKey n k v d = some d') :
    DictOK n d' := by
  unfold setIntKey at h
  split at h
  · simp at h
  · rename_i hc
    simp at h; subst h
    apply dictSet_ok n _ v d hd
    have : bitLength k.natAbs ≤ n := by omega
    rw [bitLength_le_iff] at this
    omega

theorem setAll_ok {V} (n : Nat) (ins : List (Int × V)) : ∀ (d d' : Dict V), DictOK n d → setAll n ins d = some d' → DictOK n d' := by
  induction ins with
  | nil => intro d d' hd h; simp [setAll] at h; subst h; exact hd
  | cons a ins ih =>
    intro d d' hd h
    obtain ⟨k, v⟩ := a
    simp only [setAll] at h
    cases h1 : setIntKey n k v d with
    | none => simp [h1] at h
    | some d1 =>
      simp [h1] at h
      exact ih d1 d' (setIntKey_ok n k v d d1 hd h1) h

theorem dictGet_dictSet {V} (k k' : Nat) (v : V) (d : Dict V) :
    dictGet k (dictSet k' v d) = if k = k' then some v else dictGet k d := by
  induction d with
  | nil => simp only [dictSet, dictGet]; by_cases e : k' = k <;> simp [e] <;> omega
  | cons a d ih =>
    obtain ⟨k2, v2⟩ := a
    by_cases e : k2 = k'
    · subst e
      by_cases e2 : k2 = k
      · simp [dictSet, dictGet, e2]
      · have : ¬ k = k2 := fun h => e2 h.symm
        simp [dictSet, dictGet, e2, this]
    · by_cases e2 : k2 = k
      · subst e2; simp [dictSet, dictGet, e]
      · simp [dictSet, dictGet, e, e2, ih]

theorem dictGet_mem {V} (d : Dict V) (h : (d.map Prod.fst).Nodup) (k : Nat) (v : V) : (k, v) ∈ d ↔ dictGet k d = some v := by
  induction d with
  | nil => simp [dictGet]
  | cons a d ih =>
    obtain ⟨k2, v2⟩ := a
    simp only [List.map_cons, List.nodup_cons] at h
    by_cases e : k2 = k
    · subst e
      simp only [dictGet, if_true, List.mem_cons, Prod.mk.injEq, true_and, Option.some.injEq]
      constructor
      · rintro (h1 | h1)
        · exact h1.symm
        · exact absurd (List.mem_map_of_mem (f := Prod.fst) h1) h.1
      · intro h1; left; exact h1.symm
    · have : ¬ k = k2 := fun h => e h.symm
      simp [dictGet, e, this, ih h.2]

/-- value last written for key `k` by a sequence of `set_int_key` calls -/
def lastWrite {V} (ins : List (Int × V)) (k : Nat) : Option V :=
  (ins.reverse.find? (fun p => p.1 = (k : Int))).map (·.2)

theorem dictGet_setAll {V} (n : Nat) (ins : List (Int × V)) : ∀ (d d' : Dict V), setAll n ins d = some d' →
    ∀ k, dictGet k d' = (lastWrite ins k).or (dictGet k d) := by
  induction ins with
  | nil => intro d d' h k; simp [setAll] at h; subst h; simp [lastWrite]
  | cons a ins ih =>
    intro d d' h k
    obtain ⟨kk, v⟩ := a
    simp only [setAll] at h
    cases h1 : setIntKey n kk v d with
    | none => simp [h1] at h
    | some d1 =>
      simp [h1] at h
      rw [ih d1 d' h k]
      unfold setIntKey at h1
      split at h1
      · simp at h1
      · rename_i hc
        simp at h1; subst h1
        rw [dictGet_dictSet]
        simp only [lastWrite, List.reverse_cons, List.find?_append]
        cases hf : List.find? (fun p => decide (p.1 = (k : Int))) ins.reverse with
        | some x => simp
        | none =>
          simp only [Option.none_or, Option.map_none, List.find?_cons, List.find?_nil]
          by_cases e : kk = (k : Int)
          · have h2 : k = kk.toNat := by omega
            rw [if_pos h2]; simp [e]
          · have h2 : ¬ k = kk.toNat := by omega
            rw [if_neg h2]; simp [e]

/-! ### serialize -/
theorem valid_ordinary {ok n c kv} (h : ValidHMK ok false n c kv) : ∃ b r, c = .mk (-1) b r := by
  cases h with
  | leaf => exact ⟨_, _, rfl⟩
  | fork => exact ⟨_, _, rfl⟩

theorem valid_mono {ok ok' : Nat → Bits → LabelKind → Prop} (hmono : ∀ m s k, ok m s k → ok' m s k) {p n c kv}
    (h : ValidHMK ok p n c kv) : ValidHMK ok' p n c kv := by
  induction h with
  | leaf hl hok hn => exact ValidHMK.leaf hl (hmono _ _ _ hok) hn
  | fork hl hok hn _ _ ihl ihr => exact ValidHMK.fork hl (hmono _ _ _ hok) hn ihl ihr
  | pruned hb => exact ValidHMK.pruned hb

theorem nodup_map_on {α β} (f : α → β) (l : List α) (hinj : ∀ a ∈ l, ∀ b ∈ l, f a = f b → a = b) (h : l.Nodup) :
    (l.map f).Nodup := by
  unfold List.Nodup at *
  rw [List.pairwise_map]
  exact h.imp_of_mem (fun {a b} ha hb hab e => hab (hinj a ha b hb e))

/-- what `HashMap.serialize()` returns, when it returns: the canonical tree of the map -/
theorem serialize_canonical {V} (n : Nat) (hn : 0 < n) (ser : V → Option Val) (d : Dict V) (c : Cell)
    (hd : DictOK n d) (h : serialize n ser d = some (some c)) :
    ∃ kv : List (Bits × Val), Canonical n c kv ∧
      kv.Pairwise (fun a b => natOfBits a.1 < natOfBits b.1) ∧ (∀ p ∈ kv, p.1.length = n) ∧
      ∀ kb val, (kb, val) ∈ kv ↔ ∃ k v, (k, v) ∈ d ∧ kb = keyBits n k ∧ ser v = some val := by
  unfold serialize at h
  split at h
  · simp at h
  · simp only [Option.bind_eq_bind] at h
    cases ht : buildTree n d with
    | none => simp [ht] at h
    | some t =>
      cases hc : writeEdge ser t n with
      | none => simp [ht, hc] at h
      | some c' =>
        simp [ht, hc] at h
        subst h
        unfold buildTree at ht
        have hlen : ∀ kv ∈ d.map (fun kv => (keyBits n kv.1, kv.2)), kv.1.length = n := by
          intro kv hkv
          obtain ⟨a, ha, rfl⟩ := List.mem_map.1 hkv
          exact keyBits_length n a.1 hn (hd.2 a ha)
        have hnd : ((d.map (fun kv => (keyBits n kv.1, kv.2))).map Prod.fst).Nodup := by
          rw [List.map_map]
          have : (Prod.fst ∘ fun kv : Nat × V => (keyBits n kv.1, kv.2)) = (keyBits n) ∘ Prod.fst := by funext x; rfl
          rw [this, ← List.map_map]
          refine nodup_map_on _ _ ?_ hd.1
          intro a _ b _ hab
          have := congrArg natOfBits hab
          simpa [natOfBits_keyBits] using this
        obtain ⟨hsz, hperm⟩ := buildEdge_leaves (n + 1) n _ t hlen hnd ht
        obtain ⟨kv, hvalid, hkv⟩ := writeEdge_valid ser t n c' hsz hc
        have hfst : kv.map Prod.fst = (Edge.leaves t).map Prod.fst := by
          have := congrArg (List.map Prod.fst) hkv
          simpa [List.map_map, Function.comp_def, serKV, someKV] using this.symm
        refine ⟨kv, hvalid, ?_, ?_, ?_⟩
        · have hs := Sized_sorted t n hsz
          have h1 : ((Edge.leaves t).map Prod.fst).Pairwise (fun a b => natOfBits a < natOfBits b) := by
            rw [List.pairwise_map]; exact hs
          rw [← hfst, List.pairwise_map] at h1
          exact h1
        · intro p hp
          have : p.1 ∈ (Edge.leaves t).map Prod.fst := by rw [← hfst]; exact List.mem_map_of_mem (f := Prod.fst) hp
          obtain ⟨a, ha, hae⟩ := List.mem_map.1 this
          rw [← hae]; exact Sized_len t n hsz a ha
        · intro kb val
          have e1 : (kb, val) ∈ kv ↔ (kb, some val) ∈ kv.map someKV := by
            constructor
            · intro hm; exact List.mem_map.2 ⟨(kb, val), hm, rfl⟩
            · intro hm
              obtain ⟨a, ha, hae⟩ := List.mem_map.1 hm
              obtain ⟨a1, a2⟩ := a
              simp [someKV] at hae
              rw [← hae.1, ← hae.2]; exact ha
          rw [e1, ← hkv]
          simp only [List.mem_map, serKV, Prod.mk.injEq]
          constructor
          · rintro ⟨a, ha, h1, h2⟩
            have := hperm.mem_iff.1 ha
            obtain ⟨x, hx, hxe⟩ := List.mem_map.1 this
            refine ⟨x.1, x.2, hx, ?_, ?_⟩
            · rw [← h1, ← hxe]
            · rw [← h2, ← hxe]
          · rintro ⟨k, v, hmem, rfl, hser⟩
            refine ⟨(keyBits n k, v), ?_, rfl, hser⟩
            exact hperm.mem_iff.2 (List.mem_map.2 ⟨(k, v), hmem, rfl⟩)

theorem intKeys_sorted {V} (kv : List (Bits × V)) (h : kv.Pairwise (fun a b => natOfBits a.1 < natOfBits b.1)) :
    intKeys kv = kv.map (fun p => (natOfBits p.1, p.2)) := by
  unfold intKeys
  suffices H : ∀ (acc : Dict V), (∀ a ∈ acc, ∀ b ∈ kv, a.1 < natOfBits b.1) →
      kv.foldl (fun d p => dictSet (natOfBits p.1) p.2 d) acc = acc ++ kv.map (fun p => (natOfBits p.1, p.2)) by
    simpa using H [] (by simp)
  induction kv with
  | nil => intro acc _; simp
  | cons x kv ih =>
    intro acc hacc
    rw [List.pairwise_cons] at h
    simp only [List.foldl_cons, List.map_cons]
    have hnew : natOfBits x.1 ∉ acc.map Prod.fst := by
      intro hm
      obtain ⟨a, ha, hae⟩ := List.mem_map.1 hm
      have := hacc a ha x (by simp)
      omega
    rw [dictSet_new _ _ _ hnew, ih h.2]
    · simp
    · intro a ha b hb
      rcases List.mem_append.1 ha with ha | ha
      · exact hacc a ha b (by simp [hb])
      · simp at ha; subst ha; exact h.1 b hb

/-! ### augmented parser, API level -/
theorem validAug_len {X Y : Type} {D : AugDec X Y} {p n c kv ex} (h : ValidAug D p n c kv ex) : ∀ q ∈ kv, q.1.length = n := by
  induction h with
  | leaf _ hn _ _ => intro q hq; simp at hq; subst hq; exact hn
  | fork _ hn _ _ _ ihl ihr =>
    intro q hq
    simp only [List.mem_append, List.mem_map] at hq
    rcases hq with ⟨a, ha, rfl⟩ | ⟨a, ha, rfl⟩
    · have := ihl a ha; simp [pre, this]; omega
    · have := ihr a ha; simp [pre, this]; omega
  | pruned _ => intro q hq; simp at hq

theorem parseHashmapAug_valid {X Y : Type} {D : AugDec X Y} {p : Bool} {n : Nat} {bits refs} {kv : List (Bits × X)} {ex : List Y}
    (hn : 0 < n) (h : ValidAug D p n (.mk (-1) bits refs) kv ex) :
    (match parseHashmapAug D (.mk (-1) bits refs) n with | .dict r => r = (intKeys kv, ex) | _ => False) := by
  have hp := parseAugEdge_valid h []
  rw [map_pre_nil] at hp
  have hne : kv.any (fun p => p.1.isEmpty) = false := by
    rw [List.any_eq_false]
    intro q hq
    have := validAug_len h q hq
    cases hq1 : q.1 with
    | nil => rw [hq1] at this; simp at this; omega
    | cons a t => simp
  simp [parseHashmapAug, hp, hne]


/-! ### build_edge never trips its assertions -/
theorem lexLe_antisymm (a b : Bits) : lexLe a b = true → lexLe b a = true → a = b := by
  induction a generalizing b with
  | nil => cases b <;> simp [lexLe]
  | cons x t ih =>
    cases b with
    | nil => simp [lexLe]
    | cons y u =>
      simp only [lexLe]
      cases x <;> cases y <;> simp <;> exact ih u

theorem lexMin_mem (k : Bits) (ks : List Bits) : lexMin k ks ∈ k :: ks := by
  induction ks generalizing k with
  | nil => simp [lexMin]
  | cons b ks ih =>
    have hstep : lexMin k (b :: ks) = lexMin (if lexLe k b then k else b) ks := by simp [lexMin]
    rw [hstep]
    have := ih (if lexLe k b then k else b)
    by_cases hkb : lexLe k b = true
    · simp only [hkb, if_true] at this ⊢
      rcases List.mem_cons.1 this with h | h
      · rw [h]; simp
      · exact List.mem_cons_of_mem _ (List.mem_cons_of_mem _ h)
    · simp only [hkb] at this ⊢
      simp only [Bool.false_eq_true, if_false] at this ⊢
      rcases List.mem_cons.1 this with h | h
      · rw [h]; simp
      · exact List.mem_cons_of_mem _ (List.mem_cons_of_mem _ h)

theorem lexMax_mem (k : Bits) (ks : List Bits) : lexMax k ks ∈ k :: ks := by
  induction ks generalizing k with
  | nil => simp [lexMax]
  | cons b ks ih =>
    have hstep : lexMax k (b :: ks) = lexMax (if lexLe k b then b else k) ks := by simp [lexMax]
    rw [hstep]
    have := ih (if lexLe k b then b else k)
    by_cases hkb : lexLe k b = true
    · simp only [hkb, if_true] at this ⊢
      rcases List.mem_cons.1 this with h | h
      · rw [h]; simp
      · exact List.mem_cons_of_mem _ (List.mem_cons_of_mem _ h)
    · simp only [hkb] at this ⊢
      simp only [Bool.false_eq_true, if_false] at this ⊢
      rcases List.mem_cons.1 this with h | h
      · rw [h]; simp
      · exact List.mem_cons_of_mem _ (List.mem_cons_of_mem _ h)

/-- two different strings of equal length in lexicographic order split as cp·0·x / cp·1·y -/
theorem commonPrefix_split (a b : Bits) (hl : a.length = b.length) (hne : a ≠ b) (hle : lexLe a b = true) :
    ∃ x y, a = commonPrefix a b ++ false :: x ∧ b = commonPrefix a b ++ true :: y := by
  induction a generalizing b with
  | nil => cases b <;> simp at hl hne
  | cons p t ih =>
    cases b with
    | nil => simp at hl
    | cons q u =>
      simp only [lexLe] at hle
      simp only [commonPrefix]
      by_cases e : p = q
      · subst e
        simp at hle hl hne
        obtain ⟨x, y, h1, h2⟩ := ih u hl hne hle
        refine ⟨x, y, ?_, ?_⟩
        · simp; exact h1
        · simp; exact h2
      · cases p <;> cases q <;> simp at e hle ⊢

/-- with at least two distinct keys of equal length, the key right after the common prefix is 0 in one key and 1 in another -/
theorem findCommonPrefix_forks (k1 k2 : Bits) (ks : List Bits) (n : Nat) (hlen : ∀ x ∈ k1 :: k2 :: ks, x.length = n)
    (hnd : (k1 :: k2 :: ks).Nodup) :
    ∃ a b x y, a ∈ k1 :: k2 :: ks ∧ b ∈ k1 :: k2 :: ks ∧
      a = findCommonPrefix (k1 :: k2 :: ks) ++ false :: x ∧ b = findCommonPrefix (k1 :: k2 :: ks) ++ true :: y := by
  simp only [findCommonPrefix]
  have hmin := lexMin_mem k1 (k2 :: ks)
  have hmax := lexMax_mem k1 (k2 :: ks)
  have hle : lexLe (lexMin k1 (k2 :: ks)) (lexMax k1 (k2 :: ks)) = true := le_lexMax k1 (k2 :: ks) _ hmin
  have hne : lexMin k1 (k2 :: ks) ≠ lexMax k1 (k2 :: ks) := by
    intro e
    have all_eq : ∀ x ∈ k1 :: k2 :: ks, x = lexMin k1 (k2 :: ks) := by
      intro x hx
      apply lexLe_antisymm
      · rw [e]; exact le_lexMax k1 (k2 :: ks) x hx
      · exact lexMin_le k1 (k2 :: ks) x hx
    have h1 := all_eq k1 (by simp)
    have h2 := all_eq k2 (by simp)
    rw [List.nodup_cons] at hnd
    exact hnd.1 (by rw [h1, ← h2]; simp)
  obtain ⟨x, y, h1, h2⟩ := commonPrefix_split _ _ (by rw [hlen _ hmin, hlen _ hmax]) hne hle
  exact ⟨_, _, x, y, hmin, hmax, h1, h2⟩

/-- `build_edge` never trips its assertions on distinct keys of equal length: the tree exists (fuel n+1 suffices) -/
theorem buildEdge_exists {V} : ∀ (fuel n : Nat) (src : List (Bits × V)), n < fuel → src ≠ [] →
    (∀ kv ∈ src, kv.1.length = n) → (src.map Prod.fst).Nodup → ∃ t, buildEdge fuel src = some t := by
  intro fuel
  induction fuel with
  | zero => intro n src h; omega
  | succ fuel ih =>
    intro n src hfuel hne hlen hnd
    rw [buildEdge]
    dsimp only
    have hne' : src.isEmpty = false := by cases src <;> simp at hne ⊢
    rw [hne']
    simp only [Bool.false_eq_true, if_false]
    have hpre : ∀ kv ∈ src, findCommonPrefix (src.map (·.1)) <+: kv.1 :=
      fun kv hkv => findCommonPrefix_prefix _ kv.1 (List.mem_map_of_mem (f := (·.1)) hkv)
    match src, hne, hlen, hnd, hpre with
    | [(k, v)], _, _, _, _ => simp [findCommonPrefix]
    | (k1, v1) :: (k2, v2) :: tl, _, hlen, hnd, hpre =>
      obtain ⟨a, b, x, y, ha, hb, hax, hby⟩ := findCommonPrefix_forks k1 k2 (tl.map (·.1)) n
        (by intro z hz
            have : z ∈ ((k1, v1) :: (k2, v2) :: tl).map (·.1) := by simpa using hz
            obtain ⟨q, hq, rfl⟩ := List.mem_map.1 this
            exact hlen q hq)
        (by simpa using hnd)
      generalize hlab : findCommonPrefix (((k1, v1) :: (k2, v2) :: tl).map (·.1)) = label at hpre
      have hlab' : findCommonPrefix (k1 :: k2 :: tl.map (·.1)) = label := by simpa using hlab
      rw [hlab'] at hax hby
      generalize hsrc : ((k1, v1) :: (k2, v2) :: tl) = src at *
      generalize hrest : src.map (fun kv => (kv.1.drop label.length, kv.2)) = rest
      have hrl : rest.length = src.length := by rw [← hrest]; simp
      have h2 : 2 ≤ rest.length := by rw [hrl, ← hsrc]; simp
      -- membership of the two witnesses in `rest`
      have ha' : ∃ va, (false :: x, va) ∈ rest := by
        have : a ∈ src.map (·.1) := by rw [← hsrc]; simpa using ha
        obtain ⟨q, hq, hqa⟩ := List.mem_map.1 this
        refine ⟨q.2, ?_⟩
        rw [← hrest]
        refine List.mem_map.2 ⟨q, hq, ?_⟩
        show (List.drop label.length q.1, q.2) = _
        rw [hqa, hax]; simp
      have hb' : ∃ vb, (true :: y, vb) ∈ rest := by
        have : b ∈ src.map (·.1) := by rw [← hsrc]; simpa using hb
        obtain ⟨q, hq, hqb⟩ := List.mem_map.1 this
        refine ⟨q.2, ?_⟩
        rw [← hrest]
        refine List.mem_map.2 ⟨q, hq, ?_⟩
        show (List.drop label.length q.1, q.2) = _
        rw [hqb, hby]; simp
      have hL : leftOf rest ≠ [] := by
        obtain ⟨va, hva⟩ := ha'
        intro e
        have : (x, va) ∈ leftOf rest := by
          simp only [leftOf, List.mem_filterMap]
          exact ⟨(false :: x, va), hva, rfl⟩
        rw [e] at this; simp at this
      have hR : rightOf rest ≠ [] := by
        obtain ⟨vb, hvb⟩ := hb'
        intro e
        have : (y, vb) ∈ rightOf rest := by
          simp only [rightOf, List.mem_filterMap]
          exact ⟨(true :: y, vb), hvb, by simp⟩
        rw [e] at this; simp at this
      -- lengths / distinctness for the recursive calls
      have hlabn : label.length + 1 ≤ n := by
        have := hlen _ (by rw [← hsrc] at *; exact (List.mem_map.1 (by simpa using ha : a ∈ ((k1, v1) :: (k2, v2) :: tl).map (·.1))).choose_spec.1)
        have hq := (List.mem_map.1 (by simpa using ha : a ∈ ((k1, v1) :: (k2, v2) :: tl).map (·.1))).choose_spec.2
        rw [hq, hax] at this
        simp at this; omega
      obtain ⟨m, hm⟩ : ∃ m, n - label.length = m + 1 := ⟨n - label.length - 1, by omega⟩
      have hrlen : ∀ kv ∈ rest, kv.1.length = m + 1 := by
        intro kv hkv
        rw [← hrest] at hkv
        obtain ⟨q, hq, rfl⟩ := List.mem_map.1 hkv
        simp [hlen q hq, hm]
      have hsrc' : src = rest.map (pre label) := by
        rw [← hrest, List.map_map]
        conv => lhs; rw [← List.map_id src]
        apply List.map_congr_left
        intro kv hkv
        obtain ⟨r, hr⟩ := hpre kv hkv
        obtain ⟨k, v⟩ := kv
        simp only at hr
        simp [pre, ← hr]
      have hnd_rest : (rest.map Prod.fst).Nodup := by
        rw [hsrc', map_pre_fst] at hnd
        exact nodup_of_map_append _ hnd
      have hne'' : ∀ kv ∈ rest, kv.1 ≠ [] := by
        intro kv hkv h0; have := hrlen kv hkv; rw [h0] at this; simp at this
      have hperm := fork_perm rest hne''
      have hnd2 : ((leftOf rest).map (pre [false]) ++ (rightOf rest).map (pre [true])).map Prod.fst |>.Nodup :=
        (hperm.map Prod.fst).nodup_iff.1 hnd_rest
      rw [List.map_append, map_pre_fst, map_pre_fst] at hnd2
      have hndl : ((leftOf rest).map Prod.fst).Nodup := nodup_of_map_append _ (List.nodup_append.1 hnd2).1
      have hndr : ((rightOf rest).map Prod.fst).Nodup := nodup_of_map_append _ (List.nodup_append.1 hnd2).2.1
      obtain ⟨tl', htl⟩ := ih m (leftOf rest) (by omega) hL (leftOf_len rest m hrlen) hndl
      obtain ⟨tr', htr⟩ := ih m (rightOf rest) (by omega) hR (rightOf_len rest m hrlen) hndr
      obtain ⟨r1, r2, rtl, hrr⟩ : ∃ r1 r2 rtl, rest = r1 :: r2 :: rtl := by
        match rest, h2 with
        | a :: b :: t, _ => exact ⟨a, b, t, rfl⟩
      have hfm : forkMap rest = some (leftOf rest, rightOf rest) := by
        rw [forkMap_eq]; simp [hL, hR]
      rw [hrr] at hfm ⊢
      simp only [hfm]
      rw [← hrr, htl, htr]
      exact ⟨_, rfl⟩

/-! ### capacity -/
theorem LabelEnc_length {m s k lb} (h : LabelEnc m s k lb) : lb.length = encLen k s.length m := by
  cases h <;> simp [encLen, natToBits_length] <;> omega

/-- explicit capacity condition: every cell of the tree holds its (reference-kind) label plus, for a leaf, the value -/
def Edge.Fits {V} (ser : V → Option Val) : Edge V → Nat → Prop
  | .leaf s v, n => ∃ vb vr, ser v = some (vb, vr) ∧
      encLen (refLabelKind s.length n (allSame s)) s.length n + vb.length ≤ 1023 ∧ vr.length ≤ 4
  | .fork s l r, n => encLen (refLabelKind s.length n (allSame s)) s.length n ≤ 1023 ∧
      Edge.Fits ser l (n - s.length - 1) ∧ Edge.Fits ser r (n - s.length - 1)

theorem writeEdge_iff {V} (ser : V → Option Val) (t : Edge V) : ∀ n, Edge.Sized t n →
    ((writeEdge ser t n).isSome ↔ Edge.Fits ser t n) := by
  induction t with
  | leaf s v =>
    intro n hs
    simp only [Edge.Sized] at hs
    obtain ⟨lb, hlb⟩ := labelBits_some (s := s) (n := n) (by omega)
    have hlen := LabelEnc_length (labelBits_enc (by omega) hlb)
    simp only [writeEdge, Option.bind_eq_bind, hlb, Option.bind_some, Edge.Fits]
    cases hv : ser v with
    | none => simp
    | some val =>
      obtain ⟨vb, vr⟩ := val
      simp only [Option.bind_some, List.length_append, hlen]
      by_cases hc : encLen (refLabelKind s.length n (allSame s)) s.length n + vb.length > 1023 ∨ vr.length > 4
      · simp [hc]; intro a; omega
      · simp [hc]; omega
  | fork s l r ihl ihr =>
    intro n ⟨m, hn, hsl, hsr⟩
    obtain ⟨lb, hlb⟩ := labelBits_some (s := s) (n := n) (by omega)
    have hlen := LabelEnc_length (labelBits_enc (by omega) hlb)
    have hm : n - s.length - 1 = m := by omega
    simp only [writeEdge, Option.bind_eq_bind, hlb, Option.bind_some, Edge.Fits, hm, hlen]
    have il := ihl m hsl
    have ir := ihr m hsr
    by_cases hc : encLen (refLabelKind s.length n (allSame s)) s.length n > 1023
    · simp [hc]; try omega
    · simp only [hc, if_false]
      cases hl : writeEdge ser l m with
      | none => simp [hl] at il ⊢; intro _ h; exact absurd h il
      | some lc =>
        cases hr : writeEdge ser r m with
        | none => simp [hr] at ir ⊢; intro _ _ h; exact absurd h ir
        | some rc =>
          simp [hl, hr] at il ir ⊢
          exact ⟨by omega, il, ir⟩

/-- CAPACITY, explicitly: the tree of a non-empty map always exists, and `serialize()` succeeds iff every cell fits -/
theorem serialize_iff_fits {V} (n : Nat) (hn : 0 < n) (ser : V → Option Val) (d : Dict V) (hd : DictOK n d) (hne : d ≠ []) :
    ∃ t, buildTree n d = some t ∧ Edge.Sized t n ∧ ((serialize n ser d).isSome ↔ Edge.Fits ser t n) := by
  have hlen : ∀ kv ∈ d.map (fun kv => (keyBits n kv.1, kv.2)), kv.1.length = n := by
    intro kv hkv
    obtain ⟨a, ha, rfl⟩ := List.mem_map.1 hkv
    exact keyBits_length n a.1 hn (hd.2 a ha)
  have hnd : ((d.map (fun kv => (keyBits n kv.1, kv.2))).map Prod.fst).Nodup := by
    rw [List.map_map]
    have : (Prod.fst ∘ fun kv : Nat × V => (keyBits n kv.1, kv.2)) = (keyBits n) ∘ Prod.fst := by funext x; rfl
    rw [this, ← List.map_map]
    refine nodup_map_on _ _ ?_ hd.1
    intro a _ b _ hab
    have := congrArg natOfBits hab
    simpa [natOfBits_keyBits] using this
  obtain ⟨t, ht⟩ := buildEdge_exists (n + 1) n (d.map (fun kv => (keyBits n kv.1, kv.2))) (by omega) (by simpa using hne) hlen hnd
  have hsz := (buildEdge_leaves (n + 1) n _ t hlen hnd ht).1
  refine ⟨t, ht, hsz, ?_⟩
  have hbt : buildTree n d = some t := ht
  have he : d.isEmpty = false := by cases d <;> simp at hne ⊢
  rw [← writeEdge_iff ser t n hsz]
  simp only [serialize, he, Bool.false_eq_true, if_false, hbt, Option.bind_eq_bind, Option.bind_some]
  cases writeEdge ser t n <;> simp

theorem bl1023 : bitLength 1023 = 10 := by simp [bitLength]

/-- width 1023, the single all-zero key: the label is `hml_same` (13 bits), so any value of up to 1010 bits and ≤ 4 refs fits -/
theorem fits_zero_key {V} (ser : V → Option Val) (v : V) (vb : Bits) (vr : List Cell) (hv : ser v = some (vb, vr))
    (hb : vb.length ≤ 1010) (hr : vr.length ≤ 4) : Edge.Fits ser (.leaf (List.replicate 1023 false) v) 1023 := by
  have hs : allSame (List.replicate 1023 false) = true := (allSame_iff _).2 ⟨false, by rw [List.length_replicate]⟩
  refine ⟨vb, vr, hv, ?_, hr⟩
  simp only [List.length_replicate, hs, refLabelKind, lenBits, bl1023, encLen]
  simp; omega

/-- width 1023, a single key that is not all-0/all-1: the shortest label needs 2+10+1023 bits — never serialisable -/
theorem not_fits_wide_key {V} (ser : V → Option Val) (v : V) (s : Bits) (hl : s.length = 1023) (hs : allSame s = false) :
    ¬ Edge.Fits ser (.leaf s v) 1023 := by
  rintro ⟨vb, vr, _, h, _⟩
  simp only [hl, hs, refLabelKind, lenBits, bl1023, encLen] at h
  simp at h
  omega

/-! ### uniqueness of the canonical tree -/
theorem valid_nonempty' {ok p n c kv} (h : ValidHMK ok p n c kv) : p = false → kv ≠ [] := by
  induction h with
  | leaf => intro _; simp
  | fork _ _ _ _ _ ihl _ => intro hp; simp [ihl hp]
  | pruned _ => intro hp; simp at hp

theorem valid_nonempty {ok n c kv} (h : ValidHMK ok false n c kv) : kv ≠ [] := valid_nonempty' h rfl

theorem valid_keylen {ok p n c kv} (h : ValidHMK ok p n c kv) : ∀ q ∈ kv, q.1.length = n := by
  induction h with
  | leaf _ _ hn => intro q hq; simp at hq; subst hq; exact hn
  | fork _ _ hn _ _ ihl ihr =>
    intro q hq
    simp only [List.mem_append, List.mem_map] at hq
    rcases hq with ⟨a, ha, rfl⟩ | ⟨a, ha, rfl⟩
    · have := ihl a ha; simp [pre, this]; omega
    · have := ihr a ha; simp [pre, this]; omega
  | pruned _ => intro q hq; simp at hq

theorem LabelEnc_unique {m s k lb lb'} (h : LabelEnc m s k lb) (h' : LabelEnc m s k lb') (hs : k = .same → s ≠ []) : lb = lb' := by
  cases h with
  | short _ => cases h'; rfl
  | long _ => cases h'; rfl
  | same v hv _ =>
    cases h' with
    | same v' hv' _ =>
      have hne := hs rfl
      have : v = v' := by
        cases s with
        | nil => exact absurd rfl hne
        | cons a t =>
          rw [List.length_cons, List.replicate_succ] at hv hv'
          have h1 := (List.cons.inj hv).1
          have h2 := (List.cons.inj hv').1
          rw [← h1, ← h2]
      subst this; rfl

theorem refPolicy_same_ne {m s} (h : refLabelKind s.length m (allSame s) = .same) : s ≠ [] := by
  intro e; subst e
  simp [refLabelKind] at h

theorem pre_inj {α} (p : Bits) : Function.Injective (pre p : Bits × α → Bits × α) := by
  intro a b h
  obtain ⟨a1, a2⟩ := a; obtain ⟨b1, b2⟩ := b
  simp [pre] at h
  simp [h.1, h.2]

/-- two fork decompositions of the same leaf list coincide -/
theorem fork_split_unique {α} (s s' : Bits) (kvl kvr kvl' kvr' : List (Bits × α))
    (hl : kvl ≠ []) (hr : kvr ≠ []) (hl' : kvl' ≠ []) (hr' : kvr' ≠ [])
    (h : kvl.map (pre (s ++ [false])) ++ kvr.map (pre (s ++ [true])) = kvl'.map (pre (s' ++ [false])) ++ kvr'.map (pre (s' ++ [true]))) :
    s = s' ∧ kvl = kvl' ∧ kvr = kvr' := by
  -- first and last keys
  have hlast : ∃ b b', s ++ true :: b = s' ++ true :: b' := by
    have := congrArg (fun l => (l.getLast?).map Prod.fst) h
    obtain ⟨b, tb, hb⟩ := List.exists_cons_of_ne_nil hr
    obtain ⟨b', tb', hb'⟩ := List.exists_cons_of_ne_nil hr'
    have e1 : (kvr.map (pre (s ++ [true]))) ≠ [] := by simp [hr]
    have e2 : (kvr'.map (pre (s' ++ [true]))) ≠ [] := by simp [hr']
    cases h1 : kvr.getLast? with
    | none => simp [List.getLast?_eq_none_iff] at h1; exact absurd h1 hr
    | some x =>
      cases h2 : kvr'.getLast? with
      | none => simp [List.getLast?_eq_none_iff] at h2; exact absurd h2 hr'
      | some y =>
        simp [List.getLast?_append, List.getLast?_map, h1, h2, pre] at this
        exact ⟨x.1, y.1, this⟩
  obtain ⟨b, b', hlast⟩ := hlast
  obtain ⟨a, ta, rfl⟩ := List.exists_cons_of_ne_nil hl
  obtain ⟨a', ta', rfl⟩ := List.exists_cons_of_ne_nil hl'
  have hfirst : s ++ false :: a.1 = s' ++ false :: a'.1 := by
    have := congrArg (fun l => (l.head?).map Prod.fst) h
    simpa [pre] using this
  have hs : s = s' := by
    rcases List.append_eq_append_iff.1 hfirst with ⟨c, hc1, hc2⟩ | ⟨c, hc1, hc2⟩
    · cases c with
      | nil => simpa using hc1.symm
      | cons x c =>
        rw [hc1] at hlast
        simp at hc2 hlast
        have := hc2.1.symm.trans hlast.1
        simp at this
    · cases c with
      | nil => simpa using hc1
      | cons x c =>
        rw [hc1] at hlast
        simp at hc2 hlast
        have := hc2.1.symm.trans hlast.1
        simp at this
  subst hs
  refine ⟨rfl, ?_⟩
  have hbit : ∀ (x : Bits × α) (l1 l2 : List (Bits × α)), x ∈ l1.map (pre (s ++ [false])) → x ∈ l2.map (pre (s ++ [true])) → False := by
    intro x l1 l2 h1 h2
    obtain ⟨u, _, rfl⟩ := List.mem_map.1 h1
    obtain ⟨w, _, hw⟩ := List.mem_map.1 h2
    have := congrArg Prod.fst hw
    simp [pre] at this
  rcases List.append_eq_append_iff.1 h with ⟨c, hc1, hc2⟩ | ⟨c, hc1, hc2⟩
  · cases c with
    | nil =>
      rw [List.append_nil] at hc1; rw [List.nil_append] at hc2
      exact ⟨(List.map_inj_right (pre_inj _)).1 hc1.symm, (List.map_inj_right (pre_inj _)).1 hc2⟩
    | cons x c =>
      exact absurd (hbit x _ _ (by rw [hc1]; simp) (by rw [hc2]; simp)) id
  · cases c with
    | nil =>
      rw [List.append_nil] at hc1; rw [List.nil_append] at hc2
      exact ⟨(List.map_inj_right (pre_inj _)).1 hc1, (List.map_inj_right (pre_inj _)).1 hc2.symm⟩
    | cons x c =>
      exact absurd (hbit x _ _ (by rw [hc1]; simp) (by rw [hc2]; simp)) id

/-- UNIQUENESS of the canonical tree -/
theorem canonical_unique' {p n c1 kv} (h1 : ValidHMK refPolicy p n c1 kv) : p = false →
    ∀ c2 kv', kv = kv' → ValidHMK refPolicy false n c2 kv' → c1 = c2 := by
  induction h1 with
  | pruned _ => intro hp; simp at hp
  | @leaf p n s k lb vb vr hl hok hn =>
    intro hp c2 kv' hkv h2
    subst hp
    cases h2 with
    | @leaf _ _ s' k' lb' vb' vr' hl' hok' hn' =>
      simp at hkv
      obtain ⟨rfl, rfl, rfl⟩ := hkv
      have hk : k = k' := by rw [hok, hok']
      subst hk
      have := LabelEnc_unique hl hl' (fun e => refPolicy_same_ne (by rw [← hok, e]))
      rw [this]
    | @fork _ _ m' s' k' lb' l' r' kvl' kvr' hl' hok' hn' hvl' hvr' =>
      have e1 := valid_nonempty hvl'
      have e2 := valid_nonempty hvr'
      have := congrArg List.length hkv
      simp at this
      have p1 : 0 < kvl'.length := List.length_pos_iff.2 e1
      have p2 : 0 < kvr'.length := List.length_pos_iff.2 e2
      omega
  | @fork p n m s k lb l r kvl kvr hl hok hn hvl hvr ihl ihr =>
    intro hp c2 kv' hkv h2
    subst hp
    cases h2 with
    | @leaf _ _ s' k' lb' vb' vr' hl' hok' hn' =>
      have e1 := valid_nonempty hvl
      have e2 := valid_nonempty hvr
      have := congrArg List.length hkv
      simp at this
      have p1 : 0 < kvl.length := List.length_pos_iff.2 e1
      have p2 : 0 < kvr.length := List.length_pos_iff.2 e2
      omega
    | @fork _ _ m' s' k' lb' l' r' kvl' kvr' hl' hok' hn' hvl' hvr' =>
      obtain ⟨rfl, rfl, rfl⟩ := fork_split_unique s s' kvl kvr kvl' kvr' (valid_nonempty hvl) (valid_nonempty hvr)
        (valid_nonempty hvl') (valid_nonempty hvr') hkv
      have hm : m = m' := by omega
      subst hm
      have hk : k = k' := by rw [hok, hok']
      subst hk
      have e := LabelEnc_unique hl hl' (fun e => refPolicy_same_ne (by rw [← hok, e]))
      rw [e, ihl rfl l' kvl rfl hvl', ihr rfl r' kvr rfl hvr']

end TonVerif.Proofs.Hashmap
