/-
Generation-independent lemmas about the three loops of `Boc.deserialize` as the translator harness/translate/pyloops.py
renders them (`Py.loop?` over a range with the loop-carried variables as state) against the hand model's recursions
`readCells`, `rebuildFrom` and the root `mapM` (Model/BocParse.lean).  Every lemma takes the loop BODY as a parameter together
with a hypothesis saying what the body computes, so nothing here mentions a `Generated.*` function (only the generated record
type `CellOut`): the generation-dependent file Proofs/SrcBocDeser.lean has to show just that the regenerated bodies compute that.

* `cells_loop`    first loop = `readCells` (state `(i, cells_array)`; the position is not used afterwards)
* `refs_loop`     inner loop of the second loop = `mapM` over the reference list
* `rebuild_loop`  second loop over `reversed(range(n))` with the in-place update `cells_array[ci]['result'] = ..` = `rebuildFrom`:
                  after the iterations `n-1 … k` the array is the records below `k` unchanged followed by the records from `k` on
                  with their results set (`setRes`); a reference `r < k` raises, `r = k` picks up `None` (the callback raises on
                  it: `liftMk`), `r > k` picks up the result of cell `r`, `r ≥ n` is an IndexError
* `roots_loop`    third loop = `mapM` over the root list
-/
import TonVerif.Model.BocCellsView
import TonVerif.Proofs.SrcLoops
import TonVerif.Proofs.BocParse
set_option linter.unusedSimpArgs false

namespace TonVerif.Proofs.BocDeserLoops
open TonVerif TonVerif.Model TonVerif.Model.BocParse TonVerif.Generated.BocHeader TonVerif.Generated.BocCells
open TonVerif.Proofs.SrcBytes TonVerif.Proofs.SrcLoops

theorem mapM_cons' {α β : Type} (f : α → Option β) (x : α) (xs : List α) :
    (x :: xs).mapM f = (f x).bind fun y => (xs.mapM f).bind fun ys => some (y :: ys) := by
  rw [List.mapM_cons]; rfl

theorem mapM_nil' {α β : Type} (f : α → Option β) : ([] : List α).mapM f = some [] := rfl

/-- a loop whose body never breaks runs through a concatenation part by part. -/
theorem loop?_append {ι σ : Type} (f : ι → σ → Option (σ × Bool)) (hf : ∀ x s r, f x s = some r → r.2 = false) :
    ∀ (xs ys : List ι) (s : σ), Py.loop? (xs ++ ys) s f = (Py.loop? xs s f).bind fun s' => Py.loop? ys s' f := by
  intro xs
  induction xs with
  | nil => intro ys s; rfl
  | cons x xs ih =>
    intro ys s
    rw [List.cons_append, loop?_cons, loop?_cons]
    cases h : f x s with
    | none => rfl
    | some r =>
      have := hf x s r h
      simp only [Option.bind_some, this, Bool.false_eq_true, if_false]
      exact ih ys r.1

theorem cells_loop {R β : Type} (cd : Bytes) (sz : Nat)
    (body : Nat → Nat × List (CellOut R) → Option ((Nat × List (CellOut R)) × Bool))
    (hbody : ∀ x i acc, body x (i, acc) =
      (deserializeCell (cd.drop i) sz).bind fun cj => some ((i + cj.2, acc ++ [CellOut.ofModel cj.1]), false))
    (F : Nat × List (CellOut R) → Option β) (hF : ∀ a b l, F (a, l) = F (b, l)) :
    ∀ (xs : List Nat) (i0 : Nat) (acc : List (CellOut R)),
      (Py.loop? xs (i0, acc) body).bind F =
        (readCells xs.length (cd.drop i0) sz).bind fun recs => F (0, acc ++ recs.map CellOut.ofModel) := by
  intro xs
  induction xs with
  | nil => intro i0 acc; simp [readCells, hF i0 0]
  | cons x xs ih =>
    intro i0 acc
    rw [loop?_cons, hbody, List.length_cons, readCells]
    cases h : deserializeCell (cd.drop i0) sz with
    | none => rfl
    | some cj =>
      simp only [Option.bind_some, Bool.false_eq_true, if_false]
      rw [ih, List.drop_drop]
      cases readCells xs.length (List.drop (i0 + cj.2) cd) sz with
      | none => rfl
      | some recs => simp

theorem roots_loop {R : Type} (arr : List (CellOut R)) (body : Nat → List (Option R) → Option (List (Option R) × Bool))
    (hbody : ∀ ri acc, body ri acc = (arr[ri]?).bind fun e => some (acc ++ [e.result], false)) :
    ∀ (rl : List Nat) (acc : List (Option R)),
      Py.loop? rl acc body = (rl.mapM fun ri => (arr[ri]?).map (·.result)).map (acc ++ ·) := by
  intro rl
  induction rl with
  | nil => intro acc; simp [mapM_nil']
  | cons r rl ih =>
    intro acc
    rw [loop?_cons, hbody, mapM_cons']
    cases h : arr[r]? with
    | none => rfl
    | some e =>
      simp only [Option.bind_some, Bool.false_eq_true, if_false, Option.map_some, ih]
      cases List.mapM (fun ri => Option.map (fun x => x.result) arr[ri]?) rl with
      | none => rfl
      | some l => simp

theorem refs_loop_aux {R : Type} (g : Nat → Option (Option R)) (body : Nat → List (Option R) → Option (List (Option R) × Bool)) :
    ∀ (suf pre : List Nat),
      (∀ ri acc, body ri acc = ((pre ++ suf)[ri]?).bind fun r => (g r).bind fun e => some (acc ++ [e], false)) →
      ∀ acc, Py.loop? (List.range' pre.length suf.length) acc body = (suf.mapM g).map (acc ++ ·) := by
  intro suf
  induction suf with
  | nil => intro pre _ acc; simp [mapM_nil']
  | cons r suf ih =>
    intro pre hbody acc
    rw [List.length_cons, List.range'_succ, loop?_cons, hbody, mapM_cons']
    have hr : (pre ++ r :: suf)[pre.length]? = some r := by simp
    rw [hr]
    simp only [Option.bind_some]
    cases h : g r with
    | none => rfl
    | some e =>
      simp only [Option.bind_some, Bool.false_eq_true, if_false]
      have := ih (pre ++ [r]) (by simpa using hbody) (acc ++ [e])
      rw [List.length_append, List.length_singleton] at this
      rw [this]
      cases List.mapM g suf with
      | none => rfl
      | some l => simp

/-- the inner loop of the rebuild loop: `for ri in range(len(rs)): r = rs[ri]; ...; refs.append(g r)`. -/
theorem refs_loop {R : Type} (g : Nat → Option (Option R)) (rs : List Nat)
    (body : Nat → List (Option R) → Option (List (Option R) × Bool))
    (hbody : ∀ ri acc, body ri acc = (rs[ri]?).bind fun r => (g r).bind fun e => some (acc ++ [e], false)) :
    Py.loop? (List.range rs.length) [] body = rs.mapM g := by
  have := refs_loop_aux g body rs [] (by simpa using hbody) []
  simp only [List.length_nil, List.nil_append] at this
  rw [List.range_eq_range', this]
  cases List.mapM g rs <;> simp

theorem mapM_bind_id {α β γ : Type} (g : α → Option (Option β)) :
    ∀ (xs : List α) (F : List β → Option γ),
      (xs.mapM g).bind (fun l => (l.mapM id).bind F) = (xs.mapM (fun x => (g x).bind id)).bind F := by
  intro xs
  induction xs with
  | nil => intro F; simp [mapM_nil']
  | cons x xs ih =>
    intro F
    rw [mapM_cons', mapM_cons']
    cases h : g x with
    | none => rfl
    | some o =>
      cases o with
      | none =>
        simp only [Option.bind_some, Option.bind_none]
        cases List.mapM g xs with
        | none => rfl
        | some ys => simp [mapM_cons']
      | some b =>
        simp only [Option.bind_some, id]
        have := ih (fun l => F (b :: l))
        rw [Option.bind_assoc, Option.bind_assoc]
        simp only [Option.bind_some, mapM_cons', id, Option.bind_assoc]
        exact this

/-- what one iteration of the rebuild loop does to the array (the inner loop already summarised as a `mapM`). -/
def rebuildStep {R : Type} (mk : Bits → List R → Int → Option R) (ci : Nat) (arr : List (CellOut R)) :
    Option (List (CellOut R) × Bool) :=
  (arr[ci]?).bind fun c =>
  (c.refs.mapM (fun r => if r < ci then none else (arr[r]?).map (·.result))).bind fun refs =>
  (arr[ci]?).bind fun e =>
  (liftMk mk e.bits refs e.type).bind fun v =>
  (Py.setAt? arr ci fun c => { c with result := some v }).bind fun arr' => some (arr', false)

theorem rebuildStep_nobreak {R : Type} (mk : Bits → List R → Int → Option R) (ci : Nat) (arr : List (CellOut R)) (r) 
    (h : rebuildStep mk ci arr = some r) : r.2 = false := by
  unfold rebuildStep at h
  cases h1 : arr[ci]? with
  | none => simp [h1] at h
  | some c =>
    simp only [h1, Option.bind_some] at h
    cases h2 : List.mapM (fun r => if r < ci then none else Option.map (fun x => x.result) arr[r]?) c.refs with
    | none => simp [h2] at h
    | some refs =>
      simp only [h2, Option.bind_some] at h
      cases h3 : liftMk mk c.bits refs c.type with
      | none => simp [h3] at h
      | some v =>
        simp only [h3, Option.bind_some] at h
        cases h4 : Py.setAt? arr ci fun c => { c with result := some v } with
        | none => simp [h4] at h
        | some a => simp [h4] at h; rw [← h]

theorem rebuild_step_eq {R : Type} (mk : Bits → List R → Int → Option R) (pre : List RawCell) (c : RawCell) (cs : List RawCell)
    (later : List R) (hl : later.length = cs.length) :
    rebuildStep mk pre.length ((pre ++ [c]).map CellOut.ofModel ++ List.zipWith setRes cs later) =
      ((c.refs.mapM (fun r => if r < pre.length then none else if r = pre.length then none else later[r - pre.length - 1]?)).bind fun refs =>
        (mk c.bits refs c.type).map (· :: later)).map fun l => (pre.map CellOut.ofModel ++ List.zipWith setRes (c :: cs) l, false) := by
  have harr : ((pre ++ [c]).map (CellOut.ofModel (R := R)) ++ List.zipWith setRes cs later) =
      pre.map CellOut.ofModel ++ (CellOut.ofModel c :: List.zipWith setRes cs later) := by simp
  have hk : ((pre ++ [c]).map (CellOut.ofModel (R := R)) ++ List.zipWith setRes cs later)[pre.length]? = some (CellOut.ofModel c) := by
    rw [harr, List.getElem?_append_right (by simp)]; simp
  -- what a reference picks up
  have hg : ∀ r, (if r < pre.length then none
        else (((pre ++ [c]).map (CellOut.ofModel (R := R)) ++ List.zipWith setRes cs later)[r]?).map (·.result)).bind id =
      (if r < pre.length then none else if r = pre.length then none else later[r - pre.length - 1]?) := by
    intro r
    by_cases h1 : r < pre.length
    · simp [h1]
    · by_cases h2 : r = pre.length
      · subst h2; simp [hk, CellOut.ofModel]
      · rw [if_neg h1, if_neg h1, if_neg h2, harr, List.getElem?_append_right (by simp; omega)]
        have e : r - (pre.map (CellOut.ofModel (R := R))).length = (r - pre.length - 1) + 1 := by simp; omega
        rw [e, List.getElem?_cons_succ, List.getElem?_zipWith]
        by_cases h3 : r - pre.length - 1 < later.length
        · have h4 : r - pre.length - 1 < cs.length := by omega
          simp [List.getElem?_eq_getElem h3, List.getElem?_eq_getElem h4, setRes]
        · have h4 : ¬ r - pre.length - 1 < cs.length := by omega
          simp [List.getElem?_eq_none (Nat.le_of_not_lt h3), List.getElem?_eq_none (Nat.le_of_not_lt h4)]
  unfold rebuildStep
  rw [hk]
  simp only [Option.bind_some]
  have hrefs : (CellOut.ofModel (R := R) c).refs = c.refs := rfl
  have hbits : (CellOut.ofModel (R := R) c).bits = c.bits := rfl
  have hty : (CellOut.ofModel (R := R) c).type = c.type := rfl
  rw [hrefs, hbits, hty]
  unfold liftMk
  simp only [Option.bind_assoc]
  rw [mapM_bind_id]
  simp only [hg]
  cases (c.refs.mapM (fun r => if r < pre.length then none else if r = pre.length then none else later[r - pre.length - 1]?)) with
  | none => rfl
  | some refs =>
    simp only [Option.bind_some]
    cases mk c.bits refs c.type with
    | none => rfl
    | some v =>
      simp only [Option.bind_some, Option.map_some, Py.setAt?, hk]
      rw [harr, List.set_append_right _ _ (by simp)]
      simp [setRes, CellOut.ofModel]

theorem rebuild_loop {R : Type} (mk : Bits → List R → Int → Option R)
    (body : Nat → List (CellOut R) → Option (List (CellOut R) × Bool)) (hbody : ∀ ci arr, body ci arr = rebuildStep mk ci arr) :
    ∀ (suf pre : List RawCell),
      Py.loop? (List.range' pre.length suf.length).reverse ((pre ++ suf).map CellOut.ofModel) body =
        (rebuildFrom mk suf pre.length).map fun later => pre.map CellOut.ofModel ++ List.zipWith setRes suf later := by
  have hnb : ∀ x s r, body x s = some r → r.2 = false := by
    intro x s r h; rw [hbody] at h; exact rebuildStep_nobreak mk x s r h
  intro suf
  induction suf with
  | nil => intro pre; simp [rebuildFrom]
  | cons c cs ih =>
    intro pre
    rw [List.length_cons, List.range'_succ, List.reverse_cons, loop?_append body hnb]
    have e1 : pre ++ c :: cs = (pre ++ [c]) ++ cs := by simp
    have := ih (pre ++ [c])
    rw [List.length_append, List.length_singleton] at this
    rw [e1, this, rebuildFrom]
    cases h : rebuildFrom mk cs (pre.length + 1) with
    | none => rfl
    | some later =>
      have hl := TonVerif.Proofs.BocParse.rebuildFrom_length mk cs (pre.length + 1) later h
      simp only [Option.map_some, Option.bind_some, loop?_cons, loop?_nil, hbody]
      rw [rebuild_step_eq mk pre c cs later hl]
      cases (c.refs.mapM (fun r => if r < pre.length then none else if r = pre.length then none else later[r - pre.length - 1]?)) with
      | none => rfl
      | some refs =>
        simp only [Option.bind_some]
        cases mk c.bits refs c.type with
        | none => rfl
        | some v => simp

theorem mapM_map {α β γ : Type} (f : α → Option β) (g : β → γ) :
    ∀ xs : List α, (xs.mapM fun x => (f x).map g) = (xs.mapM f).map (·.map g) := by
  intro xs
  induction xs with
  | nil => rfl
  | cons x xs ih =>
    rw [mapM_cons', mapM_cons', ih]
    cases f x with
    | none => rfl
    | some y => cases List.mapM f xs <;> simp

/-- reading a result out of the fully rebuilt array. -/
theorem result_of_rebuilt {R : Type} (recs : List RawCell) (all : List R) (hl : all.length = recs.length) (ri : Nat) :
    ((List.zipWith (setRes (R := R)) recs all)[ri]?).map (·.result) = (all[ri]?).map some := by
  rw [List.getElem?_zipWith]
  by_cases h : ri < all.length
  · have h' : ri < recs.length := by omega
    simp [List.getElem?_eq_getElem h, List.getElem?_eq_getElem h', setRes]
  · have h' : ¬ ri < recs.length := by omega
    simp [List.getElem?_eq_none (Nat.le_of_not_lt h), List.getElem?_eq_none (Nat.le_of_not_lt h')]

/-- `rebuild_loop` for the whole array, in the form in which it is applied to a goal `(loop ..).bind G = _`. -/
theorem rebuild_loop_bind {R β : Type} (mk : Bits → List R → Int → Option R)
    (body : Nat → List (CellOut R) → Option (List (CellOut R) × Bool)) (hbody : ∀ ci arr, body ci arr = rebuildStep mk ci arr)
    (recs : List RawCell) (G : List (CellOut R) → Option β) :
    (Py.loop? (List.range' 0 recs.length).reverse (recs.map CellOut.ofModel) body).bind G =
      (rebuildFrom mk recs 0).bind fun later => G (List.zipWith setRes recs later) := by
  have := rebuild_loop mk body hbody recs []
  simp only [List.length_nil, List.nil_append, List.map_nil] at this
  rw [this]
  cases rebuildFrom mk recs 0 <;> rfl

end TonVerif.Proofs.BocDeserLoops
