/- bit-level facts used by the C15 proofs: big-endian numbers, two's complement, bytes, byte lengths -/
import TonVerif.Basic
import TonVerif.Model.Builder
import TonVerif.Spec.Tlb.Message

namespace TonVerif.Proofs.MsgBits
open TonVerif

theorem natToBits_length (n v : Nat) : (natToBits n v).length = n := by
  induction n generalizing v with
  | zero => simp [natToBits]
  | succ n ih => simp [natToBits, ih]

theorem foldl_bits (bs : Bits) (acc : Nat) :
    bs.foldl (fun acc b => acc * 2 + (if b then 1 else 0)) acc
      = acc * 2 ^ bs.length + bs.foldl (fun acc b => acc * 2 + (if b then 1 else 0)) 0 := by
  induction bs generalizing acc with
  | nil => simp
  | cons b t ih =>
    simp only [List.foldl_cons, List.length_cons]
    rw [ih (acc * 2 + _), ih (0 * 2 + _)]
    simp [Nat.pow_succ, Nat.add_mul, Nat.mul_assoc, Nat.mul_comm 2, Nat.add_assoc]

theorem natOfBits_append (a b : Bits) : natOfBits (a ++ b) = natOfBits a * 2 ^ b.length + natOfBits b := by
  unfold natOfBits
  rw [List.foldl_append, foldl_bits]

theorem natOfBits_lt (bs : Bits) : natOfBits bs < 2 ^ bs.length := by
  induction bs with
  | nil => simp [natOfBits]
  | cons b t ih =>
    have h := natOfBits_append [b] t
    simp only [List.singleton_append] at h
    rw [h]
    simp only [List.length_cons, Nat.pow_succ]
    have : natOfBits [b] ≤ 1 := by cases b <;> simp [natOfBits]
    have h2 : natOfBits [b] * 2 ^ t.length ≤ 1 * 2 ^ t.length := Nat.mul_le_mul_right _ this
    omega

theorem natOfBits_natToBits (n v : Nat) (h : v < 2 ^ n) : natOfBits (natToBits n v) = v := by
  induction n generalizing v with
  | zero => simp at h; simp [natToBits, natOfBits, h]
  | succ n ih =>
    rw [natToBits, natOfBits_append, ih (v / 2) (by rw [Nat.pow_succ] at h; omega)]
    have : natOfBits [v % 2 == 1] = v % 2 := by
      rcases Nat.mod_two_eq_zero_or_one v with hh | hh <;> simp [natOfBits, hh]
    rw [this]; simp; omega

/-- the first bit of an n-bit number says whether it is at least 2^(n-1) -/
theorem natToBits_head (n v : Nat) (h : v < 2 ^ (n + 1)) :
    ∃ tl, natToBits (n + 1) v = (decide (2 ^ n ≤ v)) :: tl := by
  induction n generalizing v with
  | zero =>
    refine ⟨[], ?_⟩
    have : v = 0 ∨ v = 1 := by simp at h; omega
    rcases this with rfl | rfl <;> simp [natToBits]
  | succ n ih =>
    rw [natToBits]
    obtain ⟨tl, htl⟩ := ih (v / 2) (by rw [Nat.pow_succ] at h; omega)
    refine ⟨tl ++ [v % 2 == 1], ?_⟩
    rw [htl]
    have : (2 ^ n ≤ v / 2) = (2 ^ (n + 1) ≤ v) := by
      rw [Nat.pow_succ]; apply propext; omega
    simp [this]

theorem byteToBits_length (b : Nat) : (byteToBits b).length = 8 := natToBits_length 8 b

theorem bytesToBits_length (bs : Bytes) : (bytesToBits bs).length = 8 * bs.length := by
  induction bs with
  | nil => simp [bytesToBits]
  | cons b t ih =>
    simp only [bytesToBits, List.flatMap_cons, List.length_append, List.length_cons] at *
    rw [ih, byteToBits_length]; omega

theorem bitsToBytes_cons (b : Nat) (hb : b < 256) (rest : Bits) :
    bitsToBytes (byteToBits b ++ rest) = b :: bitsToBytes rest := by
  have hl := byteToBits_length b
  match hbb : byteToBits b, hl with
  | x :: xs, hl =>
    rw [List.cons_append, bitsToBytes]
    have hlen : (x :: xs).length = 8 := hl
    have htake : ((x :: xs) ++ rest).take 8 = x :: xs := by
      rw [List.take_append_of_le_length (by omega)]; exact List.take_of_length_le (by omega)
    have hdrop : ((x :: xs) ++ rest).drop 8 = rest := by
      rw [List.drop_append_of_le_length (by omega)]; simp [List.drop_of_length_le (Nat.le_of_eq hlen)]
    simp only [← List.cons_append]
    rw [htake, hdrop]
    simp only [hlen, Nat.sub_self, List.replicate_zero, List.append_nil]
    rw [← hbb]
    show natOfBits (natToBits 8 b) :: _ = _
    rw [natOfBits_natToBits 8 b (by simpa using hb)]

theorem bitsToBytes_bytesToBits (bs : Bytes) (h : Bytes.WF bs) : bitsToBytes (bytesToBits bs) = bs := by
  induction bs with
  | nil => simp [bytesToBits, bitsToBytes]
  | cons b t ih =>
    have hb : b < 256 := h b (by simp)
    have ht : Bytes.WF t := fun x hx => h x (by simp [hx])
    show bitsToBytes (byteToBits b ++ bytesToBits t) = _
    rw [bitsToBytes_cons b hb, ih ht]

/-! byte lengths -/
local notation "bitLen" => Model.BOp.bitLen
local notation "nbytes" => Spec.Tlb.nbytes

theorem bitLen_pos (n : Nat) (h : 0 < n) : bitLen n = 1 + bitLen (n / 2) := by
  cases n with
  | zero => omega
  | succ k => rw [Model.BOp.bitLen]

theorem nbytes_pos (n : Nat) (h : 0 < n) : nbytes n = 1 + nbytes (n / 256) := by
  cases n with
  | zero => omega
  | succ k => rw [Spec.Tlb.nbytes]

theorem bitLen_zero : bitLen 0 = 0 := by rw [Model.BOp.bitLen]
theorem nbytes_zero : nbytes 0 = 0 := by rw [Spec.Tlb.nbytes]

theorem bitLen_le (k n : Nat) (h : n < 2 ^ k) : bitLen n ≤ k := by
  induction k generalizing n with
  | zero => have : n = 0 := by simpa using h
            subst this; simp [bitLen_zero]
  | succ k ih =>
    rcases Nat.eq_zero_or_pos n with rfl | hp
    · simp [bitLen_zero]
    · rw [bitLen_pos n hp]
      have := ih (n / 2) (by rw [Nat.pow_succ] at h; omega)
      omega

theorem bitLen_ge256 (n : Nat) (h : 256 ≤ n) : bitLen n = 8 + bitLen (n / 256) := by
  rw [bitLen_pos n (by omega), bitLen_pos (n / 2) (by omega), bitLen_pos (n / 2 / 2) (by omega),
    bitLen_pos (n / 2 / 2 / 2) (by omega), bitLen_pos (n / 2 / 2 / 2 / 2) (by omega),
    bitLen_pos (n / 2 / 2 / 2 / 2 / 2) (by omega), bitLen_pos (n / 2 / 2 / 2 / 2 / 2 / 2) (by omega),
    bitLen_pos (n / 2 / 2 / 2 / 2 / 2 / 2 / 2) (by omega)]
  have : n / 2 / 2 / 2 / 2 / 2 / 2 / 2 / 2 = n / 256 := by omega
  rw [this]; omega

/-- the model's byte length `(bit_length + 7) // 8` is the number of base-256 digits -/
theorem bitLen_nbytes (n : Nat) : (bitLen n + 7) / 8 = nbytes n := by
  induction n using Nat.strongRecOn with
  | _ n ih =>
    rcases Nat.eq_zero_or_pos n with rfl | hp
    · simp [bitLen_zero, nbytes_zero]
    · rw [nbytes_pos n hp]
      by_cases h : n < 256
      · have h0 : n / 256 = 0 := by omega
        rw [h0, nbytes_zero]
        have h1 := bitLen_le 8 n (by simpa using h)
        have h2 := bitLen_pos n hp
        omega
      · rw [bitLen_ge256 n (by omega), ← ih (n / 256) (by omega)]
        omega

end TonVerif.Proofs.MsgBits
