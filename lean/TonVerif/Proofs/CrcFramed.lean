/-
Helper lemmas for the "framed record" theorems of C18 (round 10, register-state class): feeding a CRC register its own
value (in register byte order) clears it, and zero bytes keep a clear register clear.  Spec level only (`Spec/Crc.lean`).
-/
import TonVerif.Basic
import TonVerif.Proofs.Crc

namespace TonVerif.Proofs.CrcFramed
open TonVerif TonVerif.Spec TonVerif.Proofs.Crc

/-! ### CRC-16 -/

theorem xor_hi16 (c : BitVec 16) :
    c ^^^ (((c >>> 8).truncate 8).zeroExtend 16 <<< 8) = (c.truncate 8).zeroExtend 16 := by
  have h := decomp16 c
  generalize ((c >>> 8).truncate 8).zeroExtend 16 <<< 8 = A at h ⊢
  generalize (c.truncate 8).zeroExtend 16 = B at h ⊢
  subst h
  rw [BitVec.xor_comm A B, BitVec.xor_assoc, BitVec.xor_self, BitVec.xor_zero]

/-- feeding the register its own top byte leaves the low byte, moved to the top. -/
theorem byte16_hi (c : BitVec 16) :
    byte16 c ((c >>> 8).truncate 8) = (c.truncate 8).zeroExtend 16 <<< 8 := by
  unfold byte16
  rw [xor_hi16, lo16]

theorem byte16_lo (x : BitVec 8) : byte16 (x.zeroExtend 16 <<< 8) x = 0#16 := by
  unfold byte16
  rw [BitVec.xor_self]
  decide

theorem fold_zero16 (k : Nat) : (List.replicate k 0#8).foldl byte16 0#16 = 0#16 := by
  induction k with
  | zero => rfl
  | succ k ih =>
    simp only [List.replicate_succ, List.foldl_cons]
    rw [show byte16 0#16 0#8 = 0#16 by decide]; exact ih

/-! ### CRC-32C -/

/-- feeding the register its own low byte is a plain shift by one byte. -/
theorem byte32_self (c : BitVec 32) : byte32 c (c.truncate 8) = c >>> 8 := by
  unfold byte32
  rw [iter_step32_lowzero, shr8_low]
  intro i hi
  have : i < 32 := by omega
  simp [hi, this]

theorem fold_zero32 (k : Nat) : (List.replicate k 0#8).foldl byte32 0#32 = 0#32 := by
  induction k with
  | zero => rfl
  | succ k ih =>
    simp only [List.replicate_succ, List.foldl_cons]
    rw [show byte32 0#32 0#8 = 0#32 by decide]; exact ih

/-- the little-endian bytes of the inverted value are the inverted bytes. -/
theorem le32_inv (v : BitVec 32) : le32 (v ^^^ 0xFFFFFFFF#32) = (le32 v).map (fun b => b ^^^ 0xFF#8) := by
  simp only [le32, List.map_cons, List.map_nil]
  have e : ∀ (w : BitVec 32), (w ^^^ 0xFFFFFFFF#32).truncate 8 = w.truncate 8 ^^^ 0xFF#8 := by
    intro w; ext i hi; simp
  have s : ∀ (n : Nat), (v ^^^ 0xFFFFFFFF#32) >>> n = (v >>> n) ^^^ (0xFFFFFFFF#32 >>> n) := by
    intro n; exact ushiftRight_xor_distrib _ _ _
  have t : ∀ (w M : BitVec 32), M.truncate 8 = 0xFF#8 → (w ^^^ M).truncate 8 = w.truncate 8 ^^^ 0xFF#8 := by
    intro w M hM; rw [← hM]; ext i hi; simp
  rw [e, s, s, s, t _ _ (by decide), t _ _ (by decide), t _ _ (by decide)]

/-! ### byte lists as `Nat` lists -/

theorem map_ofNat_toNat (l : List (BitVec 8)) : (l.map BitVec.toNat).map (BitVec.ofNat 8) = l := by
  induction l with
  | nil => rfl
  | cons x t ih => simp [ih]

theorem wf_map_toNat (l : List (BitVec 8)) : Bytes.WF (l.map BitVec.toNat) := by
  intro b hb
  simp only [List.mem_map] at hb
  obtain ⟨x, _, rfl⟩ := hb
  exact x.isLt

theorem map_xor255 (l : List (BitVec 8)) :
    (l.map BitVec.toNat).map (fun b => b ^^^ 255) = (l.map (fun b => b ^^^ 0xFF#8)).map BitVec.toNat := by
  induction l with
  | nil => rfl
  | cons x t ih => simp [ih]

theorem wf_framed (data c : Bytes) (k : Nat) (h : Bytes.WF data) (hc : Bytes.WF c) :
    Bytes.WF (data ++ c ++ List.replicate k 0) := by
  intro b hb
  simp only [List.mem_append, List.mem_replicate] at hb
  rcases hb with (hb | hb) | hb
  · exact h b hb
  · exact hc b hb
  · omega

end TonVerif.Proofs.CrcFramed
