/-
Laws of the TL-B codec combinators (Spec/Tlb/Codec.lean): each combinator is `Lawful`
(round trip + exact consumption for any continuation) given that its arguments are.
Registered as instances, so the law of a TL-B type that is a TERM of combinators is found by
type-class resolution.
-/
import TonVerif.Spec.Tlb.Codec

namespace TonVerif.Tlb
open TonVerif

/-! ### bit-level lemmas -/

theorem natToBits_length (n v : Nat) : (natToBits n v).length = n := by
  induction n generalizing v with
  | zero => simp [natToBits]
  | succ n ih => simp [natToBits, ih]

theorem natOfBits_snoc (xs : Bits) (b : Bool) :
    natOfBits (xs ++ [b]) = natOfBits xs * 2 + (if b then 1 else 0) := by
  simp [natOfBits, List.foldl_append]

theorem natOfBits_natToBits (n v : Nat) (h : v < 2 ^ n) : natOfBits (natToBits n v) = v := by
  induction n generalizing v with
  | zero => simp at h; subst h; simp [natToBits, natOfBits]
  | succ n ih =>
    have h2 : v / 2 < 2 ^ n := by
      rw [Nat.pow_succ] at h; omega
    simp only [natToBits, natOfBits_snoc, ih _ h2]
    rcases Nat.mod_two_eq_zero_or_one v with h0 | h1
    · simp [h0]; omega
    · simp [h1]; omega

theorem take_app {α} (a b : List α) (n : Nat) (h : a.length = n) : (a ++ b).take n = a := by
  subst h; simp

theorem drop_app {α} (a b : List α) (n : Nat) (h : a.length = n) : (a ++ b).drop n = b := by
  subst h; simp

theorem isPrefixOf_app (p r : Bits) : p.isPrefixOf (p ++ r) = true := by
  induction p with
  | nil => simp [List.isPrefixOf]
  | cons a p ih => simp [ih]

/-- a tag that matches `q ++ r` is comparable with `q` -/
theorem isPrefixOf_app_cases (p q r : Bits) (h : p.isPrefixOf (q ++ r) = true) :
    p.isPrefixOf q = true ∨ q.isPrefixOf p = true := by
  induction p generalizing q with
  | nil => left; simp [List.isPrefixOf]
  | cons a p ih =>
    cases q with
    | nil => right; simp [List.isPrefixOf]
    | cons b q =>
      simp only [List.cons_append, List.isPrefixOf, Bool.and_eq_true] at h ⊢
      rcases ih q h.2 with h1 | h1
      · left; exact ⟨h.1, h1⟩
      · right; refine ⟨?_, h1⟩
        have := h.1; simp at this; simp [this]

/-! ### fragments -/

@[simp] theorem Frag.app_bits (a b : Frag) : (a ++ b).bits = a.bits ++ b.bits := rfl
@[simp] theorem Frag.app_refs (a b : Frag) : (a ++ b).refs = a.refs ++ b.refs := rfl
@[simp] theorem Frag.ofBits_bits (b : Bits) : (Frag.ofBits b).bits = b := rfl
@[simp] theorem Frag.ofBits_refs (b : Bits) : (Frag.ofBits b).refs = [] := rfl
@[simp] theorem Frag.nil_bits : Frag.nil.bits = [] := rfl
@[simp] theorem Frag.nil_refs : Frag.nil.refs = [] := rfl

theorem Frag.ext' {a b : Frag} (h1 : a.bits = b.bits) (h2 : a.refs = b.refs) : a = b := by
  cases a; cases b; simp_all

@[simp] theorem Frag.nil_app (k : Frag) : Frag.nil ++ k = k := Frag.ext' (by simp) (by simp)
@[simp] theorem Frag.app_nil (k : Frag) : k ++ Frag.nil = k := Frag.ext' (by simp) (by simp)
theorem Frag.app_assoc (a b c : Frag) : (a ++ b) ++ c = a ++ (b ++ c) :=
  Frag.ext' (by simp) (by simp)
@[simp] theorem Frag.mk_app (a b : Frag) : (⟨a.bits ++ b.bits, a.refs ++ b.refs⟩ : Frag) = a ++ b := rfl
@[simp] theorem Frag.eta (k : Frag) : (⟨k.bits, k.refs⟩ : Frag) = k := rfl
theorem Frag.ofBits_app (b : Bits) (k : Frag) : Frag.ofBits b ++ k = ⟨b ++ k.bits, k.refs⟩ :=
  Frag.ext' (by simp) (by simp)

/-- a codec that is lawful for every continuation is lawful at the end of a cell -/
instance (priority := low) lawfulEnd_of_lawful (c : Codec) [h : Lawful c] : LawfulEnd c where
  law v f hf := by simpa using h.law v f hf Frag.nil

/-! ### primitives -/

instance lawful_nothing : Lawful nothing where
  law v f h k := by
    cases v <;> simp [nothing] at h
    subst h; simp [nothing]

instance lawful_failC : Lawful failC where
  law v f h := by simp [failC] at h

/-- reading `n` bits off the front of `natToBits n x ++ k` -/
theorem read_uint (n x : Nat) (k : Frag) (hx : x < 2 ^ n) :
    (uint n).dec (Frag.ofBits (natToBits n x) ++ k) = some (.int x, k) := by
  have hl := natToBits_length n x
  simp only [uint, Frag.app_bits, Frag.ofBits_bits, Frag.app_refs, Frag.ofBits_refs, List.nil_append,
    List.length_append, hl, take_app _ _ _ hl, drop_app _ _ _ hl, natOfBits_natToBits n x hx]
  simp

instance lawful_uint (n : Nat) : Lawful (uint n) where
  law v f h k := by
    cases v <;> simp [uint] at h
    case int i =>
      obtain ⟨⟨h0, hlt⟩, rfl⟩ := h
      have := read_uint n i.toNat k hlt
      rw [this]; congr; omega

instance lawful_sint (n : Nat) : Lawful (sint n) where
  law v f h k := by
    cases v <;> simp [sint] at h
    case int i =>
      obtain ⟨hn, ⟨hlo, hhi⟩, rfl⟩ := h
      obtain ⟨m, rfl⟩ : ∃ m, n = m + 1 := ⟨n - 1, by omega⟩
      simp only [Nat.add_sub_cancel] at hlo hhi
      have hp : (2 : Int) ^ (m + 1) = 2 * 2 ^ m := by rw [Int.pow_succ]; omega
      have hpn : (2 : Nat) ^ (m + 1) = 2 * 2 ^ m := by rw [Nat.pow_succ]; omega
      have hcast : ((2 ^ m : Nat) : Int) = (2 : Int) ^ m := by simp
      generalize hP : (2 : Int) ^ m = P at *
      generalize hQ : (2 : Nat) ^ m = Q at *
      simp only [sint, hp]
      generalize hx : (if 0 ≤ i then i.toNat else (i + 2 * P).toNat) = x
      have hxlt : x < 2 ^ (m + 1) := by
        rw [hpn]; split at hx <;> omega
      have hl := natToBits_length (m + 1) x
      simp only [Frag.app_bits, Frag.ofBits_bits, Frag.app_refs, Frag.ofBits_refs, List.nil_append,
        List.length_append]
      simp only [hl, take_app _ _ _ hl, drop_app _ _ _ hl, natOfBits_natToBits _ x hxlt]
      simp only [Nat.add_sub_cancel, hQ]
      have : ¬ (m + 1 = 0 ∨ m + 1 + k.bits.length < m + 1) := by omega
      simp only [this, if_false]
      have hv : (if x < Q then (x : Int) else (x : Int) - 2 * P) = i := by
        split at hx <;> split <;> omega
      rw [hv]

instance lawful_bitsC (n : Nat) : Lawful (bitsC n) where
  law v f h k := by
    cases v <;> simp [bitsC] at h
    case bits b =>
      obtain ⟨hl, rfl⟩ := h
      simp [bitsC, hl, take_app _ _ _ hl, drop_app _ _ _ hl]

instance lawful_boolC : Lawful boolC where
  law v f h k := by
    cases v <;> simp [boolC] at h
    subst h; simp [boolC]

theorem lt_two_pow_bitLenF (f v : Nat) (h : v ≤ f) : v < 2 ^ bitLenF f v := by
  induction f generalizing v with
  | zero => simp [bitLenF]; omega
  | succ f ih =>
    simp only [bitLenF]
    split
    · omega
    · have := ih (v / 2) (by omega)
      rw [Nat.pow_add, Nat.pow_one]; omega

theorem lt_two_pow_bitLen (v : Nat) : v < 2 ^ bitLen v := lt_two_pow_bitLenF v v (Nat.le_refl v)

instance lawful_varUInt (k : Nat) : Lawful (varUInt k) where
  law v f h c := by
    cases v <;> simp [varUInt] at h
    case int i =>
      obtain ⟨⟨h0, hlen⟩, rfl⟩ := h
      generalize hL : (bitLen i.toNat + 7) / 8 = len at *
      have hlw : len < 2 ^ bitLen (k - 1) := by
        have := lt_two_pow_bitLen (k - 1)
        omega
      have hv : i.toNat < 2 ^ (8 * len) := by
        have h1 := lt_two_pow_bitLen i.toNat
        have h2 : 2 ^ bitLen i.toNat ≤ 2 ^ (8 * len) := Nat.pow_le_pow_right (by omega) (by omega)
        omega
      have hl1 := natToBits_length (bitLen (k - 1)) len
      have hl2 := natToBits_length (8 * len) i.toNat
      simp only [varUInt, Frag.app_bits, Frag.ofBits_bits, Frag.app_refs, Frag.ofBits_refs, List.nil_append,
        List.append_assoc, List.length_append, hl1, hl2, take_app _ _ _ hl1, drop_app _ _ _ hl1,
        take_app _ _ _ hl2, drop_app _ _ _ hl2, natOfBits_natToBits _ _ hlw, natOfBits_natToBits _ _ hv]
      have : ¬ (bitLen (k - 1) + (8 * len + c.bits.length) < bitLen (k - 1)) := by omega
      have h3 : ¬ (len ≥ k ∨ 8 * len + c.bits.length < 8 * len) := by omega
      simp only [this, h3, if_false]
      congr; omega

instance lawful_grams : Lawful grams := lawful_varUInt 16

instance lawful_cellRef : Lawful cellRef where
  law v f h k := by
    cases v <;> simp [cellRef] at h
    subst h; simp [cellRef]

instance lawfulEnd_rest : LawfulEnd rest where
  law v f h := by
    cases v <;> simp [rest] at h
    case cell c =>
      obtain ⟨e, b, r⟩ := c
      cases e <;> simp at h
      subst h; simp [rest]

instance lawful_ref (c : Codec) [hc : LawfulEnd c] : Lawful (ref c) where
  law v f h k := by
    simp only [ref] at h
    split at h
    · rename_i g hg
      split at h
      · simp at h; subst h
        have := hc.law v g hg
        simp [ref, this, Frag.nil]
      · simp at h
    · simp at h

instance lawful_maybe (c : Codec) [hc : Lawful c] : Lawful (maybe c) where
  law v f h k := by
    by_cases hv : v = .unit
    · subst hv; simp [maybe] at h; subst h; simp [maybe]
    · have h' : (c.enc v).map (Frag.ofBits [true] ++ ·) = some f := by
        cases v <;> simp_all [maybe]
      simp only [Option.map_eq_some_iff] at h'
      obtain ⟨g, hg, rfl⟩ := h'
      have := hc.law v g hg k
      simp [maybe, this]

instance lawfulEnd_maybe (c : Codec) [hc : LawfulEnd c] : LawfulEnd (maybe c) where
  law v f h := by
    by_cases hv : v = .unit
    · subst hv; simp [maybe] at h; subst h; simp [maybe, Frag.nil]
    · have h' : (c.enc v).map (Frag.ofBits [true] ++ ·) = some f := by
        cases v <;> simp_all [maybe]
      simp only [Option.map_eq_some_iff] at h'
      obtain ⟨g, hg, rfl⟩ := h'
      have := hc.law v g hg
      simp [maybe, this]

theorem either_enc_cases (a b : Codec) (v : Val) (f : Frag) (h : (either a b).enc v = some f) :
    (∃ x g, v = .con "left" x ∧ a.enc x = some g ∧ f = Frag.ofBits [false] ++ g) ∨
    (∃ y g, v = .con "right" y ∧ b.enc y = some g ∧ f = Frag.ofBits [true] ++ g) := by
  simp only [either] at h
  split at h
  · simp only [Option.map_eq_some_iff] at h
    obtain ⟨g, hg, rfl⟩ := h
    left; exact ⟨_, g, rfl, hg, rfl⟩
  · simp only [Option.map_eq_some_iff] at h
    obtain ⟨g, hg, rfl⟩ := h
    right; exact ⟨_, g, rfl, hg, rfl⟩
  · simp at h

instance lawful_either (a b : Codec) [ha : Lawful a] [hb : Lawful b] : Lawful (either a b) where
  law v f h k := by
    rcases either_enc_cases a b v f h with ⟨x, g, rfl, hg, rfl⟩ | ⟨y, g, rfl, hg, rfl⟩
    · have := ha.law x g hg k
      simp [either, this]
    · have := hb.law y g hg k
      simp [either, this]

instance lawfulEnd_either (a b : Codec) [ha : LawfulEnd a] [hb : LawfulEnd b] : LawfulEnd (either a b) where
  law v f h := by
    rcases either_enc_cases a b v f h with ⟨x, g, rfl, hg, rfl⟩ | ⟨y, g, rfl, hg, rfl⟩
    · have := ha.law x g hg
      simp [either, this]
    · have := hb.law y g hg
      simp [either, this]

instance lawful_constrained (c : Codec) (p : Val → Bool) (g : Option (Gen Val)) [hc : Lawful c] :
    Lawful (constrained c p g) where
  law v f h k := by
    simp only [constrained] at h
    split at h
    · rename_i hp
      simp [constrained, hc.law v f h k, hp]
    · simp at h

instance lawful_withGen (c : Codec) (g : Gen Val) [hc : Lawful c] : Lawful (withGen c g) where
  law v f h k := hc.law v f h k

instance lawfulEnd_withGen (c : Codec) (g : Gen Val) [hc : LawfulEnd c] : LawfulEnd (withGen c g) where
  law v f h := hc.law v f h

instance lawful_withPaths (c : Codec) (p : PMode → Gen (List Val)) [hc : Lawful c] : Lawful (withPaths c p) where
  law v f h k := hc.law v f h k
instance lawfulEnd_withPaths (c : Codec) (p : PMode → Gen (List Val)) [hc : LawfulEnd c] : LawfulEnd (withPaths c p) where
  law v f h := hc.law v f h
instance lawful_typ (n : String) (c : Codec) [hc : Lawful c] : Lawful (typ n c) where
  law v f h k := hc.law v f h k
instance lawfulEnd_typ (n : String) (c : Codec) [hc : LawfulEnd c] : LawfulEnd (typ n c) where
  law v f h := hc.law v f h
instance lawful_untyped (c : Codec) [hc : Lawful c] : Lawful (untyped c) where
  law v f h k := hc.law v f h k
instance lawfulEnd_untyped (c : Codec) [hc : LawfulEnd c] : LawfulEnd (untyped c) where
  law v f h := hc.law v f h

instance lawful_ctag (p : Bits) (c : Codec) [hc : Lawful c] : Lawful (ctag p c) where
  law v f h k := by
    simp only [ctag, Option.map_eq_some_iff] at h
    obtain ⟨g, hg, rfl⟩ := h
    have := hc.law v g hg k
    simp [ctag, this]

instance lawfulEnd_ctag (p : Bits) (c : Codec) [hc : LawfulEnd c] : LawfulEnd (ctag p c) where
  law v f h := by
    simp only [ctag, Option.map_eq_some_iff] at h
    obtain ⟨g, hg, rfl⟩ := h
    have := hc.law v g hg
    simp [ctag, this]

instance lawful_named (n : String) (c : Codec) [hc : Lawful c] : Lawful (named n c) where
  law v f h k := by
    cases v <;> simp [named] at h
    case con nm x =>
      obtain ⟨rfl, hx⟩ := h
      simp [named, hc.law x f hx k]

instance lawfulEnd_named (n : String) (c : Codec) [hc : LawfulEnd c] : LawfulEnd (named n c) where
  law v f h := by
    cases v <;> simp [named] at h
    case con nm x =>
      obtain ⟨rfl, hx⟩ := h
      simp [named, hc.law x f hx]

instance lawful_ite (p : Prop) [Decidable p] (a b : Codec) [ha : Lawful a] [hb : Lawful b] :
    Lawful (if p then a else b) := by
  split <;> assumption

instance lawfulEnd_ite (p : Prop) [Decidable p] (a b : Codec) [ha : LawfulEnd a] [hb : LawfulEnd b] :
    LawfulEnd (if p then a else b) := by
  split <;> assumption

/-! ### records -/

instance lawfulFields_nil : LawfulFields [] where
  law env vs f h k := by
    cases vs <;> simp [encFields] at h
    subst h; simp [decFields]

theorem encFields_cons_cases (n : String) (g : Env → Codec) (fs : List Field) (env : Env)
    (vs : List (String × Val)) (f : Frag) (h : encFields ((n, g) :: fs) env vs = some f) :
    ∃ v vs' a b, vs = (n, v) :: vs' ∧ (g env).enc v = some a ∧
      encFields fs ((n, v) :: env) vs' = some b ∧ f = a ++ b := by
  cases vs with
  | nil => simp [encFields] at h
  | cons hd vs' =>
    obtain ⟨n', v⟩ := hd
    simp only [encFields] at h
    split at h
    · rename_i hn
      subst hn
      split at h
      · rename_i a b ha hb
        simp at h
        exact ⟨v, vs', a, b, rfl, ha, hb, h.symm⟩
      · simp at h
    · simp at h

instance lawfulFields_cons (n : String) (g : Env → Codec) (fs : List Field)
    [hg : ∀ env, Lawful (g env)] [hfs : LawfulFields fs] : LawfulFields ((n, g) :: fs) where
  law env vs f h k := by
    obtain ⟨v, vs', a, b, rfl, ha, hb, rfl⟩ := encFields_cons_cases n g fs env vs f h
    have h1 := (hg env).law v a ha (b ++ k)
    have h2 := hfs.law _ vs' b hb k
    simp [decFields, Frag.app_assoc, h1, h2]

instance lawfulFields_fld (n : String) (c : Codec) (fs : List Field)
    [hc : Lawful c] [hfs : LawfulFields fs] : LawfulFields (fld n c :: fs) :=
  lawfulFields_cons n (fun _ => c) fs

instance lawfulFields_dep (n : String) (g : Env → Codec) (fs : List Field)
    [hg : ∀ env, Lawful (g env)] [hfs : LawfulFields fs] : LawfulFields (dep n g :: fs) :=
  lawfulFields_cons n g fs

instance lawful_recd (fs : List Field) [h : LawfulFields fs] : Lawful (recd fs) where
  law v f hv k := by
    cases v <;> simp [recd] at hv
    case record vs =>
      simp [recd, h.law [] vs f hv k]

/-- a record whose LAST field closes the cell -/
instance lawfulEndFields_last (n : String) (g : Env → Codec) [hg : ∀ env, LawfulEnd (g env)] :
    LawfulEndFields [(n, g)] where
  law env vs f h := by
    obtain ⟨v, vs', a, b, rfl, ha, hb, rfl⟩ := encFields_cons_cases n g [] env vs f h
    cases vs' <;> simp [encFields] at hb
    subst hb
    have h1 := (hg env).law v a ha
    simp [decFields, h1]

instance lawfulEndFields_cons (n : String) (g : Env → Codec) (fs : List Field)
    [hg : ∀ env, Lawful (g env)] [hfs : LawfulEndFields fs] : LawfulEndFields ((n, g) :: fs) where
  law env vs f h := by
    obtain ⟨v, vs', a, b, rfl, ha, hb, rfl⟩ := encFields_cons_cases n g fs env vs f h
    have h1 := (hg env).law v a ha b
    have h2 := hfs.law _ vs' b hb
    simp [decFields, h1, h2]

instance lawfulEndFields_last_fld (n : String) (c : Codec) [hc : LawfulEnd c] : LawfulEndFields [fld n c] :=
  lawfulEndFields_last n (fun _ => c)

instance lawfulEndFields_fld (n : String) (c : Codec) (fs : List Field)
    [hc : Lawful c] [hfs : LawfulEndFields fs] : LawfulEndFields (fld n c :: fs) :=
  lawfulEndFields_cons n (fun _ => c) fs

instance lawfulEndFields_dep (n : String) (g : Env → Codec) (fs : List Field)
    [hg : ∀ env, Lawful (g env)] [hfs : LawfulEndFields fs] : LawfulEndFields (dep n g :: fs) :=
  lawfulEndFields_cons n g fs

instance lawfulEnd_recd (fs : List Field) [h : LawfulEndFields fs] : LawfulEnd (recd fs) where
  law v f hv := by
    cases v <;> simp [recd] at hv
    case record vs =>
      simp [recd, h.law [] vs f hv]

/-! ### constructor alternatives -/

instance lawfulAlts_nil : LawfulAlts [] where
  law p n c h := by simp at h

instance lawfulAlts_cons (p : Bits) (n : String) (c : Codec) (more : List Alt)
    [hc : Lawful c] [hm : LawfulAlts more] : LawfulAlts ((p, n, c) :: more) where
  law p' n' c' h := by
    simp only [List.mem_cons] at h
    rcases h with h | h
    · cases h; exact hc
    · exact hm.law p' n' c' h

instance lawfulEndAlts_nil : LawfulEndAlts [] where
  law p n c h := by simp at h

instance lawfulEndAlts_cons (p : Bits) (n : String) (c : Codec) (more : List Alt)
    [hc : LawfulEnd c] [hm : LawfulEndAlts more] : LawfulEndAlts ((p, n, c) :: more) where
  law p' n' c' h := by
    simp only [List.mem_cons] at h
    rcases h with h | h
    · cases h; exact hc
    · exact hm.law p' n' c' h

/-- what `encAlts` emits starts with the tag of one of the alternatives -/
theorem encAlts_some (alts : List Alt) (nm : String) (v : Val) (f : Frag) (h : encAlts alts nm v = some f) :
    ∃ p c g, (p, nm, c) ∈ alts ∧ c.enc v = some g ∧ f = Frag.ofBits p ++ g := by
  induction alts with
  | nil => simp [encAlts] at h
  | cons a more ih =>
    obtain ⟨p, name, c⟩ := a
    simp only [encAlts] at h
    split at h
    · rename_i hn; subst hn
      simp only [Option.map_eq_some_iff] at h
      obtain ⟨g, hg, rfl⟩ := h
      exact ⟨p, c, g, by simp, hg, rfl⟩
    · obtain ⟨p', c', g, hm, hg, rfl⟩ := ih h
      exact ⟨p', c', g, by simp [hm], hg, rfl⟩

theorem noClash_mem (p : Bits) (qs : List Bits) (h : noClash p qs = true) (q : Bits) (hq : q ∈ qs) :
    p.isPrefixOf q = false ∧ q.isPrefixOf p = false := by
  induction qs with
  | nil => simp at hq
  | cons a qs ih =>
    simp only [noClash, Bool.and_eq_true, Bool.not_eq_true'] at h
    simp only [List.mem_cons] at hq
    rcases hq with rfl | hq
    · exact ⟨h.1.1, h.1.2⟩
    · exact ih h.2 hq

/-- decoding what `encAlts` emitted, under prefix-freeness, for a family of per-alternative laws `P` -/
theorem decAlts_encAlts (alts : List Alt) (hpf : prefixFree (altTags alts) = true)
    (nm : String) (v : Val) (f : Frag) (h : encAlts alts nm v = some f) (k : Frag)
    (hl : ∀ p c g, (p, nm, c) ∈ alts → c.enc v = some g → c.dec (g ++ k) = some (v, k)) :
    decAlts alts (f ++ k) = some (.con nm v, k) := by
  induction alts with
  | nil => simp [encAlts] at h
  | cons a more ih =>
    obtain ⟨p, name, c⟩ := a
    simp only [altTags, List.map_cons, prefixFree, Bool.and_eq_true] at hpf
    simp only [encAlts] at h
    split at h
    · rename_i hn; subst hn
      simp only [Option.map_eq_some_iff] at h
      obtain ⟨g, hg, rfl⟩ := h
      have := hl p c g (by simp) hg
      simp [decAlts, isPrefixOf_app, this]
    · obtain ⟨q, c', g, hm, hg, rfl⟩ := encAlts_some more nm v f h
      have hq : q ∈ altTags more := by
        simp only [altTags, List.mem_map]; exact ⟨_, hm, rfl⟩
      have hnc := noClash_mem p _ hpf.1 q hq
      have hnot : p.isPrefixOf ((Frag.ofBits q ++ g ++ k).bits) = false := by
        cases hpp : p.isPrefixOf ((Frag.ofBits q ++ g ++ k).bits) with
        | false => rfl
        | true =>
          simp only [Frag.app_bits, Frag.ofBits_bits, List.append_assoc] at hpp
          rcases isPrefixOf_app_cases p q _ hpp with h1 | h1
          · simp [hnc.1] at h1
          · simp [hnc.2] at h1
      simp only [decAlts, hnot]
      exact ih hpf.2 h (fun p c g hm' => hl p c g (by simp [hm']))

instance lawful_tagged (alts : List Alt) [ha : LawfulAlts alts] : Lawful (tagged alts) := by
  unfold tagged
  split
  · rename_i hpf
    exact ⟨fun v f h k => by
      cases v <;> simp at h
      case con nm x =>
        exact decAlts_encAlts alts hpf nm x f h k (fun p c g hm hg => (ha.law p nm c hm).law x g hg k)⟩
  · infer_instance

instance lawfulEnd_tagged (alts : List Alt) [ha : LawfulEndAlts alts] : LawfulEnd (tagged alts) := by
  unfold tagged
  split
  · rename_i hpf
    exact ⟨fun v f h => by
      cases v <;> simp at h
      case con nm x =>
        have := decAlts_encAlts alts hpf nm x f h Frag.nil
          (fun p c g hm hg => by simpa using (ha.law p nm c hm).law x g hg)
        simpa using this⟩
  · infer_instance

/-! ### ranges, Unary, HmLabel, Hashmap*, BinTree -/

instance lawful_uintRange (n lo hi : Nat) : Lawful (uintRange n lo hi) := by
  unfold uintRange; infer_instance
instance lawful_uintLe (m : Nat) : Lawful (uintLe m) := by unfold uintLe; infer_instance
instance lawful_uintLt (m : Nat) : Lawful (uintLt m) := by unfold uintLt; infer_instance

theorem decUnary_replicate (n : Nat) (r : Bits) :
    decUnary (List.replicate n true ++ false :: r) = some (n, r) := by
  induction n with
  | zero => simp [decUnary]
  | succ n ih => simp [List.replicate_succ, decUnary, ih]

instance lawful_unary : Lawful unary where
  law v f h k := by
    cases v <;> simp [unary] at h
    case int i =>
      obtain ⟨h0, rfl⟩ := h
      simp only [unary, Frag.app_bits, Frag.ofBits_bits, List.append_assoc, List.cons_append, List.nil_append,
        decUnary_replicate, Frag.app_refs, Frag.ofBits_refs, Option.map_some]
      congr; omega

instance lawful_hmLabel (m : Nat) : Lawful (hmLabel m) := by unfold hmLabel; infer_instance

instance lawful_hmNode (edge : Nat → Codec) (X : Codec) (n l : Nat) [Lawful X] [∀ m, Lawful (edge m)] :
    Lawful (hmNode edge X n l) := by unfold hmNode; infer_instance

instance lawful_hashmapF (X : Codec) [Lawful X] : ∀ fuel n, Lawful (hashmapF X fuel n)
  | 0, n => by unfold hashmapF; infer_instance
  | fuel+1, n => by
    have ih := lawful_hashmapF X fuel
    unfold hashmapF; infer_instance

instance lawful_ahmNode (edge : Nat → Codec) (X Y : Codec) (n l : Nat) [Lawful X] [Lawful Y]
    [∀ m, Lawful (edge m)] : Lawful (ahmNode edge X Y n l) := by unfold ahmNode; infer_instance

instance lawful_hashmapAugF (X Y : Codec) [Lawful X] [Lawful Y] : ∀ fuel n, Lawful (hashmapAugF X Y fuel n)
  | 0, n => by unfold hashmapAugF; infer_instance
  | fuel+1, n => by
    have ih := lawful_hashmapAugF X Y fuel
    unfold hashmapAugF; infer_instance

instance lawful_hashmap (n : Nat) (X : Codec) [Lawful X] : Lawful (hashmap n X) := by
  unfold hashmap; infer_instance
instance lawful_hashmapAug (n : Nat) (X Y : Codec) [Lawful X] [Lawful Y] : Lawful (hashmapAug n X Y) := by
  unfold hashmapAug; infer_instance
instance lawful_hashmapE (n : Nat) (X : Codec) [Lawful X] : Lawful (hashmapE n X) := by
  unfold hashmapE; infer_instance
instance lawful_hashmapAugE (n : Nat) (X Y : Codec) [Lawful X] [Lawful Y] : Lawful (hashmapAugE n X Y) := by
  unfold hashmapAugE; infer_instance

instance lawful_binTreeF (X : Codec) [Lawful X] : ∀ fuel, Lawful (binTreeF X fuel)
  | 0 => by unfold binTreeF; infer_instance
  | fuel+1 => by
    have ih := lawful_binTreeF X fuel
    unfold binTreeF; infer_instance

instance lawful_binTree (X : Codec) [Lawful X] : Lawful (binTree X) := by unfold binTree; infer_instance


/-! ### read traces (`Traced`): the trace of a value, replayed as a read script on its encoding followed by any
    continuation, consumes exactly the encoding — at every nesting level -/

theorem replay_cons (e : Ev) (es : List Ev) (st : List Frag) :
    replay (e :: es) st = (e.step st).bind (replay es) := by
  simp only [replay]; cases e.step st <;> rfl

theorem replay_append (a b : List Ev) (st : List Frag) :
    replay (a ++ b) st = (replay a st).bind (replay b) := by
  induction a generalizing st with
  | nil => simp [replay]
  | cons e es ih =>
    simp only [List.cons_append, replay_cons]
    cases e.step st with
    | none => simp
    | some st' => simp [ih]

theorem step_rd (kind : String) (b : Bits) (k : Frag) (st : List Frag) :
    (Ev.rd kind b.length).step ((Frag.ofBits b ++ k) :: st) = some (k :: st) := by
  simp [Ev.step]

theorem step_push (n : String) (st : List Frag) : (Ev.push n).step st = some st := by
  cases st <;> rfl
theorem step_pop (st : List Frag) : Ev.pop.step st = some st := by
  cases st <;> rfl

/-- a codec that writes bits only and whose trace is one read of exactly that many bits -/
theorem traced_of_rd (c : Codec)
    (h : ∀ v f, c.enc v = some f → ∃ kind b, f = Frag.ofBits b ∧ c.trace v = [.rd kind b.length]) : Traced c where
  law v f hf k st := by
    obtain ⟨kind, b, rfl, ht⟩ := h v f hf
    rw [ht, replay_cons, step_rd]; rfl

instance traced_nothing : Traced nothing where
  law v f h k st := by
    cases v <;> simp [nothing] at h
    subst h; simp [nothing, replay]

instance traced_failC : Traced failC where
  law v f h := by simp [failC] at h

instance traced_uint (n : Nat) : Traced (uint n) := traced_of_rd _ (by
  intro v f h
  cases v <;> simp [uint] at h
  case int i =>
    obtain ⟨_, rfl⟩ := h
    exact ⟨"u", _, rfl, by simp [uint, natToBits_length]⟩)

instance traced_sint (n : Nat) : Traced (sint n) := traced_of_rd _ (by
  intro v f h
  cases v <;> simp [sint] at h
  case int i =>
    obtain ⟨_, _, rfl⟩ := h
    exact ⟨"i", _, rfl, by simp [sint, natToBits_length]⟩)

instance traced_bitsC (n : Nat) : Traced (bitsC n) := traced_of_rd _ (by
  intro v f h
  cases v <;> simp [bitsC] at h
  case bits b =>
    obtain ⟨hl, rfl⟩ := h
    exact ⟨"b", b, rfl, by simp [bitsC, hl]⟩)

instance traced_boolC : Traced boolC := traced_of_rd _ (by
  intro v f h
  cases v <;> simp [boolC] at h
  case bool b =>
    subst h
    exact ⟨"c", [b], rfl, by simp [boolC]⟩)

instance traced_varUInt (k : Nat) : Traced (varUInt k) := traced_of_rd _ (by
  intro v f h
  cases v <;> simp [varUInt] at h
  case int i =>
    obtain ⟨_, rfl⟩ := h
    exact ⟨"v" ++ toString (bitLen (k - 1)), _, rfl, by simp [varUInt, natToBits_length]⟩)

instance traced_grams : Traced grams := traced_varUInt 16

instance traced_unary : Traced unary := traced_of_rd _ (by
  intro v f h
  cases v <;> simp [unary] at h
  case int i =>
    obtain ⟨_, rfl⟩ := h
    exact ⟨"c", _, rfl, by simp [unary]⟩)

instance traced_cellRef : Traced cellRef where
  law v f h k st := by
    cases v <;> simp [cellRef] at h
    subst h; simp [cellRef, replay, Ev.step]

theorem replay_rawrefs (r : List Cell) (bits : Bits) (kr : List Cell) (st : List Frag) :
    replay (List.replicate r.length Ev.rawref) (⟨bits, r ++ kr⟩ :: st) = some (⟨bits, kr⟩ :: st) := by
  induction r with
  | nil => simp [replay]
  | cons c r ih => simp [List.replicate_succ, replay_cons, Ev.step, ih]

instance traced_rest : Traced rest where
  law v f h k st := by
    cases v <;> simp [rest] at h
    case cell c =>
      obtain ⟨e, b, r⟩ := c
      cases e <;> simp at h
      subst h
      simp only [rest, replay_cons]
      have : (Ev.rd "b" b.length).step ((⟨b, r⟩ ++ k) :: st) = some (⟨k.bits, r ++ k.refs⟩ :: st) := by
        simp [Ev.step]
      rw [this]
      simpa using replay_rawrefs r k.bits k.refs st

instance traced_ref (c : Codec) [hc : Traced c] : Traced (ref c) where
  law v f h k st := by
    simp only [ref] at h
    split at h
    · rename_i g hg
      split at h
      · simp at h; subst h
        have h1 := hc.law v g hg Frag.nil (k :: st)
        simp only [Frag.app_nil] at h1
        have h0 : Ev.enter.step ((⟨[], [Cell.mk false g.bits g.refs]⟩ ++ k) :: st) = some (g :: k :: st) := by
          simp [Ev.step]
        simp only [ref, replay_cons, h0, Option.bind_some, replay_append, h1]
        simp [replay, Ev.step, Frag.nil]
      · simp at h
    · simp at h

instance traced_maybe (c : Codec) [hc : Traced c] : Traced (maybe c) where
  law v f h k st := by
    by_cases hv : v = .unit
    · subst hv; simp [maybe] at h; subst h
      have h0 := step_rd "c" [false] k st
      simp only [List.length_singleton] at h0
      simp [maybe, replay_cons, h0, replay]
    · have h' : (c.enc v).map (Frag.ofBits [true] ++ ·) = some f := by
        cases v <;> simp_all [maybe]
      simp only [Option.map_eq_some_iff] at h'
      obtain ⟨g, hg, rfl⟩ := h'
      have ht : (maybe c).trace v = .rd "c" 1 :: c.trace v := by
        cases v <;> simp_all [maybe]
      have h1 := hc.law v g hg k st
      have h0 := step_rd "c" [true] (g ++ k) st
      simp only [List.length_singleton] at h0
      rw [ht, replay_cons, Frag.app_assoc, h0]
      simpa using h1

instance traced_either (a b : Codec) [ha : Traced a] [hb : Traced b] : Traced (either a b) where
  law v f h k st := by
    rcases either_enc_cases a b v f h with ⟨x, g, rfl, hg, rfl⟩ | ⟨y, g, rfl, hg, rfl⟩
    · have h1 := ha.law x g hg k st
      have h0 := step_rd "c" [false] (g ++ k) st
      simp only [List.length_singleton] at h0
      simp only [either, replay_cons, Frag.app_assoc, h0]
      simpa using h1
    · have h1 := hb.law y g hg k st
      have h0 := step_rd "c" [true] (g ++ k) st
      simp only [List.length_singleton] at h0
      simp only [either, replay_cons, Frag.app_assoc, h0]
      simpa using h1

instance traced_constrained (c : Codec) (p : Val → Bool) (g : Option (Gen Val)) [hc : Traced c] :
    Traced (constrained c p g) where
  law v f h k st := by
    simp only [constrained] at h
    split at h
    · exact hc.law v f h k st
    · simp at h

instance traced_withGen (c : Codec) (g : Gen Val) [hc : Traced c] : Traced (withGen c g) where
  law v f h k st := hc.law v f h k st
instance traced_withPaths (c : Codec) (p : PMode → Gen (List Val)) [hc : Traced c] : Traced (withPaths c p) where
  law v f h k st := hc.law v f h k st
instance traced_typ (n : String) (c : Codec) [hc : Traced c] : Traced (typ n c) where
  law v f h k st := hc.law v f h k st

theorem step_untype (e : Ev) (st : List Frag) : e.untype.step st = e.step st := by
  cases e <;> cases st <;> rfl

theorem replay_untype (t : List Ev) (st : List Frag) : replay (t.map Ev.untype) st = replay t st := by
  induction t generalizing st with
  | nil => rfl
  | cons e es ih =>
    simp only [List.map_cons, replay_cons, step_untype]
    cases e.step st with
    | none => rfl
    | some st' => simp [ih]

instance traced_untyped (c : Codec) [hc : Traced c] : Traced (untyped c) where
  law v f h k st := by
    have := hc.law v f h k st
    simpa [untyped, replay_untype] using this

instance traced_ctag (p : Bits) (c : Codec) [hc : Traced c] : Traced (ctag p c) where
  law v f h k st := by
    simp only [ctag, Option.map_eq_some_iff] at h
    obtain ⟨g, hg, rfl⟩ := h
    have h1 := hc.law v g hg k st
    have h0 := step_rd "c" p (g ++ k) st
    simp only [ctag, replay_cons, Frag.app_assoc, h0]
    simpa using h1

instance traced_named (n : String) (c : Codec) [hc : Traced c] : Traced (named n c) where
  law v f h k st := by
    cases v <;> simp [named] at h
    case con nm x =>
      obtain ⟨rfl, hx⟩ := h
      have h1 := hc.law x f hx k st
      simp [named, replay_cons, step_push, replay_append, h1, step_pop, replay]

instance traced_ite (p : Prop) [Decidable p] (a b : Codec) [ha : Traced a] [hb : Traced b] :
    Traced (if p then a else b) := by
  split <;> assumption

class TracedFields (fs : List Field) : Prop where
  law : ∀ env vs f, encFields fs env vs = some f → ∀ (k : Frag) (st : List Frag),
    replay (traceFields fs env vs) ((f ++ k) :: st) = some (k :: st)

instance tracedFields_nil : TracedFields [] where
  law env vs f h k st := by
    cases vs <;> simp [encFields] at h
    subst h; simp [traceFields, replay]

instance tracedFields_cons (n : String) (g : Env → Codec) (fs : List Field)
    [hg : ∀ env, Traced (g env)] [hfs : TracedFields fs] : TracedFields ((n, g) :: fs) where
  law env vs f h k st := by
    obtain ⟨v, vs', a, b, rfl, ha, hb, rfl⟩ := encFields_cons_cases n g fs env vs f h
    have h1 := (hg env).law v a ha (b ++ k) st
    have h2 := hfs.law _ vs' b hb k st
    simp [traceFields, replay_cons, step_push, step_pop, replay_append, Frag.app_assoc, h1, h2]

instance tracedFields_fld (n : String) (c : Codec) (fs : List Field)
    [hc : Traced c] [hfs : TracedFields fs] : TracedFields (fld n c :: fs) :=
  tracedFields_cons n (fun _ => c) fs

instance tracedFields_dep (n : String) (g : Env → Codec) (fs : List Field)
    [hg : ∀ env, Traced (g env)] [hfs : TracedFields fs] : TracedFields (dep n g :: fs) :=
  tracedFields_cons n g fs

instance traced_recd (fs : List Field) [h : TracedFields fs] : Traced (recd fs) where
  law v f hv k st := by
    cases v <;> simp [recd] at hv
    case record vs => simpa [recd] using h.law [] vs f hv k st

class TracedAlts (alts : List Alt) : Prop where
  law : ∀ p n c, (p, n, c) ∈ alts → Traced c

instance tracedAlts_nil : TracedAlts [] where
  law p n c h := by simp at h

instance tracedAlts_cons (p : Bits) (n : String) (c : Codec) (more : List Alt)
    [hc : Traced c] [hm : TracedAlts more] : TracedAlts ((p, n, c) :: more) where
  law p' n' c' h := by
    simp only [List.mem_cons] at h
    rcases h with h | h
    · cases h; exact hc
    · exact hm.law p' n' c' h

theorem replay_traceAlts (alts : List Alt) (nm : String) (v : Val) (f : Frag) (h : encAlts alts nm v = some f)
    (hl : ∀ p c, (p, nm, c) ∈ alts → Traced c) (k : Frag) (st : List Frag) :
    replay (traceAlts alts nm v) ((f ++ k) :: st) = some (k :: st) := by
  induction alts with
  | nil => simp [encAlts] at h
  | cons a more ih =>
    obtain ⟨p, name, c⟩ := a
    simp only [encAlts] at h
    split at h
    · rename_i hn; subst hn
      simp only [Option.map_eq_some_iff] at h
      obtain ⟨g, hg, rfl⟩ := h
      have h1 := (hl p c (by simp)).law v g hg k st
      have h0 := step_rd "c" p (g ++ k) st
      simp [traceAlts, replay_cons, Frag.app_assoc, h0, step_push, replay_append, h1, step_pop, replay]
    · rename_i hn
      simp only [traceAlts, hn, if_false]
      exact ih h (fun p c hm => hl p c (by simp [hm]))

instance traced_tagged (alts : List Alt) [ha : TracedAlts alts] : Traced (tagged alts) := by
  unfold tagged
  split
  · exact ⟨fun v f h k st => by
      cases v <;> simp at h
      case con nm x =>
        exact replay_traceAlts alts nm x f h (fun p c hm => ha.law p nm c hm) k st⟩
  · infer_instance

instance traced_uintRange (n lo hi : Nat) : Traced (uintRange n lo hi) := by
  unfold uintRange; infer_instance
instance traced_uintLe (m : Nat) : Traced (uintLe m) := by unfold uintLe; infer_instance
instance traced_uintLt (m : Nat) : Traced (uintLt m) := by unfold uintLt; infer_instance
instance traced_hmLabel (m : Nat) : Traced (hmLabel m) := by unfold hmLabel; infer_instance

instance traced_hmNode (edge : Nat → Codec) (X : Codec) (n l : Nat) [Traced X] [∀ m, Traced (edge m)] :
    Traced (hmNode edge X n l) := by unfold hmNode; infer_instance

instance traced_hashmapF (X : Codec) [Traced X] : ∀ fuel n, Traced (hashmapF X fuel n)
  | 0, n => by unfold hashmapF; infer_instance
  | fuel+1, n => by
    have ih := traced_hashmapF X fuel
    unfold hashmapF; infer_instance

instance traced_ahmNode (edge : Nat → Codec) (X Y : Codec) (n l : Nat) [Traced X] [Traced Y]
    [∀ m, Traced (edge m)] : Traced (ahmNode edge X Y n l) := by unfold ahmNode; infer_instance

instance traced_hashmapAugF (X Y : Codec) [Traced X] [Traced Y] : ∀ fuel n, Traced (hashmapAugF X Y fuel n)
  | 0, n => by unfold hashmapAugF; infer_instance
  | fuel+1, n => by
    have ih := traced_hashmapAugF X Y fuel
    unfold hashmapAugF; infer_instance

instance traced_hashmap (n : Nat) (X : Codec) [Traced X] : Traced (hashmap n X) := by
  unfold hashmap; infer_instance
instance traced_hashmapAug (n : Nat) (X Y : Codec) [Traced X] [Traced Y] : Traced (hashmapAug n X Y) := by
  unfold hashmapAug; infer_instance
instance traced_hashmapE (n : Nat) (X : Codec) [Traced X] : Traced (hashmapE n X) := by
  unfold hashmapE; infer_instance
instance traced_hashmapAugE (n : Nat) (X Y : Codec) [Traced X] [Traced Y] : Traced (hashmapAugE n X Y) := by
  unfold hashmapAugE; infer_instance

instance traced_binTreeF (X : Codec) [Traced X] : ∀ fuel, Traced (binTreeF X fuel)
  | 0 => by unfold binTreeF; infer_instance
  | fuel+1 => by
    have ih := traced_binTreeF X fuel
    unfold binTreeF; infer_instance

instance traced_binTree (X : Codec) [Traced X] : Traced (binTree X) := by unfold binTree; infer_instance

end TonVerif.Tlb
