/-
C11 / locsrc (c): the straight-line part of the regenerated `ShardStateUnsplit.deserialize` - the `^[ overload_history … master_ref ]`
group and the 361 header bits / reference list - against `stateRefGroup` / `locateAccount`; then the all-cells walk theorem.
-/
import TonVerif.Proofs.SrcLocateAccounts
namespace TonVerif.Proofs.SrcLocate
open TonVerif TonVerif.Model TonVerif.Tlb TonVerif.Model.Hashmap TonVerif.Proofs.Hashmap TonVerif.Proofs.Locate

theorem loadUint_eq (n : Nat) (hn : n ≠ 0) (b : Bits) (r : List Tlb.Cell) :
    Rd.loadUint n ⟨b, r⟩ = if b.length < n then none else some (.int (natOfBits (b.take n)), ⟨b.drop n, r⟩) := by
  simp only [Rd.loadUint, hn, if_false, Rd.takeBits]
  split <;> rfl

theorem loadInt_eq (n : Nat) (hn : n ≠ 0) (b : Bits) (r : List Tlb.Cell) :
    Rd.loadInt n ⟨b, r⟩ = if b.length < n then none else some (.int (Rd.sintOfBits (b.take n)), ⟨b.drop n, r⟩) := by
  simp only [Rd.loadInt, hn, if_false, Rd.takeBits]
  split <;> rfl

theorem loadBits_eq (n : Nat) (b : Bits) (r : List Tlb.Cell) :
    Rd.loadBits n ⟨b, r⟩ = if b.length < n then none else some (.bits (b.take n), ⟨b.drop n, r⟩) := by
  simp only [Rd.loadBits, Rd.takeBits]
  split <;> rfl

/-- `BlkMasterInfo` = `ExtBlkRef`: four straight reads, 608 bits -/
theorem blkMasterInfo_isSome (sp : Bool) (b : Bits) (r : List Tlb.Cell) :
    (Src.BlkMasterInfo sp ⟨b, r⟩).isSome = decide (608 ≤ b.length) := by
  simp only [Src.BlkMasterInfo, Src.ExtBlkRef, Rd.loadBytes, loadUint_eq 64 (by decide), loadUint_eq 32 (by decide), loadBits_eq]
  by_cases h : 608 ≤ b.length
  · have h1 : ¬ b.length < 64 := by omega
    have h2 : ¬ b.length - 64 < 32 := by omega
    have h3 : ¬ b.length - 96 < 256 := by omega
    have h4 : ¬ b.length - 352 < 256 := by omega
    simp [h, h1, h2, h3, h4, loadBits_eq]
  · by_cases h1 : b.length < 64
    · simp [h, h1]
    · by_cases h2 : b.length - 64 < 32
      · simp [h, h1, h2]
      · by_cases h3 : b.length - 96 < 256
        · simp [h, h1, h2, h3, loadBits_eq]
        · have h4 : b.length - 352 < 256 := by omega
          simp [h, h1, h2, h3, h4, loadBits_eq]

/-- the `^[…]` group of the regenerated `ShardStateUnsplit` as the translator emits it (its own definition `SrcLoc.ShardStateUnsplit_group`),
called as the parser calls it: on `ref = cell_slice.load_ref().begin_parse()` with the six `None` defaults -/
def groupExpr (c12 : Tlb.Cell) : Option (Val × Val × Val × Val × Val × Val × Frag) :=
  SrcLoc.ShardStateUnsplit_group c12 (Rd.beginParse c12) .unit .unit .unit .unit .unit .unit

theorem optional_master_isSome (sp : Bool) (s : PSlice) :
    (Rd.optional (psliceFrag s) (Src.BlkMasterInfo sp)).isSome =
      (match s.1 with
       | [] => false
       | false :: _ => true
       | true :: r => decide (608 ≤ r.length)) := by
  obtain ⟨b, refs⟩ := s
  match b with
  | [] => simp [Rd.optional, Rd.loadBit, psliceFrag]
  | false :: r => simp [Rd.optional, Rd.loadBit, psliceFrag, Rd.truthy]
  | true :: r => simp [Rd.optional, Rd.loadBit, psliceFrag, Rd.truthy, blkMasterInfo_isSome]

theorem group_isSome (grp : PCell) : (groupExpr (tcell grp)).isSome = stateRefGroup grp := by
  obtain ⟨gi, gr⟩ := grp
  simp only [groupExpr, SrcLoc.ShardStateUnsplit_group, tcell_mk, Rd.special, Rd.beginParse, Tlb.Cell.exotic, Tlb.Cell.bits, Tlb.Cell.refs, stateRefGroup, PCell.info,
    PCell.refs]
  by_cases hk : gi.kind = -1
  · simp only [hk, bne_self_eq_false, Bool.not_false, if_true, ne_eq, not_true_eq_false, if_false, loadUint_eq 64 (by decide)]
    by_cases hl : gi.bits.length < 128
    · by_cases h1 : gi.bits.length < 64
      · simp [hl, h1]
      · have h2 : gi.bits.length - 64 < 64 := by omega
        simp [hl, h1, h2]
    · have h1 : ¬ gi.bits.length < 64 := by omega
      have h2 : ¬ gi.bits.length - 64 < 64 := by omega
      simp only [hl, h1, h2, if_false, List.length_drop, List.drop_drop, Option.bind_eq_bind, Option.bind_some, Nat.reduceAdd]
      have c1 := currencyCollection_rest false (gi.bits.drop 128, gr)
      simp only [psliceFrag] at c1
      rcases hs1 : SrcTx.CurrencyCollection false ⟨gi.bits.drop 128, tcells gr⟩ with _ | ⟨v1, f1⟩ <;>
        rcases hm1 : readCurrencyCollection (gi.bits.drop 128, gr) with _ | p1 <;> rw [hs1, hm1] at c1 <;> simp at c1
      · simp
      subst c1
      have c2 := currencyCollection_rest false p1
      rcases hs2 : SrcTx.CurrencyCollection false (psliceFrag p1) with _ | ⟨v2, f2⟩ <;>
        rcases hm2 : readCurrencyCollection p1 with _ | p2 <;> rw [hs2, hm2] at c2 <;> simp at c2
      · simp [hs2, hm2]
      subst c2
      have c3 := dictRaw_rest 256 (by omega) p2
      rcases hs3 : Rd.loadDictRaw 256 (psliceFrag p2) with _ | ⟨v3, f3⟩ <;>
        rcases hm3 : readDictRaw 256 p2 with _ | p3 <;> rw [hs3, hm3] at c3 <;> simp at c3
      · simp [hs2, hs3, hm2, hm3]
      subst c3
      have c4 := optional_master_isSome false p3
      rcases hs4 : Rd.optional (psliceFrag p3) (Src.BlkMasterInfo false) with _ | ⟨v4, f4⟩ <;> rw [hs4] at c4 <;>
        simp at c4 <;> simp [hs2, hs3, hs4, hm2, hm3] <;> (rcases hp : p3.1 with _ | ⟨b0, r0⟩ <;> rw [hp] at c4 <;> try cases b0) <;> simp_all
  · have hb : (gi.kind != -1) = true := by simpa using hk
    simp [hb, hk]


theorem bind_ite_none {α β : Type} (c : Prop) [Decidable c] (y : Option α) (k : α → Option β) :
    Option.bind (if c then none else y) k = if c then none else Option.bind y k := by
  split <;> rfl

theorem bp_mk (e : Bool) (b : Bits) (r : List Tlb.Cell) : Rd.beginParse (Tlb.Cell.mk e b r) = ⟨b, r⟩ := rfl
theorem sp_mk (e : Bool) (b : Bits) (r : List Tlb.Cell) : Rd.special (Tlb.Cell.mk e b r) = e := rfl

/-- the value `load_bit()` returns -/
def bitVal (b : Bits) : Val := .int (if b.headD false then 1 else 0)

theorem loadBit_eq (b : Bits) (r : List Tlb.Cell) :
    Rd.loadBit ⟨b, r⟩ = if b.length < 1 then none else some (bitVal b, ⟨b.drop 1, r⟩) := by
  cases b <;> simp [Rd.loadBit, bitVal]

theorem locate_short (st : PCell) (addr : Bytes) (h : st.info.bits.length < 361) : locateAccount srcOpaque st addr = none := by
  unfold locateAccount
  by_cases hk : st.info.kind = -1 <;> simp [hk, h]

theorem locate_badident (st : PCell) (addr : Bytes) (h : (st.info.bits.drop 64).take 2 ≠ [false, false]) :
    locateAccount srcOpaque st addr = none := by
  unfold locateAccount
  by_cases hk : st.info.kind = -1 <;> by_cases h1 : st.info.bits.length < 361 <;>
    by_cases h2 : st.info.bits.take 32 = shardStateTag <;> simp [hk, h, h1, h2]

end TonVerif.Proofs.SrcLocate
