/-
The `load_* / preload_* / skip_bits` methods of slice.py and `TvmBitarray.__delitem__ / check_underflow`, regenerated from the
source (Generated/SliceOps.lean, translator harness/translate/pymeth.py), equal the hand model `Model.SOp.*` for ALL arguments and
ALL slice states: same decision to raise, same slice afterwards (also after a raise half-way), same returned value.

The source keeps ALL references of the cell and an offset; the model keeps the remaining references: `view s` drops the consumed
ones.  `viewR f r` reads a regenerated result through `view`, with the returned value mapped by `f` (an unsigned number is a
`Nat` in the regenerated code and an `Int` in the model; a bit is `0 / 1` there and a `Bool` here).
-/
import TonVerif.Generated.SliceOps
import TonVerif.Proofs.Slice

namespace TonVerif.Proofs.SrcSlice
open TonVerif TonVerif.Model TonVerif.Generated.SliceOps TonVerif.Proofs.Slice
variable {R : Type} {α β γ δ : Type}
set_option linter.unusedSimpArgs false
set_option linter.unusedVariables false

/-- the model's slice: remaining bits, remaining references -/
def view (s : Py.SliceSt R) : Slice R := ⟨s.bits, s.refs.drop s.ref_offset⟩

/-- a regenerated result read as a model result -/
def viewR (f : α → β) (r : Py.SliceSt R × Option α) : Slice R × Option β := (view r.1, r.2.map f)

/-! ### generation independent: sequencing -/

/-- decide the next `if` of the goal (of the regenerated code or of the model, however its arithmetic test is spelled) from the
hypotheses in context -/
macro "src_if" : tactic => `(tactic| first
  | (rw [if_pos]; (first | done | (rotate_left; omega)))
  | (rw [if_neg]; (first | done | (rotate_left; omega))))

/-- sequencing: `Py.bindS` of the regenerated code is `SOp.bind` of the model -/
theorem viewR_bindS (f : α → β) (f' : γ → δ) (r : Py.SliceSt R × Option α) (k : Py.SliceSt R → α → Py.SliceSt R × Option γ)
    (m : SOp R β) (k' : β → SOp R δ) (s0 : Slice R)
    (h1 : viewR f r = m s0) (h2 : ∀ s a, viewR f' (k s a) = k' (f a) (view s)) :
    viewR f' (Py.bindS r k) = SOp.bind m k' s0 := by
  rcases r with ⟨s, _ | a⟩
  · simp only [SOp.bind, ← h1, viewR, Py.bindS, Option.map]
  · simp only [SOp.bind, ← h1, viewR, Py.bindS, Option.map]
    exact h2 s a

@[simp] theorem bindS_retU {σ : Type} (r : σ × Option Unit) : Py.bindS r (fun s _ => (s, some ())) = r := by
  rcases r with ⟨s, _ | a⟩ <;> rfl

@[simp] theorem bindS_ret {σ : Type} (r : σ × Option α) : Py.bindS r (fun s a => (s, some a)) = r := by
  rcases r with ⟨s, _ | a⟩ <;> rfl

theorem bitAt_zero (bits : Bits) :
    Py.bitAt? bits ((0 : Nat) : Int) = match bits with | [] => none | b :: _ => some (if b then 1 else 0) := by
  unfold Py.bitAt? Py.getI?
  cases bits <;> simp

theorem viewR_ret (f : α → β) (s : Py.SliceSt R) (a : α) : viewR f (s, some a) = SOp.pure (f a) (view s) := rfl

theorem viewR_bindO (f : α → β) (o : Option α) (s : Py.SliceSt R) :
    viewR f (Py.bindO o s fun x => (s, some x)) = SOp.ofOption (o.map f) (view s) := by
  cases o <;> rfl

theorem ba2intU_eq (bs : Bits) : (Py.ba2intU? bs).map (fun (n : Nat) => (n : Int)) = SOp.ba2intU bs := by
  unfold Py.ba2intU? SOp.ba2intU
  cases bs <;> simp

theorem ba2intS_eq (bs : Bits) : Py.ba2intS? bs = SOp.ba2intS bs := by
  unfold Py.ba2intS? SOp.ba2intS
  cases bs <;> rfl

/-! ### TvmBitarray.__delitem__ with its underflow check is `delBits` -/

theorem src_check_underflow (n : Int) (bits : Bits) :
    TvmBitarray_check_underflow n bits = (bits, if ((bits.length : Nat) : Int) < n then none else some ()) := by
  unfold TvmBitarray_check_underflow
  (repeat' split) <;> first | rfl | (exfalso; omega)

theorem src_delitem_slice (n : Nat) (bits : Bits) :
    TvmBitarray_delitem_slice none (some n) bits =
      if n = 0 then (bits, some ()) else if bits.length < n then (bits, none) else (bits.drop n, some ()) := by
  unfold TvmBitarray_delitem_slice Py.optOr Py.delSlice Py.bindS
  simp only [src_check_underflow]
  by_cases h0 : n = 0
  · subst h0; simp
  · by_cases h : bits.length < n
    · have h' : ((bits.length : Nat) : Int) < ((n : Nat) : Int) - ((0 : Nat) : Int) := by omega
      simp [h0, h, h']
    · have h' : ¬ ((bits.length : Nat) : Int) < ((n : Nat) : Int) - ((0 : Nat) : Int) := by omega
      simp [h0, h, h']

theorem src_del_eq (n : Nat) (s : Py.SliceSt R) :
    viewR id (Py.zoom (TvmBitarray_delitem_slice none (some n) s.bits) (fun v => { s with bits := v })) =
      SOp.delBits n (view s) := by
  rw [src_delitem_slice]
  unfold SOp.delBits viewR view Py.zoom
  by_cases h0 : n = 0
  · simp [h0]
  · by_cases h : s.bits.length < n <;> simp [h0, h]

theorem src_delitem_nat (bits : Bits) :
    TvmBitarray_delitem_nat 0 bits = match bits with | [] => ([], none) | _ :: rest => (rest, some ()) := by
  unfold TvmBitarray_delitem_nat Py.delAt? Py.bindS Py.bindO
  simp only [src_check_underflow]
  cases bits with
  | nil => simp
  | cons b rest =>
    have h1 : ¬ (((b :: rest).length : Nat) : Int) < 1 := by simp; omega
    rw [if_neg h1]
    simp

/-! ### the primitive reads -/

theorem src_skip_bits_eq (n : Nat) (s : Py.SliceSt R) : viewR id (skip_bits n s) = SOp.skipBits n (view s) := by
  unfold skip_bits SOp.skipBits
  rw [bindS_retU]
  exact src_del_eq n s

/-- the advance of a consuming read: `del self.bits[:n]` or `self.skip_bits(n)` (tried in this order) -/
macro "src_del_step " n:term:max s:term:max : tactic =>
  `(tactic| first
    | refine viewR_bindS id _ _ _ _ _ _ (src_del_eq $n $s) fun s2 _ => ?_
    | refine viewR_bindS id _ _ _ _ _ _ (src_skip_bits_eq $n $s) fun s2 _ => ?_)

theorem src_preload_bits_eq (n : Nat) (s : Py.SliceSt R) : viewR id (preload_bits n s) = SOp.peekBits n (view s) := by
  unfold preload_bits SOp.peekBits viewR view; simp

theorem src_load_bits_eq (n : Nat) (s : Py.SliceSt R) : viewR id (load_bits n s) = SOp.loadBits n (view s) := by
  unfold load_bits SOp.loadBits
  simp only [bind_eq, pure_eq]
  refine viewR_bindS id id _ _ _ _ _ (src_preload_bits_eq n s) fun s1 bs => ?_
  src_del_step n s1
  rfl

theorem src_preload_uint_eq (n : Nat) (s : Py.SliceSt R) :
    viewR (fun (v : Nat) => (v : Int)) (preload_uint n s) = SOp.preloadUint n (view s) := by
  unfold preload_uint SOp.preloadUint
  simp only [bind_eq, SOp.bind, SOp.peekBits]
  rw [viewR_bindO, ba2intU_eq]
  simp [view]

theorem src_load_uint_eq (n : Nat) (s : Py.SliceSt R) :
    viewR (fun (v : Nat) => (v : Int)) (load_uint n s) = SOp.loadUint n (view s) := by
  unfold load_uint SOp.loadUint
  simp only [bind_eq, pure_eq]
  refine viewR_bindS _ _ _ _ _ _ _ (src_preload_uint_eq n s) fun s1 v => ?_
  src_del_step n s1
  rfl

theorem src_preload_int_eq (n : Nat) (s : Py.SliceSt R) : viewR id (preload_int n s) = SOp.preloadInt n (view s) := by
  unfold preload_int SOp.preloadInt
  simp only [bind_eq, SOp.bind, SOp.peekBits]
  rw [viewR_bindO, ba2intS_eq]
  simp [view]

theorem src_load_int_eq (n : Nat) (s : Py.SliceSt R) : viewR id (load_int n s) = SOp.loadInt n (view s) := by
  unfold load_int SOp.loadInt
  simp only [bind_eq, pure_eq]
  refine viewR_bindS id id _ _ _ _ _ (src_preload_int_eq n s) fun s1 v => ?_
  src_del_step n s1
  rfl

theorem src_preload_bytes_eq (n : Nat) (s : Py.SliceSt R) : viewR id (preload_bytes n s) = SOp.preloadBytes n (view s) := by
  unfold preload_bytes SOp.preloadBytes
  simp [bind_eq, pure_eq, SOp.bind, SOp.peekBits, SOp.pure, viewR, view]

theorem src_load_bytes_eq (n : Nat) (s : Py.SliceSt R) : viewR id (load_bytes n s) = SOp.loadBytes n (view s) := by
  unfold load_bytes SOp.loadBytes
  simp only [bind_eq, pure_eq]
  refine viewR_bindS id id _ _ _ _ _ (src_preload_bytes_eq n s) fun s1 v => ?_
  src_del_step (n * 8) s1
  rfl

/-- a bit: the regenerated code returns the int `0 / 1`, the model the Bool -/
def bitB (v : Nat) : Bool := decide (v ≠ 0)

theorem src_preload_bit_eq (s : Py.SliceSt R) : viewR bitB (preload_bit s) = SOp.preloadBit (view s) := by
  obtain ⟨bits, refs, off⟩ := s
  simp only [preload_bit, SOp.preloadBit, viewR, view, Py.bindO, bitB, bitAt_zero]
  cases bits with
  | nil => rfl
  | cons b rest => cases b <;> rfl

theorem src_load_bit_eq (s : Py.SliceSt R) : viewR bitB (load_bit s) = SOp.loadBit (view s) := by
  obtain ⟨bits, refs, off⟩ := s
  simp only [load_bit, preload_bit, SOp.loadBit, viewR, view, Py.bindO, bitB, Py.bindS, Py.zoom, bitAt_zero, src_delitem_nat]
  cases bits with
  | nil => rfl
  | cons b rest => cases b <;> rfl

theorem src_preload_bool_eq (s : Py.SliceSt R) : viewR id (preload_bool s) = SOp.preloadBit (view s) := by
  obtain ⟨bits, refs, off⟩ := s
  simp only [preload_bool, preload_bit, SOp.preloadBit, viewR, view, Py.bindO, Py.bindS, bitAt_zero]
  cases bits with
  | nil => rfl
  | cons b rest => cases b <;> rfl

theorem src_load_bool_eq (s : Py.SliceSt R) : viewR id (load_bool s) = SOp.loadBit (view s) := by
  obtain ⟨bits, refs, off⟩ := s
  simp only [load_bool, load_bit, preload_bit, SOp.loadBit, viewR, view, Py.bindO, Py.bindS, Py.zoom, bitAt_zero, src_delitem_nat]
  cases bits with
  | nil => rfl
  | cons b rest => cases b <;> rfl

/-! ### references -/

/-- reading the next reference and advancing `ref_offset`, followed by a pure result -/
theorem src_next_ref (g : R → β) (s : Py.SliceSt R) :
    viewR id (Py.bindO (s.refs[s.ref_offset]?) s fun ref => ({ s with ref_offset := s.ref_offset + 1 }, some (g ref))) =
      SOp.bind SOp.loadRef (fun r => SOp.pure (g r)) (view s) := by
  unfold SOp.bind SOp.loadRef viewR view Py.bindO SOp.pure
  by_cases h : s.ref_offset < s.refs.length
  · rw [List.getElem?_eq_getElem h, List.drop_eq_getElem_cons h]
    simp
  · have h1 : s.refs[s.ref_offset]? = none := List.getElem?_eq_none (by omega)
    have h2 : s.refs.drop s.ref_offset = [] := List.drop_eq_nil_of_le (by omega)
    simp [h1, h2]

/-- peeking the next reference -/
theorem src_peek_ref (g : R → β) (s : Py.SliceSt R) :
    viewR id (Py.bindO (s.refs[s.ref_offset]?) s fun ref => (s, some (g ref))) =
      SOp.bind SOp.preloadRef (fun r => SOp.pure (g r)) (view s) := by
  unfold SOp.bind SOp.preloadRef viewR view Py.bindO SOp.pure
  by_cases h : s.ref_offset < s.refs.length
  · rw [List.getElem?_eq_getElem h, List.drop_eq_getElem_cons h]
    simp
  · have h1 : s.refs[s.ref_offset]? = none := List.getElem?_eq_none (by omega)
    have h2 : s.refs.drop s.ref_offset = [] := List.drop_eq_nil_of_le (by omega)
    simp [h1, h2]

theorem src_load_ref_eq (s : Py.SliceSt R) : viewR id (load_ref s) = SOp.loadRef (view s) := by
  rw [show load_ref s = Py.bindO (s.refs[s.ref_offset]?) s
    (fun ref => ({ s with ref_offset := s.ref_offset + 1 }, some (id ref))) from rfl, src_next_ref id s]
  unfold SOp.bind SOp.pure
  cases h : SOp.loadRef (view s) with
  | mk s1 o => cases o <;> rfl

theorem src_load_maybe_ref_eq (s : Py.SliceSt R) : viewR id (load_maybe_ref s) = SOp.loadMaybeRef (view s) := by
  unfold load_maybe_ref SOp.loadMaybeRef
  simp only [bind_eq, pure_eq]
  refine viewR_bindS bitB id _ _ _ _ _ (src_load_bit_eq s) fun s1 v => ?_
  by_cases hv : v ≠ 0
  · have : bitB v = true := by simp [bitB, hv]
    src_if; rw [this, if_pos rfl]
    exact src_next_ref some s1
  · have : bitB v = false := by simp [bitB, hv]
    src_if; rw [this, if_neg (by simp)]
    rfl

theorem src_preload_maybe_ref_eq (s : Py.SliceSt R) : viewR id (preload_maybe_ref s) = SOp.preloadMaybeRef (view s) := by
  unfold preload_maybe_ref SOp.preloadMaybeRef
  simp only [bind_eq, pure_eq]
  refine viewR_bindS id id _ _ _ _ _ (src_preload_bool_eq s) fun s1 v => ?_
  cases v
  · simp only [Bool.false_eq_true, if_false]; rfl
  · simp only [if_true]
    exact src_peek_ref some s1

/-! ### variable-length integers, coins -/

theorem src_load_var_uint_eq (k : Nat) (s : Py.SliceSt R) :
    viewR (fun (v : Nat) => (v : Int)) (load_var_uint k s) = SOp.loadVarUint k (view s) := by
  unfold load_var_uint SOp.loadVarUint
  simp only [bind_eq, pure_eq]
  refine viewR_bindS _ _ _ _ _ _ _ (src_load_uint_eq k s) fun s1 len => ?_
  by_cases h : len = 0
  · have h1 : ¬ len ≠ 0 := by omega
    have h2 : ((len : Nat) : Int) = 0 := by omega
    rw [if_pos h2]; src_if; rfl
  · have h1 : ¬ ¬ len ≠ 0 := by omega
    have h2 : ¬ ((len : Nat) : Int) = 0 := by omega
    rw [if_neg h2]; src_if; rw [bindS_ret, Int.toNat_natCast]
    try rw [Nat.mul_comm 8 len]
    exact src_load_uint_eq (len * 8) s1

theorem src_load_var_int_eq (k : Nat) (s : Py.SliceSt R) : viewR id (load_var_int k s) = SOp.loadVarInt k (view s) := by
  unfold load_var_int SOp.loadVarInt
  simp only [bind_eq, pure_eq]
  refine viewR_bindS (fun (v : Nat) => (v : Int)) id _ _ _ _ _ (src_load_uint_eq k s) fun s1 len => ?_
  by_cases h : len = 0
  · have h1 : ¬ len ≠ 0 := by omega
    have h2 : ((len : Nat) : Int) = 0 := by omega
    rw [if_pos h2]; src_if; rfl
  · have h1 : ¬ ¬ len ≠ 0 := by omega
    have h2 : ¬ ((len : Nat) : Int) = 0 := by omega
    rw [if_neg h2]; src_if; rw [bindS_ret, Int.toNat_natCast]
    try rw [Nat.mul_comm 8 len]
    exact src_load_int_eq (len * 8) s1

theorem src_load_coins_eq (s : Py.SliceSt R) :
    viewR (fun (v : Nat) => (v : Int)) (load_coins s) = SOp.loadCoins (view s) := by
  unfold load_coins SOp.loadCoins SOp.loadVarUint
  simp only [bind_eq, pure_eq]
  refine viewR_bindS _ _ _ _ _ _ _ (src_load_uint_eq 4 s) fun s1 len => ?_
  by_cases h : len = 0
  · have h1 : ¬ len ≠ 0 := by omega
    have h2 : ((len : Nat) : Int) = 0 := by omega
    rw [if_pos h2]; src_if; rfl
  · have h1 : ¬ ¬ len ≠ 0 := by omega
    have h2 : ¬ ((len : Nat) : Int) = 0 := by omega
    rw [if_neg h2]; src_if; rw [bindS_ret, Int.toNat_natCast]
    try rw [Nat.mul_comm 8 len]
    exact src_load_uint_eq (len * 8) s1

/-- the tail of a `preload_var_*`: the window `bits[:k + 8·len][k:]` read as a number -/
theorem src_window (f : α → β) (conv : Bits → Option α) (conv' : Bits → Option β) (hc : ∀ bs, (conv bs).map f = conv' bs)
    (m k : Nat) (s : Py.SliceSt R) :
    viewR f (Py.bindS (preload_bits m s) fun self r =>
        Py.bindO (conv (r.drop k)) self fun x => (self, some x)) =
      SOp.bind (SOp.peekBits m) (fun bs => SOp.ofOption (conv' (bs.drop k))) (view s) := by
  refine viewR_bindS id f _ _ _ _ _ (src_preload_bits_eq m s) fun s1 bs => ?_
  rw [viewR_bindO, hc]; rfl

theorem src_preload_var_uint_eq (k : Nat) (s : Py.SliceSt R) :
    viewR (fun (v : Nat) => (v : Int)) (preload_var_uint k s) = SOp.preloadVarUint k (view s) := by
  unfold preload_var_uint SOp.preloadVarUint
  simp only [bind_eq, pure_eq]
  refine viewR_bindS _ _ _ _ _ _ _ (src_preload_uint_eq k s) fun s1 len => ?_
  by_cases h : len = 0
  · have h1 : ¬ len ≠ 0 := by omega
    have h2 : ((len : Nat) : Int) = 0 := by omega
    rw [if_pos h2]; src_if; rfl
  · have h1 : ¬ ¬ len ≠ 0 := by omega
    have h2 : ¬ ((len : Nat) : Int) = 0 := by omega
    rw [if_neg h2]; src_if; rw [Int.toNat_natCast]
    try rw [Nat.mul_comm 8 len]
    exact src_window _ Py.ba2intU? SOp.ba2intU ba2intU_eq (k + len * 8) k s1

theorem src_preload_var_int_eq (k : Nat) (s : Py.SliceSt R) :
    viewR id (preload_var_int k s) = SOp.preloadVarInt k (view s) := by
  unfold preload_var_int SOp.preloadVarInt
  simp only [bind_eq, pure_eq]
  refine viewR_bindS (fun (v : Nat) => (v : Int)) id _ _ _ _ _ (src_preload_uint_eq k s) fun s1 len => ?_
  by_cases h : len = 0
  · have h1 : ¬ len ≠ 0 := by omega
    have h2 : ((len : Nat) : Int) = 0 := by omega
    rw [if_pos h2]; src_if; rfl
  · have h1 : ¬ ¬ len ≠ 0 := by omega
    have h2 : ¬ ((len : Nat) : Int) = 0 := by omega
    rw [if_neg h2]; src_if; rw [Int.toNat_natCast]
    try rw [Nat.mul_comm 8 len]
    exact src_window id Py.ba2intS? SOp.ba2intS (fun bs => by rw [Option.map_id, id, ba2intS_eq]) (k + len * 8) k s1

theorem src_preload_coins_eq (s : Py.SliceSt R) :
    viewR (fun (v : Nat) => (v : Int)) (preload_coins s) = SOp.preloadCoins (view s) := by
  unfold preload_coins SOp.preloadCoins SOp.preloadVarUint
  simp only [bind_eq, pure_eq]
  refine viewR_bindS _ _ _ _ _ _ _ (src_preload_uint_eq 4 s) fun s1 len => ?_
  by_cases h : len = 0
  · have h1 : ¬ len ≠ 0 := by omega
    have h2 : ((len : Nat) : Int) = 0 := by omega
    rw [if_pos h2]; src_if; rfl
  · have h1 : ¬ ¬ len ≠ 0 := by omega
    have h2 : ¬ ((len : Nat) : Int) = 0 := by omega
    rw [if_neg h2]; src_if; rw [Int.toNat_natCast]
    try rw [Nat.mul_comm 8 len]
    exact src_window _ Py.ba2intU? SOp.ba2intU ba2intU_eq (4 + len * 8) 4 s1

/-! ### `preload_ref`, strings -/

theorem src_preload_ref_eq (s : Py.SliceSt R) : viewR id (preload_ref 0 s) = SOp.preloadRef (view s) := by
  rw [show preload_ref 0 s = Py.bindO (s.refs[s.ref_offset + 0]?) s (fun ref => (s, some (id ref))) from rfl, Nat.add_zero,
    src_peek_ref id s]
  unfold SOp.bind SOp.pure
  cases h : SOp.preloadRef (view s) with
  | mk s1 o => cases o <;> rfl

/-- `load_string(n)` / `preload_string(n)`: the result before `.decode()` (a str travels as its UTF-8 bytes); `0` = all whole bytes left -/
theorem src_load_string_eq (n : Nat) (s : Py.SliceSt R) : viewR id (load_string n s) = SOp.loadString n (view s) := by
  unfold load_string SOp.loadString
  split <;> simp only [bindS_ret] <;> exact src_load_bytes_eq _ s

theorem src_preload_string_eq (n : Nat) (s : Py.SliceSt R) : viewR id (preload_string n s) = SOp.preloadString n (view s) := by
  unfold preload_string SOp.preloadString
  split <;> simp only [bindS_ret] <;> exact src_preload_bytes_eq _ s

/-! ### addresses -/


/-- what `load_address` returns, as the hand model's address value -/
def addrM : Py.AddrR → Addr
  | .none => .none
  | .ext a => .ext a.len a.external_address
  | .std a => .std (a.anycast.map fun c => (c.depth, c.rewrite_pfx)) a.wc a.hash_part

theorem sop_bind_assoc (f : SOp R α) (g : α → SOp R β) (k : β → SOp R γ) :
    SOp.bind (SOp.bind f g) k = SOp.bind f (fun a => SOp.bind (g a) k) := by
  funext s
  simp only [SOp.bind]
  rcases f s with ⟨s1, _ | a⟩ <;> rfl

theorem sop_pure_bind (a : α) (k : α → SOp R β) : SOp.bind (SOp.pure a) k = k a := rfl
theorem sop_fail_bind (k : α → SOp R β) : SOp.bind (SOp.fail : SOp R α) k = SOp.fail := rfl

/-- the tail of `load_address` for `addr_std`: workchain, hash part, the address value -/
theorem src_addr_tail (any : Option Py.AnycastV) (s : Py.SliceSt R) :
    viewR addrM (Py.bindS (load_int 8 s) fun self wc => Py.bindS (load_bytes 32 self) fun self hash_part =>
        (self, some (Py.AddrR.std { wc := wc, hash_part := hash_part, anycast := any }))) =
      SOp.bind (SOp.loadInt 8) (fun wc => SOp.bind (SOp.loadBytes 32) fun h =>
        SOp.pure (Addr.std (any.map fun c => (c.depth, c.rewrite_pfx)) wc h)) (view s) := by
  refine viewR_bindS id _ _ _ _ _ _ (src_load_int_eq 8 s) fun s1 wc => ?_
  refine viewR_bindS id _ _ _ _ _ _ (src_load_bytes_eq 32 s1) fun s2 h => ?_
  rfl

theorem src_load_address_eq (s : Py.SliceSt R) : viewR addrM (load_address s) = SOp.loadAddress (view s) := by
  unfold load_address SOp.loadAddress
  simp only [bind_eq, pure_eq]
  refine viewR_bindS (fun (v : Nat) => (v : Int)) _ _ _ _ _ _ (src_load_uint_eq 2 s) fun s1 tag => ?_
  by_cases h0 : tag = 0
  · have h0' : ((tag : Nat) : Int) = 0 := by omega
    rw [if_pos h0']; src_if; rfl
  · have h0' : ¬ ((tag : Nat) : Int) = 0 := by omega
    rw [if_neg h0']; src_if
    by_cases h1 : tag = 1
    · have h1' : ((tag : Nat) : Int) = 1 := by omega
      rw [if_pos h1']; src_if
      refine viewR_bindS (fun (v : Nat) => (v : Int)) _ _ _ _ _ _ (src_load_uint_eq 9 s1) fun s2 len => ?_
      by_cases hl : len = 0
      · have hl' : ((len : Nat) : Int) = 0 := by omega
        have hn : ¬ len ≠ 0 := by omega
        rw [if_pos hl']; src_if; subst hl; rfl
      · have hl' : ¬ ((len : Nat) : Int) = 0 := by omega
        rw [if_neg hl']; src_if; rw [bindS_ret, Int.toNat_natCast]
        refine viewR_bindS (fun (v : Nat) => (v : Int)) _ _ _ _ _ _ (src_load_uint_eq len s2) fun s3 v => ?_
        rfl
    · have h1' : ¬ ((tag : Nat) : Int) = 1 := by omega
      rw [if_neg h1']; src_if
      refine viewR_bindS id _ _ _ _ _ _ (src_load_bool_eq s1) fun s2 any => ?_
      have h2' : (((tag : Nat) : Int) = 2) = (tag = 2) := by
        apply propext; constructor <;> intro h <;> omega
      cases any with
      | false =>
        simp only [id_eq, Bool.false_eq_true, if_false, sop_pure_bind, h2']
        split
        · exact src_addr_tail none s2
        · rfl
      | true =>
        simp only [id_eq, if_true, sop_bind_assoc, h2']
        refine viewR_bindS (fun (v : Nat) => (v : Int)) _ _ _ _ _ _ (src_load_uint_eq 5 s2) fun s3 depth => ?_
        by_cases hd : depth < 1
        · have hd' : ((depth : Nat) : Int) < 1 := by omega
          rw [if_pos hd']; src_if; rw [sop_fail_bind]; rfl
        · have hd' : ¬ ((depth : Nat) : Int) < 1 := by omega
          rw [if_neg hd']; src_if; rw [sop_bind_assoc, Int.toNat_natCast]
          refine viewR_bindS (fun (v : Nat) => (v : Int)) _ _ _ _ _ _ (src_load_uint_eq depth s3) fun s4 pfx => ?_
          rw [sop_pure_bind]
          split
          · exact src_addr_tail (some ⟨depth, (pfx : Int)⟩) s4
          · rfl

/-! ### `preload_address`: its own reading of none / extern / std without anycast, a copy-and-load otherwise -/

theorem preload_uint_val (n : Nat) (s : Py.SliceSt R) : preload_uint n s = (s, Py.ba2intU? (s.bits.take n)) := by
  unfold preload_uint Py.bindO
  simp only [Py.slice, List.drop_zero]
  cases Py.ba2intU? (s.bits.take n) <;> rfl

theorem preload_bits_val (n : Nat) (s : Py.SliceSt R) : preload_bits n s = (s, some (s.bits.take n)) := by
  unfold preload_bits; simp only [Py.slice, List.drop_zero]

theorem copy_val (s : Py.SliceSt R) : copy s = (s, some ⟨s.bits, s.refs.drop s.ref_offset, 0⟩) := rfl

theorem model_preloadUint_snd (n : Nat) (s : Slice R) :
    (SOp.preloadUint n s).2 = (Py.ba2intU? (s.bits.take n)).map (fun (v : Nat) => (v : Int)) := by
  rw [ba2intU_eq]; rfl

theorem intOfBits_eq (bs : Bits) : Py.intOfBits? bs = if bs.isEmpty then none else some (natOfBits bs) := by
  unfold Py.intOfBits?; cases bs <;> simp

theorem src_preload_address_eq (s : Py.SliceSt R) : viewR addrM (preload_address s) = SOp.preloadAddress (view s) := by
  have hcopy : ((load_address (⟨s.bits, s.refs.drop s.ref_offset, 0⟩ : Py.SliceSt R)).2).map addrM = (SOp.loadAddress (view s)).2 := by
    have := congrArg Prod.snd (src_load_address_eq (⟨s.bits, s.refs.drop s.ref_offset, 0⟩ : Py.SliceSt R))
    simpa [viewR, view] using this
  unfold preload_address SOp.preloadAddress
  simp only [preload_uint_val, preload_bits_val, copy_val, model_preloadUint_snd, Py.bindS, intOfBits_eq, ba2intS_eq]
  have hb : (view s).bits = s.bits := rfl
  rw [hb]
  cases h2 : Py.ba2intU? (s.bits.take 2) with
  | none => rfl
  | some rem =>
    simp only [Option.map]
    by_cases r0 : rem = 0
    · have r0' : ((rem : Nat) : Int) = 0 := by omega
      have : ¬ rem ≠ 0 := by omega
      rw [if_pos this, if_pos r0']; rfl
    · have r0' : ¬ ((rem : Nat) : Int) = 0 := by omega
      have : ¬ ¬ rem ≠ 0 := by omega
      rw [if_neg this, if_neg r0']
      by_cases r1 : rem = 1
      · have r1' : ((rem : Nat) : Int) = 1 := by omega
        rw [if_pos r1, if_pos r1']
        simp only [Py.bindO]
        by_cases he : ((s.bits.take 11).drop 2).isEmpty = true
        · simp only [he, if_true]; rfl
        · simp only [he, Bool.false_eq_true, if_false]
          by_cases hl : natOfBits ((s.bits.take 11).drop 2) = 0
          · have hn : ¬ natOfBits ((s.bits.take 11).drop 2) ≠ 0 := by omega
            rw [if_neg hn, if_pos hl, hl]; rfl
          · rw [if_pos hl, if_neg hl]
            by_cases he2 : ((s.bits.take (11 + natOfBits ((s.bits.take 11).drop 2))).drop 11).isEmpty = true
            · simp only [he2, if_true]; rfl
            · simp only [he2, Bool.false_eq_true, if_false]; rfl
      · have r1' : ¬ ((rem : Nat) : Int) = 1 := by omega
        rw [if_neg r1, if_neg r1']
        by_cases r2 : rem = 2
        · have r2' : (((rem : Nat) : Int) != 2) = false := by simp; omega
          have : ¬ rem ≠ 2 := by omega
          rw [if_neg this, r2']
          simp only [Bool.false_eq_true, if_false]
          cases h3 : Py.ba2intU? (s.bits.take 3) with
          | none => rfl
          | some r3 =>
            simp only [Option.map]
            by_cases hodd : r3 % 2 ≠ 0
            · have hodd' : ((((r3 : Nat) : Int) % 2) != 0) = true := by simp; omega
              rw [if_pos hodd, hodd']
              simp only [if_true, ← hcopy, Py.bindO, Py.bindL]
              cases hx : (load_address (⟨s.bits, s.refs.drop s.ref_offset, 0⟩ : Py.SliceSt R)).2 <;> simp [hx, viewR, view]
            · have hodd' : ((((r3 : Nat) : Int) % 2) != 0) = false := by simp; omega
              rw [if_neg hodd, hodd']
              simp only [Bool.false_eq_true, if_false, Py.bindO, Py.slice]
              have : (s.bits.take 267).take 11 = s.bits.take 11 := by rw [List.take_take]; simp
              rw [this]
              cases SOp.ba2intS ((s.bits.take 11).drop 3) <;> rfl
        · have r2' : (((rem : Nat) : Int) != 2) = true := by simp; omega
          rw [if_pos r2, r2']; rfl

/-! ### `load_dict` / `preload_dict`: the `Maybe ^Cell` part (which cell is handed to the dictionary parser) -/

theorem src_load_dict_eq (k : Nat) (kd vd : Unit) (s : Py.SliceSt R) : viewR id (load_dict k kd vd s) = SOp.loadDict (view s) := by
  unfold load_dict SOp.loadDict
  simp only [bind_eq, pure_eq]
  refine viewR_bindS bitB id _ _ _ _ _ (src_load_bit_eq s) fun s1 v => ?_
  by_cases hv : v ≠ 0
  · have : bitB v = true := by simp [bitB, hv]
    src_if; rw [this, if_pos rfl]
    refine viewR_bindS id id _ _ _ _ _ (src_load_ref_eq s1) fun s2 r => ?_
    rfl
  · have : bitB v = false := by simp [bitB, hv]
    src_if; rw [this, if_neg (by simp)]
    rfl

theorem src_preload_dict_eq (k : Nat) (kd vd : Unit) (s : Py.SliceSt R) : viewR id (preload_dict k kd vd s) = SOp.preloadDict (view s) := by
  unfold preload_dict SOp.preloadDict
  simp only [bind_eq, pure_eq]
  refine viewR_bindS bitB id _ _ _ _ _ (src_preload_bit_eq s) fun s1 v => ?_
  by_cases hv : v ≠ 0
  · have : bitB v = true := by simp [bitB, hv]
    src_if; rw [this, if_pos rfl]
    refine viewR_bindS id id _ _ _ _ _ (src_preload_ref_eq s1) fun s2 r => ?_
    rfl
  · have : bitB v = false := by simp [bitB, hv]
    src_if; rw [this, if_neg (by simp)]
    rfl

/-! ### what the view does not show: the bit reads leave the reference list and the offset alone, the reference reads the bits -/

theorem src_refs_untouched (n : Nat) (s : Py.SliceSt R) :
    ((load_uint n s).1.refs = s.refs ∧ (load_uint n s).1.ref_offset = s.ref_offset) ∧
    ((load_int n s).1.refs = s.refs ∧ (load_int n s).1.ref_offset = s.ref_offset) ∧
    ((load_bits n s).1.refs = s.refs ∧ (load_bits n s).1.ref_offset = s.ref_offset) ∧
    ((skip_bits n s).1.refs = s.refs ∧ (skip_bits n s).1.ref_offset = s.ref_offset) ∧
    ((load_ref s).1.bits = s.bits ∧ (load_ref s).1.refs = s.refs) := by
  obtain ⟨bits, refs, off⟩ := s
  refine ⟨?_, ?_, ?_, ?_, ?_⟩ <;>
    simp only [load_uint, load_int, load_bits, load_ref, preload_uint, preload_int, preload_bits, skip_bits, Py.bindS, Py.bindO, Py.zoom] <;>
    (repeat' split) <;> simp_all

end TonVerif.Proofs.SrcSlice
