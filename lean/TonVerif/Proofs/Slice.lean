/-
Helper lemmas for C06 / C07, Slice side: closed forms of the primitive reads, read-back of every
TL-B encoding with an arbitrary continuation, peek = read, reads only ever consume a prefix.
-/
import TonVerif.Proofs.Builder

namespace TonVerif.Proofs.Slice
open TonVerif TonVerif.Model TonVerif.Spec.Tlb TonVerif.Proofs.Bits TonVerif.Proofs.Builder
variable {R : Type} {α β : Type}

@[simp] theorem bind_eq (f : SOp R α) (g : α → SOp R β) : (f >>= g) = SOp.bind f g := rfl
@[simp] theorem pure_eq (a : α) : (pure a : SOp R α) = SOp.pure a := rfl

theorem bind_some {f : SOp R α} {g : α → SOp R β} {s s1 : Slice R} {a : α} (h : f s = (s1, some a)) :
    SOp.bind f g s = g a s1 := by
  simp [SOp.bind, h]

theorem bind_none {f : SOp R α} {g : α → SOp R β} {s s1 : Slice R} (h : f s = (s1, none)) :
    SOp.bind f g s = (s1, none) := by
  simp [SOp.bind, h]

/-! ### closed forms of the primitive reads -/

theorem loadBits_eq (n : Nat) (bits : Bits) (refs : List R) :
    SOp.loadBits n ⟨bits, refs⟩ = if bits.length < n then (⟨bits, refs⟩, none)
      else (⟨bits.drop n, refs⟩, some (bits.take n)) := by
  simp only [SOp.loadBits, bind_eq, pure_eq, SOp.bind, SOp.peekBits, SOp.delBits, SOp.pure]
  by_cases h0 : n = 0
  · subst h0; simp
  · by_cases h : bits.length < n <;> simp [h0, h]

theorem skipBits_eq (n : Nat) (bits : Bits) (refs : List R) :
    SOp.skipBits n ⟨bits, refs⟩ = if bits.length < n then (⟨bits, refs⟩, none)
      else (⟨bits.drop n, refs⟩, some ()) := by
  simp only [SOp.skipBits, SOp.delBits]
  by_cases h0 : n = 0
  · subst h0; simp
  · by_cases h : bits.length < n <;> simp [h0, h]

theorem take_isEmpty_false {n : Nat} {bits : Bits} (h0 : n ≠ 0) (h : ¬ bits.length < n) :
    (List.take n bits).isEmpty = false := by
  cases hb : bits with
  | nil => simp [hb] at h; omega
  | cons x xs => cases n with
    | zero => omega
    | succ m => simp

theorem loadUint_eq (n : Nat) (bits : Bits) (refs : List R) :
    SOp.loadUint n ⟨bits, refs⟩ = if n = 0 ∨ bits.length < n then (⟨bits, refs⟩, none)
      else (⟨bits.drop n, refs⟩, some (natOfBits (bits.take n) : Int)) := by
  simp only [SOp.loadUint, SOp.preloadUint, bind_eq, pure_eq, SOp.bind, SOp.peekBits, SOp.delBits, SOp.pure,
    SOp.ofOption, SOp.ba2intU]
  by_cases h0 : n = 0
  · subst h0; simp
  · by_cases h : bits.length < n
    · simp only [h, or_true, if_true]
      cases he : (List.take n bits).isEmpty <;> simp [h0, h]
    · simp [h0, h, take_isEmpty_false h0 h]

theorem loadInt_eq (n : Nat) (bits : Bits) (refs : List R) :
    SOp.loadInt n ⟨bits, refs⟩ = if n = 0 ∨ bits.length < n then (⟨bits, refs⟩, none)
      else (⟨bits.drop n, refs⟩, SOp.ba2intS (bits.take n)) := by
  simp only [SOp.loadInt, SOp.preloadInt, bind_eq, pure_eq, SOp.bind, SOp.peekBits, SOp.delBits, SOp.pure,
    SOp.ofOption]
  by_cases h0 : n = 0
  · subst h0; simp [SOp.ba2intS]
  · by_cases h : bits.length < n
    · simp only [h, or_true, if_true]
      cases he : SOp.ba2intS (List.take n bits) <;> simp [h0, h]
    · have he := take_isEmpty_false h0 h
      cases ht : List.take n bits with
      | nil => rw [ht] at he; simp at he
      | cons x xs => simp [h0, h, SOp.ba2intS]

theorem loadBytes_eq (n : Nat) (bits : Bits) (refs : List R) :
    SOp.loadBytes n ⟨bits, refs⟩ = if bits.length < n * 8 then (⟨bits, refs⟩, none)
      else (⟨bits.drop (n * 8), refs⟩, some (bitsToBytes (bits.take (n * 8)))) := by
  simp only [SOp.loadBytes, SOp.preloadBytes, bind_eq, pure_eq, SOp.bind, SOp.peekBits, SOp.delBits, SOp.pure]
  by_cases h0 : n * 8 = 0
  · rw [h0]; simp
  · by_cases h : bits.length < n * 8 <;> simp [h0, h]

/-- `ba2int(signed=True)` computes the two's complement value of the bit string -/
theorem ba2intS_eq_bitsValS (bs : Bits) (h : bs.isEmpty = false) : SOp.ba2intS bs = some (bitsValS bs) := by
  cases bs with
  | nil => simp at h
  | cons b rest =>
    simp only [SOp.ba2intS, bitsValS, natOfBits_eq_bitsVal, bitsVal, List.length_cons]
    have := int_pow_cast rest.length
    have e := two_pow_succ_int rest.length
    cases b <;> simp <;> omega

/-! ### reading back an encoding followed by an arbitrary continuation -/

theorem take_enc (xs kb : Bits) (n : Nat) (h : xs.length = n) : List.take n (xs ++ kb) = xs :=
  List.take_left' h

theorem drop_enc (xs kb : Bits) (n : Nat) (h : xs.length = n) : List.drop n (xs ++ kb) = kb :=
  List.drop_left' h

theorem loadUint_rt (n : Nat) (v : Int) (hn : 0 < n) (h : FitsUint n v) (kb : Bits) (kr : List R) :
    SOp.loadUint n ⟨uintBits n v.toNat ++ kb, kr⟩ = (⟨kb, kr⟩, some v) := by
  rw [loadUint_eq]
  have hl : (uintBits n v.toNat).length = n := uintBits_length _ _
  have h1 : ¬ (n = 0 ∨ (uintBits n v.toNat ++ kb).length < n) := by
    simp only [List.length_append, hl]; omega
  rw [if_neg h1, take_enc _ _ _ hl, drop_enc _ _ _ hl]
  have := ba2intU_uintBits n v hn h
  unfold SOp.ba2intU at this
  split at this
  · simp at this
  · simpa using this

theorem loadInt_rt (n : Nat) (v : Int) (hn : 0 < n) (h : FitsInt n v) (kb : Bits) (kr : List R) :
    SOp.loadInt n ⟨intBits n v ++ kb, kr⟩ = (⟨kb, kr⟩, some v) := by
  rw [loadInt_eq]
  have hl : (intBits n v).length = n := by unfold intBits; exact uintBits_length _ _
  have h1 : ¬ (n = 0 ∨ (intBits n v ++ kb).length < n) := by
    simp only [List.length_append, hl]; omega
  rw [if_neg h1, take_enc _ _ _ hl, drop_enc _ _ _ hl, ba2intS_intBits n v hn h]

theorem loadBits_rt (bs kb : Bits) (kr : List R) :
    SOp.loadBits bs.length ⟨bs ++ kb, kr⟩ = (⟨kb, kr⟩, some bs) := by
  rw [loadBits_eq]
  have h1 : ¬ (bs ++ kb).length < bs.length := by simp
  rw [if_neg h1, take_enc _ _ _ rfl, drop_enc _ _ _ rfl]

theorem loadBytes_rt (bs : Bytes) (h : Bytes.WF bs) (kb : Bits) (kr : List R) :
    SOp.loadBytes bs.length ⟨bytesBits bs ++ kb, kr⟩ = (⟨kb, kr⟩, some bs) := by
  rw [loadBytes_eq]
  have hl : (bytesBits bs).length = bs.length * 8 := by rw [bytesBits_length]; omega
  have h1 : ¬ (bytesBits bs ++ kb).length < bs.length * 8 := by
    simp only [List.length_append, hl]; omega
  rw [if_neg h1, take_enc _ _ _ hl, drop_enc _ _ _ hl, ← bytesToBits_eq_bytesBits,
    bitsToBytes_bytesToBits bs h]

theorem loadVarUint_rt (k : Nat) (v : Int) (hk : 0 < k) (h0 : 0 ≤ v) (hL : byteLenU v.toNat < 2 ^ k)
    (kb : Bits) (kr : List R) :
    SOp.loadVarUint k ⟨varUIntBits k v.toNat ++ kb, kr⟩ = (⟨kb, kr⟩, some v) := by
  unfold SOp.loadVarUint varUIntBits
  rw [bind_eq, List.append_assoc]
  have h1 := loadUint_rt (R := R) k (byteLenU v.toNat : Int) hk ((fitsUint_nat _ _).mpr hL)
    (uintBits (8 * byteLenU v.toNat) v.toNat ++ kb) kr
  simp only [Int.toNat_natCast] at h1
  rw [bind_some h1]
  by_cases hv : v = 0
  · subst hv; simp [byteLenU, uintBits, SOp.pure]
  · have hpos : 0 < byteLenU v.toNat := byteLenU_pos (by omega)
    have hne : ¬ ((byteLenU v.toNat : Nat) : Int) = 0 := by omega
    simp only [hne, if_false, Int.toNat_natCast]
    have hf : FitsUint (byteLenU v.toNat * 8) v := by
      rw [fitsUint_iff, Nat.mul_comm]; exact ⟨h0, lt_pow_byteLenU _⟩
    have := loadUint_rt (R := R) (byteLenU v.toNat * 8) v (by omega) hf kb kr
    rw [Nat.mul_comm] at this
    rw [Nat.mul_comm]
    exact this

theorem loadVarInt_rt (k : Nat) (v : Int) (hk : 0 < k) (hL : byteLenS v < 2 ^ k)
    (kb : Bits) (kr : List R) :
    SOp.loadVarInt k ⟨varIntBits k v ++ kb, kr⟩ = (⟨kb, kr⟩, some v) := by
  unfold SOp.loadVarInt varIntBits
  rw [bind_eq, List.append_assoc]
  have h1 := loadUint_rt (R := R) k (byteLenS v : Int) hk ((fitsUint_nat _ _).mpr hL)
    (intBits (8 * byteLenS v) v ++ kb) kr
  simp only [Int.toNat_natCast] at h1
  rw [bind_some h1]
  by_cases hv : v = 0
  · subst hv; simp [byteLenS, intBits, uintBits, SOp.pure]
  · have hpos : 0 < byteLenS v := byteLenS_pos hv
    have hne : ¬ ((byteLenS v : Nat) : Int) = 0 := by omega
    simp only [hne, if_false, Int.toNat_natCast]
    have hf : FitsInt (byteLenS v * 8) v := by rw [Nat.mul_comm]; exact byteLenS_fits v
    have := loadInt_rt (R := R) (byteLenS v * 8) v (by omega) hf kb kr
    rw [Nat.mul_comm] at this
    rw [Nat.mul_comm]
    exact this

theorem loadMaybeRef_rt (r : Option R) (kb : Bits) (kr : List R) :
    SOp.loadMaybeRef ⟨maybeRefBits r ++ kb, maybeRefRefs r ++ kr⟩ = (⟨kb, kr⟩, some r) := by
  cases r <;> simp [SOp.loadMaybeRef, SOp.bind, SOp.loadBit, SOp.loadRef, SOp.pure, maybeRefBits, maybeRefRefs]

theorem loadDict_rt (r : Option R) (kb : Bits) (kr : List R) :
    SOp.loadDict ⟨maybeRefBits r ++ kb, maybeRefRefs r ++ kr⟩ = (⟨kb, kr⟩, some r) := by
  cases r <;> simp [SOp.loadDict, SOp.bind, SOp.loadBit, SOp.loadRef, SOp.pure, maybeRefBits, maybeRefRefs]

theorem loadBit_cons (b : Bool) (kb : Bits) (kr : List R) : SOp.loadBit ⟨b :: kb, kr⟩ = (⟨kb, kr⟩, some b) := rfl

theorem loadAddress_rt (a : Addr) (hr : InRange (R := R) (.addr a)) (hw : WF (R := R) (.addr a))
    (kb : Bits) (kr : List R) :
    SOp.loadAddress ⟨addrBits (addrOf a) ++ kb, kr⟩ = (⟨kb, kr⟩, some a) := by
  have t0 : ∀ (kb : Bits) (kr : List R), SOp.loadUint 2 ⟨[false, false] ++ kb, kr⟩ = (⟨kb, kr⟩, some 0) :=
    fun kb kr => loadUint_rt (R := R) 2 0 (by decide) (by simp [FitsUint]) kb kr
  have t1 : ∀ (kb : Bits) (kr : List R), SOp.loadUint 2 ⟨[false, true] ++ kb, kr⟩ = (⟨kb, kr⟩, some 1) :=
    fun kb kr => loadUint_rt (R := R) 2 1 (by decide) (by simp [FitsUint]) kb kr
  have t2 : ∀ (kb : Bits) (kr : List R), SOp.loadUint 2 ⟨[true, false] ++ kb, kr⟩ = (⟨kb, kr⟩, some 2) :=
    fun kb kr => loadUint_rt (R := R) 2 2 (by decide) (by simp [FitsUint]) kb kr
  cases a with
  | none =>
    simp only [addrOf, addrBits, SOp.loadAddress, bind_eq]
    rw [bind_some (t0 kb kr)]
    simp [SOp.pure]
  | ext len val =>
    simp only [InRange] at hr
    obtain ⟨hlen, hval⟩ := hr
    simp only [addrOf, addrBits, SOp.loadAddress, bind_eq, pure_eq, List.append_assoc]
    rw [bind_some (t1 _ kr)]
    simp only [show ¬ ((1 : Int) = 0) by decide, if_false, if_true]
    have h9 := loadUint_rt (R := R) 9 (len : Int) (by decide) ((fitsUint_nat _ _).mpr (by simpa using hlen))
    simp only [Int.toNat_natCast] at h9
    rw [bind_some (h9 _ kr)]
    by_cases hl0 : len = 0
    · subst hl0
      have : val = 0 := by unfold FitsUint at hval; simp at hval; omega
      subst this
      simp [uintBits, SOp.pure]
    · have hne : ¬ ((len : Nat) : Int) = 0 := by omega
      simp only [hne, if_false, Int.toNat_natCast]
      rw [bind_some (loadUint_rt len val (by omega) hval kb kr)]
      simp [SOp.pure]
  | std any wc h =>
    simp only [InRange] at hr
    obtain ⟨hany, hwc⟩ := hr
    simp only [WF] at hw
    obtain ⟨hwf, hlen⟩ := hw
    simp only [addrOf, addrBits, SOp.loadAddress, bind_eq, pure_eq, List.append_assoc]
    rw [bind_some (t2 _ kr)]
    simp only [show ¬ ((2 : Int) = 0) by decide, show ¬ ((2 : Int) = 1) by decide, if_false, if_true]
    have tail : ∀ (ac : Option (Nat × Int)),
        SOp.bind (SOp.loadInt 8) (fun wc => SOp.bind (SOp.loadBytes 32) (fun h => SOp.pure (Addr.std ac wc h)))
          ⟨intBits 8 wc ++ (bytesBits h ++ kb), kr⟩ = (⟨kb, kr⟩, some (Addr.std ac wc h)) := by
      intro ac
      rw [bind_some (loadInt_rt 8 wc (by decide) hwc _ kr)]
      have := loadBytes_rt (R := R) h hwf kb kr
      rw [hlen] at this
      rw [bind_some this]
      rfl
    cases any with
    | none =>
      simp only [Option.map_none, anycastBits, List.cons_append, List.nil_append]
      rw [bind_some (loadBit_cons false _ kr)]
      simp only [Bool.false_eq_true, if_false]
      rw [bind_some (s1 := ⟨intBits 8 wc ++ (bytesBits h ++ kb), kr⟩) (a := none) rfl]
      exact tail none
    | some dp =>
      obtain ⟨d, p⟩ := dp
      simp only at hany
      obtain ⟨hd1, hd2, hp⟩ := hany
      simp only [Option.map_some, anycastBits, List.cons_append, List.nil_append, List.append_assoc]
      rw [bind_some (loadBit_cons true _ kr)]
      simp only [if_true]
      have h5 := loadUint_rt (R := R) 5 (d : Int) (by decide) ((fitsUint_nat _ _).mpr (by simpa using hd2))
      simp only [Int.toNat_natCast] at h5
      have hac : SOp.bind (SOp.loadUint 5) (fun depth => if depth < 1 then SOp.fail else
            SOp.bind (SOp.loadUint depth.toNat) (fun pfx => SOp.pure (some (depth.toNat, pfx))))
          ⟨uintBits 5 d ++ (uintBits d p.toNat ++ (intBits 8 wc ++ (bytesBits h ++ kb))), kr⟩
          = (⟨intBits 8 wc ++ (bytesBits h ++ kb), kr⟩, some (some (d, p))) := by
        rw [bind_some (h5 _ kr)]
        have : ¬ ((d : Int) < 1) := by omega
        simp only [this, if_false, Int.toNat_natCast]
        rw [bind_some (loadUint_rt d p (by omega) hp _ kr)]
        rfl
      rw [bind_some hac]
      exact tail (some (d, p))

/-- reading back any typed value from its TL-B encoding followed by an arbitrary continuation -/
theorem load_rt (tv : TVal R) (hr : InRange tv) (hw : WF tv) (kb : Bits) (kr : List R) :
    tv.kind.load ⟨enc tv ++ kb, refsOf tv ++ kr⟩ = (⟨kb, kr⟩, some tv) := by
  cases tv with
  | uint n v =>
    simp only [TVal.kind, Kind.load, SOp.map, enc, refsOf, List.nil_append, loadUint_rt n v hr.1 hr.2]
    rfl
  | int n v =>
    simp only [TVal.kind, Kind.load, SOp.map, enc, refsOf, List.nil_append, loadInt_rt n v hr.1 hr.2]
    rfl
  | varUint k v =>
    simp only [TVal.kind, Kind.load, SOp.map, enc, refsOf, List.nil_append,
      loadVarUint_rt k v hr.1 hr.2.1 hr.2.2]
    rfl
  | varInt k v =>
    simp only [TVal.kind, Kind.load, SOp.map, enc, refsOf, List.nil_append, loadVarInt_rt k v hr.1 hr.2]
    rfl
  | coins v =>
    simp only [TVal.kind, Kind.load, SOp.map, enc, refsOf, List.nil_append, SOp.loadCoins, gramsBits,
      loadVarUint_rt 4 v (by decide) hr.1 (by simpa using hr.2)]
    rfl
  | bit b => rfl
  | bits bs =>
    simp only [TVal.kind, Kind.load, SOp.map, enc, refsOf, List.nil_append, loadBits_rt]
    rfl
  | bytes bs =>
    simp only [TVal.kind, Kind.load, SOp.map, enc, refsOf, List.nil_append, loadBytes_rt bs hw]
    rfl
  | string bs =>
    have hne : bs.length ≠ 0 := by
      intro h; exact hw.2 (List.eq_nil_of_length_eq_zero h)
    simp only [TVal.kind, Kind.load, SOp.map, SOp.loadString, enc, refsOf, List.nil_append, hne, if_false,
      loadBytes_rt bs hw.1]
    rfl
  | ref r => rfl
  | maybeRef r =>
    simp only [TVal.kind, Kind.load, SOp.map, enc, refsOf, loadMaybeRef_rt]
    rfl
  | dict r =>
    simp only [TVal.kind, Kind.load, SOp.map, enc, refsOf, loadDict_rt]
    rfl
  | addr a =>
    simp only [TVal.kind, Kind.load, SOp.map, enc, refsOf, List.nil_append, loadAddress_rt a hr hw]
    rfl

/-! ### reads only ever consume a prefix -/

/-- `s'` is what remains of `s` after removing some leading bits and references -/
def Suffix (s s' : Slice R) : Prop := ∃ pb pr, s.bits = pb ++ s'.bits ∧ s.refs = pr ++ s'.refs

theorem Suffix.refl (s : Slice R) : Suffix s s := ⟨[], [], rfl, rfl⟩

theorem Suffix.trans {a b c : Slice R} (h1 : Suffix a b) (h2 : Suffix b c) : Suffix a c := by
  obtain ⟨p1, q1, e1, f1⟩ := h1
  obtain ⟨p2, q2, e2, f2⟩ := h2
  exact ⟨p1 ++ p2, q1 ++ q2, by rw [e1, e2, List.append_assoc], by rw [f1, f2, List.append_assoc]⟩

/-- whatever the outcome, the slice after the call is a suffix of the slice before -/
def Mono (f : SOp R α) : Prop := ∀ s, Suffix s (f s).1

theorem mono_pure (a : α) : Mono (SOp.pure a : SOp R α) := fun s => Suffix.refl s
theorem mono_fail : Mono (SOp.fail : SOp R α) := fun s => Suffix.refl s
theorem mono_ofOption (o : Option α) : Mono (SOp.ofOption o : SOp R α) := fun s => Suffix.refl s
theorem mono_peekBits (n : Nat) : Mono (SOp.peekBits n : SOp R Bits) := fun s => Suffix.refl s

theorem mono_bind {f : SOp R α} {g : α → SOp R β} (hf : Mono f) (hg : ∀ a, Mono (g a)) :
    Mono (SOp.bind f g) := by
  intro s
  unfold SOp.bind
  have h1 := hf s
  cases hfs : f s with
  | mk s1 r =>
    rw [hfs] at h1
    cases r with
    | none => exact h1
    | some a => exact h1.trans (hg a s1)

theorem mono_delBits (n : Nat) : Mono (SOp.delBits n : SOp R Unit) := by
  intro s
  unfold SOp.delBits
  split
  · exact Suffix.refl s
  · split
    · exact Suffix.refl s
    · exact ⟨s.bits.take n, [], (List.take_append_drop n s.bits).symm, rfl⟩

theorem mono_loadBit : Mono (SOp.loadBit : SOp R Bool) := by
  intro s
  unfold SOp.loadBit
  cases h : s.bits with
  | nil => exact Suffix.refl s
  | cons b rest => exact ⟨[b], [], by simp [h], rfl⟩

theorem mono_loadRef : Mono (SOp.loadRef : SOp R R) := by
  intro s
  unfold SOp.loadRef
  cases h : s.refs with
  | nil => exact Suffix.refl s
  | cons b rest => exact ⟨[], [b], rfl, by simp [h]⟩

theorem mono_map {f : SOp R α} (g : α → β) (hf : Mono f) : Mono (f.map g) := fun s => hf s

macro "mono_tac" : tactic => `(tactic|
  repeat (first
    | exact mono_pure _ | exact mono_fail | exact mono_ofOption _ | exact mono_peekBits _
    | exact mono_delBits _ | exact mono_loadBit | exact mono_loadRef
    | apply mono_bind | intro _ | split))

theorem mono_loadBits (n : Nat) : Mono (SOp.loadBits n : SOp R Bits) := by
  unfold SOp.loadBits; simp only [bind_eq, pure_eq]; mono_tac
theorem mono_loadUint (n : Nat) : Mono (SOp.loadUint n : SOp R Int) := by
  unfold SOp.loadUint SOp.preloadUint; simp only [bind_eq, pure_eq]; mono_tac
theorem mono_loadInt (n : Nat) : Mono (SOp.loadInt n : SOp R Int) := by
  unfold SOp.loadInt SOp.preloadInt; simp only [bind_eq, pure_eq]; mono_tac
theorem mono_loadBytes (n : Nat) : Mono (SOp.loadBytes n : SOp R Bytes) := by
  unfold SOp.loadBytes SOp.preloadBytes; simp only [bind_eq, pure_eq]; mono_tac
theorem mono_loadVarUint (k : Nat) : Mono (SOp.loadVarUint k : SOp R Int) := by
  unfold SOp.loadVarUint; simp only [bind_eq, pure_eq]
  apply mono_bind (mono_loadUint k); intro len; split
  · exact mono_pure _
  · exact mono_loadUint _
theorem mono_loadVarInt (k : Nat) : Mono (SOp.loadVarInt k : SOp R Int) := by
  unfold SOp.loadVarInt; simp only [bind_eq, pure_eq]
  apply mono_bind (mono_loadUint k); intro len; split
  · exact mono_pure _
  · exact mono_loadInt _
theorem mono_loadMaybeRef : Mono (SOp.loadMaybeRef : SOp R (Option R)) := by
  unfold SOp.loadMaybeRef; simp only [bind_eq, pure_eq]
  apply mono_bind mono_loadBit; intro b; split
  · apply mono_bind mono_loadRef; intro; exact mono_pure _
  · exact mono_pure _
theorem mono_loadDict : Mono (SOp.loadDict : SOp R (Option R)) := by
  unfold SOp.loadDict; simp only [bind_eq, pure_eq]
  apply mono_bind mono_loadBit; intro b; split
  · apply mono_bind mono_loadRef; intro; exact mono_pure _
  · exact mono_pure _
theorem mono_loadString (n : Nat) : Mono (SOp.loadString n : SOp R Bytes) := by
  intro s; unfold SOp.loadString; exact mono_loadBytes _ s

theorem mono_loadAddress : Mono (SOp.loadAddress : SOp R Addr) := by
  unfold SOp.loadAddress; simp only [bind_eq, pure_eq]
  apply mono_bind (mono_loadUint 2); intro tag; split
  · exact mono_pure _
  · split
    · apply mono_bind (mono_loadUint 9); intro len; split
      · exact mono_pure _
      · apply mono_bind (mono_loadUint _); intro; exact mono_pure _
    · apply mono_bind mono_loadBit; intro any
      apply mono_bind
      · split
        · apply mono_bind (mono_loadUint 5); intro d; split
          · exact mono_fail
          · apply mono_bind (mono_loadUint _); intro; exact mono_pure _
        · exact mono_pure _
      · intro ac; split
        · apply mono_bind (mono_loadInt 8); intro
          apply mono_bind (mono_loadBytes 32); intro; exact mono_pure _
        · exact mono_fail

/-- every consuming typed read leaves a suffix of the slice, whether it succeeds or raises -/
theorem mono_load (k : Kind) : Mono (k.load : SOp R (TVal R)) := by
  cases k with
  | uint n => exact mono_map _ (mono_loadUint n)
  | int n => exact mono_map _ (mono_loadInt n)
  | varUint k => exact mono_map _ (mono_loadVarUint k)
  | varInt k => exact mono_map _ (mono_loadVarInt k)
  | coins => exact mono_map _ (mono_loadVarUint 4)
  | bit => exact mono_map _ mono_loadBit
  | bits n => exact mono_map _ (mono_loadBits n)
  | bytes n => exact mono_map _ (mono_loadBytes n)
  | string n => exact mono_map _ (mono_loadString n)
  | ref => exact mono_map _ mono_loadRef
  | maybeRef => exact mono_map _ mono_loadMaybeRef
  | dict => exact mono_map _ mono_loadDict
  | addr => exact mono_map _ mono_loadAddress

end TonVerif.Proofs.Slice
