/-
Helper lemmas for `c01_twins_unequal` (Properties/C01.lean): the first byte of every cell representation is the descriptor
d1 = refs + 8·exotic + 32·mask, so two cells of different level mask (a tree and its pruned twin) have different representations.
-/
import TonVerif.Proofs.OrdCell

namespace TonVerif.Proofs.CellTwins
open TonVerif TonVerif.Model TonVerif.Proofs.OrdCell

theorem toBytesBE1 (v : Nat) (d : Bytes) (h : toBytesBE? 1 v = some d) : d = [v] ∧ v < 256 := by
  unfold toBytesBE? at h
  by_cases hv : v < 256 ^ 1
  · rw [if_pos hv] at h
    have hv' : v < 256 := by simpa using hv
    simp only [Option.some.injEq] at h
    subst h
    simp [natToBE]
    omega
  · rw [if_neg hv] at h; simp at h

/-- the first byte of every representation (`get_representation`) is d1 = refs + 8·exotic + 32·mask -/
theorem representation_head (c : CellInfo) (ks : List CellInfo) (r : Bytes) (h : representation c ks = some r) :
    r.head? = some (c.nrefs + 8 * (if c.kind != kOrdinary then 1 else 0) + 32 * c.mask) := by
  unfold representation descriptors at h
  simp only [Option.bind_eq_bind, Option.pure_def, Option.bind_eq_some_iff] at h
  obtain ⟨d, ⟨d1, h1, d2, h2, hd⟩, _, _, _, _, _, _, hr⟩ := h
  obtain ⟨e1, _⟩ := toBytesBE1 _ _ h1
  simp only [Option.some.injEq] at hd hr
  subst hd hr e1
  simp

/-- representations of cells with different level masks (fewer than 8 references) differ -/
theorem representation_ne_of_mask_ne (a b : CellInfo) (ka kb : List CellInfo) (ra rb : Bytes)
    (ha : representation a ka = some ra) (hb : representation b kb = some rb) (hna : a.nrefs < 8) (hnb : b.nrefs < 8)
    (hm : a.mask ≠ b.mask) : ra ≠ rb := by
  intro he
  subst he
  have h1 := representation_head a ka _ ha
  have h2 := representation_head b kb _ hb
  rw [h1] at h2
  simp at h2
  apply hm
  split at h2 <;> split at h2 <;> omega

end TonVerif.Proofs.CellTwins
