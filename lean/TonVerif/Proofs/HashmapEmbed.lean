/-
Helper lemmas for C10 "a dictionary is a FIELD": the root edge of an inline `Hashmap n X` lives in the caller's cell, which
carries further bits and references behind it; `HashmapE` is a presence bit + one reference among other fields.
-/
import TonVerif.Proofs.Hashmap
import TonVerif.Proofs.SrcHashmap

namespace TonVerif.Proofs.HashmapEmbed
open TonVerif TonVerif.Model TonVerif.Model.Hashmap TonVerif.Spec.Hashmap TonVerif.Proofs.Hashmap

/-- a fork whose cell carries MORE than its label and its two references: the parser reads the label, takes the first two
references and ignores the rest -/
theorem parseEdge_fork_trailing {ok : Nat → Bits → LabelKind → Prop} {p : Bool} {n m : Nat} {s : Bits} {k : LabelKind} {lb : Bits}
    {l r : Cell} {kvl kvr : List (Bits × Val)}
    (hl : LabelEnc n s k lb) (hn : n = s.length + 1 + m) (hL : ValidHMK ok p m l kvl) (hR : ValidHMK ok p m r kvr)
    (postB : Bits) (postR : List Cell) (pfx : Bits) :
    parseEdge (.mk (-1) (lb ++ postB) (l :: r :: postR)) (n : Int) pfx
      = some ((kvl.map (pre (s ++ [false])) ++ kvr.map (pre (s ++ [true]))).map (pre pfx)) := by
  rw [parseEdge, deserializeHml_enc hl]
  have hm : ((n : Int) - (s.length : Int) = 0) = False := by simp; omega
  have hm2 : (n : Int) - (s.length : Int) - 1 = (m : Int) := by omega
  simp only [ne_eq, not_true_eq_false, if_false, hm, hm2, parseFork]
  rw [parseEdge_valid hL _ (Or.inl (by simp)), parseEdge_valid hR _ (Or.inl (by simp))]
  simp [pre_comp, List.append_assoc]

open TonVerif.Generated.HashmapSrc TonVerif.Proofs.SrcHashmap in
/-- WHERE THE SLICE STANDS AFTER `parse` (regenerated from parse.py): whenever `parse(slice, k, ret_dict, prefix)` returns, the
caller's slice has lost exactly the label bits and - for an ordinary cell whose label leaves key bits (a fork) - exactly its first
TWO references; everything behind (further bits, further references) is untouched. -/
theorem src_parse_final_slice (fuel : Nat) (kind : Int) (bits : Bits) (refs : List Cell) (k : Int)
    (d : List (Bits × Py.Slice)) (pfx : Bits) (sl : Py.Slice) (d' : List (Bits × Py.Slice)) (p' : Bits)
    (h : parse fuel ⟨kind, bits, refs⟩ k d pfx = some (sl, d', p')) :
    ∃ n s rest, deserializeHml bits k = some (n, s, rest) ∧
      sl = ⟨kind, rest, if kind = -1 ∧ k - (n : Int) ≠ 0 then refs.drop 2 else refs⟩ := by
  cases fuel with
  | zero => simp [parse] at h
  | succ fuel =>
    rw [parse] at h
    simp only [deserialize_hml_eq, Option.bind_eq_bind, Option.pure_def] at h
    rcases hh : deserializeHml bits k with _ | ⟨n, s, rest⟩
    · simp [hh] at h
    · refine ⟨n, s, rest, rfl, ?_⟩
      simp only [hh, Option.map_some, Option.bind_some, withBits] at h
      cases fuel with
      | zero => simp [deserialize_hashmap_node] at h
      | succ fuel =>
        rw [deserialize_hashmap_node] at h
        by_cases h1 : kind = -1
        · subst h1
          by_cases h2 : k - (n : Int) = 0
          · by_cases h3 : (pfx ++ s).isEmpty <;> simp [h2, h3] at h <;> simp [h2, h.1]
          · simp only [h2, if_false, ne_eq, not_true_eq_false, Option.bind_eq_bind, Option.pure_def, loadRef_eq] at h
            rcases refs with _ | ⟨l, _ | ⟨r, more⟩⟩
            · simp at h
            · simp only [Option.bind_some] at h
              rcases parse fuel (Py.beginParse l) (k - n - 1) d (pfx ++ s ++ [false]) with _ | ⟨a, b, c⟩ <;> simp at h
            · simp only [Option.bind_some] at h
              obtain ⟨a, ha1, ha2⟩ := Option.bind_eq_some_iff.1 h
              obtain ⟨x, hx1, hx2⟩ := Option.bind_eq_some_iff.1 ha1
              obtain ⟨y, _, hy2⟩ := Option.bind_eq_some_iff.1 hx1
              obtain ⟨z, _, hz2⟩ := Option.bind_eq_some_iff.1 hy2
              simp only [Option.some.injEq, Prod.mk.injEq] at ha2
              simp only [Option.some.injEq] at hx2 hz2
              rw [← ha2.1, ← hx2, ← hz2]
              simp [h2]
        · simp [h1] at h
          simp [h1, h.1]

end TonVerif.Proofs.HashmapEmbed
