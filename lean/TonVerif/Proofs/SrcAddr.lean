/-
`Address.to_str`, `is_b64`, `is_hex`, `__init__` (tuple / Address / str argument), `__eq__`, `__hash__` regenerated from boc/address.py (Generated/AddrFull.lean) equal the hand model
(Model/Address.lean) for ALL addresses, flag combinations and texts.  Generation dependent.
-/
import TonVerif.Generated.AddrFull
import TonVerif.Proofs.SrcB64

set_option linter.unusedSimpArgs false
namespace TonVerif.Proofs.SrcAddr
open TonVerif TonVerif.Model TonVerif.Model.Address TonVerif.Generated.AddrFull

/-- `wc.to_bytes(1, 'big', signed=True)` is the model's `wcByte?` -/
theorem toBytesSigned_one (z : Int) : Py.toBytesSigned? 1 z = (wcByte? z).map fun b => [b] := by
  unfold Py.toBytesSigned? wcByte?
  by_cases h : -128 ≤ z ∧ z ≤ 127
  · have h' : -((256 ^ 1 : Nat) : Int) ≤ 2 * z ∧ 2 * z < ((256 ^ 1 : Nat) : Int) := by simp; omega
    rw [if_pos h', if_pos h]
    simp only [natToBE, List.nil_append, Option.map_some, Option.some.injEq, List.cons.injEq, and_true]
    have : ((256 ^ 1 : Nat) : Int) = 256 := by simp
    rw [this]; omega
  · have h' : ¬ (-((256 ^ 1 : Nat) : Int) ≤ 2 * z ∧ 2 * z < ((256 ^ 1 : Nat) : Int)) := by simp; omega
    rw [if_neg h', if_neg h]; rfl

/-- `int.from_bytes(bs, 'big', signed=True)` on at most one byte is the model's `signedByte` -/
theorem fromBytesSigned_le_one (bs : Bytes) (hl : bs.length ≤ 1) (hw : Bytes.WF bs) : Py.fromBytesSigned bs = signedByte bs := by
  match bs, hl, hw with
  | [], _, _ => simp [Py.fromBytesSigned, signedByte, natOfBE]
  | [b], _, hw =>
    have hb : b < 256 := hw b (by simp)
    have e : natOfBE [b] = b := by simp [natOfBE]
    unfold Py.fromBytesSigned signedByte
    by_cases h : 128 ≤ b <;> simp [h, e] <;> omega
  | _ :: _ :: _, hl, _ => simp at hl

theorem tag_byte (t : Nat) (h : t < 256) : toBytesBE? 1 t = some [t] := by
  unfold toBytesBE?
  rw [if_pos (by simpa using h)]
  simp [natToBE]; omega

/-- `to_str(is_user_friendly, is_url_safe, is_bounceable, is_test_only)` regenerated = `Model.Address.toStr` -/
theorem src_to_str_eq (a : Addr) (uf url b t : Bool) :
    to_str (is_user_friendly := uf) (is_url_safe := url) (is_bounceable := b) (is_test_only := t)
      (self_wc := a.wc) (self_hash_part := a.hash) = toStr a uf url b t := by
  unfold to_str toStr
  cases uf
  · cases pyStrInt a.wc <;> simp
  · cases b <;> cases t <;>
      simp only [Bool.not_true, Bool.false_eq_true, not_false_eq_true, not_true_eq_false, if_false, if_true, ite_true, ite_false,
        Option.bind_some, Bool.true_eq_false, toBytesSigned_one, tag_byte, Nat.reduceOr] <;>
      (first | rw [tag_byte 17 (by omega)] | rw [tag_byte 81 (by omega)] | rw [tag_byte 145 (by omega)] | rw [tag_byte 209 (by omega)]) <;>
      cases wcByte? a.wc <;> simp <;>
      rename_i w <;>
      cases Model.crc16 (_ :: w :: a.hash) <;> cases url <;> simp

/-- `is_b64(text)` on a fresh object (both flags `False`) regenerated = `Model.Address.isB64` (the attributes left behind) -/
theorem src_is_b64_eq (s : List Char) :
    is_b64 (addr := s) (self_is_bounceable := false) (self_is_test_only := false) =
      (isB64 s).map fun a => (a.hash, a.bounceable, a.testOnly, a.wc) := by
  unfold is_b64 isB64
  cases hd : Base64.decodeUrlsafe s with
  | none => rfl
  | some d =>
    cases d with
    | nil => rfl
    | cons tag0 rest =>
      have hwf := Proofs.SrcB64.decodeUrlsafe_wf s _ hd
      have hsb : Py.fromBytesSigned (Py.slice (tag0 :: rest) 1 2) = signedByte (((tag0 :: rest).drop 1).take 1) := by
        have e : Py.slice (tag0 :: rest) 1 2 = ((tag0 :: rest).drop 1).take 1 := by simp [Py.slice, List.drop_take]
        rw [e]
        apply fromBytesSigned_le_one
        · simp [List.length_take]; omega
        · intro x hx; exact hwf x (List.mem_of_mem_drop (List.mem_of_mem_take hx))
      have hh : Py.slice (tag0 :: rest) 2 34 = ((tag0 :: rest).drop 2).take 32 := by simp [Py.slice, List.drop_take]
      have hc : Py.slice (tag0 :: rest) 0 34 = (tag0 :: rest).take 34 := by simp [Py.slice]
      simp only [Option.bind_some, List.getElem?_cons_zero, hsb, hh, hc]
      by_cases h1 : tag0 &&& 128 = 0
      · have b1 : (tag0 &&& 128 != 0) = false := by simp [h1]
        by_cases h2 : tag0 = 17
        · have b2 : (tag0 == 17) = true := by simp [h2]
          cases Model.crc16 (List.take 34 (tag0 :: rest)) <;> simp [h1, b1, b2] <;> simp [h2] <;> (try (split <;> rename_i hx <;> split <;> rename_i hy <;> first | rfl | exact absurd hy.symm hx | exact absurd hx.symm hy))
        · have b2 : (tag0 == 17) = false := by simp [h2]
          cases Model.crc16 (List.take 34 (tag0 :: rest)) <;> simp [h1, h2, b1, b2] <;> (try (split <;> rename_i hx <;> split <;> rename_i hy <;> first | rfl | exact absurd hy.symm hx | exact absurd hx.symm hy))
      · have b1 : (tag0 &&& 128 != 0) = true := by simp [h1]
        by_cases h2 : tag0 ^^^ 128 = 17
        · have b2 : (tag0 ^^^ 128 == 17) = true := by simp [h2]
          cases Model.crc16 (List.take 34 (tag0 :: rest)) <;> simp [h1, h2, b1, b2] <;> (try (split <;> rename_i hx <;> split <;> rename_i hy <;> first | rfl | exact absurd hy.symm hx | exact absurd hx.symm hy))
        · have b2 : (tag0 ^^^ 128 == 17) = false := by simp [h2]
          cases Model.crc16 (List.take 34 (tag0 :: rest)) <;> simp [h1, h2, b1, b2] <;> (try (split <;> rename_i hx <;> split <;> rename_i hy <;> first | rfl | exact absurd hy.symm hx | exact absurd hx.symm hy))

/-- `is_hex(text)` regenerated = `Model.Address.isHex` (`none` = returns False; the attributes assigned on True) -/
theorem src_is_hex_eq (s : List Char) :
    is_hex (addr := s) = (isHex s).map fun a => (a.hash, a.wc) := by
  unfold is_hex isHex
  rcases hsp : splitColon s with _ | ⟨w, _ | ⟨h, _ | ⟨x, r⟩⟩⟩ <;> simp only [Py.unpack2?, Option.bind_none, Option.bind_some, Option.map_none]
  cases pyInt 16 h <;> cases pyInt 10 w <;> cases pyFromHex h <;> rfl

/-- what `is_hex` leaves behind never carries a flag -/
theorem isHex_flags (s : List Char) (a : Addr) (h : isHex s = some a) : a.bounceable = false ∧ a.testOnly = false := by
  unfold isHex at h
  rcases hsp : splitColon s with _ | ⟨w, _ | ⟨hh, _ | ⟨x, r⟩⟩⟩ <;> rw [hsp] at h <;> simp only at h <;> try cases h
  cases h1 : pyInt 16 hh <;> cases h2 : pyInt 10 w <;> cases h3 : pyFromHex hh <;> rw [h1, h2, h3] at h <;> simp only at h <;> try cases h
  exact ⟨rfl, rfl⟩

/-- `Address(text)` regenerated (`__init__` for a `str` argument: flags reset, `is_hex`, else `is_b64`, else raise) = `Model.Address.parse` -/
theorem src_init_str_eq (s : List Char) :
    init_str (address := s) = (parse s).map fun a => (a.hash, a.bounceable, a.testOnly, a.wc) := by
  unfold init_str parse
  simp only [decide_false, decide_true, src_is_hex_eq, src_is_b64_eq]
  cases hh : isHex s with
  | none => cases isB64 s <;> rfl
  | some a =>
    obtain ⟨h1, h2⟩ := isHex_flags s a hh
    simp [h1, h2]

/-- `Address((wc, hash_part))` regenerated = `Model.Address.ofTuple` -/
theorem src_init_tuple_eq (wc : Int) (h : Bytes) :
    init_tuple (address := (wc, h)) = some (h, false, false, wc) ∧ ofTuple wc h = { wc := wc, hash := h, bounceable := false, testOnly := false } := by
  refine ⟨?_, rfl⟩
  unfold init_tuple
  simp

/-- `Address(other)` regenerated = `Model.Address.ofAddr`: workchain and hash copied, the flags NOT -/
theorem src_init_addr_eq (a : Addr) :
    init_addr (address := a) = some (a.hash, false, false, a.wc) ∧ ofAddr a = { wc := a.wc, hash := a.hash, bounceable := false, testOnly := false } := by
  refine ⟨?_, rfl⟩
  unfold init_addr
  simp

/-- `a == b` and `a.__hash__()` regenerated = the model's -/
theorem src_eq_eq (a b : Addr) : Generated.AddrFull.eq (self_wc := a.wc) (self_hash_part := a.hash) (other := b) = some (Address.eq a b) := by
  unfold Generated.AddrFull.eq Address.eq
  by_cases h1 : a.wc = b.wc <;> by_cases h2 : a.hash = b.hash <;> simp [h1, h2]

theorem src_hash_eq (a : Addr) : Generated.AddrFull.hash (self_wc := a.wc) (self_hash_part := a.hash) = some (pyHash a) := by
  unfold Generated.AddrFull.hash pyHash
  first
    | rfl
    | (simp only [Option.some.injEq]; omega)

end TonVerif.Proofs.SrcAddr
