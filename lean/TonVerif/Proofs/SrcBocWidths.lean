/-
C04 support — the size / offset field widths that `Cell.to_boc` computes are sufficient (and minimal).

`Generated/BocWidths.lean` is re-translated on every run from `pytoniq_core/boc/cell.py: Cell.to_boc`
(harness/translate/arith.py, group 'BocWidths'):
  `Generated.cellsLen cellsNum`        ← `cells_len   = (cells_num.bit_length() + 7) // 8`
  `Generated.maxOffset total cacheBits`← `max_offset  = len(payload) * 2 if has_cache_bits else len(payload)`
  `Generated.payloadLen mo`            ← `payload_len = (max_offset.bit_length() + 7) // 8`
The theorems below are about THESE definitions, for all inputs:
  * every cell index `i < cellsNum` and `cellsNum` itself fit `cells_len` bytes (`n < 256^width`);
  * `len(payload)` and every index entry (end offset, doubled when `has_cache_bits`) fit `payload_len` bytes;
  * both widths are the least such widths.
`to_bytes(w, 'big')` raises OverflowError exactly when the value is ≥ 256^w, so these are the "never raises / field is
wide enough" obligations of the BoC emitter (C04 `widths_sufficient`).  The coordinator connects them to the emitter model.
-/
import TonVerif.Proofs.SrcArith
import TonVerif.Generated.BocWidths

namespace TonVerif.Proofs.SrcBocWidths
open TonVerif TonVerif.Proofs.SrcArith
set_option linter.unusedSimpArgs false

/-- side conditions of the three translated definitions (no Nat subtraction / division by a non-literal occurs). -/
theorem src_sideOk (n total mo : Nat) (cb : Bool) :
    Generated.cellsLen_sideOk n ∧ Generated.maxOffset_sideOk total cb ∧ Generated.payloadLen_sideOk mo := by
  refine ⟨?_, ?_, ?_⟩
  · simp only [Generated.cellsLen_sideOk]; src_arith
  · simp only [Generated.maxOffset_sideOk]; src_arith
  · simp only [Generated.payloadLen_sideOk]; src_arith

/-- `cells_len` is the number of base-256 digits of `cells_num`. -/
theorem src_cellsLen_eq (n : Nat) : Generated.cellsLen n = Py.byteWidth n := by
  have := bitLength_bytes n
  simp only [Generated.cellsLen]
  src_arith

/-- `payload_len` is the number of base-256 digits of `max_offset`. -/
theorem src_payloadLen_eq (mo : Nat) : Generated.payloadLen mo = Py.byteWidth mo := by
  have := bitLength_bytes mo
  simp only [Generated.payloadLen]
  src_arith

/-- `max_offset` is the largest value written into an offset field: the payload length, doubled with cache bits. -/
theorem src_maxOffset_eq (total : Nat) (cb : Bool) :
    Generated.maxOffset total cb = if cb then 2 * total else total := by
  simp only [Generated.maxOffset] <;>
    (cases cb <;> src_arith)

/-- widths_sufficient (cell count / cell indices): `cells_num` and every index `i < cells_num` fit `cells_len` bytes. -/
theorem src_cellsLen_sufficient (n i : Nat) (hi : i ≤ n) : i < 256 ^ Generated.cellsLen n := by
  rw [src_cellsLen_eq]; exact Nat.lt_of_le_of_lt hi (lt_pow_byteWidth n)

/-- minimality: no narrower width holds `cells_num`. -/
theorem src_cellsLen_minimal (n w : Nat) (h : n < 256 ^ w) : Generated.cellsLen n ≤ w := by
  rw [src_cellsLen_eq]; exact (byteWidth_le_iff n w).mpr h

/-- widths_sufficient (offsets): with `payload_len` computed from `max_offset`, the payload length itself and every
index entry — end offset `off ≤ len(payload)`, doubled when `has_cache_bits` — fit `payload_len` bytes. -/
theorem src_payloadLen_sufficient (total off : Nat) (cb : Bool) (ho : off ≤ total) :
    total < 256 ^ Generated.payloadLen (Generated.maxOffset total cb) ∧
    (if cb then 2 * off else off) < 256 ^ Generated.payloadLen (Generated.maxOffset total cb) := by
  rw [src_payloadLen_eq, src_maxOffset_eq]
  have := lt_pow_byteWidth (if cb then 2 * total else total)
  cases cb <;> simp only [Bool.false_eq_true, if_false, if_true] at * <;> omega

/-- minimality: no narrower offset width holds `max_offset`. -/
theorem src_payloadLen_minimal (mo w : Nat) (h : mo < 256 ^ w) : Generated.payloadLen mo ≤ w := by
  rw [src_payloadLen_eq]; exact (byteWidth_le_iff mo w).mpr h

/-- a one-cell bag needs one size byte; 256 cells need two; offsets up to 255 need one byte, 256 needs two — and
with cache bits a 128-byte payload already needs two (the case of fix 00fdd79). -/
example : Generated.cellsLen 1 = 1 ∧ Generated.cellsLen 255 = 1 ∧ Generated.cellsLen 256 = 2 ∧
    Generated.payloadLen (Generated.maxOffset 255 false) = 1 ∧ Generated.payloadLen (Generated.maxOffset 256 false) = 2 ∧
    Generated.payloadLen (Generated.maxOffset 127 true) = 1 ∧ Generated.payloadLen (Generated.maxOffset 128 true) = 2 := by
  simp only [src_cellsLen_eq, src_payloadLen_eq, src_maxOffset_eq]
  simp [Py.byteWidth]

end TonVerif.Proofs.SrcBocWidths
