/- Kernel evaluation over the generated TL table, chunk slots 16..23 (of 32; absent chunks are empty):
   every constructor id is the id of its declaration text (CRC-32 / explicit), ids below 2^32, flag variables well placed,
   constructors sharing an id agree in name and arguments. -/
import TonVerif.Proofs.Tl
import TonVerif.Generated.TlTable

namespace TonVerif.Proofs.TlTab2
open TonVerif TonVerif.Spec.Tl TonVerif.Proofs.Tl TonVerif.Generated.Tl

theorem ids_16 : idsOK (chunks.getD 16 []) = true := by decide +kernel
theorem ok_16 : chunkAgree table (chunks.getD 16 []) = true := by decide +kernel
theorem ids_17 : idsOK (chunks.getD 17 []) = true := by decide +kernel
theorem ok_17 : chunkAgree table (chunks.getD 17 []) = true := by decide +kernel
theorem ids_18 : idsOK (chunks.getD 18 []) = true := by decide +kernel
theorem ok_18 : chunkAgree table (chunks.getD 18 []) = true := by decide +kernel
theorem ids_19 : idsOK (chunks.getD 19 []) = true := by decide +kernel
theorem ok_19 : chunkAgree table (chunks.getD 19 []) = true := by decide +kernel
theorem ids_20 : idsOK (chunks.getD 20 []) = true := by decide +kernel
theorem ok_20 : chunkAgree table (chunks.getD 20 []) = true := by decide +kernel
theorem ids_21 : idsOK (chunks.getD 21 []) = true := by decide +kernel
theorem ok_21 : chunkAgree table (chunks.getD 21 []) = true := by decide +kernel
theorem ids_22 : idsOK (chunks.getD 22 []) = true := by decide +kernel
theorem ok_22 : chunkAgree table (chunks.getD 22 []) = true := by decide +kernel
theorem ids_23 : idsOK (chunks.getD 23 []) = true := by decide +kernel
theorem ok_23 : chunkAgree table (chunks.getD 23 []) = true := by decide +kernel

theorem ids (k : Nat) (h1 : 16 ≤ k) (h2 : k < 24) : idsOK (chunks.getD k []) = true :=
  match k, h1, h2 with
  | 16, _, _ => ids_16
  | 17, _, _ => ids_17
  | 18, _, _ => ids_18
  | 19, _, _ => ids_19
  | 20, _, _ => ids_20
  | 21, _, _ => ids_21
  | 22, _, _ => ids_22
  | 23, _, _ => ids_23
  | n + 24, _, h => absurd h (by omega)

theorem ok (k : Nat) (h1 : 16 ≤ k) (h2 : k < 24) : chunkAgree table (chunks.getD k []) = true :=
  match k, h1, h2 with
  | 16, _, _ => ok_16
  | 17, _, _ => ok_17
  | 18, _, _ => ok_18
  | 19, _, _ => ok_19
  | 20, _, _ => ok_20
  | 21, _, _ => ok_21
  | 22, _, _ => ok_22
  | 23, _, _ => ok_23
  | n + 24, _, h => absurd h (by omega)

end TonVerif.Proofs.TlTab2
