/-
The complete table behind `c13_substitution_rejected`: every non-zero single-sextet error pattern of a
48-character friendly address (48 positions x 63 non-zero xor differences, as 36-byte patterns) has a
non-zero CRC-16 syndrome.  Evaluated by the kernel with a fast Nat CRC (`crcN`), which Proofs/Address.lean
proves equal to the bitwise spec.  Kept in its own file because it takes ~1-2 min to check.
-/
import TonVerif.Proofs.Base64

namespace TonVerif.Proofs.Address
open TonVerif TonVerif.Proofs.Base64

/-! ### a fast Nat CRC for kernel evaluation -/

def stepN (c : Nat) : Nat := (c * 2 % 65536) ^^^ (c / 32768 * 4129)

def byteN (c b : Nat) : Nat :=
  stepN (stepN (stepN (stepN (stepN (stepN (stepN (stepN (c ^^^ (b * 256)))))))))

def crcN : Bytes → Nat → Nat
  | [], c => c
  | b :: rest, c => crcN rest (byteN c b)

/-! ### the complete table of single-character error patterns -/

/-- the 36-byte xor difference caused by xor-ing `e` into sextet `i` of a 48-character text. -/
def errPat (i e : Nat) : Bytes := unsextets ((List.replicate 48 0).set i e)

/-- "the pattern is NOT a codeword": its last two bytes differ from the CRC of its first 34. -/
def syndOK (E : Bytes) : Bool :=
  let v := crcN (E.take 34) 0
  E.drop 34 != [v / 256, v % 256]

/-- TABLE OBLIGATION: all 48 x 63 non-zero single-sextet error patterns have a non-zero syndrome
(complete enumeration, evaluated by the kernel; split in four ranges of positions). -/
theorem syndrome_table_a : ∀ i, i < 12 → ∀ e, e < 64 → e ≠ 0 → syndOK (errPat i e) = true := by
  decide +kernel
theorem syndrome_table_b : ∀ i, i < 12 → ∀ e, e < 64 → e ≠ 0 → syndOK (errPat (12 + i) e) = true := by
  decide +kernel
theorem syndrome_table_c : ∀ i, i < 12 → ∀ e, e < 64 → e ≠ 0 → syndOK (errPat (24 + i) e) = true := by
  decide +kernel
theorem syndrome_table_d : ∀ i, i < 12 → ∀ e, e < 64 → e ≠ 0 → syndOK (errPat (36 + i) e) = true := by
  decide +kernel

theorem syndrome_table (i : Nat) (hi : i < 48) (e : Nat) (he : e < 64) (h0 : e ≠ 0) :
    syndOK (errPat i e) = true := by
  by_cases h1 : i < 12
  · exact syndrome_table_a i h1 e he h0
  · by_cases h2 : i < 24
    · have := syndrome_table_b (i - 12) (by omega) e he h0
      rwa [show 12 + (i - 12) = i by omega] at this
    · by_cases h3 : i < 36
      · have := syndrome_table_c (i - 24) (by omega) e he h0
        rwa [show 24 + (i - 24) = i by omega] at this
      · have := syndrome_table_d (i - 36) (by omega) e he h0
        rwa [show 36 + (i - 36) = i by omega] at this

end TonVerif.Proofs.Address
