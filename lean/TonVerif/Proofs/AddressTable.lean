/-
The complete table behind `c13_substitution_rejected`: every non-zero single-sextet error pattern of a
48-character friendly address (48 positions x 63 non-zero xor differences, as 36-byte patterns) has a
non-zero CRC-16 syndrome.  Evaluated by the kernel with a fast Nat CRC (`crcN`), which Proofs/Address.lean
proves equal to the bitwise spec.  Kept in its own file because it takes ~1-2 min to check (12 lemmas of ~10 s).
-/
import TonVerif.Proofs.Base64

namespace TonVerif.Proofs.Address
open TonVerif TonVerif.Proofs.Base64

/-! ### a fast Nat CRC for kernel evaluation -/

def stepN (c : Nat) : Nat := (c * 2 % 65536) ^^^ (c / 32768 * 4129)

def byteN (c b : Nat) : Nat :=
  stepN (stepN (stepN (stepN (stepN (stepN (stepN (stepN (c ^^^ (b * 256)))))))))

def crcN : Bytes → Nat → Nat
  | [], c => c
  | b :: rest, c => crcN rest (byteN c b)

/-! ### the complete table of single-character error patterns -/

/-- the 36-byte xor difference caused by xor-ing `e` into sextet `i` of a 48-character text. -/
def errPat (i e : Nat) : Bytes := unsextets ((List.replicate 48 0).set i e)

/-- "the pattern is NOT a codeword": its last two bytes differ from the CRC of its first 34. -/
def syndOK (E : Bytes) : Bool :=
  let v := crcN (E.take 34) 0
  E.drop 34 != [v / 256, v % 256]

/-- TABLE OBLIGATION: all 48 x 63 non-zero single-sextet error patterns have a non-zero syndrome
(complete enumeration, evaluated by the kernel; one lemma per quad of positions 4k .. 4k+3). -/
theorem syndrome_table_0 : ∀ i, i < 4 → ∀ e, e < 64 → e ≠ 0 → syndOK (errPat (4 * 0 + i) e) = true := by
  decide +kernel
theorem syndrome_table_1 : ∀ i, i < 4 → ∀ e, e < 64 → e ≠ 0 → syndOK (errPat (4 * 1 + i) e) = true := by
  decide +kernel
theorem syndrome_table_2 : ∀ i, i < 4 → ∀ e, e < 64 → e ≠ 0 → syndOK (errPat (4 * 2 + i) e) = true := by
  decide +kernel
theorem syndrome_table_3 : ∀ i, i < 4 → ∀ e, e < 64 → e ≠ 0 → syndOK (errPat (4 * 3 + i) e) = true := by
  decide +kernel
theorem syndrome_table_4 : ∀ i, i < 4 → ∀ e, e < 64 → e ≠ 0 → syndOK (errPat (4 * 4 + i) e) = true := by
  decide +kernel
theorem syndrome_table_5 : ∀ i, i < 4 → ∀ e, e < 64 → e ≠ 0 → syndOK (errPat (4 * 5 + i) e) = true := by
  decide +kernel
theorem syndrome_table_6 : ∀ i, i < 4 → ∀ e, e < 64 → e ≠ 0 → syndOK (errPat (4 * 6 + i) e) = true := by
  decide +kernel
theorem syndrome_table_7 : ∀ i, i < 4 → ∀ e, e < 64 → e ≠ 0 → syndOK (errPat (4 * 7 + i) e) = true := by
  decide +kernel
theorem syndrome_table_8 : ∀ i, i < 4 → ∀ e, e < 64 → e ≠ 0 → syndOK (errPat (4 * 8 + i) e) = true := by
  decide +kernel
theorem syndrome_table_9 : ∀ i, i < 4 → ∀ e, e < 64 → e ≠ 0 → syndOK (errPat (4 * 9 + i) e) = true := by
  decide +kernel
theorem syndrome_table_10 : ∀ i, i < 4 → ∀ e, e < 64 → e ≠ 0 → syndOK (errPat (4 * 10 + i) e) = true := by
  decide +kernel
theorem syndrome_table_11 : ∀ i, i < 4 → ∀ e, e < 64 → e ≠ 0 → syndOK (errPat (4 * 11 + i) e) = true := by
  decide +kernel

theorem syndrome_table (i : Nat) (hi : i < 48) (e : Nat) (he : e < 64) (h0 : e ≠ 0) :
    syndOK (errPat i e) = true := by
  have h : i = 4 * (i / 4) + i % 4 := by omega
  have hq : i / 4 < 12 := by omega
  have hr : i % 4 < 4 := by omega
  rw [h]
  generalize i / 4 = q at hq
  generalize i % 4 = r at hr
  match q, hq with
  | 0, _ => exact syndrome_table_0 r hr e he h0
  | 1, _ => exact syndrome_table_1 r hr e he h0
  | 2, _ => exact syndrome_table_2 r hr e he h0
  | 3, _ => exact syndrome_table_3 r hr e he h0
  | 4, _ => exact syndrome_table_4 r hr e he h0
  | 5, _ => exact syndrome_table_5 r hr e he h0
  | 6, _ => exact syndrome_table_6 r hr e he h0
  | 7, _ => exact syndrome_table_7 r hr e he h0
  | 8, _ => exact syndrome_table_8 r hr e he h0
  | 9, _ => exact syndrome_table_9 r hr e he h0
  | 10, _ => exact syndrome_table_10 r hr e he h0
  | 11, _ => exact syndrome_table_11 r hr e he h0

end TonVerif.Proofs.Address
