/-
`Cell.order` as REGENERATED from the source (Generated/BocEmitSrc.lean), judged by an INVARIANT of its own loop instead of by
equality with the hand model (Proofs/SrcBocEmit.lean `src_order_eq`):

* `order_any_shape` — whatever order the references of an expanded cell are pushed in (`ch cell` = any permutation of
  `cell.refs`), the explicit-stack loop with `(cell, expanded)` markers and a visited set, followed by the re-insertion loop over
  `reversed(post_order)`, returns a `ValidOrder`: root first, every distinct sub-cell exactly once, references strictly forward.
* `order_linear_shape` — the `while stack:` loop ends within `1 + n + e` iterations (`n` distinct cells, `e` references): the
  iteration budget `1 + n + e + 1` (one unit to see the condition fail) always suffices.

Both are proved for an abstract loop body (`hb : ∀ s, body s = stepG ch s`, closed by `rfl` against the regenerated text), so the
same proof covers `for ref in cell.refs` and `for ref in reversed(cell.refs)`; marking on push, a wrong pop end, a dropped
`reversed(post_order)` or a visited set keyed differently do not match `stepG` (or break `hs`) and leave the obligation open.
-/
import TonVerif.Generated.BocEmitSrc
import TonVerif.Proofs.SrcDict
import TonVerif.Proofs.BocOrder

namespace TonVerif.Proofs.SrcOrderAny
open TonVerif TonVerif.Model TonVerif.Proofs.SrcDict TonVerif.Proofs.BocOrder

/-- the loop state `(post_order, stack, visited)` (the loop-carried variables, sorted by name) -/
abbrev OState := List PCell × List (PCell × Bool) × Py.KSet PCell

/-- one iteration of `while stack:` in canonical form; the references of an expanded cell are pushed in the order `ch cell` -/
def stepG (ch : PCell → List PCell) (s : OState) : Option OState :=
  (Py.listPop? s.2.1).bind fun x =>
    if x.2.2 = true then some (s.1 ++ [x.2.1], x.1, s.2.2)
    else if Py.setHas PCell.key s.2.2 x.2.1 = true then some (s.1, x.1, s.2.2)
    else some (s.1, x.1 ++ [(x.2.1, true)] ++ (ch x.2.1).map (fun r => (r, false)), Py.setAdd PCell.key s.2.2 x.2.1)

/-! ### predicates on the stack, read from the TOP (`T = stack.reverse`) -/

abbrev ekey (e : PCell × Bool) : Nat := e.1.key

/-- the cell of the nearest expanded (`True`) entry -/
def parentOf (T : List (PCell × Bool)) : Option PCell := (T.find? (·.2)).map (·.1)

/-- every entry is a reference of the nearest expanded entry below it -/
def ParentOK : List (PCell × Bool) → Prop
  | [] => True
  | e :: rest => (∀ a, parentOf rest = some a → e.1 ∈ a.refs) ∧ ParentOK rest

/-- every reference of an expanded entry is finished (key in `pk`) or still on the stack above it (key in `ak`) -/
def WitOK (pk : List Nat) : List (PCell × Bool) → List Nat → Prop
  | [], _ => True
  | (c, true) :: rest, ak => (∀ r ∈ c.refs, r.key ∈ pk ∨ r.key ∈ ak) ∧ WitOK pk rest (c.key :: ak)
  | (c, false) :: rest, ak => WitOK pk rest (c.key :: ak)

/-- keys of the expanded entries (cells being processed) -/
def grayKeys (T : List (PCell × Bool)) : List Nat := (T.filter (·.2)).map ekey

mutual
  theorem subcells_trans : (p : PCell) → ∀ c ∈ subcells p, ∀ d ∈ subcells c, d ∈ subcells p
    | .mk i refs => by
      intro c hc d hd
      rw [subcells] at hc ⊢
      rcases List.mem_cons.1 hc with rfl | hc
      · rw [subcells] at hd; exact hd
      · exact List.mem_cons_of_mem _ (subcellsList_trans refs c hc d hd)
  theorem subcellsList_trans : (ps : List PCell) → ∀ c ∈ subcellsList ps, ∀ d ∈ subcells c, d ∈ subcellsList ps
    | [] => by intro c hc; simp [subcellsList] at hc
    | q :: qs => by
      intro c hc d hd
      rw [subcellsList] at hc ⊢
      rcases List.mem_append.1 hc with hc | hc
      · exact List.mem_append_left _ (subcells_trans q c hc d hd)
      · exact List.mem_append_right _ (subcellsList_trans qs c hc d hd)
end

theorem ref_mem_subcells {p c r : PCell} (hc : c ∈ subcells p) (hr : r ∈ c.refs) : r ∈ subcells p := by
  apply subcells_trans p c hc
  rw [subcells_eq]
  exact List.mem_cons_of_mem _ (mem_subcellsList_of_mem _ r hr)

theorem psize_lt_of_mem_refs {x c : PCell} (h : x ∈ c.refs) : psize x < psize c := by
  have h1 := psize_subcellsList c.refs x (mem_subcellsList_of_mem _ _ h)
  cases c with
  | mk i refs => simp only [psize, PCell.refs] at h1 ⊢; omega

theorem parentOf_true (c : PCell) (rest : List (PCell × Bool)) : parentOf ((c, true) :: rest) = some c := by
  simp [parentOf]

theorem parentOf_false (c : PCell) (rest : List (PCell × Bool)) : parentOf ((c, false) :: rest) = parentOf rest := by
  simp [parentOf]

/-- below an entry that hangs under the stack, every expanded cell is strictly bigger: no cell is its own descendant -/
theorem psize_lt_below : ∀ (rest : List (PCell × Bool)) (x : PCell), (∀ a, parentOf rest = some a → x ∈ a.refs) →
    ParentOK rest → ∀ g, (g, true) ∈ rest → psize x < psize g
  | [], _, _, _, g, hg => by simp at hg
  | (c, true) :: rest, x, hx, hp, g, hg => by
    have h1 := psize_lt_of_mem_refs (hx c (parentOf_true c rest))
    rcases List.mem_cons.1 hg with h | h
    · cases h; exact h1
    · exact Nat.lt_trans h1 (psize_lt_below rest c hp.1 hp.2 g h)
  | (c, false) :: rest, x, hx, hp, g, hg => by
    rcases List.mem_cons.1 hg with h | h
    · cases h
    · exact psize_lt_below rest x (by rw [parentOf_false] at hx; exact hx) hp.2 g h

theorem parentOK_push (x : PCell) (rest : List (PCell × Bool)) : ∀ (L : List PCell), (∀ r ∈ L, r ∈ x.refs) →
    ParentOK ((x, true) :: rest) → ParentOK (L.map (fun r => (r, false)) ++ (x, true) :: rest) ∧
      parentOf (L.map (fun r => (r, false)) ++ (x, true) :: rest) = some x
  | [], _, h => ⟨h, parentOf_true x rest⟩
  | r :: L, hL, h => by
    obtain ⟨h1, h2⟩ := parentOK_push x rest L (fun r hr => hL r (by simp [hr])) h
    refine ⟨⟨?_, h1⟩, ?_⟩
    · intro a ha
      have ha' : parentOf (L.map (fun r => (r, false)) ++ (x, true) :: rest) = some a := ha
      rw [h2] at ha'; cases ha'
      exact hL r (by simp)
    · simpa [List.map_cons, parentOf_false] using h2

theorem witOK_mono (pk pk' : List Nat) : ∀ (T : List (PCell × Bool)) (ak ak' : List Nat),
    (∀ k, k ∈ pk ∨ k ∈ ak → k ∈ pk' ∨ k ∈ ak') → WitOK pk T ak → WitOK pk' T ak'
  | [], _, _, _, _ => trivial
  | (c, true) :: rest, ak, ak', h, hw => by
    refine ⟨fun r hr => h _ (hw.1 r hr), witOK_mono pk pk' rest _ _ ?_ hw.2⟩
    intro k hk
    rcases hk with hk | hk
    · rcases h k (Or.inl hk) with h' | h'
      · exact Or.inl h'
      · exact Or.inr (List.mem_cons_of_mem _ h')
    · rcases List.mem_cons.1 hk with rfl | hk
      · exact Or.inr (by simp)
      · rcases h k (Or.inr hk) with h' | h'
        · exact Or.inl h'
        · exact Or.inr (List.mem_cons_of_mem _ h')
  | (c, false) :: rest, ak, ak', h, hw => by
    refine witOK_mono pk pk' rest _ _ ?_ hw
    intro k hk
    rcases hk with hk | hk
    · rcases h k (Or.inl hk) with h' | h'
      · exact Or.inl h'
      · exact Or.inr (List.mem_cons_of_mem _ h')
    · rcases List.mem_cons.1 hk with rfl | hk
      · exact Or.inr (by simp)
      · rcases h k (Or.inr hk) with h' | h'
        · exact Or.inl h'
        · exact Or.inr (List.mem_cons_of_mem _ h')

/-- pushing unexpanded entries only accumulates their keys -/
theorem witOK_push (pk : List Nat) (R : List (PCell × Bool)) : ∀ (L : List PCell) (ak : List Nat),
    WitOK pk (L.map (fun r => (r, false)) ++ R) ak ↔ WitOK pk R ((L.map PCell.key).reverse ++ ak)
  | [], ak => by simp
  | r :: L, ak => by
    simp only [List.map_cons, List.cons_append, WitOK, List.reverse_cons, List.append_assoc]
    exact witOK_push pk R L (r.key :: ak)

theorem grayKeys_true (x : PCell) (T : List (PCell × Bool)) : grayKeys ((x, true) :: T) = x.key :: grayKeys T := by
  simp [grayKeys]

theorem grayKeys_false (x : PCell) (T : List (PCell × Bool)) : grayKeys ((x, false) :: T) = grayKeys T := by
  simp [grayKeys]

theorem grayKeys_push (L : List PCell) (R : List (PCell × Bool)) :
    grayKeys (L.map (fun r => (r, false)) ++ R) = grayKeys R := by
  induction L with
  | nil => rfl
  | cons r L ih => simpa [grayKeys_false] using ih

/-! ### the invariant -/

structure Inv (root : PCell) (s : OState) : Prop where
  sound_stack : ∀ e ∈ s.2.1, e.1 ∈ subcells root
  sound_post : ∀ c ∈ s.1, c ∈ subcells root
  vis_iff : ∀ k, k ∈ s.2.2.map PCell.key ↔ (k ∈ s.1.map PCell.key ∨ k ∈ grayKeys s.2.1.reverse)
  nodup : (grayKeys s.2.1.reverse ++ s.1.map PCell.key).Nodup
  fwd : Fwd s.1.reverse
  parent : ParentOK s.2.1.reverse
  wit : WitOK (s.1.map PCell.key) s.2.1.reverse []
  rootpos : s = ([], [(root, false)], []) ∨ s.2.1.head? = some (root, true) ∨ (s.2.1 = [] ∧ s.1.getLast? = some root)

theorem inv_init (root : PCell) : Inv root ([], [(root, false)], []) where
  sound_stack := by intro e he; simp at he; subst he; exact self_mem_subcells root
  sound_post := by simp
  vis_iff := by simp [grayKeys]
  nodup := by simp [grayKeys]
  fwd := trivial
  parent := by simp [ParentOK, parentOf]
  wit := by simp [WitOK]
  rootpos := Or.inl rfl

theorem setHas_iff (vis : Py.KSet PCell) (c : PCell) : Py.setHas PCell.key vis c = true ↔ c.key ∈ vis.map PCell.key := by
  simp only [Py.setHas, List.any_eq_true, List.mem_map, beq_iff_eq]

theorem fwd_cons_of (x : PCell) (post : List PCell) (h : ∀ r ∈ x.refs, r.key ∈ post.map PCell.key) (hf : Fwd post.reverse) :
    Fwd (post ++ [x]).reverse := by
  simp only [List.reverse_append, List.reverse_cons, List.reverse_nil, List.nil_append, List.singleton_append, Fwd]
  exact ⟨fun r hr => by simpa using h r hr, hf⟩

theorem head_append_of_ne {α : Type} (l m : List α) (h : l ≠ []) : (l ++ m).head? = l.head? := by
  cases l with
  | nil => exact absurd rfl h
  | cons a l => rfl

/-! ### the potential: stack entries + (1 + references) of every cell not yet visited -/

def unvisitedSum (L : List PCell) (vis : Py.KSet PCell) : Nat :=
  ((L.filter (fun y => !Py.setHas PCell.key vis y)).map (fun y => 1 + y.refs.length)).sum

def potential (L : List PCell) (s : OState) : Nat := s.2.1.length + unvisitedSum L s.2.2

theorem setHas_add (vis : Py.KSet PCell) (x y : PCell) (hx : Py.setHas PCell.key vis x = false) :
    Py.setHas PCell.key (Py.setAdd PCell.key vis x) y = (Py.setHas PCell.key vis y || (x.key == y.key)) := by
  unfold Py.setAdd
  rw [hx]
  simp [Py.setHas, List.any_append]

theorem unvisitedSum_add (vis : Py.KSet PCell) (x : PCell) (hx : Py.setHas PCell.key vis x = false) :
    ∀ (L : List PCell), (L.map PCell.key).Nodup → x ∈ L →
      unvisitedSum L (Py.setAdd PCell.key vis x) + (1 + x.refs.length) = unvisitedSum L vis
  | [], _, hm => by simp at hm
  | y :: L, hn, hm => by
    rw [List.map_cons, List.nodup_cons] at hn
    by_cases hxy : x.key = y.key
    · -- the head is `x` itself (keys are distinct in `L`)
      have hyx : y = x := by
        rcases List.mem_cons.1 hm with h | h
        · exact h.symm
        · exact absurd (hxy ▸ List.mem_map_of_mem h) hn.1
      subst hyx
      have htail : ∀ z ∈ L, (!Py.setHas PCell.key (Py.setAdd PCell.key vis y) z) = (!Py.setHas PCell.key vis z) := by
        intro z hz
        rw [setHas_add _ _ _ hx]
        have : (y.key == z.key) = false := by
          simp only [beq_eq_false_iff_ne, ne_eq]
          intro e; exact hn.1 (e ▸ List.mem_map_of_mem hz)
        simp [this]
      have hf : L.filter (fun z => !Py.setHas PCell.key (Py.setAdd PCell.key vis y) z) =
          L.filter (fun z => !Py.setHas PCell.key vis z) := List.filter_congr htail
      simp only [unvisitedSum, List.filter_cons, setHas_add _ _ _ hx, hx, beq_self_eq_true, Bool.or_true, Bool.not_true,
        Bool.false_eq_true, if_false, Bool.not_false, if_true, List.map_cons, List.sum_cons]
      simp only [← setHas_add _ _ _ hx, hf]
      omega
    · have hm' : x ∈ L := by
        rcases List.mem_cons.1 hm with h | h
        · exact absurd (by rw [h]) hxy
        · exact h
      have ih := unvisitedSum_add vis x hx L hn.2 hm'
      have hb : (x.key == y.key) = false := by simpa using hxy
      simp only [unvisitedSum, List.filter_cons, setHas_add _ _ _ hx, hb, Bool.or_false] at ih ⊢
      by_cases hy : Py.setHas PCell.key vis y = true
      · simp only [hy, Bool.not_true, Bool.false_eq_true, if_false]
        exact ih
      · simp only [hy, Bool.not_false, if_true, List.map_cons, List.sum_cons]
        omega

/-! ### one iteration keeps the invariant and lowers the potential -/

theorem step_inv (ch : PCell → List PCell) (hperm : ∀ c, (ch c).Perm c.refs) (root : PCell) (nc : NoCollision root)
    (s : OState) (inv : Inv root s) (hne : s.2.1 ≠ []) :
    ∃ s', stepG ch s = some s' ∧ Inv root s' ∧
      ∀ (L : List PCell), (L.map PCell.key).Nodup → (∀ d ∈ subcells root, d ∈ L) → potential L s' + 1 ≤ potential L s := by
  obtain ⟨post, stack, vis⟩ := s
  rcases List.eq_nil_or_concat stack with rfl | ⟨init, ⟨x, e⟩, hst⟩
  · exact absurd rfl hne
  rw [List.concat_eq_append] at hst
  subst hst
  obtain ⟨i1, i2, i3, i4, i5, i6, i7, i8⟩ := inv
  dsimp only at i1 i2 i3 i4 i5 i6 i7 i8 hne
  simp only [List.reverse_append, List.reverse_cons, List.reverse_nil, List.nil_append, List.singleton_append] at i3 i4 i6 i7
  have hxroot : x ∈ subcells root := i1 (x, e) (by simp)
  have hinit : ∀ e' ∈ init, e'.1 ∈ subcells root := fun e' he' => i1 e' (by simp [he'])
  -- where the root is after the top entry has been popped without a push
  have hroot_pop : ∀ (post' : List PCell), (e = true → post' = post ++ [x]) → (e = false → post ≠ [] ∨ init ≠ []) →
      (init.head? = some (root, true) ∨ (init = [] ∧ post'.getLast? = some root)) := by
    intro post' hp hq
    rcases i8 with h | h | h
    · simp only [Prod.mk.injEq] at h
      obtain ⟨h1, h2, _⟩ := h
      have : init = [] ∧ (x, e) = (root, false) := by
        cases init with
        | nil => simpa using h2
        | cons a l => simp at h2
      obtain ⟨h3, h4⟩ := this
      cases h4
      rcases hq rfl with h' | h'
      · exact absurd h1 h'
      · exact absurd h3 h'
    · cases init with
      | nil =>
        simp only [List.nil_append, List.head?_cons, Option.some.injEq] at h
        cases h
        right; exact ⟨rfl, by rw [hp rfl]; simp⟩
      | cons a l => left; simpa using h
    · exact absurd h.1 (by simp)
  cases e with
  | true =>
    -- an expanded entry is finished: `post_order.append(cell)`
    refine ⟨(post ++ [x], init, vis), by simp [stepG, listPop_append], ?_, ?_⟩
    · rw [grayKeys_true] at i3 i4
      have hwit := i7
      simp only [WitOK] at hwit
      refine ⟨hinit, ?_, ?_, ?_, ?_, i6.2, ?_, ?_⟩
      · intro c hc
        rcases List.mem_append.1 hc with h | h
        · exact i2 c h
        · simp at h; subst h; exact hxroot
      · intro k
        show k ∈ vis.map PCell.key ↔ (k ∈ (post ++ [x]).map PCell.key ∨ k ∈ grayKeys init.reverse)
        rw [i3 k]
        simp only [List.map_append, List.map_cons, List.map_nil, List.mem_append, List.mem_cons, List.not_mem_nil, or_false]
        constructor
        · rintro (h | h | h)
          · exact Or.inl (Or.inl h)
          · exact Or.inl (Or.inr h)
          · exact Or.inr h
        · rintro ((h | h) | h)
          · exact Or.inl h
          · exact Or.inr (Or.inl h)
          · exact Or.inr (Or.inr h)
      · show (grayKeys init.reverse ++ (post ++ [x]).map PCell.key).Nodup
        rw [List.cons_append, List.nodup_cons] at i4
        simp only [List.map_append, List.map_cons, List.map_nil]
        rw [← List.append_assoc, List.nodup_append]
        refine ⟨i4.2, by simp, ?_⟩
        intro a ha b hb
        simp only [List.mem_singleton] at hb
        subst hb
        intro hab; subst hab
        exact i4.1 ha
      · apply fwd_cons_of x post _ i5
        intro r hr
        rcases hwit.1 r hr with h | h
        · exact h
        · simp at h
      · show WitOK ((post ++ [x]).map PCell.key) init.reverse []
        refine witOK_mono _ _ _ _ _ ?_ hwit.2
        intro k hk
        simp only [List.map_append, List.map_cons, List.map_nil, List.mem_append, List.mem_singleton]
        rcases hk with hk | hk
        · exact Or.inl (Or.inl hk)
        · simp at hk; exact Or.inl (Or.inr hk)
      · right
        exact hroot_pop (post ++ [x]) (fun _ => rfl) (fun h => by cases h)
    · intro L _ _
      simp only [potential, List.length_append, List.length_cons, List.length_nil]; omega
  | false =>
    rw [grayKeys_false] at i3 i4
    by_cases hv : Py.setHas PCell.key vis x = true
    · -- already visited: the entry is dropped; the cell is FINISHED (it cannot be one of the cells being processed)
      have hxpost : x.key ∈ post.map PCell.key := by
        have := (i3 x.key).1 ((setHas_iff vis x).1 hv)
        rcases this with h | h
        · exact h
        · exfalso
          simp only [grayKeys, List.mem_map, List.mem_filter] at h
          obtain ⟨⟨g, b⟩, ⟨hg, hb⟩, hk⟩ := h
          simp only at hb; subst hb
          have hgx : g = x := nc g (hinit (g, true) (by simpa using hg)) x hxroot hk
          subst hgx
          have := psize_lt_below init.reverse g i6.1 i6.2 g hg
          omega
      refine ⟨(post, init, vis), by simp [stepG, listPop_append, hv], ?_, ?_⟩
      · refine ⟨hinit, i2, i3, i4, i5, i6.2, ?_, ?_⟩
        · simp only [WitOK] at i7
          refine witOK_mono _ _ _ _ _ ?_ i7
          intro k hk
          rcases hk with hk | hk
          · exact Or.inl hk
          · simp at hk; subst hk; exact Or.inl hxpost
        · right
          refine hroot_pop post (fun h => by cases h) (fun _ => ?_)
          left; intro hp; subst hp; simp at hxpost
      · intro L _ _
        simp only [potential, List.length_append, List.length_cons, List.length_nil]; omega
    · -- first visit: mark, push the `(cell, True)` marker and the references
      have hv' : Py.setHas PCell.key vis x = false := by simpa using hv
      have hxvis : x.key ∉ vis.map PCell.key := fun h => hv ((setHas_iff vis x).2 h)
      have hmem : ∀ r, r ∈ ch x ↔ r ∈ x.refs := fun r => (hperm x).mem_iff
      have hadd : Py.setAdd PCell.key vis x = vis ++ [x] := by simp [Py.setAdd, hv']
      refine ⟨(post, init ++ [(x, true)] ++ (ch x).map (fun r => (r, false)), Py.setAdd PCell.key vis x),
        by simp [stepG, listPop_append, hv], ?_, ?_⟩
      · have hrev : (init ++ [(x, true)] ++ (ch x).map (fun r => (r, false))).reverse =
            (ch x).reverse.map (fun r => (r, false)) ++ (x, true) :: init.reverse := by
          simp [List.map_reverse]
        have hp1 : ParentOK ((x, true) :: init.reverse) := ⟨i6.1, i6.2⟩
        refine ⟨?_, i2, ?_, ?_, i5, ?_, ?_, ?_⟩
        · intro e' he'
          simp only [List.mem_append, List.mem_singleton, List.mem_map] at he'
          rcases he' with (h | h) | ⟨r, hr, h⟩
          · exact hinit e' h
          · subst h; exact hxroot
          · subst h
            exact ref_mem_subcells hxroot ((hmem r).1 hr)
        · intro k
          show k ∈ (Py.setAdd PCell.key vis x).map PCell.key ↔ (k ∈ post.map PCell.key ∨
            k ∈ grayKeys (init ++ [(x, true)] ++ (ch x).map (fun r => (r, false))).reverse)
          rw [hrev, grayKeys_push, grayKeys_true, hadd]
          simp only [List.map_append, List.map_cons, List.map_nil, List.mem_append, List.mem_cons, List.not_mem_nil, or_false]
          rw [i3 k]
          constructor
          · rintro ((h | h) | h)
            · exact Or.inl h
            · exact Or.inr (Or.inr h)
            · exact Or.inr (Or.inl h)
          · rintro (h | h | h)
            · exact Or.inl (Or.inl h)
            · exact Or.inr h
            · exact Or.inl (Or.inr h)
        · show (grayKeys (init ++ [(x, true)] ++ (ch x).map (fun r => (r, false))).reverse ++ post.map PCell.key).Nodup
          rw [hrev, grayKeys_push, grayKeys_true, List.cons_append, List.nodup_cons]
          refine ⟨?_, i4⟩
          intro h
          apply hxvis
          rw [i3 x.key]
          rcases List.mem_append.1 h with h | h
          · exact Or.inr h
          · exact Or.inl h
        · show ParentOK (init ++ [(x, true)] ++ (ch x).map (fun r => (r, false))).reverse
          rw [hrev]
          exact (parentOK_push x init.reverse (ch x).reverse (fun r hr => (hmem r).1 (by simpa using hr)) hp1).1
        · show WitOK (post.map PCell.key) (init ++ [(x, true)] ++ (ch x).map (fun r => (r, false))).reverse []
          rw [hrev, witOK_push]
          simp only [WitOK] at i7 ⊢
          refine ⟨?_, witOK_mono _ _ _ _ _ ?_ i7⟩
          · intro r hr
            right
            simp only [List.append_nil, List.mem_reverse, List.mem_map]
            exact ⟨r, by simpa using (hmem r).2 hr, rfl⟩
          · intro k hk
            rcases hk with hk | hk
            · exact Or.inl hk
            · right; simp at hk; subst hk; simp
        · right; left
          show (init ++ [(x, true)] ++ (ch x).map (fun r => (r, false))).head? = some (root, true)
          rcases i8 with h | h | h
          · simp only [Prod.mk.injEq] at h
            obtain ⟨_, h2, _⟩ := h
            have : init = [] ∧ (x, false) = (root, false) := by
              cases init with
              | nil => simpa using h2
              | cons a l => simp at h2
            obtain ⟨h3, h4⟩ := this
            cases h4; subst h3
            simp
          · cases init with
            | nil => simp at h
            | cons a l => simpa using h
          · exact absurd h.1 (by simp)
      · intro L hLn hL
        have hsum := unvisitedSum_add vis x hv' L hLn (hL x hxroot)
        have hlen : (ch x).length = x.refs.length := (hperm x).length_eq
        simp only [potential, List.length_append, List.length_map, List.length_cons, List.length_nil] at hsum ⊢
        omega


/-! ### the loop -/

/-- whenever the loop returns, the invariant holds and the stack is empty (every iteration budget) -/
theorem while_inv (ch : PCell → List PCell) (hperm : ∀ c, (ch c).Perm c.refs) (root : PCell) (nc : NoCollision root)
    (body : OState → Option OState) (hb : ∀ s, body s = stepG ch s) :
    ∀ (fuel : Nat) (s s' : OState), Inv root s →
      Py.while? (fun s : OState => decide (s.2.1 ≠ [])) body fuel s = some s' → Inv root s' ∧ s'.2.1 = []
  | 0, _, _, _, h => by simp [Py.while?] at h
  | fuel + 1, s, s', inv, h => by
    by_cases hne : s.2.1 = []
    · simp only [Py.while?, hne, ne_eq, not_true_eq_false, decide_false, Bool.false_eq_true, if_false,
        Option.some.injEq] at h
      subst h; exact ⟨inv, hne⟩
    · obtain ⟨s1, h1, inv1, _⟩ := step_inv ch hperm root nc s inv hne
      simp only [Py.while?, hne, ne_eq, not_false_eq_true, decide_true, if_true, hb, h1, Option.bind_some] at h
      exact while_inv ch hperm root nc body hb fuel s1 s' inv1 h

/-- the loop ends within `potential` iterations: a budget of `potential + 1` suffices -/
theorem while_terminates (ch : PCell → List PCell) (hperm : ∀ c, (ch c).Perm c.refs) (root : PCell) (nc : NoCollision root)
    (L : List PCell) (hLn : (L.map PCell.key).Nodup) (hL : ∀ d ∈ subcells root, d ∈ L)
    (body : OState → Option OState) (hb : ∀ s, body s = stepG ch s) :
    ∀ (fuel : Nat) (s : OState), Inv root s → potential L s + 1 ≤ fuel →
      ∃ s', Py.while? (fun s : OState => decide (s.2.1 ≠ [])) body fuel s = some s'
  | 0, _, _, h => by omega
  | fuel + 1, s, inv, h => by
    by_cases hne : s.2.1 = []
    · exact ⟨s, by simp [Py.while?, hne]⟩
    · obtain ⟨s1, h1, inv1, hp⟩ := step_inv ch hperm root nc s inv hne
      have := hp L hLn hL
      obtain ⟨s', hs'⟩ := while_terminates ch hperm root nc L hLn hL body hb fuel s1 inv1 (by omega)
      exact ⟨s', by simp only [Py.while?, hne, ne_eq, not_false_eq_true, decide_true, if_true, hb, h1, Option.bind_some, hs']⟩

/-! ### from the invariant at the end of the loop to a valid order -/

/-- a key-closed set of sub-cells contains every sub-cell of its members -/
theorem closed_subcells (root : PCell) (nc : NoCollision root) (P : List PCell) (hs : ∀ c ∈ P, c ∈ subcells root)
    (hc : ∀ c ∈ P, ∀ r ∈ c.refs, r.key ∈ P.map PCell.key) :
    ∀ (n : Nat) (c : PCell), psize c ≤ n → c ∈ P → ∀ d ∈ subcells c, d ∈ P
  | 0, c, hn, _, _, _ => by cases c; simp [psize] at hn
  | n + 1, c, hn, hcP, d, hd => by
    rw [subcells_eq] at hd
    rcases List.mem_cons.1 hd with rfl | hd
    · exact hcP
    · -- `d` is below some reference `r` of `c`
      have : ∃ r ∈ c.refs, d ∈ subcells r := by
        clear hn hc hcP
        generalize c.refs = rs at hd
        induction rs with
        | nil => simp [subcellsList] at hd
        | cons r rs ih =>
          simp only [subcellsList, List.mem_append] at hd
          rcases hd with h | h
          · exact ⟨r, by simp, h⟩
          · obtain ⟨r', hr', h'⟩ := ih h
            exact ⟨r', by simp [hr'], h'⟩
      obtain ⟨r, hr, hdr⟩ := this
      obtain ⟨y, hy, hyk⟩ := List.mem_map.1 (hc c hcP r hr)
      have hyr : y = r := nc y (hs y hy) r (ref_mem_subcells (hs c hcP) hr) hyk
      subst hyr
      have := psize_lt_of_mem_refs hr
      exact closed_subcells root nc P hs hc n y (by omega) hy d hdr

/-- `while stack:` and `while len(stack) > 0:` are the same test -/
theorem cond_len (s : OState) : decide (s.2.1.length > 0) = decide (s.2.1 ≠ []) := by
  rcases s with ⟨a, b, c⟩
  cases b <;> simp

theorem nodup_reverse' {l : List Nat} (h : l.Nodup) : l.reverse.Nodup := by
  unfold List.Nodup at *
  rw [List.pairwise_reverse]
  exact h.imp (fun h => Ne.symm h)

theorem fwd_closed : ∀ (P : List PCell), Fwd P → ∀ c ∈ P, ∀ r ∈ c.refs, r.key ∈ P.map PCell.key
  | [], _, c, hc, _, _ => by simp at hc
  | x :: rest, hf, c, hc, r, hr => by
    rcases List.mem_cons.1 hc with rfl | hc
    · exact List.mem_cons_of_mem _ (hf.1 r hr)
    · exact List.mem_cons_of_mem _ (fwd_closed rest hf.2 c hc r hr)

theorem valid_of_inv (root : PCell) (nc : NoCollision root) (s : OState) (inv : Inv root s) (he : s.2.1 = []) :
    ValidOrder root s.1.reverse := by
  obtain ⟨post, stack, vis⟩ := s
  dsimp only at he; subst he
  obtain ⟨_, i2, _, i4, i5, _, _, i8⟩ := inv
  dsimp only at i2 i4 i5 i8
  have hlast : post.getLast? = some root := by
    rcases i8 with h | h | h
    · simp at h
    · simp at h
    · exact h.2
  have hrootmem : root ∈ post.reverse := by
    rw [List.mem_reverse]; exact List.mem_of_getLast? hlast
  have hs : ∀ c ∈ post.reverse, c ∈ subcells root := fun c hc => i2 c (List.mem_reverse.1 hc)
  have hclosed := closed_subcells root nc post.reverse hs (fwd_closed _ i5) (psize root) root (Nat.le_refl _) hrootmem
  refine ⟨by rw [List.head?_reverse]; exact hlast, ?_, fun d hd => List.mem_map_of_mem (hclosed d hd), hs, Fwd.index _ i5⟩
  simp only [grayKeys, List.reverse_nil, List.filter_nil, List.map_nil, List.nil_append] at i4
  rw [List.map_reverse]
  exact nodup_reverse' i4

/-! ### the re-insertion loop -/

theorem foldl_moveToEnd_nodup : ∀ (xs : List PCell) (d : Py.KDict PCell Unit),
    (d.map (fun e => PCell.key e.1) ++ xs.map PCell.key).Nodup →
    xs.foldl (fun d c => moveToEnd PCell.key d c ()) d = d ++ xs.map (fun c => (c, ()))
  | [], d, _ => by simp
  | x :: xs, d, h => by
    have hx : Py.dictHas PCell.key d x = false := by
      cases hh : Py.dictHas PCell.key d x
      · rfl
      · have hm := (dictHas_iff PCell.key d x).1 hh
        rw [List.nodup_append] at h
        exact absurd rfl (h.2.2 _ hm _ (by simp))
    rw [List.foldl_cons]
    unfold moveToEnd
    rw [filter_absent PCell.key d x hx]
    have := foldl_moveToEnd_nodup xs (d ++ [(x, ())]) (by simpa [List.map_append, List.append_assoc] using h)
    unfold moveToEnd at this
    rw [this]; simp [List.append_assoc]

/-! ### the two loops of `Cell.order` with canonical bodies (generation independent) -/

/-- **any visiting order of the references gives a valid order**: whenever the function returns (every iteration budget), the
keys of the returned dict are, in iteration order, a `ValidOrder` of the root -/
theorem order_any_shape (ch : PCell → List PCell) (hperm : ∀ c, (ch c).Perm c.refs)
    (body : OState → Option OState) (step : Py.KDict PCell Unit → PCell → Option (Py.KDict PCell Unit))
    (cond : OState → Bool) (hcond : ∀ s, cond s = decide (s.2.1 ≠ []))
    (hb : ∀ s, body s = stepG ch s) (hs : ∀ d c, step d c = moveStep PCell.key () d c) (fuel : Nat) (p : PCell)
    (d : Py.KDict PCell Unit) (nc : NoCollision p)
    (h : ((Py.while? cond body fuel ([], [(p, false)], [])).bind fun x =>
      (List.foldlM step [] x.1.reverse).bind fun r => some r) = some d) :
    ValidOrder p (Py.dictKeys d) ∧ d = (Py.dictKeys d).map (fun c => (c, ())) := by
  have hc : cond = fun s : OState => decide (s.2.1 ≠ []) := funext hcond
  subst hc
  have hstep : step = moveStep PCell.key () := by funext d c; exact hs d c
  rw [hstep] at h
  cases hW : Py.while? (fun s : OState => decide (s.2.1 ≠ [])) body fuel ([], [(p, false)], []) with
  | none => rw [hW] at h; cases h
  | some s =>
    rw [hW] at h
    simp only [Option.bind_some, foldlM_moveStep, Option.some.injEq] at h
    obtain ⟨inv, he⟩ := while_inv ch hperm p nc body hb fuel _ s (inv_init p) hW
    have vo := valid_of_inv p nc s inv he
    have hd := foldl_moveToEnd_nodup s.1.reverse [] (by simpa using vo.nodup)
    rw [hd, List.nil_append] at h
    subst h
    have hk : Py.dictKeys (s.1.reverse.map (fun c => (c, ()))) = s.1.reverse := by
      simp [Py.dictKeys, Function.comp_def]
    rw [hk]
    exact ⟨vo, rfl⟩

/-- **the `while stack:` loop ends within `1 + n + e` iterations**: with `cells` = the distinct sub-cells (`n` of them, carrying
`e` references in total) the iteration budget `1 + n + e + 1` suffices and the function returns -/
theorem order_linear_shape (ch : PCell → List PCell) (hperm : ∀ c, (ch c).Perm c.refs)
    (body : OState → Option OState) (step : Py.KDict PCell Unit → PCell → Option (Py.KDict PCell Unit))
    (cond : OState → Bool) (hcond : ∀ s, cond s = decide (s.2.1 ≠ []))
    (hb : ∀ s, body s = stepG ch s) (hs : ∀ d c, step d c = moveStep PCell.key () d c) (fuel : Nat) (p : PCell)
    (nc : NoCollision p) (cells : List PCell) (hn : (cells.map PCell.key).Nodup) (hc : ∀ d ∈ subcells p, d ∈ cells)
    (hf : 1 + cells.length + (cells.map (fun c => c.refs.length)).sum + 1 ≤ fuel) :
    ∃ d, ((Py.while? cond body fuel ([], [(p, false)], [])).bind fun x =>
      (List.foldlM step [] x.1.reverse).bind fun r => some r) = some d := by
  have hcd : cond = fun s : OState => decide (s.2.1 ≠ []) := funext hcond
  subst hcd
  have hstep : step = moveStep PCell.key () := by funext d c; exact hs d c
  have hpot : potential cells ([], [(p, false)], []) = 1 + cells.length + (cells.map (fun c => c.refs.length)).sum := by
    have hfl : cells.filter (fun y => !Py.setHas PCell.key ([] : Py.KSet PCell) y) = cells :=
      List.filter_eq_self.2 (fun a _ => by simp [Py.setHas])
    simp only [potential, unvisitedSum, hfl, List.length_cons, List.length_nil]
    have : ∀ (l : List PCell), (l.map (fun y => 1 + y.refs.length)).sum = l.length + (l.map (fun c => c.refs.length)).sum := by
      intro l
      induction l with
      | nil => rfl
      | cons a l ih => simp only [List.map_cons, List.sum_cons, List.length_cons, ih]; omega
    rw [this]; omega
  obtain ⟨s, hW⟩ := while_terminates ch hperm p nc cells hn hc body hb fuel _ (inv_init p) (by rw [hpot]; exact hf)
  rw [hW, hstep]
  simp only [Option.bind_some, foldlM_moveStep]
  exact ⟨_, rfl⟩

/-! ### applied to the regenerated text -/
section Regenerated
open TonVerif.Generated.BocEmitSrc

/-- **`Cell.order` as regenerated returns a VALID ORDER** (root first, every distinct sub-cell exactly once, references strictly
forward), for every cell object and every iteration budget for which it returns, under the local no-collision hypothesis — proved
from the loop's own invariant, for whichever order (`cell.refs` or `reversed(cell.refs)`) the references are pushed in. -/
theorem src_order_valid_any (fuel : Nat) (p : PCell) (d : Py.KDict PCell Unit) (nc : NoCollision p)
    (h : order fuel p [] = some d) : ValidOrder p (Py.dictKeys d) ∧ d = (Py.dictKeys d).map (fun c => (c, ())) := by
  unfold order at h
  simp only [foldlM_append] at h
  first
  | exact order_any_shape PCell.refs (fun _ => List.Perm.refl _) _ _ _ (fun _ => rfl) (fun _ => rfl) (fun _ _ => rfl) fuel p d nc h
  | exact order_any_shape (fun c => c.refs.reverse) (fun c => List.reverse_perm _) _ _ _ (fun _ => rfl) (fun _ => rfl)
      (fun _ _ => rfl) fuel p d nc h
  | exact order_any_shape PCell.refs (fun _ => List.Perm.refl _) _ _ _ cond_len (fun _ => rfl) (fun _ _ => rfl) fuel p d nc h
  | exact order_any_shape (fun c => c.refs.reverse) (fun c => List.reverse_perm _) _ _ _ cond_len (fun _ => rfl)
      (fun _ _ => rfl) fuel p d nc h

/-- **the regenerated `while stack:` loop ends within `1 + n + e` iterations** on every DAG -/
theorem src_order_linear (fuel : Nat) (p : PCell) (nc : NoCollision p) (cells : List PCell)
    (hn : (cells.map PCell.key).Nodup) (hc : ∀ d ∈ subcells p, d ∈ cells)
    (hf : 1 + cells.length + (cells.map (fun c => c.refs.length)).sum + 1 ≤ fuel) : ∃ d, order fuel p [] = some d := by
  unfold order
  simp only [foldlM_append]
  first
  | exact order_linear_shape PCell.refs (fun _ => List.Perm.refl _) _ _ _ (fun _ => rfl) (fun _ => rfl) (fun _ _ => rfl)
      fuel p nc cells hn hc hf
  | exact order_linear_shape (fun c => c.refs.reverse) (fun c => List.reverse_perm _) _ _ _ (fun _ => rfl) (fun _ => rfl)
      (fun _ _ => rfl) fuel p nc cells hn hc hf
  | exact order_linear_shape PCell.refs (fun _ => List.Perm.refl _) _ _ _ cond_len (fun _ => rfl) (fun _ _ => rfl)
      fuel p nc cells hn hc hf
  | exact order_linear_shape (fun c => c.refs.reverse) (fun c => List.reverse_perm _) _ _ _ cond_len (fun _ => rfl)
      (fun _ _ => rfl) fuel p nc cells hn hc hf

end Regenerated

end TonVerif.Proofs.SrcOrderAny
