/-
Semantic layer of the strict reader over the records of a valid order of cells (second half, see Proofs/BocSem.lean):
`evalRecs` succeeds with the level-mask check passing on every record, `noDup` passes, and the root index denotes the
root cell — `strictParse_order`.
-/
import TonVerif.Proofs.BocSem
namespace TonVerif.Proofs.BocSem
open TonVerif TonVerif.Model TonVerif.Spec.Boc TonVerif.Proofs.BocOrder TonVerif.Proofs.BocEmit

/-- invariant rule for `foldlM` in `Option` -/
theorem foldlM_inv {α β : Type} (f : β → α → Option β) : ∀ (L : List α) (IV : Nat → β → Prop) (init : β), IV 0 init →
    (∀ (m : Nat) (acc : β) (hm : m < L.length), IV m acc → ∃ acc', f acc L[m] = some acc' ∧ IV (m + 1) acc') →
    ∃ fin, L.foldlM f init = some fin ∧ IV L.length fin
  | [], IV, init, h0, _ => ⟨init, by simp, h0⟩
  | x :: xs, IV, init, h0, step => by
    obtain ⟨acc', h1, h2⟩ := step 0 init (by simp) h0
    obtain ⟨fin, h3, h4⟩ := foldlM_inv f xs (fun m b => IV (m + 1) b) acc' h2 (by
      intro m acc hm hi
      have := step (m + 1) acc (by simp; omega) hi
      simpa using this)
    refine ⟨fin, ?_, h4⟩
    simp only [List.getElem_cons_zero] at h1
    simp [List.foldlM_cons, h1, h3]

theorem range5_getD (f : Nat → α) (d : α) (k : Nat) (hk : k ≤ 4) : ((List.range 5).map f).getD k d = f k := by
  have : k = 0 ∨ k = 1 ∨ k = 2 ∨ k = 3 ∨ k = 4 := by omega
  rcases this with rfl | rfl | rfl | rfl | rfl <;> rfl

/-- tabulating a stable spec info loses nothing -/
theorem toSInfo_tabulate (s : Spec.SInfo) (h : Stable s) : (tabulate s).toSInfo = s := by
  cases s with
  | mk mask hashAt depthAt =>
    simp only [tabulate, SVal.toSInfo, Spec.SInfo.mk.injEq, true_and]
    constructor
    · funext l
      rw [range5_getD _ _ _ (Nat.min_le_right l 4)]
      exact ((h l).1).symm
    · funext l
      rw [range5_getD _ _ _ (Nat.min_le_right l 4)]
      exact ((h l).2).symm

theorem tabulate_hash (s : Spec.SInfo) : (tabulate s).hash = s.hashAt 3 := by
  simp only [SVal.hash, tabulate]
  exact range5_getD _ _ 3 (by omega)

theorem sinfosOf_eq_map (H : Bytes → Bytes) : ∀ (cs : List PCell), sinfosOf H cs = cs.map (sinfoOf H)
  | [] => by simp [sinfosOf]
  | c :: cs => by simp [sinfosOf, sinfosOf_eq_map H cs]

theorem scellsOf_eq_map : ∀ (cs : List PCell), scellsOf cs = cs.map scellOf
  | [] => by simp [scellsOf]
  | c :: cs => by simp [scellsOf, scellsOf_eq_map cs]

theorem sinfoOf_eq (H : Bytes → Bytes) (c : PCell) :
    sinfoOf H c = Spec.node H (kindD c.info.kind) c.info.bits (c.refs.map (sinfoOf H)) := by
  cases c with
  | mk i refs => rw [sinfoOf, sinfosOf_eq_map]; rfl

theorem scellOf_eq (c : PCell) : scellOf c = SCell.mk (c.info.kind != kOrdinary) c.info.bits (c.refs.map scellOf) := by
  cases c with
  | mk i refs => rw [scellOf, scellsOf_eq_map]; rfl

/-- what the evaluation of a record produces for a cell -/
def entry (H : Bytes → Bytes) (c : PCell) : SVal × SCell := (tabulate (sinfoOf H c), scellOf c)


theorem kind_cases (H : Bytes → Bytes) (c : PCell) (sem : SemOK H c) :
    c.info.kind = -1 ∨ c.info.kind = 1 ∨ c.info.kind = 2 ∨ c.info.kind = 3 ∨ c.info.kind = 4 := by
  obtain ⟨k, hk⟩ := sem.kind_ok
  by_cases h0 : c.info.kind = -1
  · exact Or.inl h0
  by_cases h1 : c.info.kind = 1
  · exact Or.inr (Or.inl h1)
  by_cases h2 : c.info.kind = 2
  · exact Or.inr (Or.inr (Or.inl h2))
  by_cases h3 : c.info.kind = 3
  · exact Or.inr (Or.inr (Or.inr (Or.inl h3)))
  by_cases h4 : c.info.kind = 4
  · exact Or.inr (Or.inr (Or.inr (Or.inr h4)))
  simp [CellSpec.kindOf, h0, h1, h2, h3, h4] at hk

theorem d1_decode (c : PCell) (ok : CellOK c) :
    (cellD1 c.info.nrefs (c.info.kind != kOrdinary) c.info.mask / 8 % 2 == 1) = (c.info.kind != kOrdinary) ∧
    cellD1 c.info.nrefs (c.info.kind != kOrdinary) c.info.mask / 32 = c.info.mask := by
  have h1 := ok.nrefs; have h2 := ok.refs_le
  unfold cellD1
  cases (c.info.kind != kOrdinary) <;> simp <;> omega

theorem recKind_cell (H : Bytes → Bytes) (ord : List PCell) (c : PCell) (ok : CellOK c) (sem : SemOK H c) :
    recKind (cellSRec ord c) = some (kindD c.info.kind) := by
  obtain ⟨he, _⟩ := d1_decode c ok
  unfold recKind SRec.exotic
  simp only [cellSRec, he]
  rcases kind_cases H c sem with h | h | h | h | h
  · simp [h, kOrdinary, kindD, CellSpec.kindOf]
  all_goals
    have ht := (sem.typed (by rw [h]; decide)).2
    rw [h] at ht
    have ht' : natOfBits (List.take 8 c.info.bits) = _ := Int.ofNat.inj ht
    simp [h, kOrdinary, kindD, CellSpec.kindOf, ht']


/-- the facts about an order that the semantic layer uses -/
structure OrdOK (H : Bytes → Bytes) (ord : List PCell) : Prop where
  nodup : (ord.map PCell.key).Nodup
  /-- every referenced cell OBJECT sits at a later position -/
  refsAt : ∀ (i : Nat) (c : PCell), ord[i]? = some c → ∀ r ∈ c.refs, ∃ j, i < j ∧ ord[j]? = some r
  ok : ∀ c ∈ ord, CellOK c
  sem : ∀ c ∈ ord, SemOK H c

theorem mapM_map_eq {α β γ : Type} (p : α → β) (f : β → Option γ) (g : α → γ) : ∀ (l : List α),
    (∀ x ∈ l, f (p x) = some (g x)) → (l.map p).mapM f = some (l.map g)
  | [], _ => by simp
  | x :: xs, h => by
    have ih := mapM_map_eq p f g xs (fun y hy => h y (by simp [hy]))
    simp [List.mapM_cons, h x (by simp), ih]

theorem posOf_at (ord : List PCell) (nd : (ord.map PCell.key).Nodup) (j : Nat) (r : PCell) (h : ord[j]? = some r) :
    posOf ord r.key = j := by
  unfold posOf
  apply idxOf_of_getElem? _ nd
  simp [h]

theorem evalStep_cell (H : Bytes → Bytes) (ord : List PCell) (h : OrdOK H ord) (m : Nat) (hm : m < ord.length)
    (c : PCell) (hc : ord[ord.length - 1 - m]? = some c) (acc : Array (SVal × SCell))
    (hacc : acc.toList = (ord.reverse.take m).map (entry H)) :
    evalStep H ord.length acc (cellSRec ord c) = some (acc.push (entry H c)) := by
  have hcm : c ∈ ord := List.mem_of_getElem? hc
  have okc := h.ok c hcm
  have semc := h.sem c hcm
  obtain ⟨he, hmask⟩ := d1_decode c okc
  -- children
  have hkids : (c.refs.map (fun r => posOf ord r.key)).mapM
      (fun j => if j < ord.length then acc[ord.length - 1 - j]? else none) = some (c.refs.map (entry H)) := by
    apply mapM_map_eq
    intro r hr
    obtain ⟨j, hij, hj⟩ := h.refsAt _ c hc r hr
    have hjn : j < ord.length := by
      apply Nat.lt_of_not_le; intro hle
      rw [List.getElem?_eq_none hle] at hj; cases hj
    rw [posOf_at ord h.nodup j r hj]
    simp only [hjn, if_true]
    rw [← Array.getElem?_toList, hacc, List.getElem?_map, List.getElem?_take]
    have hlt : ord.length - 1 - j < m := by omega
    simp only [hlt, if_true]
    rw [List.getElem?_reverse (by omega)]
    rw [show ord.length - 1 - (ord.length - 1 - j) = j by omega, hj]
    rfl
  have hchild : ∀ r ∈ c.refs, (entry H r).1.toSInfo = sinfoOf H r := by
    intro r hr
    obtain ⟨j, _, hj⟩ := h.refsAt _ c hc r hr
    exact toSInfo_tabulate _ (h.sem r (List.mem_of_getElem? hj)).stable
  have hnode : Spec.node H (kindD c.info.kind) c.info.bits ((c.refs.map (entry H)).map (fun p => p.1.toSInfo)) = sinfoOf H c := by
    rw [sinfoOf_eq, List.map_map]
    congr 1
    apply List.map_congr_left
    intro r hr
    exact hchild r hr
  unfold evalStep
  simp only [show (cellSRec ord c).refs = c.refs.map (fun r => posOf ord r.key) from rfl, hkids, Option.bind_eq_bind,
    Option.bind_some, recKind_cell H ord c okc semc, show (cellSRec ord c).bits = c.info.bits from rfl, hnode]
  have hlm : (cellSRec ord c).levelMask = (sinfoOf H c).mask := by
    simp only [SRec.levelMask, cellSRec, hmask]
    exact semc.mask_eq
  have hex : (cellSRec ord c).exotic = (c.info.kind != kOrdinary) := by
    simp only [SRec.exotic, cellSRec, he]
  simp only [hlm, bne_self_eq_false, Bool.false_eq_true, if_false, hex, List.map_map]
  simp [entry, scellOf_eq c, Function.comp_def]


/-- the semantic evaluation of the emitted records succeeds and yields, for the record of each cell, the tabulated spec
values and the denoted cell of exactly that cell (records are evaluated last to first) -/
theorem evalRecs_order (H : Bytes → Bytes) (ord : List PCell) (h : OrdOK H ord) :
    evalRecs H (ord.map (cellSRec ord)) = some (ord.reverse.map (entry H)).toArray := by
  unfold evalRecs
  rw [List.length_map, ← List.map_reverse]
  obtain ⟨fin, h1, h2⟩ := foldlM_inv (evalStep H ord.length) (ord.reverse.map (cellSRec ord))
    (fun m acc => acc.toList = (ord.reverse.take m).map (entry H)) #[] (by simp) (by
      intro m acc hm hinv
      have hm' : m < ord.length := by simpa using hm
      have hmr : m < ord.reverse.length := by simpa using hm'
      have hc : ord[ord.length - 1 - m]? = some (ord.reverse[m]) := by
        have := List.getElem?_reverse (l := ord) (i := m) hm'
        rw [← this, List.getElem?_eq_getElem hmr]
      refine ⟨acc.push (entry H ord.reverse[m]), ?_, ?_⟩
      · rw [List.getElem_map]
        exact evalStep_cell H ord h m hm' _ hc acc hinv
      · rw [Array.toList_push, hinv, List.take_add_one, List.getElem?_eq_getElem hmr]
        simp)
  rw [h1]
  congr 1
  apply Array.ext'
  rw [h2]
  simp only [List.length_map, List.length_reverse]
  rw [List.take_of_length_le (by simp)]


theorem nodup_rev (l : List Nat) (h : l.Nodup) : l.reverse.Nodup := by
  unfold List.Nodup at *
  rw [List.pairwise_reverse]
  exact h.imp (fun h => Ne.symm h)

/-- from the byte-level result to the full strict reader: level masks check, no duplicates, the root denotes `root` -/
theorem strictParse_order (H : Bytes → Bytes) (ord : List PCell) (h : OrdOK H ord) (root : PCell)
    (hroot : ord.head? = some root) (bs : Bytes) (hflat : strictFlat bs = some ⟨ord.map (cellSRec ord), [0]⟩) :
    strictParse H bs = some [scellOf root] := by
  have hkeys : ((ord.reverse.map (entry H)).map (fun p => natOfBE p.1.hash)) = ord.reverse.map PCell.key := by
    rw [List.map_map]
    apply List.map_congr_left
    intro c hc
    have := (h.sem c (by simpa using hc)).key_eq
    simp [entry, tabulate_hash, this]
  have hnd : noDup ((ord.reverse.map (entry H)).map (fun p => natOfBE p.1.hash)) = true := by
    rw [hkeys, noDup_iff, List.map_reverse]
    exact nodup_rev _ h.nodup
  obtain ⟨rest, hord⟩ : ∃ rest, ord = root :: rest := by
    cases ord with
    | nil => simp at hroot
    | cons a l => simp at hroot; exact ⟨l, by rw [hroot]⟩
  unfold strictParse strictRun
  simp only [hflat, Option.bind_eq_bind, Option.bind_some, evalRecs_order H ord h, hnd, Bool.not_true, Bool.false_eq_true,
    if_false, Option.pure_def, List.mapM_cons, List.mapM_nil, List.length_map]
  have : (List.map (entry H) ord).reverse[ord.length - 1]? = some (entry H root) := by
    rw [List.getElem?_reverse (by rw [hord]; simp)]
    rw [hord]; simp
  simp only [List.map_reverse, List.getElem?_toArray, Nat.sub_zero] at this ⊢
  simp [this, entry]


mutual
  theorem subcells_trans : (p : PCell) → ∀ c ∈ subcells p, ∀ d ∈ subcells c, d ∈ subcells p
    | .mk i refs => by
      intro c hc d hd
      rw [subcells] at hc ⊢
      rcases List.mem_cons.1 hc with rfl | hc
      · rw [subcells] at hd; exact hd
      · exact List.mem_cons_of_mem _ (subcellsList_trans refs c hc d hd)
  theorem subcellsList_trans : (ps : List PCell) → ∀ c ∈ subcellsList ps, ∀ d ∈ subcells c, d ∈ subcellsList ps
    | [] => by intro c hc; simp [subcellsList] at hc
    | q :: qs => by
      intro c hc d hd
      rw [subcellsList] at hc ⊢
      rcases List.mem_append.1 hc with hc | hc
      · exact List.mem_append_left _ (subcells_trans q c hc d hd)
      · exact List.mem_append_right _ (subcellsList_trans qs c hc d hd)
end

theorem ref_mem_subcells (p c r : PCell) (hc : c ∈ subcells p) (hr : r ∈ c.refs) : r ∈ subcells p := by
  apply subcells_trans p c hc
  rw [subcells_eq]
  exact List.mem_cons_of_mem _ (mem_subcellsList_of_mem _ r hr)

/-- a valid order of cells that are `CellOK` and `SemOK` has everything the semantic layer needs -/
theorem ordOK_of_valid (H : Bytes → Bytes) (root : PCell) (ord : List PCell) (vo : ValidOrder root ord) (nc : NoCollision root)
    (ok : ∀ c ∈ subcells root, CellOK c) (sem : ∀ c ∈ subcells root, SemOK H c) : OrdOK H ord := by
  refine ⟨vo.nodup, ?_, fun c hc => ok c (vo.sound c hc), fun c hc => sem c (vo.sound c hc)⟩
  intro i c hc r hr
  obtain ⟨j, hij, hj⟩ := vo.forward i c hc r hr
  cases hq : ord[j]? with
  | none => simp [hq] at hj
  | some q =>
    refine ⟨j, hij, ?_⟩
    have hk : q.key = r.key := by simpa [hq] using hj
    have hqs : q ∈ subcells root := vo.sound q (List.mem_of_getElem? hq)
    have hrs : r ∈ subcells root := ref_mem_subcells root c r (vo.sound c (List.mem_of_getElem? hc)) hr
    rw [hq, nc q hqs r hrs hk]

end TonVerif.Proofs.BocSem
