/-
The objects the Merkle-proof checkers work on, built by the REGENERATED constructor (Generated/CellCtor.lean, `Cell.__init__`
re-translated from cell.py on every run): `srcPCell H c` constructs the tree `c` bottom-up exactly as `PCell.ofCell` does, with the
regenerated `init` in place of the hand model `construct`; `srcPCell_eq` carries every C11 theorem about `PCell.ofCell` over to it.
Generation dependent only through `src_construct_info` (Proofs/SrcCellCtor.lean).
-/
import TonVerif.Proofs.SrcCellCtor
import TonVerif.Model.Proof

namespace TonVerif.Proofs.SrcProofCtor
open TonVerif TonVerif.Model TonVerif.Generated.CellCtor TonVerif.Proofs.SrcCellCtor

mutual
  /-- the Python objects of a tree of cells, children first, every cell built by the regenerated `Cell.__init__` -/
  def srcPCell (H : Bytes → Bytes) : Cell → Option PCell
    | .mk kind bits refs => do
      let rs ← srcPCells H refs
      let i ← (init H bits (rs.map PCell.info) kind).map CtorOut.toInfo
      pure (.mk i rs)
  def srcPCells (H : Bytes → Bytes) : List Cell → Option (List PCell)
    | [] => some []
    | c :: cs => do
      let p ← srcPCell H c
      let ps ← srcPCells H cs
      pure (p :: ps)
end

mutual
  theorem srcPCell_eq (H : Bytes → Bytes) : ∀ c : Cell, srcPCell H c = PCell.ofCell H c
    | .mk kind bits refs => by
      rw [srcPCell, PCell.ofCell, srcPCells_eq H refs]
      simp only [src_construct_info]
  theorem srcPCells_eq (H : Bytes → Bytes) : ∀ cs : List Cell, srcPCells H cs = PCell.ofCells H cs
    | [] => by rw [srcPCells, PCell.ofCells]
    | c :: cs => by rw [srcPCells, PCell.ofCells, srcPCell_eq H c, srcPCells_eq H cs]
end

end TonVerif.Proofs.SrcProofCtor
