/-
`Generated.BocHeader.header` (regenerated on every run from `Boc.deserialize_boc_header`, pytoniq_core/boc/deserialize.py)
equals the hand model's header parser `Model.BocParse.deserializeBocHeader` on EVERY byte list.
-/
import TonVerif.Model.BocHeaderView
import TonVerif.Proofs.SrcBytes
import TonVerif.Proofs.BocHeaderPath

namespace TonVerif.Proofs.SrcBocHeader
open TonVerif TonVerif.Model TonVerif.Model.BocParse TonVerif.Generated.BocHeader
open TonVerif.Proofs.SrcBytes TonVerif.Proofs.BocHeaderPath

/-- the three magics of the source are the three magics of the hand model -/
theorem magic_generic : SERIALIZED_BOC_PREFIX = magicGeneric := by decide
theorem magic_idx : SERIALIZED_BOC_IDX_PREFIX = magicIdx := by decide
theorem magic_idx_crc : SERIALIZED_BOC_IDX_CRC32C = magicIdxCrc := by decide

/-- one field of the returned record: regenerated value = hand model value -/
macro "hdr_field0" : tactic =>
  `(tactic| first
      | rfl
      | decide
      | exact decide_eq_of_iff (and128 _)
      | exact decide_eq_of_iff (and64 _)
      | exact decide_eq_of_iff (and32 _)
      | (rw [decide_eq_of_iff (and128 _)]; assumption)
      | (rw [decide_eq_of_iff (and64 _)]; assumption)
      | (rw [decide_eq_of_iff (and32 _)]; assumption)
      | (rw [and16, and8])
      | exact map_range_uints _ _ _ _ _ _ (by omega) (by omega) (by omega)
      | exact congrArg some (map_range_uints _ _ _ _ _ _ (by omega) (by omega) (by omega))
      | exact map_range_uints' _ _ _ _ _ _ (by omega) (by omega) (by omega)
      | exact congrArg some (map_range_uints' _ _ _ _ _ _ (by omega) (by omega) (by omega))
      | (apply drop_take_congr <;> omega))

macro "hdr_field" : tactic =>
  `(tactic| first
      | hdr_field0
      | (simp only [Bool.false_eq_true, if_true, if_false, *] <;> hdr_field0))

/-- the accepted case: both sides are `some` of a record; compare entry by entry -/
macro "hdr_accept" : tactic =>
  `(tactic| (refine congrArg some ?_
             apply HeaderOut.eq_of <;> dsimp only [HeaderOut.ofModel] <;> hdr_field))

/-- a leaf of the case analysis: the context fixes one path of the hand model (facts of `Path`); unfold the regenerated
function (helpers and slices down to `List.take` / `List.drop` on both sides, so that the atoms of `omega` coincide) and
evaluate it along that path. -/
macro "hdr_leaf" d:term : tactic =>
  `(tactic| (unfold header
             simp only [bytes_to_uint, Py.slice, pySlice, magic_generic, magic_idx, magic_idx_crc, and7, and255, shiftRight_lit, shiftLeft_lit,
               Nat.reducePow] at *
             have h0 := getElem?_zero_of_lt (xs := $d) (by omega)
             leval
             first | rfl | hdr_accept))

/-- the facts of `Fixed`, with the values of the counters substituted; `a * b = b * a` for the two products the header
arithmetic contains (for `omega` they are different atoms, and the source may write either order) -/
macro "hdr_fixed" hx:ident fl:ident off:ident cells:ident roots:ident : tactic =>
  `(tactic| (have hcomm1 := Nat.mul_comm $off $cells
             have hcomm2 := Nat.mul_comm $roots ($fl).sizeBytes
             obtain ⟨hfl, hpre, hs, h5, hcells, hroots, habsent, htot⟩ := $hx
             subst hcells hroots habsent htot
             cases hfl))

set_option maxRecDepth 2000 in
theorem header_early (data : Bytes) (hp : PathEarly data) : header data = none := by
  cases hp with
  | short h => unfold header; leval; rfl
  | badMagic h h1 h2 h3 => hdr_leaf data
  | noFlag h h4 =>
    by_cases h1 : pySlice data 0 4 = magicGeneric
    · hdr_leaf data
    · by_cases h2 : pySlice data 0 4 = magicIdx
      · hdr_leaf data
      · by_cases h3 : pySlice data 0 4 = magicIdxCrc
        · hdr_leaf data
        · hdr_leaf data
  | pre hfl h =>
    cases hfl <;> dsimp only at * <;>
      (have hl4 := lt_length_of_getElem?_eq_some ‹data[4]? = _›
       hdr_leaf data)
  | size0 hfl hpre h5 hs => cases hfl <;> dsimp only at * <;> hdr_leaf data
  | @rootsShort fl off cells roots absent tot hx hg h => hdr_fixed hx fl off cells roots <;> dsimp only at * <;> first | contradiction | hdr_leaf data
  | @rootsNe1 fl off cells roots absent tot hx hg h => hdr_fixed hx fl off cells roots <;> dsimp only at * <;> first | contradiction | hdr_leaf data
  | @idxShort fl off cells roots absent tot rlen rl hx hr hi h => hdr_fixed hx fl off cells roots <;> cases hr <;> dsimp only at * <;> first | contradiction | hdr_leaf data
  | @off0 fl off cells roots absent tot rlen rl hx hr hi h h0 => hdr_fixed hx fl off cells roots <;> cases hr <;> dsimp only at * <;> first | contradiction | hdr_leaf data

set_option maxRecDepth 2000 in
theorem header_mid (data : Bytes) (hp : PathMid data) : header data = none := by
  cases hp with
  | @totShort fl off cells roots absent tot rlen rl ilen ix hx hr hix h =>
    hdr_fixed hx fl off cells roots <;> cases hr <;> cases hix <;> dsimp only at * <;> first | contradiction | hdr_leaf data
  | @crcShort fl off cells roots absent tot rlen rl ilen ix hx hr hix ht hc h =>
    hdr_fixed hx fl off cells roots <;> cases hr <;> cases hix <;> dsimp only at * <;> first | contradiction | hdr_leaf data
  | @crcNone fl off cells roots absent tot rlen rl ilen ix hx hr hix ht hc h hcrc =>
    hdr_fixed hx fl off cells roots <;> cases hr <;> cases hix <;> dsimp only at * <;> first | contradiction | hdr_leaf data
  | @crcBad fl off cells roots absent tot rlen rl ilen ix hx hr hix ht hc h c hcrc hne =>
    hdr_fixed hx fl off cells roots <;> cases hr <;> cases hix <;> dsimp only at * <;> first | contradiction | hdr_leaf data

set_option maxRecDepth 2000 in
theorem header_end (data : Bytes) (v : Option Header) (hp : PathEnd data v) : header data = v.map HeaderOut.ofModel := by
  cases hp with
  | @trailing fl off cells roots absent tot rlen rl ilen ix clen hx hr hix ht hc h =>
    hdr_fixed hx fl off cells roots <;> cases hr <;> cases hix <;> cases hc <;> dsimp only at * <;> first | contradiction | hdr_leaf data
  | @accept fl off cells roots absent tot rlen rl ilen ix clen hx hr hix ht hc h =>
    hdr_fixed hx fl off cells roots <;> cases hr <;> cases hix <;> cases hc <;> dsimp only at * <;> first | contradiction | hdr_leaf data

theorem header_of_path (data : Bytes) (v : Option Header) (hp : Path data v) : header data = v.map HeaderOut.ofModel := by
  cases hp with
  | early h => exact header_early data h
  | mid h => exact header_mid data h
  | final h => exact header_end data v h

/-- **the regenerated header parser is the hand model's header parser**, for every byte list: same accept / reject
decision, and on acceptance the same `has_idx`, `hash_crc32`, `has_cache_bits` (as truth values), `flags`, `size_bytes`,
`offset_bytes`, `cells_num`, `roots_num`, `absent_num`, `tot_cells_size`, `root_list`, `index` (`None` exactly without
index) and `cells_data`. -/
theorem src_header_eq_model (data : Bytes) : header data = (deserializeBocHeader data).map HeaderOut.ofModel :=
  header_of_path data _ (model_path data)

end TonVerif.Proofs.SrcBocHeader
