/-
BYTES FED TO SHA-256 by the regenerated cell constructor (Generated/CellCtor.lean, tied to `Model.construct` for all inputs by
`c02_src_constructor`):
  * `hashStep_pre`   : one level iteration applies `H` at most once, to the string `hashPre` (which does not depend on `H`);
  * `hashPre_len`    : that string is `2 + (data bytes | previous hash) + len(refs)·(2 + child hash)` bytes long;
  * `fold_agree`     : two hash functions that agree on every string of at most that length give the same constructor result
                       (so `H` is never applied to anything longer);
  * `fold_inputs`    : the list of SHA inputs of one call (`_hashes = inputs.map H`), one per hash, each within the bound.
-/
import TonVerif.Generated.CellCtor
import TonVerif.Proofs.SrcCellCtor
import TonVerif.Proofs.SrcCtorCnt
import TonVerif.Proofs.CellSpec
import TonVerif.Proofs.Merkle

set_option linter.unusedSimpArgs false
set_option linter.unusedVariables false
namespace TonVerif.Proofs.SrcCtorBytes
open TonVerif TonVerif.Model

/-- the byte string one level iteration of `calculate_hashes` feeds to `hashlib.sha256` and the depth it records; `none` = the iteration raises.
No hash function occurs in it: the previous level's hash is read from the state. -/
def hashPre (kind : Int) (bits : Bits) (refs : List CellInfo) (mask offset : Nat) (st : HashState) (li : Nat) : Option (Bytes × Nat) :=
  (descriptors refs.length (kind != kOrdinary) bits.length (maskApply mask li)).bind fun dsc =>
  (if st.hashIndex == offset then
      (if li != 0 && kind != kPruned then none else some (dataBytes bits))
    else
      (if li == 0 || kind == kPruned then none else st.hashes[st.hashIndex - offset - 1]?)).bind fun payload =>
  let childLvl := if isMerkle kind then li + 1 else li
  (refs.mapM (fun (r : CellInfo) => r.getDepth childLvl)).bind fun refDepths =>
  (refDepths.mapM (toBytesBE? 2)).bind fun depthBytes =>
  let depth0 := refDepths.foldl (fun d x => if x > d then x else d) 0
  (if refs.length > 0 then (if depth0 + 1 >= 1024 then none else some (depth0 + 1)) else some depth0).bind fun depth =>
  (refs.mapM (fun (r : CellInfo) => r.getHash childLvl)).bind fun refHashes =>
  some (dsc ++ payload ++ depthBytes.flatten ++ refHashes.flatten, depth)

theorem bind_ite' {α β : Type} (c : Prop) [Decidable c] (x y : Option α) (k : α → Option β) :
    (if c then x else y).bind k = if c then x.bind k else y.bind k := by split <;> rfl

theorem map_bind' {α β γ : Type} (f : β → γ) (x : Option α) (g : α → Option β) :
    (x.bind g).map f = x.bind (fun a => (g a).map f) := by cases x <;> rfl

theorem map_ite' {α β : Type} (f : α → β) (c : Prop) [Decidable c] (x y : Option α) :
    (if c then x else y).map f = if c then x.map f else y.map f := by split <;> rfl

theorem hashStep_pre (H : Bytes → Bytes) (kind : Int) (bits : Bits) (refs : List CellInfo) (mask offset : Nat) (st : HashState) (li : Nat) :
    hashStep H kind bits refs mask offset st li =
      if !isSignificant mask li then some st
      else if st.hashIndex < offset then some { st with hashIndex := st.hashIndex + 1 }
      else (hashPre kind bits refs mask offset st li).map fun p =>
        { hashIndex := st.hashIndex + 1, hashes := st.hashes ++ [H p.1], depths := st.depths ++ [p.2] } := by
  unfold hashStep hashPre
  split
  · rfl
  split
  · rfl
  simp only [bind, pure, map_bind', map_ite', bind_ite', Option.map_some]

theorem natToBE_len : ∀ (w v : Nat), (natToBE w v).length = w
  | 0, _ => by simp [natToBE]
  | w + 1, v => by simp [natToBE, natToBE_len w]

theorem toBytesBE_len (w v : Nat) (b : Bytes) (h : toBytesBE? w v = some b) : b.length = w := by
  unfold toBytesBE? at h
  split at h
  · simp only [Option.some.injEq] at h; rw [← h]; exact natToBE_len w v
  · simp at h

theorem descriptors_len (n : Nat) (e : Bool) (bl m : Nat) (b : Bytes) (h : descriptors n e bl m = some b) : b.length = 2 := by
  unfold descriptors at h
  simp only [bind, pure, Option.bind_eq_some_iff] at h
  obtain ⟨a, ha, c, hc, h⟩ := h
  simp only [Option.some.injEq] at h
  rw [← h, List.length_append, toBytesBE_len _ _ _ ha, toBytesBE_len _ _ _ hc]

theorem flatten_len_le (B : Nat) : ∀ (xs : List Bytes), (∀ x ∈ xs, x.length ≤ B) → xs.flatten.length ≤ B * xs.length
  | [], _ => by simp
  | x :: xs, h => by
    have := flatten_len_le B xs (fun y hy => h y (by simp [hy]))
    have := h x (by simp)
    simp only [List.flatten_cons, List.length_append, List.length_cons]
    rw [Nat.mul_succ]; omega

theorem mapM_all {β γ : Type} (f : β → Option γ) (P : γ → Prop) : ∀ (xs : List β) (ys : List γ), xs.mapM f = some ys →
    (∀ x ∈ xs, ∀ y, f x = some y → P y) → ∀ y ∈ ys, P y
  | [], ys, h, _ => by simp at h; subst h; simp
  | x :: xs, ys, h, hp => by
    simp only [List.mapM_cons, bind, pure, Option.bind_eq_some_iff] at h
    obtain ⟨y, hy, ys', hys, h⟩ := h
    simp only [Option.some.injEq] at h
    subst h
    intro z hz
    rcases List.mem_cons.1 hz with rfl | hz
    · exact hp x (by simp) _ hy
    · exact mapM_all f P xs ys' hys (fun a ha => hp a (by simp [ha])) z hz

theorem mapM_len {β γ : Type} (f : β → Option γ) : ∀ (xs : List β) (ys : List γ), xs.mapM f = some ys → ys.length = xs.length
  | [], ys, h => by simp at h; subst h; rfl
  | x :: xs, ys, h => by
    simp only [List.mapM_cons, bind, pure, Option.bind_eq_some_iff] at h
    obtain ⟨y, _, ys', hys, h⟩ := h
    simp only [Option.some.injEq] at h
    subst h
    simp [mapM_len f xs ys' hys]

/-- `get_hash` of a child returns at most 32 bytes when the child's stored hashes do (a pruned branch slices 32 bytes out of its data) -/
theorem getHash_len (c : CellInfo) (l : Nat) (h : Bytes) (hc : ∀ x ∈ c.hashes, x.length ≤ 32) (hh : c.getHash l = some h) : h.length ≤ 32 := by
  unfold CellInfo.getHash at hh
  simp only at hh
  split at hh
  · split at hh
    · simp only [Option.some.injEq] at hh
      rw [← hh]; unfold pySlice
      simp only [List.length_drop, List.length_take]
      omega
    · exact hc h (List.mem_of_getElem? hh)
  · exact hc h (List.mem_of_getElem? hh)

/-- the per-level bound: 2 descriptor bytes + the data bytes or a previous 32-byte hash + (2 + 32) per reference -/
def levelBound (bits : Bits) (refs : List CellInfo) : Nat := 2 + max (dataBytes bits).length 32 + 34 * refs.length

theorem hashPre_len (kind : Int) (bits : Bits) (refs : List CellInfo) (mask offset : Nat) (st : HashState) (li : Nat) (p : Bytes × Nat)
    (hst : ∀ x ∈ st.hashes, x.length ≤ 32) (hr : ∀ r ∈ refs, ∀ x ∈ r.hashes, x.length ≤ 32)
    (h : hashPre kind bits refs mask offset st li = some p) : p.1.length ≤ levelBound bits refs := by
  unfold hashPre at h
  simp only [bind, pure, Option.bind_eq_some_iff] at h
  obtain ⟨dsc, hdsc, payload, hpay, rd, hrd, db, hdb, depth, _, rh, hrh, h⟩ := h
  simp only [Option.some.injEq] at h
  rw [← h]
  have h1 := descriptors_len _ _ _ _ _ hdsc
  have h2 : payload.length ≤ max (dataBytes bits).length 32 := by
    split at hpay
    · split at hpay
      · simp at hpay
      · simp only [Option.some.injEq] at hpay; rw [← hpay]; omega
    · split at hpay
      · simp at hpay
      · have := hst payload (List.mem_of_getElem? hpay); omega
  have h3 : db.flatten.length ≤ 2 * db.length :=
    flatten_len_le 2 db (mapM_all _ (fun y => y.length ≤ 2) rd db hdb (fun x _ y hy => by rw [toBytesBE_len _ _ _ hy]; exact Nat.le_refl 2))
  have h4 : rh.flatten.length ≤ 32 * rh.length :=
    flatten_len_le 32 rh (mapM_all _ (fun y => y.length ≤ 32) refs rh hrh (fun r hr' y hy => getHash_len r _ y (hr r hr') hy))
  have h5 := mapM_len _ _ _ hrd
  have h6 := mapM_len _ _ _ hdb
  have h7 := mapM_len _ _ _ hrh
  show (dsc ++ payload ++ db.flatten ++ rh.flatten).length ≤ levelBound bits refs
  simp only [List.length_append, levelBound]
  omega

/-- invariant of the level loop: what `_hashes` holds are outputs of `H` (≤ 32 bytes), one per SHA input in `ins`, each input within the bound -/
structure Inv (H : Bytes → Bytes) (B : Nat) (st : HashState) (ins : List Bytes) : Prop where
  eq : st.hashes = ins.map H
  len : ∀ p ∈ ins, p.length ≤ B

theorem inv_hashes_len (H : Bytes → Bytes) (hH : ∀ b, (H b).length ≤ 32) (B : Nat) (st : HashState) (ins : List Bytes) (hi : Inv H B st ins) :
    ∀ x ∈ st.hashes, x.length ≤ 32 := by
  intro x hx
  rw [hi.eq] at hx
  obtain ⟨p, _, rfl⟩ := List.mem_map.1 hx
  exact hH p

/-- the level loop from any state satisfying the invariant: the final `_hashes` are `H` of a list of inputs that extends the given one by at most
one entry per iteration, each within the bound; and a hash function `G` that agrees with `H` on all strings within the bound gives the same run. -/
theorem fold_inputs (H G : Bytes → Bytes) (hH : ∀ b, (H b).length ≤ 32) (kind : Int) (bits : Bits) (refs : List CellInfo) (mask offset : Nat)
    (hr : ∀ r ∈ refs, ∀ x ∈ r.hashes, x.length ≤ 32) (hG : ∀ b, b.length ≤ levelBound bits refs → G b = H b) :
    ∀ (ls : List Nat) (st : HashState) (ins : List Bytes), Inv H (levelBound bits refs) st ins →
      ls.foldlM (hashStep G kind bits refs mask offset) st = ls.foldlM (hashStep H kind bits refs mask offset) st ∧
      ∀ st', ls.foldlM (hashStep H kind bits refs mask offset) st = some st' →
        ∃ more, Inv H (levelBound bits refs) st' (ins ++ more) ∧ more.length ≤ ls.length
  | [], st, ins, hi => by
    refine ⟨rfl, fun st' h => ?_⟩
    simp only [List.foldlM_nil, pure, Option.some.injEq] at h
    subst h
    exact ⟨[], by simpa using hi, by simp⟩
  | li :: ls, st, ins, hi => by
    simp only [List.foldlM_cons, bind]
    rw [hashStep_pre G, hashStep_pre H]
    by_cases h1 : (!isSignificant mask li) = true
    · simp only [h1, if_true, Option.bind_some]
      obtain ⟨a, b⟩ := fold_inputs H G hH kind bits refs mask offset hr hG ls st ins hi
      refine ⟨a, fun st' h => ?_⟩
      obtain ⟨more, hm, hl⟩ := b st' h
      exact ⟨more, hm, by simp only [List.length_cons]; omega⟩
    simp only [h1, Bool.false_eq_true, if_false]
    by_cases h2 : st.hashIndex < offset
    · simp only [h2, if_true, Option.bind_some]
      have hi' : Inv H (levelBound bits refs) { st with hashIndex := st.hashIndex + 1 } ins := ⟨hi.eq, hi.len⟩
      obtain ⟨a, b⟩ := fold_inputs H G hH kind bits refs mask offset hr hG ls _ ins hi'
      refine ⟨a, fun st' h => ?_⟩
      obtain ⟨more, hm, hl⟩ := b st' h
      exact ⟨more, hm, by simp only [List.length_cons]; omega⟩
    simp only [h2, if_false]
    cases hp : hashPre kind bits refs mask offset st li with
    | none => simp
    | some p =>
      have hlen := hashPre_len kind bits refs mask offset st li p (inv_hashes_len H hH _ st ins hi) hr hp
      simp only [Option.map_some, Option.bind_some, hG p.1 hlen]
      have hi' : Inv H (levelBound bits refs)
          { hashIndex := st.hashIndex + 1, hashes := st.hashes ++ [H p.1], depths := st.depths ++ [p.2] } (ins ++ [p.1]) :=
        ⟨by simp [hi.eq], fun q hq => by
          rcases List.mem_append.1 hq with hq | hq
          · exact hi.len q hq
          · simp only [List.mem_singleton] at hq; rw [hq]; exact hlen⟩
      obtain ⟨a, b⟩ := fold_inputs H G hH kind bits refs mask offset hr hG ls _ _ hi'
      refine ⟨a, fun st' h => ?_⟩
      obtain ⟨more, hm, hl⟩ := b st' h
      refine ⟨p.1 :: more, by simpa using hm, by simp only [List.length_cons]; omega⟩

/-- one call of the hand model `construct` (= the regenerated `Cell.__init__`, `c02_src_constructor`) -/
theorem construct_inputs (H G : Bytes → Bytes) (hH : ∀ b, (H b).length ≤ 32) (kind : Int) (bits : Bits) (refs : List CellInfo)
    (hr : ∀ r ∈ refs, ∀ x ∈ r.hashes, x.length ≤ 32) (hG : ∀ b, b.length ≤ levelBound bits refs → G b = H b) :
    construct G kind bits refs = construct H kind bits refs ∧
    ∀ out, construct H kind bits refs = some out →
      ∃ ins : List Bytes, out.hashes = ins.map H ∧ ins.length ≤ bitLength out.mask + 1 ∧ ∀ p ∈ ins, p.length ≤ levelBound bits refs := by
  unfold construct
  simp only [bind, pure]
  cases hm : resolveMask kind bits refs with
  | none => simp
  | some mask =>
    simp only [Option.bind_some]
    obtain ⟨a, b⟩ := fold_inputs H G hH kind bits refs mask
      (popcount mask + 1 - (if kind == kPruned then 1 else popcount mask + 1)) hr hG (List.range (bitLength mask + 1)) ⟨0, [], []⟩ []
      ⟨rfl, by simp⟩
    refine ⟨by rw [a], fun out h => ?_⟩
    simp only [Option.bind_eq_some_iff] at h
    obtain ⟨st', hst, _, _, _, _, h⟩ := h
    simp only [Option.some.injEq] at h
    obtain ⟨more, hi, hl⟩ := b st' hst
    rw [← h]
    refine ⟨more, by simpa using hi.eq, by simpa using hl, fun p hp => hi.len p (by simpa using hp)⟩

theorem levelBound_le (bits : Bits) (refs : List CellInfo) (hb : bits.length ≤ 1023) (hd : refs.length ≤ 4) : levelBound bits refs ≤ 266 := by
  unfold levelBound
  rw [CellSpec.dataBytes_eq, Merkle.length_dataBytes]
  omega

theorem sum_len_le (B : Nat) : ∀ (ins : List Bytes), (∀ p ∈ ins, p.length ≤ B) → (ins.map List.length).sum ≤ ins.length * B
  | [], _ => by simp
  | x :: xs, h => by
    have := sum_len_le B xs (fun y hy => h y (by simp [hy]))
    have := h x (by simp)
    simp only [List.map_cons, List.sum_cons, List.length_cons, Nat.succ_mul]
    omega

/-- a returning call of the regenerated constructor is a returning call of the hand model with the same `_hashes` and mask (`src_construct_eq_model`) -/
theorem init_construct (H : Bytes → Bytes) (bits : Bits) (refs : List CellInfo) (ty : Int) (out : Generated.CellCtor.CtorOut)
    (h : Generated.CellCtor.init H bits refs ty = some out) : ∃ i, construct H ty bits refs = some i ∧ i.hashes = out.hashes ∧ i.mask = out.mask := by
  rw [SrcCellCtor.src_construct_eq_model] at h
  cases hc : construct H ty bits refs with
  | none => rw [hc] at h; simp at h
  | some i =>
    rw [hc] at h
    simp only [Option.map_some, Option.some.injEq] at h
    exact ⟨i, rfl, by rw [← h]; rfl, by rw [← h]; rfl⟩

end TonVerif.Proofs.SrcCtorBytes
