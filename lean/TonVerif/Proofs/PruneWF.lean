/-
Validity of the pruned tree (C02 second half / C11 completeness): if `t` is spec-valid (`TreeWF`) and lives at
Merkle depth `d ≥ 1` with no level above its Merkle nesting (`mask t < 2^(d-1)`, i.e. level 0 for `d = 1`), then
every pruning `t'` of it (`PruneRel H d t t'`) is spec-valid again, hence constructible, and at EVERY level its depth
is at most that of `t` (pruning never deepens a tree).

Why the depth bound needs an argument: `NodeWF.depthOk` speaks about all levels, while pruning invariance only gives
equality below `d`; a kept cell over new pruned branches gains the significant level `d`, where the new pruned
branches count with depth 0 and the kept children with their depth at a level that is insignificant for them.
-/
import TonVerif.Proofs.Binding

namespace TonVerif.Proofs.PruneWF
open TonVerif TonVerif.Model TonVerif.Proofs.CellSpec TonVerif.Proofs.Prune TonVerif.Proofs.Merkle TonVerif.Proofs.Binding

set_option linter.unusedSimpArgs false
set_option linter.unusedVariables false

/-! ### depth at a level = depth over the children at the highest significant level below -/

theorem plainDepthAt_top (k : Spec.Kind) (ss : List Spec.SInfo) (m : Nat) :
    ∀ l, ∃ L, L ≤ l ∧ sigB m L = true ∧ (∀ j, L ≤ j → j < l → m.testBit j = false) ∧
      Spec.plainDepthAt k ss m l = Spec.depthOver ss (L + k.mu) := by
  intro l
  induction l with
  | zero => exact ⟨0, Nat.le_refl _, sigB_zero m, fun j h1 h2 => by omega, rfl⟩
  | succ l ih =>
    by_cases htb : m.testBit l = true
    · refine ⟨l+1, Nat.le_refl _, by rw [sigB_succ]; exact htb, fun j h1 h2 => by omega, ?_⟩
      simp only [Spec.plainDepthAt, htb, if_true]
    · have htb' : m.testBit l = false := by simpa using htb
      obtain ⟨L, h1, h2, h3, h4⟩ := ih
      refine ⟨L, by omega, h2, ?_, ?_⟩
      · intro j hj1 hj2
        by_cases hjl : j = l
        · subst hjl; exact htb'
        · exact h3 j hj1 (by omega)
      · simp only [Spec.plainDepthAt, htb', Bool.false_eq_true, if_false]; exact h4

/-- the depth only changes at significant levels -/
def DepthMono (s : Spec.SInfo) : Prop := ∀ j, s.mask.testBit j = false → s.depthAt (j+1) = s.depthAt j

theorem node_mask (H : Bytes → Bytes) (k : Spec.Kind) (bits : Bits) (ss : List Spec.SInfo) :
    (Spec.node H k bits ss).mask = Spec.nodeMask k bits ss := by
  cases k <;> rfl

theorem node_depthMono (H : Bytes → Bytes) (k : Spec.Kind) (bits : Bits) (ss : List Spec.SInfo) :
    DepthMono (Spec.node H k bits ss) := by
  intro j hj
  rw [node_mask] at hj
  by_cases hp : k = .pruned
  · subst hp
    show Spec.prunedDepthAt bits (Spec.nodeMask .pruned bits ss) (j+1) = Spec.prunedDepthAt bits (Spec.nodeMask .pruned bits ss) j
    have := popcount_mod_succ j (Spec.nodeMask .pruned bits ss)
    rw [hj] at this
    simp only [Bool.false_eq_true, if_false, Nat.add_zero] at this
    rw [popcount_eq, popcount_eq] at this
    simp only [Spec.prunedDepthAt, this]
  · rw [node_plain H k bits ss hp]
    show Spec.plainDepthAt k ss (Spec.nodeMask k bits ss) (j+1) = Spec.plainDepthAt k ss (Spec.nodeMask k bits ss) j
    simp only [Spec.plainDepthAt, hj, Bool.false_eq_true, if_false]

theorem depth_const (s : Spec.SInfo) (hm : DepthMono s) (a : Nat) :
    ∀ b, a ≤ b → (∀ x, a ≤ x → x < b → s.mask.testBit x = false) → s.depthAt b = s.depthAt a := by
  intro b
  induction b with
  | zero => intro h _; have : a = 0 := by omega
            subst this; rfl
  | succ b ih =>
    intro h hc
    by_cases hab : a = b + 1
    · subst hab; rfl
    · rw [hm b (hc b (by omega) (by omega))]
      exact ih (by omega) (fun x h1 h2 => hc x h1 (by omega))

theorem specInfo_mono (H : Bytes → Bytes) : ∀ (c : Cell) (s : Spec.SInfo), specInfo H c = some s → DepthMono s
  | .mk kind bits refs, s, h => by
    obtain ⟨k, ss, _, _, rfl⟩ := specInfo_mk H kind bits refs s h
    exact node_depthMono H k bits ss

theorem specInfos_mono (H : Bytes → Bytes) : ∀ (cs : List Cell) (ss : List Spec.SInfo), specInfos H cs = some ss →
    ∀ c ∈ ss, DepthMono c := by
  intro cs
  induction cs with
  | nil => intro ss hs; simp only [specInfos, Option.some.injEq] at hs; subst hs; simp
  | cons c cs ih =>
    intro ss hs
    obtain ⟨s, ss0, h1, h2, rfl⟩ := specInfos_cons H c cs ss hs
    intro x hx
    rcases List.mem_cons.mp hx with rfl | hx
    · exact specInfo_mono H c x h1
    · exact ih ss0 h2 x hx

/-! ### mask bits of the children -/

theorem foldl_or_clear : ∀ (ss : List Spec.SInfo) (a j : Nat),
    (ss.foldl (fun m c => m ||| c.mask) a).testBit j = false → a.testBit j = false ∧ ∀ c ∈ ss, c.mask.testBit j = false
  | [], a, j, h => ⟨h, by simp⟩
  | c :: cs, a, j, h => by
    simp only [List.foldl_cons] at h
    obtain ⟨h1, h2⟩ := foldl_or_clear cs (a ||| c.mask) j h
    rw [Nat.testBit_or] at h1
    simp only [Bool.or_eq_false_iff] at h1
    refine ⟨h1.1, ?_⟩
    intro x hx
    rcases List.mem_cons.mp hx with rfl | hx
    · exact h1.2
    · exact h2 x hx

/-- a level that is insignificant for a non-pruned cell is insignificant (one level up below Merkle cells) for all its children -/
theorem kid_bit_clear (k : Spec.Kind) (bits : Bits) (ss : List Spec.SInfo) (j : Nat) (np : k ≠ .pruned)
    (hlib : k = .library → ss = []) (h : (Spec.nodeMask k bits ss).testBit j = false) :
    ∀ c ∈ ss, c.mask.testBit (j + k.mu) = false := by
  cases k with
  | ordinary => exact (foldl_or_clear ss 0 j h).2
  | pruned => exact absurd rfl np
  | library => rw [hlib rfl]; simp
  | merkleProof =>
    simp only [Spec.nodeMask] at h
    rw [← Nat.testBit_succ] at h
    exact (foldl_or_clear ss 0 (j+1) h).2
  | merkleUpdate =>
    simp only [Spec.nodeMask] at h
    rw [← Nat.testBit_succ] at h
    exact (foldl_or_clear ss 0 (j+1) h).2

theorem kid_level (k : Spec.Kind) (bits : Bits) (ss : List Spec.SInfo) (n : Nat) (np : k ≠ .pruned)
    (hlib : k = .library → ss = []) (h : Spec.nodeMask k bits ss < 2 ^ n) : ∀ c ∈ ss, c.mask < 2 ^ (n + k.mu) := by
  intro c hc
  apply Nat.lt_pow_two_of_testBit
  intro i hi
  have e : i = (i - k.mu) + k.mu := by omega
  rw [e]
  apply kid_bit_clear k bits ss (i - k.mu) np hlib _ c hc
  exact Nat.testBit_lt_two_pow (Nat.lt_of_lt_of_le h (Nat.pow_le_pow_right (by decide) (by omega)))

/-! ### pointwise depth comparison of children lists -/

def LeList : List Spec.SInfo → List Spec.SInfo → Prop
  | [], [] => True
  | s' :: ss', s :: ss => (∀ l, s'.depthAt l ≤ s.depthAt l) ∧ LeList ss' ss
  | _, _ => False

theorem natmax (a b : Nat) : Nat.max a b = max a b := rfl

theorem LeList.maxle : ∀ {ss' ss}, LeList ss' ss → ∀ (x a b : Nat), a ≤ b →
    (ss'.map (fun c => c.depthAt x)).foldl Nat.max a ≤ (ss.map (fun c => c.depthAt x)).foldl Nat.max b
  | [], [], _, _, _, _, h => h
  | s' :: ss', s :: ss, h, x, a, b, hab => by
    simp only [List.map_cons, List.foldl_cons]
    apply LeList.maxle h.2
    have := h.1 x
    rw [natmax, natmax]
    omega
  | [], _ :: _, h, _, _, _, _ => h.elim
  | _ :: _, [], h, _, _, _, _ => h.elim

theorem LeList.depthOver_le {ss' ss : List Spec.SInfo} (h : LeList ss' ss) (x : Nat) :
    Spec.depthOver ss' x ≤ Spec.depthOver ss x := by
  cases ss' with
  | nil => cases ss with
    | nil => exact Nat.le_refl _
    | cons _ _ => exact h.elim
  | cons a as => cases ss with
    | nil => exact h.elim
    | cons b bs =>
      have := LeList.maxle h x 0 0 (Nat.le_refl _)
      simp only [Spec.depthOver, List.isEmpty_cons, Bool.false_eq_true, if_false, Spec.maxList]
      omega

theorem testBit_of_mod_eq_lt {a b n j : Nat} (h : a % 2 ^ n = b % 2 ^ n) (hj : j < n) : a.testBit j = b.testBit j := by
  have h1 := Nat.testBit_mod_two_pow a n j
  have h2 := Nat.testBit_mod_two_pow b n j
  simp only [hj, decide_true, Bool.true_and] at h1 h2
  rw [← h1, ← h2, h]

/-! ### a kept cell over pruned children is not deeper, at any level -/

theorem node_depth_le (H : Bytes → Bytes) (k : Spec.Kind) (bits : Bits) (ss' ss : List Spec.SInfo) (d : Nat)
    (np : k ≠ .pruned) (hd : 1 ≤ d) (hlib : k = .library → ss = [])
    (hinv : InvList (d + k.mu) ss' ss) (hle : LeList ss' ss) (hmono : ∀ c ∈ ss, DepthMono c)
    (hlev : Spec.nodeMask k bits ss < 2 ^ (d - 1)) :
    ∀ l, (Spec.node H k bits ss').depthAt l ≤ (Spec.node H k bits ss).depthAt l := by
  have hm := nodeMask_inv k bits ss' ss d hinv
  rw [node_plain H k bits ss' np, node_plain H k bits ss np]
  intro l
  show Spec.plainDepthAt k ss' (Spec.nodeMask k bits ss') l ≤ Spec.plainDepthAt k ss (Spec.nodeMask k bits ss) l
  obtain ⟨L', hL'l, sL', cL', eL'⟩ := plainDepthAt_top k ss' (Spec.nodeMask k bits ss') l
  obtain ⟨L, hLl, sL, cL, eL⟩ := plainDepthAt_top k ss (Spec.nodeMask k bits ss) l
  rw [eL', eL]
  have h1 := hle.depthOver_le (L' + k.mu)
  have hmd : Spec.nodeMask k bits ss' % 2 ^ (d - 1) = Spec.nodeMask k bits ss % 2 ^ (d - 1) := hm (d - 1) (by omega)
  have hLL : L ≤ L' := by
    apply Classical.byContradiction
    intro hc
    obtain ⟨j, rfl⟩ : ∃ j, L = j + 1 := ⟨L - 1, by omega⟩
    rw [sigB_succ] at sL
    have hj : j < d - 1 := by
      apply Classical.byContradiction
      intro hjc
      have := Nat.testBit_lt_two_pow (Nat.lt_of_lt_of_le hlev (Nat.pow_le_pow_right (by decide) (show d - 1 ≤ j by omega)))
      rw [this] at sL; cases sL
    have t := testBit_of_mod_eq_lt hmd hj
    have := cL' j (by omega) (by omega)
    rw [t, sL] at this
    cases this
  have hmap : ss.map (fun c => c.depthAt (L' + k.mu)) = ss.map (fun c => c.depthAt (L + k.mu)) := by
    apply List.map_congr_left
    intro c hc
    apply depth_const c (hmono c hc) (L + k.mu) (L' + k.mu) (by omega)
    intro x hx1 hx2
    have hx : x = (x - k.mu) + k.mu := by omega
    rw [hx]
    apply kid_bit_clear k bits ss (x - k.mu) np hlib _ c hc
    exact cL (x - k.mu) (by omega) (by omega)
  have : Spec.depthOver ss (L' + k.mu) = Spec.depthOver ss (L + k.mu) := by
    simp only [Spec.depthOver, hmap]
  rw [this] at h1
  exact h1

/-! ### the new pruned-branch cell is spec-valid -/

theorem popcount_mod_le_n (m : Nat) : ∀ n, popcount (m % 2 ^ n) ≤ n := by
  intro n
  induction n with
  | zero => simp [Nat.mod_one, popcount]
  | succ n ih =>
    rw [popcount_mod_succ]
    split <;> omega

theorem prunedData_length (d : Nat) (s : Spec.SInfo) (hp : Prunable d s) :
    (prunedData d s).length = 2 + 34 * (popcount (s.mask % 2 ^ (d - 1)) + 1) := by
  obtain ⟨n, rfl⟩ : ∃ n, d = n + 1 := ⟨d - 1, by have := hp.d_pos; omega⟩
  have hH : ∀ x ∈ sigList s.hashAt s.mask (n+1), x.length = 32 :=
    sigList_mem s.hashAt s.mask (fun (x : Bytes) => x.length = 32) (n+1) (fun l hl => (hp.hlen l hl).1)
  have hD : ∀ x ∈ sigList (fun l => Spec.be2 (s.depthAt l)) s.mask (n+1), x.length = 2 :=
    sigList_mem _ s.mask (fun (x : Bytes) => x.length = 2) (n+1) (fun l hl => by simp [Spec.be2])
  simp only [prunedData, List.length_append, List.length_cons, List.length_nil,
    length_flatten_const 32 _ hH, length_flatten_const 2 _ hD, sigList_length, Nat.add_sub_cancel]
  omega

theorem prunedCell_mask (d : Nat) (s : Spec.SInfo) (hp : Prunable d s) :
    Spec.nodeMask .pruned (bytesToBits (prunedData d s)) [] = pmask d s.mask := by
  have := pmask_lt d s.mask hp.d_le
  simp only [Spec.nodeMask, prunedData, List.cons_append, List.nil_append]
  exact maskByte_bytesToBits 1 _ _ (by omega)

/-- the pruned branch built for a prunable subtree is a spec-valid cell (16 + 272·k bits ≤ 1023 is automatic, k ≤ 3) -/
theorem prunedCell_wf (H : Bytes → Bytes) (d : Nat) (s : Spec.SInfo) (hp : Prunable d s) : TreeWF H (prunedCell d s) := by
  unfold prunedCell
  rw [TreeWF]
  refine ⟨by simp [TreesWF], .pruned, [], by decide, by simp [specInfos], ?_⟩
  have hlen := prunedData_length d s hp
  have hpc := popcount_mod_le_n s.mask (d - 1)
  have hd3 := hp.d_le
  have hmask := prunedCell_mask d s hp
  refine ⟨?_, by simp, by simp, by simp, ?_, by simp, by simp, by simp⟩
  · rw [length_bytesToBits, hlen]; omega
  · intro _
    refine ⟨rfl, ?_, ?_, ?_⟩
    · rw [length_bytesToBits, hlen]; omega
    · rw [hmask]; exact pmask_pos d s.mask
    · rw [hmask]; have := pmask_lt d s.mask hp.d_le; omega

theorem pmask_lt_pow (d m : Nat) (hd : 1 ≤ d) : pmask d m < 2 ^ d := by
  rw [pmask_eq_add]
  have h := Nat.mod_lt m (Nat.two_pow_pos (d - 1))
  have e : 2 ^ d = 2 ^ (d - 1) * 2 := by rw [← Nat.pow_succ]; congr 1; omega
  omega

/-- ... and at no level deeper than the subtree it stands for -/
theorem prunedCell_depth_le (H : Bytes → Bytes) (d : Nat) (s : Spec.SInfo) (hp : Prunable d s) :
    ∀ l, (Spec.node H .pruned (bytesToBits (prunedData d s)) []).depthAt l ≤ s.depthAt l := by
  intro l
  by_cases hl : l < d
  · rw [(prunedCell_inv H d s hp l hl).2.1]
    exact Nat.le_refl _
  · have hlt : pmask d s.mask < 2 ^ l :=
      Nat.lt_of_lt_of_le (pmask_lt_pow d s.mask hp.d_pos) (Nat.pow_le_pow_right (by decide) (by omega))
    show Spec.prunedDepthAt _ (Spec.nodeMask .pruned _ []) l ≤ _
    rw [prunedCell_mask d s hp]
    simp [Spec.prunedDepthAt, Nat.mod_eq_of_lt hlt]

/-! ### level masks of spec-valid cells -/

theorem nodeWF_mask_le {H : Bytes → Bytes} {k : Spec.Kind} {bits : Bits} {ss : List Spec.SInfo}
    (wf : NodeWF H k bits ss) : Spec.nodeMask k bits ss ≤ 7 := by
  have hfold := foldl_mask_le ss 0 (by omega) wf.kidsMask
  cases k with
  | ordinary => exact hfold
  | pruned => exact (wf.pruned rfl).2.2.2
  | library => simp [Spec.nodeMask]
  | merkleProof => simp only [Spec.nodeMask]; omega
  | merkleUpdate => simp only [Spec.nodeMask]; omega

theorem treeWF_node {H : Bytes → Bytes} {kind : Int} {bits : Bits} {refs : List Cell} (wf : TreeWF H (.mk kind bits refs)) :
    TreesWF H refs ∧ ∃ k ks, kindOf kind = some k ∧ specInfos H refs = some ks ∧ NodeWF H k bits ks := by
  rw [TreeWF] at wf; exact wf

theorem treeWF_mask_le (H : Bytes → Bytes) : ∀ (c : Cell) (s : Spec.SInfo), TreeWF H c → specInfo H c = some s → s.mask ≤ 7
  | .mk kind bits refs, s, wf, hs => by
    obtain ⟨_, k, ks, hk, hks, nwf⟩ := treeWF_node wf
    obtain ⟨k', ss, hk', hss, rfl⟩ := specInfo_mk H kind bits refs s hs
    rw [hk] at hk'; cases hk'
    rw [hks] at hss; cases hss
    rw [node_mask]; exact nodeWF_mask_le nwf

theorem treesWF_mask_le (H : Bytes → Bytes) : ∀ (cs : List Cell) (ss : List Spec.SInfo), TreesWF H cs →
    specInfos H cs = some ss → ∀ c ∈ ss, c.mask ≤ 7 := by
  intro cs
  induction cs with
  | nil => intro ss _ hs; simp only [specInfos, Option.some.injEq] at hs; subst hs; simp
  | cons c cs ih =>
    intro ss wf hs
    rw [TreesWF] at wf
    obtain ⟨s, ss0, h1, h2, rfl⟩ := specInfos_cons H c cs ss hs
    intro x hx
    rcases List.mem_cons.mp hx with rfl | hx
    · exact treeWF_mask_le H c x wf.1 h1
    · exact ih ss0 wf.2 h2 x hx

/-! ### trees -/

mutual
  theorem prune_wf_aux (H : Bytes → Bytes) : ∀ (t : Cell) (d : Nat) (t' : Cell) (s : Spec.SInfo), 1 ≤ d → TreeWF H t →
      PruneRel H d t t' → specInfo H t = some s → s.mask < 2 ^ (d - 1) →
      TreeWF H t' ∧ ∀ s', specInfo H t' = some s' → ∀ l, s'.depthAt l ≤ s.depthAt l
    | .mk kind bits refs, d, t', s, hd, wf, hrel, hs, hlev => by
      rw [PruneRel] at hrel
      rcases hrel with ⟨s0, hs0, hp, rfl⟩ | ⟨k, refs', hk, rfl, hrels⟩
      · rw [hs] at hs0; cases hs0
        refine ⟨prunedCell_wf H d s hp, ?_⟩
        intro s' hs'
        rw [specInfo_prunedCell] at hs'; cases hs'
        exact prunedCell_depth_le H d s hp
      · obtain ⟨wfs, k0, ks, hk0, hks, nwf⟩ := treeWF_node wf
        rw [hk] at hk0; cases hk0
        obtain ⟨k1, ss1, hk1, hss1, rfl⟩ := specInfo_mk H kind bits refs s hs
        rw [hk] at hk1; cases hk1
        rw [hks] at hss1; cases hss1
        rw [node_mask] at hlev
        have hd' : 1 ≤ d + k.mu := by omega
        have hkids : ∀ c ∈ ks, c.mask < 2 ^ (d + k.mu - 1) := by
          by_cases np : k = .pruned
          · subst np; rw [(nwf.pruned rfl).1]; simp
          · have e : d - 1 + k.mu = d + k.mu - 1 := by omega
            rw [← e]; exact kid_level k bits ks (d - 1) np nwf.library hlev
        obtain ⟨wfs', hles⟩ := prunes_wf_aux H refs (d + k.mu) refs' ks hd' wfs hrels hks hkids
        obtain ⟨ss', hss', hinv⟩ := prunes_inv_aux H refs (d + k.mu) refs' ks hrels hks
        have hle := hles ss' hss'
        have hmono := specInfos_mono H refs ks hks
        have hlen := hinv.length_eq
        have hnil : ks = [] → ss' = [] := fun h => List.eq_nil_of_length_eq_zero (by rw [hlen, h]; rfl)
        have nwf' : NodeWF H k bits ss' := by
          refine ⟨nwf.bitsLen, ?_, ?_, ?_, ?_, ?_, ?_, ?_⟩
          · rw [hlen]; exact nwf.nrefs
          · exact treesWF_mask_le H refs' ss' wfs' hss'
          · intro np l
            exact Nat.le_trans (node_depth_le H k bits ss' ks d np hd nwf.library hinv hle hmono hlev l) (nwf.depthOk np l)
          · intro hp
            have h0 := nwf.pruned hp
            have e1 := h0.1
            have e2 := hnil e1
            subst e1; subst e2
            exact h0
          · intro hp; exact hnil (nwf.library hp)
          · intro hp; rw [hlen]; exact nwf.mproof hp
          · intro hp; rw [hlen]; exact nwf.mupdate hp
        have hspec : specInfo H (.mk kind bits refs') = some (Spec.node H k bits ss') := by
          simp [specInfo, hk, hss']
        refine ⟨?_, ?_⟩
        · rw [TreeWF]; exact ⟨wfs', k, ss', hk, hss', nwf'⟩
        · intro s' hs'
          rw [hspec] at hs'; cases hs'
          by_cases np : k = .pruned
          · have e1 := (nwf.pruned np).1
            have e2 := hnil e1
            subst e1; subst e2
            intro l; exact Nat.le_refl _
          · exact node_depth_le H k bits ss' ks d np hd nwf.library hinv hle hmono hlev
  theorem prunes_wf_aux (H : Bytes → Bytes) : ∀ (ts : List Cell) (d : Nat) (ts' : List Cell) (ss : List Spec.SInfo), 1 ≤ d →
      TreesWF H ts → PruneRels H d ts ts' → specInfos H ts = some ss → (∀ c ∈ ss, c.mask < 2 ^ (d - 1)) →
      TreesWF H ts' ∧ ∀ ss', specInfos H ts' = some ss' → LeList ss' ss
    | [], d, ts', ss, _, _, hrel, hs, _ => by
      rw [PruneRels] at hrel
      subst hrel
      simp only [specInfos, Option.some.injEq] at hs
      subst hs
      refine ⟨by simp [TreesWF], ?_⟩
      intro ss' hss'
      simp only [specInfos, Option.some.injEq] at hss'
      subst hss'
      trivial
    | t :: ts, d, ts', ss, hd, wf, hrel, hs, hlev => by
      rw [PruneRels] at hrel
      obtain ⟨t', ts'', rfl, h1, h2⟩ := hrel
      obtain ⟨s, ss0, hst, hsts, rfl⟩ := specInfos_cons H t ts ss hs
      rw [TreesWF] at wf
      obtain ⟨w1, l1⟩ := prune_wf_aux H t d t' s hd wf.1 h1 hst (hlev s (by simp))
      obtain ⟨w2, l2⟩ := prunes_wf_aux H ts d ts'' ss0 hd wf.2 h2 hsts (fun c hc => hlev c (by simp [hc]))
      refine ⟨by rw [TreesWF]; exact ⟨w1, w2⟩, ?_⟩
      intro ss' hss'
      obtain ⟨s', ss0', hst', hsts', rfl⟩ := specInfos_cons H t' ts'' ss' hss'
      exact ⟨l1 s' hst', l2 ss0' hsts'⟩
end

theorem depthOver_single (c : Spec.SInfo) (x : Nat) : Spec.depthOver [c] x = 1 + c.depthAt x := by
  show 1 + max 0 (c.depthAt x) = 1 + c.depthAt x
  omega

/-- a cell of level 0 has the same depth at every level -/
theorem depth_level0 (H : Bytes → Bytes) (t : Cell) (s : Spec.SInfo) (hs : specInfo H t = some s) (hlev : s.mask = 0) :
    ∀ l, s.depthAt l = s.depthAt 0 := by
  intro l
  exact depth_const s (specInfo_mono H t s hs) 0 l (Nat.zero_le _) (fun x _ _ => by rw [hlev]; simp)

/-- VALIDITY OF THE PRUNED TREE. `t` spec-valid at Merkle depth `d ≥ 1`, of level below its Merkle nesting
(`mask < 2^(d-1)`: level 0 for `d = 1`), `t'` any pruning of it: `t'` is spec-valid (so it can be constructed,
`tree_agrees`), and at every level `t'` is at most as deep as `t`. -/
theorem prune_treeWF (H : Bytes → Bytes) (d : Nat) (t t' : Cell) (s : Spec.SInfo) (hd : 1 ≤ d) (wf : TreeWF H t)
    (hs : specInfo H t = some s) (hlev : s.mask < 2 ^ (d - 1)) (hrel : PruneRel H d t t') :
    TreeWF H t' ∧ ∀ s', specInfo H t' = some s' → ∀ l, s'.depthAt l ≤ s.depthAt l :=
  prune_wf_aux H t d t' s hd wf hrel hs hlev

end TonVerif.Proofs.PruneWF
