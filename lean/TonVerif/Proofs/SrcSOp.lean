/-
Generation-independent lemmas about the `SOp` monad (Model/Builder.lean) used by the proofs that a regenerated deserialiser
equals the hand model: monad laws, conditionals, the `preload_*` reads, non-negativity of `load_uint`.
-/
import TonVerif.Model.Builder
import TonVerif.PyTlb
namespace TonVerif.Proofs.SrcSOp
open TonVerif TonVerif.Model

variable {R : Type} {α β γ : Type}

theorem bind_def (p : SOp R α) (f : α → SOp R β) : (p >>= f) = SOp.bind p f := rfl
theorem pure_def (a : α) : (pure a : SOp R α) = SOp.pure a := rfl

theorem sop_pure_bind (a : α) (f : α → SOp R β) : SOp.bind (SOp.pure a) f = f a := rfl

theorem sop_bind_pure (p : SOp R α) : SOp.bind p SOp.pure = p := by
  funext s; unfold SOp.bind; rcases h : p s with ⟨s1, _ | a⟩ <;> simp [SOp.pure]

theorem sop_bind_assoc (p : SOp R α) (f : α → SOp R β) (g : β → SOp R γ) :
    SOp.bind (SOp.bind p f) g = SOp.bind p (fun a => SOp.bind (f a) g) := by
  funext s; unfold SOp.bind; rcases p s with ⟨s1, _ | a⟩ <;> rfl

theorem sop_fail_bind (f : α → SOp R β) : SOp.bind (SOp.fail : SOp R α) f = SOp.fail := rfl

theorem sop_ite_bind (c : Prop) [Decidable c] (a b : SOp R α) (f : α → SOp R β) :
    SOp.bind (if c then a else b) f = if c then SOp.bind a f else SOp.bind b f := by
  split <;> rfl

theorem sop_ite_apply (c : Prop) [Decidable c] (a b : SOp R α) (s : Slice R) :
    (if c then a else b) s = if c then a s else b s := by
  split <;> rfl

theorem sop_bind_congr {p : SOp R α} {f g : α → SOp R β} (h : ∀ a, f a = g a) : SOp.bind p f = SOp.bind p g := by
  have : f = g := funext h
  rw [this]

theorem peekBits_bind (n : Nat) (k : Bits → SOp R β) (s : Slice R) :
    SOp.bind (SOp.peekBits n) k s = k (s.bits.take n) s := rfl

theorem preloadBytes_bind (n : Nat) (k : Bytes → SOp R β) (s : Slice R) :
    SOp.bind (SOp.preloadBytes n) k s = k (bitsToBytes (s.bits.take (n * 8))) s := rfl

theorem ofOption_bind_some (a : α) (f : α → SOp R β) : SOp.bind (SOp.ofOption (some a)) f = f a := rfl
theorem ofOption_bind_none (f : α → SOp R β) : SOp.bind (SOp.ofOption (none : Option α)) f = SOp.fail := rfl

/-- `load_uint` never returns a negative number -/
theorem loadUint_nonneg (n : Nat) (s s' : Slice R) (v : Int) (h : SOp.loadUint n s = (s', some v)) : 0 ≤ v := by
  unfold SOp.loadUint SOp.preloadUint at h
  simp only [bind, SOp.bind, SOp.peekBits, SOp.ofOption, SOp.ba2intU] at h
  by_cases he : (List.take n s.bits).isEmpty = true
  · simp [he] at h
  · simp only [he] at h
    simp only [Bool.false_eq_true, if_false] at h
    cases hd : SOp.delBits n s with
    | mk s1 o =>
      rw [hd] at h
      cases o with
      | none => simp at h
      | some u =>
        simp only [pure, SOp.pure, Prod.mk.injEq, Option.some.injEq] at h
        omega

theorem loadUint_bind_congr (n : Nat) {f g : Int → SOp R β} (h : ∀ v, 0 ≤ v → f v = g v) :
    SOp.bind (SOp.loadUint n) f = SOp.bind (SOp.loadUint n) g := by
  funext s
  unfold SOp.bind
  rcases hl : SOp.loadUint n s with ⟨s1, _ | v⟩
  · rfl
  · simp only [h v (loadUint_nonneg n s s1 v hl)]

end TonVerif.Proofs.SrcSOp
