/-
Helper lemmas for C06 / C07: closed forms of the Builder store operations (`OpSpec`: succeeds exactly
when the value is in range and fits, then appends exactly the TL-B encoding) and of the Slice reads.
-/
import TonVerif.Proofs.Bits
import TonVerif.Spec.TlbVal

namespace TonVerif.Proofs.Builder
open TonVerif TonVerif.Model TonVerif.Spec.Tlb TonVerif.Proofs.Bits
variable {R : Type}

/-! ### integer conversions -/

theorem bitLen_le_iff (v m : Nat) : BOp.bitLen v ≤ m ↔ v < 2 ^ m := by
  induction m generalizing v with
  | zero =>
    cases v with
    | zero => simp [BOp.bitLen]
    | succ v => rw [BOp.bitLen]; simp
  | succ m ih =>
    cases v with
    | zero => simp [BOp.bitLen]; exact Nat.pow_pos (by decide)
    | succ v =>
      rw [BOp.bitLen, Nat.pow_succ]
      have := ih ((v + 1) / 2)
      constructor
      · intro h
        have h' : BOp.bitLen ((v + 1) / 2) ≤ m := by omega
        have := this.mp h'
        omega
      · intro h
        have h' : (v + 1) / 2 < 2 ^ m := by omega
        have := this.mpr h'
        omega

theorem pow256 (l : Nat) : 256 ^ l = 2 ^ (8 * l) := by
  rw [Nat.pow_mul]

/-- `math.ceil(bit_length / 8)` is the minimal byte length -/
theorem byteLen_model (v : Nat) : (BOp.bitLen v + 7) / 8 = byteLenU v := by
  apply Nat.le_antisymm
  · have h : v < 256 ^ byteLenU v := (byteLenU_le_iff v _).mp (Nat.le_refl _)
    rw [pow256] at h
    have := (bitLen_le_iff v _).mpr h
    omega
  · rw [byteLenU_le_iff, pow256]
    apply (bitLen_le_iff v _).mp
    omega

theorem bitLen_double_succ (m : Nat) : BOp.bitLen (2 * m + 1) = BOp.bitLen m + 1 := by
  rw [BOp.bitLen]
  have : (2 * m + 1) / 2 = m := by omega
  rw [this]; omega

theorem byteLenS_model (m : Nat) : (BOp.bitLen m + 1 + 7) / 8 = byteLenU (2 * m + 1) := by
  rw [← byteLen_model, bitLen_double_succ]

theorem byteLenU_pos {v : Nat} (h : v ≠ 0) : 0 < byteLenU v := by
  have := byteLenU_le_iff v 0
  simp at this
  omega

theorem lt_pow_byteLenU (v : Nat) : v < 2 ^ (8 * byteLenU v) := by
  rw [← pow256]; exact (byteLenU_le_iff v _).mp (Nat.le_refl _)

theorem int_pow_cast (n : Nat) : ((2 ^ n : Nat) : Int) = (2 : Int) ^ n := by
  simp

theorem two_pow_pos_int (n : Nat) : (0 : Int) < (2 : Int) ^ n := by
  rw [← int_pow_cast]; exact Int.natCast_pos.mpr (Nat.pow_pos (by decide))

theorem two_pow_succ_int (n : Nat) : (2 : Int) ^ (n + 1) = 2 * (2 : Int) ^ n := by
  rw [Int.pow_succ, Int.mul_comm]

/-- signed size: `byteLenS v` is the least `l` such that `v` fits `int (8·l)` -/
theorem byteLenS_le_iff (v : Int) (l : Nat) : byteLenS v ≤ l ↔ FitsInt (8 * l) v := by
  unfold byteLenS FitsInt
  by_cases hv : v = 0
  · subst hv
    have := two_pow_pos_int (8 * l)
    simp; omega
  · simp only [hv, if_false]
    rw [byteLenU_le_iff, pow256]
    unfold magS
    cases l with
    | zero =>
      simp
      omega
    | succ l =>
      have e : 8 * (l + 1) = (8 * l + 7) + 1 := by omega
      rw [e, two_pow_succ_int, Nat.pow_succ, ← int_pow_cast]
      generalize (2 : Nat) ^ (8 * l + 7) = P
      split <;> omega

theorem byteLenS_fits (v : Int) : FitsInt (8 * byteLenS v) v := (byteLenS_le_iff v _).mp (Nat.le_refl _)

theorem byteLenS_pos {v : Int} (h : v ≠ 0) : 0 < byteLenS v := by
  unfold byteLenS; simp only [h, if_false]; exact byteLenU_pos (by omega)

/-! ### int2ba / ba2int -/

theorem int2baU_some (v : Int) (n : Nat) (hn : 0 < n) (h : FitsUint n v) :
    BOp.int2baU v n = some (uintBits n v.toNat) := by
  unfold BOp.int2baU FitsUint at *
  have hc := int_pow_cast n
  have h1 : ¬ v < 0 := by omega
  have h2 : ¬ v.toNat ≥ 2 ^ n := by omega
  simp [h1, h2, natToBits_eq_uintBits]; omega

theorem int2baU_none (v : Int) (n : Nat) (h : ¬ (0 < n ∧ FitsUint n v)) : BOp.int2baU v n = none := by
  unfold BOp.int2baU FitsUint at *
  have hc := int_pow_cast n
  by_cases hn : n = 0
  · simp [hn]
  · by_cases h1 : v < 0
    · simp [hn, h1]
    · have : v.toNat ≥ 2 ^ n := by omega
      simp [hn, h1, this]

theorem intBits_nonneg (n : Nat) (v : Int) (h0 : 0 ≤ v) (h : 2 * v < (2 : Int) ^ n) :
    intBits n v = uintBits n v.toNat := by
  unfold intBits
  have hp := two_pow_pos_int n
  rw [Int.emod_eq_of_lt h0 (by omega)]

theorem intBits_neg (n : Nat) (v : Int) (h0 : v < 0) (h : -(2 : Int) ^ n ≤ 2 * v) :
    intBits n v = uintBits n (v + (2 : Int) ^ n).toNat := by
  unfold intBits
  have hp := two_pow_pos_int n
  have : v % (2 : Int) ^ n = (v + (2 : Int) ^ n) % (2 : Int) ^ n := by simp
  rw [this, Int.emod_eq_of_lt (by omega) (by omega)]

theorem fitsInt_succ (n : Nat) (v : Int) :
    FitsInt (n + 1) v ↔ (-(2 : Int) ^ n ≤ v ∧ v < (2 : Int) ^ n) := by
  unfold FitsInt; rw [two_pow_succ_int]; omega

theorem int2baS_some (v : Int) (n : Nat) (hn : 0 < n) (h : FitsInt n v) :
    BOp.int2baS v n = some (intBits n v) := by
  obtain ⟨m, rfl⟩ : ∃ m, n = m + 1 := ⟨n - 1, by omega⟩
  have hf := (fitsInt_succ m v).mp h
  unfold BOp.int2baS
  have hc := int_pow_cast m
  have hc1 := int_pow_cast (m + 1)
  have h1 : ¬ (v < -((2 : Int) ^ m) ∨ v ≥ (2 : Int) ^ m) := by omega
  simp only [Nat.add_sub_cancel, Nat.succ_ne_zero, if_false, h1]
  unfold FitsInt at h
  by_cases h0 : v ≥ 0
  · simp only [h0, if_true]
    rw [intBits_nonneg _ _ h0 h.2, natToBits_eq_uintBits]
  · simp only [h0, if_false]
    rw [intBits_neg _ _ (by omega) h.1, natToBits_eq_uintBits]

theorem int2baS_none (v : Int) (n : Nat) (h : ¬ (0 < n ∧ FitsInt n v)) : BOp.int2baS v n = none := by
  unfold BOp.int2baS
  by_cases hn : n = 0
  · simp [hn]
  · obtain ⟨m, rfl⟩ : ∃ m, n = m + 1 := ⟨n - 1, by omega⟩
    have hf := fitsInt_succ m v
    have : (v < -((2 : Int) ^ m) ∨ v ≥ (2 : Int) ^ m) := by
      have : ¬ FitsInt (m + 1) v := fun hh => h ⟨by omega, hh⟩
      rw [hf] at this; omega
    simp [this]

theorem ba2intU_uintBits (n : Nat) (v : Int) (hn : 0 < n) (h : FitsUint n v) :
    SOp.ba2intU (uintBits n v.toNat) = some v := by
  unfold SOp.ba2intU FitsUint at *
  have hc := int_pow_cast n
  have hne : (uintBits n v.toNat).isEmpty = false := by
    cases hh : uintBits n v.toNat with
    | nil => have := uintBits_length n v.toNat; rw [hh] at this; simp at this; omega
    | cons _ _ => rfl
  rw [hne, ← natToBits_eq_uintBits, natOfBits_natToBits _ _ (by omega)]
  simp; omega

theorem ba2intS_intBits (n : Nat) (v : Int) (hn : 0 < n) (h : FitsInt n v) :
    SOp.ba2intS (intBits n v) = some v := by
  obtain ⟨m, rfl⟩ : ∃ m, n = m + 1 := ⟨n - 1, by omega⟩
  have hf := (fitsInt_succ m v).mp h
  have hc := int_pow_cast m
  have hpp := two_pow_pos_int m
  unfold FitsInt at h
  have e2 : (2 : Nat) ^ (m + 1) = 2 * 2 ^ m := by rw [Nat.pow_succ]; omega
  by_cases h0 : 0 ≤ v
  · rw [intBits_nonneg _ _ h0 h.2]
    have hlt : v.toNat < 2 ^ m := by omega
    have hd : v.toNat / 2 ^ m = 0 := Nat.div_eq_of_lt hlt
    rw [uintBits, hd]
    simp only [SOp.ba2intS]
    have : natOfBits ((0 % 2 == 1) :: uintBits m v.toNat) = v.toNat := by
      have := natOfBits_natToBits (m + 1) v.toNat (by omega)
      rw [natToBits_succ, hd, natToBits_eq_uintBits] at this
      exact this
    rw [this]; simp; omega
  · rw [intBits_neg _ _ (by omega) h.1]
    have e3 := two_pow_succ_int m
    generalize hu : (v + (2 : Int) ^ (m + 1)).toNat = u
    have hu1 : 2 ^ m ≤ u := by omega
    have hu2 : u < 2 * 2 ^ m := by omega
    have hd : u / 2 ^ m = 1 := by
      apply Nat.div_eq_of_lt_le <;> omega
    rw [uintBits, hd]
    simp only [SOp.ba2intS]
    have : natOfBits ((1 % 2 == 1) :: uintBits m u) = u := by
      have := natOfBits_natToBits (m + 1) u (by omega)
      rw [natToBits_succ, hd, natToBits_eq_uintBits] at this
      exact this
    rw [this]
    simp only [List.length_cons, uintBits_length]
    have hc1 := int_pow_cast (m + 1)
    simp
    omega

/-! ### builder operations: the `OpSpec` calculus -/

/-- capacity invariant of C07 -/
def Inv (b : Builder R) : Prop := b.bits.length ≤ 1023 ∧ b.refs.length ≤ 4

theorem inv_empty : Inv (Builder.empty : Builder R) := by simp [Inv, Builder.empty]

/-- an operation never leaves the capacity bounds, whether or not it returns normally -/
def Safe (f : BOp R) : Prop := ∀ b, Inv b → Inv (f b).1

/-- `f` returns normally exactly when `C` (value in range) holds and `xs`/`rs` fit the remaining
capacity; then it has appended exactly `xs` and `rs`; in every case it stays within capacity. -/
def OpSpec (f : BOp R) (C : Prop) (xs : Bits) (rs : List R) : Prop :=
  (∀ b, Inv b → ((f b).2 = true ↔ (C ∧ b.bits.length + xs.length ≤ 1023 ∧ b.refs.length + rs.length ≤ 4)) ∧
        ((f b).2 = true → (f b).1 = ⟨b.bits ++ xs, b.refs ++ rs⟩)) ∧ Safe f

theorem OpSpec.congr {f : BOp R} {C C' : Prop} {xs xs' : Bits} {rs rs' : List R}
    (h : OpSpec f C xs rs) (hc : C ↔ C') (hx : C → xs = xs' ∧ rs = rs') : OpSpec f C' xs' rs' := by
  refine ⟨fun b ib => ?_, h.2⟩
  obtain ⟨h1, h2⟩ := h.1 b ib
  constructor
  · constructor
    · intro hok
      obtain ⟨c, hb, hr⟩ := h1.mp hok
      obtain ⟨e1, e2⟩ := hx c
      subst e1; subst e2
      exact ⟨hc.mp c, hb, hr⟩
    · rintro ⟨c', hb, hr⟩
      obtain ⟨e1, e2⟩ := hx (hc.mpr c')
      subst e1; subst e2
      exact h1.mpr ⟨hc.mpr c', hb, hr⟩
  · intro hok
    obtain ⟨c, _, _⟩ := h1.mp hok
    obtain ⟨e1, e2⟩ := hx c
    subst e1; subst e2
    exact h2 hok

theorem safe_fail : Safe (BOp.fail : BOp R) := fun _ h => h
theorem safe_skip : Safe (BOp.skip : BOp R) := fun _ h => h

theorem safe_andThen {f g : BOp R} (hf : Safe f) (hg : Safe g) : Safe (f ⊳ g) := by
  intro b hb
  unfold BOp.andThen
  by_cases h : (f b).2 = true
  · simp only [h, if_true]; exact hg _ (hf b hb)
  · simp only [h]; exact hf b hb

theorem safe_extend (xs : Bits) : Safe (BOp.extend xs : BOp R) := by
  intro b hb
  unfold BOp.extend Inv at *
  by_cases h : b.bits.length + xs.length > 1023
  · simp [h]; exact hb
  · simp only [h, if_false, List.length_append]; omega

theorem safe_storeRef (r : R) : Safe (BOp.storeRef r) := by
  intro b hb
  unfold BOp.storeRef Inv at *
  by_cases h : b.refs.length ≥ 4
  · simp [h]; exact hb
  · simp only [h, if_false, List.length_append, List.length_singleton]; omega

theorem opSpec_fail : OpSpec (BOp.fail : BOp R) False [] [] :=
  ⟨fun b _ => by simp [BOp.fail], safe_fail⟩

theorem opSpec_skip : OpSpec (BOp.skip : BOp R) True [] [] :=
  ⟨fun b ib => ⟨by simp [BOp.skip]; exact ib, by intro; simp [BOp.skip]⟩, safe_skip⟩

theorem opSpec_extend (xs : Bits) : OpSpec (BOp.extend xs : BOp R) True xs [] := by
  refine ⟨fun b ib => ?_, safe_extend xs⟩
  unfold Inv at ib
  unfold BOp.extend
  by_cases h : b.bits.length + xs.length > 1023
  · simp [h]; omega
  · simp [h]; omega

theorem opSpec_storeRef (r : R) : OpSpec (BOp.storeRef r) True [] [r] := by
  refine ⟨fun b ib => ?_, safe_storeRef r⟩
  unfold Inv at ib
  unfold BOp.storeRef
  by_cases h : b.refs.length ≥ 4
  · simp [h]; omega
  · simp [h]; omega

theorem opSpec_andThen {f g : BOp R} {C D : Prop} {xs ys : Bits} {rs qs : List R}
    (hf : OpSpec f C xs rs) (hg : OpSpec g D ys qs) :
    OpSpec (f ⊳ g) (C ∧ D) (xs ++ ys) (rs ++ qs) := by
  refine ⟨fun b ib => ?_, safe_andThen hf.2 hg.2⟩
  obtain ⟨f1, f2⟩ := hf.1 b ib
  unfold BOp.andThen
  by_cases h : (f b).2 = true
  · have hb := f2 h
    obtain ⟨g1, g2⟩ := hg.1 (f b).1 (hf.2 b ib)
    obtain ⟨c, hc1, hc2⟩ := f1.mp h
    simp only [h, if_true]
    rw [hb] at g1 g2 ⊢
    simp only [List.length_append] at *
    constructor
    · rw [g1]
      constructor
      · rintro ⟨d, h1, h2⟩; exact ⟨⟨c, d⟩, by omega, by omega⟩
      · rintro ⟨⟨_, d⟩, h1, h2⟩; exact ⟨d, by omega, by omega⟩
    · intro hok
      rw [g2 hok]; simp [List.append_assoc]
  · simp only [h]
    constructor
    · constructor
      · intro hh; simp at hh
      · rintro ⟨⟨c, _⟩, h1, h2⟩
        exfalso; apply h; apply f1.mpr
        simp only [List.length_append] at *
        exact ⟨c, by omega, by omega⟩
    · intro hh; simp at hh

theorem opSpec_storeUint (v : Int) (n : Nat) :
    OpSpec (BOp.storeUint v n : BOp R) (0 < n ∧ FitsUint n v) (uintBits n v.toNat) [] := by
  unfold BOp.storeUint
  by_cases h : 0 < n ∧ FitsUint n v
  · rw [int2baU_some v n h.1 h.2]
    exact (opSpec_extend _).congr (by simp [h]) (fun _ => ⟨rfl, rfl⟩)
  · rw [int2baU_none v n h]
    exact opSpec_fail.congr (by simp [h]) (fun hh => hh.elim)

theorem opSpec_storeInt (v : Int) (n : Nat) :
    OpSpec (BOp.storeInt v n : BOp R) (0 < n ∧ FitsInt n v) (intBits n v) [] := by
  unfold BOp.storeInt
  by_cases h : 0 < n ∧ FitsInt n v
  · rw [int2baS_some v n h.1 h.2]
    exact (opSpec_extend _).congr (by simp [h]) (fun _ => ⟨rfl, rfl⟩)
  · rw [int2baS_none v n h]
    exact opSpec_fail.congr (by simp [h]) (fun hh => hh.elim)


theorem fitsUint_iff (n : Nat) (v : Int) : FitsUint n v ↔ 0 ≤ v ∧ v.toNat < 2 ^ n := by
  unfold FitsUint
  have := int_pow_cast n
  constructor <;> intro h <;> refine ⟨h.1, ?_⟩ <;> omega

theorem fitsUint_nat (n L : Nat) : FitsUint n (L : Int) ↔ L < 2 ^ n := by
  rw [fitsUint_iff]; simp

theorem opSpec_storeBytes (bs : Bytes) : OpSpec (BOp.storeBytes bs : BOp R) True (bytesBits bs) [] := by
  unfold BOp.storeBytes; rw [bytesToBits_eq_bytesBits]; exact opSpec_extend _

theorem opSpec_storeString (bs : Bytes) :
    OpSpec (BOp.storeString bs : BOp R) (bs.length ≤ 127) (bytesBits bs) [] := by
  unfold BOp.storeString
  by_cases h : bs.length > 127
  · simp only [h, if_true]
    exact opSpec_fail.congr ⟨False.elim, fun hh => by omega⟩ (fun hh => hh.elim)
  · simp only [h, if_false]
    exact (opSpec_storeBytes bs).congr ⟨fun _ => by omega, fun _ => trivial⟩ (fun _ => ⟨rfl, rfl⟩)

theorem opSpec_storeVarUint (v : Int) (k : Nat) :
    OpSpec (BOp.storeVarUint v k : BOp R) (0 < k ∧ 0 ≤ v ∧ byteLenU v.toNat < 2 ^ k)
      (varUIntBits k v.toNat) [] := by
  unfold BOp.storeVarUint varUIntBits
  by_cases hv : v = 0
  · subst hv
    simp only [if_true]
    refine (opSpec_storeUint 0 k).congr ?_ ?_
    · have := Nat.pow_pos (n := k) (show 0 < 2 by decide)
      simp [fitsUint_iff, byteLenU] <;> omega
    · intro _; simp [byteLenU, uintBits]
  · simp only [hv, if_false]
    by_cases h0 : 0 ≤ v
    · have hn : v.natAbs = v.toNat := by omega
      have hL : (BOp.bitLen v.natAbs + 7) / 8 = byteLenU v.toNat := by rw [hn, byteLen_model]
      rw [hL]
      have hpos : 0 < byteLenU v.toNat := byteLenU_pos (by omega)
      have hlt := lt_pow_byteLenU v.toNat
      refine (opSpec_andThen (opSpec_storeUint _ k) (opSpec_storeUint v _)).congr ?_ ?_
      · rw [fitsUint_nat, fitsUint_iff, Nat.mul_comm]
        constructor
        · rintro ⟨⟨a, b⟩, _⟩; exact ⟨a, h0, b⟩
        · rintro ⟨a, _, b⟩; exact ⟨⟨a, b⟩, by omega, h0, hlt⟩
      · intro _; simp [Nat.mul_comm]
    · refine (opSpec_andThen (opSpec_storeUint _ k) (opSpec_storeUint v _)).congr ?_ ?_
      · rw [fitsUint_iff (_ * 8)]
        constructor
        · rintro ⟨_, _, c, _⟩; exact absurd c h0
        · rintro ⟨_, c, _⟩; exact absurd c h0
      · rintro ⟨_, _, c, _⟩; exact absurd c h0

theorem opSpec_storeVarInt (v : Int) (k : Nat) :
    OpSpec (BOp.storeVarInt v k : BOp R) (0 < k ∧ byteLenS v < 2 ^ k) (varIntBits k v) [] := by
  unfold BOp.storeVarInt varIntBits
  by_cases hv : v = 0
  · subst hv
    simp only [if_true]
    refine (opSpec_storeUint 0 k).congr ?_ ?_
    · have := Nat.pow_pos (n := k) (show 0 < 2 by decide)
      simp [fitsUint_iff, byteLenS] <;> omega
    · intro _; simp [byteLenS, intBits, uintBits]
  · simp only [hv, if_false]
    have hL : (BOp.bitLen (if v ≥ 0 then v.toNat else (-v - 1).toNat) + 1 + 7) / 8 = byteLenS v := by
      rw [byteLenS_model]; unfold byteLenS magS; simp [hv]
    rw [hL]
    have hpos : 0 < byteLenS v := byteLenS_pos hv
    have hfit := byteLenS_fits v
    refine (opSpec_andThen (opSpec_storeUint _ k) (opSpec_storeInt v _)).congr ?_ ?_
    · rw [fitsUint_nat, Nat.mul_comm]
      constructor
      · rintro ⟨⟨a, b⟩, _⟩; exact ⟨a, b⟩
      · rintro ⟨a, b⟩; exact ⟨⟨a, b⟩, by omega, hfit⟩
    · intro _; simp [Nat.mul_comm]

theorem opSpec_storeCoins (v : Int) :
    OpSpec (BOp.storeCoins v : BOp R) (0 ≤ v ∧ byteLenU v.toNat < 16) (gramsBits v.toNat) [] := by
  unfold BOp.storeCoins gramsBits
  exact (opSpec_storeVarUint v 4).congr (by simp) (fun _ => ⟨rfl, rfl⟩)

theorem opSpec_storeMaybeRef (r : Option R) :
    OpSpec (BOp.storeMaybeRef r) True (maybeRefBits r) (maybeRefRefs r) := by
  cases r with
  | none => exact opSpec_extend _
  | some c =>
    exact (opSpec_andThen (opSpec_extend [true]) (opSpec_storeRef c)).congr (by simp)
      (fun _ => by simp [maybeRefBits, maybeRefRefs])

theorem safe_storeCell (cbits : Bits) (crefs : List R) : Safe (BOp.storeCell cbits crefs) := by
  intro b hb
  unfold BOp.storeCell
  by_cases h : b.refs.length + crefs.length > 4
  · simp only [h, if_true]; exact hb
  · have hs := safe_extend cbits b hb
    simp only [h, if_false]
    by_cases h2 : (BOp.extend cbits b).2 = true
    · simp only [h2, if_true]
      have hr : (BOp.extend cbits b).1.refs = b.refs := by
        unfold BOp.extend; split <;> rfl
      unfold Inv at *
      simp only [List.length_append, hr]; omega
    · simp only [h2]; exact hs

theorem opSpec_storeCell (cbits : Bits) (crefs : List R) :
    OpSpec (BOp.storeCell cbits crefs) True cbits crefs := by
  refine ⟨fun b ib => ?_, safe_storeCell cbits crefs⟩
  unfold Inv at ib
  unfold BOp.storeCell BOp.extend
  by_cases h : b.refs.length + crefs.length > 4
  · simp [h] <;> omega
  · by_cases h2 : b.bits.length + cbits.length > 1023
    · simp [h, h2] <;> omega
    · simp [h, h2] <;> omega

theorem opSpec_storeRefs (rs : List R) : OpSpec (BOp.storeRefs rs) True [] rs := by
  induction rs with
  | nil => exact opSpec_skip
  | cons r rs ih =>
    exact (opSpec_andThen (opSpec_storeRef r) ih).congr (by simp) (fun _ => by simp)

theorem opSpec_storeSlice (sbits : Bits) (srefs : List R) :
    OpSpec (BOp.storeSlice sbits srefs) True sbits srefs := by
  have hc := (opSpec_andThen (opSpec_extend (R := R) sbits) (opSpec_storeRefs srefs))
  refine ⟨fun b ib => ?_, ?_⟩
  · unfold BOp.storeSlice
    by_cases h : b.refs.length + srefs.length > 4
    · simp [h] <;> omega
    · simp only [h, if_false]
      have := hc.1 b ib
      simpa using this
  · intro b hb
    unfold BOp.storeSlice
    by_cases h : b.refs.length + srefs.length > 4
    · simp only [h, if_true]; exact hb
    · simp only [h, if_false]; exact hc.2 b hb

/-- "serialise into a fresh cell, then `store_cell` it" (`ExternalAddress.to_cell`) -/
theorem opSpec_viaCell {inner : BOp R} {C : Prop} {xs : Bits} (h : OpSpec inner C xs []) :
    OpSpec (fun (b : Builder R) =>
      if (inner Builder.empty).2 then BOp.storeCell (inner Builder.empty).1.bits ([] : List R) b
      else (b, false)) C xs [] := by
  have ie : Inv (Builder.empty : Builder R) := by simp [Inv, Builder.empty]
  obtain ⟨h1, h2⟩ := h.1 Builder.empty ie
  by_cases hok : (inner Builder.empty).2 = true
  · have hb := h2 hok
    obtain ⟨c, hl, _⟩ := h1.mp hok
    have e : (fun (b : Builder R) =>
        if (inner Builder.empty).2 then BOp.storeCell (inner Builder.empty).1.bits ([] : List R) b
        else (b, false)) = BOp.storeCell xs [] := by
      funext b; rw [hok, hb]; simp [Builder.empty]
    rw [e]
    exact (opSpec_storeCell xs []).congr (by simp [c]) (fun _ => ⟨rfl, rfl⟩)
  · have e : (fun (b : Builder R) =>
        if (inner Builder.empty).2 then BOp.storeCell (inner Builder.empty).1.bits ([] : List R) b
        else (b, false)) = BOp.fail := by
      funext b; simp [hok, BOp.fail]
    rw [e]
    refine ⟨fun b ib => ⟨⟨fun hh => by simp [BOp.fail] at hh, ?_⟩, fun hh => by simp [BOp.fail] at hh⟩, safe_fail⟩
    rintro ⟨c, hl, _⟩
    refine absurd (h1.mpr ⟨c, ?_, ?_⟩) hok
    · simp only [Builder.empty, List.length_nil]; omega
    · simp [Builder.empty]

theorem opSpec_extTail (len : Nat) (val : Int) :
    OpSpec (if len = 0 ∧ val = 0 then BOp.skip else BOp.storeUint val len : BOp R)
      (FitsUint len val) (uintBits len val.toNat) [] := by
  by_cases h : len = 0 ∧ val = 0
  · simp only [h, and_self, if_true]
    obtain ⟨rfl, rfl⟩ := h
    exact opSpec_skip.congr (by simp [FitsUint]) (fun _ => by simp [uintBits])
  · simp only [h, if_false]
    refine (opSpec_storeUint val len).congr ?_ (fun _ => ⟨rfl, rfl⟩)
    constructor
    · exact fun hh => hh.2
    · intro hf
      refine ⟨?_, hf⟩
      rcases Nat.eq_zero_or_pos len with h0 | h0
      · exfalso; subst h0; unfold FitsUint at hf; apply h; simp at hf; omega
      · exact h0

theorem opSpec_anycast (any : Option (Nat × Int)) :
    OpSpec ((match any with
            | some (depth, pfx) => BOp.storeBit true ⊳ BOp.storeUint depth 5 ⊳ BOp.storeUint pfx depth
            | none => BOp.storeBit false) : BOp R)
      (match any with | Option.none => True | some (d, p) => 1 ≤ d ∧ d < 32 ∧ FitsUint d p)
      (anycastBits (any.map fun dp => (dp.1, uintBits dp.1 dp.2.toNat))) [] := by
  cases any with
  | none => exact opSpec_extend _
  | some dp =>
    obtain ⟨d, p⟩ := dp
    refine (opSpec_andThen (opSpec_andThen (opSpec_extend [true]) (opSpec_storeUint d 5))
      (opSpec_storeUint p d)).congr ?_ ?_
    · simp only [fitsUint_nat]; constructor
      · rintro ⟨⟨_, _, a⟩, b, c⟩; exact ⟨b, by simpa using a, c⟩
      · rintro ⟨a, b, c⟩; exact ⟨⟨trivial, by decide, by simpa using b⟩, a, c⟩
    · intro _; simp [anycastBits]

theorem opSpec_storeAddress (a : Addr) :
    OpSpec (BOp.storeAddress a : BOp R) (InRange (R := R) (.addr a)) (addrBits (addrOf a)) [] := by
  cases a with
  | none => exact opSpec_extend _
  | ext len val =>
    unfold BOp.storeAddress
    refine (opSpec_viaCell (opSpec_andThen (opSpec_andThen (opSpec_extend [false, true])
      (opSpec_storeUint len 9)) (opSpec_extTail len val))).congr ?_ ?_
    · simp only [InRange, fitsUint_nat]; constructor
      · rintro ⟨⟨_, _, a⟩, b⟩; exact ⟨by simpa using a, b⟩
      · rintro ⟨a, b⟩; exact ⟨⟨trivial, by decide, by simpa using a⟩, b⟩
    · intro _; simp [addrBits, addrOf]
  | std any wc h =>
    unfold BOp.storeAddress
    refine (opSpec_andThen (opSpec_andThen (opSpec_andThen (opSpec_extend [true, false])
      (opSpec_anycast any)) (opSpec_storeInt wc 8)) (opSpec_storeBytes h)).congr ?_ ?_
    · simp only [InRange]; constructor
      · rintro ⟨⟨⟨_, a⟩, _, b⟩, _⟩; exact ⟨a, b⟩
      · rintro ⟨a, b⟩; exact ⟨⟨⟨trivial, a⟩, by decide, b⟩, trivial⟩
    · intro _; simp [addrBits, addrOf]

/-- every typed store: succeeds iff the value is in range and its TL-B encoding fits; then it has
appended exactly that encoding (bits and references) -/
theorem store_spec (tv : TVal R) : OpSpec tv.store (InRange tv) (enc tv) (refsOf tv) := by
  cases tv with
  | uint n v => exact opSpec_storeUint v n
  | int n v => exact opSpec_storeInt v n
  | varUint k v => exact opSpec_storeVarUint v k
  | varInt k v => exact opSpec_storeVarInt v k
  | coins v => exact opSpec_storeCoins v
  | bit b => exact opSpec_extend [b]
  | bits bs => exact opSpec_extend bs
  | bytes bs => exact opSpec_storeBytes bs
  | string bs => exact opSpec_storeString bs
  | ref r => exact opSpec_storeRef r
  | maybeRef r => exact opSpec_storeMaybeRef r
  | dict r => exact opSpec_storeMaybeRef r
  | addr a => exact opSpec_storeAddress a

end TonVerif.Proofs.Builder
