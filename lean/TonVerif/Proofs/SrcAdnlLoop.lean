/-
Theorems about the REGENERATED `while True` functions of crypto/keys.py (Generated/AdnlSrc.lean, group `keysloop`:
`get_secure_random_number`, `mnemonic_new` and their loop definitions), for EVERY random stream `rnd`, EVERY float interface `Fl`
and every instantiation of the primitives `P`.  The proofs go by induction on the loop budget and use generic lemmas about
`List.foldlM` in `Option`; they unfold the generated definitions but do not depend on how the bodies are spelled beyond the facts
stated here (what is appended, what is tested, what is returned).
-/
import TonVerif.Generated.AdnlSrc
import TonVerif.Proofs.SrcAdnl

set_option linter.unusedSimpArgs false
set_option linter.unusedVariables false

namespace TonVerif.Proofs.SrcAdnlLoop
open TonVerif TonVerif.Model.Adnl TonVerif.Proofs.Adnl TonVerif.Generated.AdnlSrc TonVerif.Proofs.SrcAdnl

/-! ## generic lemmas -/

/-- an invariant indexed by the number of iterations is carried through a `for` loop that does not raise -/
theorem foldlM_inv {σ ι : Type} (f : σ → ι → Option σ) (Inv : Nat → σ → Prop)
    (h : ∀ i s x s', Inv i s → f s x = some s' → Inv (i + 1) s') :
    ∀ (xs : List ι) (s s' : σ) (i : Nat), Inv i s → xs.foldlM f s = some s' → Inv (i + xs.length) s'
  | [], s, s', i, hi, hr => by
    simp only [List.foldlM_nil] at hr
    cases hr
    simpa using hi
  | x :: xs, s, s', i, hi, hr => by
    simp only [List.foldlM_cons] at hr
    cases hfx : f s x with
    | none => simp [hfx] at hr
    | some s1 =>
      simp only [hfx] at hr
      have := foldlM_inv f Inv h xs s1 s' (i + 1) (h i s x s1 hi hfx) (by simpa using hr)
      simpa [Nat.add_assoc, Nat.add_comm 1] using this

/-- a loop whose body returns the same value under another budget returns the same value -/
theorem foldlM_mono {σ ι : Type} (f g : σ → ι → Option σ) (h : ∀ s x s', f s x = some s' → g s x = some s') :
    ∀ (xs : List ι) (s s' : σ), xs.foldlM f s = some s' → xs.foldlM g s = some s'
  | [], s, s', hr => by simpa using hr
  | x :: xs, s, s', hr => by
    simp only [List.foldlM_cons] at hr ⊢
    cases hfx : f s x with
    | none => simp [hfx] at hr
    | some s1 =>
      simp only [hfx] at hr
      rw [h s x s1 hfx]
      exact foldlM_mono f g h xs s1 s' (by simpa using hr)

theorem intAnd_nonneg (a b : Int) (hb : 0 ≤ b) : 0 ≤ Py.intAnd a b := by
  cases b with
  | ofNat n =>
    cases a with
    | ofNat m => simp [Py.intAnd]
    | negSucc m => simp [Py.intAnd]
  | negSucc n => exact absurd hb (by simp)

/-! ## get_secure_random_number -/

/-- one unfolding of the regenerated loop -/
theorem gsrn_loop_succ {W} (P : Prims W) (Fl : Py.FloatIf) (rnd : Nat → Bytes) (fuel n : Nat) (lo hi r bits bytes : Int)
    (mask : Fl.T) (k : Nat) (v : Int) (k' : Nat)
    (h : get_secure_random_number_loop P Fl rnd fuel (n + 1) lo hi r bits bytes mask k = some (v, k')) :
    ¬ bits < 0 ∧
    ((∃ number : Fl.T, v = lo + Py.intAnd (Fl.trunc number) (Fl.trunc mask) ∧
        ¬ Py.intAnd (Fl.trunc number) (Fl.trunc mask) ≥ r ∧ k' = k + 1) ∨
     get_secure_random_number_loop P Fl rnd fuel n lo hi r bits bytes mask (k + 1) = some (v, k')) := by
  rw [get_secure_random_number_loop] at h
  simp only [Py.urandom?] at h
  by_cases hb : bits < 0
  · simp [hb] at h
  · refine ⟨hb, ?_⟩
    simp only [hb, if_false, Option.bind_some] at h
    cases hf : List.foldlM (m := Option) _ _ _ with
    | none => rw [hf] at h; simp at h
    | some st =>
      rw [hf] at h
      obtain ⟨number, power⟩ := st
      simp only [Option.bind_some] at h
      by_cases hge : Py.intAnd (Fl.trunc number) (Fl.trunc mask) ≥ r
      · right; simpa [hge] using h
      · left
        simp only [hge, if_false, Option.some.injEq, Prod.mk.injEq] at h
        exact ⟨number, h.1.symm, hge, h.2.symm⟩

/-- every value the regenerated loop returns is `lo + number` with `0 ≤ number < r` (the rejection test), provided the truncated mask
is not negative; at least one draw was made -/
theorem gsrn_loop_range {W} (P : Prims W) (Fl : Py.FloatIf) (rnd : Nat → Bytes) (fuel : Nat) (lo hi r bits bytes : Int) (mask : Fl.T)
    (hmask : 0 ≤ bits → 0 ≤ Fl.trunc mask) :
    ∀ (n k : Nat) (v : Int) (k' : Nat),
      get_secure_random_number_loop P Fl rnd fuel n lo hi r bits bytes mask k = some (v, k') → lo ≤ v ∧ v < lo + r ∧ k < k'
  | 0, k, v, k', h => by rw [get_secure_random_number_loop] at h; simp at h
  | n + 1, k, v, k', h => by
    obtain ⟨hb, hcase⟩ := gsrn_loop_succ P Fl rnd fuel n lo hi r bits bytes mask k v k' h
    rcases hcase with ⟨number, hv, hlt, hk⟩ | hrec
    · have h0 := intAnd_nonneg (Fl.trunc number) (Fl.trunc mask) (hmask (by omega))
      subst hv hk
      omega
    · obtain ⟨h1, h2, h3⟩ := gsrn_loop_range P Fl rnd fuel lo hi r bits bytes mask hmask n (k + 1) v k' hrec
      exact ⟨h1, h2, by omega⟩

/-- more loop budget does not change a returned value -/
theorem gsrn_loop_mono {W} (P : Prims W) (Fl : Py.FloatIf) (rnd : Nat → Bytes) (fuel fuel' : Nat) (lo hi r bits bytes : Int) (mask : Fl.T) :
    ∀ (n m k : Nat) (res : Int × Nat), n ≤ m →
      get_secure_random_number_loop P Fl rnd fuel n lo hi r bits bytes mask k = some res →
      get_secure_random_number_loop P Fl rnd fuel' m lo hi r bits bytes mask k = some res
  | 0, m, k, res, _, h => by rw [get_secure_random_number_loop] at h; simp at h
  | n + 1, 0, k, res, hle, h => by omega
  | n + 1, m + 1, k, res, hle, h => by
    rw [get_secure_random_number_loop] at h ⊢
    simp only [Py.urandom?] at h ⊢
    by_cases hb : bits < 0
    · simp [hb] at h
    · simp only [hb, if_false, Option.bind_some] at h ⊢
      cases hf : List.foldlM (m := Option) _ _ _ with
      | none => rw [hf] at h; simp at h
      | some st =>
        rw [hf] at h
        obtain ⟨number, power⟩ := st
        simp only [Option.bind_some] at h ⊢
        by_cases hge : Py.intAnd (Fl.trunc number) (Fl.trunc mask) ≥ r
        · simp only [hge, if_true] at h ⊢
          exact gsrn_loop_mono P Fl rnd fuel fuel' lo hi r bits bytes mask n m (k + 1) res (by omega) h
        · simpa [hge] using h

/-- RANGE PROPERTY of the regenerated `get_secure_random_number(min_v, max_v)`, for every random stream and every float interface whose
`int(math.pow(2, b) - 1)` is not negative for `b ≥ 0`: a returned value lies in `[min_v, max_v)`, and at least one draw was made. -/
theorem get_secure_random_number_range {W} (P : Prims W) (Fl : Py.FloatIf) (rnd : Nat → Bytes) (fuel : Nat) (lo hi : Int) (k : Nat)
    (hmask : ∀ b : Int, 0 ≤ b → 0 ≤ Fl.trunc (Fl.sub (Fl.pow (Fl.ofInt 2) (Fl.ofInt b)) (Fl.ofInt 1)))
    (v : Int) (k' : Nat) (h : get_secure_random_number P Fl rnd fuel lo hi k = some (v, k')) :
    lo ≤ v ∧ v < hi ∧ k < k' := by
  rw [get_secure_random_number] at h
  cases hb : Fl.ceilLog2? (hi - lo) with
  | none => simp [hb] at h
  | some bits =>
    simp only [hb, Option.bind_some] at h
    by_cases h53 : bits > 53
    · simp [h53] at h
    · simp only [h53, if_false] at h
      obtain ⟨h1, h2, h3⟩ := gsrn_loop_range P Fl rnd fuel lo hi (hi - lo) bits _ _ (hmask bits) fuel k v k' h
      exact ⟨h1, by omega, h3⟩

/-- a larger budget does not change a returned value -/
theorem get_secure_random_number_mono {W} (P : Prims W) (Fl : Py.FloatIf) (rnd : Nat → Bytes) (fuel fuel' : Nat) (hle : fuel ≤ fuel')
    (lo hi : Int) (k : Nat) (res : Int × Nat) (h : get_secure_random_number P Fl rnd fuel lo hi k = some res) :
    get_secure_random_number P Fl rnd fuel' lo hi k = some res := by
  rw [get_secure_random_number] at h ⊢
  cases hb : Fl.ceilLog2? (hi - lo) with
  | none => simp [hb] at h
  | some bits =>
    simp only [hb, Option.bind_some] at h ⊢
    by_cases h53 : bits > 53
    · simp [h53] at h
    · simp only [h53, if_false] at h ⊢
      exact gsrn_loop_mono P Fl rnd fuel fuel' lo hi _ bits _ _ fuel fuel' k res hle h

/-- the exact float reading satisfies the hypothesis of the range theorem -/
theorem intFloat_mask_nonneg (b : Int) (hb : 0 ≤ b) :
    0 ≤ Py.intFloat.trunc (Py.intFloat.sub (Py.intFloat.pow (Py.intFloat.ofInt 2) (Py.intFloat.ofInt b)) (Py.intFloat.ofInt 1)) := by
  simp only [Py.intFloat, id]
  have : (0 : Int) < 2 ^ b.toNat := Int.pow_pos (by decide)
  omega

/-! ## mnemonic_new -/

/-- the candidate loop: one step appends exactly one element of `words` -/
theorem draw_step {W} (P : Prims W) (Fl : Py.FloatIf) (rnd : Nat → Bytes) (fuel : Nat) (words : List W) (arr : List W) (k : Nat)
    (arr' : List W) (k' : Nat)
    (h : ((get_secure_random_number P Fl rnd fuel 0 words.length k).bind fun (x : Int × Nat) =>
            (Py.getI? words x.1).bind fun item => some (arr ++ [item], x.2)) = some (arr', k')) :
    ∃ w, w ∈ words ∧ arr' = arr ++ [w] := by
  cases hg : get_secure_random_number P Fl rnd fuel 0 words.length k with
  | none => simp [hg] at h
  | some x =>
    simp only [hg, Option.bind_some] at h
    cases hi : Py.getI? words x.1 with
    | none => simp [hi] at h
    | some w =>
      simp only [hi, Option.bind_some, Option.some.injEq, Prod.mk.injEq] at h
      refine ⟨w, ?_, h.1.symm⟩
      unfold Py.getI? at hi
      split at hi
      · exact List.mem_of_getElem? hi
      · split at hi
        · exact List.mem_of_getElem? hi
        · simp at hi

/-- WHAT `mnemonic_new` RETURNS: a list of exactly `words_count` elements of `words` on which the regenerated `is_basic_seed` of the
regenerated `mnemonic_to_entropy` answers `True` (without raising). -/
theorem mnemonic_new_loop_spec {W} (P : Prims W) (Fl : Py.FloatIf) (rnd : Nat → Bytes) (fuel wc : Nat) (words : List W) :
    ∀ (n k : Nat) (arr : List W) (k' : Nat), mnemonic_new_loop P Fl rnd fuel n wc () words k = some (arr, k') →
      arr.length = wc ∧ (∀ w ∈ arr, w ∈ words) ∧
      ((mnemonic_to_entropy P arr ()).bind fun e => is_basic_seed P e) = some true
  | 0, k, arr, k', h => by rw [mnemonic_new_loop] at h; simp at h
  | n + 1, k, arr, k', h => by
    rw [mnemonic_new_loop] at h
    simp only [] at h
    cases hf : List.foldlM (m := Option) _ _ _ with
    | none => rw [hf] at h; simp at h
    | some st =>
      rw [hf] at h
      obtain ⟨cand, k1⟩ := st
      simp only [Option.bind_some] at h
      have hinv := foldlM_inv _ (fun i (s : List W × Nat) => s.1.length = i ∧ ∀ w ∈ s.1, w ∈ words)
        (by
          intro i s x s' hi hs
          obtain ⟨a, ka⟩ := s
          obtain ⟨a', ka'⟩ := s'
          obtain ⟨w, hw, rfl⟩ := draw_step P Fl rnd fuel words a ka a' ka' hs
          refine ⟨by simp [hi.1], ?_⟩
          intro w' hw'
          rcases List.mem_append.1 hw' with h1 | h1
          · exact hi.2 w' h1
          · simp at h1; subst h1; exact hw)
        (List.range wc) ([], k) (cand, k1) 0 (by simp) hf
      simp only [List.length_range, Nat.zero_add] at hinv
      cases he : mnemonic_to_entropy P cand () with
      | none => simp [he] at h
      | some e =>
        simp only [he, Option.bind_some] at h
        cases hb : is_basic_seed P e with
        | none => simp [hb] at h
        | some b =>
          simp only [hb, Option.bind_some] at h
          by_cases hbt : b = true
          · simp only [hbt, not_true_eq_false, if_false, Option.some.injEq, Prod.mk.injEq] at h
            obtain ⟨rfl, rfl⟩ := h
            exact ⟨hinv.1, hinv.2, by simp [he, hb, hbt]⟩
          · simp only [hbt, not_false_eq_true, if_true] at h
            exact mnemonic_new_loop_spec P Fl rnd fuel wc words n k1 arr k' h

/-- more budget (of the retry loop and of the random-number loop) does not change what `mnemonic_new` returns: the result is fixed by the
random stream as soon as the budget reaches the first accepted candidate -/
theorem mnemonic_new_loop_mono {W} (P : Prims W) (Fl : Py.FloatIf) (rnd : Nat → Bytes) (fuel fuel' : Nat) (hle : fuel ≤ fuel') (wc : Nat)
    (words : List W) :
    ∀ (n m k : Nat) (res : List W × Nat), n ≤ m → mnemonic_new_loop P Fl rnd fuel n wc () words k = some res →
      mnemonic_new_loop P Fl rnd fuel' m wc () words k = some res
  | 0, m, k, res, _, h => by rw [mnemonic_new_loop] at h; simp at h
  | n + 1, 0, k, res, hnm, h => by omega
  | n + 1, m + 1, k, res, hnm, h => by
    rw [mnemonic_new_loop] at h
    simp only [] at h
    cases hf : List.foldlM (m := Option) _ _ _ with
    | none => rw [hf] at h; simp at h
    | some st =>
      rw [hf] at h
      rw [mnemonic_new_loop]
      simp only []
      have hf' := foldlM_mono _
        (fun (s : List W × Nat) (_ : Nat) => (get_secure_random_number P Fl rnd fuel' 0 words.length s.2).bind fun (x : Int × Nat) =>
          (Py.getI? words x.1).bind fun item => some (s.1 ++ [item], x.2))
        (by
          intro s x s' hs
          cases hg : get_secure_random_number P Fl rnd fuel 0 words.length s.2 with
          | none => simp [hg] at hs
          | some r =>
            rw [get_secure_random_number_mono P Fl rnd fuel fuel' hle 0 words.length s.2 r hg]
            simpa [hg] using hs)
        (List.range wc) ([], k) st hf
      rw [show List.foldlM (m := Option) _ _ _ = some st from hf']
      obtain ⟨cand, k1⟩ := st
      simp only [Option.bind_some] at h ⊢
      cases he : mnemonic_to_entropy P cand () with
      | none => simp [he] at h
      | some e =>
        simp only [he, Option.bind_some] at h ⊢
        cases hb : is_basic_seed P e with
        | none => simp [hb] at h
        | some b =>
          simp only [hb, Option.bind_some] at h ⊢
          by_cases hbt : b = true
          · simpa [hbt] using h
          · simp only [hbt, not_false_eq_true, if_true] at h ⊢
            exact mnemonic_new_loop_mono P Fl rnd fuel fuel' hle wc words n m k1 res (by omega) h

end TonVerif.Proofs.SrcAdnlLoop
