/-
The `store_*` methods of builder.py and `TvmBitarray.extend / append / frombytes / check_overflow`, regenerated from the source
(Generated/BuilderOps.lean, translator harness/translate/pymeth.py), equal the hand model `Model.BOp.*` for ALL arguments and ALL
builder states: same decision to raise (value range of `int2ba`, `check_overflow`, the reference tests), same builder afterwards
(partial writes of a raising call included), and `return self`.

`ofFlag r` reads a model result (state, returned normally?) in the shape of a regenerated method (state, `some ()` / `none`).
-/
import TonVerif.Generated.BuilderOps
import TonVerif.Proofs.SrcArith

namespace TonVerif.Proofs.SrcBuilder
open TonVerif TonVerif.Model TonVerif.Generated.BuilderOps TonVerif.Proofs.SrcArith
variable {R : Type}
set_option linter.unusedSimpArgs false
set_option linter.unusedVariables false

/-- a model result `(state, returned normally?)` in the shape of a regenerated method -/
def ofFlag {σ : Type} (r : σ × Bool) : σ × Option Unit := (r.1, if r.2 then some () else none)

theorem ofFlag_fst {σ : Type} (r : σ × Bool) : (ofFlag r).1 = r.1 := rfl
theorem ofFlag_none {σ : Type} (r : σ × Bool) : (ofFlag r).2 = none ↔ r.2 = false := by
  rcases r with ⟨s, _ | _⟩ <;> simp [ofFlag]
theorem ofFlag_some {σ : Type} (r : σ × Bool) : (ofFlag r).2 = some () ↔ r.2 = true := by
  rcases r with ⟨s, _ | _⟩ <;> simp [ofFlag]

/-! ### generation independent: the sequencing combinators -/

@[simp] theorem bindS_ret {σ α : Type} (r : σ × Option α) : Py.bindS r (fun s a => (s, some a)) = r := by
  rcases r with ⟨s, _ | a⟩ <;> rfl

@[simp] theorem bindS_retU {σ : Type} (r : σ × Option Unit) : Py.bindS r (fun s _ => (s, some ())) = r := by
  rcases r with ⟨s, _ | a⟩ <;> rfl

theorem bindS_assoc {σ α β γ : Type} (r : σ × Option α) (k : σ → α → σ × Option β) (k' : σ → β → σ × Option γ) :
    Py.bindS (Py.bindS r k) k' = Py.bindS r (fun s a => Py.bindS (k s a) k') := by
  rcases r with ⟨s, _ | a⟩ <;> rfl

theorem bindS_ofFlag {σ β : Type} (r : σ × Bool) (k : σ → Unit → σ × Option β) :
    Py.bindS (ofFlag r) k = if r.2 then k r.1 () else (r.1, none) := by
  rcases r with ⟨s, _ | _⟩ <;> rfl

/-- `f ⊳ g` of the model is sequencing of the regenerated code -/
theorem andThen_ofFlag (f g : BOp R) (b : Builder R) :
    ofFlag ((f ⊳ g) b) = Py.bindS (ofFlag (f b)) fun s _ => ofFlag (g s) := by
  unfold BOp.andThen; rw [bindS_ofFlag]; cases h : (f b).2 <;> simp [ofFlag, h]

theorem ofFlag_fail (b : Builder R) : ofFlag (BOp.fail b) = (b, none) := rfl
theorem ofFlag_skip (b : Builder R) : ofFlag (BOp.skip b) = (b, some ()) := rfl

/-- both sides are `if`s over (possibly differently spelled) arithmetic tests: split everything, equal branches are `rfl`,
contradictory ones are refuted by `omega` -/
macro "src_ite" : tactic =>
  `(tactic| (repeat' split) <;> first | rfl | (exfalso; omega) | (simp_all; done) | omega)

/-- decide the next `if` of the goal from the hypotheses in context, however its arithmetic test is spelled -/
macro "srcb_if" : tactic => `(tactic| first
  | (rw [if_pos]; (first | done | (rotate_left; omega)))
  | (rw [if_neg]; (first | done | (rotate_left; omega))))

theorem natAbs_mag (v : Int) : (if v ≥ (0 : Int) then v else (-v - 1)).natAbs = if v ≥ 0 then v.toNat else (-v - 1).toNat := by
  split <;> omega

/-! ### the trusted readings of `int2ba` are the model's -/

theorem int2ba_unsigned (v : Int) (n : Nat) : Py.int2ba? v n false = BOp.int2baU v n := by
  unfold Py.int2ba? BOp.int2baU
  by_cases h : n = 0 <;> simp [h]
  by_cases h2 : v < 0 <;> simp [h2]

theorem int2ba_signed (v : Int) (n : Nat) : Py.int2ba? v n true = BOp.int2baS v n := by
  unfold Py.int2ba? BOp.int2baS
  by_cases h : n = 0 <;> simp [h]

/-! ### TvmBitarray: `extend`, `append`, `frombytes` are `BOp.extend` on the builder's bit list -/

theorem src_check_overflow (n : Nat) (bits : Bits) :
    TvmBitarray_check_overflow n bits = (bits, if bits.length + n > 1023 then none else some ()) := by
  unfold TvmBitarray_check_overflow; src_ite

theorem src_extend_eq (x : Bits) (b : Builder R) :
    Py.zoom (TvmBitarray_extend x b.bits) (fun v => { b with bits := v }) = ofFlag (BOp.extend x b) := by
  unfold TvmBitarray_extend BOp.extend ofFlag Py.zoom Py.bindS
  rw [src_check_overflow]
  by_cases h : b.bits.length + x.length > 1023 <;> simp [h]

theorem src_frombytes_eq (x : Bytes) (b : Builder R) :
    Py.zoom (TvmBitarray_frombytes x b.bits) (fun v => { b with bits := v }) = ofFlag (BOp.storeBytes x b) := by
  unfold TvmBitarray_frombytes BOp.storeBytes BOp.extend ofFlag Py.zoom Py.bindS
  rw [src_check_overflow]
  have hl : (bytesToBits x).length = x.length * 8 := by
    unfold bytesToBits
    induction x with
    | nil => rfl
    | cons a t ih => simp only [List.flatMap_cons, List.length_append, ih, List.length_cons]; simp [byteToBits, natToBits]; omega
  by_cases h : b.bits.length + x.length * 8 > 1023 <;> simp [h, hl]

theorem src_append_bool_eq (v : Bool) (b : Builder R) :
    Py.zoom (TvmBitarray_append_bool v b.bits) (fun w => { b with bits := w }) = ofFlag (BOp.storeBit v b) := by
  unfold TvmBitarray_append_bool BOp.storeBit BOp.extend ofFlag Py.zoom Py.bindS
  rw [src_check_overflow]
  by_cases h : b.bits.length + 1 > 1023 <;> simp [h]

/-- an int bit: `0` / `1` are the bits, anything else is refused by `bitarray.append` (ValueError), after the capacity check;
the builder is unchanged by a refused call. -/
theorem src_append_nat_eq (v : Nat) (b : Builder R) :
    Py.zoom (TvmBitarray_append_nat v b.bits) (fun w => { b with bits := w }) =
      if v < 2 then ofFlag (BOp.storeBit (decide (v = 1)) b) else (b, none) := by
  unfold TvmBitarray_append_nat BOp.storeBit BOp.extend ofFlag Py.zoom Py.bindS Py.bindO Py.bitOfNat?
  rw [src_check_overflow]
  have hv : v = 0 ∨ v = 1 ∨ 2 ≤ v := by omega
  by_cases h : b.bits.length + 1 > 1023
  · rcases hv with rfl | rfl | hv
    · simp [h]
    · simp [h]
    · have : ¬ v < 2 := by omega
      simp [h, this]
  · rcases hv with rfl | rfl | hv
    · simp [h]
    · simp [h]
    · have h2 : ¬ v < 2 := by omega
      have h0 : v ≠ 0 := by omega
      have h1 : v ≠ 1 := by omega
      simp [h, h2, h0, h1]

/-! ### Builder: fixed-width integers, bits, bytes -/

theorem src_store_uint_eq (v : Int) (n : Nat) (b : Builder R) : store_uint v n b = ofFlag (BOp.storeUint v n b) := by
  unfold store_uint BOp.storeUint
  rw [int2ba_unsigned]
  cases BOp.int2baU v n with
  | none => rfl
  | some bs => simp only [Py.bindO, src_extend_eq, bindS_retU]

theorem src_store_int_eq (v : Int) (n : Nat) (b : Builder R) : store_int v n b = ofFlag (BOp.storeInt v n b) := by
  unfold store_int BOp.storeInt
  rw [int2ba_signed]
  cases BOp.int2baS v n with
  | none => rfl
  | some bs => simp only [Py.bindO, src_extend_eq, bindS_retU]

theorem src_store_bits_eq (bs : Bits) (b : Builder R) : store_bits bs b = ofFlag (BOp.storeBits bs b) := by
  unfold store_bits BOp.storeBits; simp only [src_extend_eq, bindS_retU]

theorem src_store_bytes_eq (bs : Bytes) (b : Builder R) : store_bytes bs b = ofFlag (BOp.storeBytes bs b) := by
  unfold store_bytes; simp only [src_frombytes_eq, bindS_retU]

theorem src_store_bool_eq (v : Bool) (b : Builder R) : store_bool v b = ofFlag (BOp.storeBit v b) := by
  unfold store_bool
  have : decide (v = true) = v := by cases v <;> rfl
  simp only [this, src_append_bool_eq, bindS_retU]

theorem src_store_bit_eq (v : Nat) (b : Builder R) :
    store_bit v b = if v < 2 then ofFlag (BOp.storeBit (decide (v = 1)) b) else (b, none) := by
  unfold store_bit; simp only [src_append_nat_eq, bindS_retU]

theorem src_store_bit_int_eq (v : Nat) (b : Builder R) :
    store_bit_int v b = if v < 2 then ofFlag (BOp.storeBit (decide (v = 1)) b) else (b, none) := by
  unfold store_bit_int; simp only [src_append_nat_eq, bindS_retU]

/-- `store_bit(0)` / `store_bit(1)` -/
theorem src_store_bit_bool (v : Bool) (b : Builder R) : store_bit (if v then 1 else 0) b = ofFlag (BOp.storeBit v b) := by
  rw [src_store_bit_eq]; cases v <;> simp

/-! ### references -/

theorem src_store_ref_eq (r : R) (b : Builder R) : store_ref r b = ofFlag (BOp.storeRef r b) := by
  unfold store_ref BOp.storeRef ofFlag
  src_ite

theorem src_store_maybe_ref_eq (r : Option R) (b : Builder R) : store_maybe_ref r b = ofFlag (BOp.storeMaybeRef r b) := by
  unfold store_maybe_ref BOp.storeMaybeRef
  cases r with
  | none =>
    have := src_store_bit_bool false b
    simp only [Bool.false_eq_true, if_false] at this
    simp only [this, bindS_retU]
  | some c =>
    have := src_store_bit_bool true b
    simp only [if_true] at this
    simp only [this, bindS_retU, andThen_ofFlag, src_store_ref_eq]

theorem src_store_dict_eq (r : Option R) (b : Builder R) : store_dict r b = ofFlag (BOp.storeDict r b) := by
  unfold store_dict BOp.storeDict; simp only [src_store_maybe_ref_eq, bindS_retU]

/-! ### variable-length integers, coins -/

theorem src_store_var_uint_eq (v : Int) (k : Nat) (b : Builder R) :
    store_var_uint v k b = ofFlag (BOp.storeVarUint v k b) := by
  unfold store_var_uint BOp.storeVarUint
  by_cases h0 : v = 0
  · srcb_if; rw [if_pos h0]
    simp only [h0, src_store_uint_eq, bindS_retU]
  · srcb_if; rw [if_neg h0]
    simp only [src_store_uint_eq, bindS_retU, andThen_ofFlag, ceilDiv8, py_bitLength_eq_bitLen]

theorem src_store_var_int_eq (v : Int) (k : Nat) (b : Builder R) :
    store_var_int v k b = ofFlag (BOp.storeVarInt v k b) := by
  unfold store_var_int BOp.storeVarInt
  by_cases h0 : v = 0
  · srcb_if; rw [if_pos h0]
    simp only [h0, src_store_uint_eq, bindS_retU]
  · srcb_if; rw [if_neg h0]
    simp only [src_store_uint_eq, src_store_int_eq, bindS_retU, andThen_ofFlag, ceilDiv8, py_bitLength_eq_bitLen,
      natAbs_mag, Nat.add_assoc]

theorem src_store_coins_eq (v : Int) (b : Builder R) : store_coins v b = ofFlag (BOp.storeCoins v b) := by
  unfold store_coins BOp.storeCoins; simp only [src_store_var_uint_eq, bindS_retU]

/-! ### cells and slices -/

theorem src_store_cell_eq (c : Py.CellV R) (b : Builder R) : store_cell c b = ofFlag (BOp.storeCell c.bits c.refs b) := by
  unfold store_cell BOp.storeCell
  by_cases h : b.refs.length + c.refs.length > 4
  · rw [if_pos h]
    split
    · rfl
    · exfalso; omega
  · rw [if_neg h]
    split
    · exfalso; omega
    · simp only [src_store_bits_eq, BOp.storeBits]
      rw [bindS_ofFlag]
      cases hx : (BOp.extend c.bits b).2 <;> simp [ofFlag, hx]

/-- the loop of `store_slice` over the remaining references is the model's `storeRefs` -/
theorem src_forS_refs (refs : List R) (off k : Nat) (hk : off + k = refs.length) (b : Builder R) :
    Py.forS (List.range' off k) b (fun i self =>
        Py.bindO (refs[i]?) self fun item => store_ref item self) =
      ofFlag (BOp.storeRefs (refs.drop off) b) := by
  induction k generalizing off b with
  | zero =>
    have : refs.drop off = [] := List.drop_eq_nil_of_le (by omega)
    simp [List.range', Py.forS, this, BOp.storeRefs, ofFlag_skip]
  | succ k ih =>
    have hlt : off < refs.length := by omega
    have hd : refs.drop off = refs[off] :: refs.drop (off + 1) := (List.drop_eq_getElem_cons hlt)
    rw [hd, List.range'_succ, Py.forS]
    show Py.bindS (Py.bindO (refs[off]?) b fun item => store_ref item b) _ = _
    rw [List.getElem?_eq_getElem hlt]
    show Py.bindS (store_ref refs[off] b) _ = _
    rw [src_store_ref_eq, BOp.storeRefs, andThen_ofFlag]
    congr 1
    funext s _
    exact ih (off + 1) (by omega) s

theorem src_store_slice_eq (s : Py.SliceSt R) (hs : s.ref_offset ≤ s.refs.length) (b : Builder R) :
    store_slice s b = ofFlag (BOp.storeSlice s.bits (s.refs.drop s.ref_offset) b) := by
  unfold store_slice BOp.storeSlice
  rw [List.length_drop]
  by_cases h : b.refs.length + (s.refs.length - s.ref_offset) > 4
  · rw [if_pos h]
    split
    · rfl
    · exfalso; omega
  · rw [if_neg h]
    split
    · exfalso; omega
    · simp only [src_store_bits_eq, bindS_retU, andThen_ofFlag, BOp.storeBits]
      congr 1
      funext s' _
      exact src_forS_refs s.refs s.ref_offset (s.refs.length - s.ref_offset) (by omega) s'

/-! ### strings, addresses -/

/-- `store_string(value)`: the argument is `value.encode()` (a str travels as its UTF-8 bytes) -/
theorem src_store_string_eq (bs : Bytes) (b : Builder R) : store_string bs b = ofFlag (BOp.storeString bs b) := by
  unfold store_string BOp.storeString
  by_cases h : bs.length > 127
  · rw [if_pos h]
    split
    · exfalso; omega
    · rfl
  · rw [if_neg h]
    split
    · simp only [src_frombytes_eq, bindS_retU]
    · exfalso; omega

/-- an internal address as the hand model writes it -/
def addrOf (a : Py.AddrV) : Addr := .std (a.anycast.map fun c => (c.depth, c.rewrite_pfx)) a.wc a.hash_part

theorem src_store_address_none_eq (u : Unit) (b : Builder R) : store_address_none u b = ofFlag (BOp.storeAddress .none b) := by
  unfold store_address_none BOp.storeAddress
  simp only [src_store_bits_eq, bindS_retU]

theorem src_store_address_std_eq (a : Py.AddrV) (b : Builder R) :
    store_address_address a b = ofFlag (BOp.storeAddress (addrOf a) b) := by
  obtain ⟨wc, h, any⟩ := a
  unfold store_address_address BOp.storeAddress addrOf
  have h0 := fun (x : Builder R) => src_store_bit_bool false x
  have h1 := fun (x : Builder R) => src_store_bit_bool true x
  simp only [Bool.false_eq_true, if_false, if_true] at h0 h1
  cases any with
  | none =>
    simp only [Option.map, andThen_ofFlag, src_store_bits_eq, src_store_int_eq, src_store_bytes_eq, h0, bindS_retU, bindS_assoc]
  | some c =>
    simp only [Option.map, andThen_ofFlag, src_store_bits_eq, src_store_int_eq, src_store_uint_eq, src_store_bytes_eq, h1, bindS_retU, bindS_assoc]

/-! ### `store_address(ExternalAddress)`: `ExternalAddress.to_cell()` builds a cell in a fresh builder, `end_cell`, then `store_cell`

`mk` = `Cell(bits, refs, type_)` as `end_cell` calls it, a parameter of the translation (`none` = the constructor raises). The
theorem assumes what the constructor guarantees for a reference-free cell: it is built (depth 0) and keeps its bits. -/

theorem bindL_ofFlag {σ τ β : Type} (r : τ × Bool) (self : σ) (k : τ → Unit → σ × Option β) :
    Py.bindL (ofFlag r) self k = if r.2 then k r.1 () else (self, none) := by
  rcases r with ⟨s, _ | _⟩ <;> rfl

theorem extend_refs (xs : Bits) (b : Builder R) : (BOp.extend xs b).1.refs = b.refs := by
  unfold BOp.extend; split <;> rfl

theorem storeUint_refs (v : Int) (n : Nat) (b : Builder R) : (BOp.storeUint v n b).1.refs = b.refs := by
  unfold BOp.storeUint; cases BOp.int2baU v n <;> simp [extend_refs, BOp.fail]

/-- the cell `ExternalAddress.to_cell()` builds -/
def extInner (len : Nat) (val : Int) : Builder R × Bool :=
  (BOp.storeBits [false, true] ⊳ BOp.storeUint len 9 ⊳ (if len = 0 ∧ val = 0 then BOp.skip else BOp.storeUint val len))
    (Builder.empty : Builder R)

theorem storeBits_refs (xs : Bits) (b : Builder R) : (BOp.storeBits xs b).1.refs = b.refs := extend_refs xs b

theorem src_end_cell_snd (mk : Bits → List R → Option (Py.CellV R)) (hmk : ∀ bits, mk bits [] = some ⟨bits, []⟩)
    (a : Py.ExtAddrV) (b : Builder R) (hb : b.refs = []) :
    (Py.bindL (end_cell mk b) a fun _ r => (a, some r)).2 = some ⟨b.bits, []⟩ := by
  unfold end_cell Py.bindL Py.bindO
  rw [hb, hmk]

theorem src_to_cell_eq (mk : Bits → List R → Option (Py.CellV R)) (hmk : ∀ bits, mk bits [] = some ⟨bits, []⟩) (a : Py.ExtAddrV) :
    (ExternalAddress_to_cell mk a).2 =
      if (extInner (R := R) a.len a.external_address).2 then some ⟨(extInner (R := R) a.len a.external_address).1.bits, []⟩ else none := by
  obtain ⟨val, len⟩ := a
  unfold ExternalAddress_to_cell extInner BOp.andThen
  simp only [src_store_bits_eq, src_store_uint_eq, bindL_ofFlag]
  have hb : (({ bits := [], refs := [] } : Builder R)) = Builder.empty := rfl
  rw [hb]
  have e1 : (BOp.storeBits [false, true] (Builder.empty : Builder R)).1.refs = [] := by rw [storeBits_refs]; rfl
  have e2 : (BOp.storeUint (len : Int) 9 (BOp.storeBits [false, true] (Builder.empty : Builder R)).1).1.refs = [] := by
    rw [storeUint_refs, e1]
  have e3 : (BOp.storeUint val len (BOp.storeUint (len : Int) 9 (BOp.storeBits [false, true] (Builder.empty : Builder R)).1).1).1.refs = [] := by
    rw [storeUint_refs, e2]
  cases h1 : (BOp.storeBits [false, true] (Builder.empty : Builder R)).2
  · simp [h1]
  · cases h2 : (BOp.storeUint (len : Int) 9 (BOp.storeBits [false, true] (Builder.empty : Builder R)).1).2
    · simp [h1, h2]
    · by_cases hz : len = 0 ∧ val = 0
      · obtain ⟨hl, hv⟩ := hz
        subst hl; subst hv
        simp only [h1, h2, and_self, if_true, BOp.skip]
        srcb_if
        exact src_end_cell_snd mk hmk _ _ e2
      · simp only [h1, h2, hz, if_true, if_false]
        srcb_if
        cases h3 : (BOp.storeUint val len (BOp.storeUint (len : Int) 9 (BOp.storeBits [false, true] (Builder.empty : Builder R)).1).1).2
        · simp [h3]
        · simp only [h3, if_true]
          exact src_end_cell_snd mk hmk _ _ e3

theorem src_store_address_ext_eq (mk : Bits → List R → Option (Py.CellV R)) (hmk : ∀ bits, mk bits [] = some ⟨bits, []⟩)
    (a : Py.ExtAddrV) (b : Builder R) :
    store_address_externaladdress mk a b = ofFlag (BOp.storeAddress (.ext a.len a.external_address) b) := by
  unfold store_address_externaladdress BOp.storeAddress
  rw [src_to_cell_eq mk hmk a]
  show _ = ofFlag (if (extInner (R := R) a.len a.external_address).2 then
      BOp.storeCell (extInner (R := R) a.len a.external_address).1.bits [] b else (b, false))
  split
  · simp only [Py.bindO, src_store_cell_eq, bindS_retU]
  · rfl

end TonVerif.Proofs.SrcBuilder
