/-
Helper lemmas for C19 (Properties/C19.lean): potential-function argument for the iterative `Cell.order`,
byte accounting for the BoC parser loops, call-tree bound for the dictionary parser, loop bounds of the TL parser.
-/
import TonVerif.Model.Cost

namespace TonVerif.Proofs.Cost
open TonVerif TonVerif.Model TonVerif.Model.Cost

/-! ## order -/

/-- Σ_{v<n, v∉vis} f v : weight of the cells not yet expanded -/
def W (f : Nat → Nat) : Nat → List Nat → Nat
  | 0, _ => 0
  | n+1, vis => W f n vis + (if n ∈ vis then 0 else f n)

theorem W_nil (f : Nat → Nat) (n : Nat) : W f n [] = sumTo f n := by
  induction n with
  | zero => rfl
  | succ k ih => simp [W, sumTo, ih]

theorem W_cons_ge (f : Nat → Nat) (n v : Nat) (vis : List Nat) (h : n ≤ v) : W f n (v :: vis) = W f n vis := by
  induction n with
  | zero => rfl
  | succ k ih =>
    have hk : k ≠ v := by omega
    simp [W, ih (by omega), hk]

theorem W_cons_lt (f : Nat → Nat) (n v : Nat) (vis : List Nat) (h : v < n) (hv : v ∉ vis) :
    W f n (v :: vis) + f v = W f n vis := by
  induction n with
  | zero => omega
  | succ k ih =>
    by_cases hk : k = v
    · subst hk
      simp [W, hv, W_cons_ge f k k vis (Nat.le_refl _)]
    · have h2 := ih (by omega)
      simp only [W, List.mem_cons, hk, false_or]
      omega

theorem sumTo_succ (f : Nat → Nat) (n : Nat) : sumTo (fun v => f v + 1) n = sumTo f n + n := by
  induction n with
  | zero => rfl
  | succ k ih => simp only [sumTo, ih]; omega

/-- Σ of `f` over the "expanded" markers `(v, True)` on the stack -/
def markers (f : Nat → Nat) : List (Nat × Bool) → Nat
  | [] => 0
  | (v, true) :: r => f v + markers f r
  | (_, false) :: r => markers f r

theorem markers_append (f : Nat → Nat) (a b : List (Nat × Bool)) : markers f (a ++ b) = markers f a + markers f b := by
  induction a with
  | nil => simp [markers]
  | cons p r ih =>
    obtain ⟨v, b'⟩ := p
    cases b' <;> simp [markers, ih] <;> omega

theorem markers_false (f : Nat → Nat) (l : List Nat) : markers f ((l.map (fun c => (c, false))).reverse) = 0 := by
  induction l with
  | nil => rfl
  | cons c r ih => simp [markers_append, ih, markers]

def lsum (f : Nat → Nat) (l : List Nat) : Nat := (l.map f).sum

def StackOK (n : Nat) (st : List (Nat × Bool)) : Prop := ∀ p ∈ st, p.1 < n

/-- potential: pending stack entries + (deg+1) for every cell not yet expanded -/
def phi (g : Dag) (s : OSt) : Nat := s.stack.length + W (fun v => deg g v + 1) g.length s.visited

/-- conserved: every cell is unexpanded, or has its marker on the stack, or is in the post-order -/
def Q (g : Dag) (f : Nat → Nat) (s : OSt) : Nat := lsum f s.post + markers f s.stack + W f g.length s.visited

theorem step_inv (g : Dag) (hg : g.WF) (f : Nat → Nat) (s : OSt) (hs : StackOK g.length s.stack) (hne : s.stack ≠ []) :
    StackOK g.length (orderStep g s).stack ∧ (orderStep g s).steps = s.steps + 1 ∧
      phi g (orderStep g s) + 1 = phi g s ∧ Q g f (orderStep g s) = Q g f s := by
  obtain ⟨stack, visited, post, steps⟩ := s
  cases stack with
  | nil => exact absurd rfl hne
  | cons p rest =>
    obtain ⟨v, b⟩ := p
    have hv : v < g.length := hs (v, b) (by simp)
    have hrest : StackOK g.length rest := fun q hq => hs q (by simp [hq])
    cases b with
    | true =>
      refine ⟨hrest, rfl, ?_, ?_⟩
      · simp [orderStep, phi]; omega
      · simp [orderStep, Q, lsum, markers]; omega
    | false =>
      by_cases hm : v ∈ visited
      · refine ⟨?_, ?_, ?_, ?_⟩
        · simpa [orderStep, hm] using hrest
        · simp [orderStep, hm]
        · simp [orderStep, hm, phi]; omega
        · simp [orderStep, hm, Q, markers]
      · refine ⟨?_, ?_, ?_, ?_⟩
        · simp only [orderStep, hm, if_false]
          intro q hq
          simp only [List.mem_append, List.mem_reverse, List.mem_map, List.mem_cons] at hq
          rcases hq with ⟨c, hc, rfl⟩ | rfl | hq
          · exact hg v c hc
          · exact hv
          · exact hrest q hq
        · simp [orderStep, hm]
        · have hw := W_cons_lt (fun v => deg g v + 1) g.length v visited hv hm
          simp only [orderStep, hm, if_false, phi, List.length_append, List.length_reverse, List.length_map,
            List.length_cons]
          simp only [deg] at hw ⊢
          omega
        · have hw := W_cons_lt f g.length v visited hv hm
          simp only [orderStep, hm, if_false, Q, markers_append, markers_false, markers]
          omega

theorem loop_inv (g : Dag) (hg : g.WF) (f : Nat → Nat) : ∀ (fuel : Nat) (s : OSt), StackOK g.length s.stack → phi g s ≤ fuel →
    (orderLoop g fuel s).stack = [] ∧ (orderLoop g fuel s).steps + phi g (orderLoop g fuel s) = s.steps + phi g s ∧
      Q g f (orderLoop g fuel s) = Q g f s := by
  intro fuel
  induction fuel with
  | zero =>
    intro s _ hphi
    have : s.stack = [] := by
      have : s.stack.length = 0 := by simp only [phi] at hphi; omega
      exact List.length_eq_zero_iff.mp this
    simp [orderLoop, this]
  | succ k ih =>
    intro s hs hphi
    by_cases he : s.stack = []
    · simp [orderLoop, he]
    · have hemp : s.stack.isEmpty = false := by
        cases h : s.stack with
        | nil => exact absurd h he
        | cons _ _ => rfl
      obtain ⟨h1, h2, h3, h4⟩ := step_inv g hg f s hs he
      obtain ⟨i1, i2, i3⟩ := ih (orderStep g s) h1 (by omega)
      simp only [orderLoop, hemp, Bool.false_eq_true, if_false]
      refine ⟨i1, ?_, ?_⟩
      · omega
      · rw [i3, h4]

theorem phi_init (g : Dag) (root : Nat) : phi g (orderInit root) = 1 + g.length + edges g := by
  simp only [phi, orderInit, W_nil, List.length_cons, List.length_nil, edges]
  rw [sumTo_succ]; omega

theorem lsum_one (l : List Nat) : lsum (fun _ => 1) l = l.length := by
  induction l with
  | nil => rfl
  | cons a r ih => simp only [lsum, List.map_cons, List.sum_cons, List.length_cons] at ih ⊢; omega

theorem sumTo_one (n : Nat) : sumTo (fun _ => 1) n = n := by
  induction n with
  | zero => rfl
  | succ k ih => simp [sumTo, ih]

/-- all facts about a run of `Cell.order` -/
theorem order_run (g : Dag) (hg : g.WF) (root : Nat) (hr : root < g.length) :
    (orderRun g root).stack = [] ∧ (orderRun g root).steps ≤ 1 + g.length + edges g ∧
      (orderRun g root).post.length ≤ g.length ∧ lsum (deg g) (orderRun g root).post ≤ edges g := by
  have hs : StackOK g.length (orderInit root).stack := by
    intro p hp; simp [orderInit] at hp; subst hp; exact hr
  have hphi := phi_init g root
  obtain ⟨a1, a2, _⟩ := loop_inv g hg (fun _ => 1) (1 + g.length + edges g) (orderInit root) hs (by omega)
  obtain ⟨_, _, b3⟩ := loop_inv g hg (fun _ => 1) (1 + g.length + edges g) (orderInit root) hs (by omega)
  obtain ⟨_, _, c3⟩ := loop_inv g hg (deg g) (1 + g.length + edges g) (orderInit root) hs (by omega)
  refine ⟨a1, ?_, ?_, ?_⟩
  · have : (orderInit root).steps = 0 := rfl
    simp only [orderRun]; omega
  · have hq : Q g (fun _ => 1) (orderInit root) = g.length := by
      simp [Q, orderInit, lsum, markers, W_nil, sumTo_one]
    simp only [orderRun]
    rw [hq] at b3
    simp only [Q, a1, markers, lsum_one] at b3
    omega
  · have hq : Q g (deg g) (orderInit root) = edges g := by
      simp [Q, orderInit, lsum, markers, W_nil, edges]
    simp only [orderRun]
    rw [hq] at c3
    simp only [Q, a1, markers] at c3
    omega

/-! ## to_boc -/

theorem toBoc_steps_le (g : Dag) (hg : g.WF) (root : Nat) (hr : root < g.length) (hasIdx hasCrc hasCache : Bool) :
    toBocSteps g root hasIdx hasCrc hasCache ≤ 5 * (g.length + edges g) + 1 + (toBoc g root hasIdx hasCrc hasCache).bytes := by
  obtain ⟨_, h2, h3, h4⟩ := order_run g hg root hr
  simp only [lsum] at h4
  simp only [toBocSteps, toBoc]
  cases hasIdx <;> cases hasCrc <;> simp <;> omega

/-! ## construction / hashing -/

theorem sumTo_le (f h : Nat → Nat) : ∀ n, (∀ v, v < n → f v ≤ h v) → sumTo f n ≤ sumTo h n := by
  intro n
  induction n with
  | zero => intro _; exact Nat.le_refl _
  | succ k ih =>
    intro hk
    have h1 := ih (fun v hv => hk v (by omega))
    have h2 := hk k (by omega)
    simp only [sumTo]; omega

theorem sumTo_add (f h : Nat → Nat) (n : Nat) : sumTo (fun v => f v + h v) n = sumTo f n + sumTo h n := by
  induction n with
  | zero => rfl
  | succ k ih => simp only [sumTo, ih]; omega

theorem sumTo_mul (c : Nat) (f : Nat → Nat) (n : Nat) : sumTo (fun v => c * f v) n = c * sumTo f n := by
  induction n with
  | zero => rfl
  | succ k ih => simp only [sumTo, ih, Nat.mul_add]

theorem sumTo_const (c n : Nat) : sumTo (fun _ => c) n = c * n := by
  induction n with
  | zero => rfl
  | succ k ih => simp only [sumTo, ih, Nat.mul_succ]

theorem hashWork_eq (g : Dag) : hashWork g = 4 * (g.length + edges g) := by
  have h := sumTo_mul 4 (fun v => 1 + deg g v) g.length
  have h2 := sumTo_add (fun _ => 1) (deg g) g.length
  have h3 := sumTo_const 1 g.length
  simp only [hashWork, edges] at *
  omega

theorem ctorSteps_le (lv d : Nat) (h : lv ≤ 4) : ctorSteps lv d ≤ 4 + 9 * d := by
  have h1 : lv * (1 + 2 * d) ≤ 4 * (1 + 2 * d) := Nat.mul_le_mul_right _ h
  simp only [ctorSteps]; omega

theorem ctorBytes_le (lv d size : Nat) (h : lv ≤ 4) : ctorBytes lv d size ≤ 4 * size + 136 + 136 * d := by
  have h1 : lv * (max size 34 + 34 * d) ≤ 4 * (max size 34 + 34 * d) := Nat.mul_le_mul_right _ h
  simp only [ctorBytes]; omega

theorem buildSteps_le (lv : Nat → Nat) (g : Dag) (h : ∀ v, lv v ≤ 4) : buildSteps lv g ≤ 4 * g.length + 9 * edges g := by
  have h1 := sumTo_le (fun v => ctorSteps (lv v) (deg g v)) (fun v => 4 + 9 * deg g v) g.length
    (fun v _ => ctorSteps_le _ _ (h v))
  have h2 := sumTo_add (fun _ => 4) (fun v => 9 * deg g v) g.length
  have h3 := sumTo_mul 9 (deg g) g.length
  have h4 := sumTo_const 4 g.length
  simp only [buildSteps, edges] at *
  omega

theorem buildBytes_le (lv : Nat → Nat) (g : Dag) (h : ∀ v, lv v ≤ 4) :
    buildBytes lv g ≤ 4 * cellBytes g + 136 * (g.length + edges g) := by
  have h1 := sumTo_le (fun v => ctorBytes (lv v) (deg g v) ((g[v]?.map (·.size)).getD 0))
    (fun v => 4 * ((g[v]?.map (·.size)).getD 0) + (136 + 136 * deg g v)) g.length
    (fun v _ => by have := ctorBytes_le (lv v) (deg g v) ((g[v]?.map (·.size)).getD 0) (h v); omega)
  have h2 := sumTo_add (fun v => 4 * ((g[v]?.map (·.size)).getD 0)) (fun v => 136 + 136 * deg g v) g.length
  have h3 := sumTo_mul 4 (fun v => (g[v]?.map (·.size)).getD 0) g.length
  have h4 := sumTo_add (fun _ => 136) (fun v => 136 * deg g v) g.length
  have h5 := sumTo_mul 136 (deg g) g.length
  have h6 := sumTo_const 136 g.length
  simp only [buildBytes, cellBytes, edges] at *
  omega

/-! ## BoC parser -/

theorem cellLoop_bound (sb : Nat) (hsb : 1 ≤ sb) : ∀ (cnt : Nat) (data : Bytes),
    2 * (cellLoop sb cnt data).1 + (cellLoop sb cnt data).2.1 ≤ data.length + 2 ∧
    ((cellLoop sb cnt data).2.2 = true →
      (cellLoop sb cnt data).1 = cnt ∧ 2 * (cellLoop sb cnt data).1 + (cellLoop sb cnt data).2.1 ≤ data.length) := by
  intro cnt
  induction cnt with
  | zero => intro data; simp [cellLoop]
  | succ k ih =>
    intro data
    match data with
    | [] => simp [cellLoop]
    | [_] => simp [cellLoop]
    | d1 :: d2 :: rest =>
      have hmul : d1 % 8 ≤ cellNeed sb d1 d2 := by
        have : d1 % 8 ≤ sb * (d1 % 8) := Nat.le_mul_of_pos_left _ hsb
        simp only [cellNeed]; omega
      simp only [cellLoop]
      by_cases habs : cellAbsent d1 = true
      · simp [habs]
      · by_cases hneed : rest.length < cellNeed sb d1 d2
        · simp [habs, hneed]
        · simp only [habs, hneed, if_false, Bool.false_eq_true]
          generalize cellNeed sb d1 d2 = need at hmul hneed ⊢
          have hlen : (List.drop need rest).length + need = rest.length := by
            simp only [List.length_drop]; omega
          obtain ⟨i1, i2⟩ := ih (List.drop need rest)
          simp only [List.length_cons]
          refine ⟨by omega, ?_⟩
          intro hc
          obtain ⟨j1, j2⟩ := i2 hc
          exact ⟨by omega, by omega⟩

theorem sl_length_le (bs : Bytes) (a k : Nat) : (sl bs a (a + k)).length ≤ k := by
  simp only [sl, List.length_drop, List.length_take]; omega

theorem bocBody_bound (bs : Bytes) (isGen hasIdx hasCrc : Bool) (sb ob cn rn tot : Nat) (hsb : 1 ≤ sb) :
    (bocBody bs isGen hasIdx hasCrc sb ob cn rn tot).total ≤ 3 * bs.length + 5 ∧
    (bocBody bs isGen hasIdx hasCrc sb ob cn rn tot).outer ≤ bs.length + 1 := by
  have hroot : (if isGen then rn else 0) ≤ (if isGen then rn * sb else 0) := by
    cases isGen
    · simp
    · simpa using Nat.le_mul_of_pos_right rn hsb
  have hrn : (!isGen && rn != 1) = false → rn ≤ (if isGen then rn * sb else 0) + 1 := by
    cases isGen
    · simp; intro h; omega
    · intro _; have := Nat.le_mul_of_pos_right rn hsb; simp; omega
  have hidx : (hasIdx && ob == 0) = false → (if hasIdx then cn else 0) ≤ (if hasIdx then cn * ob else 0) := by
    cases hasIdx
    · simp
    · simp only [Bool.true_and, beq_eq_false_iff_ne, ne_eq, if_true]
      intro h; exact Nat.le_mul_of_pos_right cn (by omega)
  have hcrc : (if hasCrc then (6 + 3 * sb + ob + (if isGen then rn * sb else 0) + (if hasIdx then cn * ob else 0) + tot) else 0) ≤
      6 + 3 * sb + ob + (if isGen then rn * sb else 0) + (if hasIdx then cn * ob else 0) + tot := by
    cases hasCrc <;> simp
  obtain ⟨c1, c2⟩ := cellLoop_bound sb hsb cn (sl bs (6 + 3 * sb + ob + (if isGen then rn * sb else 0) + (if hasIdx then cn * ob else 0))
    (6 + 3 * sb + ob + (if isGen then rn * sb else 0) + (if hasIdx then cn * ob else 0) + tot))
  have hsl := sl_length_le bs (6 + 3 * sb + ob + (if isGen then rn * sb else 0) + (if hasIdx then cn * ob else 0)) tot
  simp only [bocBody, short]
  generalize (if isGen then rn * sb else 0) = rootBytes at *
  generalize (if isGen then rn else 0) = rootIters at *
  generalize (if hasIdx then cn * ob else 0) = idxBytes at *
  generalize (if hasIdx then cn else 0) = idxIters at *
  generalize (if hasCrc then 4 else 0) = crcBytes at *
  generalize (if hasCrc then 6 + 3 * sb + ob + rootBytes + idxBytes + tot else 0) = crc at *
  generalize cellLoop sb cn (sl bs (6 + 3 * sb + ob + rootBytes + idxBytes) (6 + 3 * sb + ob + rootBytes + idxBytes + tot)) = r at *
  generalize (sl bs (6 + 3 * sb + ob + rootBytes + idxBytes) (6 + 3 * sb + ob + rootBytes + idxBytes + tot)).length = C at *
  simp only [decide_eq_true_eq]
  split
  · simp only [BocCost.total, BocCost.outer]; omega
  · split
    · simp only [BocCost.total, BocCost.outer]; omega
    · rename_i h1 h2
      have h2' := hrn (by simpa using h2)
      split
      · simp only [BocCost.total, BocCost.outer]; omega
      · split
        · simp only [BocCost.total, BocCost.outer]; omega
        · rename_i h3 h4
          have h4' := hidx (by simpa using h4)
          split
          · simp only [BocCost.total, BocCost.outer]; omega
          · split
            · simp only [BocCost.total, BocCost.outer]; omega
            · split
              · simp only [BocCost.total, BocCost.outer]; omega
              · rename_i h5 h6 h7
                simp only [bne_iff_ne, ne_eq, Decidable.not_not] at h7
                split
                · simp only [BocCost.total, BocCost.outer]; omega
                · rename_i h8
                  have hc : r.2.2 = true := by simpa using h8
                  obtain ⟨d1, d2⟩ := c2 hc
                  simp only [BocCost.total, BocCost.outer]; omega

theorem bocGuarded_bound (bs : Bytes) (isGen hasIdx hasCrc : Bool) (sb ob : Nat) :
    (bocGuarded bs isGen hasIdx hasCrc sb ob).total ≤ 3 * bs.length + 5 ∧
    (bocGuarded bs isGen hasIdx hasCrc sb ob).outer ≤ bs.length + 1 := by
  unfold bocGuarded
  split
  · simp [BocCost.total, BocCost.outer]
  · split
    · simp [BocCost.total, BocCost.outer]
    · rename_i h
      apply bocBody_bound
      simp only [beq_iff_eq] at h
      omega

theorem bocCost_bound (bs : Bytes) :
    (bocCost bs).total ≤ 3 * bs.length + 5 ∧ (bocCost bs).outer ≤ bs.length + 1 := by
  unfold bocCost
  simp only []
  split
  · simp [BocCost.total, BocCost.outer]
  · exact bocGuarded_bound _ _ _ _ _ _

/-! ## dictionary parser -/

theorem dictCalls_le (g : DDag) : ∀ (f v : Nat) (k : Int), (dictCalls g f v k).steps ≤ 2 * treeSize g f v := by
  intro f
  induction f with
  | zero => intro v k; simp [dictCalls, DRes.steps]
  | succ n ih =>
    intro v k
    unfold dictCalls treeSize dkids
    cases hv : g[v]? with
    | none => simp [DRes.steps]
    | some nd =>
      simp only []
      rcases hl : readLabel nd.bits k with ⟨l, it⟩
      cases l with
      | none =>
        simp only [DRes.steps]
        cases nd.kids <;> simp <;> omega
      | some l =>
        simp only []
        cases hk : nd.kids with
        | nil =>
          simp only []
          split
          · simp [DRes.steps]
          · split <;> simp [DRes.steps]
        | cons a rest =>
          have iha := ih a (k - (l : Int) - 1)
          simp only []
          split
          · simp [DRes.steps]; omega
          · split
            · simp [DRes.steps]; omega
            · cases ha : dictCalls g n a (k - (l : Int) - 1) with
              | oof => simp [DRes.steps]
              | raised s =>
                rw [ha] at iha; simp only [DRes.steps] at iha ⊢; omega
              | done s1 =>
                rw [ha] at iha; simp only [DRes.steps] at iha
                cases rest with
                | nil => simp only [DRes.steps]; omega
                | cons b rest2 =>
                  have ihb := ih b (k - (l : Int) - 1)
                  simp only []
                  cases hb : dictCalls g n b (k - (l : Int) - 1) with
                  | oof => simp [DRes.steps]
                  | raised s => rw [hb] at ihb; simp only [DRes.steps] at ihb ⊢; omega
                  | done s2 => rw [hb] at ihb; simp only [DRes.steps] at ihb ⊢; omega

/-- a completed parse made exactly `4·(entries + stops) − 2` calls: the call tree is a full binary tree whose leaves are
the result entries and the pruned edges -/
theorem dictCalls_out (g : DDag) : ∀ (f v : Nat) (k : Int) (s : Nat), dictCalls g f v k = .done s →
    s + 2 = 4 * ((dictOut g f v k).1 + (dictOut g f v k).2) := by
  intro f
  induction f with
  | zero => intro v k s h; simp [dictCalls] at h
  | succ n ih =>
    intro v k s
    unfold dictCalls dictOut
    cases hv : g[v]? with
    | none => simp
    | some nd =>
      simp only []
      rcases hl : readLabel nd.bits k with ⟨l, it⟩
      cases l with
      | none => simp
      | some l =>
        simp only []
        split
        · intro h; cases h; rfl
        · split
          · intro h; cases h; rfl
          · cases hk : nd.kids with
            | nil => simp
            | cons a rest =>
              simp only []
              cases ha : dictCalls g n a (k - (l : Int) - 1) with
              | oof => simp
              | raised s1 => simp
              | done s1 =>
                have iha := ih a _ s1 ha
                cases rest with
                | nil => simp
                | cons b rest2 =>
                  simp only []
                  cases hb : dictCalls g n b (k - (l : Int) - 1) with
                  | oof => simp
                  | raised s2 => simp
                  | done s2 =>
                    have ihb := ih b _ s2 hb
                    intro h
                    cases h
                    omega

theorem unary_len : ∀ (r : Bits) (n : Nat) (rest : Bits), unary r = some (n, rest) → n + rest.length + 1 = r.length := by
  intro r
  induction r with
  | nil => intro n rest h; simp [unary] at h
  | cons b t ih =>
    intro n rest h
    cases b with
    | false => simp [unary] at h; obtain ⟨h1, h2⟩ := h; subst h1; subst h2; simp
    | true =>
      simp only [unary, Option.map_eq_some_iff] at h
      obtain ⟨⟨n', rest'⟩, h1, h2⟩ := h
      have := ih n' rest' h1
      simp only [Prod.mk.injEq] at h2
      obtain ⟨h3, h4⟩ := h2
      subst h3; subst h4
      simp only [List.length_cons]; omega

/-- iterations of the `deserialize_unary` loop never exceed the bits of the cell -/
theorem readLabelRaw_iters (bits : Bits) (m : Int) : (readLabelRaw bits m).2 ≤ bits.length := by
  unfold readLabelRaw
  match bits with
  | [] => simp
  | false :: r =>
    simp only []
    cases h : unary r with
    | none => simp
    | some p =>
      obtain ⟨n, rest⟩ := p
      have := unary_len r n rest h
      simp only [List.length_cons]; omega
  | [true] => simp
  | true :: false :: r => simp only []; split <;> (try split) <;> simp
  | [true, true] => simp
  | true :: true :: _ :: r => simp only []; split <;> (try split) <;> simp

/-- the `{n <= m}` test changes the verdict only, not the work done before it -/
theorem readLabel_snd (bits : Bits) (m : Int) : (readLabel bits m).2 = (readLabelRaw bits m).2 := by
  unfold readLabel
  rcases readLabelRaw bits m with ⟨l, it⟩
  cases l with
  | none => rfl
  | some n => simp only []; split <;> rfl

theorem readLabel_iters (bits : Bits) (m : Int) : (readLabel bits m).2 ≤ bits.length := by
  rw [readLabel_snd]; exact readLabelRaw_iters bits m

/-- a label `deserialize_hml` returns fits the remaining key (so the remaining key was not negative) -/
theorem readLabel_le {bits : Bits} {m : Int} {n it : Nat} (h : readLabel bits m = (some n, it)) : (n : Int) ≤ m := by
  unfold readLabel at h
  rcases hr : readLabelRaw bits m with ⟨l, it'⟩
  rw [hr] at h
  cases l with
  | none => simp at h
  | some n' =>
    simp only [] at h
    split at h
    · simp at h
    · rename_i hgt
      simp only [Prod.mk.injEq, Option.some.injEq] at h
      obtain ⟨rfl, _⟩ := h
      omega

/-- a label longer than the remaining key makes `deserialize_hml` raise -/
theorem readLabel_too_long {bits : Bits} {m : Int} {n it : Nat} (h : readLabelRaw bits m = (some n, it)) (hgt : m < (n : Int)) :
    readLabel bits m = (none, it) := by
  simp [readLabel, h, hgt]

/-! ### the recursion depth of the dictionary parser is bounded by the key length -/

/-- with a negative key length the very first label is refused: one `parse` call (+ its unary loop), no recursion -/
theorem dictParse_neg (g : DDag) (f v : Nat) (k : Int) (hk : k < 0) :
    ∃ s, dictParse g (f + 1) v k = .raised s ∧ dictCalls g (f + 1) v k = .raised (min s 1) := by
  unfold dictParse dictCalls
  cases hv : g[v]? with
  | none => exact ⟨0, rfl, rfl⟩
  | some nd =>
    simp only []
    rcases hl : readLabel nd.bits k with ⟨l, it⟩
    cases l with
    | none => exact ⟨1 + it, rfl, by simp⟩
    | some l => have := readLabel_le hl; omega

/-- **depth bound.** The remaining key length is never negative inside a parse, and every level of the recursion consumes at
least the fork bit: fuel (= recursion depth) `k + 1` is enough for key length `k`, on ANY cell graph (shared, even cyclic). -/
theorem dictParse_no_oof (g : DDag) : ∀ (f v : Nat) (k : Int), 1 ≤ f → k < (f : Int) → dictParse g f v k ≠ .oof := by
  intro f
  induction f with
  | zero => intro v k h; omega
  | succ n ih =>
    intro v k _ hk
    unfold dictParse
    cases hv : g[v]? with
    | none => simp
    | some nd =>
      simp only []
      rcases hl : readLabel nd.bits k with ⟨l, it⟩
      cases l with
      | none => simp
      | some l =>
        have hle := readLabel_le hl
        simp only []
        split
        · simp
        · split
          · simp
          · rename_i hm
            have hm' : k - (l : Int) ≠ 0 := by simpa using hm
            have h1 : 1 ≤ n := by omega
            have h2 : k - (l : Int) - 1 < (n : Int) := by omega
            cases hkids : nd.kids with
            | nil => simp
            | cons a rest =>
              simp only []
              have iha := ih a (k - (l : Int) - 1) h1 h2
              cases ha : dictParse g n a (k - (l : Int) - 1) with
              | oof => exact absurd ha iha
              | raised s => simp
              | done s1 =>
                cases rest with
                | nil => simp
                | cons b rest2 =>
                  simp only []
                  have ihb := ih b (k - (l : Int) - 1) h1 h2
                  cases hb : dictParse g n b (k - (l : Int) - 1) with
                  | oof => exact absurd hb ihb
                  | raised s => simp
                  | done s2 => simp

theorem dictCalls_no_oof (g : DDag) : ∀ (f v : Nat) (k : Int), 1 ≤ f → k < (f : Int) → dictCalls g f v k ≠ .oof := by
  intro f
  induction f with
  | zero => intro v k h; omega
  | succ n ih =>
    intro v k _ hk
    unfold dictCalls
    cases hv : g[v]? with
    | none => simp
    | some nd =>
      simp only []
      rcases hl : readLabel nd.bits k with ⟨l, it⟩
      cases l with
      | none => simp
      | some l =>
        have hle := readLabel_le hl
        simp only []
        split
        · simp
        · split
          · simp
          · rename_i hm
            have hm' : k - (l : Int) ≠ 0 := by simpa using hm
            have h1 : 1 ≤ n := by omega
            have h2 : k - (l : Int) - 1 < (n : Int) := by omega
            cases hkids : nd.kids with
            | nil => simp
            | cons a rest =>
              simp only []
              have iha := ih a (k - (l : Int) - 1) h1 h2
              cases ha : dictCalls g n a (k - (l : Int) - 1) with
              | oof => exact absurd ha iha
              | raised s => simp
              | done s1 =>
                cases rest with
                | nil => simp
                | cons b rest2 =>
                  simp only []
                  have ihb := ih b (k - (l : Int) - 1) h1 h2
                  cases hb : dictCalls g n b (k - (l : Int) - 1) with
                  | oof => exact absurd hb ihb
                  | raised s => simp
                  | done s2 => simp

theorem dictCalls_fuel_succ (g : DDag) : ∀ (f v : Nat) (k : Int), dictCalls g f v k ≠ .oof →
    dictCalls g (f + 1) v k = dictCalls g f v k := by
  intro f
  induction f with
  | zero => intro v k h; simp [dictCalls] at h
  | succ n ih =>
    intro v k h
    conv => rhs; unfold dictCalls
    conv => lhs; unfold dictCalls
    conv at h => unfold dictCalls
    cases hv : g[v]? with
    | none => rfl
    | some nd =>
      rw [hv] at h
      simp only [] at h ⊢
      rcases hl : readLabel nd.bits k with ⟨l, it⟩
      rw [hl] at h
      cases l with
      | none => rfl
      | some l =>
        simp only [] at h ⊢
        split
        · rfl
        · rename_i h1
          rw [if_neg h1] at h
          split
          · rfl
          · rename_i h2
            rw [if_neg h2] at h
            cases hk : nd.kids with
            | nil => rfl
            | cons a rest =>
              rw [hk] at h
              simp only [] at h ⊢
              cases ha : dictCalls g n a (k - (l : Int) - 1) with
              | oof => rw [ha] at h; exact absurd rfl h
              | raised s => rw [ih a _ (by rw [ha]; simp), ha]
              | done s1 =>
                rw [ih a _ (by rw [ha]; simp), ha]
                rw [ha] at h
                cases rest with
                | nil => rfl
                | cons b rest2 =>
                  simp only [] at h ⊢
                  cases hb : dictCalls g n b (k - (l : Int) - 1) with
                  | oof => rw [hb] at h; exact absurd rfl h
                  | raised s => rw [ih b _ (by rw [hb]; simp), hb]
                  | done s2 => rw [ih b _ (by rw [hb]; simp), hb]

/-- more fuel changes nothing once the parse did not run out of it -/
theorem dictCalls_fuel_le (g : DDag) (f v : Nat) (k : Int) (h : dictCalls g f v k ≠ .oof) :
    ∀ d, dictCalls g (f + d) v k = dictCalls g f v k := by
  intro d
  induction d with
  | zero => rfl
  | succ d ih =>
    rw [← Nat.add_assoc, dictCalls_fuel_succ g (f + d) v k (by rw [ih]; exact h), ih]

/-- the number of calls is bounded by the key length alone: the call tree is binary and at most `k + 1` levels deep -/
theorem dictCalls_le_keylen (g : DDag) : ∀ (f v : Nat) (k : Int), (dictCalls g f v k).steps + 2 ≤ 2 ^ (k.toNat + 2) := by
  intro f
  induction f with
  | zero =>
    intro v k
    have : 2 ^ 2 ≤ 2 ^ (k.toNat + 2) := Nat.pow_le_pow_right (by decide) (by omega)
    simp [dictCalls, DRes.steps] at this ⊢; omega
  | succ n ih =>
    intro v k
    have h4 : 2 ^ 2 ≤ 2 ^ (k.toNat + 2) := Nat.pow_le_pow_right (by decide) (by omega)
    simp only [Nat.reducePow] at h4
    unfold dictCalls
    cases hv : g[v]? with
    | none => simp only [DRes.steps]; omega
    | some nd =>
      simp only []
      rcases hl : readLabel nd.bits k with ⟨l, it⟩
      cases l with
      | none => simp only [DRes.steps]; omega
      | some l =>
        have hle := readLabel_le hl
        simp only []
        split
        · simp only [DRes.steps]; omega
        · split
          · simp only [DRes.steps]; omega
          · rename_i hm
            have hm' : k - (l : Int) ≠ 0 := by simpa using hm
            have hsub : 2 ^ ((k - (l : Int) - 1).toNat + 2) ≤ 2 ^ (k.toNat + 1) :=
              Nat.pow_le_pow_right (by decide) (by omega)
            have hdbl : 2 ^ (k.toNat + 2) = 2 * 2 ^ (k.toNat + 1) := by rw [Nat.pow_succ]; omega
            cases hkids : nd.kids with
            | nil => simp only [DRes.steps]; omega
            | cons a rest =>
              simp only []
              have iha := ih a (k - (l : Int) - 1)
              cases ha : dictCalls g n a (k - (l : Int) - 1) with
              | oof => simp only [DRes.steps]; omega
              | raised s => rw [ha] at iha; simp only [DRes.steps] at iha ⊢; omega
              | done s1 =>
                rw [ha] at iha; simp only [DRes.steps] at iha
                cases rest with
                | nil => simp only [DRes.steps]; omega
                | cons b rest2 =>
                  simp only []
                  have ihb := ih b (k - (l : Int) - 1)
                  cases hb : dictCalls g n b (k - (l : Int) - 1) with
                  | oof => simp only [DRes.steps]; omega
                  | raised s => rw [hb] at ihb; simp only [DRes.steps] at ihb ⊢; omega
                  | done s2 => rw [hb] at ihb; simp only [DRes.steps] at ihb ⊢; omega

/-- more fuel changes nothing once the parse did not run out of it -/
theorem dictParse_fuel_succ (g : DDag) : ∀ (f v : Nat) (k : Int), dictParse g f v k ≠ .oof →
    dictParse g (f + 1) v k = dictParse g f v k := by
  intro f
  induction f with
  | zero => intro v k h; simp [dictParse] at h
  | succ n ih =>
    intro v k h
    conv => rhs; unfold dictParse
    conv => lhs; unfold dictParse
    conv at h => unfold dictParse
    cases hv : g[v]? with
    | none => rfl
    | some nd =>
      rw [hv] at h
      simp only [] at h ⊢
      rcases hl : readLabel nd.bits k with ⟨l, it⟩
      rw [hl] at h
      cases l with
      | none => rfl
      | some l =>
        simp only [] at h ⊢
        split
        · rfl
        · rename_i h1
          rw [if_neg h1] at h
          split
          · rfl
          · rename_i h2
            rw [if_neg h2] at h
            cases hk : nd.kids with
            | nil => rfl
            | cons a rest =>
              rw [hk] at h
              simp only [] at h ⊢
              cases ha : dictParse g n a (k - (l : Int) - 1) with
              | oof => rw [ha] at h; exact absurd rfl h
              | raised s => rw [ih a _ (by rw [ha]; simp), ha]
              | done s1 =>
                rw [ih a _ (by rw [ha]; simp), ha]
                rw [ha] at h
                cases rest with
                | nil => rfl
                | cons b rest2 =>
                  simp only [] at h ⊢
                  cases hb : dictParse g n b (k - (l : Int) - 1) with
                  | oof => rw [hb] at h; exact absurd rfl h
                  | raised s => rw [ih b _ (by rw [hb]; simp), hb]
                  | done s2 => rw [ih b _ (by rw [hb]; simp), hb]

theorem dictParse_fuel_le (g : DDag) (f v : Nat) (k : Int) (h : dictParse g f v k ≠ .oof) :
    ∀ d, dictParse g (f + d) v k = dictParse g f v k := by
  intro d
  induction d with
  | zero => rfl
  | succ d ih =>
    rw [← Nat.add_assoc, dictParse_fuel_succ g (f + d) v k (by rw [ih]; exact h), ih]

/-- `dictParse` (calls + unary-loop iterations) against `dictCalls` (calls only): same outcome, at most `1 + B` times the steps
when no cell has more than `B` bits -/
def DRel (B : Nat) (p c : DRes) : Prop :=
  match p, c with
  | .done a, .done b => a ≤ b * (1 + B)
  | .raised a, .raised b => a ≤ b * (1 + B)
  | .oof, .oof => True
  | _, _ => False

theorem dictParse_rel (g : DDag) (B : Nat) (hB : ∀ nd ∈ g, nd.bits.length ≤ B) :
    ∀ (f v : Nat) (k : Int), DRel B (dictParse g f v k) (dictCalls g f v k) := by
  intro f
  induction f with
  | zero => intro v k; simp [dictParse, dictCalls, DRel]
  | succ n ih =>
    intro v k
    unfold dictParse dictCalls
    cases hv : g[v]? with
    | none => simp [DRel]
    | some nd =>
      have hbits : nd.bits.length ≤ B := hB nd (List.mem_of_getElem? hv)
      simp only []
      have hit := readLabel_iters nd.bits k
      rcases hl : readLabel nd.bits k with ⟨l, it⟩
      rw [hl] at hit
      simp only [] at hit
      have e2 : 2 * (1 + B) = 2 + 2 * B := by omega
      cases l with
      | none => simp only [DRel]; omega
      | some l =>
        simp only []
        split
        · simp only [DRel]; omega
        · split
          · simp only [DRel]; omega
          · cases hk : nd.kids with
            | nil => simp only [DRel]; omega
            | cons a rest =>
              simp only []
              have iha := ih a (k - (l : Int) - 1)
              cases ha : dictCalls g n a (k - (l : Int) - 1) with
              | oof =>
                rw [ha] at iha
                cases hpa : dictParse g n a (k - (l : Int) - 1) <;> rw [hpa] at iha <;> simp only [DRel] at iha ⊢
              | raised c1 =>
                rw [ha] at iha
                cases hpa : dictParse g n a (k - (l : Int) - 1) <;> rw [hpa] at iha <;> simp only [DRel] at iha ⊢
                rw [Nat.add_mul]; omega
              | done c1 =>
                rw [ha] at iha
                cases hpa : dictParse g n a (k - (l : Int) - 1) <;> rw [hpa] at iha <;> simp only [DRel] at iha ⊢
                rename_i p1
                cases rest with
                | nil => simp only [DRel]; rw [Nat.add_mul]; omega
                | cons b rest2 =>
                  simp only []
                  have ihb := ih b (k - (l : Int) - 1)
                  cases hb : dictCalls g n b (k - (l : Int) - 1) with
                  | oof =>
                    rw [hb] at ihb
                    cases hpb : dictParse g n b (k - (l : Int) - 1) <;> rw [hpb] at ihb <;> simp only [DRel] at ihb ⊢
                  | raised c2 =>
                    rw [hb] at ihb
                    cases hpb : dictParse g n b (k - (l : Int) - 1) <;> rw [hpb] at ihb <;> simp only [DRel] at ihb ⊢
                    rw [Nat.add_mul, Nat.add_mul]; omega
                  | done c2 =>
                    rw [hb] at ihb
                    cases hpb : dictParse g n b (k - (l : Int) - 1) <;> rw [hpb] at ihb <;> simp only [DRel] at ihb ⊢
                    rw [Nat.add_mul, Nat.add_mul]; omega

/-! ## TL parser: the loops never exhaust their own fuel -/
open TonVerif.Model.Cost.Tl

theorem vecLoop_no_oof (r : Bytes → Res) (hr : ∀ b, r b ≠ .oof) (data : Bytes) :
    ∀ (k i s : Nat), vecLoop r data k i s ≠ .oof := by
  intro k
  induction k with
  | zero => intro i s; simp [vecLoop]
  | succ n ih =>
    intro i s
    simp only [vecLoop]
    cases h : r (data.drop i) with
    | oof => exact absurd h (hr _)
    | raised a g => simp
    | ok j a => exact ih _ _

/-- the `while j < byte_len` loop: with loop fuel `len(content) - j + 1` it never runs out, for ANY inner parser that
returns advance 0 on empty input (each iteration either advances `j` by ≥ 1 or breaks; past the end the slice is empty) -/
theorem reparse_no_oof (r : Bytes → Res) (hr : ∀ b, r b ≠ .oof) (h0 : ∀ adv s, r [] = .ok adv s → adv = 0)
    (c : Bytes) (bl : Nat) : ∀ (lf j s : Nat), c.length - j + 1 ≤ lf → reparseLoop r c bl lf j s ≠ .oof := by
  intro lf
  induction lf with
  | zero => intro j s h; omega
  | succ n ih =>
    intro j s h
    simp only [reparseLoop]
    split
    · cases hc : r (c.drop j) with
      | oof => exact absurd hc (hr _)
      | raised a g => simp
      | ok jj a =>
        simp only []
        split
        · simp
        · rename_i hjj
          apply ih
          have hjj' : jj ≠ 0 := by simpa using hjj
          by_cases hlen : c.length ≤ j
          · have : c.drop j = [] := List.drop_eq_nil_of_le hlen
            rw [this] at hc
            exact absurd (h0 _ _ hc) hjj'
          · omega
    · simp

def NoOof (rec : Bytes → Option Nat → Res) : Prop := ∀ b m, rec b m ≠ .oof
def EmptyZero (rec : Bytes → Option Nat → Res) : Prop := ∀ adv s, rec [] none = .ok adv s → adv = 0

theorem bytesContent_no_oof (r : Bytes → Res) (hr : ∀ b, r b ≠ .oof) (h0 : ∀ adv s, r [] = .ok adv s → adv = 0)
    (c : Bytes) (bl iEnd : Nat) : bytesContent r c bl iEnd ≠ .oof := by
  unfold bytesContent
  cases hc : r c with
  | oof => exact absurd hc (hr _)
  | raised a g => simp
  | ok j a =>
    simp only []
    split
    · have := reparse_no_oof r hr h0 c bl (c.length + 1) j a (by omega)
      cases hx : reparseLoop r c bl (c.length + 1) j a with
      | oof => exact absurd hx this
      | raised a g => simp
      | ok x y => simp
    · simp

theorem fieldStep_no_oof (rec : Bytes → Option Nat → Res) (hr : NoOof rec) (h0 : EmptyZero rec) (data : Bytes) (i : Nat) (ty : Ty) :
    fieldStep rec data i ty ≠ .oof := by
  cases ty with
  | fixed k fl => simp [fieldStep]
  | bytes auto =>
    simp only [fieldStep]
    split
    · simp
    · exact bytesContent_no_oof (fun b => rec b none) (fun b => hr b none) h0 _ _ _
  | vec elem =>
    simp only [fieldStep]
    split
    · simp
    · exact vecLoop_no_oof _ (fun b => hr b elem) _ _ _ _
  | sub sm =>
    simp only [fieldStep]
    cases hc : rec (data.drop i) sm with
    | oof => exact absurd hc (hr _ _)
    | raised a g => simp
    | ok j a => simp

theorem fieldsLoop_no_oof (rec : Bytes → Option Nat → Res) (hr : NoOof rec) (h0 : EmptyZero rec) (data : Bytes) :
    ∀ (fs : List Field) (i : Nat) (fl : Option Int) (s : Nat), fieldsLoop rec data fs i fl s ≠ .oof := by
  intro fs
  induction fs with
  | nil => intro i fl s; simp [fieldsLoop]
  | cons fld rest ih =>
    intro i fl s
    simp only [fieldsLoop]
    split
    · simp
    · exact ih _ _ _
    · cases hc : fieldStep rec data i fld.ty with
      | oof => exact absurd hc (fieldStep_no_oof rec hr h0 data i fld.ty)
      | raised a g => simp
      | ok i' a => exact ih _ _ _

theorem deserLevel_no_oof (tbl : Table) (rec : Bytes → Option Nat → Res) (hr : NoOof rec) (h0 : EmptyZero rec) (data : Bytes) (mode : Option Nat) :
    deserLevel tbl rec data mode ≠ .oof := by
  unfold deserLevel
  split
  · split
    · simp
    · exact fieldsLoop_no_oof rec hr h0 data _ _ _ _
  · exact fieldsLoop_no_oof rec hr h0 data _ _ _ _

/-- every constructor id of the table is non-empty (they are 4 bytes) -/
def IdsNonempty (tbl : Table) : Prop := ∀ s ∈ tbl, s.id ≠ []

theorem byId_nil (tbl : Table) (h : IdsNonempty tbl) : byId tbl [] = none := by
  unfold byId
  rw [List.findIdx?_eq_none_iff]
  intro s hs
  have := h s hs
  cases hid : s.id with
  | nil => exact absurd hid this
  | cons a r => simp [hid]

theorem emptyZero_deser (tbl : Table) (h : IdsNonempty tbl) : ∀ f, EmptyZero (deser tbl f) := by
  intro f
  cases f with
  | zero => intro adv s hh; simp [deser] at hh
  | succ n =>
    intro adv s hh
    simp only [deser, deserLevel, List.take_nil, byId_nil tbl h, List.length_nil] at hh
    cases hh; rfl

/-- an `oof` of `deser` at depth `f+1` comes from an `oof` at depth `f`: the loop fuels never run out -/
theorem oof_from_depth (tbl : Table) (h : IdsNonempty tbl) (f : Nat) (data : Bytes) (mode : Option Nat)
    (ho : deser tbl (f + 1) data mode = .oof) : ∃ b m, deser tbl f b m = .oof := by
  apply Classical.byContradiction
  intro hne
  have hr : NoOof (deser tbl f) := by
    intro b m hbm
    exact hne ⟨b, m, hbm⟩
  exact deserLevel_no_oof tbl (deser tbl f) hr (emptyZero_deser tbl h f) data mode ho

end TonVerif.Proofs.Cost
