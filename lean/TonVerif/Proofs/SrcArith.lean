/-
Generation-independent helper lemmas for the source-regenerated arithmetic (`c0x_src_*` theorems in
Properties/C01, C02, C06, C07 and Proofs/SrcBocWidths.lean).

* the translator's reading of the Python built-ins (`TonVerif/PyInt.lean`: `Py.bitLength` via `Nat.log2`,
  `Py.popcount` via `testBit`, `Py.ceilDiv`) equals the recursive helpers of the hand models
  (`Model.bitLength`, `Model.popcount`, `Model.BOp.bitLen`);
* characterisations: `bitLength n ≤ k ↔ n < 2^k`, `byteWidth n ≤ w ↔ n < 256^w`, `(bitLength n + 7) / 8 = byteWidth n`;
* the simp set `src_norm` + tactic `src_arith` used by the `c0x_src_*` proofs: they normalise shifts / masks by
  literals to `/`, `*`, `%` and finish with `omega`, so that a semantically equal rewrite of the Python source
  (`x // 8 * 2` ↦ `(x >> 3) << 1`, reordered operands, `a if c else b` ↦ `if/else`) still proves.

Nothing here mentions a `Generated.*` definition: a source change can never break this file.
-/
import TonVerif.PyInt
import TonVerif.Model.Cell
import TonVerif.Model.Builder
import TonVerif.Spec.TlbPrim
import TonVerif.Proofs.Bits

namespace TonVerif.Proofs.SrcArith
open TonVerif

/-! ### `int.bit_length()` -/

theorem log2_half (n : Nat) (h : 2 ≤ n) : Nat.log2 n = Nat.log2 (n / 2) + 1 := by
  rw [Nat.log2_def]; simp [h]

theorem py_bitLength_eq (n : Nat) : Py.bitLength n = Model.bitLength n := by
  induction n using Nat.strongRecOn with
  | _ n ih =>
    cases n with
    | zero => simp [Py.bitLength, Model.bitLength]
    | succ n =>
      rw [Model.bitLength, ← ih ((n+1)/2) (by omega)]
      unfold Py.bitLength
      by_cases h : 2 ≤ n + 1
      · rw [log2_half _ h]
        have : (n+1)/2 ≠ 0 := by omega
        simp [this]; omega
      · have : n = 0 := by omega
        subst this
        simp [Nat.log2_def]

theorem model_bitLen_eq (n : Nat) : Model.BOp.bitLen n = Model.bitLength n := by
  induction n using Nat.strongRecOn with
  | _ n ih =>
    cases n with
    | zero => simp [Model.BOp.bitLen, Model.bitLength]
    | succ n => rw [Model.BOp.bitLen, Model.bitLength, ih ((n+1)/2) (by omega)]

theorem py_bitLength_eq_bitLen (n : Nat) : Py.bitLength n = Model.BOp.bitLen n := by
  rw [py_bitLength_eq, model_bitLen_eq]

/-- `x.bit_length()` is the least `k` with `x < 2^k`. -/
theorem bitLength_le_iff (n k : Nat) : Py.bitLength n ≤ k ↔ n < 2 ^ k := by
  unfold Py.bitLength
  by_cases h : n = 0
  · simp [h, Nat.pow_pos]
  · simp only [h, if_false]
    have := @Nat.log2_lt n k h
    omega

theorem lt_two_pow_bitLength (n : Nat) : n < 2 ^ Py.bitLength n := (bitLength_le_iff n _).mp (Nat.le_refl _)

theorem bitLength_zero : Py.bitLength 0 = 0 := by simp [Py.bitLength]

/-! ### `bin(x).count('1')` -/

theorem py_popcount_eq (n : Nat) : Py.popcount n = Model.popcount n := by
  induction n using Nat.strongRecOn with
  | _ n ih =>
    cases n with
    | zero => simp [Py.popcount, Py.bitLength, Model.popcount]
    | succ n =>
      rw [Model.popcount, ← ih ((n+1)/2) (by omega)]
      unfold Py.popcount
      rw [py_bitLength_eq (n+1), Model.bitLength, py_bitLength_eq, Nat.add_comm 1, List.range_succ_eq_map,
        List.filter_cons, List.filter_map]
      have h2 : ((fun i => (n + 1).testBit i) ∘ Nat.succ) = (fun i => ((n+1)/2).testBit i) := by
        funext i; simp [Nat.testBit_succ]
      rw [h2, Nat.testBit_zero]
      rcases Nat.mod_two_eq_zero_or_one (n+1) with h | h <;> simp [h] <;> omega

/-! ### byte widths -/

theorem byteWidth_eq_byteLenU (n : Nat) : Py.byteWidth n = Spec.Tlb.byteLenU n := by
  induction n using Nat.strongRecOn with
  | _ n ih =>
    cases n with
    | zero => simp [Py.byteWidth, Spec.Tlb.byteLenU]
    | succ n => rw [Py.byteWidth, Spec.Tlb.byteLenU, ih ((n+1)/256) (by omega)]

/-- `byteWidth n` is the least `w` with `n < 256^w`. -/
theorem byteWidth_le_iff (n w : Nat) : Py.byteWidth n ≤ w ↔ n < 256 ^ w := by
  rw [byteWidth_eq_byteLenU]; exact Proofs.Bits.byteLenU_le_iff n w

theorem lt_pow_byteWidth (n : Nat) : n < 256 ^ Py.byteWidth n := (byteWidth_le_iff n _).mp (Nat.le_refl _)

theorem pow256 (l : Nat) : 256 ^ l = 2 ^ (8 * l) := by rw [Nat.pow_mul]

/-- `(x.bit_length() + 7) // 8` = `math.ceil(x.bit_length() / 8)` = number of base-256 digits. -/
theorem bitLength_bytes (n : Nat) : (Py.bitLength n + 7) / 8 = Py.byteWidth n := by
  apply Nat.le_antisymm
  · have h := lt_pow_byteWidth n
    rw [pow256] at h
    have := (bitLength_le_iff n _).mpr h
    omega
  · rw [byteWidth_le_iff, pow256]
    apply (bitLength_le_iff n _).mp
    omega

theorem ceilDiv8 (a : Nat) : Py.ceilDiv a 8 = (a + 7) / 8 := by unfold Py.ceilDiv; omega

theorem bitLength_double_succ (m : Nat) : Py.bitLength (2 * m + 1) = Py.bitLength m + 1 := by
  rw [py_bitLength_eq, py_bitLength_eq, Model.bitLength]
  have : (2 * m + 1) / 2 = m := by omega
  rw [this]; omega

/-! ### normal form for generated arithmetic -/

theorem shiftLeft_lit (a k : Nat) : a <<< k = a * 2 ^ k := Nat.shiftLeft_eq a k
theorem shiftRight_lit (a k : Nat) : a >>> k = a / 2 ^ k := Nat.shiftRight_eq_div_pow a k
theorem and_one (a : Nat) : a &&& 1 = a % 2 := Nat.and_one_is_mod a
theorem and_mask (a k : Nat) : a &&& (2 ^ k - 1) = a % 2 ^ k := Nat.and_two_pow_sub_one_eq_mod a k

/-- closes linear goals about generated arithmetic after unfolding: shifts by literals become `* 2^k`, `/ 2^k`. -/
macro "src_fin" : tactic =>
  `(tactic| first
      | done
      | omega
      | (constructor <;> omega)
      | (split <;> first | omega | (constructor <;> omega) | (split <;> first | omega | (constructor <;> omega))))

macro "src_arith" : tactic =>
  `(tactic| all_goals
      ((try simp only [shiftLeft_lit, shiftRight_lit, and_one, Py.ceilDiv, Nat.reducePow, Nat.one_mul, ge_iff_le, gt_iff_lt,
          true_and, and_true, Bool.true_eq_false, Bool.false_eq_true, if_true, if_false, decide_eq_decide]) <;> src_fin))

end TonVerif.Proofs.SrcArith
