/-
The ARGUMENT FORMS of `Builder.store_bit / store_bits` (bool, str, TvmBitarray, a plain bitarray, a list / tuple of ints, an iterator)
and `store_address(str)`, regenerated from the source (Generated/ArgForms.lean): what each form accepts, refuses and stores, for ALL
arguments and builder states.  The int / `Address` / `ExternalAddress` / `None` forms are in Proofs/SrcBuilder.lean.
-/
import TonVerif.Generated.ArgForms
import TonVerif.Proofs.SrcBuilder

namespace TonVerif.Proofs.SrcForms
open TonVerif TonVerif.Model TonVerif.Generated.ArgForms TonVerif.Proofs.SrcBuilder
variable {R : Type}
set_option linter.unusedSimpArgs false
set_option linter.unusedVariables false

/-- `store_bit(True / False)` -/
theorem src_store_bit_bool_eq (v : Bool) (b : Builder R) : store_bit_bool v b = ofFlag (BOp.storeBit v b) := by
  unfold store_bit_bool
  have : decide (v = true) = v := by cases v <;> rfl
  simp only [this, src_append_bool_eq, bindS_retU]

theorem src_append_int_eq (v : Int) (b : Builder R) :
    Py.zoom (TvmBitarray_append_int v b.bits) (fun w => { b with bits := w }) =
      if v = 0 ∨ v = 1 then ofFlag (BOp.storeBit (decide (v = 1)) b) else (b, none) := by
  unfold TvmBitarray_append_int BOp.storeBit BOp.extend ofFlag Py.zoom Py.bindS Py.bindO Py.bitOfInt?
  rw [src_check_overflow]
  by_cases h : b.bits.length + 1 > 1023 <;> by_cases h0 : v = 0 <;> by_cases h1 : v = 1 <;> simp [h, h0, h1] <;> omega

/-- `store_bit('<text>')` = `append(int(text))`: the text must be a decimal literal (Python's `int`) of value 0 or 1 -/
theorem src_store_bit_str_eq (s : Bytes) (b : Builder R) :
    store_bit_str s b = match Py.intOfStr? s with
      | some v => if v = 0 ∨ v = 1 then ofFlag (BOp.storeBit (decide (v = 1)) b) else (b, none)
      | none => (b, none) := by
  unfold store_bit_str
  cases Py.intOfStr? s with
  | none => rfl
  | some v => simp only [Py.bindO, src_append_int_eq, bindS_retU]

/-- `store_bit(<TvmBitarray>)` stores its FIRST bit (nothing for an empty one) -/
theorem src_store_bit_tvm_eq (x : Bits) (b : Builder R) : store_bit_bits x b = ofFlag (BOp.storeBits (x.take 1) b) := by
  unfold store_bit_bits BOp.storeBits
  simp only [src_extend_eq, bindS_retU, Py.slice, List.drop_zero]

/-- `store_bit` of anything else (a plain `bitarray`, a list): no branch of the `isinstance` chain applies - the call returns and
stores NOTHING -/
theorem src_store_bit_other (x : Bits) (xs : List Int) (b : Builder R) :
    store_bit_bitarray x b = (b, some ()) ∧ store_bit_ints xs b = (b, some ()) := ⟨rfl, rfl⟩

theorem bitsOfStr_len : ∀ (s : Bytes) (bs : Bits), Py.bitsOfStr? s = some bs → bs.length ≤ Py.strLen s := by
  intro s
  induction s with
  | nil => intro bs h; simp [Py.bitsOfStr?] at h; subst h; simp
  | cons c cs ih =>
    intro bs h
    have hstep : Py.strLen cs ≤ Py.strLen (c :: cs) := by
      unfold Py.strLen; simp only [List.filter_cons]; split <;> simp
    unfold Py.bitsOfStr? at h
    by_cases h0 : c = 48
    · subst h0
      have hl : Py.strLen (48 :: cs) = Py.strLen cs + 1 := by simp [Py.strLen, List.filter_cons]
      simp only [if_true] at h
      cases hr : Py.bitsOfStr? cs with
      | none => rw [hr] at h; simp at h
      | some r => rw [hr] at h; simp at h; subst h; have := ih r hr; simp; omega
    · by_cases h1 : c = 49
      · subst h1
        have hl : Py.strLen (49 :: cs) = Py.strLen cs + 1 := by simp [Py.strLen, List.filter_cons]
        simp only [show (49 : Nat) ≠ 48 by omega, if_false, if_true] at h
        cases hr : Py.bitsOfStr? cs with
        | none => rw [hr] at h; simp at h
        | some r => rw [hr] at h; simp at h; subst h; have := ih r hr; simp; omega
      · simp only [h0, h1, if_false] at h
        split at h
        · have := ih bs h; omega
        · cases h

theorem bitsOfInts_len : ∀ (xs : List Int) (bs : Bits), Py.bitsOfInts? xs = some bs → bs.length = xs.length := by
  intro xs
  induction xs with
  | nil => intro bs h; simp [Py.bitsOfInts?] at h; subst h; rfl
  | cons x xs ih =>
    intro bs h
    simp only [Py.bitsOfInts?, List.mapM_cons] at h
    cases hx : Py.bitOfInt? x with
    | none => rw [hx] at h; simp at h
    | some v =>
      rw [hx] at h
      cases hr : List.mapM Py.bitOfInt? xs with
      | none => rw [hr] at h; simp at h
      | some r => rw [hr] at h; simp at h; subst h; simp [ih r hr]

/-- `store_bits('<text>')`: the capacity test counts EVERY character of the text (also the skipped whitespace / underscores), then the
text must consist of `0`, `1`, whitespace, `_`; the bits are appended; a refused call leaves the builder as it was -/
theorem src_store_bits_str_eq (s : Bytes) (b : Builder R) :
    store_bits_str s b = if b.bits.length + Py.strLen s > 1023 then (b, none) else
      match Py.bitsOfStr? s with
      | none => (b, none)
      | some bs => (⟨b.bits ++ bs, b.refs⟩, some ()) := by
  unfold store_bits_str TvmBitarray_extend_str Py.zoom Py.bindS Py.bindO
  rw [src_check_overflow]
  by_cases h : b.bits.length + Py.strLen s > 1023
  · simp [h]
  · cases Py.bitsOfStr? s <;> simp [h]

/-- `store_bits([..])` / `store_bits((..))`: the capacity test on the number of items, then every item must be 0 / 1 (or a bool) -/
theorem src_store_bits_ints_eq (xs : List Int) (b : Builder R) :
    store_bits_ints xs b = if b.bits.length + xs.length > 1023 then (b, none) else
      match Py.bitsOfInts? xs with
      | none => (b, none)
      | some bs => (⟨b.bits ++ bs, b.refs⟩, some ()) := by
  unfold store_bits_ints TvmBitarray_extend_ints Py.zoom Py.bindS Py.bindO
  rw [src_check_overflow]
  by_cases h : b.bits.length + xs.length > 1023
  · simp [h]
  · cases Py.bitsOfInts? xs <;> simp [h]

/-- `store_bits(<plain bitarray>)` is `store_bits(<TvmBitarray>)` -/
theorem src_store_bits_bitarray_eq (bs : Bits) (b : Builder R) : store_bits_bitarray bs b = ofFlag (BOp.storeBits bs b) := by
  unfold store_bits_bitarray TvmBitarray_extend_bitarray BOp.storeBits BOp.extend ofFlag Py.zoom Py.bindS
  rw [src_check_overflow]
  by_cases h : b.bits.length + bs.length > 1023 <;> simp [h]

/-- `store_bits(<iterator / generator>)`: `len(x)` raises (TypeError) before anything is stored -/
theorem src_store_bits_iter_eq (b : Builder R) : store_bits_iter () b = (b, none) := rfl

/-- `store_address('<text>')`: `Address(text)` (the declared interface function `addrOfStr`; `none` = it raised), then exactly the
`Address` form -/
theorem src_store_address_str_eq (addrOfStr : Bytes → Option Py.AddrV) (s : Bytes) (b : Builder R) :
    store_address_str addrOfStr s b = match addrOfStr s with
      | none => (b, none)
      | some a => TonVerif.Generated.BuilderOps.store_address_address a b := by
  unfold store_address_str
  cases addrOfStr s with
  | none => rfl
  | some a => rfl

end TonVerif.Proofs.SrcForms
