/-
Snake data (`store_snake_bytes` / `load_snake_bytes`): helper lemmas for C06.
-/
import TonVerif.Proofs.Typed

namespace TonVerif.Proofs.Snake
open TonVerif TonVerif.Model TonVerif.Spec.Tlb TonVerif.Proofs.Bits TonVerif.Proofs.Builder
  TonVerif.Proofs.Slice TonVerif.Proofs.Typed
variable {R : Type}

theorem storeSnakeFuel_succ (mk : Bits → List R → Option R) (fuel : Nat) (value : Bytes) (b : Builder R) :
    BOp.storeSnakeFuel mk (fuel + 1) value b =
      if value.isEmpty then (b, true) else
      if value.length ≤ (1023 - b.bits.length) / 8 then BOp.storeBytes value b else
      if (!(BOp.storeBytes (value.take ((1023 - b.bits.length) / 8)) b).2) = true then
        BOp.storeBytes (value.take ((1023 - b.bits.length) / 8)) b else
      if (!(BOp.storeSnakeFuel mk fuel (value.drop ((1023 - b.bits.length) / 8)) Builder.empty).2) = true then
        ((BOp.storeBytes (value.take ((1023 - b.bits.length) / 8)) b).1, false) else
      match mk (BOp.storeSnakeFuel mk fuel (value.drop ((1023 - b.bits.length) / 8)) Builder.empty).1.bits
               (BOp.storeSnakeFuel mk fuel (value.drop ((1023 - b.bits.length) / 8)) Builder.empty).1.refs with
      | none => ((BOp.storeBytes (value.take ((1023 - b.bits.length) / 8)) b).1, false)
      | some c => BOp.storeRef c (BOp.storeBytes (value.take ((1023 - b.bits.length) / 8)) b).1 := rfl

theorem storeBytes_fits (bs : Bytes) (b : Builder R) (h : b.bits.length + 8 * bs.length ≤ 1023) :
    BOp.storeBytes bs b = (⟨b.bits ++ bytesToBits bs, b.refs⟩, true) := by
  unfold BOp.storeBytes BOp.extend
  have : ¬ (b.bits.length + 8 * bs.length > 1023) := by omega
  simp [this]

theorem wf_take {bs : Bytes} (h : Bytes.WF bs) (n : Nat) : Bytes.WF (bs.take n) :=
  fun x hx => h x (List.mem_of_mem_take hx)
theorem wf_drop {bs : Bytes} (h : Bytes.WF bs) (n : Nat) : Bytes.WF (bs.drop n) :=
  fun x hx => h x (List.mem_of_mem_drop hx)

theorem loadAll_bytes (bs : Bytes) (h : Bytes.WF bs) (refs : List R) :
    SOp.loadBytes bs.length ⟨bytesToBits bs, refs⟩ = (⟨[], refs⟩, some bs) := by
  have := loadBytes_rt (R := R) bs h [] refs
  rw [← bytesToBits_eq_bytesBits] at this
  simpa using this

/-- the snake round trip: whatever `store_snake_bytes` wrote after the (byte-aligned, reference-free)
content of `b` reads back as the stored bytes -/
theorem snake_rt (mk : Bits → List R → Option R) (view : R → Bits × List R)
    (hv : ∀ bits refs c, mk bits refs = some c → view c = (bits, refs))
    (fuel : Nat) : ∀ (bs : Bytes) (b b' : Builder R), Bytes.WF bs → b.bits.length ≤ 1023 → b.refs = [] →
      BOp.storeSnakeFuel mk fuel bs b = (b', true) →
      ∃ tail, b'.bits = b.bits ++ tail ∧ tail.length % 8 = 0 ∧
        ∀ fuel', fuel ≤ fuel' → (SOp.loadSnakeFuel view fuel' ⟨tail, b'.refs⟩).2 = some bs := by
  induction fuel with
  | zero => intro bs b b' _ _ _ h; simp [BOp.storeSnakeFuel, BOp.fail] at h
  | succ fuel ih =>
    intro bs b b' hw hlen hrefs h
    rw [storeSnakeFuel_succ] at h
    by_cases he : bs.isEmpty = true
    · rw [if_pos he] at h
      simp only [Prod.mk.injEq, and_true] at h
      subst h
      have : bs = [] := List.isEmpty_iff.mp he
      subst this
      refine ⟨[], by simp, by simp, ?_⟩
      intro fuel' hf
      obtain ⟨f, rfl⟩ : ∃ f, fuel' = f + 1 := ⟨fuel' - 1, by omega⟩
      simp [SOp.loadSnakeFuel, hrefs, loadBytes_eq, bitsToBytes]
    · rw [if_neg he] at h
      by_cases hfit : bs.length ≤ (1023 - b.bits.length) / 8
      · rw [if_pos hfit, storeBytes_fits bs b (by omega)] at h
        simp only [Prod.mk.injEq, and_true] at h
        subst h
        refine ⟨bytesToBits bs, rfl, by rw [bytesToBits_length]; omega, ?_⟩
        intro fuel' hf
        obtain ⟨f, rfl⟩ : ∃ f, fuel' = f + 1 := ⟨fuel' - 1, by omega⟩
        have hm : (bytesToBits bs).length % 8 = 0 := by rw [bytesToBits_length]; omega
        simp only [SOp.loadSnakeFuel, hrefs, hm]
        simp [loadAll_bytes bs hw]
      · rw [if_neg hfit] at h
        generalize hi : (1023 - b.bits.length) / 8 = i at *
        have h1 := storeBytes_fits (bs.take i) b (by rw [List.length_take]; omega)
        rw [h1] at h
        simp only [Bool.not_true, Bool.false_eq_true, if_false] at h
        cases hr : BOp.storeSnakeFuel mk fuel (bs.drop i) Builder.empty with
        | mk rb rok =>
          rw [hr] at h
          cases rok with
          | false => simp at h
          | true =>
            simp only [Bool.not_true, Bool.false_eq_true, if_false] at h
            cases hc : mk rb.bits rb.refs with
            | none => rw [hc] at h; simp at h
            | some c =>
              rw [hc] at h
              simp only [BOp.storeRef, hrefs, List.length_nil, ge_iff_le, Nat.not_succ_le_zero,
                if_false, List.nil_append, Prod.mk.injEq, and_true] at h
              have hn : ¬ (4 ≤ 0) := by omega
              simp only [hn, if_false, Prod.mk.injEq, and_true] at h
              subst h
              obtain ⟨tl, e1, e2, e3⟩ := ih (bs.drop i) Builder.empty rb (wf_drop hw i)
                (by simp [Builder.empty]) rfl hr
              simp only [Builder.empty, List.nil_append] at e1
              refine ⟨bytesToBits (bs.take i), rfl, by rw [bytesToBits_length]; omega, ?_⟩
              intro fuel' hf
              obtain ⟨f, rfl⟩ : ∃ f, fuel' = f + 1 := ⟨fuel' - 1, by omega⟩
              have hm : (bytesToBits (bs.take i)).length % 8 = 0 := by rw [bytesToBits_length]; omega
              have hl := e3 f (by omega)
              rw [← e1] at hl
              have key : (bytesToBits (bs.take i)).length / 8 = (bs.take i).length := by
                rw [bytesToBits_length]; omega
              have hla := loadAll_bytes (R := R) (bs.take i) (wf_take hw i) [c]
              cases hx : SOp.loadSnakeFuel view f ⟨rb.bits, rb.refs⟩ with
              | mk sx rx =>
                rw [hx] at hl
                simp only at hl
                subst hl
                simp only [SOp.loadSnakeFuel, hm, key, hla, SOp.loadRef, hv _ _ _ hc, hx]
                simp [List.take_append_drop]

/-- with a cell constructor that never fails, `store_snake_bytes` into an EMPTY builder returns normally -/
theorem snake_ok_empty (mk : Bits → List R → Option R) (hmk : ∀ bits refs, (mk bits refs).isSome)
    (fuel : Nat) : ∀ (bs : Bytes), bs.length + 1 ≤ fuel →
      (BOp.storeSnakeFuel mk fuel bs Builder.empty).2 = true := by
  induction fuel with
  | zero => intro bs h; omega
  | succ fuel ih =>
    intro bs h
    rw [storeSnakeFuel_succ]
    by_cases he : bs.isEmpty = true
    · rw [if_pos he]
    · rw [if_neg he]
      have hne : bs ≠ [] := fun e => he (by simp [e])
      have hpos : 0 < bs.length := List.length_pos_iff.mpr hne
      simp only [Builder.empty, List.length_nil, Nat.sub_zero, show 1023 / 8 = 127 by rfl]
      by_cases hfit : bs.length ≤ 127
      · rw [if_pos hfit, storeBytes_fits bs _ (by simp; omega)]
      · rw [if_neg hfit]
        have h1 := storeBytes_fits (R := R) (bs.take 127) ⟨[], []⟩ (by simp [List.length_take]; omega)
        rw [h1]
        simp only [Bool.not_true, Bool.false_eq_true, if_false]
        have hrec := ih (bs.drop 127) (by rw [List.length_drop]; omega)
        simp only [Builder.empty] at hrec
        rw [hrec]
        simp only [Bool.not_true, Bool.false_eq_true, if_false]
        cases hc : mk (BOp.storeSnakeFuel mk fuel (List.drop 127 bs) ⟨[], []⟩).1.bits
            (BOp.storeSnakeFuel mk fuel (List.drop 127 bs) ⟨[], []⟩).1.refs with
        | none => have := hmk (BOp.storeSnakeFuel mk fuel (List.drop 127 bs) ⟨[], []⟩).1.bits
                    (BOp.storeSnakeFuel mk fuel (List.drop 127 bs) ⟨[], []⟩).1.refs
                  rw [hc] at this; simp at this
        | some c => simp [BOp.storeRef]

/-- … and into any builder within capacity that has a free reference slot: `store_snake_bytes` is never
refused (`storeSnake` supplies fuel `len + 2`) -/
theorem snake_ok (mk : Bits → List R → Option R) (hmk : ∀ bits refs, (mk bits refs).isSome)
    (bs : Bytes) (b : Builder R) (hb : b.bits.length ≤ 1023) (hr : b.refs.length < 4) :
    (BOp.storeSnake mk bs b).2 = true := by
  unfold BOp.storeSnake
  rw [storeSnakeFuel_succ]
  by_cases he : bs.isEmpty = true
  · rw [if_pos he]
  · rw [if_neg he]
    generalize hi : (1023 - b.bits.length) / 8 = i
    by_cases hfit : bs.length ≤ i
    · rw [if_pos hfit, storeBytes_fits bs _ (by omega)]
    · rw [if_neg hfit]
      have h1 := storeBytes_fits (bs.take i) b (by rw [List.length_take]; omega)
      rw [h1]
      simp only [Bool.not_true, Bool.false_eq_true, if_false]
      have hrec := snake_ok_empty mk hmk (bs.length + 1) (bs.drop i) (by rw [List.length_drop]; omega)
      rw [hrec]
      simp only [Bool.not_true, Bool.false_eq_true, if_false]
      cases hc : mk (BOp.storeSnakeFuel mk (bs.length + 1) (List.drop i bs) Builder.empty).1.bits
          (BOp.storeSnakeFuel mk (bs.length + 1) (List.drop i bs) Builder.empty).1.refs with
      | none => have := hmk (BOp.storeSnakeFuel mk (bs.length + 1) (List.drop i bs) Builder.empty).1.bits
                  (BOp.storeSnakeFuel mk (bs.length + 1) (List.drop i bs) Builder.empty).1.refs
                rw [hc] at this; simp at this
      | some c =>
        have : ¬ (b.refs.length ≥ 4) := by omega
        simp [BOp.storeRef, this]

end TonVerif.Proofs.Snake
