/-
The regenerated ADNL / signature / mnemonic glue code (Generated/AdnlSrc.lean, translated from crypto/ciphers.py,
crypto/signature.py, crypto/keys.py on every run) equals the hand model Model/Adnl.lean — for ALL inputs and ALL
instantiations of the primitives `P`.  The proofs unfold the generated definitions, turn the translator's built-ins
(`Py.slice`, `Py.bytesLt`, `Py.aesCtrNew?`) into the model's functions and compare values; they do not name generated terms.
-/
import TonVerif.Generated.AdnlSrc
import TonVerif.Proofs.Adnl

set_option linter.unusedSimpArgs false

namespace TonVerif.Proofs.SrcAdnl
open TonVerif TonVerif.Model.Adnl TonVerif.Proofs.Adnl TonVerif.Generated.AdnlSrc

/-! ## the built-ins -/

theorem py_bytesLt_eq : ∀ a b : Bytes, Py.bytesLt a b = bytesLt a b
  | [], [] => rfl
  | [], _ :: _ => rfl
  | _ :: _, [] => rfl
  | x :: xs, y :: ys => by
    unfold Py.bytesLt bytesLt
    rw [py_bytesLt_eq xs ys]

theorem py_slice_eq (b : Bytes) (i j : Nat) : Py.slice b i j = slice b i j := by
  simp only [Py.slice, slice, List.drop_take]

theorem slice_zero (b : Bytes) (j : Nat) : slice b 0 j = b.take j := by simp [slice]

theorem saltVersion_eq : saltVersion = [84, 79, 78, 32, 115, 101, 101, 100, 32, 118, 101, 114, 115, 105, 111, 110] := by decide +kernel
theorem saltDefault_eq : saltDefault = [84, 79, 78, 32, 100, 101, 102, 97, 117, 108, 116, 32, 115, 101, 101, 100] := by decide +kernel

/-! ## ciphers.py -/

theorem Client_init_eq {W} (P : Prims W) (seed : Bytes) : Client_init P seed = some (Client.new P seed) := by
  simp [Client_init, Client.new]

theorem Server_init_eq {W} (P : Prims W) (host : Unit) (port : Int) (pub : Bytes) :
    Server_init P host port pub = some (Server.new P pub) := by
  simp [Server_init, Server.new]

theorem get_key_aes_id_eq {W} (P : Prims W) (key : Bytes) : get_key_aes_id P key = some (keyAesId P key) := by
  simp [get_key_aes_id, keyAesId, magicAes]

theorem get_shared_key_eq {W} (P : Prims W) (a b : Bytes) : get_shared_key P a b = some (P.dh a b) := by
  simp [get_shared_key]

theorem AdnlChannel_init_eq {W} (P : Prims W) (c : Client) (s : Server) (l p : Bytes) :
    AdnlChannel_init P c s l p = some (Channel.new P c s l p) := by
  simp only [AdnlChannel_init, Channel.new, get_shared_key_eq, get_key_aes_id_eq, py_bytesLt_eq]
  -- the three orderings; "both smaller" is impossible (so the order in which the source tests `>` and `<` does not matter)
  cases h1 : bytesLt p l <;> cases h2 : bytesLt l p
  · simp
  · simp
  · simp
  · rw [bytesLt_asymm p l h1] at h2; cases h2

theorem cipher_eq {W} (P : Prims W) (key data : Bytes) :
    create_aes_ctr_sipher_from_key_n_data P key data = cipherParams key data := by
  simp only [create_aes_ctr_sipher_from_key_n_data, create_aes_ctr_cipher, cipherParams, ← py_slice_eq]
  generalize Py.slice key 0 16 ++ Py.slice data 16 32 = k
  generalize Py.slice data 0 4 ++ Py.slice key 20 32 = iv
  unfold Py.aesCtrNew?
  by_cases h : k.length = 32 <;> by_cases h2 : iv.length = 16 <;> simp [h, h2]

theorem encrypt_eq {W} (P : Prims W) (c : Channel) (data : Bytes) :
    AdnlChannel_encrypt_obj P c data = c.encrypt P data := by
  simp only [AdnlChannel_encrypt_obj, AdnlChannel_encrypt, Channel.encrypt, cipher_eq, aes_ctr_encrypt]
  cases cipherParams c.encKey (P.H data) <;> simp

theorem decrypt_eq {W} (P : Prims W) (c : Channel) (enc checksum : Bytes) :
    AdnlChannel_decrypt_obj P c enc checksum = c.decrypt P enc checksum := by
  simp only [AdnlChannel_decrypt_obj, AdnlChannel_decrypt, Channel.decrypt, cipher_eq, aes_ctr_decrypt]
  cases cipherParams c.decKey checksum <;> simp

theorem get_signature_eq {W} (P : Prims W) (seed msg : Bytes) :
    get_signature P seed msg = some (getSignature P seed msg) := by
  simp [get_signature, getSignature, slice]

theorem Client_sign_eq {W} (P : Prims W) (c : Client) (msg : Bytes) :
    Client_sign_obj P c msg = some (getSignature P c.edPriv msg) := by
  simp [Client_sign_obj, Client_sign, get_signature_eq]

theorem get_key_id_eq {W} (P : Prims W) (c : Client) : Crypto_get_key_id_obj P c = some (keyId P c.edPub) := by
  simp [Crypto_get_key_id_obj, Crypto_get_key_id, keyId, magicKey]

/-- `Crypto.get_aes_key_id()` of a client = `get_key_aes_id` of its Ed25519 seed: `H(d4adbc2d ‖ seed)`. -/
theorem get_aes_key_id_eq {W} (P : Prims W) (c : Client) : Crypto_get_aes_key_id_obj P c = some (keyAesId P c.edPriv) := by
  simp [Crypto_get_aes_key_id_obj, Crypto_get_aes_key_id, keyAesId, magicAes]

/-! ## signature.py -/

theorem verify_sign_eq {W} (P : Prims W) (pk m s : Bytes) : verify_sign P pk m s = some (verifySign P pk m s) := by
  simp only [verify_sign, verifySign]
  cases h : P.verify pk m s <;> simp

theorem sign_message_eq {W} (P : Prims W) (m sk : Bytes) : sign_message P m sk () = some (signMessage P m sk) := by
  simp [sign_message, signMessage, slice]

/-! ## keys.py -/

theorem mnemonic_to_entropy_eq {W} (P : Prims W) (ws : List W) :
    mnemonic_to_entropy P ws () = some (mnemonicToEntropy P ws) := by
  simp [mnemonic_to_entropy, mnemonicToEntropy]

/-- `is_basic_seed` raises (IndexError) exactly on an empty PBKDF2 output — which no PBKDF2 returns — and is the model's
test otherwise. -/
theorem is_basic_seed_eq {W} (P : Prims W) (e : Bytes) :
    is_basic_seed P e =
      if P.pbkdf2 e saltVersion (max 1 (pbkdfIterations / 256)) = [] then none else some (isBasicSeed P e) := by
  simp only [is_basic_seed, isBasicSeed, saltVersion_eq, pbkdfIterations]
  cases P.pbkdf2 e _ _ with
  | nil => simp
  | cons x xs => by_cases h0 : x = 0 <;> simp [h0]

theorem mnemonic_is_valid_eq {W} (P : Prims W) (ws : List W) :
    mnemonic_is_valid P ws =
      if ws.length = 24 ∧ P.pbkdf2 (mnemonicToEntropy P ws) saltVersion (max 1 (pbkdfIterations / 256)) = [] then none
      else some (mnemonicIsValid P ws) := by
  simp only [mnemonic_is_valid, mnemonicIsValid, mnemonic_to_entropy_eq, is_basic_seed_eq]
  by_cases h : ws.length = 24
  · by_cases h2 : P.pbkdf2 (mnemonicToEntropy P ws) saltVersion (max 1 (pbkdfIterations / 256)) = []
    · simp [h, h2]
    · simp [h, h2]
  · simp [h]

theorem mnemonic_to_seed_eq {W} (P : Prims W) (ws : List W) (salt : Bytes) :
    mnemonic_to_seed P ws salt () = some (mnemonicToSeed P ws salt) := by
  simp [mnemonic_to_seed, mnemonicToSeed, mnemonic_to_entropy_eq, pbkdfIterations]

theorem mnemonic_to_private_key_eq {W} (P : Prims W) (ws : List W) :
    mnemonic_to_private_key P ws () = some (mnemonicToPrivateKey P ws) := by
  simp [mnemonic_to_private_key, mnemonicToPrivateKey, mnemonic_to_seed_eq, saltDefault_eq, slice]

theorem mnemonic_to_wallet_key_eq {W} (P : Prims W) (ws : List W) :
    mnemonic_to_wallet_key P ws () = some (mnemonicToWalletKey P ws) := by
  simp [mnemonic_to_wallet_key, mnemonicToWalletKey, mnemonic_to_private_key_eq, slice]

end TonVerif.Proofs.SrcAdnl
