/-
Helper lemmas for C11 (Merkle proof checks): the object view `PCell` of a tree versus `Cell.info`,
the Merkle-proof cell built over a pruned tree, completeness of `check_proof` / `check_block_header_proof`,
and list/byte helpers of the binding (soundness) argument (Proofs/Binding.lean).
-/
import TonVerif.Model.Proof
import TonVerif.Proofs.CellSpec
import TonVerif.Proofs.Prune

namespace TonVerif.Proofs.Merkle
open TonVerif TonVerif.Model TonVerif.Proofs.CellSpec TonVerif.Proofs.Prune

set_option linter.unusedSimpArgs false
set_option linter.unusedVariables false

/-! ### objects vs. infos -/

theorem construct_fields (H : Bytes → Bytes) (kind : Int) (bits : Bits) (rs : List CellInfo) (i : CellInfo)
    (h : construct H kind bits rs = some i) : i.kind = kind ∧ i.bits = bits ∧ i.nrefs = rs.length := by
  unfold construct at h
  simp only [Option.bind_eq_bind, Option.bind_eq_some_iff, Option.pure_def, Option.some.injEq] at h
  obtain ⟨_, _, _, _, _, _, _, _, rfl⟩ := h
  exact ⟨rfl, rfl, rfl⟩

mutual
  theorem ofCell_info (H : Bytes → Bytes) : ∀ (c : Cell), (PCell.ofCell H c).map PCell.info = Cell.info H c
    | .mk kind bits refs => by
      have ih := ofCells_infos H refs
      simp only [PCell.ofCell, Cell.info, Option.bind_eq_bind, ← ih]
      cases PCell.ofCells H refs with
      | none => rfl
      | some rs =>
        simp only [Option.bind_some, Option.map_some]
        cases construct H kind bits (rs.map PCell.info) <;> rfl
  theorem ofCells_infos (H : Bytes → Bytes) : ∀ (cs : List Cell),
      (PCell.ofCells H cs).map (List.map PCell.info) = Cell.infos H cs
    | [] => rfl
    | c :: cs => by
      have h1 := ofCell_info H c
      have h2 := ofCells_infos H cs
      simp only [PCell.ofCells, Cell.infos, Option.bind_eq_bind, ← h1, ← h2]
      cases PCell.ofCell H c with
      | none => rfl
      | some p =>
        cases PCell.ofCells H cs <;> rfl
end

/-- a tree whose root can be constructed gives an object whose children are the objects of the subtrees -/
theorem ofCell_of_info (H : Bytes → Bytes) (kind : Int) (bits : Bits) (refs : List Cell) (i : CellInfo)
    (h : Cell.info H (.mk kind bits refs) = some i) :
    ∃ rs, PCell.ofCells H refs = some rs ∧ PCell.ofCell H (.mk kind bits refs) = some (.mk i rs) ∧
      Cell.infos H refs = some (rs.map PCell.info) := by
  have h1 := ofCell_info H (.mk kind bits refs)
  rw [h] at h1
  simp only [PCell.ofCell, Option.bind_eq_bind] at h1 ⊢
  cases hrs : PCell.ofCells H refs with
  | none => rw [hrs] at h1; simp at h1
  | some rs =>
    rw [hrs] at h1
    simp only [Option.bind_some] at h1 ⊢
    have h2 := ofCells_infos H refs
    rw [hrs] at h2
    cases hc : construct H kind bits (rs.map PCell.info) with
    | none => rw [hc] at h1; simp at h1
    | some j =>
      rw [hc] at h1
      simp only [Option.bind_some, Option.pure_def, Option.map_some, PCell.info, Option.some.injEq] at h1
      subst h1
      exact ⟨rs, rfl, rfl, h2.symm⟩

theorem ofCells_singleton (H : Bytes → Bytes) (c : Cell) (rs : List PCell) (h : PCell.ofCells H [c] = some rs) :
    ∃ r, rs = [r] ∧ PCell.ofCell H c = some r := by
  simp only [PCell.ofCells, Option.bind_eq_bind] at h
  cases hc : PCell.ofCell H c with
  | none => rw [hc] at h; simp at h
  | some r => rw [hc] at h; simp at h; exact ⟨r, h.symm, rfl⟩

/-! ### the Merkle proof cell -/

/-- data of a Merkle proof cell: tag 3, level-0 hash and depth of the proved tree -/
def mproofData (h : Bytes) (d : Nat) : Bytes := [3] ++ h ++ Spec.be2 d

/-- the Merkle proof cell over `p` that names hash `h` and depth `d` -/
def merkleProofCell (h : Bytes) (d : Nat) (p : Cell) : Cell := .mk 3 (bytesToBits (mproofData h d)) [p]

theorem mproofData_wf (h : Bytes) (d : Nat) (hw : Bytes.WF h) : Bytes.WF (mproofData h d) := by
  intro b hb
  simp only [mproofData, List.mem_append, List.mem_cons, List.mem_nil_iff, or_false] at hb
  rcases hb with (rfl | hb) | hb
  · omega
  · exact hw b hb
  · exact be2_wf d b hb

theorem mproofData_slice (h : Bytes) (d : Nat) (hl : h.length = 32) : pySlice (mproofData h d) 1 33 = h := by
  simp only [pySlice, mproofData, List.singleton_append, List.cons_append, List.take_succ_cons, List.drop_succ_cons, List.drop_zero]
  rw [List.nil_append, List.take_left' hl]

theorem mproofData_length (h : Bytes) (d : Nat) (hl : h.length = 32) : (mproofData h d).length = 35 := by
  simp [mproofData, hl, Spec.be2]

/-- ACCEPTANCE LEMMA: an object `c` of type Merkle proof with data `03 ++ h ++ be2 d` and the single child `r`
whose level-0 hash/depth are `h`/`d` passes `check_proof(c, h)`; and `r` passes the header check. -/
theorem checkProof_accepts (c r : PCell) (h : Bytes) (d : Nat)
    (hk : c.info.kind = kMerkleProof) (hb : c.info.bits = bytesToBits (mproofData h d)) (hr : c.refs = [r])
    (hl : h.length = 32) (hw : Bytes.WF h) (hd : d < 65536)
    (hh : r.info.getHash 0 = some h) (hdp : r.info.getDepth 0 = some d) :
    checkProof c h = true ∧ checkBlockHeaderProof r h = true := by
  have hdata : c.data = mproofData h d := by
    rw [PCell.data, hb, dataBytes_eq, dataBytes_bytesToBits _ (mproofData_wf h d hw)]
  constructor
  · have e1 : pySlice c.data 1 33 = h := by rw [hdata]; exact mproofData_slice h d hl
    have e2 : c.info.bits.length = 280 := by rw [hb, length_bytesToBits, mproofData_length h d hl]
    have e3 : pySlice (mproofData h d) 1 33 = h := mproofData_slice h d hl
    simp only [checkProof, hk, e1, hr, hh, hdp, e2, hdata, Option.bind_some, toBytesBE_two d hd,
      bne_self_eq_false, Bool.false_eq_true, if_false, List.getElem?_cons_zero, List.length_singleton,
      Bool.or_self]
    simp only [mproofData, List.singleton_append, List.cons_append, List.nil_append] at e3 ⊢
    simp [e3]
  · simp [checkBlockHeaderProof, hh]

/-! ### the representation hash of a pruned-branch object -/

/-- `Cell.hash` of a constructed spec-valid pruned branch is `H` of its own representation (NOT a hash it carries) -/
theorem construct_pruned_hash (H : Bytes → Bytes) (bits : Bits) (wf : NodeWF H .pruned bits []) (i : CellInfo)
    (hc : construct H 1 bits [] = some i) :
    i.hash = H ([Spec.d1 0 true (Spec.nodeMask .pruned bits []), Spec.d2 bits.length] ++ Spec.dataBytes bits) := by
  obtain ⟨hres, hm⟩ := resolveMask_eq H .pruned bits [] [] trivial wf
  obtain ⟨_, _, h3, h4⟩ := wf.pruned rfl
  generalize Spec.nodeMask .pruned bits [] = mask at *
  have hfold := loop_pruned H bits mask h3 h4 wf.bitsLen
  have hkc : kindCode .pruned = kPruned := rfl
  rw [hkc] at hres
  have e1 : (kPruned == kPruned) = true := by decide
  have e2 : (kPruned != kOrdinary) = true := by decide
  have e3 : (1 : Int) = kPruned := rfl
  rw [e3] at hc
  simp only [construct, hres, Option.bind_eq_bind, Option.bind_some, e1, e2, if_true, Nat.add_sub_cancel,
    hfold, List.length_nil, descriptors_eq 0 true bits.length mask (by omega) wf.bitsLen hm,
    List.getLast?_singleton, Option.pure_def, Option.some.injEq] at hc
  subst hc
  simp [CellInfo.hash, dataBytes_eq]


/-! ### helpers of the binding argument (Proofs/Binding.lean) -/

theorem length_bitsToBytes : ∀ (n : Nat) (xs : Bits), xs.length = n → (bitsToBytes xs).length = (n + 7) / 8 := by
  intro n
  induction n using Nat.strongRecOn with
  | _ n ih =>
    intro xs hn
    cases xs with
    | nil => simp at hn; subst hn; simp [bitsToBytes]
    | cons b rest =>
      rw [bitsToBytes]
      simp only [List.length_cons]
      have hl : (List.drop 8 (b :: rest)).length = n - 8 := by simp [← hn]
      rw [ih (n - 8) (by simp at hn; omega) _ hl]
      simp at hn
      omega

theorem length_dataBytes (bits : Bits) : (Spec.dataBytes bits).length = (bits.length + 7) / 8 := by
  unfold Spec.dataBytes Spec.padBits
  split
  · exact length_bitsToBytes _ _ rfl
  · rename_i h
    rw [length_bitsToBytes _ _ rfl]
    simp only [List.length_append, List.length_singleton, List.length_replicate]
    omega

theorem flatten_inj (w : Nat) : ∀ (xs ys : List Bytes), xs.length = ys.length →
    (∀ x ∈ xs, x.length = w) → (∀ y ∈ ys, y.length = w) → xs.flatten = ys.flatten → xs = ys := by
  intro xs
  induction xs with
  | nil => intro ys hl _ _ _; cases ys with
    | nil => rfl
    | cons _ _ => simp at hl
  | cons x xs ih =>
    intro ys hl hx hy he
    cases ys with
    | nil => simp at hl
    | cons y ys =>
      simp only [List.flatten_cons] at he
      have h1 : x.length = y.length := by rw [hx x (by simp), hy y (by simp)]
      obtain ⟨e1, e2⟩ := List.append_inj he h1
      rw [e1, ih ys (by simpa using hl) (fun a ha => hx a (by simp [ha])) (fun a ha => hy a (by simp [ha])) e2]

theorem specInfos_length (H : Bytes → Bytes) : ∀ (cs : List Cell) (ss : List Spec.SInfo), specInfos H cs = some ss → ss.length = cs.length := by
  intro cs
  induction cs with
  | nil => intro ss h; simp only [specInfos, Option.some.injEq] at h; subst h; rfl
  | cons c cs ih =>
    intro ss h
    simp only [specInfos, Option.bind_eq_bind] at h
    cases h1 : specInfo H c with
    | none => rw [h1] at h; cases h
    | some s =>
      cases h2 : specInfos H cs with
      | none => rw [h1, h2] at h; cases h
      | some ss0 =>
        rw [h1, h2] at h
        simp only [Option.bind_some, Option.pure_def, Option.some.injEq] at h
        subst h
        simp [ih ss0 h2]


end TonVerif.Proofs.Merkle
