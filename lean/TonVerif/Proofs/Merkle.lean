/-
Helper lemmas for C11 (Merkle proof checks): the object view `PCell` of a tree versus `Cell.info`,
the Merkle-proof cell built over a pruned tree, completeness of `check_proof` / `check_block_header_proof`,
and the binding (soundness) argument at level 0.
-/
import TonVerif.Model.Proof
import TonVerif.Proofs.CellSpec
import TonVerif.Proofs.Prune

namespace TonVerif.Proofs.Merkle
open TonVerif TonVerif.Model TonVerif.Proofs.CellSpec TonVerif.Proofs.Prune

set_option linter.unusedSimpArgs false
set_option linter.unusedVariables false

/-! ### objects vs. infos -/

theorem construct_fields (H : Bytes → Bytes) (kind : Int) (bits : Bits) (rs : List CellInfo) (i : CellInfo)
    (h : construct H kind bits rs = some i) : i.kind = kind ∧ i.bits = bits ∧ i.nrefs = rs.length := by
  unfold construct at h
  simp only [Option.bind_eq_bind, Option.bind_eq_some_iff, Option.pure_def, Option.some.injEq] at h
  obtain ⟨_, _, _, _, _, _, _, _, rfl⟩ := h
  exact ⟨rfl, rfl, rfl⟩

mutual
  theorem ofCell_info (H : Bytes → Bytes) : ∀ (c : Cell), (PCell.ofCell H c).map PCell.info = Cell.info H c
    | .mk kind bits refs => by
      have ih := ofCells_infos H refs
      simp only [PCell.ofCell, Cell.info, Option.bind_eq_bind, ← ih]
      cases PCell.ofCells H refs with
      | none => rfl
      | some rs =>
        simp only [Option.bind_some, Option.map_some]
        cases construct H kind bits (rs.map PCell.info) <;> rfl
  theorem ofCells_infos (H : Bytes → Bytes) : ∀ (cs : List Cell),
      (PCell.ofCells H cs).map (List.map PCell.info) = Cell.infos H cs
    | [] => rfl
    | c :: cs => by
      have h1 := ofCell_info H c
      have h2 := ofCells_infos H cs
      simp only [PCell.ofCells, Cell.infos, Option.bind_eq_bind, ← h1, ← h2]
      cases PCell.ofCell H c with
      | none => rfl
      | some p =>
        cases PCell.ofCells H cs <;> rfl
end

/-- a tree whose root can be constructed gives an object whose children are the objects of the subtrees -/
theorem ofCell_of_info (H : Bytes → Bytes) (kind : Int) (bits : Bits) (refs : List Cell) (i : CellInfo)
    (h : Cell.info H (.mk kind bits refs) = some i) :
    ∃ rs, PCell.ofCells H refs = some rs ∧ PCell.ofCell H (.mk kind bits refs) = some (.mk i rs) ∧
      Cell.infos H refs = some (rs.map PCell.info) := by
  have h1 := ofCell_info H (.mk kind bits refs)
  rw [h] at h1
  simp only [PCell.ofCell, Option.bind_eq_bind] at h1 ⊢
  cases hrs : PCell.ofCells H refs with
  | none => rw [hrs] at h1; simp at h1
  | some rs =>
    rw [hrs] at h1
    simp only [Option.bind_some] at h1 ⊢
    have h2 := ofCells_infos H refs
    rw [hrs] at h2
    cases hc : construct H kind bits (rs.map PCell.info) with
    | none => rw [hc] at h1; simp at h1
    | some j =>
      rw [hc] at h1
      simp only [Option.bind_some, Option.pure_def, Option.map_some, PCell.info, Option.some.injEq] at h1
      subst h1
      exact ⟨rs, rfl, rfl, h2.symm⟩

theorem ofCells_singleton (H : Bytes → Bytes) (c : Cell) (rs : List PCell) (h : PCell.ofCells H [c] = some rs) :
    ∃ r, rs = [r] ∧ PCell.ofCell H c = some r := by
  simp only [PCell.ofCells, Option.bind_eq_bind] at h
  cases hc : PCell.ofCell H c with
  | none => rw [hc] at h; simp at h
  | some r => rw [hc] at h; simp at h; exact ⟨r, h.symm, rfl⟩

/-! ### the Merkle proof cell -/

/-- data of a Merkle proof cell: tag 3, level-0 hash and depth of the proved tree -/
def mproofData (h : Bytes) (d : Nat) : Bytes := [3] ++ h ++ Spec.be2 d

/-- the Merkle proof cell over `p` that names hash `h` and depth `d` -/
def merkleProofCell (h : Bytes) (d : Nat) (p : Cell) : Cell := .mk 3 (bytesToBits (mproofData h d)) [p]

theorem mproofData_wf (h : Bytes) (d : Nat) (hw : Bytes.WF h) : Bytes.WF (mproofData h d) := by
  intro b hb
  simp only [mproofData, List.mem_append, List.mem_cons, List.mem_nil_iff, or_false] at hb
  rcases hb with (rfl | hb) | hb
  · omega
  · exact hw b hb
  · exact be2_wf d b hb

theorem mproofData_slice (h : Bytes) (d : Nat) (hl : h.length = 32) : pySlice (mproofData h d) 1 33 = h := by
  simp only [pySlice, mproofData, List.singleton_append, List.cons_append, List.take_succ_cons, List.drop_succ_cons, List.drop_zero]
  rw [List.nil_append, List.take_left' hl]

theorem mproofData_length (h : Bytes) (d : Nat) (hl : h.length = 32) : (mproofData h d).length = 35 := by
  simp [mproofData, hl, Spec.be2]

/-- ACCEPTANCE LEMMA: an object `c` of type Merkle proof with data `03 ++ h ++ be2 d` and the single child `r`
whose level-0 hash/depth are `h`/`d` passes `check_proof(c, h)`; and `r` passes the header check. -/
theorem checkProof_accepts (c r : PCell) (h : Bytes) (d : Nat)
    (hk : c.info.kind = kMerkleProof) (hb : c.info.bits = bytesToBits (mproofData h d)) (hr : c.refs = [r])
    (hl : h.length = 32) (hw : Bytes.WF h) (hd : d < 65536)
    (hh : r.info.getHash 0 = some h) (hdp : r.info.getDepth 0 = some d) :
    checkProof c h = true ∧ checkBlockHeaderProof r h = true := by
  have hdata : c.data = mproofData h d := by
    rw [PCell.data, hb, dataBytes_eq, dataBytes_bytesToBits _ (mproofData_wf h d hw)]
  constructor
  · have e1 : pySlice c.data 1 33 = h := by rw [hdata]; exact mproofData_slice h d hl
    have e2 : c.info.bits.length = 280 := by rw [hb, length_bytesToBits, mproofData_length h d hl]
    have e3 : pySlice (mproofData h d) 1 33 = h := mproofData_slice h d hl
    simp only [checkProof, hk, e1, hr, hh, hdp, e2, hdata, Option.bind_some, toBytesBE_two d hd,
      bne_self_eq_false, Bool.false_eq_true, if_false, List.getElem?_cons_zero, List.length_singleton,
      Bool.or_self]
    simp only [mproofData, List.singleton_append, List.cons_append, List.nil_append] at e3 ⊢
    simp [e3]
  · simp [checkBlockHeaderProof, hh]

/-! ### the representation hash of a pruned-branch object -/

/-- `Cell.hash` of a constructed spec-valid pruned branch is `H` of its own representation (NOT a hash it carries) -/
theorem construct_pruned_hash (H : Bytes → Bytes) (bits : Bits) (wf : NodeWF H .pruned bits []) (i : CellInfo)
    (hc : construct H 1 bits [] = some i) :
    i.hash = H ([Spec.d1 0 true (Spec.nodeMask .pruned bits []), Spec.d2 bits.length] ++ Spec.dataBytes bits) := by
  obtain ⟨hres, hm⟩ := resolveMask_eq H .pruned bits [] [] trivial wf
  obtain ⟨_, _, h3, h4⟩ := wf.pruned rfl
  generalize Spec.nodeMask .pruned bits [] = mask at *
  have hfold := loop_pruned H bits mask h3 h4 wf.bitsLen
  have hkc : kindCode .pruned = kPruned := rfl
  rw [hkc] at hres
  have e1 : (kPruned == kPruned) = true := by decide
  have e2 : (kPruned != kOrdinary) = true := by decide
  have e3 : (1 : Int) = kPruned := rfl
  rw [e3] at hc
  simp only [construct, hres, Option.bind_eq_bind, Option.bind_some, e1, e2, if_true, Nat.add_sub_cancel,
    hfold, List.length_nil, descriptors_eq 0 true bits.length mask (by omega) wf.bitsLen hm,
    List.getLast?_singleton, Option.pure_def, Option.some.injEq] at hc
  subst hc
  simp [CellInfo.hash, dataBytes_eq]


/-! ### binding at level 0 (trees without Merkle cells) -/

theorem length_bitsToBytes : ∀ (n : Nat) (xs : Bits), xs.length = n → (bitsToBytes xs).length = (n + 7) / 8 := by
  intro n
  induction n using Nat.strongRecOn with
  | _ n ih =>
    intro xs hn
    cases xs with
    | nil => simp at hn; subst hn; simp [bitsToBytes]
    | cons b rest =>
      rw [bitsToBytes]
      simp only [List.length_cons]
      have hl : (List.drop 8 (b :: rest)).length = n - 8 := by simp [← hn]
      rw [ih (n - 8) (by simp at hn; omega) _ hl]
      simp at hn
      omega

theorem length_dataBytes (bits : Bits) : (Spec.dataBytes bits).length = (bits.length + 7) / 8 := by
  unfold Spec.dataBytes Spec.padBits
  split
  · exact length_bitsToBytes _ _ rfl
  · rename_i h
    rw [length_bitsToBytes _ _ rfl]
    simp only [List.length_append, List.length_singleton, List.length_replicate]
    omega

/-- level-0 representation of a non-pruned cell -/
def repr0 (k : Spec.Kind) (bits : Bits) (ss : List Spec.SInfo) : Bytes :=
  [Spec.d1 ss.length k.isExotic 0, Spec.d2 bits.length] ++ Spec.dataBytes bits ++ Spec.childPart ss (0 + k.mu)

mutual
  /-- trees without Merkle proof/update cells: ordinary, library and (leaf) pruned-branch cells with at least one
  stored hash+depth -/
  def MFree : Cell → Prop
    | .mk kind bits refs => (kind = -1 ∨ kind = 1 ∨ kind = 2) ∧ refs.length ≤ 4 ∧
        (kind = 1 → refs = [] ∧ 272 ≤ bits.length ∧ 1 ≤ natOfBits ((bits.drop 8).take 8)) ∧ MFrees refs
  def MFrees : List Cell → Prop
    | [] => True
    | c :: cs => MFree c ∧ MFrees cs
end

mutual
  /-- the level-0 representations of all non-pruned cells of a tree -/
  def reprs0 (H : Bytes → Bytes) : Cell → List Bytes
    | .mk kind bits refs =>
      (match kindOf kind, specInfos H refs with
        | some k, some ss => if k = .pruned then [] else [repr0 k bits ss]
        | _, _ => []) ++ reprs0s H refs
  def reprs0s (H : Bytes → Bytes) : List Cell → List Bytes
    | [] => []
    | c :: cs => reprs0 H c ++ reprs0s H cs
end

mutual
  /-- `Agree0 H p t`: `p` and `t` have the same level-0 hash, and either one of them is a pruned branch (which then
  carries exactly that hash) or they are the same cell: same type, same data bytes (incl. completion tag) and
  bit-length descriptor, same number of references, children pairwise `Agree0`. -/
  def Agree0 (H : Bytes → Bytes) : Cell → Cell → Prop
    | .mk kp bp rp, .mk kt bt rt =>
      (∃ sp st, specInfo H (.mk kp bp rp) = some sp ∧ specInfo H (.mk kt bt rt) = some st ∧ sp.hashAt 0 = st.hashAt 0) ∧
      (kp = 1 ∨ kt = 1 ∨
        (kp = kt ∧ Spec.dataBytes bp = Spec.dataBytes bt ∧ Spec.d2 bp.length = Spec.d2 bt.length ∧ Agrees0 H rp rt))
  def Agrees0 (H : Bytes → Bytes) : List Cell → List Cell → Prop
    | [], ts => ts = []
    | p :: ps, ts => ∃ t ts', ts = t :: ts' ∧ Agree0 H p t ∧ Agrees0 H ps ts'
end

theorem popcount_pos (m : Nat) (h : 1 ≤ m) : 1 ≤ Spec.popcount m := by
  induction m using Nat.strongRecOn with
  | _ m ih =>
    cases m with
    | zero => omega
    | succ n =>
      rw [Spec.popcount]
      by_cases h2 : (n + 1) % 2 = 1
      · omega
      · have := ih ((n+1)/2) (by omega) (by omega)
        omega

/-- level-0 hash of a spec cell, by kind -/
theorem hash0_pruned (H : Bytes → Bytes) (bits : Bits) (ss : List Spec.SInfo)
    (hm : 1 ≤ natOfBits ((bits.drop 8).take 8)) :
    (Spec.node H .pruned bits ss).hashAt 0 = ((Spec.dataBytes bits).take 34).drop 2 := by
  show Spec.prunedHashAt H bits (Spec.nodeMask .pruned bits ss) 0 = _
  have := popcount_pos _ hm
  simp only [Spec.prunedHashAt, Spec.nodeMask, Nat.pow_zero, Nat.mod_one]
  have e : Spec.popcount 0 = 0 := by simp [Spec.popcount]
  rw [e, if_neg (by omega)]

theorem hash0_plain (H : Bytes → Bytes) (k : Spec.Kind) (bits : Bits) (ss : List Spec.SInfo) (hk : k ≠ .pruned) :
    (Spec.node H k bits ss).hashAt 0 = H (repr0 k bits ss) := by
  rw [node_plain H k bits ss hk]; rfl

theorem flatten_inj (w : Nat) : ∀ (xs ys : List Bytes), xs.length = ys.length →
    (∀ x ∈ xs, x.length = w) → (∀ y ∈ ys, y.length = w) → xs.flatten = ys.flatten → xs = ys := by
  intro xs
  induction xs with
  | nil => intro ys hl _ _ _; cases ys with
    | nil => rfl
    | cons _ _ => simp at hl
  | cons x xs ih =>
    intro ys hl hx hy he
    cases ys with
    | nil => simp at hl
    | cons y ys =>
      simp only [List.flatten_cons] at he
      have h1 : x.length = y.length := by rw [hx x (by simp), hy y (by simp)]
      obtain ⟨e1, e2⟩ := List.append_inj he h1
      rw [e1, ih ys (by simpa using hl) (fun a ha => hx a (by simp [ha])) (fun a ha => hy a (by simp [ha])) e2]

theorem hash0_len (H : Bytes → Bytes) (h32 : ∀ x, (H x).length = 32) (kind : Int) (bits : Bits) (refs : List Cell)
    (s : Spec.SInfo) (mf : MFree (.mk kind bits refs)) (hs : specInfo H (.mk kind bits refs) = some s) :
    (s.hashAt 0).length = 32 := by
  rw [MFree] at mf
  simp only [specInfo, Option.bind_eq_bind] at hs
  cases hk : kindOf kind with
  | none => rw [hk] at hs; cases hs
  | some k =>
    cases hss : specInfos H refs with
    | none => rw [hk, hss] at hs; cases hs
    | some ss =>
      rw [hk, hss] at hs
      simp only [Option.bind_some, Option.pure_def, Option.some.injEq] at hs
      subst hs
      by_cases hp : k = .pruned
      · subst hp
        have hk1 : kind = 1 := (kindCode_of_kindOf hk).symm
        obtain ⟨_, hb, hm⟩ := mf.2.2.1 hk1
        rw [hash0_pruned H bits ss hm]
        have := length_dataBytes bits
        simp only [List.length_drop, List.length_take]
        omega
      · rw [hash0_plain H k bits ss hp]; exact h32 _

theorem hashes0_len (H : Bytes → Bytes) (h32 : ∀ x, (H x).length = 32) : ∀ (cs : List Cell) (ss : List Spec.SInfo),
    MFrees cs → specInfos H cs = some ss → ∀ x ∈ ss.map (fun c => c.hashAt 0), x.length = 32 := by
  intro cs
  induction cs with
  | nil => intro ss _ hs; simp only [specInfos, Option.some.injEq] at hs; subst hs; simp
  | cons c cs ih =>
    intro ss mf hs
    rw [MFrees] at mf
    simp only [specInfos, Option.bind_eq_bind] at hs
    cases hc : specInfo H c with
    | none => rw [hc] at hs; cases hs
    | some s =>
      cases hcs : specInfos H cs with
      | none => rw [hc, hcs] at hs; cases hs
      | some ss0 =>
        rw [hc, hcs] at hs
        simp only [Option.bind_some, Option.pure_def, Option.some.injEq] at hs
        subst hs
        intro x hx
        simp only [List.map_cons, List.mem_cons] at hx
        rcases hx with rfl | hx
        · cases c with
          | mk kind bits refs => exact hash0_len H h32 kind bits refs s mf.1 hc
        · exact ih ss0 mf.2 hcs x hx

/-- one node: equal level-0 representations of two non-pruned, non-Merkle cells -/
theorem node_binding (kP kT : Spec.Kind) (bP bT : Bits) (ssP ssT : List Spec.SInfo)
    (hP : kP = .ordinary ∨ kP = .library) (hT : kT = .ordinary ∨ kT = .library)
    (lP : ssP.length ≤ 4) (lT : ssT.length ≤ 4)
    (h32P : ∀ x ∈ ssP.map (fun c => c.hashAt 0), x.length = 32) (h32T : ∀ x ∈ ssT.map (fun c => c.hashAt 0), x.length = 32)
    (he : repr0 kP bP ssP = repr0 kT bT ssT) :
    kP = kT ∧ Spec.dataBytes bP = Spec.dataBytes bT ∧ Spec.d2 bP.length = Spec.d2 bT.length ∧
      ssP.map (fun c => c.hashAt 0) = ssT.map (fun c => c.hashAt 0) := by
  have muP : kP.mu = 0 := by rcases hP with rfl | rfl <;> rfl
  have muT : kT.mu = 0 := by rcases hT with rfl | rfl <;> rfl
  simp only [repr0, muP, muT, List.cons_append, List.nil_append, List.cons.injEq] at he
  obtain ⟨hd1, hd2, hrest⟩ := he
  have hlen : ssP.length = ssT.length ∧ kP = kT := by
    unfold Spec.d1 at hd1
    rcases hP with rfl | rfl <;> rcases hT with rfl | rfl <;> simp [Spec.Kind.isExotic] at hd1 <;>
      first | exact ⟨by omega, rfl⟩ | omega
  have hdl : (Spec.dataBytes bP).length = (Spec.dataBytes bT).length := by
    rw [length_dataBytes, length_dataBytes]
    unfold Spec.d2 at hd2
    omega
  obtain ⟨e1, e2⟩ := List.append_inj hrest hdl
  refine ⟨hlen.2, e1, hd2, ?_⟩
  simp only [Spec.childPart] at e2
  have hdep : ((ssP.map (fun c => Spec.be2 (c.depthAt 0))).flatten).length = ((ssT.map (fun c => Spec.be2 (c.depthAt 0))).flatten).length := by
    rw [length_flatten_const 2 _ (by intro x hx; simp only [List.mem_map] at hx; obtain ⟨c, _, rfl⟩ := hx; simp [Spec.be2]),
        length_flatten_const 2 _ (by intro x hx; simp only [List.mem_map] at hx; obtain ⟨c, _, rfl⟩ := hx; simp [Spec.be2])]
    simp [hlen.1]
  obtain ⟨_, e4⟩ := List.append_inj e2 hdep
  exact flatten_inj 32 _ _ (by simp [hlen.1]) h32P h32T e4

theorem specInfos_length (H : Bytes → Bytes) : ∀ (cs : List Cell) (ss : List Spec.SInfo), specInfos H cs = some ss → ss.length = cs.length := by
  intro cs
  induction cs with
  | nil => intro ss h; simp only [specInfos, Option.some.injEq] at h; subst h; rfl
  | cons c cs ih =>
    intro ss h
    simp only [specInfos, Option.bind_eq_bind] at h
    cases h1 : specInfo H c with
    | none => rw [h1] at h; cases h
    | some s =>
      cases h2 : specInfos H cs with
      | none => rw [h1, h2] at h; cases h
      | some ss0 =>
        rw [h1, h2] at h
        simp only [Option.bind_some, Option.pure_def, Option.some.injEq] at h
        subst h
        simp [ih ss0 h2]

theorem reprs0_root (H : Bytes → Bytes) (kind : Int) (bits : Bits) (refs : List Cell) (k : Spec.Kind) (ss : List Spec.SInfo)
    (hk : kindOf kind = some k) (hss : specInfos H refs = some ss) (hp : k ≠ .pruned) :
    repr0 k bits ss ∈ reprs0 H (.mk kind bits refs) := by
  rw [reprs0]; simp [hk, hss, hp]

theorem reprs0_kids (H : Bytes → Bytes) (kind : Int) (bits : Bits) (refs : List Cell) (x : Bytes)
    (hx : x ∈ reprs0s H refs) : x ∈ reprs0 H (.mk kind bits refs) := by
  rw [reprs0]; exact List.mem_append_right _ hx

mutual
  theorem binding0_aux (H : Bytes → Bytes) (h32 : ∀ x, (H x).length = 32) :
      ∀ (p t : Cell) (sp st : Spec.SInfo), MFree p → MFree t → specInfo H p = some sp → specInfo H t = some st →
        (∀ x y, x ∈ reprs0 H p → y ∈ reprs0 H t → H x = H y → x = y) → sp.hashAt 0 = st.hashAt 0 → Agree0 H p t
    | .mk kp bp rp, .mk kt bt rt, sp, st, mp, mt, hsp, hst, inj, hh => by
      rw [Agree0]
      refine ⟨⟨sp, st, hsp, hst, hh⟩, ?_⟩
      by_cases h1 : kp = 1
      · exact Or.inl h1
      by_cases h2 : kt = 1
      · exact Or.inr (Or.inl h2)
      refine Or.inr (Or.inr ?_)
      have mp' := mp; have mt' := mt
      rw [MFree] at mp' mt'
      simp only [specInfo, Option.bind_eq_bind] at hsp hst
      cases hkp : kindOf kp with
      | none => rw [hkp] at hsp; cases hsp
      | some kP =>
      cases hkt : kindOf kt with
      | none => rw [hkt] at hst; cases hst
      | some kT =>
      cases hssp : specInfos H rp with
      | none => rw [hkp, hssp] at hsp; cases hsp
      | some ssP =>
      cases hsst : specInfos H rt with
      | none => rw [hkt, hsst] at hst; cases hst
      | some ssT =>
      rw [hkp, hssp] at hsp; rw [hkt, hsst] at hst
      simp only [Option.bind_some, Option.pure_def, Option.some.injEq] at hsp hst
      subst hsp; subst hst
      have hP : kP = .ordinary ∨ kP = .library := by
        rcases mp'.1 with e | e | e
        · subst e; left; simpa [kindOf] using hkp.symm
        · exact absurd e h1
        · subst e; right; simpa [kindOf] using hkp.symm
      have hT : kT = .ordinary ∨ kT = .library := by
        rcases mt'.1 with e | e | e
        · subst e; left; simpa [kindOf] using hkt.symm
        · exact absurd e h2
        · subst e; right; simpa [kindOf] using hkt.symm
      have npP : kP ≠ .pruned := by rcases hP with rfl | rfl <;> decide
      have npT : kT ≠ .pruned := by rcases hT with rfl | rfl <;> decide
      rw [hash0_plain H kP bp ssP npP, hash0_plain H kT bt ssT npT] at hh
      have hrepr := inj _ _ (reprs0_root H kp bp rp kP ssP hkp hssp npP) (reprs0_root H kt bt rt kT ssT hkt hsst npT) hh
      have lP : ssP.length ≤ 4 := by
        have := specInfos_length H rp ssP hssp; omega
      have lT : ssT.length ≤ 4 := by
        have := specInfos_length H rt ssT hsst; omega
      obtain ⟨ek, ed, e2, ehs⟩ := node_binding kP kT bp bt ssP ssT hP hT lP lT
        (hashes0_len H h32 rp ssP mp'.2.2.2 hssp) (hashes0_len H h32 rt ssT mt'.2.2.2 hsst) hrepr
      refine ⟨?_, ed, e2, ?_⟩
      · rw [← kindCode_of_kindOf hkp, ← kindCode_of_kindOf hkt, ek]
      · exact bindings0_aux H h32 rp rt ssP ssT mp'.2.2.2 mt'.2.2.2 hssp hsst
          (fun x y hx hy => inj x y (reprs0_kids H kp bp rp x hx) (reprs0_kids H kt bt rt y hy)) ehs
  theorem bindings0_aux (H : Bytes → Bytes) (h32 : ∀ x, (H x).length = 32) :
      ∀ (ps ts : List Cell) (sps sts : List Spec.SInfo), MFrees ps → MFrees ts →
        specInfos H ps = some sps → specInfos H ts = some sts →
        (∀ x y, x ∈ reprs0s H ps → y ∈ reprs0s H ts → H x = H y → x = y) →
        sps.map (fun c => c.hashAt 0) = sts.map (fun c => c.hashAt 0) → Agrees0 H ps ts
    | [], ts, sps, sts, _, _, hsp, hst, _, hh => by
      rw [Agrees0]
      simp only [specInfos, Option.some.injEq] at hsp
      subst hsp
      cases ts with
      | nil => rfl
      | cons t ts =>
        simp only [specInfos, Option.bind_eq_bind] at hst
        cases h1 : specInfo H t with
        | none => rw [h1] at hst; cases hst
        | some s =>
          cases h2 : specInfos H ts with
          | none => rw [h1, h2] at hst; cases hst
          | some ss => rw [h1, h2] at hst; simp at hst; subst hst; simp at hh
    | p :: ps, ts, sps, sts, mp, mt, hsp, hst, inj, hh => by
      rw [Agrees0]
      rw [MFrees] at mp
      simp only [specInfos, Option.bind_eq_bind] at hsp
      cases hp1 : specInfo H p with
      | none => rw [hp1] at hsp; cases hsp
      | some sp =>
      cases hp2 : specInfos H ps with
      | none => rw [hp1, hp2] at hsp; cases hsp
      | some sps0 =>
      rw [hp1, hp2] at hsp
      simp only [Option.bind_some, Option.pure_def, Option.some.injEq] at hsp
      subst hsp
      cases ts with
      | nil =>
        simp only [specInfos, Option.some.injEq] at hst
        subst hst
        simp at hh
      | cons t ts =>
        rw [MFrees] at mt
        simp only [specInfos, Option.bind_eq_bind] at hst
        cases ht1 : specInfo H t with
        | none => rw [ht1] at hst; cases hst
        | some st =>
        cases ht2 : specInfos H ts with
        | none => rw [ht1, ht2] at hst; cases hst
        | some sts0 =>
        rw [ht1, ht2] at hst
        simp only [Option.bind_some, Option.pure_def, Option.some.injEq] at hst
        subst hst
        simp only [List.map_cons, List.cons.injEq] at hh
        refine ⟨t, ts, rfl, ?_, ?_⟩
        · exact binding0_aux H h32 p t sp st mp.1 mt.1 hp1 ht1
            (fun x y hx hy => inj x y (by rw [reprs0s]; exact List.mem_append_left _ hx) (by rw [reprs0s]; exact List.mem_append_left _ hy)) hh.1
        · exact bindings0_aux H h32 ps ts sps0 sts0 mp.2 mt.2 hp2 ht2
            (fun x y hx hy => inj x y (by rw [reprs0s]; exact List.mem_append_right _ hx) (by rw [reprs0s]; exact List.mem_append_right _ hy)) hh.2
end


end TonVerif.Proofs.Merkle
