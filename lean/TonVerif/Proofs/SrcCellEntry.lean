/-
The value-level observers of a constructed `Cell`, regenerated from cell.py on every run (`Generated/CellEntry.lean`,
harness/translate/cellentry.py + pyobj.py): `get_representation`, `calculate_representation_hash`, the property `hash`, `__eq__`,
`__hash__` equal the hand model (`Model.representation`, `CellInfo.pyEq`, `CellInfo.pyHash`) for ALL inputs.
Generation dependent (unfolds the regenerated definitions); the loop lemma `reprLoop` is generation independent.
-/
import TonVerif.Generated.CellEntry
import TonVerif.Proofs.SrcCellCtor

namespace TonVerif.Proofs.SrcCellEntry
open TonVerif TonVerif.Model TonVerif.Generated TonVerif.Generated.CellCtor TonVerif.Generated.CellEntry
open TonVerif.Proofs.SrcObj TonVerif.Proofs.SrcCellCtor

set_option linter.unusedSimpArgs false

/-- ONE loop over the references that appends a depth field to one accumulator and a hash to another = the model's two `mapM`
passes, flattened (`none` exactly when one of the reads raises, whichever comes first). -/
theorem reprLoop {α : Type} (f g : α → Option Bytes) : ∀ (refs : List α) (d0 h0 : Bytes),
    List.foldlM (m := Option) (fun ((d, h) : Bytes × Bytes) (r : α) =>
        (f r).bind fun x => (g r).bind fun y => some (d ++ x, h ++ y)) (d0, h0) refs =
      (refs.mapM f).bind fun ds => (refs.mapM g).bind fun hs => some (d0 ++ ds.flatten, h0 ++ hs.flatten)
  | [], d0, h0 => by simp
  | r :: rs, d0, h0 => by
    rw [List.foldlM_cons]
    simp only [List.mapM_cons, Option.pure_def, Option.bind_eq_bind]
    cases hf : f r with
    | none => simp
    | some x =>
      cases hg : g r with
      | none =>
        simp only [Option.bind_some, Option.bind_none]
        cases rs.mapM f <;> simp
      | some y =>
        simp only [Option.bind_some]
        rw [reprLoop f g rs (d0 ++ x) (h0 ++ y)]
        cases rs.mapM f <;> cases rs.mapM g <;> simp [List.append_assoc]

/-- `xs[-2]` when there are at least two elements -/
theorem getI_neg_two {α : Type} (xs : List α) (h : xs.length > 1) : Py.getI? xs (-2) = xs[xs.length - 2]? := by
  unfold Py.getI?
  have e : (-(-2 : Int)).toNat = 2 := by decide
  simp only [e]
  rw [if_neg (by decide), if_pos (by omega)]

/-- the canonical iteration of the loop over the references of `get_representation` at child level `lvl` -/
def reprStep (lvl : Nat) (s : Bytes × Bytes) (r : CellInfo) : Option (Bytes × Bytes) :=
  ((r.getDepth lvl).bind (toBytesBE? 2)).bind fun x => (r.getHash lvl).bind fun y => some (s.1 ++ x, s.2 ++ y)

theorem reprStepLoop (lvl : Nat) (refs : List CellInfo) (d0 h0 : Bytes) :
    List.foldlM (m := Option) (reprStep lvl) (d0, h0) refs =
      (refs.mapM fun r : CellInfo => (r.getDepth lvl).bind (toBytesBE? 2)).bind fun ds => (refs.mapM fun r : CellInfo => r.getHash lvl).bind fun hs =>
        some (d0 ++ ds.flatten, h0 ++ hs.flatten) := by
  rw [← reprLoop]
  exact foldlM_congr _ _ (by rintro ⟨d, h⟩ r; rfl) refs (d0, h0)

/-- closes one leaf of `get_representation_eq`: the regenerated loop body is shown pointwise equal to `reprStep` by case analysis on
the three reads (so their ORDER inside the body, and whether the two accumulators are updated before or after, does not matter) -/
macro "repr_tail" refs:term:max lvl:term:max : tactic => `(tactic| (
  rw [foldlM_congr _ (reprStep $lvl) (by
        rintro ⟨d, h⟩ r
        simp only [reprStep]
        cases hgd : CellInfo.getDepth r $lvl <;> cases hgh : CellInfo.getHash r $lvl <;>
          simp only [Option.bind_some, Option.bind_none] <;> (try rfl)
        all_goals (generalize toBytesBE? 2 _ = tb; cases tb <;> simp)), reprStepLoop]
  cases List.mapM (fun r : CellInfo => (r.getDepth $lvl).bind (toBytesBE? 2)) $refs <;>
    cases List.mapM (fun r : CellInfo => r.getHash $lvl) $refs <;> simp [List.append_assoc]))

/-- `Cell.get_representation()` of a cell whose attributes are those of the info `i` (`_descriptors = d`) over the child infos
`refs` = the model's `representation`, whenever `d` is what the constructor stored (`get_descriptors(level_mask)`). -/
theorem get_representation_eq (i : CellInfo) (refs : List CellInfo) (d : Bytes)
    (hd : descriptors i.nrefs (i.kind != kOrdinary) i.bits.length i.mask = some d) :
    get_representation (self__descriptors := d) (self_bits := i.bits) (self__hashes := i.hashes) (self_level_mask := i.mask)
      (self_type_ := i.kind) (self_refs := refs) = representation i refs := by
  unfold get_representation representation
  simp only [hd, get_data_bytes_eq, lm_level, get_depth_eq, get_hash_eq, Option.bind_some, Option.bind_eq_bind, Option.pure_def]
  have hm : ((i.kind = 3 ∨ i.kind = 4) : Prop) = (isMerkle i.kind = true) := by
    simp [isMerkle, kMerkleProof, kMerkleUpdate]
  by_cases hl : i.hashes.length > 1
  · rw [if_pos hl, if_pos hl, getI_neg_two _ hl]
    cases hx : i.hashes[i.hashes.length - 2]? with
    | none => simp
    | some data =>
      simp only [Option.bind_some]
      by_cases hk : isMerkle i.kind = true
      · simp only [hm, hk, if_true, Option.bind_some]
        repr_tail refs (bitLength i.mask + 1)
      · simp only [hm, hk, if_false, Bool.false_eq_true, Option.bind_some]
        repr_tail refs (bitLength i.mask)
  · rw [if_neg hl, if_neg hl]
    simp only [Option.bind_some]
    by_cases hk : isMerkle i.kind = true
    · simp only [hm, hk, if_true, Option.bind_some]
      repr_tail refs (bitLength i.mask + 1)
    · simp only [hm, hk, if_false, Bool.false_eq_true, Option.bind_some]
      repr_tail refs (bitLength i.mask)

/-- `Cell.calculate_representation_hash()` = `H` of the model's representation -/
theorem calculate_representation_hash_eq (H : Bytes → Bytes) (i : CellInfo) (refs : List CellInfo) (d : Bytes)
    (hd : descriptors i.nrefs (i.kind != kOrdinary) i.bits.length i.mask = some d) :
    calculate_representation_hash H (self__descriptors := d) (self_bits := i.bits) (self__hashes := i.hashes)
      (self_level_mask := i.mask) (self_type_ := i.kind) (self_refs := refs) = (representation i refs).map H := by
  unfold calculate_representation_hash
  rw [get_representation_eq i refs d hd]
  cases representation i refs <;> rfl

/-- the property `Cell.hash` returns the stored `_hash` -/
theorem hash_prop_eq (h : Bytes) : hash_prop (self__hash := h) = some h := rfl

/-- `Cell.__eq__(self, other)` with `self._hash = a.hash` = the model's `pyEq` -/
theorem pyeq_eq (a b : CellInfo) : pyeq (other := b) (self__hash := a.hash) = some (a.pyEq b) := by
  unfold pyeq CellInfo.pyEq
  simp only [hash_prop_eq, Option.bind_some]
  by_cases h : a.hash = b.hash
  · simp [h]
  · have h' : ¬ b.hash = a.hash := fun e => h e.symm
    simp [h, h']

/-- `Cell.__hash__()` = the model's `pyHash` -/
theorem pyhash_eq (a : CellInfo) : pyhash (self__hash := a.hash) = some a.pyHash := rfl

end TonVerif.Proofs.SrcCellEntry
