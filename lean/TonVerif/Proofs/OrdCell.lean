/-
C01 helper: for trees of ORDINARY cells the spec collapses to the textbook representation hash
(tvm.pdf 3.1.4-3.1.5), and the model computes exactly that.
-/
import TonVerif.Model.Cell
import TonVerif.Spec.Cell
import TonVerif.Proofs.CellSpec

namespace TonVerif.Proofs.OrdCell
open TonVerif TonVerif.Model TonVerif.Proofs.CellSpec

mutual
  /-- depth of a tree: 0 without references, else 1 + the deepest child -/
  def ordDepth : Cell → Nat
    | .mk _ _ refs => if refs.isEmpty then 0 else 1 + ordDepthMax refs
  def ordDepthMax : List Cell → Nat
    | [] => 0
    | c :: cs => Nat.max (ordDepth c) (ordDepthMax cs)
end

mutual
  /-- standard representation hash of an ordinary cell:
      H( d1 d2 ++ padded data ++ depths of children (2 bytes each) ++ hashes of children ) -/
  def ordHash (H : Bytes → Bytes) : Cell → Bytes
    | .mk _ bits refs =>
      H ([Spec.d1 refs.length false 0, Spec.d2 bits.length] ++ Spec.dataBytes bits
          ++ ordDepthBytes refs ++ ordHashes H refs)
  def ordHashes (H : Bytes → Bytes) : List Cell → Bytes
    | [] => []
    | c :: cs => ordHash H c ++ ordHashes H cs
  def ordDepthBytes : List Cell → Bytes
    | [] => []
    | c :: cs => Spec.be2 (ordDepth c) ++ ordDepthBytes cs
end

mutual
  /-- every cell of the tree is ordinary and within the size limits -/
  def OrdWF : Cell → Prop
    | .mk kind bits refs => kind = -1 ∧ bits.length ≤ 1023 ∧ refs.length ≤ 4 ∧ OrdWFs refs
  def OrdWFs : List Cell → Prop
    | [] => True
    | c :: cs => OrdWF c ∧ OrdWFs cs
end


set_option linter.unusedSimpArgs false

/-! ### helpers -/

/-- spec info `s` carries the textbook values of the ordinary tree `c` -/
def SGood (H : Bytes → Bytes) (c : Cell) (s : Spec.SInfo) : Prop :=
  s.mask = 0 ∧ ∀ l, s.hashAt l = ordHash H c ∧ s.depthAt l = ordDepth c

def Rel (H : Bytes → Bytes) : List Cell → List Spec.SInfo → Prop
  | [], [] => True
  | c :: cs, s :: ss => SGood H c s ∧ Rel H cs ss
  | _, _ => False

theorem natmax_eq (a b : Nat) : Nat.max a b = max a b := rfl

theorem Rel.length_eq (H : Bytes → Bytes) : ∀ {cs ss}, Rel H cs ss → ss.length = cs.length
  | [], [], _ => rfl
  | _ :: _, _ :: _, h => by simp [Rel.length_eq H h.2]
  | [], _ :: _, h => h.elim
  | _ :: _, [], h => h.elim

theorem Rel.mask (H : Bytes → Bytes) : ∀ {cs ss}, Rel H cs ss → ∀ s ∈ ss, s.mask = 0
  | [], [], _ => by simp
  | _ :: _, _ :: _, h => by
    intro s hs
    rcases List.mem_cons.mp hs with rfl | hs
    · exact h.1.1
    · exact Rel.mask H h.2 s hs
  | [], _ :: _, h => h.elim
  | _ :: _, [], h => h.elim

theorem Rel.foldMask (H : Bytes → Bytes) : ∀ {cs ss}, Rel H cs ss →
    ss.foldl (fun m (c : Spec.SInfo) => m ||| c.mask) 0 = 0
  | [], [], _ => rfl
  | _ :: _, _ :: _, h => by
    simp only [List.foldl_cons, h.1.1, Nat.or_zero]; exact Rel.foldMask H h.2
  | [], _ :: _, h => h.elim
  | _ :: _, [], h => h.elim

theorem Rel.childPart (H : Bytes → Bytes) (cl : Nat) : ∀ {cs ss}, Rel H cs ss →
    (ss.map (fun c => Spec.be2 (c.depthAt cl))).flatten = ordDepthBytes cs ∧
    (ss.map (fun c => c.hashAt cl)).flatten = ordHashes H cs
  | [], [], _ => by simp [ordDepthBytes, ordHashes]
  | c :: cs, s :: ss, h => by
    obtain ⟨h1, h2⟩ := Rel.childPart H cl h.2
    simp only [List.map_cons, List.flatten_cons, ordDepthBytes, ordHashes, h1, h2, (h.1.2 cl).1, (h.1.2 cl).2]
    first | exact ⟨rfl, rfl⟩ | trivial
  | [], _ :: _, h => h.elim
  | _ :: _, [], h => h.elim

theorem Rel.maxDepth (H : Bytes → Bytes) (cl : Nat) : ∀ {cs ss}, Rel H cs ss → ∀ a,
    (ss.map (fun c => c.depthAt cl)).foldl Nat.max a = max a (ordDepthMax cs)
  | [], [], _ => by intro a; simp [ordDepthMax]
  | c :: cs, s :: ss, h => by
    intro a
    simp only [List.map_cons, List.foldl_cons, ordDepthMax, Rel.maxDepth H cl h.2, (h.1.2 cl).2, natmax_eq]
    omega
  | [], _ :: _, h => h.elim
  | _ :: _, [], h => h.elim

theorem Rel.depth_le (H : Bytes → Bytes) (cl : Nat) : ∀ {cs ss}, Rel H cs ss →
    ∀ s ∈ ss, s.depthAt cl ≤ ordDepthMax cs
  | [], [], _ => by simp
  | c :: cs, s :: ss, h => by
    intro t ht
    simp only [ordDepthMax, natmax_eq]
    rcases List.mem_cons.mp ht with rfl | ht
    · rw [(h.1.2 cl).2]; omega
    · have := Rel.depth_le H cl h.2 t ht; omega
  | [], _ :: _, h => h.elim
  | _ :: _, [], h => h.elim

theorem plainHashAt_zero (H : Bytes → Bytes) (k bits kids) : ∀ l,
    Spec.plainHashAt H k bits kids 0 l = Spec.plainHashAt H k bits kids 0 0
  | 0 => rfl
  | l+1 => by
    have : Spec.plainHashAt H k bits kids 0 (l+1) = Spec.plainHashAt H k bits kids 0 l := by
      simp [Spec.plainHashAt]
    rw [this]; exact plainHashAt_zero H k bits kids l

theorem plainDepthAt_zero (k kids) : ∀ l,
    Spec.plainDepthAt k kids 0 l = Spec.plainDepthAt k kids 0 0
  | 0 => rfl
  | l+1 => by
    have : Spec.plainDepthAt k kids 0 (l+1) = Spec.plainDepthAt k kids 0 l := by
      simp [Spec.plainDepthAt]
    rw [this]; exact plainDepthAt_zero k kids l

/-- the spec node over good children is good -/
theorem node_good (H : Bytes → Bytes) (kind : Int) (bits : Bits) (refs : List Cell) (ss : List Spec.SInfo)
    (hrel : Rel H refs ss) : SGood H (.mk kind bits refs) (Spec.node H .ordinary bits ss) := by
  have hm : Spec.nodeMask .ordinary bits ss = 0 := by simp only [Spec.nodeMask]; exact Rel.foldMask H hrel
  have hlen := Rel.length_eq H hrel
  rw [node_plain H .ordinary bits ss (by decide), hm]
  refine ⟨rfl, ?_⟩
  intro l
  simp only
  rw [plainHashAt_zero, plainDepthAt_zero]
  obtain ⟨c1, c2⟩ := Rel.childPart H (0 + Spec.Kind.mu .ordinary) hrel
  constructor
  · simp only [Spec.plainHashAt, Spec.childPart, c1, c2, hlen, Spec.Kind.isExotic, ordHash, List.append_assoc]
  · simp only [Spec.plainDepthAt, Spec.depthOver, Spec.maxList, Rel.maxDepth H _ hrel, ordDepth]
    cases refs with
    | nil => cases ss with
      | nil => rfl
      | cons s ss => exact hrel.elim
    | cons c cs => cases ss with
      | nil => exact hrel.elim
      | cons s ss => simp

theorem node_wf (H : Bytes → Bytes) (kind : Int) (bits : Bits) (refs : List Cell) (ss : List Spec.SInfo)
    (hrel : Rel H refs ss) (hb : bits.length ≤ 1023) (hr : refs.length ≤ 4)
    (hd : ordDepth (.mk kind bits refs) ≤ 1023) : NodeWF H .ordinary bits ss where
  bitsLen := hb
  nrefs := by rw [Rel.length_eq H hrel]; exact hr
  kidsMask := by intro c hc; rw [Rel.mask H hrel c hc]; omega
  depthOk := by
    intro _ l
    rw [((node_good H kind bits refs ss hrel).2 l).2]; exact hd
  pruned := by intro h; cases h
  library := by intro h; cases h
  mproof := by intro h; cases h
  mupdate := by intro h; cases h

theorem ordDepthMax_le (kind : Int) (bits : Bits) (refs : List Cell)
    (hd : ordDepth (.mk kind bits refs) ≤ 1023) : ordDepthMax refs ≤ 1023 := by
  rw [ordDepth] at hd
  cases refs with
  | nil => simp [ordDepthMax]
  | cons c cs => simp at hd; omega

/-- an ordinary cell with mask 0 caches exactly one hash -/
theorem construct_ord_hashes (H : Bytes → Bytes) (bits : Bits) (kis : List CellInfo) (i : CellInfo)
    (h : construct H (-1) bits kis = some i) (hm : i.mask = 0) : ∃ x, i.hashes = [x] ∧ i.depths.length = 1 := by
  have e1 : ((-1 : Int) == kPruned) = false := by decide
  simp only [construct, Option.bind_eq_bind, e1, Bool.false_eq_true, if_false, Nat.sub_self, Option.pure_def,
    Option.bind_eq_some_iff] at h
  obtain ⟨m, _, st, hfold, _, _, _, _, hi⟩ := h
  cases hi
  simp only at hm
  subst hm
  have hb : bitLength 0 = 0 := by simp [bitLength]
  rw [hb, foldlM_range_succ] at hfold
  simp only [List.range_zero, List.foldlM_nil, Option.pure_def, Option.bind_some] at hfold
  have hs : isSignificant 0 0 = true := by simp [isSignificant]
  simp only [hashStep, hs, Bool.not_true, Bool.false_eq_true, if_false, Nat.not_lt_zero, Option.bind_eq_bind,
    Option.pure_def, Option.bind_eq_some_iff] at hfold
  obtain ⟨a, _, h⟩ := hfold
  simp only [beq_self_eq_true, if_true, bne_self_eq_false, Bool.false_and, Bool.false_eq_true, if_false,
    Option.bind_some, Option.bind_eq_some_iff] at h
  obtain ⟨_, _, _, _, _, _, _, _, hst⟩ := h
  cases hst
  exact ⟨_, rfl, rfl⟩

theorem hash_of_single (i : CellInfo) (x : Bytes) (hk : i.kind = -1) (hm : i.mask = 0) (hh : i.hashes = [x]) :
    i.hash = x ∧ i.getHash 0 = some x := by
  have e1 : ((-1 : Int) == kPruned) = false := by decide
  simp [CellInfo.hash, CellInfo.getHash, hk, hm, hh, e1, hashIndexAt, maskApply, popcount]

/-- one ordinary node over constructed, good children -/
theorem node_step (H : Bytes → Bytes) (kind : Int) (bits : Bits) (refs : List Cell)
    (is : List CellInfo) (ss : List Spec.SInfo)
    (hag : AllAgree is ss) (hrel : Rel H refs ss) (hb : bits.length ≤ 1023) (hr : refs.length ≤ 4)
    (hd : ordDepth (.mk kind bits refs) ≤ 1023) :
    ∃ i, construct H (-1) bits is = some i ∧ Agrees i (Spec.node H .ordinary bits ss) ∧
      i.kind = -1 ∧ i.bits = bits ∧ i.nrefs = refs.length ∧ i.mask = 0 ∧ i.hashes.length = 1 ∧
      i.hash = ordHash H (.mk kind bits refs) := by
  have wf := node_wf H kind bits refs ss hrel hb hr hd
  have good := node_good H kind bits refs ss hrel
  obtain ⟨i, hc, hagree, hkind, hbits, hn⟩ := construct_agrees H .ordinary bits is ss hag wf
  have hkc : kindCode .ordinary = -1 := rfl
  rw [hkc] at hc hkind
  have hmask : i.mask = 0 := by rw [hagree.1]; exact good.1
  obtain ⟨x, hx, _⟩ := construct_ord_hashes H bits is i hc hmask
  obtain ⟨h1, h2⟩ := hash_of_single i x hkind hmask hx
  have h3 := (hagree.2 0).1
  rw [h2, (good.2 0).1] at h3
  refine ⟨i, hc, hagree, hkind, hbits, ?_, hmask, by rw [hx]; rfl, ?_⟩
  · rw [hn, hag.length_eq, Rel.length_eq H hrel]
  · rw [h1]; exact Option.some.inj h3

theorem node_deep (H : Bytes → Bytes) (kind : Int) (bits : Bits) (refs : List Cell)
    (is : List CellInfo) (ss : List Spec.SInfo)
    (hag : AllAgree is ss) (hrel : Rel H refs ss)
    (hd : 1023 < ordDepth (.mk kind bits refs)) : construct H (-1) bits is = none := by
  apply construct_depth_limit H bits is ss hag
  refine ⟨0, ?_⟩
  rw [((node_good H kind bits refs ss hrel).2 0).2]; exact hd

mutual
  theorem ord_main (H : Bytes → Bytes) : ∀ (c : Cell), OrdWF c →
      (ordDepth c ≤ 1023 → ∃ i s, Cell.info H c = some i ∧ Agrees i s ∧ SGood H c s ∧ i.kind = -1 ∧
          i.hash = ordHash H c) ∧
      (1023 < ordDepth c → Cell.info H c = none)
    | .mk kind bits refs, wf => by
      rw [OrdWF] at wf
      obtain ⟨hkind, hb, hr, wfs⟩ := wf
      obtain ⟨ih1, ih2⟩ := ords_main H refs wfs
      subst hkind
      constructor
      · intro hd
        obtain ⟨is, ss, hi, hag, hrel⟩ := ih1 (ordDepthMax_le _ bits refs hd)
        obtain ⟨i, hc, hagree, hk, _, _, _, _, hh⟩ := node_step H (-1) bits refs is ss hag hrel hb hr hd
        exact ⟨i, _, by simp [Cell.info, hi, hc], hagree, node_good H (-1) bits refs ss hrel, hk, hh⟩
      · intro hd
        by_cases hmax : ordDepthMax refs ≤ 1023
        · obtain ⟨is, ss, hi, hag, hrel⟩ := ih1 hmax
          simp [Cell.info, hi, node_deep H (-1) bits refs is ss hag hrel hd]
        · simp [Cell.info, ih2 (by omega)]
  theorem ords_main (H : Bytes → Bytes) : ∀ (cs : List Cell), OrdWFs cs →
      (ordDepthMax cs ≤ 1023 → ∃ is ss, Cell.infos H cs = some is ∧ AllAgree is ss ∧ Rel H cs ss) ∧
      (1023 < ordDepthMax cs → Cell.infos H cs = none)
    | [], _ => ⟨fun _ => ⟨[], [], by simp [Cell.infos], trivial, trivial⟩, fun h => by simp [ordDepthMax] at h⟩
    | c :: cs, wf => by
      rw [OrdWFs] at wf
      obtain ⟨a1, a2⟩ := ord_main H c wf.1
      obtain ⟨b1, b2⟩ := ords_main H cs wf.2
      constructor
      · intro hd
        simp only [ordDepthMax, natmax_eq] at hd
        obtain ⟨i, s, hi, ha, hg, _⟩ := a1 (by omega)
        obtain ⟨is, ss, his, has, hrel⟩ := b1 (by omega)
        exact ⟨i :: is, s :: ss, by simp [Cell.infos, hi, his], ⟨ha, has⟩, ⟨hg, hrel⟩⟩
      · intro hd
        simp only [ordDepthMax, natmax_eq] at hd
        by_cases hc : 1023 < ordDepth c
        · simp [Cell.infos, a2 hc]
        · have := b2 (by omega)
          cases hinfo : Cell.info H c <;> simp [Cell.infos, hinfo, this]
end

theorem mapM_depth_bytes : ∀ {ks : List CellInfo} {ss : List Spec.SInfo}, AllAgree ks ss → ∀ l,
    (∀ s ∈ ss, s.depthAt l < 65536) →
    ks.mapM (fun r => (r.getDepth l).bind (toBytesBE? 2)) = some (ss.map (fun c => Spec.be2 (c.depthAt l)))
  | [], [], _, _, _ => rfl
  | i :: is, s :: ss, h, l, hb => by
    simp only [List.mem_cons, forall_eq_or_imp] at hb
    simp [List.mapM_cons, (h.1.2 l).2, toBytesBE_two _ hb.1, mapM_depth_bytes h.2 l hb.2]
  | [], _ :: _, h, _, _ => h.elim
  | _ :: _, [], h, _, _ => h.elim

/-! ### the C01 statements -/

/-- C01 (hash/depth): every ordinary tree of depth ≤ 1023 can be constructed; its mask is 0, and at EVERY
level its reported hash is the standard representation hash and its depth the standard depth. -/
theorem ord_info (H : Bytes → Bytes) (c : Cell) (wf : OrdWF c) (hd : ordDepth c ≤ 1023) :
    ∃ i, Cell.info H c = some i ∧ i.mask = 0 ∧ i.kind = -1 ∧ i.hash = ordHash H c ∧
      ∀ l, i.getHash l = some (ordHash H c) ∧ i.getDepth l = some (ordDepth c) := by
  obtain ⟨i, s, hi, hag, hg, hk, hh⟩ := (ord_main H c wf).1 hd
  refine ⟨i, hi, by rw [hag.1]; exact hg.1, hk, hh, ?_⟩
  intro l
  rw [(hag.2 l).1, (hag.2 l).2, (hg.2 l).1, (hg.2 l).2]
  exact ⟨rfl, rfl⟩

/-- C01 (depth limit): an ordinary tree deeper than 1023 cannot be constructed. -/
theorem ord_too_deep (H : Bytes → Bytes) (c : Cell) (wf : OrdWF c) (hd : 1023 < ordDepth c) :
    Cell.info H c = none := by
  exact (ord_main H c wf).2 hd

/-- C01 (explicit representation): `get_representation` of a constructed ordinary cell is the standard
representation, so `calculate_representation_hash()` equals the cached hash. -/
theorem ord_representation (H : Bytes → Bytes) (kind : Int) (bits : Bits) (refs : List Cell)
    (wf : OrdWF (.mk kind bits refs)) (hd : ordDepth (.mk kind bits refs) ≤ 1023) :
    ∃ i ks, Cell.info H (.mk kind bits refs) = some i ∧ Cell.infos H refs = some ks ∧
      (representation i ks).map H = some i.hash := by
  have wf' := wf
  rw [OrdWF] at wf'
  obtain ⟨hkind, hb, hr, wfs⟩ := wf'
  subst hkind
  have hmax := ordDepthMax_le _ bits refs hd
  obtain ⟨ks, ss, hi, hag, hrel⟩ := (ords_main H refs wfs).1 hmax
  obtain ⟨i, hc, hagree, hk, hbits, hn, hmask, hlen, hh⟩ := node_step H (-1) bits refs ks ss hag hrel hb hr hd
  refine ⟨i, ks, by simp [Cell.info, hi, hc], hi, ?_⟩
  have e1 : ((-1 : Int) != kOrdinary) = false := by decide
  have e2 : isMerkle (-1) = false := by decide
  have e3 : bitLength 0 = 0 := by simp [bitLength]
  have hdb : ∀ s ∈ ss, s.depthAt 0 < 65536 := by
    intro s hs
    have := Rel.depth_le H 0 hrel s hs
    omega
  obtain ⟨c1, c2⟩ := Rel.childPart H 0 hrel
  simp only [representation, hk, hbits, hn, hmask, hlen, e1, e2, e3, Bool.false_eq_true, if_false,
    descriptors_eq refs.length false bits.length 0 hr hb (by omega), Nat.lt_irrefl,
    mapM_depth_bytes hag 0 hdb, hag.hashes, Option.bind_eq_bind, Option.bind_some, Option.pure_def, Option.map_some,
    c1, c2, hh, ordHash, dataBytes_eq]

theorem natOfBE_inj_aux : ∀ (a b : Bytes) (x y : Nat), Bytes.WF a → Bytes.WF b → a.length = b.length →
    a.foldl (fun acc b => acc * 256 + b) x = b.foldl (fun acc b => acc * 256 + b) y → x = y ∧ a = b
  | [], [], x, y, _, _, _, h => ⟨by simpa using h, rfl⟩
  | [], _ :: _, _, _, _, _, hl, _ => by simp at hl
  | _ :: _, [], _, _, _, _, hl, _ => by simp at hl
  | p :: ps, q :: qs, x, y, ha, hb, hl, h => by
    simp only [List.foldl_cons] at h
    have hp : p < 256 := ha p (by simp)
    have hq : q < 256 := hb q (by simp)
    have ha' : Bytes.WF ps := fun z hz => ha z (by simp [hz])
    have hb' : Bytes.WF qs := fun z hz => hb z (by simp [hz])
    obtain ⟨h1, h2⟩ := natOfBE_inj_aux ps qs _ _ ha' hb' (by simpa using hl) h
    have : x = y ∧ p = q := by omega
    exact ⟨this.1, by rw [this.2, h2]⟩

/-- `__hash__` (big-endian integer of the hash) is injective on 32-byte hashes -/
theorem natOfBE_inj (a b : Bytes) (ha : Bytes.WF a) (hb : Bytes.WF b) (hl : a.length = b.length)
    (h : natOfBE a = natOfBE b) : a = b := by
  exact (natOfBE_inj_aux a b 0 0 ha hb hl h).2

/-- C01 (equality and dict keys): `==` and `__hash__` agree exactly with hash equality -/
theorem pyEq_iff (a b : CellInfo) : a.pyEq b = true ↔ a.hash = b.hash := by
  simp [CellInfo.pyEq]

theorem pyHash_iff (a b : CellInfo) (ha : Bytes.WF a.hash) (hb : Bytes.WF b.hash)
    (hl : a.hash.length = b.hash.length) : a.pyHash = b.pyHash ↔ a.hash = b.hash := by
  constructor
  · intro h; exact natOfBE_inj _ _ ha hb hl h
  · intro h; simp only [CellInfo.pyHash, h]

/-! ### the byte strings of the children as flattened lists (for `c01_repr_injective`) -/

theorem ordDepthBytes_eq : ∀ (rs : List Cell), ordDepthBytes rs = (rs.map (fun c => Spec.be2 (ordDepth c))).flatten
  | [] => rfl
  | c :: cs => by simp [ordDepthBytes, ordDepthBytes_eq cs]

theorem ordHashes_eq (H : Bytes → Bytes) : ∀ (rs : List Cell), ordHashes H rs = (rs.map (ordHash H)).flatten
  | [] => rfl
  | c :: cs => by simp [ordHashes, ordHashes_eq H cs]

theorem ordHash_length (H : Bytes → Bytes) (h32 : ∀ x, (H x).length = 32) : ∀ c, (ordHash H c).length = 32
  | .mk _ _ _ => by rw [ordHash]; exact h32 _

end TonVerif.Proofs.OrdCell
