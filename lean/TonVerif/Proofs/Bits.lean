/-
Bit-level lemmas: the model's `natToBits`/`natOfBits`/`bytesToBits`/`bitsToBytes` (Basic.lean) against
the TL-B primitives of Spec/TlbPrim.lean; sizes of variable-length integers.
-/
import TonVerif.Basic
import TonVerif.Spec.TlbPrim

namespace TonVerif.Proofs.Bits
open TonVerif TonVerif.Spec.Tlb

/-! ### natToBits / natOfBits -/

@[simp] theorem natToBits_length (n v : Nat) : (natToBits n v).length = n := by
  induction n generalizing v with
  | zero => simp [natToBits]
  | succ n ih => simp [natToBits, ih]

theorem natOfBits_snoc (xs : Bits) (b : Bool) :
    natOfBits (xs ++ [b]) = natOfBits xs * 2 + (if b then 1 else 0) := by
  simp [natOfBits, List.foldl_append]

theorem natOfBits_natToBits (n v : Nat) (h : v < 2 ^ n) : natOfBits (natToBits n v) = v := by
  induction n generalizing v with
  | zero => simp [natToBits, natOfBits] at *; omega
  | succ n ih =>
    have h2 : v / 2 < 2 ^ n := by
      rw [Nat.pow_succ] at h; omega
    rw [natToBits, natOfBits_snoc, ih _ h2]
    by_cases hb : v % 2 = 1 <;> simp [hb] <;> omega

/-- first bit of the `n+1`-bit form is the coefficient of `2^n` -/
theorem natToBits_succ (n v : Nat) : natToBits (n + 1) v = (v / 2 ^ n % 2 == 1) :: natToBits n v := by
  induction n generalizing v with
  | zero => simp [natToBits]
  | succ n ih =>
    have e : ∀ m w, natToBits (m + 1) w = natToBits m (w / 2) ++ [w % 2 == 1] := fun _ _ => rfl
    calc natToBits (n + 1 + 1) v
        = natToBits (n + 1) (v / 2) ++ [v % 2 == 1] := e _ _
      _ = ((v / 2 / 2 ^ n % 2 == 1) :: natToBits n (v / 2)) ++ [v % 2 == 1] := by rw [ih]
      _ = (v / 2 ^ (n + 1) % 2 == 1) :: natToBits (n + 1) v := by
          rw [List.cons_append, ← e, Nat.div_div_eq_div_mul, Nat.pow_succ, Nat.mul_comm]

/-- the model's bit writer is the TL-B `uint n` encoding (for every `v`, truncating alike) -/
theorem natToBits_eq_uintBits (n v : Nat) : natToBits n v = uintBits n v := by
  induction n with
  | zero => simp [natToBits, uintBits]
  | succ n ih => rw [natToBits_succ, uintBits, ih]

@[simp] theorem uintBits_length (n v : Nat) : (uintBits n v).length = n := by
  rw [← natToBits_eq_uintBits]; simp

/-- the model's bit reader computes the number denoted by the bit string -/
theorem natOfBits_eq_bitsVal (bs : Bits) : natOfBits bs = bitsVal bs := by
  suffices h : ∀ (acc : Nat), bs.foldl (fun acc b => acc * 2 + (if b then 1 else 0)) acc
      = acc * 2 ^ bs.length + bitsVal bs by
    simpa [natOfBits] using h 0
  induction bs with
  | nil => intro acc; simp [bitsVal]
  | cons b bs ih =>
    intro acc
    rw [List.foldl_cons, ih, bitsVal, List.length_cons, Nat.pow_succ]
    cases b <;> simp [Nat.add_mul, Nat.mul_assoc, Nat.mul_comm, Nat.add_assoc]

theorem bitsVal_lt (bs : Bits) : bitsVal bs < 2 ^ bs.length := by
  induction bs with
  | nil => simp [bitsVal]
  | cons b bs ih =>
    rw [bitsVal, List.length_cons, Nat.pow_succ]
    cases b <;> simp <;> omega

theorem natOfBits_lt (bs : Bits) : natOfBits bs < 2 ^ bs.length := by
  rw [natOfBits_eq_bitsVal]; exact bitsVal_lt bs

/-! ### bytes -/

theorem bytesToBits_eq_bytesBits (bs : Bytes) : bytesToBits bs = bytesBits bs := by
  unfold bytesToBits bytesBits byteToBits
  congr 1
  funext b
  exact natToBits_eq_uintBits 8 b

@[simp] theorem bytesToBits_length (bs : Bytes) : (bytesToBits bs).length = 8 * bs.length := by
  induction bs with
  | nil => simp [bytesToBits]
  | cons b bs ih =>
    simp only [bytesToBits, List.flatMap_cons, List.length_append, byteToBits, natToBits_length] at *
    rw [ih, List.length_cons]; omega

@[simp] theorem bytesBits_length (bs : List Nat) : (bytesBits bs).length = 8 * bs.length := by
  rw [← bytesToBits_eq_bytesBits]; simp

theorem bytesToBits_cons (b : Nat) (bs : Bytes) : bytesToBits (b :: bs) = natToBits 8 b ++ bytesToBits bs := by
  simp [bytesToBits, byteToBits]

theorem bitsToBytes_byte (b : Nat) (hb : b < 256) (rest : Bits) :
    bitsToBytes (natToBits 8 b ++ rest) = b :: bitsToBytes rest := by
  have hl : (natToBits 8 b).length = 8 := natToBits_length 8 b
  obtain ⟨x, xs, hx⟩ : ∃ x xs, natToBits 8 b = x :: xs := by
    cases h : natToBits 8 b with
    | nil => rw [h] at hl; simp at hl
    | cons x xs => exact ⟨x, xs, rfl⟩
  have hl' : (x :: xs).length = 8 := by rw [← hx]; exact hl
  rw [hx, List.cons_append, bitsToBytes]
  have ht : List.take 8 (x :: (xs ++ rest)) = x :: xs := by
    rw [← List.cons_append, List.take_left' hl']
  have hd : List.drop 8 (x :: (xs ++ rest)) = rest := by
    rw [← List.cons_append, List.drop_left' hl']
  simp only [ht, hd, hl']
  rw [← hx]
  simp [natOfBits_natToBits 8 b (by simpa using hb)]

theorem bitsToBytes_bytesToBits (bs : Bytes) (h : Bytes.WF bs) : bitsToBytes (bytesToBits bs) = bs := by
  induction bs with
  | nil => simp [bytesToBits, bitsToBytes]
  | cons b bs ih =>
    have hb : b < 256 := h b (by simp)
    have hbs : Bytes.WF bs := fun x hx => h x (by simp [hx])
    rw [bytesToBits_cons, bitsToBytes_byte b hb, ih hbs]

/-! ### sizes of variable-length integers -/

theorem byteLenU_le_iff (v l : Nat) : byteLenU v ≤ l ↔ v < 256 ^ l := by
  induction l generalizing v with
  | zero =>
    cases v with
    | zero => simp [byteLenU]
    | succ v => rw [byteLenU]; simp
  | succ l ih =>
    cases v with
    | zero => simp [byteLenU]; exact Nat.pow_pos (by decide)
    | succ v =>
      rw [byteLenU, Nat.pow_succ]
      have := ih ((v + 1) / 256)
      constructor
      · intro h
        have h' : byteLenU ((v + 1) / 256) ≤ l := by omega
        have := this.mp h'
        omega
      · intro h
        have h' : (v + 1) / 256 < 256 ^ l := by omega
        have := this.mpr h'
        omega

end TonVerif.Proofs.Bits
