/-
C16 source tie, second part — per class of tlb/transaction.py: the regenerated reader (Generated/TlbParsersTx.lean) refines the
spec decoder of its block.tlb type (Spec/Tlb/Block.lean) under the declared view (Spec/Tlb/PyViewTx.lean).
Method: Proofs/SrcTlbTx.lean (tactic `tx_refine`) on top of Proofs/SrcTlb.lean and the theorems of Proofs/SrcTlbParsers.lean.
-/
import TonVerif.Proofs.SrcTlbTx
import TonVerif.Proofs.SrcTlbParsers
import TonVerif.Generated.TlbParsersTx

namespace TonVerif.Tlb.Tx
open TonVerif TonVerif.Tlb

/-! ### `Slice.load_address` against MsgAddressExt / MsgAddressInt -/

theorem bitsC_loadUint (m : Nat) (s : Frag) (v : Val) (s' : Frag) (h : (bitsC m).dec s = some (v, s')) :
    (m ≠ 0 → Rd.loadUint m s = some (bitsInt v, s')) ∧ (m = 0 → bitsInt v = .int 0 ∧ s' = s) := by
  simp only [bitsC] at h
  split at h
  · cases h
  · rename_i hl
    simp only [Option.some.injEq, Prod.mk.injEq] at h
    obtain ⟨rfl, rfl⟩ := h
    constructor
    · intro hm
      simp [Rd.loadUint, hm, Rd.takeBits, hl, bitsInt]
    · rintro rfl
      simp [bitsInt, natOfBits]

theorem uint_dec_nat (n : Nat) (s : Frag) (v : Val) (s' : Frag) (h : (uint n).dec s = some (v, s')) :
    ∃ k : Nat, v = .int k := by
  simp only [uint] at h
  split at h
  · cases h
  · cases h; exact ⟨_, rfl⟩

theorem refines_MsgAddressExt : Refines Rd.loadAddress msgAddressExt view_MsgAddressExt := by
  rintro ⟨bits, refs⟩ v s'
  tx_struct [msgAddressExt, msgAddressExtAlts, addrNoneAlt, addrExternAlt]
  intro _
  refine ⟨?_, ?_⟩
  · rintro t rs rfl rfl _ rfl rfl rfl
    simp [Rd.loadAddress, loadUint_cons, takeBits_succ, takeBits_zero, natOfBits, view_MsgAddressExt]
  · rintro _ t rs rfl rfl _ _ len s1 hlen _ ea s2 hea _ rfl rfl rfl rfl rfl rfl
    obtain ⟨k, rfl⟩ := uint_dec_nat _ _ _ _ hlen
    have hl := (uint_keep 9 _ _ _).1 hlen
    have hl2 := hl.2 (by decide)
    have hb := bitsC_loadUint _ _ _ _ hea
    simp only [Env.nat, List.lookup, beq_self_eq_true, Int.toNat_natCast] at hb
    simp only [Rd.loadAddress, loadUint_cons, takeBits_succ, takeBits_zero, natOfBits, view_MsgAddressExt]
    simp only [Nat.reduceEqDiff, if_false, Option.map, Rd.natOfVal, Int.toNat_natCast]
    by_cases hk : k = 0
    · subst hk
      obtain ⟨h1, h2⟩ := hb.2 rfl
      simp [hl2, h1, h2, Val.get, List.lookup, Rd.obj]
    · have := hb.1 hk
      simp [hl2, hk, this, Val.get, List.lookup, Rd.obj]

theorem loadAnycast_of (s : Frag) (v : Val) (s' : Frag) (h : (maybe anycast).dec s = some (v, s')) :
    Rd.loadAnycast s = some (viewMaybe view_Anycast v, s') := by
  rcases (maybe_dec _ _ _ _).1 h with ⟨r, rs, rfl, rfl, rfl⟩ | ⟨r, rs, rfl, h2⟩
  · simp [Rd.loadAnycast, loadBool_cons, viewMaybe]
  · revert h2
    tx_struct [anycast]
    rintro _ depth s1 hd n rfl h1 h30 _ pfx s2 hp _ rfl rfl rfl rfl rfl
    have hl := ((uint_keep 5 _ _ _).1 hd).2 (by decide)
    have hb := bitsC_loadUint _ _ _ _ hp
    simp only [Env.nat, List.lookup, beq_self_eq_true, Int.toNat_natCast] at hb
    have hn : n ≠ 0 := by omega
    have := hb.1 hn
    have hlt : ¬ n < 1 := by omega
    simp [Rd.loadAnycast, loadBool_cons, hl, Rd.natOfVal, hlt, this, viewMaybe, view_Anycast, Val.get, List.lookup, Rd.obj]

theorem refines_MsgAddressInt : RefinesP PV Rd.loadAddress msgAddressInt view_MsgAddressInt := by
  rintro ⟨bits, refs⟩ v s'
  tx_struct [msgAddressInt, msgAddressIntAlts, addrStdAlt, addrVarAlt]
  intro _
  refine ⟨?_, ?_⟩
  · rintro t rs rfl rfl _ _ ac s1 hac _ wc s2 hwc _ addr s3 haddr _ rfl rfl rfl rfl rfl rfl rfl _
    have h1 := loadAnycast_of _ _ _ hac
    have h2 := ((sint_keep 8 _ _ _).1 hwc).2
    have h3 := ((bitsC_keep 256 _ _ _).1 haddr).2.2 (by decide)
    simp [Rd.loadAddress, loadUint_cons, takeBits_succ, takeBits_zero, natOfBits, h1, h2, h3, view_MsgAddressInt, Val.get,
      List.lookup, Rd.obj]
  · intro _ t rs _ _ x
    intros
    subst_vars
    simp_all [PV, Val.noVar]

/-! ### currencies, phases -/

local macro "kOptGrams" : term => `(optK refines_grams (nonUnit_varUInt 16))
local macro "kOptInt32" : term => `(optK (refines_sint 32) (nonUnit_sint 32))
local macro "kOptUint64" : term => `(optK (refines_uint 64 (by decide)) (nonUnit_uint 64))

theorem refines_ExtraCurrencyCollection :
    Refines (SrcTx.ExtraCurrencyCollection false) extraCurrencyCollection view_ExtraCurrencyCollection := by
  apply RefinesP.toRefines
  tx_refine [extraCurrencyCollection, SrcTx.ExtraCurrencyCollection, view_ExtraCurrencyCollection,
    dictK (refines_varUInt 32 5 (by decide) (by decide)) 32]

theorem refines_CurrencyCollection :
    Refines (SrcTx.CurrencyCollection false) currencyCollection view_CurrencyCollection := by
  apply RefinesP.toRefines
  tx_refine [currencyCollection, SrcTx.CurrencyCollection, view_CurrencyCollection, refines_ExtraCurrencyCollection.keep]

theorem refines_TrActionPhase : Refines (SrcTx.TrActionPhase false) trActionPhase view_TrActionPhase := by
  apply RefinesP.toRefines
  tx_refine [trActionPhase, SrcTx.TrActionPhase, view_TrActionPhase, refines_AccStatusChange.keep, refines_StorageUsedShort.keep,
    kOptGrams, kOptInt32]

theorem refines_TrCreditPhase : Refines (SrcTx.TrCreditPhase false) trCreditPhase view_TrCreditPhase := by
  apply RefinesP.toRefines
  tx_refine [trCreditPhase, SrcTx.TrCreditPhase, view_TrCreditPhase, refines_CurrencyCollection.keep, kOptGrams]

theorem refines_ImportFees : Refines (SrcTx.ImportFees false) importFees view_ImportFees := by
  apply RefinesP.toRefines
  tx_refine [importFees, SrcTx.ImportFees, view_ImportFees, refines_CurrencyCollection.keep]

theorem nonUnit_trStoragePhase : NonUnit trStoragePhase := by unfold trStoragePhase; tlb_nonunit
theorem nonUnit_trCreditPhase : NonUnit trCreditPhase := by unfold trCreditPhase; tlb_nonunit
theorem nonUnit_trActionPhase : NonUnit trActionPhase := by unfold trActionPhase; tlb_nonunit
theorem nonUnit_trBouncePhase : NonUnit trBouncePhase := by unfold trBouncePhase; tlb_nonunit

local macro "kOptStorage" : term => `(optK refines_TrStoragePhase nonUnit_trStoragePhase)
local macro "kOptCredit" : term => `(optK refines_TrCreditPhase nonUnit_trCreditPhase)
local macro "kOptBounce" : term => `(optK refines_TrBouncePhase nonUnit_trBouncePhase)
local macro "kOptAction" : term => `(optRefK (r := SrcTx.TrActionPhase) refines_TrActionPhase nonUnit_trActionPhase)

/-! ### the five descriptions without a nested transaction -/

theorem refines_TransactionOrdinary : Refines (SrcTx.TransactionOrdinary false) transOrd view_TransactionOrdinary := by
  apply RefinesP.toRefines
  tx_refine [transOrd, SrcTx.TransactionOrdinary, view_TransactionOrdinary, refines_TrComputePhase.keep, kOptStorage, kOptCredit,
    kOptBounce, kOptAction]

theorem refines_TransactionStorage : Refines (SrcTx.TransactionStorage false) transStorage view_TransactionStorage := by
  apply RefinesP.toRefines
  tx_refine [transStorage, SrcTx.TransactionStorage, view_TransactionStorage, refines_TrStoragePhase.keep]

theorem refines_TransactionTickTock : Refines (SrcTx.TransactionTickTock false) transTickTock view_TransactionTickTock := by
  apply RefinesP.toRefines
  tx_refine [transTickTock, SrcTx.TransactionTickTock, view_TransactionTickTock, refines_TrStoragePhase.keep,
    refines_TrComputePhase.keep, kOptAction]

theorem refines_TransactionSplitPrepare :
    Refines (SrcTx.TransactionSplitPrepare false) transSplitPrepare view_TransactionSplitPrepare := by
  apply RefinesP.toRefines
  tx_refine [transSplitPrepare, SrcTx.TransactionSplitPrepare, view_TransactionSplitPrepare, refines_SplitMergeInfo.keep,
    refines_TrComputePhase.keep, kOptStorage, kOptAction]

theorem refines_TransactionMergePrepare :
    Refines (SrcTx.TransactionMergePrepare false) transMergePrepare view_TransactionMergePrepare := by
  apply RefinesP.toRefines
  tx_refine [transMergePrepare, SrcTx.TransactionMergePrepare, view_TransactionMergePrepare, refines_SplitMergeInfo.keep,
    refines_TrStoragePhase.keep]

/-! ### message infos, messages -/

theorem refines_InternalMsgInfo :
    RefinesP PV (SrcTx.InternalMsgInfo false) (ctag (tag 1 0) intMsgInfo) view_InternalMsgInfo := by
  tx_refine [intMsgInfo, SrcTx.InternalMsgInfo, view_InternalMsgInfo, refines_MsgAddressInt.keepV, refines_CurrencyCollection.keep]

theorem refines_ExternalMsgInfo :
    RefinesP PV (SrcTx.ExternalMsgInfo false) (ctag (tag 2 2) extInMsgInfo) view_ExternalMsgInfo := by
  tx_refine [extInMsgInfo, SrcTx.ExternalMsgInfo, view_ExternalMsgInfo, refines_MsgAddressInt.keepV, refines_MsgAddressExt.keep]

theorem refines_ExternalOutMsgInfo :
    RefinesP PV (SrcTx.ExternalOutMsgInfo false) (ctag (tag 2 3) extOutMsgInfo) view_ExternalOutMsgInfo := by
  tx_refine [extOutMsgInfo, SrcTx.ExternalOutMsgInfo, view_ExternalOutMsgInfo, refines_MsgAddressInt.keepV, refines_MsgAddressExt.keep]

theorem noVar_con (n : String) (x : Val) (h : (Val.con n x).noVar = true) : x.noVar = true := by
  simp only [Val.noVar, Bool.and_eq_true] at h; exact h.2

theorem refines_CommonMsgInfo : RefinesP PV (SrcTx.CommonMsgInfo false) commonMsgInfo view_CommonMsgInfo := by
  rintro ⟨bits, refs⟩ v s'
  simp only [commonMsgInfo, typ_dec, commonMsgInfoAlts_eq, tagged_dec, decAlts_cons, decAlts_nil, tag, natToBits,
    Nat.reduceDiv, Nat.reduceMod, Nat.reduceBEq, Nat.reduceBNe, List.cons_append, List.nil_append, Frag.mk.injEq]
  rintro ⟨_, h⟩ hv
  rcases h with ⟨t, rs, ⟨rfl, rfl⟩, x, hx, rfl⟩ | ⟨_, ⟨t, rs, ⟨rfl, rfl⟩, x, hx, rfl⟩ | ⟨_, ⟨t, rs, ⟨rfl, rfl⟩, x, hx, rfl⟩ | ⟨_, hf⟩⟩⟩
  · have := refines_InternalMsgInfo ⟨false :: t, refs⟩ x s'
      ((ctag_dec _ _ _ _ _).2 ⟨t, refs, by simp [tag, natToBits], hx⟩) (noVar_con _ _ hv)
    simp [SrcTx.CommonMsgInfo, preloadBit_cons, Rd.truthy, this, view_CommonMsgInfo]
  · have := refines_ExternalMsgInfo ⟨true :: false :: t, refs⟩ x s'
      ((ctag_dec _ _ _ _ _).2 ⟨t, refs, by simp [tag, natToBits], hx⟩) (noVar_con _ _ hv)
    simp [SrcTx.CommonMsgInfo, preloadBit_cons, preloadBits_cons, takeBits_succ, takeBits_zero, Rd.truthy, Rd.veq, Rd.bits01, this,
      view_CommonMsgInfo]
  · have := refines_ExternalOutMsgInfo ⟨true :: true :: t, refs⟩ x s'
      ((ctag_dec _ _ _ _ _).2 ⟨t, refs, by simp [tag, natToBits], hx⟩) (noVar_con _ _ hv)
    simp [SrcTx.CommonMsgInfo, preloadBit_cons, preloadBits_cons, takeBits_succ, takeBits_zero, Rd.truthy, Rd.veq, Rd.bits01, this,
      view_CommonMsgInfo]
  · exact hf.elim

/-- `MessageAny.deserialize` (value only: the type closes its cell; an inline body is not consumed by the parser) -/
theorem refines_Message : RefinesEP PV (SrcTx.MessageAny false) message view_Message := by
  tx_refine [message, SrcTx.MessageAny, view_Message, viewInit, viewBody, refines_CommonMsgInfo.keepV, maybe_dec, either_dec,
    rest_dec, ref_rest_dec, refines_StateInit.keep, refK (r := Src.StateInit) refines_StateInit, Rd.toCell]

theorem nonUnit_message : NonUnit message := by unfold message; tlb_nonunit

theorem refines_MsgMetadata : RefinesP PV (SrcTx.MsgMetadata false) msgMetadata view_MsgMetadata := by
  tx_refine [msgMetadata, SrcTx.MsgMetadata, view_MsgMetadata, refines_MsgAddressInt.keepV]

theorem nonUnit_msgMetadata : NonUnit msgMetadata := by unfold msgMetadata; tlb_nonunit

theorem refines_MsgEnvelope : RefinesP PV (SrcTx.MsgEnvelope false) msgEnvelope view_MsgEnvelope := by
  tx_refine [msgEnvelope, msgEnvelopeAlts, SrcTx.MsgEnvelope, view_MsgEnvelope, refines_IntermediateAddress.keep,
    refKP (r := SrcTx.MessageAny) refines_Message, kOptUint64, optKP refines_MsgMetadata nonUnit_msgMetadata]

/-! ### descriptions with a nested transaction; `TransactionDescr`; `Transaction` for every nesting budget -/

section Nested
variable {rtx : Bool → Frag → Rd.R} {tx : Codec} {wtx : Val → Val}

theorem refines_TransactionSplitInstall (htx : RefinesEP PV (rtx false) tx wtx) :
    RefinesP PV (SrcTx.TransactionSplitInstall rtx false) (transSplitInstall tx) (view_TransactionSplitInstall wtx) := by
  tx_refine [transSplitInstall, SrcTx.TransactionSplitInstall, view_TransactionSplitInstall, refines_SplitMergeInfo.keep,
    refKP (r := rtx) htx]

theorem refines_TransactionMergeInstall (htx : RefinesEP PV (rtx false) tx wtx) :
    RefinesP PV (SrcTx.TransactionMergeInstall rtx false) (transMergeInstall tx) (view_TransactionMergeInstall wtx) := by
  tx_refine [transMergeInstall, SrcTx.TransactionMergeInstall, view_TransactionMergeInstall, refines_SplitMergeInfo.keep,
    refKP (r := rtx) htx, refines_TrComputePhase.keep, kOptStorage, kOptCredit, kOptAction]

theorem refines_TransactionDescr (htx : RefinesEP PV (rtx false) tx wtx) :
    RefinesP PV (SrcTx.TransactionDescr rtx false) (transactionDescrF tx) (view_TransactionDescr wtx) := by
  tx_refine [transactionDescrF, transactionDescrFAlts_eq, SrcTx.TransactionDescr, view_TransactionDescr,
    refines_TransactionOrdinary.keep, refines_TransactionStorage.keep, refines_TransactionTickTock.keep,
    refines_TransactionSplitPrepare.keep, refines_TransactionMergePrepare.keep,
    (refines_TransactionSplitInstall htx).keepV, (refines_TransactionMergeInstall htx).keepV]

end Nested


/-- one level of `Transaction.deserialize`, given the reader / view / theorem of the nested level -/
theorem refines_Transaction_step (b : Nat)
    (ih : RefinesP PV (SrcTx.Transaction b false) (transactionF b) (view_Transaction b)) :
    RefinesP PV (SrcTx.Transaction (b + 1) false) (transactionF (b + 1)) (view_Transaction (b + 1)) := by
  have hd := (refines_TransactionDescr ih.toE).toE
  clear ih
  rintro ⟨bits, refs⟩ v s'
  tx_struct [transactionF, SrcTx.Transaction, view_Transaction, refines_AccountStatus.keep, refines_CurrencyCollection.keep,
    maybe_dec, refKPM (r := SrcTx.MessageAny) refines_Message nonUnit_message,
    dictKVS (rd := Rd.viaRef SrcTx.MessageAny) (refines_Message.viaRef).toE 15,
    refK (r := Src.HashUpdate) refines_HashUpdate, refKP (r := SrcTx.TransactionDescr (SrcTx.Transaction b)) hd]
  repeat' (first
    | apply And.intro
    | (intro h
       first
         | (simp only [Frag.mk.injEq] at h; obtain ⟨h1, h2⟩ := h; subst h1; subst h2)
         | subst h
         | skip))
  all_goals clear hd
  all_goals tx_eval_dict [view_Transaction, viewMaybe_id, Val.noVar, noVarFs, Bool.and_eq_true, noVar_unit, PT, PV,
    viewDict, viewDictValues]

/-- `Transaction.deserialize` for EVERY nesting budget `b` of `prepare_transaction:^Transaction` -/
theorem refines_Transaction : ∀ b, RefinesP PV (SrcTx.Transaction b false) (transactionF b) (view_Transaction b)
  | 0 => by intro s v s' h; simp [transactionF, failC] at h
  | b+1 => refines_Transaction_step b (refines_Transaction b)

/-! ### message descriptors (the budget of the spec's `transaction` is 3) -/

theorem refines_InMsg : RefinesP PV (SrcTx.InMsg 3 false) inMsg (view_InMsg (view_Transaction 3)) := by
  have htx : RefinesEP PV (SrcTx.Transaction 3 false) transaction (view_Transaction 3) := (refines_Transaction 3).toE
  tx_refine [inMsg, inMsgAlts, SrcTx.InMsg, view_InMsg, refKP (r := SrcTx.MessageAny) refines_Message,
    refKP (r := SrcTx.MsgEnvelope) refines_MsgEnvelope.toE, refKP (r := SrcTx.Transaction 3) htx]

theorem refines_OutMsg : RefinesP PV (SrcTx.OutMsg 3 false) outMsg (view_OutMsg (view_Transaction 3)) := by
  have htx : RefinesEP PV (SrcTx.Transaction 3 false) transaction (view_Transaction 3) := (refines_Transaction 3).toE
  tx_refine [outMsg, outMsgAlts, SrcTx.OutMsg, view_OutMsg, refKP (r := SrcTx.MessageAny) refines_Message,
    refKP (r := SrcTx.MsgEnvelope) refines_MsgEnvelope.toE, refKP (r := SrcTx.Transaction 3) htx,
    refKP (r := SrcTx.InMsg 3) refines_InMsg.toE]

end TonVerif.Tlb.Tx
