/-
Snake data with the depth-checking cell constructor of C01 (`Cell.info`): the chain `store_snake_bytes` builds for
`n` bytes into a builder that already holds `p` bits has exactly `snakeDepth p n` tail cells, which is the depth of the
root; tail cells are constructed (by `end_cell`) while their depth is at most 1023.
-/
import TonVerif.Proofs.Snake
import TonVerif.Proofs.OrdCell

namespace TonVerif.Proofs.SnakeDepth
open TonVerif TonVerif.Model TonVerif.Spec.Tlb TonVerif.Proofs.Bits TonVerif.Proofs.Builder
  TonVerif.Proofs.Slice TonVerif.Proofs.Typed TonVerif.Proofs.Snake TonVerif.Proofs.OrdCell

/-- `Builder.end_cell()` on cell trees: an ordinary cell, produced iff C01's constructor (`Cell.info`: level mask,
hashes, depths, the check `depth >= 1024 -> raise`) does not raise. -/
def mkC (H : Bytes → Bytes) (bits : Bits) (refs : List Cell) : Option Cell :=
  if (Cell.info H (.mk (-1) bits refs)).isSome then some (.mk (-1) bits refs) else none

/-- `Cell.begin_parse()`: the data bits and the references. -/
def viewC : Cell → Bits × List Cell
  | .mk _ bits refs => (bits, refs)

/-- closed form of the chain depth: the first builder has room for `(1023 - p) / 8` bytes, every tail cell holds 127. -/
def snakeDepth (p n : Nat) : Nat :=
  if n ≤ (1023 - p) / 8 then 0 else (n - (1023 - p) / 8 + 126) / 127

theorem viewC_mkC (H : Bytes → Bytes) (bits : Bits) (refs : List Cell) (c : Cell) (h : mkC H bits refs = some c) :
    viewC c = (bits, refs) := by
  unfold mkC at h
  split at h
  · simp only [Option.some.injEq] at h; subst h; rfl
  · cases h

theorem mkC_ok (H : Bytes → Bytes) (bits : Bits) (refs : List Cell) (hb : bits.length ≤ 1023) (hr : refs.length ≤ 4)
    (hw : OrdWFs refs) (hd : ordDepth (.mk (-1) bits refs) ≤ 1023) : mkC H bits refs = some (.mk (-1) bits refs) := by
  have wf : OrdWF (.mk (-1) bits refs) := by unfold OrdWF; exact ⟨rfl, hb, hr, hw⟩
  obtain ⟨i, hi, _⟩ := ord_info H _ wf hd
  simp [mkC, hi]

theorem mkC_deep (H : Bytes → Bytes) (bits : Bits) (refs : List Cell) (hb : bits.length ≤ 1023) (hr : refs.length ≤ 4)
    (hw : OrdWFs refs) (hd : 1023 < ordDepth (.mk (-1) bits refs)) : mkC H bits refs = none := by
  have wf : OrdWF (.mk (-1) bits refs) := by unfold OrdWF; exact ⟨rfl, hb, hr, hw⟩
  simp [mkC, ord_too_deep H _ wf hd]

theorem mkC_isSome_iff (H : Bytes → Bytes) (bits : Bits) (refs : List Cell) (hb : bits.length ≤ 1023)
    (hr : refs.length ≤ 4) (hw : OrdWFs refs) :
    (mkC H bits refs).isSome ↔ ordDepth (.mk (-1) bits refs) ≤ 1023 := by
  by_cases hd : ordDepth (.mk (-1) bits refs) ≤ 1023
  · simp [mkC_ok H bits refs hb hr hw hd, hd]
  · simp [mkC_deep H bits refs hb hr hw (by omega), hd]

theorem ordDepth_leaf (k : Int) (bits : Bits) : ordDepth (.mk k bits []) = 0 := by
  simp [ordDepth]

theorem ordDepth_one (k : Int) (bits : Bits) (c : Cell) : ordDepth (.mk k bits [c]) = 1 + ordDepth c := by
  simp [ordDepth, ordDepthMax]

/-- what a chain started in some builder looks like when it was stored -/
structure ChainOK (b' : Builder Cell) (D : Nat) : Prop where
  bits : b'.bits.length ≤ 1023
  refs : b'.refs.length ≤ 1
  wf : OrdWFs b'.refs
  depth : ordDepth (.mk (-1) b'.bits b'.refs) = D

theorem depth_step (m : Nat) (hm : 0 < m) : snakeDepth 0 m + 1 = (m + 126) / 127 := by
  unfold snakeDepth
  simp only [Nat.sub_zero, show 1023 / 8 = 127 by rfl]
  split <;> omega

/-- the chain built from the EMPTY builder (every tail cell is one): depth `snakeDepth 0 n`; stored iff that is at
most 1024 (the deepest cell handed to `end_cell` has depth one less). -/
theorem chain_empty (H : Bytes → Bytes) (fuel : Nat) : ∀ (bs : Bytes), bs.length + 1 ≤ fuel →
    (snakeDepth 0 bs.length ≤ 1024 → ∃ b', BOp.storeSnakeFuel (mkC H) fuel bs Builder.empty = (b', true) ∧
      ChainOK b' (snakeDepth 0 bs.length)) ∧
    (1024 < snakeDepth 0 bs.length → (BOp.storeSnakeFuel (mkC H) fuel bs Builder.empty).2 = false) := by
  induction fuel with
  | zero => intro bs h; omega
  | succ fuel ih =>
    intro bs hf
    rw [storeSnakeFuel_succ]
    by_cases he : bs.isEmpty = true
    · have : bs = [] := List.isEmpty_iff.mp he
      subst this
      simp only [List.isEmpty_nil, if_true, List.length_nil]
      have hD : snakeDepth 0 0 = 0 := by decide
      rw [hD]
      exact ⟨fun _ => ⟨_, rfl, ⟨by simp [Builder.empty], by simp [Builder.empty], by simp [Builder.empty, OrdWFs],
        by simp [Builder.empty, ordDepth]⟩⟩, fun h => by omega⟩
    · rw [if_neg he]
      have hne : bs ≠ [] := fun e => he (by simp [e])
      have hpos : 0 < bs.length := List.length_pos_iff.mpr hne
      simp only [Builder.empty, List.length_nil, Nat.sub_zero, show 1023 / 8 = 127 by rfl]
      by_cases hfit : bs.length ≤ 127
      · rw [if_pos hfit, storeBytes_fits bs _ (by simp; omega)]
        have hD : snakeDepth 0 bs.length = 0 := by
          unfold snakeDepth; simp only [Nat.sub_zero, show 1023 / 8 = 127 by rfl, hfit, if_true]
        rw [hD]
        refine ⟨fun _ => ⟨_, rfl, ⟨?_, by simp, by simp [OrdWFs], by simp [ordDepth]⟩⟩, fun h => by omega⟩
        simp only [List.nil_append, bytesToBits_length]; omega
      · rw [if_neg hfit]
        have h1 := storeBytes_fits (R := Cell) (bs.take 127) ⟨[], []⟩ (by simp [List.length_take]; omega)
        rw [h1]
        simp only [Bool.not_true, Bool.false_eq_true, if_false]
        have hrl : (bs.drop 127).length = bs.length - 127 := List.length_drop
        have hrec := ih (bs.drop 127) (by omega)
        simp only [Builder.empty] at hrec
        rw [hrl] at hrec
        have hD : snakeDepth 0 bs.length = snakeDepth 0 (bs.length - 127) + 1 := by
          rw [depth_step (bs.length - 127) (by omega)]
          unfold snakeDepth
          simp only [Nat.sub_zero, show 1023 / 8 = 127 by rfl, hfit, if_false]
        rw [hD]
        have hbits : (([] : Bits) ++ bytesToBits (bs.take 127)).length ≤ 1023 := by
          simp only [List.nil_append, bytesToBits_length, List.length_take]; omega
        constructor
        · intro hle
          obtain ⟨rb, hr, hok⟩ := hrec.1 (by omega)
          rw [hr]
          simp only [Bool.not_true, Bool.false_eq_true, if_false]
          have hwf : OrdWF (.mk (-1) rb.bits rb.refs) := by
            unfold OrdWF; exact ⟨rfl, hok.bits, by have := hok.refs; omega, hok.wf⟩
          rw [mkC_ok H rb.bits rb.refs hok.bits (by have := hok.refs; omega) hok.wf (by rw [hok.depth]; omega)]
          refine ⟨⟨[] ++ bytesToBits (bs.take 127), [Cell.mk (-1) rb.bits rb.refs]⟩, by simp [BOp.storeRef],
            ⟨hbits, by simp, ?_, ?_⟩⟩
          · simp only [OrdWFs]; exact ⟨hwf, trivial⟩
          · rw [ordDepth_one, hok.depth]; omega
        · intro hgt
          by_cases hd' : 1024 < snakeDepth 0 (bs.length - 127)
          · have := hrec.2 hd'
            rw [this]
            simp
          · obtain ⟨rb, hr, hok⟩ := hrec.1 (by omega)
            rw [hr]
            simp only [Bool.not_true, Bool.false_eq_true, if_false]
            rw [mkC_deep H rb.bits rb.refs hok.bits (by have := hok.refs; omega) hok.wf (by rw [hok.depth]; omega)]

theorem depth_split (p n : Nat) (h : ¬ n ≤ (1023 - p) / 8) :
    snakeDepth p n = snakeDepth 0 (n - (1023 - p) / 8) + 1 := by
  rw [depth_step _ (by omega)]
  unfold snakeDepth
  simp only [h, if_false]

/-- the chain started in ANY within-capacity builder `b` with a free reference slot: `store_snake_bytes` returns iff
`snakeDepth |b.bits| n ≤ 1024`; if `b` holds no references the root then has exactly that depth. -/
theorem chain_any (H : Bytes → Bytes) (bs : Bytes) (b : Builder Cell) (hb : b.bits.length ≤ 1023) (hr : b.refs.length < 4) :
    (snakeDepth b.bits.length bs.length ≤ 1024 → ∃ b', BOp.storeSnake (mkC H) bs b = (b', true) ∧
      (b.refs = [] → ChainOK b' (snakeDepth b.bits.length bs.length))) ∧
    (1024 < snakeDepth b.bits.length bs.length → (BOp.storeSnake (mkC H) bs b).2 = false) := by
  unfold BOp.storeSnake
  rw [storeSnakeFuel_succ]
  by_cases he : bs.isEmpty = true
  · have : bs = [] := List.isEmpty_iff.mp he
    subst this
    have hD : snakeDepth b.bits.length 0 = 0 := by unfold snakeDepth; simp
    simp only [List.isEmpty_nil, if_true, List.length_nil, hD]
    exact ⟨fun _ => ⟨b, rfl, fun hr0 => ⟨hb, by simp [hr0], by simp [hr0, OrdWFs], by simp [hr0, ordDepth]⟩⟩, fun h => by omega⟩
  · rw [if_neg he]
    generalize hi : (1023 - b.bits.length) / 8 = i
    by_cases hfit : bs.length ≤ i
    · rw [if_pos hfit, storeBytes_fits bs _ (by omega)]
      have hD : snakeDepth b.bits.length bs.length = 0 := by
        unfold snakeDepth; rw [hi]; simp only [hfit, if_true]
      rw [hD]
      refine ⟨fun _ => ⟨_, rfl, fun hr0 => ⟨?_, by simp [hr0], by simp [hr0, OrdWFs], by simp [hr0, ordDepth]⟩⟩, fun h => by omega⟩
      simp only [List.length_append, bytesToBits_length]; omega
    · rw [if_neg hfit]
      have h1 := storeBytes_fits (bs.take i) b (by rw [List.length_take]; omega)
      rw [h1]
      simp only [Bool.not_true, Bool.false_eq_true, if_false]
      have hrl : (bs.drop i).length = bs.length - i := List.length_drop
      have hrec := chain_empty H (bs.length + 1) (bs.drop i) (by omega)
      rw [hrl] at hrec
      have hD : snakeDepth b.bits.length bs.length = snakeDepth 0 (bs.length - i) + 1 := by
        rw [← hi]; exact depth_split _ _ (by rw [hi]; exact hfit)
      rw [hD]
      have hbits : (b.bits ++ bytesToBits (bs.take i)).length ≤ 1023 := by
        simp only [List.length_append, bytesToBits_length, List.length_take]; omega
      constructor
      · intro hle
        obtain ⟨rb, hrr, hok⟩ := hrec.1 (by omega)
        rw [hrr]
        simp only [Bool.not_true, Bool.false_eq_true, if_false]
        have hwf : OrdWF (.mk (-1) rb.bits rb.refs) := by
          unfold OrdWF; exact ⟨rfl, hok.bits, by have := hok.refs; omega, hok.wf⟩
        rw [mkC_ok H rb.bits rb.refs hok.bits (by have := hok.refs; omega) hok.wf (by rw [hok.depth]; omega)]
        have hn : ¬ (b.refs.length ≥ 4) := by omega
        refine ⟨⟨b.bits ++ bytesToBits (bs.take i), b.refs ++ [Cell.mk (-1) rb.bits rb.refs]⟩, by simp [BOp.storeRef, hn],
          fun hr0 => ⟨hbits, by simp [hr0], ?_, ?_⟩⟩
        · simp only [hr0, List.nil_append, OrdWFs]; exact ⟨hwf, trivial⟩
        · simp only [hr0, List.nil_append]; rw [ordDepth_one, hok.depth]; omega
      · intro hgt
        by_cases hd' : 1024 < snakeDepth 0 (bs.length - i)
        · have := hrec.2 hd'
          rw [this]
          simp
        · obtain ⟨rb, hrr, hok⟩ := hrec.1 (by omega)
          rw [hrr]
          simp only [Bool.not_true, Bool.false_eq_true, if_false]
          rw [mkC_deep H rb.bits rb.refs hok.bits (by have := hok.refs; omega) hok.wf (by rw [hok.depth]; omega)]

/-! ### the produced tree is the TL-B `SnakeData` chain -/

/-- consecutive chunks of `k` bytes (`fuel` ≥ number of chunks; `bs.length` always suffices for `k ≥ 1`). -/
def chunksF (k : Nat) : Nat → Bytes → List Bytes
  | 0, _ => []
  | f+1, bs => if bs.isEmpty then [] else bs.take k :: chunksF k f (bs.drop k)

/-- the 127-byte chunks of a byte string -/
def chunks127 (bs : Bytes) : List Bytes := chunksF 127 bs.length bs

theorem chunksF_stable (k : Nat) (hk : 0 < k) : ∀ (f : Nat) (bs : Bytes), bs.length ≤ f → chunksF k f bs = chunksF k bs.length bs := by
  intro f
  induction f using Nat.strongRecOn with
  | _ f ih =>
    intro bs hf
    cases f with
    | zero =>
      have : bs = [] := List.eq_nil_of_length_eq_zero (by omega)
      subst this; rfl
    | succ f =>
      by_cases he : bs.isEmpty = true
      · have : bs = [] := List.isEmpty_iff.mp he
        subst this; rfl
      · have hne : bs ≠ [] := fun e => he (by simp [e])
        have hpos : 0 < bs.length := List.length_pos_iff.mpr hne
        obtain ⟨m, hm⟩ : ∃ m, bs.length = m + 1 := ⟨bs.length - 1, by omega⟩
        have hdl : (bs.drop k).length ≤ m := by rw [List.length_drop]; omega
        have he' : bs.isEmpty = false := by simpa using he
        rw [hm]
        simp only [chunksF, he', Bool.false_eq_true, if_false]
        rw [ih f (by omega) (bs.drop k) (by omega), ih m (by omega) (bs.drop k) hdl]

theorem chunksF_flatten (k : Nat) (hk : 0 < k) : ∀ (f : Nat) (bs : Bytes), bs.length ≤ f → (chunksF k f bs).flatten = bs := by
  intro f
  induction f with
  | zero =>
    intro bs hf
    have : bs = [] := List.eq_nil_of_length_eq_zero (by omega)
    subst this; rfl
  | succ f ih =>
    intro bs hf
    by_cases he : bs.isEmpty = true
    · have : bs = [] := List.isEmpty_iff.mp he
      subst this; rfl
    · have hne : bs ≠ [] := fun e => he (by simp [e])
      have hpos : 0 < bs.length := List.length_pos_iff.mpr hne
      have he' : bs.isEmpty = false := by simpa using he
      simp only [chunksF, he', Bool.false_eq_true, if_false, List.flatten_cons]
      rw [ih (bs.drop k) (by rw [List.length_drop]; omega), List.take_append_drop]

theorem bytesToBits_append (a b : Bytes) : bytesToBits (a ++ b) = bytesToBits a ++ bytesToBits b := by
  simp [bytesToBits]

theorem bytesToBits_flatten (l : List Bytes) : (l.map bytesToBits).flatten = bytesToBits l.flatten := by
  induction l with
  | nil => rfl
  | cons x l ih => simp [ih, bytesToBits_append]

/-- chain from the EMPTY builder, any cell constructor `mk` whose cells are read as trees by `toS`: the builder it
returns (with its reference) is `snakeCell` of the first 127 bytes and the 127-byte chunks of the rest. -/
theorem chain_shape_empty {R : Type} (mk : Bits → List R → Option R) (toS : R → SCell)
    (hmk : ∀ bits refs c, mk bits refs = some c → toS c = .mk bits (refs.map toS)) (fuel : Nat) :
    ∀ (bs : Bytes) (rb : Builder R), BOp.storeSnakeFuel mk fuel bs Builder.empty = (rb, true) →
      SCell.mk rb.bits (rb.refs.map toS) =
        snakeCell (bytesToBits (bs.take 127)) ((chunksF 127 fuel (bs.drop 127)).map bytesToBits) := by
  induction fuel with
  | zero => intro bs rb h; simp [BOp.storeSnakeFuel, BOp.fail] at h
  | succ fuel ih =>
    intro bs rb h
    rw [storeSnakeFuel_succ] at h
    by_cases he : bs.isEmpty = true
    · have : bs = [] := List.isEmpty_iff.mp he
      subst this
      simp only [List.isEmpty_nil, if_true, Prod.mk.injEq, and_true] at h
      subst h
      simp [Builder.empty, chunksF, snakeCell, bytesToBits]
    · rw [if_neg he] at h
      simp only [Builder.empty, List.length_nil, Nat.sub_zero, show 1023 / 8 = 127 by rfl] at h
      by_cases hfit : bs.length ≤ 127
      · rw [if_pos hfit, storeBytes_fits bs _ (by simp; omega)] at h
        simp only [Prod.mk.injEq, and_true] at h
        subst h
        have hd : bs.drop 127 = [] := List.drop_eq_nil_of_le hfit
        have ht : bs.take 127 = bs := List.take_of_length_le hfit
        simp [hd, ht, chunksF, snakeCell]
      · rw [if_neg hfit] at h
        have h1 := storeBytes_fits (R := R) (bs.take 127) ⟨[], []⟩ (by simp [List.length_take]; omega)
        rw [h1] at h
        simp only [Bool.not_true, Bool.false_eq_true, if_false] at h
        cases hr : BOp.storeSnakeFuel mk fuel (bs.drop 127) ⟨[], []⟩ with
        | mk r rok =>
          rw [hr] at h
          cases rok with
          | false => simp at h
          | true =>
            simp only [Bool.not_true, Bool.false_eq_true, if_false] at h
            cases hc : mk r.bits r.refs with
            | none => rw [hc] at h; simp at h
            | some c =>
              rw [hc] at h
              simp only [BOp.storeRef, List.length_nil, ge_iff_le, List.nil_append, Prod.mk.injEq, and_true] at h
              have hn : ¬ (4 ≤ 0) := by omega
              simp only [hn, if_false, Prod.mk.injEq, and_true] at h
              subst h
              have hi := ih (bs.drop 127) r hr
              have hne : (bs.drop 127).isEmpty = false := by
                rw [List.isEmpty_eq_false_iff]; intro e
                have := congrArg List.length e
                simp only [List.length_drop, List.length_nil] at this; omega
              simp only [List.map_cons, List.map_nil, hmk _ _ _ hc, hi, chunksF, hne, Bool.false_eq_true, if_false, snakeCell]

/-- the same for a chain started in any builder without references: the root is `snakeCell` of (what the builder
held ++ the first `room` bytes) and the 127-byte chunks of the rest, and the data of that chain is what the builder
held followed by all the bytes. -/
theorem chain_shape {R : Type} (mk : Bits → List R → Option R) (toS : R → SCell)
    (hmk : ∀ bits refs c, mk bits refs = some c → toS c = .mk bits (refs.map toS))
    (bs : Bytes) (b b' : Builder R) (hb : b.bits.length ≤ 1023) (hr : b.refs = [])
    (h : BOp.storeSnake mk bs b = (b', true)) :
    SCell.mk b'.bits (b'.refs.map toS) =
      snakeCell (b.bits ++ bytesToBits (bs.take ((1023 - b.bits.length) / 8)))
        ((chunks127 (bs.drop ((1023 - b.bits.length) / 8))).map bytesToBits) ∧
    snakeData (b.bits ++ bytesToBits (bs.take ((1023 - b.bits.length) / 8)))
        ((chunks127 (bs.drop ((1023 - b.bits.length) / 8))).map bytesToBits) = b.bits ++ bytesToBits bs := by
  constructor
  · unfold BOp.storeSnake at h
    rw [storeSnakeFuel_succ] at h
    generalize hi : (1023 - b.bits.length) / 8 = i at *
    by_cases he : bs.isEmpty = true
    · have : bs = [] := List.isEmpty_iff.mp he
      subst this
      simp only [List.isEmpty_nil, if_true, Prod.mk.injEq, and_true] at h
      subst h
      simp [hr, chunks127, chunksF, snakeCell, bytesToBits]
    · rw [if_neg he] at h
      by_cases hfit : bs.length ≤ i
      · rw [if_pos hfit, storeBytes_fits bs _ (by omega)] at h
        simp only [Prod.mk.injEq, and_true] at h
        subst h
        have hd : bs.drop i = [] := List.drop_eq_nil_of_le hfit
        have ht : bs.take i = bs := List.take_of_length_le hfit
        simp [hd, ht, hr, chunks127, chunksF, snakeCell]
      · rw [if_neg hfit] at h
        have h1 := storeBytes_fits (bs.take i) b (by rw [List.length_take]; omega)
        rw [h1] at h
        simp only [Bool.not_true, Bool.false_eq_true, if_false] at h
        cases hrr : BOp.storeSnakeFuel mk (bs.length + 1) (bs.drop i) Builder.empty with
        | mk r rok =>
          rw [hrr] at h
          cases rok with
          | false => simp at h
          | true =>
            simp only [Bool.not_true, Bool.false_eq_true, if_false] at h
            cases hc : mk r.bits r.refs with
            | none => rw [hc] at h; simp at h
            | some c =>
              rw [hc] at h
              simp only [BOp.storeRef, hr, List.length_nil, ge_iff_le, List.nil_append, Prod.mk.injEq, and_true] at h
              have hn : ¬ (4 ≤ 0) := by omega
              simp only [hn, if_false, Prod.mk.injEq, and_true] at h
              subst h
              have hsh := chain_shape_empty mk toS hmk (bs.length + 1) (bs.drop i) r hrr
              have hdl : (bs.drop i).length ≤ bs.length + 1 := by rw [List.length_drop]; omega
              have hne : (bs.drop i).isEmpty = false := by
                rw [List.isEmpty_eq_false_iff]; intro e
                have := congrArg List.length e
                simp only [List.length_drop, List.length_nil] at this; omega
              have hpos : 0 < (bs.drop i).length := by
                rw [List.length_drop]; omega
              obtain ⟨m, hm⟩ : ∃ m, (bs.drop i).length = m + 1 := ⟨(bs.drop i).length - 1, by omega⟩
              have hst : chunksF 127 (bs.length + 1) ((bs.drop i).drop 127) = chunksF 127 m ((bs.drop i).drop 127) := by
                rw [chunksF_stable 127 (by omega) (bs.length + 1) _ (by simp only [List.length_drop]; omega),
                  chunksF_stable 127 (by omega) m _ (by simp only [List.length_drop] at hm ⊢; omega)]
              have e1 : chunks127 (bs.drop i) = (bs.drop i).take 127 :: chunksF 127 m ((bs.drop i).drop 127) := by
                unfold chunks127
                rw [hm]
                simp only [chunksF, hne, Bool.false_eq_true, if_false]
              rw [e1, ← hst]
              simp only [List.map_cons, List.map_nil, hmk _ _ _ hc, hsh, snakeCell]
  · unfold snakeData chunks127
    rw [bytesToBits_flatten, chunksF_flatten 127 (by omega) _ _ (Nat.le_refl _), List.append_assoc, ← bytesToBits_append,
      List.take_append_drop]

mutual
  /-- a cell tree without its cell kinds -/
  def cellToS : Cell → SCell
    | .mk _ bits refs => .mk bits (cellsToS refs)
  def cellsToS : List Cell → List SCell
    | [] => []
    | c :: cs => cellToS c :: cellsToS cs
end

theorem cellsToS_eq_map (cs : List Cell) : cellsToS cs = cs.map cellToS := by
  induction cs with
  | nil => rfl
  | cons c cs ih => simp [cellsToS, ih]

theorem cellToS_mkC (H : Bytes → Bytes) (bits : Bits) (refs : List Cell) (c : Cell) (h : mkC H bits refs = some c) :
    cellToS c = .mk bits (refs.map cellToS) := by
  unfold mkC at h
  split at h
  · simp only [Option.some.injEq] at h; subst h; simp [cellToS, cellsToS_eq_map]
  · cases h

end TonVerif.Proofs.SnakeDepth
