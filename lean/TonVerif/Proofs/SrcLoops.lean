/-
Generation-independent lemmas about the loop / bit-list built-ins that the translator harness/translate/pyloops.py emits
(`TonVerif/PyBytes.lean`: `Py.loop?`, `Py.rangeI?`, `Py.bitAt?`, `Py.sliceI`, `Py.ba2int?`, `Py.frombytes`, `Py.setAt?`) in
terms of the hand model's helpers (Model/BocParse.lean).  Nothing here mentions a `Generated.*` definition: a source
change can never break this file.
-/
import TonVerif.PyBytes
import TonVerif.Model.BocParse
import TonVerif.Proofs.SrcBytes
set_option linter.unusedSimpArgs false

namespace TonVerif.Proofs.SrcLoops
open TonVerif TonVerif.Model TonVerif.Model.BocParse

/-! ### `Py.loop?` -/

@[simp] theorem loop?_nil {ι σ : Type} (s : σ) (f : ι → σ → Option (σ × Bool)) : Py.loop? [] s f = some s := rfl

theorem loop?_cons {ι σ : Type} (x : ι) (xs : List ι) (s : σ) (f : ι → σ → Option (σ × Bool)) :
    Py.loop? (x :: xs) s f = (f x s).bind fun r => if r.2 then some r.1 else Py.loop? xs r.1 f := rfl

/-- a loop whose body neither raises nor breaks is a left fold. -/
theorem loop?_foldl {ι σ : Type} (g : ι → σ → σ) (xs : List ι) (s : σ) :
    Py.loop? xs s (fun x s => some (g x s, false)) = some (xs.foldl (fun s x => g x s) s) := by
  induction xs generalizing s with
  | nil => rfl
  | cons x xs ih => simp [loop?_cons, ih]

/-- invariant rule for a loop that never breaks: `P k s` = the state before iteration `k`. -/
theorem loop?_inv {ι σ : Type} (P : Nat → σ → Prop) (f : ι → σ → Option (σ × Bool)) :
    ∀ (xs : List ι) (k0 : Nat) (s0 : σ), P k0 s0 →
    (∀ k x s, xs[k]? = some x → P (k0 + k) s → ∃ s', f x s = some (s', false) ∧ P (k0 + k + 1) s') →
    ∃ s, Py.loop? xs s0 f = some s ∧ P (k0 + xs.length) s := by
  intro xs
  induction xs with
  | nil => intro k0 s0 h0 _; exact ⟨s0, rfl, by simpa using h0⟩
  | cons x xs ih =>
    intro k0 s0 h0 hstep
    obtain ⟨s1, h1, p1⟩ := hstep 0 x s0 (by simp) (by simpa using h0)
    obtain ⟨s, hs, ps⟩ := ih (k0 + 1) s1 (by simpa using p1) (by
      intro k y s hk hp
      have := hstep (k + 1) y s (by simpa using hk) (by rw [← Nat.add_assoc, Nat.add_right_comm]; exact hp)
      rw [← Nat.add_assoc, Nat.add_right_comm k0 k 1] at this
      exact this)
    refine ⟨s, ?_, ?_⟩
    · rw [loop?_cons, h1]; simpa using hs
    · rw [List.length_cons, ← Nat.add_assoc, Nat.add_right_comm]; exact ps

/-- the same for a body that may raise: either some iteration raises (and the loop raises) or the invariant holds at the end.
`Q k` = iteration `k` does not raise. -/
theorem loop?_none_of {ι σ : Type} (f : ι → σ → Option (σ × Bool)) (x : ι) (xs : List ι) (s : σ) (h : f x s = none) :
    Py.loop? (x :: xs) s f = none := by rw [loop?_cons, h]; rfl

/-! ### ranges -/

theorem range?_zero_one (n : Nat) : Py.range? 0 n 1 = some (List.range n) := by
  have : Py.rangeLen 0 n 1 = n := by simp [Py.rangeLen]
  simp [Py.range?, this]

theorem range?_bind_zero_one {β : Type} (n : Nat) (f : List Nat → Option β) : (Py.range? 0 n 1).bind f = f (List.range n) := by
  rw [range?_zero_one]; rfl

/-! ### negative indices and slices -/

theorem getI?_neg {α : Type} (xs : List α) (k : Nat) : Py.getI? xs (-((k + 1 : Nat) : Int)) = xs.reverse[k]? := by
  unfold Py.getI?
  have h1 : ¬ (0 : Int) ≤ -((k + 1 : Nat) : Int) := by omega
  have h2 : (- -((k + 1 : Nat) : Int)).toNat = k + 1 := by omega
  rw [if_neg h1, h2]
  by_cases h : k + 1 ≤ xs.length
  · rw [if_pos h, List.getElem?_reverse (by omega)]
    congr 1; omega
  · rw [if_neg h, List.getElem?_eq_none (by simp; omega)]

theorem bitAt?_neg (bits : Bits) (k : Nat) :
    Py.bitAt? bits (-((k + 1 : Nat) : Int)) = (bits.reverse[k]?).map fun b => if b then 1 else 0 := by
  unfold Py.bitAt?; rw [getI?_neg]

theorem sliceI_none_none {α : Type} (xs : List α) : Py.sliceI xs none none = xs := by
  simp [Py.sliceI, Py.bound]

/-- `xs[:-(k+1)]` drops the last `k+1` elements. -/
theorem sliceI_none_neg {α : Type} (xs : List α) (k : Nat) :
    Py.sliceI xs none (some (-((k + 1 : Nat) : Int))) = (xs.reverse.drop (k + 1)).reverse := by
  have h1 : ¬ (0 : Int) ≤ -((k + 1 : Nat) : Int) := by omega
  have h2 : (- -((k + 1 : Nat) : Int)).toNat = k + 1 := by omega
  simp only [Py.sliceI, Py.bound, if_neg h1, h2, List.drop_zero]
  rw [List.drop_reverse, List.reverse_reverse]

/-! ### bit lists -/

theorem natToBits_length (n v : Nat) : (natToBits n v).length = n := by
  induction n generalizing v with
  | zero => simp [natToBits]
  | succ n ih => simp [natToBits, ih]

theorem bytesToBits_length (bs : Bytes) : (bytesToBits bs).length = 8 * bs.length := by
  induction bs with
  | nil => simp [bytesToBits]
  | cons b t ih =>
    simp only [bytesToBits, List.flatMap_cons, List.length_append, List.length_cons] at *
    rw [ih]; unfold byteToBits; rw [natToBits_length]; omega

theorem frombytes_nil (x : Bytes) : Py.frombytes [] x = bytesToBits x := by simp [Py.frombytes]

/-- a non-empty bit list read from whole bytes has at least eight bits. -/
theorem bytesToBits_ne_nil {x : Bytes} (h : bytesToBits x ≠ []) : 8 ≤ (bytesToBits x).length := by
  rw [bytesToBits_length]
  cases x with
  | nil => simp [bytesToBits] at h
  | cons a t => simp only [List.length_cons]; omega

theorem bytesToBits_isEmpty (x : Bytes) : (bytesToBits x).isEmpty = true ↔ bytesToBits x = [] := by
  simp

/-- the last seven bits of a list of at least eight bits, last first. -/
theorem last7 (bits : Bits) (h : 8 ≤ bits.length) :
    ∃ b1 b2 b3 b4 b5 b6 b7 b8 rest, bits.reverse = b1 :: b2 :: b3 :: b4 :: b5 :: b6 :: b7 :: b8 :: rest := by
  have hl : 8 ≤ bits.reverse.length := by simpa using h
  match hr : bits.reverse, hl with
  | b1 :: b2 :: b3 :: b4 :: b5 :: b6 :: b7 :: b8 :: rest, _ => exact ⟨b1, b2, b3, b4, b5, b6, b7, b8, rest, rfl⟩

/-- `ba2int(bits[:8], signed=True)` for at least eight bits is the hand model's `signed8`. -/
theorem ba2int?_take8 (bits : Bits) (h : 8 ≤ bits.length) :
    Py.ba2int? true (bits.take 8) = some (signed8 bits) := by
  have hl : (bits.take 8).length = 8 := by simp; omega
  have hne : bits.take 8 ≠ [] := by intro e; rw [e] at hl; simp at hl
  unfold Py.ba2int? signed8
  rw [if_neg hne, hl]
  simp only [Bool.true_and, decide_eq_true_eq, Nat.reducePow]
  by_cases hv : natOfBits (bits.take 8) ≥ 128
  · rw [if_pos (by omega), if_pos hv]; rfl
  · rw [if_neg (by omega), if_neg hv]

theorem last7_bits (bits : Bits) {b1 b2 b3 b4 b5 b6 b7 b8 : Bool} {rest : Bits}
    (hrev : bits.reverse = b1 :: b2 :: b3 :: b4 :: b5 :: b6 :: b7 :: b8 :: rest) :
    Py.bitAt? bits (-1) = some (if b1 then 1 else 0) ∧ Py.bitAt? bits (-2) = some (if b2 then 1 else 0) ∧
    Py.bitAt? bits (-3) = some (if b3 then 1 else 0) ∧ Py.bitAt? bits (-4) = some (if b4 then 1 else 0) ∧
    Py.bitAt? bits (-5) = some (if b5 then 1 else 0) ∧ Py.bitAt? bits (-6) = some (if b6 then 1 else 0) ∧
    Py.bitAt? bits (-7) = some (if b7 then 1 else 0) := by
  have e := fun k => bitAt?_neg bits k
  simp only [hrev] at e
  exact ⟨by simpa using e 0, by simpa using e 1, by simpa using e 2, by simpa using e 3, by simpa using e 4, by simpa using e 5,
    by simpa using e 6⟩

theorem last7_slices (bits : Bits) {b1 b2 b3 b4 b5 b6 b7 b8 : Bool} {rest : Bits}
    (hrev : bits.reverse = b1 :: b2 :: b3 :: b4 :: b5 :: b6 :: b7 :: b8 :: rest) :
    Py.sliceI bits none (some (-1)) = (b2 :: b3 :: b4 :: b5 :: b6 :: b7 :: b8 :: rest).reverse ∧
    Py.sliceI bits none (some (-2)) = (b3 :: b4 :: b5 :: b6 :: b7 :: b8 :: rest).reverse ∧
    Py.sliceI bits none (some (-3)) = (b4 :: b5 :: b6 :: b7 :: b8 :: rest).reverse ∧
    Py.sliceI bits none (some (-4)) = (b5 :: b6 :: b7 :: b8 :: rest).reverse ∧
    Py.sliceI bits none (some (-5)) = (b6 :: b7 :: b8 :: rest).reverse ∧
    Py.sliceI bits none (some (-6)) = (b7 :: b8 :: rest).reverse ∧
    Py.sliceI bits none (some (-7)) = (b8 :: rest).reverse := by
  have e := fun k => sliceI_none_neg bits k
  simp only [hrev] at e
  exact ⟨by simpa using e 0, by simpa using e 1, by simpa using e 2, by simpa using e 3, by simpa using e 4, by simpa using e 5,
    by simpa using e 6⟩

/-- the hand model's `stripTag` on a list whose last bits are known. -/
theorem stripTag_of_rev (bits : Bits) (l : Bits) (hrev : bits.reverse = l) :
    stripTag bits = match stripTagRev 7 l with | some r => r.reverse | none => bits := by
  subst hrev; rfl

theorem tvmBitarray?_1023 (bits : Bits) : Py.tvmBitarray? 1023 bits = some bits := by simp [Py.tvmBitarray?]

/-! ### the reference-index loop -/

theorem uintsAt_succ (data : Bytes) (a w k : Nat) : uintsAt data a w (k + 1) = uintsAt data a w k ++ [uintAt data (a + k * w) w] := by
  simp [uintsAt, List.range_succ]

end TonVerif.Proofs.SrcLoops
