/-
The methods AROUND the dictionary serialiser / parser, REGENERATED from hashmap.py and slice.py (Generated/HashmapGlue.lean, translator
harness/translate/hashmapglue.py = specialiser + pyrec.py), equal the hand model Model/Hashmap.lean — for all inputs:

  HashMap.set_int_key, HashMap.set (int / bytes / bit string / Address / hashed text / key_serializer), HashMap.serialize,
  HashMap.parse, HashMap.from_cell, Slice.load_dict / preload_dict / load_hashmap / load_hashmap_aug, and the int-key conversion at
  the end of `parse_hashmap_aug`.
-/
import TonVerif.Generated.HashmapGlue
import TonVerif.Proofs.SrcHashmapSer

set_option linter.unusedSimpArgs false
namespace TonVerif.Proofs.SrcHashmapGlue
open TonVerif TonVerif.Model TonVerif.Model.Hashmap TonVerif.Spec.Hashmap TonVerif.Proofs.Hashmap
open TonVerif.Generated.HashmapSrc TonVerif.Proofs.SrcHashmap TonVerif.Proofs.SrcHashmapSer
open TonVerif.Generated (HashmapGlue.set_int_key HashmapGlue.set_int HashmapGlue.set_bytes HashmapGlue.set_str HashmapGlue.set_addr
  HashmapGlue.set_hashed HashmapGlue.set_ks HashmapGlue.serialize HashmapGlue.hm_parse HashmapGlue.from_cell HashmapGlue.load_dict
  HashmapGlue.preload_dict HashmapGlue.load_hashmap HashmapGlue.load_hashmap_aug HashmapGlue.load_hashmap_aug_e)

/-! ### HashMap.set_int_key / set -/

theorem dset_eq_dictSet {V : Type} (k : Nat) (v : V) : ∀ d : Dict V, Py.dset k v d = dictSet k v d := by
  intro d
  induction d with
  | nil => rfl
  | cons x d ih => obtain ⟨k', v'⟩ := x; simp only [Py.dset, dictSet, ih]

/-- REGENERATED `HashMap.set_int_key(int_key, value)` = the hand model's `setIntKey`: raises exactly for `int_key < 0` or
`int_key.bit_length() > size`, else `self.map[int_key] = value` -/
theorem set_int_key_eq {V : Type} (d : Dict V) (size : Nat) (k : Int) (v : V) :
    HashmapGlue.set_int_key d size k v = setIntKey size k v d := by
  unfold HashmapGlue.set_int_key setIntKey
  simp only [SrcArith.py_bitLength_eq, dset_eq_dictSet]
  by_cases h : k < 0 ∨ bitLength k.natAbs > size <;> simp [h]

/-- REGENERATED `HashMap.set(key, value)` for every key form = the hand model's `set` (`normKey` then `setIntKey`) -/
theorem set_forms_eq {V : Type} (H : Bytes → Bytes) (d : Dict V) (size : Nat) (v : V) :
    (∀ k : Int, HashmapGlue.set_int d size k v = Hashmap.set H size (.int k) v d) ∧
    (∀ bs : Bytes, HashmapGlue.set_bytes d size bs v = Hashmap.set H size (.bytes bs) v d) ∧
    (∀ s : Bits, HashmapGlue.set_str d size s v = Hashmap.set H size (.bitstr s) v d) ∧
    (∀ a : Addr, HashmapGlue.set_addr d size a v = Hashmap.set H size (.addr a) v d) ∧
    (∀ u : Bytes, HashmapGlue.set_hashed H d size u v = Hashmap.set H size (.hashed u) v d) := by
  refine ⟨?_, ?_, ?_, ?_, ?_⟩
  · intro k
    simp [HashmapGlue.set_int, Hashmap.set, normKey, set_int_key_eq]
  · intro bs
    simp [HashmapGlue.set_bytes, Hashmap.set, normKey, set_int_key_eq]
  · intro s
    cases s with
    | nil => simp [HashmapGlue.set_str, Hashmap.set, normKey, Py.intOfBits2?, Py.intOfBits?]
    | cons b t => simp [HashmapGlue.set_str, Hashmap.set, normKey, Py.intOfBits2?, Py.intOfBits?, set_int_key_eq]
  · intro a
    simp only [HashmapGlue.set_addr, Hashmap.set, normKey, Py.addrKey?, set_int_key_eq, Option.bind_eq_bind, Option.pure_def]
  · intro u
    simp [HashmapGlue.set_hashed, Hashmap.set, normKey, set_int_key_eq]

/-- … and with a `key_serializer` (returning int): the key it returns goes through `set_int_key` -/
theorem set_ks_eq {V K : Type} (ks : K → Option Int) (d : Dict V) (size : Nat) (key : K) (v : V) :
    HashmapGlue.set_ks ks d size key v = (ks key).bind fun k => setIntKey size k v d := by
  simp only [HashmapGlue.set_ks, set_int_key_eq, Option.bind_eq_bind, Option.pure_def]

/-! ### HashMap.serialize -/

/-- REGENERATED `HashMap.serialize()` = the hand model's `serialize`: `None` for the empty map, else the cell of the regenerated
`serialize_dict` — for every map built by `set_int_key`, n ≥ 1, value serialiser `serCb ser`, fuel ≥ 2n + 2 -/
theorem serialize_eq {V : Type} (n : Nat) (hn : 0 < n) (ser : V → Option Val) (d : Dict V) (hd : DictOK n d)
    (fuel : Nat) (hf : 2 * n + 2 ≤ fuel) :
    HashmapGlue.serialize (serCb ser) fuel d n = Model.Hashmap.serialize n ser d := by
  unfold HashmapGlue.serialize
  by_cases h0 : d = []
  · subst h0; simp [Model.Hashmap.serialize]
  · have hl : d.length ≠ 0 := by simpa using h0
    rw [← serialize_dict_eq n hn ser d hd h0 fuel hf]
    simp only [hl, ne_eq, not_false_eq_true, if_true, Option.bind_eq_bind, Option.pure_def]
    cases serialize_dict (serCb ser) fuel d n <;> rfl

/-! ### HashMap.parse / from_cell -/

theorem dset_map {α β : Type} (f : α → β) (k : Nat) (v : α) : ∀ d : List (Nat × α),
    Py.dset k (f v) (d.map fun p => (p.1, f p.2)) = (dictSet k v d).map fun p => (p.1, f p.2) := by
  intro d
  induction d with
  | nil => rfl
  | cons x d ih =>
    obtain ⟨k', v'⟩ := x
    simp only [List.map_cons, Py.dset, dictSet]
    by_cases h : k' = k <;> simp [h, ih]

theorem intKeys_fold_map {α β : Type} (f : α → β) : ∀ (kv : List (Bits × α)) (acc : List (Nat × α)),
    (kv.map fun p => (p.1, f p.2)).foldl (fun acc p => Py.dset (natOfBits p.1) p.2 acc) (acc.map fun p => (p.1, f p.2)) =
      (kv.foldl (fun d p => dictSet (natOfBits p.1) p.2 d) acc).map fun p => (p.1, f p.2) := by
  intro kv
  induction kv with
  | nil => intro acc; rfl
  | cons x kv ih =>
    intro acc
    simp only [List.map_cons, List.foldl_cons, dset_map, ih]

/-- `{int(i, 2): j for i, j in d.items()}` on non-empty key strings = the hand model's `intKeys` -/
theorem intKeys_py {α β : Type} (f : α → β) (kv : List (Bits × α)) (hne : ∀ p ∈ kv, p.1 ≠ []) :
    Py.intKeys? (kv.map fun p => (p.1, f p.2)) = some ((intKeys kv).map fun p => (p.1, f p.2)) := by
  unfold Py.intKeys? intKeys
  have hany : (kv.map fun p => (p.1, f p.2)).any (fun p => p.1.isEmpty) = false := by
    rw [List.any_eq_false]
    intro p hp
    obtain ⟨q, hq, rfl⟩ := List.mem_map.1 hp
    have := hne q hq
    simpa using this
  rw [hany]
  have := intKeys_fold_map f kv []
  simpa using this

/-- `int('', 2)` raises -/
theorem intKeys_py_empty {α : Type} (kv : List (Bits × α)) (h : ∃ p ∈ kv, p.1 = []) : Py.intKeys? kv = none := by
  unfold Py.intKeys?
  have : kv.any (fun p => p.1.isEmpty) = true := by
    rw [List.any_eq_true]
    obtain ⟨p, hp, he⟩ := h
    exact ⟨p, hp, by simp [he]⟩
  simp [this]

/-- the keys `parse` returns are never empty (a root leaf of a 0-bit dictionary is not stored) -/
theorem parseEdge_keys_ne (c : Cell) (k : Int) (kv : List (Bits × Val)) (h : parseEdge c k [] = some kv) : ∀ p ∈ kv, p.1 ≠ [] := by
  obtain ⟨kind, bits, refs⟩ := c
  rw [parseEdge] at h
  rcases hh : deserializeHml bits k with _ | ⟨n, s, rest⟩
  · simp [hh] at h
  · simp only [hh, List.nil_append] at h
    by_cases h1 : kind ≠ -1
    · simp [h1] at h; subst h; simp
    by_cases h2 : k - (n : Int) = 0
    · by_cases h3 : s.isEmpty
      · simp [h1, h2, h3] at h; subst h; simp
      · simp [h1, h2, h3] at h; subst h
        intro p hp
        simp only [List.mem_singleton] at hp
        subst hp
        simpa using h3
    simp only [h1, h2, if_false] at h
    rcases refs with _ | ⟨l, _ | ⟨r, more⟩⟩
    · simp [parseFork] at h
    · simp [parseFork] at h
    · simp only [parseFork] at h
      rcases ha : parseEdge l (k - n - 1) (s ++ [false]) with _ | a
      · simp [ha] at h
      rcases hb : parseEdge r (k - n - 1) (s ++ [true]) with _ | b
      · simp [ha, hb] at h
      simp only [ha, hb, Option.some.injEq] at h
      subst h
      obtain ⟨pa, _⟩ := parseEdge_keys _ l _ _ a (Nat.le_refl _) ha
      obtain ⟨pb, _⟩ := parseEdge_keys _ r _ _ b (Nat.le_refl _) hb
      intro p hp he
      rcases List.mem_append.1 hp with hp | hp
      · have := (pa p hp).length_le; rw [he] at this; simp at this
      · have := (pb p hp).length_le; rw [he] at this; simp at this

/-- the dict `HashMap.parse` returns for the model's result: int keys, each value the ordinary slice behind the leaf label -/
def outDict (r : Dict Val) : List (Nat × Py.Slice) := r.map fun p => (p.1, valSlice p.2)

/-- the regenerated `parse_hashmap` followed by the int-key conversion, in terms of the model's `parseHashmap` -/
theorem parse_then_intKeys (fuel : Nat) (c : Cell) (n : Nat) (hf : 2 * n + 2 ≤ fuel) :
    ((parse_hashmap fuel (Py.beginParse c) (n : Int)).bind fun r => Py.intKeys? r.1) =
      (parseHashmap c n).map fun kv => outDict (intKeys kv) := by
  have h := src_parse_hashmap_eq fuel c n hf
  rcases hp : parse_hashmap fuel (Py.beginParse c) (n : Int) with _ | ⟨r1, sl'⟩
  · rw [hp] at h
    rcases hq : parseHashmap c n with _ | kv
    · rfl
    · rw [hq] at h; simp at h
  · rw [hp] at h
    rcases hq : parseHashmap c n with _ | kv
    · rw [hq] at h; simp at h
    · rw [hq] at h
      simp only [Option.map_some, Option.some.injEq] at h
      subst h
      simp only [Option.bind_some, Option.map_some]
      exact intKeys_py valSlice kv (parseEdge_keys_ne c n kv hq)

/-- REGENERATED `HashMap.parse(cell.begin_parse(), n)` (default key deserialiser, no value deserialiser) = the hand model's
`hashMapParse`: `None` for a non-ordinary root, raises exactly when the model does, else the model's dict -/
theorem hm_parse_eq (fuel : Nat) (c : Cell) (n : Nat) (hf : 2 * n + 2 ≤ fuel) :
    (HashmapGlue.hm_parse fuel (Py.beginParse c) (n : Int)).map (·.1) =
      (match hashMapParse c n with | .err => none | .none => some none | .dict r => some (some (outDict r))) := by
  have key := parse_then_intKeys fuel c n hf
  obtain ⟨kind, bits, refs⟩ := c
  unfold HashmapGlue.hm_parse hashMapParse
  by_cases h1 : kind ≠ -1
  · simp [Py.beginParse, h1]
  · simp only [Py.beginParse, h1, if_false, Option.bind_eq_bind, Option.pure_def] at key ⊢
    rcases hp : parse_hashmap fuel ⟨kind, bits, refs⟩ (n : Int) with _ | ⟨r1, sl'⟩
    · rw [hp] at key
      rcases hq : parseHashmap (.mk kind bits refs) n with _ | kv
      · simp
      · rw [hq] at key; simp at key
    · rw [hp] at key
      simp only [Option.bind_some] at key ⊢
      rcases hq : parseHashmap (.mk kind bits refs) n with _ | kv
      · rw [hq] at key; simp only [Option.map_none] at key; simp [key]
      · rw [hq] at key; simp only [Option.map_some] at key; simp [key]

/-- REGENERATED `HashMap.from_cell(cell, n).map` = the hand model's `fromCell` -/
theorem from_cell_eq (fuel : Nat) (c : Cell) (n : Nat) (hf : 2 * n + 2 ≤ fuel) :
    HashmapGlue.from_cell fuel c (n : Int) = (fromCell c n).map outDict := by
  have key := parse_then_intKeys fuel c n hf
  unfold HashmapGlue.from_cell fromCell
  simp only [Option.bind_eq_bind, Option.pure_def]
  rcases hp : parse_hashmap fuel (Py.beginParse c) (n : Int) with _ | ⟨r1, sl'⟩
  · rw [hp] at key
    rcases hq : parseHashmap c n with _ | kv
    · simp
    · rw [hq] at key; simp at key
  · rw [hp] at key
    simp only [Option.bind_some] at key ⊢
    rcases hq : parseHashmap c n with _ | kv
    · rw [hq] at key; simp only [Option.map_none] at key; simp [key]
    · rw [hq] at key; simp only [Option.map_some] at key; simp [key]

/-! ### Slice.load_dict / preload_dict / load_hashmap -/

/-- rendering of the model's `PResult` as what the regenerated functions return (`none` = raises) -/
def outP : PResult (Dict Val) → Option (Option (List (Nat × Py.Slice)))
  | .err => none
  | .none => some none
  | .dict r => some (some (outDict r))

theorem hm_parse_outP (fuel : Nat) (c : Cell) (n : Nat) (hf : 2 * n + 2 ≤ fuel) :
    (HashmapGlue.hm_parse fuel (Py.beginParse c) (n : Int)).map (·.1) = outP (hashMapParse c n) := by
  rw [hm_parse_eq fuel c n hf]; cases hashMapParse c n <;> rfl

/-- REGENERATED `Slice.load_dict(n)` = the hand model's `loadDict`, and it consumes exactly the presence bit and, if set, one
reference (also when the result is `None` for a non-ordinary root; nothing is observable after a raise) -/
theorem load_dict_eq (fuel : Nat) (sl : Py.Slice) (n : Nat) (hf : 2 * n + 2 ≤ fuel) :
    (HashmapGlue.load_dict fuel sl (n : Int)).map (·.1) = outP (loadDict sl.bits sl.refs n) ∧
    ∀ r sl', HashmapGlue.load_dict fuel sl (n : Int) = some (r, sl') →
      sl'.kind = sl.kind ∧ sl'.bits = sl.bits.tail ∧ sl'.refs = (if sl.bits.head? = some true then sl.refs.tail else sl.refs) := by
  obtain ⟨kind, bits, refs⟩ := sl
  unfold HashmapGlue.load_dict loadDict
  simp only [loadBit_eq, loadRef_eq, Option.bind_eq_bind, Option.pure_def]
  rcases bits with _ | ⟨b, bits⟩
  · simp [outP]
  rcases b with _ | _
  · simp [outP, withBits]
  rcases refs with _ | ⟨c, refs⟩
  · simp [outP, withBits]
  have h := hm_parse_outP fuel c n hf
  simp only [withBits, Option.bind_some, if_true]
  rcases hp : HashmapGlue.hm_parse fuel (Py.beginParse c) (n : Int) with _ | ⟨r, s2⟩
  · rw [hp] at h; simp only [Option.map_none] at h; simp [← h]
  · rw [hp] at h; simp only [Option.map_some] at h; simp [← h]

/-- REGENERATED `Slice.preload_dict(n)` = the same result, and it is a pure function of the slice (nothing is consumed) -/
theorem preload_dict_eq (fuel : Nat) (sl : Py.Slice) (n : Nat) (hf : 2 * n + 2 ≤ fuel) :
    HashmapGlue.preload_dict fuel sl (n : Int) = outP (loadDict sl.bits sl.refs n) := by
  obtain ⟨kind, bits, refs⟩ := sl
  unfold HashmapGlue.preload_dict loadDict
  simp only [Py.Slice.preloadBit?, Py.Slice.preloadRef?, Option.bind_eq_bind, Option.pure_def]
  rcases bits with _ | ⟨b, bits⟩
  · simp [outP]
  rcases b with _ | _
  · simp [outP]
  rcases refs with _ | ⟨c, refs⟩
  · simp [outP]
  have h := hm_parse_outP fuel c n hf
  simp only [List.head?_cons, Option.bind_some, if_true]
  rcases hp : HashmapGlue.hm_parse fuel (Py.beginParse c) (n : Int) with _ | ⟨r, s2⟩
  · rw [hp] at h; simp only [Option.map_none] at h; simp [← h]
  · rw [hp] at h; simp only [Option.map_some] at h; simp [← h]

/-- REGENERATED `Slice.load_hashmap(n)` is `HashMap.parse` on the slice itself -/
theorem load_hashmap_eq (fuel : Nat) (c : Cell) (n : Nat) (hf : 2 * n + 2 ≤ fuel) :
    (HashmapGlue.load_hashmap fuel (Py.beginParse c) (n : Int)).map (·.1) = outP (hashMapParse c n) := by
  rw [← hm_parse_outP fuel c n hf]
  unfold HashmapGlue.load_hashmap
  simp only [Option.bind_eq_bind, Option.pure_def]
  cases HashmapGlue.hm_parse fuel (Py.beginParse c) (n : Int) <;> rfl

/-! ### `parse_hashmap_aug`'s key conversion, `Slice.load_hashmap_aug` -/

/-- the keys `parse_aug` adds all extend the prefix it was called with, and are pairwise different -/
theorem parseAugEdge_keys {X Y : Type} (D : AugDec X Y) : ∀ (N : Nat) (c : Cell) (k : Int) (pfx : Bits) (kv : List (Bits × X)) (ex : List Y),
    k.toNat ≤ N → parseAugEdge D c k pfx = some (kv, ex) → (∀ p ∈ kv, pfx <+: p.1) ∧ (kv.map (·.1)).Nodup := by
  intro N
  induction N with
  | zero =>
    intro c k pfx kv ex hN h
    obtain ⟨kind, bits, refs⟩ := c
    rw [parseAugEdge] at h
    by_cases h1 : kind ≠ -1
    · simp [h1] at h; obtain ⟨rfl, _⟩ := h; simp
    simp only [h1, if_false] at h
    rcases hh : deserializeHml bits k with _ | ⟨n, s, rest⟩
    · simp [hh] at h
    · have hle := deserializeHml_le hh
      have hm : k - (n : Int) = 0 := by omega
      simp only [hh, hm, if_true] at h
      rcases hy : D.decY (rest, refs) with _ | ⟨y, sl⟩
      · simp [hy] at h
      · rcases hx : D.decX sl with _ | x
        · simp [hy, hx] at h
        · simp [hy, hx] at h; obtain ⟨rfl, _⟩ := h; simp
  | succ N ih =>
    intro c k pfx kv ex hN h
    obtain ⟨kind, bits, refs⟩ := c
    rw [parseAugEdge] at h
    by_cases h1 : kind ≠ -1
    · simp [h1] at h; obtain ⟨rfl, _⟩ := h; simp
    simp only [h1, if_false] at h
    rcases hh : deserializeHml bits k with _ | ⟨n, s, rest⟩
    · simp [hh] at h
    · have hle := deserializeHml_le hh
      simp only [hh] at h
      by_cases h2 : k - (n : Int) = 0
      · simp only [h2, if_true] at h
        rcases hy : D.decY (rest, refs) with _ | ⟨y, sl⟩
        · simp [hy] at h
        · rcases hx : D.decX sl with _ | x
          · simp [hy, hx] at h
          · simp [hy, hx] at h; obtain ⟨rfl, _⟩ := h; simp
      simp only [h2, if_false] at h
      rcases refs with _ | ⟨l, _ | ⟨r, more⟩⟩
      · simp [parseAugFork] at h
      · simp [parseAugFork] at h
      · simp only [parseAugFork] at h
        rcases ha : parseAugEdge D l (k - n - 1) (pfx ++ s ++ [false]) with _ | ⟨a, ea⟩
        · simp [-List.append_assoc, ha] at h
        rcases hb : parseAugEdge D r (k - n - 1) (pfx ++ s ++ [true]) with _ | ⟨b, eb⟩
        · simp [-List.append_assoc, ha, hb] at h
        simp only [ha, hb] at h
        rcases hy : D.decY (rest, more) with _ | ⟨y, sl⟩
        · simp [hy] at h
        simp only [hy, Option.some.injEq, Prod.mk.injEq] at h
        obtain ⟨rfl, _⟩ := h
        obtain ⟨pa, na⟩ := ih l _ _ a ea (by omega) ha
        obtain ⟨pb, nb⟩ := ih r _ _ b eb (by omega) hb
        constructor
        · intro p hp
          rcases List.mem_append.1 hp with hp | hp
          · exact (List.prefix_append _ _).trans ((List.prefix_append _ _).trans (pa p hp))
          · exact (List.prefix_append _ _).trans ((List.prefix_append _ _).trans (pb p hp))
        · rw [List.map_append, List.nodup_append]
          refine ⟨na, nb, ?_⟩
          intro x hx y hy' hxy
          obtain ⟨p, hp, rfl⟩ := List.mem_map.1 hx
          obtain ⟨q, hq, rfl⟩ := List.mem_map.1 hy'
          exact prefix_false_true (pfx ++ s) p.1 (pa p hp) (hxy ▸ pb q hq)

theorem addAllX_fresh {X : Type} : ∀ (kv d : List (Bits × X)), (kv.map (·.1)).Nodup →
    (∀ p ∈ kv, p.1 ∉ d.map Prod.fst) → addAllX d kv = d ++ kv := by
  intro kv
  induction kv with
  | nil => intro d _ _; simp [addAllX]
  | cons p kv ih =>
    intro d hn hd
    simp only [List.map_cons, List.nodup_cons] at hn
    have h1 : p.1 ∉ d.map Prod.fst := hd p (by simp)
    have : addAllX d (p :: kv) = addAllX (Py.dset p.1 p.2 d) kv := rfl
    rw [this, dset_new _ _ _ h1, ih _ hn.2]
    · simp
    · intro q hq
      simp only [List.map_append, List.map_cons, List.map_nil, List.mem_append, List.mem_singleton, not_or]
      refine ⟨hd q (by simp [hq]), ?_⟩
      intro e
      exact hn.1 (e ▸ List.mem_map.2 ⟨q, hq, rfl⟩)

theorem intKeys_py_id {α : Type} (kv : List (Bits × α)) :
    Py.intKeys? kv = if kv.any (fun p => p.1.isEmpty) then none else some (intKeys kv) := by
  unfold Py.intKeys? intKeys
  have : ∀ (acc : List (Nat × α)), kv.foldl (fun acc p => Py.dset (natOfBits p.1) p.2 acc) acc =
      kv.foldl (fun d p => dictSet (natOfBits p.1) p.2 d) acc := by
    induction kv with
    | nil => intro acc; rfl
    | cons x kv ih => intro acc; simp only [List.foldl_cons, dset_eq_dictSet, ih]
  rw [this]

/-- rendering of the model's result of `parse_hashmap_aug` -/
def outAug {X Y : Type} : PResult (Dict X × List Y) → Option (Option (List (Nat × X) × List Y))
  | .err => none
  | .none => some none
  | .dict r => some (some r)

/-- REGENERATED `parse_hashmap_aug(cell.begin_parse(), n, x, y)` — the recursion AND its last step, the int-key conversion
`{int(i, 2): j …}` (ValueError on the empty key of a 0-bit dictionary) — = the hand model's `parseHashmapAug`, for every decoder
pair and every fuel ≥ 2n + 2 -/
theorem parse_hashmap_aug_eq {X Y : Type} (D : AugDec X Y) (fuel : Nat) (c : Cell) (n : Nat) (hf : 2 * n + 2 ≤ fuel) :
    (parse_hashmap_aug (xdOf D) (ydOf D) fuel (Py.beginParse c) (n : Int)).map (·.1) = outAug (parseHashmapAug D c n) := by
  have h := src_parse_aug_eq D fuel c n [] [] [] (by simpa using hf)
  obtain ⟨kind, bits, refs⟩ := c
  unfold parse_hashmap_aug parseHashmapAug
  by_cases h1 : kind ≠ -1
  · simp [Py.beginParse, h1, outAug]
  simp only [Py.beginParse, h1, if_false, Option.bind_eq_bind, Option.pure_def] at h ⊢
  rcases hp : parse_aug (xdOf D) (ydOf D) fuel ⟨kind, bits, refs⟩ (n : Int) [] [] [] with _ | ⟨sl', d, ex, p'⟩
  · rw [hp] at h
    rcases hq : parseAugEdge D (.mk kind bits refs) n [] with _ | ⟨kv, e⟩
    · simp [outAug]
    · rw [hq] at h; simp at h
  · rw [hp] at h
    rcases hq : parseAugEdge D (.mk kind bits refs) n [] with _ | ⟨kv, e⟩
    · rw [hq] at h; simp at h
    · rw [hq] at h
      simp only [Option.map_some, Option.some.injEq, augOut, Prod.mk.injEq, List.nil_append] at h
      obtain ⟨rfl, rfl⟩ := h
      obtain ⟨_, hnd⟩ := parseAugEdge_keys D _ (.mk kind bits refs) n [] kv _ (Nat.le_refl _) hq
      rw [addAllX_fresh kv [] hnd (by simp)]
      simp only [Option.bind_some, List.nil_append, intKeys_py_id]
      by_cases hany : kv.any (fun p => p.1.isEmpty) = true
      · simp [hany, outAug]
      · simp [hany, outAug]

/-- REGENERATED `Slice.load_hashmap_aug(n, x, y)` is `parse_hashmap_aug` on the slice itself -/
theorem load_hashmap_aug_eq {X Y : Type} (D : AugDec X Y) (fuel : Nat) (c : Cell) (n : Nat) (hf : 2 * n + 2 ≤ fuel) :
    (HashmapGlue.load_hashmap_aug (xdOf D) (ydOf D) fuel (Py.beginParse c) (n : Int)).map (·.1) = outAug (parseHashmapAug D c n) := by
  rw [← parse_hashmap_aug_eq D fuel c n hf]
  unfold HashmapGlue.load_hashmap_aug
  simp only [Option.bind_eq_bind, Option.pure_def]
  cases parse_hashmap_aug (xdOf D) (ydOf D) fuel (Py.beginParse c) (n : Int) <;> rfl

/-- rendering of the model's result of `load_hashmap_aug_e` on an ordinary slice -/
def outAugE {X Y : Type} : AugE X Y → Option (Option (List (Nat × X) × List Y))
  | .err => none
  | .none => some none
  | .cell => none
  | .empty y => some (some ([], [y]))
  | .dict kv ex => some (some (kv, ex))

/-- REGENERATED `Slice.load_hashmap_aug_e(n, x, y)` on an ORDINARY slice (on a special slice the method returns the cell itself: its first
statement, checked by the translator) = the hand model's `loadHashmapAugE`: `ahme_empty$0 extra:Y` gives `({}, [extra])`;
`ahme_root$1 root:^(HashmapAug n X Y) extra:Y` gives what `parse_hashmap_aug` returns for the root, after the top-level extra was
read from the slice (so it must be readable) -/
theorem load_hashmap_aug_e_eq {X Y : Type} (D : AugDec X Y) (fuel : Nat) (bits : Bits) (refs : List Cell) (n : Nat) (hf : 2 * n + 2 ≤ fuel) :
    (HashmapGlue.load_hashmap_aug_e (xdOf D) (ydOf D) fuel ⟨-1, bits, refs⟩ (n : Int)).map (·.1) =
      outAugE (loadHashmapAugE D (-1) bits refs n) := by
  unfold HashmapGlue.load_hashmap_aug_e loadHashmapAugE
  simp only [loadBit_eq, loadRef_eq, Option.bind_eq_bind, Option.pure_def, ne_eq, not_true_eq_false, if_false]
  rcases bits with _ | ⟨b, rest⟩
  · simp [outAugE]
  rcases b with _ | _
  · simp only [withBits, Option.bind_some, Bool.false_eq_true, if_false, ydOf]
    rcases hy : D.decY (rest, refs) with _ | ⟨y, sl⟩ <;> simp [outAugE]
  rcases refs with _ | ⟨c, more⟩
  · simp [outAugE, withBits]
  have h := parse_hashmap_aug_eq D fuel c n hf
  simp only [withBits, Option.bind_some, if_true, ydOf]
  rcases hp : parse_hashmap_aug (xdOf D) (ydOf D) fuel (Py.beginParse c) (n : Int) with _ | ⟨r, s2⟩
  · rw [hp] at h
    simp only [Option.map_none] at h
    cases hq : parseHashmapAug D c n with
    | err => simp [outAugE]
    | none => rw [hq] at h; simp [outAug] at h
    | dict r' => rw [hq] at h; simp [outAug] at h
  · rw [hp] at h
    simp only [Option.map_some] at h
    simp only [Option.bind_some]
    cases hq : parseHashmapAug D c n with
    | err => rw [hq] at h; simp [outAug] at h
    | none =>
      rw [hq] at h; simp only [outAug, Option.some.injEq] at h; subst h
      rcases hy : D.decY (rest, more) with _ | ⟨y, sl⟩ <;> simp [outAugE]
    | dict r' =>
      rw [hq] at h; simp only [outAug, Option.some.injEq] at h; subst h
      obtain ⟨kv, ex⟩ := r'
      rcases hy : D.decY (rest, more) with _ | ⟨y, sl⟩ <;> simp [outAugE]

end TonVerif.Proofs.SrcHashmapGlue
