/-
C16 source tie, third part — per class of tlb/account.py / block.py / config.py: the regenerated reader refines the spec decoder of its
block.tlb type under the declared view (Spec/Tlb/PyViewBlk.lean).  Method: Proofs/SrcTlb.lean, Proofs/SrcTlbTx.lean, Proofs/SrcTlbBlk.lean.
-/
import TonVerif.Proofs.SrcTlbBlk
import TonVerif.Proofs.SrcTlbParsersTx
import TonVerif.Generated.TlbParsersBlk

namespace TonVerif.Tlb.Blk
open TonVerif TonVerif.Tlb

/-! ### classes of the first generated file (Generated/TlbParsers.lean) that had no theorem -/

theorem refines_ConsensusConfig : Refines (Src.ConsensusConfig false) consensusConfig view_ConsensusConfig := by
  tlb_refine [consensusConfig, consensusConfigAlts, consensusTail, consensusNewHead, Src.ConsensusConfig, view_ConsensusConfig,
    consensusTailView]
  all_goals simp [vle_one_nat, *]

theorem refines_BlkPrevInfo_bit (b : Bool) :
    Refines (fun s => Src.BlkPrevInfo false s (.int (if b = true then 1 else 0))) (blkPrevInfo (if b = true then 1 else 0)) view_BlkPrevInfo := by
  cases b
  · exact refines_BlkPrevInfo0
  · exact refines_BlkPrevInfo1

theorem nonUnit_globalVersion : NonUnit globalVersion := by unfold globalVersion; tlb_nonunit
theorem nonUnit_blkMasterInfo : NonUnit blkMasterInfo := by unfold blkMasterInfo; tlb_nonunit
theorem nonUnit_blkPrevInfo (m : Nat) : NonUnit (blkPrevInfo m) := by
  unfold blkPrevInfo
  intro s v s' hd
  simp only [typ_dec, ite_dec] at hd
  split at hd
  · obtain ⟨x, _, rfl⟩ := (named_dec _ _ _ _ _).1 hd; simp
  · obtain ⟨x, _, rfl⟩ := (named_dec _ _ _ _ _).1 hd; simp

/-- `BlockInfo` (parsed by `__init__`): 20 straight-line fields, then `flags . 0?GlobalVersion`, `not_master?^BlkMasterInfo`,
    `^(BlkPrevInfo after_merge)`, `vert_seqno_incr?^(BlkPrevInfo 0)` — each conditional field is one joined `if` (`condK`) -/
theorem refines_BlockInfo : Refines (Src.BlockInfo false) blockInfo view_BlockInfo := by
  rintro ⟨bits, refs⟩ v s'
  tlb_struct [blockInfo]
  repeat' (first
               | apply And.intro
               | (intro h
                  first
                    | (simp only [Frag.mk.injEq] at h; obtain ⟨h1, h2⟩ := h; subst h1; subst h2)
                    | subst h
                    | skip))
  simp (config := {decide := true}) only [uint_keep, boolC_keep, refines_ShardIdent.keep, forall_const,
     envNat_cons, String.reduceBEq, Bool.false_eq_true, if_false, if_true, natOf_nat, bitInt_toNat, bit_eq_one,
     condK refines_GlobalVersion nonUnit_globalVersion, condRefK (r := Src.BlkMasterInfo) refines_BlkMasterInfo nonUnit_blkMasterInfo,
     condRefK (r := fun sp s => Src.BlkPrevInfo sp s (.int 0)) refines_BlkPrevInfo0 (nonUnit_blkPrevInfo 0),
     (refines_BlkPrevInfo_bit _).keep] at *
  simp [*, Src.BlockInfo, view_BlockInfo, Val.get, List.lookup, Rd.truthy, Rd.obj, Rd.str, Rd.veq, Rd.bytesLit, loadBytes_cons, takeBits_zero,
      takeBits_succ, natOfBits, loadBit_cons, loadBool_cons, natToBits, vle_nat_one, vle_nat_nat, vle_one_nat, lowBit_nat, vle_bit_nat,
      bind_some_eta, viaRef_eq_bind, viaRef_eq_bind1, loadRef_cons, special_mk, beginParse_mk]

/-! ### classes of Generated/TlbParsersBlk.lean -/

theorem refines_DepthBalanceInfo : Refines (SrcBlk.DepthBalanceInfo false) depthBalanceInfo view_DepthBalanceInfo := by
  apply RefinesP.toRefines
  tx_refine [depthBalanceInfo, SrcBlk.DepthBalanceInfo, view_DepthBalanceInfo, Tx.refines_CurrencyCollection.keep]

theorem refines_ValueFlow : Refines (SrcBlk.ValueFlow false) valueFlow view_ValueFlow := by
  apply RefinesP.toRefines
  tx_refine [valueFlow, valueFlowAlts, valueFlowIn, valueFlowOut, SrcBlk.ValueFlow, view_ValueFlow, Tx.refines_CurrencyCollection.keep, ref_dec]

theorem refines_ShardDescr : Refines (SrcBlk.ShardDescr false) shardDescr view_ShardDescr := by
  apply RefinesP.toRefines
  tx_refine [shardDescr, shardDescrAlts, shardDescrHead, SrcBlk.ShardDescr, view_ShardDescr, shardDescrHeadView,
    Tx.refines_CurrencyCollection.keep, refines_FutureSplitMerge.keep]

theorem refines_AccountStorage : Refines (SrcBlk.AccountStorage false) accountStorage view_AccountStorage := by
  apply RefinesP.toRefines
  tx_refine [accountStorage, SrcBlk.AccountStorage, view_AccountStorage, Tx.refines_CurrencyCollection.keep, refines_AccountState.keep]

theorem refines_Account : RefinesP PV (SrcBlk.Account false) account view_Account := by
  tx_refine [account, accountAlts, SrcBlk.Account, view_Account, Tx.refines_MsgAddressInt.keepV, refines_StorageInfo.keep,
    refines_AccountStorage.keep]

theorem refines_ShardAccount : RefinesP PV (SrcBlk.ShardAccount false) shardAccount view_ShardAccount := by
  tx_refine [shardAccount, SrcBlk.ShardAccount, view_ShardAccount, refKP (r := SrcBlk.Account) refines_Account.toE]

theorem refines_ValidatorSet : Refines (SrcBlk.ValidatorSet false) validatorSet view_ValidatorSet := by
  apply RefinesP.toRefines
  tx_refine [validatorSet, validatorSetAlts, SrcBlk.ValidatorSet, view_ValidatorSet, envNat_cons, uint_keepN,
    hashmapK refines_ValidatorDescr 16, dictK refines_ValidatorDescr 16]
  all_goals simp_all [vle_one_nat, vle_nat_isNat]

/-! ### augmented dictionaries (`load_hashmap_aug_e`) -/

theorem refines_ShardAccounts : RefinesP PV (SrcBlk.ShardAccounts false) shardAccounts view_ShardAccounts := by
  tx_refine [shardAccounts, SrcBlk.ShardAccounts, view_ShardAccounts,
    augKV (x := SrcBlk.ShardAccount false) (y := SrcBlk.DepthBalanceInfo false) refines_ShardAccount.toE refines_DepthBalanceInfo 256]

theorem refines_OldMcBlocksInfo : Refines (SrcBlk.OldMcBlocksInfo false) oldMcBlocksInfo view_OldMcBlocksInfo := by
  apply RefinesP.toRefines
  tx_refine [oldMcBlocksInfo, SrcBlk.OldMcBlocksInfo, view_OldMcBlocksInfo,
    augK (x := Src.KeyExtBlkRef false) (y := Src.KeyMaxLt false) refines_KeyExtBlkRef refines_KeyMaxLt 32]

theorem refines_BlockCreateStats : Refines (SrcBlk.BlockCreateStats false) blockCreateStats view_BlockCreateStats := by
  apply RefinesP.toRefines
  tx_refine [blockCreateStats, blockCreateStatsAlts, SrcBlk.BlockCreateStats, view_BlockCreateStats,
    dictK refines_CreatorStats 256,
    augK (x := Src.CreatorStats false) (y := Rd.loadUint 32) refines_CreatorStats (refines_uint 32 (by decide)) 256]

/-! ### masterchain state extra -/

theorem refines_ConfigParams : Refines (SrcBlk.ConfigParams false) configParams view_ConfigParams := by
  apply RefinesP.toRefines
  tx_refine [configParams, SrcBlk.ConfigParams, view_ConfigParams, ref_dec, hashmapSK refines_refSlice 32]

theorem nonUnit_extBlkRef : NonUnit extBlkRef := by unfold extBlkRef; tlb_nonunit
theorem nonUnit_blockCreateStats : NonUnit blockCreateStats := by unfold blockCreateStats; tlb_nonunit

theorem refines_McStateExtra : Refines (SrcBlk.McStateExtra false) mcStateExtra view_McStateExtra := by
  rintro ⟨bits, refs⟩ v s'
  tx_struct [mcStateExtra, shardHashes]
  repeat' (first
    | apply And.intro
    | (intro h
       first
         | (simp only [Frag.mk.injEq] at h; obtain ⟨h1, h2⟩ := h; subst h1; subst h2)
         | subst h
         | skip))
  simp (config := {decide := true}) only [uint_keep, boolC_keep, forall_const,
     envNat_cons, String.reduceBEq, Bool.false_eq_true, if_false, if_true, natOf_nat,
     shardHashesK (leaf := SrcBlk.ShardDescr) (refines_ShardDescr.toP PT).toE, refines_ConfigParams.keep, refines_ValidatorInfo.keep,
     refines_OldMcBlocksInfo.keep, optK refines_ExtBlkRef nonUnit_extBlkRef, Tx.refines_CurrencyCollection.keep,
     condK refines_BlockCreateStats nonUnit_blockCreateStats] at *
  simp [*, SrcBlk.McStateExtra, view_McStateExtra, view_ShardHashes, Val.get, List.lookup, Rd.truthy, Rd.obj, Rd.str, Rd.veq, Rd.bytesLit,
      loadBytes_cons, takeBits_zero, takeBits_succ, natOfBits, natToBits, vle_nat_one, lowBit_nat, bind_some_eta, loadRef_cons, special_mk,
      beginParse_mk]

/-! ### shard state -/

theorem nonUnit_mcStateExtra : NonUnit mcStateExtra := by unfold mcStateExtra; tlb_nonunit

theorem refines_ShardStateUnsplit : RefinesP PV (SrcBlk.ShardStateUnsplit false) shardStateUnsplit view_ShardStateUnsplit := by
  tx_refine [shardStateUnsplit, shardStateUnsplitBody, SrcBlk.ShardStateUnsplit, view_ShardStateUnsplit, refines_ShardIdent.keep,
    refKP (r := SrcBlk.ShardAccounts) refines_ShardAccounts.toE, Tx.refines_CurrencyCollection.keep, dictRawK libDescr 256,
    optK refines_BlkMasterInfo nonUnit_blkMasterInfo,
    optRefK (r := SrcBlk.McStateExtra) refines_McStateExtra nonUnit_mcStateExtra]

theorem refines_ShardState : RefinesP PV (SrcBlk.ShardState false) shardState view_ShardState := by
  rintro ⟨bits, refs⟩ v s'
  simp only [shardState, typ_dec, shardStateAlts, tagged_dec, decAlts_cons, decAlts_nil, tag, natToBits, Nat.reduceDiv, Nat.reduceMod,
    Nat.reduceBEq, Nat.reduceBNe, List.cons_append, List.nil_append, Frag.mk.injEq]
  rintro ⟨_, h⟩ hv
  rcases h with ⟨t, rs, ⟨rfl, rfl⟩, x, hx, rfl⟩ | ⟨_, ⟨t, rs, ⟨rfl, rfl⟩, x, hx, rfl⟩ | ⟨_, hf⟩⟩
  · have := refines_ShardStateUnsplit ⟨tag 32 0x9023afe2 ++ t, refs⟩ x s'
      ((ctag_dec (tag 32 0x9023afe2) shardStateUnsplitBody _ _ _).2 ⟨t, refs, rfl, hx⟩) (Tx.noVar_con _ _ hv)
    simp only [tag, natToBits, Nat.reduceDiv, Nat.reduceMod, Nat.reduceBEq, Nat.reduceBNe, List.cons_append, List.nil_append] at this
    simp [SrcBlk.ShardState, preloadBytes_cons, takeBits_succ, takeBits_zero, Rd.veq, Rd.bytesLit, natToBits, this, view_ShardState,
      Rd.obj, Rd.str]
  · simp only [recd_dec, fld, decFields_cons, decFields_nil] at hx
    obtain ⟨vs, ⟨a, s1, ha, vs', ⟨b, s2, hb, vs'', ⟨rfl, rfl⟩, rfl⟩, rfl⟩, rfl⟩ := hx
    have hv' : a.noVar = true ∧ b.noVar = true := by
      simpa [PV, Val.noVar, noVarFs, Bool.and_eq_true] using hv
    have h1 := (refines_ShardStateUnsplit.toE.viaRef (r := SrcBlk.ShardStateUnsplit)) _ _ _ ha hv'.1
    have h2 := (refines_ShardStateUnsplit.toE.viaRef (r := SrcBlk.ShardStateUnsplit)) _ _ _ hb hv'.2
    simp [SrcBlk.ShardState, preloadBytes_cons, loadBytes_cons, takeBits_succ, takeBits_zero, Rd.veq, Rd.bytesLit, natToBits, h1, h2,
      view_ShardState, Rd.obj, Rd.str, Val.get, List.lookup]
  · exact hf.elim

/-! ### masterchain block extra -/

theorem nonUnit_configParams : NonUnit configParams := by unfold configParams; tlb_nonunit

theorem refines_McBlockExtra : Refines (SrcBlk.McBlockExtra false) mcBlockExtra view_McBlockExtra := by
  rintro ⟨bits, refs⟩ v s'
  tx_struct [mcBlockExtra, shardHashes, shardFeesK Tx.refines_CurrencyCollection]
  repeat' (first
    | apply And.intro
    | (intro h
       first
         | (simp only [Frag.mk.injEq] at h; obtain ⟨h1, h2⟩ := h; subst h1; subst h2)
         | subst h
         | skip))
  simp (config := {decide := true}) only [forall_const,
     envNat_cons, String.reduceBEq, Bool.false_eq_true, if_false, if_true, bitInt_toNat, bit_eq_one,
     shardHashesK (leaf := SrcBlk.ShardDescr) (refines_ShardDescr.toP PT).toE, dictRawK cryptoSignaturePair 16,
     optK (r := Rd.loadRefV) (c := cellRef) (w := id) (fun s v s' hd => by
        obtain ⟨b, c, more, rfl, rfl, rfl⟩ := (cellRef_dec s v s').1 hd; rfl) (fun s v s' hd => by
        obtain ⟨b, c, more, rfl, rfl, rfl⟩ := (cellRef_dec s v s').1 hd; simp),
     condK refines_ConfigParams nonUnit_configParams] at *
  simp [*, SrcBlk.McBlockExtra, view_McBlockExtra, view_ShardHashes, Val.get, List.lookup, Rd.truthy, Rd.obj, Rd.str, Rd.veq, Rd.bytesLit,
      loadBytes_cons, takeBits_zero, takeBits_succ, natOfBits, natToBits, loadBit_cons, bind_some_eta, loadRef_cons, special_mk,
      beginParse_mk]
  simp [*, loadMaybeRef_eq_optional, viewMaybe_id]

/-! ### account blocks, block extra -/

theorem refines_AccountBlock : RefinesP PV (SrcBlk.AccountBlock false) accountBlock view_AccountBlock := by
  have htx : RefinesP PV (Rd.viaRef (SrcTx.Transaction 3)) (ref transaction) (Tx.view_Transaction 3) :=
    (Tx.refines_Transaction 3).toE.viaRef
  tx_refine [accountBlock, SrcBlk.AccountBlock, view_AccountBlock,
    augInlKV (x := Rd.viaRef (SrcTx.Transaction 3)) (y := SrcTx.CurrencyCollection false) htx Tx.refines_CurrencyCollection 64,
    refK (r := Src.HashUpdate) refines_HashUpdate]

theorem nonUnit_mcBlockExtra : NonUnit mcBlockExtra := by unfold mcBlockExtra; tlb_nonunit

theorem refines_BlockExtra : RefinesP PV (SrcBlk.BlockExtra false) blockExtra view_BlockExtra := by
  tx_refine [blockExtra, inMsgDescr, outMsgDescr, shardAccountBlocks, SrcBlk.BlockExtra, view_BlockExtra, ref_dec,
    augKV (x := SrcTx.InMsg 3 false) (y := SrcTx.ImportFees false) Tx.refines_InMsg.toE Tx.refines_ImportFees 256,
    augKV (x := SrcTx.OutMsg 3 false) (y := SrcTx.CurrencyCollection false) Tx.refines_OutMsg.toE Tx.refines_CurrencyCollection 256,
    augKV (x := SrcBlk.AccountBlock false) (y := SrcTx.CurrencyCollection false) refines_AccountBlock.toE Tx.refines_CurrencyCollection 256,
    optRefK (r := SrcBlk.McBlockExtra) refines_McBlockExtra nonUnit_mcBlockExtra]

/-- no `addr_var` inside, and the state update is an ordinary cell -/
abbrev PB : Val → Prop := fun v => v.noVar = true ∧ ordinaryStateUpdate v = true

theorem refines_Block : RefinesP PB (SrcBlk.Block false) block view_Block := by
  tx_refine [block, SrcBlk.Block, view_Block, refK (r := Src.BlockInfo) refines_BlockInfo, refK (r := SrcBlk.ValueFlow) refines_ValueFlow,
    refKP (r := SrcBlk.BlockExtra) refines_BlockExtra.toE, PB, ordinaryStateUpdate, Rd.merkleUpdateOrd]
  all_goals simp_all [Val.get, List.lookup, Cell.exotic]

end TonVerif.Tlb.Blk
