/-
`check_proof`, `check_block_header_proof` (both modes) and `check_account_proof` regenerated from proof/check_proof.py
(Generated/ProofFull.lean, translator pyfunc.py) equal the hand model (Model/Proof.lean) for ALL constructed cells, hashes and
root lists.  Generation dependent: a source change that alters what a function computes breaks this file.
-/
import TonVerif.Generated.ProofFull
import TonVerif.Model.Proof

set_option linter.unusedSimpArgs false
namespace TonVerif.Proofs.SrcProof
open TonVerif TonVerif.Model TonVerif.Generated.ProofFull

theorem py_slice_eq {α : Type} (xs : List α) (a b : Nat) : Py.slice xs a b = pySlice xs a b := rfl

/-- `check_proof(cell, hash_)` regenerated = `Model.checkProof` (returns iff `true`) -/
theorem src_check_proof_eq (c : PCell) (h : Bytes) :
    check_proof c h = if checkProof c h then some () else none := by
  unfold check_proof checkProof
  simp only [py_slice_eq, kMerkleProof]
  rcases hr : c.refs[0]? with _ | r
  · by_cases h1 : c.info.kind = 3 <;> by_cases h2 : pySlice c.data 1 33 = h <;> simp [h1, h2]
  · rcases hh : r.info.getHash 0 with _ | hh0
    · by_cases h1 : c.info.kind = 3 <;> by_cases h2 : pySlice c.data 1 33 = h <;> simp [h1, h2, hh]
    · rcases hd : r.info.getDepth 0 with _ | d
      · by_cases h1 : c.info.kind = 3 <;> by_cases h2 : pySlice c.data 1 33 = h <;> by_cases h3 : hh0 = h <;>
          by_cases h4 : c.refs.length = 1 <;> by_cases h5 : c.info.bits.length = 280 <;> simp [h1, h2, h3, h4, h5, hh, hd]
      · rcases hb : toBytesBE? 2 d with _ | db
        · by_cases h1 : c.info.kind = 3 <;> by_cases h2 : pySlice c.data 1 33 = h <;> by_cases h3 : hh0 = h <;>
            by_cases h4 : c.refs.length = 1 <;> by_cases h5 : c.info.bits.length = 280 <;> simp [h1, h2, h3, h4, h5, hh, hd, hb]
        · by_cases h1 : c.info.kind = 3 <;> by_cases h2 : pySlice c.data 1 33 = h <;> by_cases h3 : hh0 = h <;>
            by_cases h4 : c.refs.length = 1 <;> by_cases h5 : c.info.bits.length = 280 <;>
            by_cases h6 : c.data = 3 :: (h ++ db) <;> simp [h1, h2, h3, h4, h5, h6, hh, hd, hb]

/-- `check_block_header_proof(root_cell, block_hash)` (`store_state_hash=False`) regenerated = `Model.checkBlockHeaderProof` -/
theorem src_header_eq (root : PCell) (bh : Bytes) :
    check_block_header_proof_False root bh = if checkBlockHeaderProof root bh then some () else none := by
  unfold check_block_header_proof_False checkBlockHeaderProof
  rcases hg : root.info.getHash 0 with _ | rh
  · simp
  · by_cases h1 : rh = bh <;> simp [h1]

/-- `check_block_header_proof(root_cell, block_hash, True)` regenerated = `Model.checkBlockHeaderProofState` (same raise decision,
same returned state hash) -/
theorem src_header_state_eq (root : PCell) (bh : Bytes) :
    check_block_header_proof_True root bh = checkBlockHeaderProofState root bh := by
  unfold check_block_header_proof_True checkBlockHeaderProofState checkBlockHeaderProof
  simp only [py_slice_eq, kMerkleUpdate]
  rcases hg : root.info.getHash 0 with _ | rh
  · simp
  · by_cases h1 : rh = bh
    · rcases h2r : root.refs[2]? with _ | su
      · simp [h1]
      · rcases h1r : su.refs[1]? with _ | r21
        · simp [h1, h1r]
        · rcases hs : r21.info.getHash 0 with _ | sh
          · simp [h1, h1r, hs]
          · by_cases h2 : su.info.kind = 4 <;> by_cases h3 : pySlice su.data 33 65 = sh <;> simp [h1, h2, h3, h1r, hs]
    · simp [h1]

/-- `if b then some () else none` without a `Decidable` instance (so that case splits reach every copy of `b`) -/
def okUnit : Bool → Option Unit
  | true => some ()
  | false => none

theorem ite_eq_okUnit (b : Bool) : (if b = true then some () else none) = okUnit b := by cases b <;> rfl

/-- re-association of the three consecutive lookups of the TL-B walk -/
theorem walk_bind {A B C D : Type} (x : Option A) (f : A → Option B) (g : B → Option C) (K : C → Option D) :
    (x.bind fun a => (f a).bind fun b => (g b).bind K) = (x.bind fun a => (f a).bind fun b => g b).bind K := by
  cases x with
  | none => rfl
  | some a =>
    simp only [Option.bind_some]
    cases f a with
    | none => rfl
    | some b => rfl

/-- `check_account_proof(proof, shrd_blk, address, account_state_root)` regenerated = `Model.checkAccountProof` on the roots that
`Cell.from_boc` returns, for ALL values of the declared externals that compose to the model's TL-B walk (`hwalk`: deserialising the
state cell, looking the address up in `.accounts[0]` and taking `.cell[0]` is `locateAccount`). -/
theorem src_check_account_proof_eq {Shard ShardAccount : Type} (fromBoc : Bytes → Option (List PCell))
    (deser : PCell → Option Shard) (get : Shard → Nat → Option ShardAccount) (cellOf : ShardAccount → PCell)
    (O : Opaque) (proof blkRootHash addr : Bytes) (state : PCell)
    (hwalk : ∀ st, ((deser st).bind fun sh => (get sh (natOfBE addr)).bind fun sa => (cellOf sa).refs[0]?) = locateAccount O st addr) :
    check_account_proof_False fromBoc deser get cellOf proof blkRootHash addr state =
      (fromBoc proof).bind fun roots => if checkAccountProof O roots blkRootHash addr state then some () else none := by
  unfold check_account_proof_False
  simp only [ite_eq_okUnit]
  rcases fromBoc proof with _ | roots
  · rfl
  simp only [Option.bind_some]
  rcases roots with _ | ⟨p0, _ | ⟨p1, _ | ⟨p2, rest⟩⟩⟩
  · simp [checkAccountProof, okUnit]
  · simp [checkAccountProof, okUnit]
  · simp only [List.length_cons, List.length_nil, checkAccountProof, src_check_proof_eq, src_header_state_eq, ite_eq_okUnit,
      List.getElem?_cons_zero, List.getElem?_cons_succ, Option.bind_some, Nat.zero_add, Nat.reduceAdd, ne_eq, not_true_eq_false, if_false]
    cases hc0 : checkProof p0 blkRootHash
    · simp [okUnit]
    rcases h0 : p0.refs[0]? with _ | hdr
    · simp [okUnit]
    rcases hh : checkBlockHeaderProofState hdr blkRootHash with _ | sh
    · simp [okUnit, hh]
    rcases h1 : p1.refs[0]? with _ | st
    · simp [okUnit, hh]
    rcases hg : st.info.getHash 0 with _ | gh
    · simp [okUnit, hh, hg]
    by_cases he : gh = sh
    · cases hc1 : checkProof p1 sh
      · simp [okUnit, hh, hg, he, hc1]
      · simp only [List.getElem?_cons_zero, List.getElem?_cons_succ, Option.bind_some, hh, hg, he, h0, h1, hc1, okUnit,
          ne_eq, not_true_eq_false, if_false, Nat.zero_add, Nat.reduceAdd, ite_false, ite_true, bne_self_eq_false, Bool.not_true,
          Bool.false_eq_true]
        rw [walk_bind, hwalk]
        rcases locateAccount O st addr with _ | acc
        · simp
        · rcases hga : acc.info.getHash 0 with _ | ah
          · simp [hga]
          · by_cases hq : ah = state.info.hash
            · simp [hga, hq]
            · have : (ah == state.info.hash) = false := by simpa using hq
              simp [hga, hq, this]
    · simp [okUnit, hh, hg, he]
  · simp [checkAccountProof, okUnit]

end TonVerif.Proofs.SrcProof
