/-
`check_proof`, `check_block_header_proof` (both modes) and `check_account_proof` regenerated from proof/check_proof.py
(Generated/ProofFull.lean, translator pyfunc.py) equal the hand model (Model/Proof.lean) for ALL constructed cells, hashes and
root lists.  Generation dependent: a source change that alters what a function computes breaks this file.
-/
import TonVerif.Generated.ProofFull
import TonVerif.Model.Proof

set_option linter.unusedSimpArgs false
namespace TonVerif.Proofs.SrcProof
open TonVerif TonVerif.Model TonVerif.Generated.ProofFull

theorem py_slice_eq {α : Type} (xs : List α) (a b : Nat) : Py.slice xs a b = pySlice xs a b := rfl

/-- `check_proof(cell, hash_)` regenerated = `Model.checkProof` (returns iff `true`) -/
theorem src_check_proof_eq (c : PCell) (h : Bytes) :
    check_proof c h = if checkProof c h then some () else none := by
  unfold check_proof checkProof
  simp only [py_slice_eq, kMerkleProof]
  rcases hr : c.refs[0]? with _ | r
  · by_cases h1 : c.info.kind = 3 <;> by_cases h2 : pySlice c.data 1 33 = h <;> simp [h1, h2]
  · rcases hh : r.info.getHash 0 with _ | hh0
    · by_cases h1 : c.info.kind = 3 <;> by_cases h2 : pySlice c.data 1 33 = h <;> simp [h1, h2, hh]
    · rcases hd : r.info.getDepth 0 with _ | d
      · by_cases h1 : c.info.kind = 3 <;> by_cases h2 : pySlice c.data 1 33 = h <;> by_cases h3 : hh0 = h <;>
          by_cases h4 : c.refs.length = 1 <;> by_cases h5 : c.info.bits.length = 280 <;> simp [h1, h2, h3, h4, h5, hh, hd]
      · rcases hb : toBytesBE? 2 d with _ | db
        · by_cases h1 : c.info.kind = 3 <;> by_cases h2 : pySlice c.data 1 33 = h <;> by_cases h3 : hh0 = h <;>
            by_cases h4 : c.refs.length = 1 <;> by_cases h5 : c.info.bits.length = 280 <;> simp [h1, h2, h3, h4, h5, hh, hd, hb]
        · by_cases h1 : c.info.kind = 3 <;> by_cases h2 : pySlice c.data 1 33 = h <;> by_cases h3 : hh0 = h <;>
            by_cases h4 : c.refs.length = 1 <;> by_cases h5 : c.info.bits.length = 280 <;>
            by_cases h6 : c.data = 3 :: (h ++ db) <;> simp [h1, h2, h3, h4, h5, h6, hh, hd, hb]

/-- `check_block_header_proof(root_cell, block_hash)` (`store_state_hash=False`) regenerated = `Model.checkBlockHeaderProof` -/
theorem src_header_eq (root : PCell) (bh : Bytes) :
    check_block_header_proof_False root bh = if checkBlockHeaderProof root bh then some () else none := by
  unfold check_block_header_proof_False checkBlockHeaderProof
  rcases hg : root.info.getHash 0 with _ | rh
  · simp
  · by_cases h1 : rh = bh <;> simp [h1]

/-- `check_block_header_proof(root_cell, block_hash, True)` regenerated = `Model.checkBlockHeaderProofState` (same raise decision,
same returned state hash) -/
theorem src_header_state_eq (root : PCell) (bh : Bytes) :
    check_block_header_proof_True root bh = checkBlockHeaderProofState root bh := by
  unfold check_block_header_proof_True checkBlockHeaderProofState checkBlockHeaderProof
  simp only [py_slice_eq, kMerkleUpdate]
  rcases hg : root.info.getHash 0 with _ | rh
  · simp
  · by_cases h1 : rh = bh
    · rcases h2r : root.refs[2]? with _ | su
      · simp [h1]
      · rcases h1r : su.refs[1]? with _ | r21
        · simp [h1, h1r]
        · rcases hs : r21.info.getHash 0 with _ | sh
          · simp [h1, h1r, hs]
          · by_cases h2 : su.info.kind = 4 <;> by_cases h3 : pySlice su.data 33 65 = sh <;> simp [h1, h2, h3, h1r, hs]
    · simp [h1]

/-- `if b then some () else none` without a `Decidable` instance (so that case splits reach every copy of `b`) -/
def okUnit : Bool → Option Unit
  | true => some ()
  | false => none

theorem ite_eq_okUnit (b : Bool) : (if b = true then some () else none) = okUnit b := by cases b <;> rfl

/-- re-association of the three consecutive lookups of the TL-B walk -/
theorem walk_bind {A B C D : Type} (x : Option A) (f : A → Option B) (g : B → Option C) (K : C → Option D) :
    (x.bind fun a => (f a).bind fun b => (g b).bind K) = (x.bind fun a => (f a).bind fun b => g b).bind K := by
  cases x with
  | none => rfl
  | some a =>
    simp only [Option.bind_some]
    cases f a with
    | none => rfl
    | some b => rfl

/-- `check_account_proof(proof, shrd_blk, address, account_state_root)` regenerated = `Model.checkAccountProof` on the roots that
`Cell.from_boc` returns, for ALL values of the declared externals that compose to the model's TL-B walk (`hwalk`: deserialising the
state cell, looking the address up in `.accounts[0]` and taking `.cell[0]` is `locateAccount`). -/
theorem src_check_account_proof_eq {Shard ShardAccount : Type} (fromBoc : Bytes → Option (List PCell))
    (deser : PCell → Option Shard) (get : Shard → Nat → Option ShardAccount) (cellOf : ShardAccount → PCell)
    (O : Opaque) (proof blkRootHash addr : Bytes) (state : PCell)
    (hwalk : ∀ st, ((deser st).bind fun sh => (get sh (natOfBE addr)).bind fun sa => (cellOf sa).refs[0]?) = locateAccount O st addr) :
    check_account_proof_False fromBoc deser get cellOf proof blkRootHash addr state =
      (fromBoc proof).bind fun roots => if checkAccountProof O roots blkRootHash addr state then some () else none := by
  unfold check_account_proof_False
  simp only [ite_eq_okUnit]
  rcases fromBoc proof with _ | roots
  · rfl
  simp only [Option.bind_some]
  rcases roots with _ | ⟨p0, _ | ⟨p1, _ | ⟨p2, rest⟩⟩⟩
  · simp [checkAccountProof, okUnit]
  · simp [checkAccountProof, okUnit]
  · simp only [List.length_cons, List.length_nil, checkAccountProof, src_check_proof_eq, src_header_state_eq, ite_eq_okUnit,
      List.getElem?_cons_zero, List.getElem?_cons_succ, Option.bind_some, Nat.zero_add, Nat.reduceAdd, ne_eq, not_true_eq_false, if_false]
    cases hc0 : checkProof p0 blkRootHash
    · simp [okUnit]
    rcases h0 : p0.refs[0]? with _ | hdr
    · simp [okUnit]
    rcases hh : checkBlockHeaderProofState hdr blkRootHash with _ | sh
    · simp [okUnit, hh]
    rcases h1 : p1.refs[0]? with _ | st
    · simp [okUnit, hh]
    rcases hg : st.info.getHash 0 with _ | gh
    · simp [okUnit, hh, hg]
    by_cases he : gh = sh
    · cases hc1 : checkProof p1 sh
      · simp [okUnit, hh, hg, he, hc1]
      · simp only [List.getElem?_cons_zero, List.getElem?_cons_succ, Option.bind_some, hh, hg, he, h0, h1, hc1, okUnit,
          ne_eq, not_true_eq_false, if_false, Nat.zero_add, Nat.reduceAdd, ite_false, ite_true, bne_self_eq_false, Bool.not_true,
          Bool.false_eq_true]
        rw [walk_bind, hwalk]
        rcases locateAccount O st addr with _ | acc
        · simp
        · rcases hga : acc.info.getHash 0 with _ | ah
          · simp [hga]
          · by_cases hq : ah = state.info.hash
            · simp [hga, hq]
            · have : (ah == state.info.hash) = false := by simpa using hq
              simp [hga, hq, this]
    · simp [okUnit, hh, hg, he]
  · simp [checkAccountProof, okUnit]

/-! ### `check_account_proof(..., return_account_descr=True)` and `check_shard_proof` -/

theorem ite_none_bind {α β : Type} (c : Prop) [Decidable c] (e : Option α) (K : α → Option β) :
    (if c then none else e).bind K = if c then none else e.bind K := by
  split <;> rfl

/-- DESCRIPTOR MODE.  `check_account_proof(..., return_account_descr=True)` regenerated returns a value exactly when the plain mode
returns (EVERY comparison of the plain mode is made first, in the same order), and the value is the `ShardAccount` found under the
address in the proved state cell - for ALL values of the declared externals. -/
theorem src_account_descr_eq {Shard ShardAccount : Type} (fromBoc : Bytes → Option (List PCell))
    (deser : PCell → Option Shard) (get : Shard → Nat → Option ShardAccount) (cellOf : ShardAccount → PCell)
    (proof blkRootHash addr : Bytes) (state : PCell) :
    check_account_proof_True fromBoc deser get cellOf proof blkRootHash addr state =
      (check_account_proof_False fromBoc deser get cellOf proof blkRootHash addr state).bind fun _ =>
        (fromBoc proof).bind fun roots => (roots[1]?).bind fun sc => (sc.refs[0]?).bind fun st =>
          (deser st).bind fun sh => get sh (natOfBE addr) := by
  unfold check_account_proof_True check_account_proof_False
  rcases fromBoc proof with _ | roots
  · rfl
  simp only [Option.bind_some]
  rcases roots with _ | ⟨p0, _ | ⟨p1, _ | ⟨p2, rest⟩⟩⟩
  · simp
  · simp
  · simp only [List.length_cons, List.length_nil, List.getElem?_cons_zero, List.getElem?_cons_succ, Option.bind_some, Nat.zero_add,
      Nat.reduceAdd, ne_eq, not_true_eq_false, if_false]
    rcases check_proof p0 blkRootHash with _ | _ <;> simp only [Option.bind_some, Option.bind_none]
    rcases p0.refs[0]? with _ | hdr <;> simp only [Option.bind_some, Option.bind_none]
    rcases check_block_header_proof_True hdr blkRootHash with _ | sh <;> simp only [Option.bind_some, Option.bind_none]
    rcases p1.refs[0]? with _ | st <;> simp only [Option.bind_some, Option.bind_none]
    rcases st.info.getHash 0 with _ | gh <;> simp only [Option.bind_some, Option.bind_none]
    by_cases he : gh = sh
    · simp only [he, not_true_eq_false, if_false]
      rcases check_proof p1 sh with _ | _ <;> simp only [Option.bind_some, Option.bind_none]
      rcases deser st with _ | shd <;> simp only [Option.bind_some, Option.bind_none]
      rcases get shd (natOfBE addr) with _ | sa <;> simp only [Option.bind_some, Option.bind_none]
      rcases (cellOf sa).refs[0]? with _ | acc <;> simp only [Option.bind_some, Option.bind_none]
      rcases acc.info.getHash 0 with _ | ah <;> simp only [Option.bind_some, Option.bind_none]
      by_cases hq : ah = state.info.hash <;> simp [hq]
    · simp [he]
  · simp

/-- ... in particular the two modes raise on exactly the same inputs -/
theorem src_account_descr_isSome {Shard ShardAccount : Type} (fromBoc : Bytes → Option (List PCell))
    (deser : PCell → Option Shard) (get : Shard → Nat → Option ShardAccount) (cellOf : ShardAccount → PCell)
    (proof blkRootHash addr : Bytes) (state : PCell) :
    (check_account_proof_True fromBoc deser get cellOf proof blkRootHash addr state).isSome =
      (check_account_proof_False fromBoc deser get cellOf proof blkRootHash addr state).isSome := by
  unfold check_account_proof_True check_account_proof_False
  rcases fromBoc proof with _ | roots
  · rfl
  simp only [Option.bind_some]
  rcases roots with _ | ⟨p0, _ | ⟨p1, _ | ⟨p2, rest⟩⟩⟩
  · simp
  · simp
  · simp only [List.length_cons, List.length_nil, List.getElem?_cons_zero, List.getElem?_cons_succ, Option.bind_some, Nat.zero_add,
      Nat.reduceAdd, ne_eq, not_true_eq_false, if_false]
    rcases check_proof p0 blkRootHash with _ | _ <;> first | rfl | simp only [Option.bind_some, Option.bind_none, Option.isSome_none]
    rcases p0.refs[0]? with _ | hdr <;> first | rfl | simp only [Option.bind_some, Option.bind_none, Option.isSome_none]
    rcases check_block_header_proof_True hdr blkRootHash with _ | sh <;> first | rfl | simp only [Option.bind_some, Option.bind_none, Option.isSome_none]
    rcases p1.refs[0]? with _ | st <;> first | rfl | simp only [Option.bind_some, Option.bind_none, Option.isSome_none]
    rcases st.info.getHash 0 with _ | gh <;> first | rfl | simp only [Option.bind_some, Option.bind_none, Option.isSome_none]
    by_cases he : gh = sh
    · simp only [he, not_true_eq_false, if_false]
      rcases check_proof p1 sh with _ | _ <;> first | rfl | simp only [Option.bind_some, Option.bind_none, Option.isSome_none]
      rcases deser st with _ | shd <;> first | rfl | simp only [Option.bind_some, Option.bind_none, Option.isSome_none]
      rcases get shd (natOfBE addr) with _ | sa <;> first | rfl | simp only [Option.bind_some, Option.bind_none, Option.isSome_none]
      rcases (cellOf sa).refs[0]? with _ | acc <;> first | rfl | simp only [Option.bind_some, Option.bind_none, Option.isSome_none]
      rcases acc.info.getHash 0 with _ | ah <;> first | rfl | simp only [Option.bind_some, Option.bind_none, Option.isSome_none]
      by_cases hq : ah = state.info.hash <;> simp [hq]
    · simp [he]
  · simp

/-- a `Py.loop?` whose body either returns `v` (stop) or goes on is a first-match search (generation independent) -/
theorem loop_find {ι ρ : Type} (xs : List ι) (p : ι → Bool) (v : ρ) (f : ι → Option ρ → Option (Option ρ × Bool))
    (hf : ∀ x r, f x r = some (if p x then (some v, true) else (none, false))) :
    Py.loop? xs none f = some (if xs.any p then some v else none) := by
  induction xs with
  | nil => rfl
  | cons x xs ih =>
    rw [Py.loop?, hf]
    by_cases hp : p x = true
    · simp [hp]
    · simp [hp, ih]

/-- `check_shard_proof(shard_proof, blk, shrd_blk)` regenerated = `Model.checkShardProof` on the roots `Cell.from_boc` returns, with
the model's two Boolean parameters READ FROM THE SOURCE (`shardBlockInfoOk`: the seqno / workchain comparison on the deserialised
header; `findShardDescr`: state deserialisation, `custom.shard_hashes.get(workchain)`, the loop over `.list` with its `return`
inside) - for ALL values of the declared externals.  Result: `some none` = the early `return` (`blk == shrd_blk`), `some (some d)` =
the descriptor returned from inside the loop, `none` = raises. -/
theorem src_check_shard_proof_eq {Shard BlockInfo ShardDict ShardDescr ShardEntry : Type} (fromBoc : Bytes → Option (List PCell))
    (deser : PCell → Option Shard) (deserBlock : PCell → Option BlockInfo) (infoSeqno infoWorkchain : BlockInfo → Int)
    (shardHashes : Shard → Option ShardDict) (shardGet : ShardDict → Int → Option ShardDescr)
    (descrList : ShardDescr → List (Option ShardEntry)) (entryRootHash : ShardEntry → Bytes) (proof : Bytes) (blk shrd : BlkId) :
    check_shard_proof fromBoc deser deserBlock infoSeqno infoWorkchain shardHashes shardGet descrList entryRootHash proof blk shrd =
      if blk = shrd then some none
      else if blk.workchain ≠ -1 then none
      else (fromBoc proof).bind fun roots =>
        if checkShardProof (shardBlockInfoOk deserBlock infoSeqno infoWorkchain blk.seqno blk.workchain)
            (fun st => (findShardDescr deser shardHashes shardGet descrList entryRootHash shrd.workchain shrd.rootHash st).isSome)
            false true roots blk.rootHash
        then ((roots[1]?).bind fun s => (s.refs[0]?).bind fun st =>
          findShardDescr deser shardHashes shardGet descrList entryRootHash shrd.workchain shrd.rootHash st).map some
        else none := by
  unfold check_shard_proof
  by_cases hsame : blk = shrd
  · simp [hsame]
  simp only [hsame, if_false]
  by_cases hmc' : ¬ blk.workchain = -1
  · simp [hmc']
  have hmc : blk.workchain = -1 := Classical.not_not.mp hmc'
  simp only [hmc, ne_eq, not_true_eq_false, if_false]
  rcases fromBoc proof with _ | roots
  · rfl
  simp only [Option.bind_some]
  rcases roots with _ | ⟨b, _ | ⟨s, _ | ⟨p2, rest⟩⟩⟩
  · simp [checkShardProof]
  · simp [checkShardProof]
  · simp only [List.length_cons, List.length_nil, List.getElem?_cons_zero, List.getElem?_cons_succ, Option.bind_some, Nat.zero_add,
      Nat.reduceAdd, not_true_eq_false, if_false, checkShardProof, Bool.false_eq_true, Bool.not_true, src_check_proof_eq,
      src_header_state_eq, shardBlockInfoOk, hmc]
    rcases hb0 : b.refs[0]? with _ | hdr
    · simp
    simp only [Option.bind_some]
    rcases hdb : deserBlock hdr with _ | bi
    · rcases s.refs[0]? with _ | st <;> simp [hdb]
    simp only [Option.bind_some]
    by_cases hinfo' : ¬ (infoSeqno bi = blk.seqno ∧ infoWorkchain bi = -1)
    · have hinfo := hinfo'
      have hb : (infoSeqno bi == blk.seqno && infoWorkchain bi == -1) = false := by
        rw [Bool.eq_false_iff]; intro h; apply hinfo; simpa using h
      rcases s.refs[0]? with _ | st <;> simp [hinfo, hb, hdb]
    have hinfo : infoSeqno bi = blk.seqno ∧ infoWorkchain bi = -1 := Classical.not_not.mp hinfo'
    have hb : (infoSeqno bi == blk.seqno && infoWorkchain bi == -1) = true := by simpa using hinfo
    simp only [hinfo, and_self, not_true_eq_false, if_false, hb]
    rcases hs0 : s.refs[0]? with _ | st
    · simp
    simp only [Option.bind_some]
    rcases hg : st.info.getHash 0 with _ | mh
    · simp
    simp only [Option.bind_some]
    cases hc0 : checkProof b blk.rootHash
    · simp
    simp only [if_true, Option.bind_some, Bool.not_true, Bool.false_eq_true, if_false]
    rcases hh : checkBlockHeaderProofState hdr blk.rootHash with _ | sh
    · simp
    simp only [Option.bind_some]
    by_cases he' : ¬ mh = sh
    · have : (mh != sh) = true := by simpa using he'
      simp [he', this]
    have he : mh = sh := Classical.not_not.mp he'
    have hne : (mh != sh) = false := by simp [he]
    simp only [he, not_true_eq_false, if_false, bne_self_eq_false, Bool.false_eq_true]
    cases hc1 : checkProof s sh
    · simp [hdb, hb]
    simp only [if_true, Option.bind_some, Bool.not_true, Bool.false_eq_true, if_false, findShardDescr, hdb, hb, Bool.true_and,
      Bool.and_true, Bool.and_self, decide_true]
    rcases hds : deser st with _ | shd <;> simp only [Option.bind_some, Option.bind_none]
    · simp
    rcases hsh : shardHashes shd with _ | d <;> simp only [Option.bind_some, Option.bind_none]
    · simp
    rcases hgd : shardGet d shrd.workchain with _ | descr <;> simp only [Option.bind_some, Option.bind_none]
    · simp
    rw [loop_find (descrList descr) (entryMatches entryRootHash shrd.rootHash) (some descr)]
    · generalize (descrList descr).any (entryMatches entryRootHash shrd.rootHash) = av
      cases av <;> simp
    · intro x r
      cases x with
      | none => rfl
      | some e =>
        by_cases hq : entryRootHash e = shrd.rootHash <;> simp [hq, entryMatches]
  · simp [checkShardProof]

end TonVerif.Proofs.SrcProof
