/-
Auxiliary material for Proofs/BocOrder.lean:
* `dfs` / `dfsR` : the recursive depth-first search (children LAST-TO-FIRST) over a visited KEY LIST,
  `cost` / `costR` : the number of `orderLoop` iterations it takes,
* `sim_dfs` / `sim_dfsR` : the iterative loop `orderLoop` simulates the recursive search,
* `orderLoop_mono` : more fuel never changes a result,
* `foldl_dictMoveToEnd` : re-inserting a key-distinct list into the ordered dict only reverses it.
-/
import TonVerif.Model.BocEmit

namespace TonVerif.Proofs.BocOrder
open TonVerif TonVerif.Model

/-- (visited keys, post-order reversed) -/
abbrev DState := List Nat × List PCell

mutual
  /-- recursive DFS from one cell -/
  def dfs : PCell → DState → DState
    | .mk i refs, s =>
      if (PCell.mk i refs).key ∈ s.1 then s
      else
        let s' := dfsR refs ((PCell.mk i refs).key :: s.1, s.2)
        (s'.1, PCell.mk i refs :: s'.2)
  /-- recursive DFS over a child list, LAST child first -/
  def dfsR : List PCell → DState → DState
    | [], s => s
    | c :: cs, s => dfs c (dfsR cs s)
end

mutual
  /-- number of loop iterations of `orderLoop` for `dfs` -/
  def cost : PCell → DState → Nat
    | .mk i refs, s =>
      if (PCell.mk i refs).key ∈ s.1 then 1
      else costR refs ((PCell.mk i refs).key :: s.1, s.2) + 2
  def costR : List PCell → DState → Nat
    | [], _ => 0
    | c :: cs, s => costR cs s + cost c (dfsR cs s)
end

theorem dfs_hit {c : PCell} {s : DState} (h : c.key ∈ s.1) : dfs c s = s := by
  cases c; simp [dfs, h]

theorem dfs_miss {c : PCell} {s : DState} (h : c.key ∉ s.1) :
    dfs c s = ((dfsR c.refs (c.key :: s.1, s.2)).1, c :: (dfsR c.refs (c.key :: s.1, s.2)).2) := by
  cases c; simp [dfs, h, PCell.refs]

theorem cost_hit {c : PCell} {s : DState} (h : c.key ∈ s.1) : cost c s = 1 := by
  cases c; simp [cost, h]

theorem cost_miss {c : PCell} {s : DState} (h : c.key ∉ s.1) :
    cost c s = costR c.refs (c.key :: s.1, s.2) + 2 := by
  cases c; simp [cost, h, PCell.refs]

@[simp] theorem dfsR_nil (s : DState) : dfsR [] s = s := by simp [dfsR]
@[simp] theorem dfsR_cons (c : PCell) (cs : List PCell) (s : DState) :
    dfsR (c :: cs) s = dfs c (dfsR cs s) := by simp [dfsR]
@[simp] theorem costR_nil (s : DState) : costR [] s = 0 := by simp [costR]
@[simp] theorem costR_cons (c : PCell) (cs : List PCell) (s : DState) :
    costR (c :: cs) s = costR cs s + cost c (dfsR cs s) := by simp [costR]

/-! ### one step of the loop -/

theorem orderLoop_nil (fuel : Nat) (vis : Std.HashSet Nat) (post : List PCell) :
    orderLoop (fuel + 1) [] vis post = some post := by
  simp [orderLoop]

theorem orderLoop_true (fuel : Nat) (c : PCell) (st : List (PCell × Bool)) (vis : Std.HashSet Nat)
    (post : List PCell) :
    orderLoop (fuel + 1) ((c, true) :: st) vis post = orderLoop fuel st vis (c :: post) := by
  simp [orderLoop]

theorem orderLoop_hit (fuel : Nat) (c : PCell) (st : List (PCell × Bool)) (vis : Std.HashSet Nat)
    (post : List PCell) (h : vis.contains c.key = true) :
    orderLoop (fuel + 1) ((c, false) :: st) vis post = orderLoop fuel st vis post := by
  simp [orderLoop, h]

theorem orderLoop_miss (fuel : Nat) (c : PCell) (st : List (PCell × Bool)) (vis : Std.HashSet Nat)
    (post : List PCell) (h : vis.contains c.key = false) :
    orderLoop (fuel + 1) ((c, false) :: st) vis post =
      orderLoop fuel ((c.refs.reverse.map (fun r => (r, false))) ++ (c, true) :: st)
        (vis.insert c.key) post := by
  simp [orderLoop, h]

/-- more fuel never changes a result -/
theorem orderLoop_succ : ∀ (f : Nat) (st : List (PCell × Bool)) (vis : Std.HashSet Nat)
    (post r : List PCell), orderLoop f st vis post = some r → orderLoop (f + 1) st vis post = some r := by
  intro f
  induction f with
  | zero => intro st vis post r h; simp [orderLoop] at h
  | succ f ih =>
    intro st vis post r h
    match st with
    | [] => rw [orderLoop_nil] at h ⊢; exact h
    | (c, true) :: st => rw [orderLoop_true] at h ⊢; exact ih _ _ _ _ h
    | (c, false) :: st =>
      cases hc : vis.contains c.key with
      | true => rw [orderLoop_hit _ _ _ _ _ hc] at h ⊢; exact ih _ _ _ _ h
      | false => rw [orderLoop_miss _ _ _ _ _ hc] at h ⊢; exact ih _ _ _ _ h

theorem orderLoop_mono {f f' : Nat} {st : List (PCell × Bool)} {vis : Std.HashSet Nat}
    {post r : List PCell} (h : orderLoop f st vis post = some r) (hle : f ≤ f') :
    orderLoop f' st vis post = some r := by
  induction hle with
  | refl => exact h
  | step _ ih => exact orderLoop_succ _ _ _ _ _ ih

/-! ### the loop simulates the recursive search -/

/-- the hash set and the key list contain the same keys -/
def Agree (vis : Std.HashSet Nat) (vl : List Nat) : Prop := ∀ k, vis.contains k = decide (k ∈ vl)

theorem agree_empty : Agree ∅ [] := by
  intro k; simp

theorem agree_insert {vis : Std.HashSet Nat} {vl : List Nat} (h : Agree vis vl) (a : Nat) :
    Agree (vis.insert a) (a :: vl) := by
  intro k
  rw [Std.HashSet.contains_insert, h k]
  by_cases hk : k = a
  · subst hk; simp
  · have : a ≠ k := fun e => hk e.symm
    simp [hk, this]

mutual
  theorem sim_dfs : (c : PCell) → ∀ (st : List (PCell × Bool)) (vis : Std.HashSet Nat) (s : DState),
      Agree vis s.1 →
      ∃ vis', Agree vis' (dfs c s).1 ∧ ∀ fuel,
        orderLoop (fuel + cost c s) ((c, false) :: st) vis s.2 = orderLoop fuel st vis' (dfs c s).2
    | .mk i refs, st, vis, s, ha => by
      by_cases hk : (PCell.mk i refs).key ∈ s.1
      · refine ⟨vis, ?_, ?_⟩
        · rw [dfs_hit hk]; exact ha
        · intro fuel
          rw [dfs_hit hk, cost_hit hk, orderLoop_hit]
          rw [ha]; simpa using hk
      · obtain ⟨vis', ha', hs⟩ := sim_dfsR refs ((PCell.mk i refs, true) :: st)
          (vis.insert (PCell.mk i refs).key) ((PCell.mk i refs).key :: s.1, s.2)
          (agree_insert ha _)
        refine ⟨vis', ?_, ?_⟩
        · rw [dfs_miss hk]; exact ha'
        · intro fuel
          have hc : vis.contains (PCell.mk i refs).key = false := by rw [ha]; simpa using hk
          rw [dfs_miss hk, cost_miss hk]
          rw [show fuel + (costR (PCell.mk i refs).refs ((PCell.mk i refs).key :: s.1, s.2) + 2)
              = (fuel + 1 + costR (PCell.mk i refs).refs ((PCell.mk i refs).key :: s.1, s.2)) + 1 by omega]
          rw [orderLoop_miss _ _ _ _ _ hc]
          have := hs (fuel + 1)
          simp only [PCell.refs] at this ⊢
          rw [this, orderLoop_true]
  theorem sim_dfsR : (cs : List PCell) → ∀ (st : List (PCell × Bool)) (vis : Std.HashSet Nat) (s : DState),
      Agree vis s.1 →
      ∃ vis', Agree vis' (dfsR cs s).1 ∧ ∀ fuel,
        orderLoop (fuel + costR cs s) (cs.reverse.map (fun r => (r, false)) ++ st) vis s.2
          = orderLoop fuel st vis' (dfsR cs s).2
    | [], st, vis, s, ha => ⟨vis, by simpa using ha, fun fuel => by simp⟩
    | c :: cs, st, vis, s, ha => by
      obtain ⟨vis1, ha1, h1⟩ := sim_dfsR cs ((c, false) :: st) vis s ha
      obtain ⟨vis2, ha2, h2⟩ := sim_dfs c st vis1 (dfsR cs s) ha1
      refine ⟨vis2, by simpa using ha2, fun fuel => ?_⟩
      have e : (c :: cs).reverse.map (fun r => (r, false)) ++ st
          = cs.reverse.map (fun r => (r, false)) ++ (c, false) :: st := by simp
      rw [e, costR_cons, dfsR_cons,
        show fuel + (costR cs s + cost c (dfsR cs s)) = (fuel + cost c (dfsR cs s)) + costR cs s by omega,
        h1, h2]
end

/-! ### the final dict fold -/

theorem foldl_dictMoveToEnd : ∀ (l : List PCell) (d : CDict),
    Agree d.2 (d.1.map PCell.key) → (l.map PCell.key).Nodup →
    (∀ x ∈ l, x.key ∉ d.1.map PCell.key) →
    (l.foldl dictMoveToEnd d).1 = l.reverse ++ d.1 := by
  intro l
  induction l with
  | nil => intro d _ _ _; simp
  | cons x l ih =>
    intro d ha hn hd
    have hx : d.2.contains x.key = false := by
      rw [ha]; simpa using hd x (by simp)
    have hstep : dictMoveToEnd d x = (x :: d.1, d.2.insert x.key) := by
      simp [dictMoveToEnd, hx]
    rw [List.foldl_cons, hstep]
    rw [List.map_cons, List.nodup_cons] at hn
    rw [ih (x :: d.1, d.2.insert x.key) (by simpa using agree_insert ha x.key) hn.2]
    · simp
    · intro y hy
      have hyd := hd y (by simp [hy])
      have hne : y.key ≠ x.key := by
        intro e; apply hn.1; rw [← e]; exact List.mem_map_of_mem hy
      simp only [List.map_cons, List.mem_cons, not_or]
      exact ⟨hne, hyd⟩

end TonVerif.Proofs.BocOrder
