/-
WORK OF THE HEADER PARSER on the regenerated `Boc.deserialize_boc_header` (Generated/BocHeader.lean), for runs that RETURN: the comprehension
iterations (3 size fields + root list + index) and the bytes run through the Python-level CRC loop, read off the returned header through C05's
`Path` relation (`model_path`, `src_header_eq_model`).
-/
import TonVerif.Proofs.SrcBocHeader
import TonVerif.Proofs.BocHeaderPath

namespace TonVerif.Proofs.SrcHeaderWork
open TonVerif TonVerif.Model TonVerif.Model.BocParse TonVerif.Generated.BocHeader TonVerif.Proofs.SrcBocHeader TonVerif.Proofs.BocHeaderPath

theorem uintsAt_len (data : Bytes) (a w k : Nat) : (uintsAt data a w k).length = k := by simp [uintsAt]

theorem header_work (data : Bytes) (h : HeaderOut) (hh : header data = some h) :
    1 ≤ h.size_bytes ∧
    3 + h.root_list.length + (match h.index with | some ix => ix.length | none => 0) + 3 ≤ data.length ∧
    (h.root_list.length = h.roots_num) ∧
    (∀ ix, h.index = some ix → ix.length = h.cells_num ∧ 1 ≤ h.offset_bytes ∧ h.cells_num * h.offset_bytes ≤ data.length) ∧
    (h.hash_crc32 = true → 4 ≤ data.length ∧ ∃ c, Model.crc32c (data.take (data.length - 4)) = some c ∧ c = data.drop (data.length - 4)) := by
  rw [src_header_eq_model] at hh
  have hp := model_path data
  cases hd : deserializeBocHeader data with
  | none => rw [hd] at hh; simp at hh
  | some m =>
    rw [hd] at hh hp
    simp only [Option.map_some, Option.some.injEq] at hh
    subst hh
    cases hp with
    | final hp =>
      cases hp with
      | accept hx hr hix ht hc hlen =>
        rename_i fl off cells roots absent tot rlen rl ilen ix clen
        have hs : 1 ≤ fl.sizeBytes := Nat.pos_of_ne_zero hx.hs
        have hrl : rl.length = roots ∧ rl.length ≤ rlen + 1 ∧ (rlen = 0 → fl.generic = true → rl.length = 0) := by
          cases hr with
          | generic hg h => 
            rw [uintsAt_len]
            have := Nat.le_mul_of_pos_right roots hs
            refine ⟨rfl, by omega, fun h0 _ => ?_⟩
            have : roots * fl.sizeBytes = 0 := h0
            rcases Nat.mul_eq_zero.1 this with h | h <;> omega
          | legacy hg h => simp [h, hg]
        have hixl : ix.length ≤ ilen ∧ (fl.hasIdx = true → ix.length = cells ∧ 1 ≤ off ∧ cells * off ≤ data.length) := by
          cases hix with
          | some hi h h0 =>
            rw [uintsAt_len]
            have h1 : 1 ≤ off := Nat.pos_of_ne_zero h0
            have := Nat.le_mul_of_pos_right cells h1
            have : off * cells = cells * off := Nat.mul_comm _ _
            exact ⟨by omega, fun _ => ⟨rfl, h1, by omega⟩⟩
          | none hi => simp [hi]
        have hcrc : fl.hasCrc = true → 4 ≤ data.length ∧
            ∃ c, Model.crc32c (data.take (data.length - 4)) = some c ∧ c = data.drop (data.length - 4) := by
          intro hcr
          cases hc with
          | some hc' h c hcrc heq =>
            have e : 6 + 3 * fl.sizeBytes + off + rlen + ilen + tot = data.length - 4 := by omega
            rw [e] at hcrc heq
            refine ⟨by omega, c, hcrc, ?_⟩
            rw [heq]; unfold pySlice
            rw [List.take_of_length_le (by omega)]
          | none hc' => rw [hc'] at hcr; simp at hcr
        simp only [HeaderOut.ofModel]
        refine ⟨hs, ?_, hrl.1, ?_, hcrc⟩
        · split
          · rename_i ix' hix'
            split at hix'
            · simp only [Option.some.injEq] at hix'; subst hix'; omega
            · simp at hix'
          · omega
        · intro ix' hix'
          split at hix'
          · rename_i hi
            simp only [Option.some.injEq] at hix'; subst hix'
            exact hixl.2 hi
          · simp at hix'
