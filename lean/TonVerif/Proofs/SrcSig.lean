/-
`check_block_signatures` regenerated from proof/check_proof.py (Generated/SigFull.lean, translator pyfunc.py) equals the hand
model `Model.Sig.checkBlockSignatures` for ALL validator lists, signature lists, block ids, hash and verification functions.
Generation dependent: a source change that alters what the function computes breaks this file.
-/
import TonVerif.Generated.SigFull
import TonVerif.Proofs.SrcFunc

namespace TonVerif.Proofs.SrcSig
open TonVerif TonVerif.Model.Sig TonVerif.Proofs.SrcFunc TonVerif.Proofs.SrcFunc.Sig
open TonVerif.Generated.SigFull

/-- the regenerated `calculate_node_id_short` is the model's `nodeIdShort` and never raises -/
theorem src_node_id_eq (H : Bytes → Bytes) (key : Bytes) :
    calculate_node_id_short H key = some (nodeIdShort H key) := by
  simp [calculate_node_id_short, nodeIdShort, nodeIdMagic]

/-- MAIN: the regenerated function returns (`some ()`) exactly when the hand model says `true`, and raises (`none`) otherwise -/
theorem src_check_block_signatures_eq (H : Bytes → Bytes) (verify : Bytes → Bytes → Bytes → Bool)
    (nodes : List Validator) (sigs : List SigEntry) (blk : Blk) :
    check_block_signatures H verify nodes sigs blk =
      if checkBlockSignatures H verify nodes sigs blk then some () else none := by
  unfold check_block_signatures
  simp only []
  rw [nodes_loop H _ (by intro i m t v; simp [src_node_id_eq])]
  simp only [Option.bind_some]
  rw [sigs_loop verify (nodes.foldl (nodeStep H) (0, [])).2 (toSign blk) _ (by
    intro i seen signed sig
    simp only [sigStep, toSign, signMagic]
    cases hl : List.lookup sig.nodeId (nodes.foldl (nodeStep H) (0, [])).2 with
    | none => simp
    | some node =>
      by_cases hs : sig.nodeId ∈ seen
      · simp [hs]
      · simp [hs]
        split <;> rename_i h <;> (try simp at h) <;> simp [h])]
  rw [check_eq_getD]
  simp only [runSigs, buildNodes]
  exact verdict_eq _ _ _ _ (by
    intro i seen signed
    first
      | rfl
      | (simp only [gt_iff_lt]; split <;> split <;> first | rfl | omega))

end TonVerif.Proofs.SrcSig
