/-
C14: the side condition of `Enc.vector` (`vs.length ≤ bs.length`: the parser rejects a declared count larger than
the remaining input) follows from the table: every element of a vector occupies at least `minLen` bytes, and
`minLen ≥ 1` for every vector field of a table with `VecOK` (decidable; checked for the bundled table).
-/
import TonVerif.Proofs.Tl
import TonVerif.Generated.TlTable

namespace TonVerif.Proofs.Tl
open TonVerif TonVerif.Spec.Tl TonVerif.Model.Tl

/-- a lower bound for the encoded length of one value of type `e` (bare references followed `k` deep). -/
def minLen (T : Table) : Nat → ETy → Nat
  | _, .int => 4 | _, .long => 8 | _, .nat => 4 | _, .int128 => 16 | _, .int256 => 32 | _, .bool => 4
  | _, .bytes => 4 | _, .string => 4
  | _, .boxed _ => 4
  | _, .unsup => 0
  | 0, .bare _ => 0
  | k+1, .bare n =>
    match T.byName n with
    | some c => (c.args.map (fun a => if a.cond.isSome then 0 else if a.vec then 4 else minLen T k a.ty)).sum
    | none => 0

def argMin (T : Table) (k : Nat) (a : Arg) : Nat := if a.cond.isSome then 0 else if a.vec then 4 else minLen T k a.ty

def bodyMin (T : Table) (k : Nat) (args : List Arg) : Nat := (args.map (argMin T k)).sum

theorem minLen_bare (T : Table) (k n : Nat) (c : Ctor) (h : T.byName n = some c) :
    minLen T (k + 1) (.bare n) = bodyMin T k c.args := by
  simp only [minLen, h, bodyMin]
  rfl

/-- every vector field of the table has elements of at least one byte. -/
def VecOK (T : Table) (k : Nat) : Prop := ∀ c ∈ T.ctors, ∀ a ∈ c.args, a.vec = true → 1 ≤ minLen T k a.ty

theorem encodeBytes_len4 (b : Bytes) : 4 ≤ (encodeBytes b).length := by
  have h1 := encodeBytes_length_mod4 b
  have h2 : 1 ≤ (encodeBytes b).length := by
    unfold encodeBytes
    simp only [List.length_append]
    split <;> simp <;> omega
  omega

def MinOK (T : Table) (k : Nat) : Item → Bytes → Prop
  | .one e _ _, bs => minLen T k e ≤ bs.length
  | .many e vs, bs => vs.length * minLen T k e ≤ bs.length
  | .field a _, bs => (if a.vec then 4 else minLen T k a.ty) ≤ bs.length
  | .body args _, bs => bodyMin T k args ≤ bs.length

theorem enc_minLen (T : Table) (P : Bytes → Prop) {item : Item} {bs : Bytes} (h : Enc T P item bs) :
    ∀ k, MinOK T k item bs := by
  induction h with
  | int h1 h2 => intro k; cases k <;> simp [MinOK, minLen, intLE_length]
  | long h1 h2 => intro k; cases k <;> simp [MinOK, minLen, intLE_length]
  | nat h1 h2 => intro k; cases k <;> simp [MinOK, minLen, intLE_length]
  | int128 h1 h2 => intro k; cases k <;> simp [MinOK, minLen, h1]
  | int256 h1 h2 => intro k; cases k <;> simp [MinOK, minLen, h1]
  | boolT => intro k; cases k <;> simp [MinOK, minLen]
  | boolF => intro k; cases k <;> simp [MinOK, minLen]
  | bytes h1 h2 h3 => intro k; cases k <;> simp [MinOK, minLen, encodeBytes_len4]
  | string h1 h2 h3 h4 => intro k; cases k <;> simp [MinOK, minLen, encodeBytes_len4]
  | bare hn hc hb ih =>
    intro k
    cases k with
    | zero => simp [MinOK, minLen]
    | succ k =>
      have := ih k
      simp only [MinOK] at this ⊢
      rw [minLen_bare T k _ _ hn]
      exact this
  | boxed hm hn hc hb ih => intro k; cases k <;> simp [MinOK, minLen] <;> omega
  | manyNil => intro k; simp [MinOK]
  | manyCons h1 h2 ih1 ih2 =>
    intro k
    have a := ih1 k
    have b := ih2 k
    simp only [MinOK, List.length_cons, List.length_append, Nat.succ_mul] at a b ⊢
    omega
  | scalar hv h1 ih =>
    intro k
    have a := ih k
    simp only [MinOK] at a ⊢
    simp only [hv, Bool.false_eq_true, if_false]
    exact a
  | vector hv hl hb h1 ih =>
    intro k
    simp only [MinOK, hv, if_true, List.length_append, natToLE_length]
    omega
  | bodyNil => intro k; simp [MinOK, bodyMin]
  | bodyReq hc hl h1 h2 ih1 ih2 =>
    intro k
    have a := ih1 k
    have b := ih2 k
    simp only [MinOK, bodyMin, List.map_cons, List.sum_cons, argMin, hc, Option.isSome_none, Bool.false_eq_true, if_false,
      List.length_append] at a b ⊢
    omega
  | bodyOn hc hf h0 hb hl h1 h2 ih1 ih2 =>
    intro k
    have b := ih2 k
    simp only [MinOK, bodyMin, List.map_cons, List.sum_cons, argMin, hc, Option.isSome_some, if_true,
      List.length_append] at b ⊢
    omega
  | bodyOff hc hf h0 hb hl h1 ih =>
    intro k
    have b := ih k
    simp only [MinOK, bodyMin, List.map_cons, List.sum_cons, argMin, hc, Option.isSome_some, if_true] at b ⊢
    omega

/-- the element count of a well-typed vector never exceeds its encoded length when elements have `minLen ≥ 1`. -/
theorem many_length_le (T : Table) (P : Bytes → Prop) (k : Nat) (e : ETy) (vs : List Val) (bs : Bytes)
    (hmin : 1 ≤ minLen T k e) (h : Enc T P (.many e vs) bs) : vs.length ≤ bs.length := by
  have := enc_minLen T P h k
  simp only [MinOK] at this
  have h2 : vs.length * 1 ≤ vs.length * minLen T k e := Nat.mul_le_mul_left _ hmin
  omega

def vecOKb (T : Table) (k : Nat) (cs : List Ctor) : Bool :=
  cs.all (fun c => c.args.all (fun a => !a.vec || decide (1 ≤ minLen T k a.ty)))

theorem vecOK_of_b (T : Table) (k : Nat) (h : vecOKb T k T.ctors = true) : VecOK T k := by
  intro c hc a ha hv
  have := List.all_eq_true.mp (List.all_eq_true.mp h c hc) a ha
  simpa [hv] using this

/-- the bundled table: every vector field's elements occupy at least one byte (bare references followed 1 deep). -/
theorem bundled_vecOK : VecOK Generated.Tl.table 1 :=
  vecOK_of_b _ _ (by decide +kernel)

end TonVerif.Proofs.Tl
