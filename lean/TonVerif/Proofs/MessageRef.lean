/- C15 helper lemmas, part 3: the model's Slice programs agree with the spec decoder wherever the decoder succeeds -/
import TonVerif.Proofs.MessageRT

namespace TonVerif.Proofs.Message
open TonVerif TonVerif.Model TonVerif.Model.SOp TonVerif.Model.Message TonVerif.Spec.Tlb
open TonVerif.Proofs.MsgBits

variable {R : Type} {α β : Type}

/-- whenever the spec reader `p` succeeds, the slice program `s` returns the same value and leaves the same rest -/
def Ref (s : SOp R α) (p : Dec R α) : Prop :=
  ∀ (b : Bits) (r : List R) (a : α) (c' : Chunk R), p (b, r) = some (a, c') → s ⟨b, r⟩ = (⟨c'.1, c'.2⟩, some a)

theorem sop_bind_eq (s : SOp R α) (f : α → SOp R β) : (s >>= f) = SOp.bind s f := rfl
theorem sop_pure_eq (a : α) : (Pure.pure a : SOp R α) = SOp.pure a := rfl

theorem Ref.bind {s : SOp R α} {p : Dec R α} {sf : α → SOp R β} {pf : α → Dec R β}
    (h1 : Ref s p) (h2 : ∀ a, Ref (sf a) (pf a)) : Ref (s >>= sf) (p >>= pf) := by
  intro b r a c' h
  simp only [dec_bind_eq, Dec.bind] at h
  rcases hp : p (b, r) with _ | ⟨a1, c1⟩
  · simp [hp] at h
  · simp only [hp] at h
    have e1 := h1 b r a1 c1 hp
    have e2 := h2 a1 c1.1 c1.2 a c' h
    simp only [sop_bind_eq, SOp.bind, e1, e2]

theorem Ref.ret (a : α) : Ref (Pure.pure a : SOp R α) (Pure.pure a) := by
  intro b r a' c' h
  simp only [dec_pure_eq, Dec.pure, Option.some.injEq, Prod.mk.injEq] at h
  obtain ⟨rfl, rfl⟩ := h
  simp [sop_pure_eq, SOp.pure]

theorem Ref.fail (s : SOp R α) : Ref s Dec.fail := by
  intro b r a c' h; simp [Dec.fail] at h

theorem ref_loadBit : Ref (loadBit : SOp R Bool) dBool := by
  intro b r a c' h
  cases b with
  | nil => simp [dBool] at h
  | cons x t =>
    simp only [dBool, Option.some.injEq, Prod.mk.injEq] at h
    obtain ⟨rfl, rfl⟩ := h
    simp [loadBit]

theorem ref_loadRef : Ref (loadRef : SOp R R) dRef := by
  intro b r a c' h
  cases r with
  | nil => simp [dRef] at h
  | cons x t =>
    simp only [dRef, Option.some.injEq, Prod.mk.injEq] at h
    obtain ⟨rfl, rfl⟩ := h
    simp [loadRef]

theorem dBits_some {n : Nat} {b : Bits} {r : List R} {x : Bits} {c' : Chunk R} (h : dBits n (b, r) = some (x, c')) :
    n ≤ b.length ∧ x = b.take n ∧ c' = (b.drop n, r) := by
  unfold dBits at h
  dsimp only at h
  split at h
  · simp at h
  · simp only [Option.some.injEq, Prod.mk.injEq] at h
    exact ⟨by omega, h.1.symm, h.2.symm⟩

theorem ref_loadUint (n : Nat) (hn : 0 < n) : Ref (loadUint n : SOp R Int) (dUint n) := by
  intro b r a c' h
  simp only [dUint, dec_bind_eq, Dec.bind, dec_pure_eq, Dec.pure] at h
  rcases hp : dBits n (b, r) with _ | ⟨x, c1⟩
  · simp [hp] at h
  · simp only [hp, Option.some.injEq, Prod.mk.injEq] at h
    obtain ⟨hl, rfl, rfl⟩ := dBits_some hp
    obtain ⟨rfl, rfl⟩ := h
    have hne : (List.take n b).isEmpty = false := by
      cases b with
      | nil => simp at hl; omega
      | cons y t => cases n with
        | zero => omega
        | succ k => simp
    have hlt : ¬ b.length < n := by omega
    have hn0 : n ≠ 0 := by omega
    have hbne : b ≠ [] := by intro hh; subst hh; simp at hl; omega
    simp [loadUint, preloadUint, peekBits, ofOption, ba2intU, delBits, sop_bind_eq, SOp.bind, sop_pure_eq, SOp.pure, hne, hlt, hn0, hbne]

theorem ref_loadInt (n : Nat) (hn : 0 < n) : Ref (loadInt n : SOp R Int) (dInt n) := by
  intro b r a c' h
  simp only [dInt, dec_bind_eq, Dec.bind] at h
  rcases hp : dBits n (b, r) with _ | ⟨x, c1⟩
  · simp [hp] at h
  · simp only [hp] at h
    obtain ⟨hl, rfl, rfl⟩ := dBits_some hp
    have hlen : (List.take n b).length = n := by simp; omega
    rcases ht : List.take n b with _ | ⟨sg, tl⟩
    · simp [ht] at hlen; omega
    · simp only [ht, dec_pure_eq, Dec.pure, Option.some.injEq, Prod.mk.injEq] at h
      obtain ⟨rfl, rfl⟩ := h
      have hlt : ¬ b.length < n := by omega
      have hn0 : n ≠ 0 := by omega
      have hl2 : (sg :: tl).length = n := by rw [← ht]; exact hlen
      simp [loadInt, preloadInt, peekBits, ofOption, ba2intS, delBits, sop_bind_eq, SOp.bind, sop_pure_eq, SOp.pure, ht, hlt, hn0, hl2]

theorem ref_loadBytes32 (g : Bytes → α) :
    Ref (loadBytes 32 >>= fun h => (Pure.pure (g h) : SOp R α)) (dBits 256 >>= fun h => Pure.pure (g (bitsToBytes h))) := by
  intro b r a c' h
  simp only [dec_bind_eq, Dec.bind, dec_pure_eq, Dec.pure] at h
  rcases hp : dBits 256 (b, r) with _ | ⟨x, c1⟩
  · simp [hp] at h
  · simp only [hp, Option.some.injEq, Prod.mk.injEq] at h
    obtain ⟨hl, rfl, rfl⟩ := dBits_some hp
    obtain ⟨rfl, rfl⟩ := h
    have hlt : ¬ b.length < 256 := by omega
    simp [loadBytes, preloadBytes, peekBits, delBits, sop_bind_eq, SOp.bind, sop_pure_eq, SOp.pure, hlt]

/-- `bind` where the continuation only has to agree on values the first reader can return -/
theorem Ref.bindP {s : SOp R α} {p : Dec R α} {sf : α → SOp R β} {pf : α → Dec R β} (P : α → Prop)
    (hP : ∀ c a c', p c = some (a, c') → P a)
    (h1 : Ref s p) (h2 : ∀ a, P a → Ref (sf a) (pf a)) : Ref (s >>= sf) (p >>= pf) := by
  intro b r a c' h
  simp only [dec_bind_eq, Dec.bind] at h
  rcases hp : p (b, r) with _ | ⟨a1, c1⟩
  · simp [hp] at h
  · simp only [hp] at h
    have e1 := h1 b r a1 c1 hp
    have e2 := h2 a1 (hP _ _ _ hp) c1.1 c1.2 a c' h
    simp only [sop_bind_eq, SOp.bind, e1, e2]

theorem dUint_nonneg (n : Nat) (c : Chunk R) (a : Int) (c' : Chunk R) (h : dUint n c = some (a, c')) : 0 ≤ a := by
  simp only [dUint, dec_bind_eq, Dec.bind, dec_pure_eq, Dec.pure] at h
  rcases hp : dBits n c with _ | ⟨x, c1⟩
  · simp [hp] at h
  · simp only [hp, Option.some.injEq, Prod.mk.injEq] at h
    rw [← h.1]; exact Int.natCast_nonneg _

/-- reading a 0-bit number: the spec returns 0 and consumes nothing -/
theorem dUint0 (b : Bits) (r : List R) (a : Int) (c' : Chunk R) (h : dUint 0 (b, r) = some (a, c')) : a = 0 ∧ c' = (b, r) := by
  simp [dUint, dec_bind_eq, Dec.bind, dBits, dec_pure_eq, Dec.pure, natOfBits] at h
  exact ⟨h.1.symm, h.2.symm⟩

theorem ref_loadVarUint (k : Nat) (hk : 0 < k) : Ref (loadVarUint k : SOp R Int) (dVarUint k) := by
  unfold loadVarUint dVarUint
  refine Ref.bindP (fun len => 0 ≤ len) (dUint_nonneg k) (ref_loadUint k hk) (fun len hlen => ?_)
  by_cases h0 : len = 0
  · subst h0
    simp only [if_true, Int.toNat_zero, Nat.zero_mul]
    intro b r a c' h
    obtain ⟨rfl, rfl⟩ := dUint0 b r a c' h
    simp [sop_pure_eq, SOp.pure]
  · simp only [h0, if_false]
    exact ref_loadUint _ (by omega)

theorem ref_loadCoins : Ref (loadCoins : SOp R Int) dGrams := ref_loadVarUint 4 (by omega)

theorem ref_loadIf {s : SOp R α} {p : Dec R α} (h : Ref s p) : Ref (loadIf s) (dMaybe p) := by
  unfold loadIf dMaybe
  refine Ref.bind ref_loadBit (fun b => ?_)
  cases b with
  | false => simp only [Bool.false_eq_true, if_false]; exact Ref.ret none
  | true => simp only [if_true]; exact Ref.bind h (fun a => Ref.ret (some a))

theorem ref_loadMaybeRef : Ref (loadMaybeRef : SOp R (Option R)) (dMaybe dRef) := by
  unfold loadMaybeRef dMaybe
  refine Ref.bind ref_loadBit (fun b => ?_)
  cases b with
  | false => simp only [Bool.false_eq_true, if_false]; exact Ref.ret none
  | true => simp only [if_true]; exact Ref.bind ref_loadRef (fun a => Ref.ret (some a))

theorem ref_loadCurrency : Ref (loadCurrency : SOp R (Currency R)) dCurrency := by
  unfold loadCurrency dCurrency
  exact Ref.bind ref_loadCoins (fun g => Ref.bind ref_loadMaybeRef (fun o => Ref.ret _))

theorem ref_loadTickTock : Ref (loadTickTock : SOp R TickTock) dTickTock := by
  unfold loadTickTock dTickTock
  exact Ref.bind ref_loadBit (fun a => Ref.bind ref_loadBit (fun b => Ref.ret _))

theorem ref_loadStateInit : Ref (loadStateInit : SOp R (StateInit R)) dStateInit := by
  unfold loadStateInit dStateInit
  exact Ref.bind (ref_loadIf (ref_loadUint 5 (by omega))) (fun _ => Ref.bind (ref_loadIf ref_loadTickTock) (fun _ =>
    Ref.bind (ref_loadIf ref_loadRef) (fun _ => Ref.bind (ref_loadIf ref_loadRef) (fun _ =>
    Ref.bind (ref_loadIf ref_loadRef) (fun _ => Ref.ret _)))))


/-! monad laws needed to align the two programs -/

theorem dec_bind_assoc {γ : Type} (p : Dec R α) (f : α → Dec R β) (g : β → Dec R γ) :
    ((p >>= f) >>= g) = (p >>= fun a => f a >>= g) := by
  funext c
  simp only [dec_bind_eq, Dec.bind]
  rcases p c with _ | ⟨a, c1⟩ <;> simp

theorem dec_pure_bind (a : α) (f : α → Dec R β) : ((Pure.pure a : Dec R α) >>= f) = f a := by
  funext c; simp [dec_bind_eq, Dec.bind, dec_pure_eq, Dec.pure]

theorem dec_fail_bind (f : α → Dec R β) : ((Dec.fail : Dec R α) >>= f) = Dec.fail := by
  funext c; simp [dec_bind_eq, Dec.bind, Dec.fail]

theorem sop_bind_assoc {γ : Type} (p : SOp R α) (f : α → SOp R β) (g : β → SOp R γ) :
    ((p >>= f) >>= g) = (p >>= fun a => f a >>= g) := by
  funext s
  simp only [sop_bind_eq, SOp.bind]
  rcases hp : p s with ⟨s1, _ | a⟩ <;> simp

theorem Ref.congr {s s' : SOp R α} {p p' : Dec R α} (h : Ref s p) (hs : s = s') (hp : p = p') : Ref s' p' := by
  subst hs; subst hp; exact h

/-- the anycast block of `load_address` -/
def anycastBlock : SOp R (Option (Nat × Int)) := do
  let any ← loadBit
  (if any then do
      let depth ← loadUint 5
      if depth < 1 then SOp.fail else do
        let pfx ← loadUint depth.toNat
        return some (depth.toNat, pfx)
    else return none)

theorem ref_anycast : Ref (anycastBlock : SOp R (Option (Nat × Int))) (dMaybe dAnycast) := by
  unfold anycastBlock dMaybe
  refine Ref.bind ref_loadBit (fun any => ?_)
  cases any with
  | false => simp only [Bool.false_eq_true, if_false]; exact Ref.ret none
  | true =>
    simp only [if_true]
    unfold dAnycast
    rw [dec_bind_assoc]
    refine Ref.bindP (fun d => 0 ≤ d) (dUint_nonneg 5) (ref_loadUint 5 (by omega)) (fun d hd => ?_)
    by_cases hc : d < 1 ∨ d > 30
    · simp only [hc, if_true, dec_fail_bind]; exact Ref.fail _
    · have h1 : ¬ d < 1 := by omega
      have h30 : ¬ d > 30 := by omega
      simp only [h1, h30, or_self, if_false]
      rw [dec_bind_assoc]
      refine Ref.bind (ref_loadUint d.toNat (by omega)) (fun p => ?_)
      rw [dec_pure_bind]
      exact Ref.ret _

theorem loadAddress_eq : (loadAddress : SOp R Addr) = (do
    let tag ← loadUint 2
    if tag = 0 then return Addr.none
    else if tag = 1 then do
      let len ← loadUint 9
      if len = 0 then return Addr.ext 0 0
      else do
        let v ← loadUint len.toNat
        return Addr.ext len.toNat v
    else do
      let anycast ← anycastBlock
      if tag = 2 then do
        let wc ← loadInt 8
        let h ← loadBytes 32
        return Addr.std anycast wc h
      else SOp.fail) := by
  unfold loadAddress anycastBlock
  congr 1; funext tag
  split
  · rfl
  · split
    · rfl
    · rw [sop_bind_assoc]

theorem dUint2 (t0 t1 : Bool) (rest : Bits) (r : List R) :
    dUint 2 (t0 :: t1 :: rest, r) = some ((natOfBits [t0, t1] : Int), (rest, r)) := by
  have : ¬ (rest.length + 1 + 1 < 2) := by omega
  simp [dUint, dec_bind_eq, Dec.bind, dBits, dec_pure_eq, Dec.pure, this]

theorem ref_loadAddress : Ref (loadAddress : SOp R Addr) dAddr := by
  intro b r a c' h
  match b, h with
  | [], h => simp [dAddr, dec_bind_eq, Dec.bind, dBool] at h
  | [x], h => simp [dAddr, dec_bind_eq, Dec.bind, dBool] at h
  | t0 :: t1 :: rest, h =>
    have htag := ref_loadUint (R := R) 2 (by omega) _ _ _ _ (dUint2 t0 t1 rest r)
    rw [loadAddress_eq]
    simp only [sop_bind_eq, SOp.bind, htag]
    simp only [dAddr, dec_bind_eq, Dec.bind, dBool] at h
    cases t0 <;> cases t1
    · -- 00
      simp only [Bool.not_false, if_true, dec_pure_eq, Dec.pure, Option.some.injEq, Prod.mk.injEq] at h
      obtain ⟨rfl, rfl⟩ := h
      simp [natOfBits, sop_pure_eq, SOp.pure]
    · -- 01
      simp only [Bool.not_false, Bool.not_true, if_true, Bool.false_eq_true, if_false] at h
      have h1 : ((natOfBits [false, true] : Nat) : Int) = 1 := by simp [natOfBits]
      simp only [h1]
      have key : Ref (do
          let len ← loadUint 9
          if len = 0 then return Addr.ext 0 0
          else do
            let v ← loadUint len.toNat
            return Addr.ext len.toNat v : SOp R Addr)
          (do
            let len ← dUint 9
            let v ← dUint len.toNat
            Pure.pure (Addr.ext len.toNat v)) := by
        refine Ref.bindP (fun d => 0 ≤ d) (dUint_nonneg 9) (ref_loadUint 9 (by omega)) (fun len hlen => ?_)
        by_cases h0 : len = 0
        · subst h0
          simp only [if_true, Int.toNat_zero]
          intro b r a c' h
          simp only [dec_bind_eq, Dec.bind] at h
          rcases hp : (dUint 0 (b, r) : Option (Int × Chunk R)) with _ | ⟨v, c1⟩
          · simp [hp] at h
          · obtain ⟨rfl, rfl⟩ := dUint0 b r v c1 hp
            simp only [hp, dec_pure_eq, Dec.pure, Option.some.injEq, Prod.mk.injEq] at h
            obtain ⟨rfl, rfl⟩ := h
            simp [sop_pure_eq, SOp.pure]
        · simp only [h0, if_false]
          exact Ref.bind (ref_loadUint _ (by omega)) (fun v => Ref.ret _)
      have := key rest r a c' h
      simpa [sop_bind_eq, SOp.bind] using this
    · -- 10
      simp only [Bool.not_false, Bool.not_true, if_true, Bool.false_eq_true, if_false] at h
      have h2 : ((natOfBits [true, false] : Nat) : Int) = 2 := by simp [natOfBits]
      simp only [h2]
      have key : Ref (do
          let anycast ← anycastBlock
          let wc ← loadInt 8
          let h ← loadBytes 32
          return Addr.std anycast wc h : SOp R Addr)
          (do
            let any ← dMaybe dAnycast
            let wc ← dInt 8
            let h ← dBits 256
            Pure.pure (Addr.std any wc (bitsToBytes h))) :=
        Ref.bind ref_anycast (fun any => Ref.bind (ref_loadInt 8 (by omega)) (fun wc => ref_loadBytes32 _))
      have := key rest r a c' h
      simpa [sop_bind_eq, SOp.bind] using this
    · -- 11
      simp [Dec.fail] at h


/-! the header, the message -/

theorem ref_infoInt : Ref (do
      let a ← loadBit
      let b ← loadBit
      let c ← loadBit
      let src ← loadAddress
      let dest ← loadAddress
      let value ← loadCurrency
      let ihr ← loadCoins
      let fwd ← loadCoins
      let lt ← loadUint 64
      let at_ ← loadUint 32
      return Info.int a b c src dest value ihr fwd lt at_ : SOp R (Info R))
    (do
      let a ← dBool
      let b ← dBool
      let c ← dBool
      let src ← dAddr
      let dest ← dAddr
      let value ← dCurrency
      let ihr ← dGrams
      let fwd ← dGrams
      let lt ← dUint 64
      let at_ ← dUint 32
      Pure.pure (Info.int a b c src dest value ihr fwd lt at_)) :=
  Ref.bind ref_loadBit fun _ => Ref.bind ref_loadBit fun _ => Ref.bind ref_loadBit fun _ =>
  Ref.bind ref_loadAddress fun _ => Ref.bind ref_loadAddress fun _ => Ref.bind ref_loadCurrency fun _ =>
  Ref.bind ref_loadCoins fun _ => Ref.bind ref_loadCoins fun _ => Ref.bind (ref_loadUint 64 (by omega)) fun _ =>
  Ref.bind (ref_loadUint 32 (by omega)) fun _ => Ref.ret _

theorem ref_infoExtIn : Ref (do
      let src ← loadAddress
      let dest ← loadAddress
      let fee ← loadCoins
      return Info.extIn src dest fee : SOp R (Info R))
    (do
      let src ← dAddr
      let dest ← dAddr
      let fee ← dGrams
      Pure.pure (Info.extIn src dest fee)) :=
  Ref.bind ref_loadAddress fun _ => Ref.bind ref_loadAddress fun _ => Ref.bind ref_loadCoins fun _ => Ref.ret _

theorem ref_infoExtOut : Ref (do
      let src ← loadAddress
      let dest ← loadAddress
      let lt ← loadUint 64
      let at_ ← loadUint 32
      return Info.extOut src dest lt at_ : SOp R (Info R))
    (do
      let src ← dAddr
      let dest ← dAddr
      let lt ← dUint 64
      let at_ ← dUint 32
      Pure.pure (Info.extOut src dest lt at_)) :=
  Ref.bind ref_loadAddress fun _ => Ref.bind ref_loadAddress fun _ => Ref.bind (ref_loadUint 64 (by omega)) fun _ =>
  Ref.bind (ref_loadUint 32 (by omega)) fun _ => Ref.ret _

theorem dBool_cons (x : Bool) (t : Bits) (r : List R) : (dBool (x :: t, r) : Option (Bool × Chunk R)) = some (x, (t, r)) := rfl
theorem loadBit_cons (x : Bool) (t : Bits) (r : List R) : (loadBit ⟨x :: t, r⟩ : Slice R × Option Bool) = (⟨t, r⟩, some x) := rfl
theorem preloadBit_cons (x : Bool) (t : Bits) (r : List R) : (preloadBit ⟨x :: t, r⟩ : Slice R × Option Bool) = (⟨x :: t, r⟩, some x) := rfl
theorem peekBits2_cons (x y : Bool) (t : Bits) (r : List R) :
    (peekBits 2 ⟨x :: y :: t, r⟩ : Slice R × Option Bits) = (⟨x :: y :: t, r⟩, some [x, y]) := rfl
theorem loadBits2_cons (x y : Bool) (t : Bits) (r : List R) :
    (loadBits 2 ⟨x :: y :: t, r⟩ : Slice R × Option Bits) = (⟨t, r⟩, some [x, y]) := by
  have : ¬ (t.length + 1 + 1 < 2) := by omega
  simp [loadBits, peekBits, delBits, sop_bind_eq, SOp.bind, sop_pure_eq, SOp.pure, this]

theorem ref_loadInfo : Ref (loadInfo : SOp R (Info R)) dInfo := by
  intro b r a c' h
  match b, h with
  | [], h => simp [dInfo, dec_bind_eq, Dec.bind, dBool] at h
  | false :: rest, h =>
    simp only [dInfo, dec_bind_eq, Dec.bind, dBool_cons, Bool.not_false, if_true] at h
    have := ref_infoInt rest r a c' h
    simp only [loadInfo, loadInfoInt, sop_bind_eq, SOp.bind, preloadBit_cons, loadBit_cons, Bool.not_false, if_true,
      Bool.false_eq_true, if_false]
    exact this
  | [true], h => simp [dInfo, dec_bind_eq, Dec.bind, dBool] at h
  | true :: false :: rest, h =>
    simp only [dInfo, dec_bind_eq, Dec.bind, dBool_cons, Bool.not_true, Bool.false_eq_true, if_false, Bool.not_false, if_true] at h
    have := ref_infoExtIn rest r a c' h
    simp only [loadInfo, loadInfoExtIn, sop_bind_eq, SOp.bind, preloadBit_cons, peekBits2_cons, loadBits2_cons, Bool.not_true,
      Bool.false_eq_true, if_false, beq_self_eq_true, if_true, bne_self_eq_false]
    exact this
  | true :: true :: rest, h =>
    simp only [dInfo, dec_bind_eq, Dec.bind, dBool_cons, Bool.not_true, Bool.false_eq_true, if_false] at h
    have := ref_infoExtOut rest r a c' h
    have hne : ([true, true] == [true, false]) = false := by decide
    simp only [loadInfo, loadInfoExtOut, sop_bind_eq, SOp.bind, preloadBit_cons, peekBits2_cons, loadBits2_cons, Bool.not_true,
      Bool.false_eq_true, if_false, hne, bne_self_eq_false]
    exact this

/-- agreement on the returned value only (the state after the last step is not observed) -/
def RefV (s : SOp R α) (p : Dec R α) : Prop :=
  ∀ (b : Bits) (r : List R) (a : α) (c' : Chunk R), p (b, r) = some (a, c') → (s ⟨b, r⟩).2 = some a

theorem RefV.bind {s : SOp R α} {p : Dec R α} {sf : α → SOp R β} {pf : α → Dec R β}
    (h1 : Ref s p) (h2 : ∀ a, RefV (sf a) (pf a)) : RefV (s >>= sf) (p >>= pf) := by
  intro b r a c' h
  simp only [dec_bind_eq, Dec.bind] at h
  rcases hp : p (b, r) with _ | ⟨a1, c1⟩
  · simp [hp] at h
  · simp only [hp] at h
    have e1 := h1 b r a1 c1 hp
    have e2 := h2 a1 c1.1 c1.2 a c' h
    simp only [sop_bind_eq, SOp.bind, e1]
    exact e2

theorem Ref.toV {s : SOp R α} {p : Dec R α} (h : Ref s p) : RefV s p := by
  intro b r a c' hp; rw [h b r a c' hp]

theorem decodeWhole_some {p : Dec R α} {c : Chunk R} {a : α} (h : decodeWhole p c = some a) : p c = some (a, ([], [])) := by
  unfold decodeWhole at h
  split at h
  · rename_i a' heq; simp at h; subst h; exact heq
  · simp at h

/-- the init part of `MessageAny.deserialize` -/
def initBlock (ops : CellOps R) : SOp R (Option (StateInit R)) := do
  let maybe ← loadBit
  (if maybe then do
      let either ← loadBit
      if either then do
        let r ← loadRef
        let v := ops.view r
        let s ← ofOption ((loadStateInit ⟨v.1, v.2⟩).2)
        return some s
      else do
        let s ← loadStateInit
        return some s
    else return none)

theorem ref_initBlock (ops : CellOps R) : Ref (initBlock ops) (dInit ops) := by
  unfold initBlock dInit dMaybe
  refine Ref.bind ref_loadBit (fun mb => ?_)
  cases mb with
  | false => simp only [Bool.false_eq_true, if_false]; exact Ref.ret none
  | true =>
    simp only [if_true]
    rw [dec_bind_assoc]
    refine Ref.bind ref_loadBit (fun e => ?_)
    cases e with
    | false =>
      simp only [Bool.false_eq_true, if_false]
      exact Ref.bind ref_loadStateInit (fun s => Ref.ret _)
    | true =>
      simp only [if_true]
      rw [dec_bind_assoc]
      refine Ref.bind ref_loadRef (fun r => ?_)
      intro b rr a c' h
      simp only [dec_bind_eq, Dec.bind] at h
      rcases hd : decodeWhole dStateInit (ops.view r) with _ | s
      · simp [hd] at h
      · simp only [hd, Option.map_some, dec_pure_eq, Dec.pure, Option.some.injEq, Prod.mk.injEq] at h
        obtain ⟨rfl, rfl⟩ := h
        have h1 := decodeWhole_some hd
        have h2 := ref_loadStateInit (ops.view r).1 (ops.view r).2 s ([], []) (by simpa using h1)
        simp [sop_bind_eq, SOp.bind, ofOption, h2, sop_pure_eq, SOp.pure]

theorem loadMessage_eq (ops : CellOps R) : loadMessage ops = (do
    let info ← loadInfo
    let init ← initBlock ops
    let either ← loadBit
    if either then do
      let r ← loadRef
      return ⟨info, init, ops.view r⟩
    else fun s => (s, some ⟨info, init, (s.bits, s.refs)⟩)) := by
  unfold loadMessage initBlock
  congr 1; funext info
  rw [sop_bind_assoc]

theorem refV_loadMessage (ops : CellOps R) : RefV (loadMessage ops) (dMessage ops) := by
  rw [loadMessage_eq]
  unfold dMessage
  refine RefV.bind ref_loadInfo (fun info => RefV.bind (ref_initBlock ops) (fun init => RefV.bind ref_loadBit (fun e => ?_)))
  cases e with
  | true =>
    simp only [if_true]
    exact (Ref.bind ref_loadRef (fun r => Ref.ret _)).toV
  | false =>
    simp only [Bool.false_eq_true, if_false]
    intro b r a c' h
    simp only [Option.some.injEq, Prod.mk.injEq] at h
    rw [← h.1]

/-- **own parser = spec decoder on valid encodings** -/
theorem own_parser (ops : CellOps R) (c : R) (m : Msg R) (h : decodeMessage ops c = some m) :
    Message.deserialize ops c = some m := by
  have h1 := decodeWhole_some h
  have := refV_loadMessage ops (ops.view c).1 (ops.view c).2 m ([], []) (by simpa using h1)
  simpa [Message.deserialize] using this

theorem own_parser_stateInit (ops : CellOps R) (c : R) (s : StateInit R) (h : decodeStateInit ops c = some s) :
    Message.deserializeStateInit ops c = some s := by
  have h1 := decodeWhole_some h
  have := ref_loadStateInit (ops.view c).1 (ops.view c).2 s ([], []) (by simpa using h1)
  simp [Message.deserializeStateInit, this]

theorem own_parser_currency (ops : CellOps R) (c : R) (v : Currency R) (h : decodeCurrency ops c = some v) :
    Message.deserializeCurrency ops c = some v := by
  have h1 := decodeWhole_some h
  have := ref_loadCurrency (ops.view c).1 (ops.view c).2 v ([], []) (by simpa using h1)
  simp [Message.deserializeCurrency, this]

end TonVerif.Proofs.Message
