/-
Meaning of the Python built-ins that the dict / while-loop extension of the object-program translator
(harness/translate/pydict.py) emits calls to, in addition to PyBytes.lean / PyInt.lean / PyObj.lean.  Hand-written, core Lean
only.  This is the translator's TRUSTED READING of

* a Python `dict` / `set` whose keys are objects with user-defined `__hash__` / `__eq__`: an insertion-ordered association
  list; two objects are the same key iff `key a = key b`, where `key : α → Nat` is the declared reading of the class's
  `__hash__` / `__eq__` pair (for `Cell`: `int.from_bytes(self._hash, 'big')`, `Model.PCell.key`).  `d[k] = v` on a present key
  keeps the stored key object and its position and replaces the value; on an absent key it appends.  `d.pop(k)` removes the
  entry (KeyError = `none`).  Iterating a dict yields the stored key objects in insertion order.
* `list.pop()` (last element; IndexError on an empty list = `none`), `list.append(x)` = `xs ++ [x]`.
* `while c: body` with an explicit iteration budget: `while? fuel` runs at most `fuel - 1` iterations and needs one more
  unit to see the condition fail; `none` = the body raised OR the budget ran out.  (The caller proves a budget sufficient.)

Validated against CPython on every change (harness/translate/bocemit.py `validate`).
-/
import TonVerif.Basic

namespace TonVerif.Py

/-- a dict with object keys: entries in insertion order -/
abbrev KDict (α V : Type) := List (α × V)

/-- a set of objects: elements in insertion order -/
abbrev KSet (α : Type) := List α

variable {α V σ : Type}

/-- `k in d` -/
def dictHas (key : α → Nat) (d : KDict α V) (k : α) : Bool := d.any (fun e => key e.1 == key k)

/-- `d[k]` (KeyError = `none`) -/
def dictGet? (key : α → Nat) (d : KDict α V) (k : α) : Option V := (d.find? (fun e => key e.1 == key k)).map (·.2)

/-- `d[k] = v` -/
def dictSet (key : α → Nat) (d : KDict α V) (k : α) (v : V) : KDict α V :=
  if dictHas key d k then d.map (fun e => if key e.1 == key k then (e.1, v) else e) else d ++ [(k, v)]

/-- `d.pop(k)` as a statement (KeyError = `none`) -/
def dictPop? (key : α → Nat) (d : KDict α V) (k : α) : Option (KDict α V) :=
  if dictHas key d k then some (d.filter (fun e => key e.1 != key k)) else none

/-- `list(d)` / `for k in d` -/
def dictKeys (d : KDict α V) : List α := d.map (·.1)

/-- `x in s` -/
def setHas (key : α → Nat) (s : KSet α) (k : α) : Bool := s.any (fun e => key e == key k)

/-- `s.add(x)` -/
def setAdd (key : α → Nat) (s : KSet α) (k : α) : KSet α := if setHas key s k then s else s ++ [k]

/-- `xs.pop()`: (the list without its last element, the last element); IndexError = `none` -/
def listPop? (xs : List α) : Option (List α × α) :=
  match xs.getLast? with
  | none => none
  | some x => some (xs.dropLast, x)

/-- `while cond(s): s = body(s)` with an iteration budget -/
def while? (cond : σ → Bool) (body : σ → Option σ) : Nat → σ → Option σ
  | 0, _ => none
  | fuel + 1, s => if cond s then (body s).bind (while? cond body fuel) else some s

end TonVerif.Py
