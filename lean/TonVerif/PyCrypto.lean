/-
Meaning of the Python / library operations that the glue-code translator (harness/translate/pyprims.py with the declared
interface of harness/translate/adnlsrc.py) emits calls to, in addition to PyBytes.lean / PyInt.lean.  Hand-written, core Lean
only.  This is the translator's trusted reading of `<` on `bytes` and of the ARGUMENT CHECK of pycryptodome's
`AES.new(key, AES.MODE_CTR, initial_value=iv, nonce=b'')`; both are validated against CPython / pycryptodomex on every change
(harness/translate/adnlsrc.py `validate`).  The cryptographic functions themselves are never defined: they are the fields of
`Model.Adnl.Prims` (parameters).
-/
import TonVerif.Basic

namespace TonVerif.Py

/-- Python `a < b` on `bytes`: lexicographic on unsigned byte values, a proper prefix is smaller.
(`a > b` is `bytesLt b a`, `a <= b` is `¬ bytesLt b a`, `a >= b` is `¬ bytesLt a b`.) -/
def bytesLt : Bytes → Bytes → Bool
  | [], [] => false
  | [], _ :: _ => true
  | _ :: _, [] => false
  | x :: xs, y :: ys => if x < y then true else if y < x then false else bytesLt xs ys

/-- `AES.new(key, AES.MODE_CTR, initial_value=iv, nonce=b'')` with `iv : bytes`: ValueError (`none`) unless the key has 16, 24 or
32 bytes and the initial counter value exactly 16 (block size minus the empty nonce); otherwise a fresh cipher object, represented
by the pair (key, initial counter) — what its single `encrypt` / `decrypt` call computes is the parameter `Prims.ctr`. -/
def aesCtrNew? (key iv : Bytes) : Option (Bytes × Bytes) :=
  if (key.length = 16 ∨ key.length = 24 ∨ key.length = 32) ∧ iv.length = 16 then some (key, iv) else none

end TonVerif.Py
