/-
Spec: TON cell representation, level masks, per-level hashes and depths
(tvm.pdf §3.1.4–3.1.7; ton/crypto/vm/cells/DataCell.cpp, LevelMask).

The per-level hash is written as a recursion on the LEVEL (not on a hash index):

  hashAt c 0     = H(d1(0) d2 ++ data ++ depths(children, 0+μ) ++ hashes(children, 0+μ))
  hashAt c (l+1) = if bit l of mask(c) then
                     H(d1(mask mod 2^(l+1)) d2 ++ hashAt c l ++ depths(children, l+1+μ) ++ hashes(children, l+1+μ))
                   else hashAt c l                        (μ = 1 for Merkle cells, else 0)
  pruned branch: hashAt c l = H(d1(mask) d2 ++ data)                 if popcount(mask mod 2^l) = popcount(mask)
                            = data[2+32·i .. 2+32·(i+1)), i = popcount(mask mod 2^l)    otherwise
  depthAt likewise (pruned: own depth 0, stored depths after the stored hashes).

`H` is an abstract hash function.
-/
import TonVerif.Basic
namespace TonVerif.Spec

/-- number of one bits -/
def popcount : Nat → Nat
  | 0 => 0
  | n+1 => (n+1) % 2 + popcount ((n+1) / 2)
decreasing_by omega

/-- d1 = r + 8·s + 32·l  (l given as a level MASK, as on the wire) -/
def d1 (r : Nat) (exotic : Bool) (mask : Nat) : Nat := r + 8 * (if exotic then 1 else 0) + 32 * mask

/-- d2 = ⌊b/8⌋ + ⌈b/8⌉ -/
def d2 (b : Nat) : Nat := b / 8 + (b + 7) / 8

/-- data with the completion tag: if not byte aligned, a 1 bit then 0 bits up to the byte boundary. -/
def padBits (bits : Bits) : Bits :=
  if bits.length % 8 = 0 then bits
  else bits ++ [true] ++ List.replicate (7 - bits.length % 8) false

def dataBytes (bits : Bits) : Bytes := bitsToBytes (padBits bits)

/-- big-endian 2-byte depth -/
def be2 (d : Nat) : Bytes := [d / 256 % 256, d % 256]

/-- spec view of an already evaluated cell: its level mask and hash/depth at every level. -/
structure SInfo where
  mask : Nat
  hashAt : Nat → Bytes
  depthAt : Nat → Nat

inductive Kind where
  | ordinary | pruned | library | merkleProof | merkleUpdate
  deriving DecidableEq, Repr

def Kind.isExotic : Kind → Bool
  | .ordinary => false
  | _ => true

/-- μ : Merkle cells look at their children one level higher -/
def Kind.mu : Kind → Nat
  | .merkleProof => 1
  | .merkleUpdate => 1
  | _ => 0

/-- level mask of a cell from its kind, data and children -/
def nodeMask (k : Kind) (bits : Bits) (kids : List SInfo) : Nat :=
  match k with
  | .ordinary => kids.foldl (fun m c => m ||| c.mask) 0
  | .pruned => natOfBits ((bits.drop 8).take 8)
  | .library => 0
  | .merkleProof => (kids.foldl (fun m c => m ||| c.mask) 0) / 2
  | .merkleUpdate => (kids.foldl (fun m c => m ||| c.mask) 0) / 2

def maxList (xs : List Nat) : Nat := xs.foldl Nat.max 0

/-- depth of a non-pruned cell at child level `cl` -/
def depthOver (kids : List SInfo) (cl : Nat) : Nat :=
  if kids.isEmpty then 0 else 1 + maxList (kids.map (fun c => c.depthAt cl))

def childPart (kids : List SInfo) (cl : Nat) : Bytes :=
  (kids.map (fun c => be2 (c.depthAt cl))).flatten ++ (kids.map (fun c => c.hashAt cl)).flatten

/-- hash of a non-pruned cell at level l -/
def plainHashAt (H : Bytes → Bytes) (k : Kind) (bits : Bits) (kids : List SInfo) (mask : Nat) : Nat → Bytes
  | 0 => H ([d1 kids.length k.isExotic 0, d2 bits.length] ++ dataBytes bits ++ childPart kids (0 + k.mu))
  | l+1 =>
    if mask.testBit l then
      H ([d1 kids.length k.isExotic (mask % 2 ^ (l+1)), d2 bits.length]
          ++ plainHashAt H k bits kids mask l ++ childPart kids (l + 1 + k.mu))
    else plainHashAt H k bits kids mask l

def plainDepthAt (k : Kind) (kids : List SInfo) (mask : Nat) : Nat → Nat
  | 0 => depthOver kids (0 + k.mu)
  | l+1 => if mask.testBit l then depthOver kids (l + 1 + k.mu) else plainDepthAt k kids mask l

def prunedHashAt (H : Bytes → Bytes) (bits : Bits) (mask : Nat) (l : Nat) : Bytes :=
  let i := popcount (mask % 2 ^ l)
  if i = popcount mask then H ([d1 0 true mask, d2 bits.length] ++ dataBytes bits)
  else ((dataBytes bits).take (2 + 32 * (i + 1))).drop (2 + 32 * i)

def prunedDepthAt (bits : Bits) (mask : Nat) (l : Nat) : Nat :=
  let i := popcount (mask % 2 ^ l)
  if i = popcount mask then 0
  else
    let off := 2 + 32 * popcount mask + 2 * i
    natOfBE (((dataBytes bits).take (off + 2)).drop off)

/-- spec values of a cell given the spec values of its children -/
def node (H : Bytes → Bytes) (k : Kind) (bits : Bits) (kids : List SInfo) : SInfo :=
  let mask := nodeMask k bits kids
  match k with
  | .pruned => { mask := mask, hashAt := prunedHashAt H bits mask, depthAt := prunedDepthAt bits mask }
  | _ => { mask := mask, hashAt := plainHashAt H k bits kids mask, depthAt := plainDepthAt k kids mask }

/-- the representation hash (hash at the highest level) and depth of a cell -/
def SInfo.hash (s : SInfo) : Bytes := s.hashAt 3
def SInfo.depth (s : SInfo) : Nat := s.depthAt 3

end TonVerif.Spec
