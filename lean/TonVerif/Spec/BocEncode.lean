/-
Spec: a CONFORMING BAG-OF-CELLS ENCODER WITH ALL FREEDOMS, transcribed from `boc.tlb`

  serialized_boc_idx#68ff65f3 size:(## 8) { size <= 4 } off_bytes:(## 8) { off_bytes <= 8 }
    cells:(##(size * 8)) roots:(##(size * 8)) { roots = 1 } absent:(##(size * 8)) { roots + absent <= cells }
    tot_cells_size:(##(off_bytes * 8)) index:(cells * ##(off_bytes * 8)) cell_data:(tot_cells_size * [ uint8 ])
  serialized_boc_idx_crc32c#acc3a728  … the same … crc32c:uint32
  serialized_boc#b5ee9c72 has_idx:(## 1) has_crc32c:(## 1) has_cache_bits:(## 1) flags:(## 2) { flags = 0 }
    size:(## 3) { size <= 4 } off_bytes:(## 8) { off_bytes <= 8 } cells:(##(size * 8)) roots:(##(size * 8)) { roots >= 1 }
    absent:(##(size * 8)) { roots + absent <= cells } tot_cells_size:(##(off_bytes * 8))
    root_list:(roots * ##(size * 8)) index:has_idx?(cells * ##(off_bytes * 8))
    cell_data:(tot_cells_size * [ uint8 ]) crc32c:has_crc32c?uint32

and from the cell record layout of the reference node (`DataCell::serialize`, `CellSerializationInfo`):
  d1 = refs + 8·exotic + 16·with_hashes + 32·level_mask,  d2 = ⌊bits/8⌋ + ⌈bits/8⌉,
  [with_hashes: (popcount(mask)+1) hashes of 32 bytes, then as many 2-byte depths],
  data with completion tag, then one `size`-byte big-endian index per reference (strictly forward).
Index entry k = offset of the END of record k in cell_data (with cache bits: `2·offset + should_cache`).
The CRC is CRC-32C (Spec/Crc.lean) of everything before it, little-endian.

FREEDOMS an encoder has (all in `Freedoms`, or in the arguments): which of the three constructors, any
`size` that can hold `cells` (≤ 4), any `off_bytes` that can hold the offsets (≤ 8), index or not, CRC or not,
cache bits and the per-cell cache bit, per-cell stored hashes, one or several roots at any positions, and the
cell order: the argument `cells` is ANY listing in which references point strictly forward.
-/
import TonVerif.Basic
import TonVerif.Spec.Crc
import TonVerif.Spec.Cell
import TonVerif.Model.Cell

namespace TonVerif.Spec.BocEncode
open TonVerif

inductive Magic where
  | generic      -- b5ee9c72
  | idx          -- 68ff65f3
  | idxCrc       -- acc3a728
  deriving DecidableEq, Repr

def Magic.bytes : Magic → Bytes
  | .generic => [0xb5, 0xee, 0x9c, 0x72]
  | .idx => [0x68, 0xff, 0x65, 0xf3]
  | .idxCrc => [0xac, 0xc3, 0xa7, 0x28]

/-- one cell of the listing: its content, references as positions in the listing, and what `with_hashes` stores. -/
structure SCell where
  kind : Int                 -- -1 ordinary; otherwise the exotic type (= first data byte, signed)
  bits : Bits
  refs : List Nat
  mask : Nat                 -- level mask (3 bits of d1)
  hashes : List Bytes        -- the popcount(mask)+1 hashes stored when `with_hashes`
  depths : List Nat          -- the popcount(mask)+1 depths
  deriving Repr, DecidableEq

structure Freedoms where
  magic : Magic
  size : Nat
  offBytes : Nat
  hasIdx : Bool              -- generic constructor only (the two legacy ones always carry an index)
  hasCrc : Bool              -- generic constructor only (legacy: decided by the magic)
  hasCacheBits : Bool        -- generic constructor only
  storeHashes : List Bool    -- per position: d1 bit 16 (missing entries = false)
  cacheFlags : List Bool     -- per position: the should_cache bit of the index entry (missing = false)
  deriving Repr, DecidableEq

def Freedoms.withIdx (fr : Freedoms) : Bool := match fr.magic with | .generic => fr.hasIdx | _ => true
def Freedoms.withCrc (fr : Freedoms) : Bool :=
  match fr.magic with | .generic => fr.hasCrc | .idx => false | .idxCrc => true
def Freedoms.withCache (fr : Freedoms) : Bool := match fr.magic with | .generic => fr.hasCacheBits | _ => false

/-- number of ones -/
abbrev popcount := Spec.popcount

/-- the stored hashes/depths block of a record. -/
def hashBlock (c : SCell) : Bytes := c.hashes.flatten ++ c.depths.flatMap (natToBE 2)

/-- one cell record. -/
def encodeCell (size : Nat) (c : SCell) (store : Bool) : Bytes :=
  [c.refs.length + 8 * (if c.kind = -1 then 0 else 1) + 16 * (if store then 1 else 0) + 32 * c.mask, Spec.d2 c.bits.length]
    ++ (if store then hashBlock c else [])
    ++ Spec.dataBytes c.bits
    ++ c.refs.flatMap (natToBE size)

/-- all records in listing order (position `base` onwards). -/
def records (size : Nat) (store : List Bool) : List SCell → Nat → List Bytes
  | [], _ => []
  | c :: cs, base => encodeCell size c (store.getD base false) :: records size store cs (base + 1)

/-- end offsets of the records. -/
def endOffsets : List Bytes → Nat → List Nat
  | [], _ => []
  | r :: rs, acc => (acc + r.length) :: endOffsets rs (acc + r.length)

/-- index entries. -/
def indexEntries (cache : Bool) (cacheFlags : List Bool) : List Nat → Nat → List Nat
  | [], _ => []
  | e :: es, k =>
    (if cache then 2 * e + (if cacheFlags.getD k false then 1 else 0) else e) :: indexEntries cache cacheFlags es (k + 1)

/-- CRC-32C, little-endian, of a byte string. -/
def crcBytes (body : Bytes) : Bytes := (le32 (crc32c (body.map (BitVec.ofNat 8)))).map BitVec.toNat

/-- everything before the CRC. -/
def encodeBody (fr : Freedoms) (cells : List SCell) (roots : List Nat) : Bytes :=
  let recs := records fr.size fr.storeHashes cells 0
  let cellData := recs.flatten
  let index := (indexEntries fr.withCache fr.cacheFlags (endOffsets recs 0) 0).flatMap (natToBE fr.offBytes)
  let counts := natToBE fr.size cells.length ++ natToBE fr.size roots.length ++ natToBE fr.size 0
      ++ natToBE fr.offBytes cellData.length
  match fr.magic with
  | .generic =>
    fr.magic.bytes
      ++ [128 * (if fr.hasIdx then 1 else 0) + 64 * (if fr.hasCrc then 1 else 0) + 32 * (if fr.hasCacheBits then 1 else 0) + fr.size]
      ++ [fr.offBytes] ++ counts
      ++ roots.flatMap (natToBE fr.size)
      ++ (if fr.hasIdx then index else [])
      ++ cellData
  | _ => fr.magic.bytes ++ [fr.size] ++ [fr.offBytes] ++ counts ++ index ++ cellData

/-- THE ENCODER. -/
def encodeWith (fr : Freedoms) (cells : List SCell) (roots : List Nat) : Bytes :=
  let body := encodeBody fr cells roots
  if fr.withCrc then body ++ crcBytes body else body

/-- a listing is well formed: ≤ 1023 bits, ≤ 4 references, all strictly forward and inside the listing,
an exotic cell starts with its type byte, 3-bit mask, stored hash block of the advertised shape. -/
def CellOK (n : Nat) (pos : Nat) (c : SCell) : Prop :=
  c.bits.length ≤ 1023 ∧ c.refs.length ≤ 4 ∧ (∀ r ∈ c.refs, pos < r ∧ r < n) ∧
  (c.kind ≠ -1 → 8 ≤ c.bits.length ∧ -128 ≤ c.kind ∧ c.kind < 128 ∧
      natOfBits (c.bits.take 8) = (c.kind % 256).toNat) ∧
  c.mask < 8 ∧ c.hashes.length = popcount c.mask + 1 ∧ (∀ h ∈ c.hashes, h.length = 32 ∧ Bytes.WF h) ∧
  c.depths.length = popcount c.mask + 1

def CellsOK (cells : List SCell) : Prop := ∀ pos (h : pos < cells.length), CellOK cells.length pos cells[pos]

/-- the choices are admissible for this listing and these roots. -/
def Valid (fr : Freedoms) (cells : List SCell) (roots : List Nat) : Prop :=
  CellsOK cells ∧
  1 ≤ fr.size ∧ fr.size ≤ 4 ∧ cells.length < 256 ^ fr.size ∧
  fr.offBytes ≤ 8 ∧
  (let tot := ((records fr.size fr.storeHashes cells 0).flatten).length
   (if fr.withCache ∧ fr.withIdx then 2 * tot + 1 else tot) < 256 ^ fr.offBytes) ∧
  (match fr.magic with
   | .generic => roots ≠ [] ∧ (∀ r ∈ roots, r < cells.length) ∧ roots.length < 256 ^ fr.size ∧ (fr.hasCacheBits → fr.hasIdx)
   | _ => roots = [0] ∧ 0 < cells.length)

/-- what a listing DENOTES: the cell at each position as a tree (children = the trees of the later positions it
refers to). `denoteFrom cs base` = trees of `cs`, which sits at positions `base …`. -/
def denoteFrom : List SCell → Nat → Option (List Model.Cell)
  | [], _ => some []
  | c :: cs, base =>
    (denoteFrom cs (base + 1)).bind fun later =>
    (c.refs.mapM (fun r => if r ≤ base then none else later[r - base - 1]?)).map fun kids =>
    Model.Cell.mk c.kind c.bits kids :: later

def denote (cells : List SCell) : Option (List Model.Cell) := denoteFrom cells 0

end TonVerif.Spec.BocEncode
