/-
Spec: TON dictionaries (hashmap.tlb, tvm.pdf §3.3; reference serialiser ton/crypto/vm/dict.cpp).

  hm_edge#_  {n:#} {X:Type} {l:#} {m:#} label:(HmLabel ~l n) {n = (~m) + l} node:(HashmapNode m X) = Hashmap n X;
  hmn_leaf#_ {X:Type} value:X = HashmapNode 0 X;
  hmn_fork#_ {n:#} {X:Type} left:^(Hashmap n X) right:^(Hashmap n X) = HashmapNode (n + 1) X;
  hml_short$0  {m:#} {n:#} len:(Unary ~n) {n <= m} s:(n * Bit) = HmLabel ~n m;
  hml_long$10  {m:#} n:(#<= m) s:(n * Bit) = HmLabel ~n m;
  hml_same$11  {m:#} v:Bit n:(#<= m) = HmLabel ~n m;
  ahm_edge#_ … label:(HmLabel ~l n) {n = (~m) + l} node:(HashmapAugNode m X Y) = HashmapAug n X Y;
  ahmn_leaf#_ extra:Y value:X = HashmapAugNode 0 X Y;
  ahmn_fork#_ left:^(HashmapAug n X Y) right:^(HashmapAug n X Y) extra:Y = HashmapAugNode (n + 1) X Y;

`#<= m` is an unsigned integer of ⌈log2(m+1)⌉ = bit_length(m) bits.  A *value* is whatever is left of
the leaf cell after the label: remaining bits and all references.  Cells are the trees of Model/Cell.lean
(kind −1 = ordinary, 1 = pruned branch whose first data byte is 0x01).
-/
import TonVerif.Model.Cell
namespace TonVerif.Spec.Hashmap
open TonVerif TonVerif.Model

inductive LabelKind where
  | short | long | same
  deriving Repr, DecidableEq

/-- width of a `#<= m` field -/
def lenBits (m : Nat) : Nat := bitLength m

/-- all bits of the label are equal (true for the empty and the one-bit label) -/
def allSame (s : Bits) : Bool := s.all (fun b => b == s.headD false)

/-- `LabelEnc m s k bits`: `bits` is a serialisation of label `s` as `HmLabel ~|s| m` using constructor `k`. -/
inductive LabelEnc (m : Nat) (s : Bits) : LabelKind → Bits → Prop where
  | short : s.length ≤ m →
      LabelEnc m s .short (false :: (List.replicate s.length true ++ false :: s))
  | long : s.length ≤ m →
      LabelEnc m s .long (true :: false :: (natToBits (lenBits m) s.length ++ s))
  | same (v : Bool) : s = List.replicate s.length v → s.length ≤ m →
      LabelEnc m s .same (true :: true :: v :: natToBits (lenBits m) s.length)

/-- `LabelBits m s k bits`: the bit pattern of the `HmLabel` constructor `k` for the label `s` under bound `m` WITHOUT the side
condition `{n <= m}` (the `#<= m` length field of hml_long / hml_same only has to be wide enough to hold `|s|`).
`LabelEnc m s k bits ↔ LabelBits m s k bits ∧ |s| ≤ m` (`Proofs/Hashmap.lean: labelEnc_iff_bits`); the patterns with
`|s| > m` are what a conforming parser must refuse. -/
inductive LabelBits (m : Nat) (s : Bits) : LabelKind → Bits → Prop where
  | short : LabelBits m s .short (false :: (List.replicate s.length true ++ false :: s))
  | long : s.length < 2 ^ lenBits m →
      LabelBits m s .long (true :: false :: (natToBits (lenBits m) s.length ++ s))
  | same (v : Bool) : s = List.replicate s.length v → s.length < 2 ^ lenBits m →
      LabelBits m s .same (true :: true :: v :: natToBits (lenBits m) s.length)

/-- encoded size in bits of a label of length `len` under bound `max` -/
def encLen (k : LabelKind) (len max : Nat) : Nat :=
  match k with
  | .short => 2 + 2 * len
  | .long => 2 + lenBits max + len
  | .same => 3 + lenBits max

/-- the reference choice (`append_dict_label` / `append_dict_label_same` in dict.cpp), with
`k = bit_length(max)`:  same iff the label is constant ∧ len > 1 ∧ k < 2·len − 1; else long iff k < len; else short. -/
def refLabelKind (len max : Nat) (same : Bool) : LabelKind :=
  let k := lenBits max
  if same ∧ len > 1 ∧ k < 2 * len - 1 then .same
  else if k < len then .long
  else .short

/-- can constructor `k` express a label of this shape at all -/
def kindAdmissible (k : LabelKind) (same : Bool) : Prop := k = .same → same = true

/-- a dictionary value: the rest of the leaf cell -/
abbrev Val := Bits × List Cell

def pre (p : Bits) (kv : Bits × α) : Bits × α := (p ++ kv.1, kv.2)

/-- `ValidHMK ok p n c kv`: cell `c` is a `Hashmap n X` whose leaves, left to right, are `kv`
(key = the `n` bits below this edge).  Every label may use ANY constructor that can express it, subject
to the extra policy `ok m s k` (`fun _ _ _ => True` for "any valid", the reference choice for "canonical").
With `p = true` any edge may have been replaced by a pruned-branch cell (contributing no leaves). -/
inductive ValidHMK (ok : Nat → Bits → LabelKind → Prop) : Bool → Nat → Cell → List (Bits × Val) → Prop where
  | leaf {p n s k lb vb vr} : LabelEnc n s k lb → ok n s k → s.length = n →
      ValidHMK ok p n (.mk (-1) (lb ++ vb) vr) [(s, (vb, vr))]
  | fork {p n m s k lb l r kvl kvr} : LabelEnc n s k lb → ok n s k → n = s.length + 1 + m →
      ValidHMK ok p m l kvl → ValidHMK ok p m r kvr →
      ValidHMK ok p n (.mk (-1) lb [l, r]) (kvl.map (pre (s ++ [false])) ++ kvr.map (pre (s ++ [true])))
  | pruned {n bits} : bits.take 8 = byteToBits 1 →
      ValidHMK ok true n (.mk 1 bits []) []

/-- spec-valid `Hashmap n X` with arbitrary label constructors, nothing pruned -/
abbrev ValidHashmap := ValidHMK (fun _ _ _ => True) false
/-- the same inside a Merkle proof: edges may be pruned branches -/
abbrev ValidHashmapPruned := ValidHMK (fun _ _ _ => True) true

def refPolicy (m : Nat) (s : Bits) (k : LabelKind) : Prop := k = refLabelKind s.length m (allSame s)

/-- the canonical tree: every label constructor is the reference choice.  (Labels are maximal common
prefixes automatically: every `Hashmap n X` subtree has at least one leaf, so both sides of a fork are non-empty.) -/
abbrev Canonical := ValidHMK refPolicy false

/-- deserialisers of the augmentation `Y` (consumes a prefix of the slice) and of the value `X` (reads the rest) -/
structure AugDec (X Y : Type) where
  decY : Val → Option (Y × Val)
  decX : Val → Option X

/-- `HashmapAug n X Y`; extras in the order leaf: own; fork: left subtree, right subtree, own. -/
inductive ValidAug {X Y : Type} (D : AugDec X Y) : Bool → Nat → Cell → List (Bits × X) → List Y → Prop where
  | leaf {p n s k lb rest refs y s' x} : LabelEnc n s k lb → s.length = n →
      D.decY (rest, refs) = some (y, s') → D.decX s' = some x →
      ValidAug D p n (.mk (-1) (lb ++ rest) refs) [(s, x)] [y]
  | fork {p n m s k lb rest l r refs kvl kvr el er y s'} : LabelEnc n s k lb → n = s.length + 1 + m →
      ValidAug D p m l kvl el → ValidAug D p m r kvr er →
      D.decY (rest, refs) = some (y, s') →
      ValidAug D p n (.mk (-1) (lb ++ rest) (l :: r :: refs))
        (kvl.map (pre (s ++ [false])) ++ kvr.map (pre (s ++ [true]))) (el ++ er ++ [y])
  | pruned {n kind bits refs} : kind ≠ -1 →
      ValidAug D true n (.mk kind bits refs) [] []

/-! ### executable encoder with a chosen constructor per edge (driver op `hmenc`) -/

/-- a dictionary tree with an explicit label constructor on every edge -/
inductive STree where
  | leaf (label : Bits) (k : LabelKind) (sameBit : Bool) (extra : Bits) (value : Bits) (vrefs : List Cell)
  | fork (label : Bits) (k : LabelKind) (sameBit : Bool) (extra : Bits) (l r : STree)
  | pruned (cell : Cell)       -- an already built pruned-branch cell

/-- label bits for the chosen constructor (`sameBit` = the `v` of `hml_same`, free when the label is empty) -/
def encLabel (m : Nat) (s : Bits) (k : LabelKind) (sameBit : Bool) : Bits :=
  match k with
  | .short => false :: (List.replicate s.length true ++ false :: s)
  | .long => true :: false :: (natToBits (lenBits m) s.length ++ s)
  | .same => true :: true :: (s.headD sameBit) :: natToBits (lenBits m) s.length

def STree.encode (n : Nat) : STree → Cell
  | .leaf s k v extra value vrefs => .mk (-1) (encLabel n s k v ++ extra ++ value) vrefs
  | .fork s k v extra l r =>
      let m := n - s.length - 1
      .mk (-1) (encLabel n s k v ++ extra) [l.encode m, r.encode m]
  | .pruned c => c

/-- leaves of the non-pruned part, keys relative to this edge -/
def STree.leaves : STree → List (Bits × Val)
  | .leaf s _ _ _ value vrefs => [(s, (value, vrefs))]
  | .fork s _ _ _ l r => l.leaves.map (pre (s ++ [false])) ++ r.leaves.map (pre (s ++ [true]))
  | .pruned _ => []

end TonVerif.Spec.Hashmap
