/-
TL-B primitive encodings as bit lists, transcribed from the TL-B rules (TON docs "TL-B language",
`block.tlb`), NOT from pytoniq-core.  Import-free (core Lean only).

A bit list is `List Bool`, first element = first bit in the cell.  Clauses transcribed:

  `## n` / `uint n`      n-bit big-endian unsigned integer
  `int n`                n-bit two's complement big-endian integer
  `bits n`               n raw bits
  `var_uint$_ {n:#} len:(#< n) value:(uint (len * 8)) = VarUInteger n;`
  `var_int$_  {n:#} len:(#< n) value:(int  (len * 8)) = VarInteger n;`     (len minimal, as written by
                         the reference implementation `store_var_integer` in crypto/block/block-parse.cpp)
  `nanograms$_ amount:(VarUInteger 16) = Grams;`                            (len field = 4 bits)
  `nothing$0 {X:Type} = Maybe X;   just$1 {X:Type} value:X = Maybe X;`
  `anycast_info$_ depth:(#<= 30) { depth >= 1 } rewrite_pfx:(bits depth) = Anycast;`
  `addr_none$00 = MsgAddressExt;`
  `addr_extern$01 len:(## 9) external_address:(bits len) = MsgAddressExt;`
  `addr_std$10 anycast:(Maybe Anycast) workchain_id:int8 address:bits256 = MsgAddressInt;`
  `hme_empty$0 / hme_root$1 root:^(Hashmap n X) = HashmapE n X;`           (= Maybe ^Cell at this level)
  snake data (TEP-64):  `tail#_ {bn:#} b:(bits bn) = SnakeData ~0;`
                        `cons#_ {bn:#} {n:#} b:(bits bn) next:^(SnakeData ~n) = SnakeData ~(n + 1);`
-/
namespace TonVerif.Spec.Tlb

abbrev Bits := List Bool

/-! ### fixed-width integers -/

/-- `uint n`: bit `i` from the left is the coefficient of `2^(n-1-i)` in `v`. -/
def uintBits : Nat → Nat → Bits
  | 0, _ => []
  | n+1, v => (v / 2 ^ n % 2 == 1) :: uintBits n v

/-- the number denoted by a big-endian bit string -/
def bitsVal : Bits → Nat
  | [] => 0
  | b :: bs => (if b then 2 ^ bs.length else 0) + bitsVal bs

/-- `v` is representable as `uint n` -/
def FitsUint (n : Nat) (v : Int) : Prop := 0 ≤ v ∧ v < (2 ^ n : Int)

/-- `v` is representable as `int n` (two's complement): `-2^(n-1) ≤ v < 2^(n-1)`, written so that it
also reads correctly for `n = 0` (only `v = 0`). -/
def FitsInt (n : Nat) (v : Int) : Prop := -(2 ^ n : Int) ≤ 2 * v ∧ 2 * v < (2 ^ n : Int)

/-- `int n`: two's complement = the `uint n` representation of `v mod 2^n`. -/
def intBits (n : Nat) (v : Int) : Bits := uintBits n (v % (2 ^ n : Int)).toNat

/-- the signed number denoted by a two's complement bit string (first bit = sign, weight `-2^(n-1)`) -/
def bitsValS : Bits → Int
  | [] => 0
  | b :: bs => (bitsVal bs : Int) - (if b then (2 ^ bs.length : Int) else 0)

/-- `bits (8·k)` holding the bytes `bs` (each byte big-endian) -/
def bytesBits (bs : List Nat) : Bits := bs.flatMap (uintBits 8)

/-! ### variable-length integers -/

/-- number of base-256 digits of `v` (0 for 0).  `byteLenU_le_iff` (Proofs/Builder.lean) shows that
this is the LEAST `len` with `v < 256^len`. -/
def byteLenU : Nat → Nat
  | 0 => 0
  | v+1 => 1 + byteLenU ((v+1) / 256)
decreasing_by omega

/-- magnitude used for the signed size: `v` for `v ≥ 0`, `-v-1` (= `~v`) for `v < 0` -/
def magS (v : Int) : Nat := if v ≥ 0 then v.toNat else (-v - 1).toNat

/-- minimal `len` such that `v` fits `int (8·len)`; `0` only for `v = 0`.  (`2·mag+1 < 256^len` iff
`mag < 2^(8·len-1)` for `len ≥ 1` and is false for `len = 0`.) `byteLenS_le_iff` shows minimality. -/
def byteLenS (v : Int) : Nat := if v = 0 then 0 else byteLenU (2 * magS v + 1)

/-- `VarUInteger n` with the `len` field written in `lenBits` bits (`lenBits = ⌈log2 n⌉`; the library's
`store_var_uint(value, bit_length)` takes `lenBits` directly). -/
def varUIntBits (lenBits : Nat) (v : Nat) : Bits :=
  uintBits lenBits (byteLenU v) ++ uintBits (8 * byteLenU v) v

/-- `VarInteger n`, `len` field in `lenBits` bits -/
def varIntBits (lenBits : Nat) (v : Int) : Bits :=
  uintBits lenBits (byteLenS v) ++ intBits (8 * byteLenS v) v

/-- `Grams = VarUInteger 16` -/
def gramsBits (v : Nat) : Bits := varUIntBits 4 v

/-! ### Maybe, addresses -/

/-- `Maybe ^Cell` / `HashmapE`: bit part (the reference itself goes to the cell's reference list) -/
def maybeRefBits {R : Type} : Option R → Bits
  | none => [false]
  | some _ => [true]

def maybeRefRefs {R : Type} : Option R → List R
  | none => []
  | some r => [r]

inductive MsgAddress where
  | none
  | extern (len : Nat) (addr : Bits)
  | std (anycast : Option (Nat × Bits)) (wc : Int) (addr : Bits)

def anycastBits : Option (Nat × Bits) → Bits
  | none => [false]                                            -- nothing$0
  | some (depth, pfx) => true :: (uintBits 5 depth ++ pfx)     -- just$1 depth:(#<= 30) rewrite_pfx:(bits depth)

def addrBits : MsgAddress → Bits
  | .none => [false, false]
  | .extern len a => [false, true] ++ uintBits 9 len ++ a
  | .std any wc a => [true, false] ++ anycastBits any ++ intBits 8 wc ++ a

/-- side conditions of the TL-B clauses -/
def MsgAddress.Valid : MsgAddress → Prop
  | .none => True
  | .extern len a => len < 512 ∧ a.length = len
  | .std any wc a => (match any with | Option.none => True | some (d, p) => 1 ≤ d ∧ d ≤ 30 ∧ p.length = d)
                      ∧ FitsInt 8 wc ∧ a.length = 256

/-! ### snake data -/

/-- a bare cell tree (data bits + references) -/
inductive SCell where
  | mk (bits : Bits) (refs : List SCell)

/-- the cell chain `cons b0 (cons b1 (… tail bk))` for the chunk list `b0 :: [b1, …, bk]` -/
def snakeCell : Bits → List Bits → SCell
  | b, [] => .mk b []
  | b, c :: cs => .mk b [snakeCell c cs]

/-- the data carried by a snake chain: the chunks concatenated -/
def snakeData (b : Bits) (cs : List Bits) : Bits := b ++ cs.flatten

end TonVerif.Spec.Tlb
