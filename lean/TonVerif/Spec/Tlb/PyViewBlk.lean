/-
C16 source tie, third part — DECLARED INTERFACE for the classes of tlb/account.py, tlb/block.py and tlb/config.py that the first
two parts left out (continuing Spec/Tlb/PyView.lean and Spec/Tlb/PyViewTx.lean): which schema field of the block.tlb value arrives
in which constructor argument of the object the parser returns.  Written by hand from the schema and the constructor signatures;
nothing here is generated from the Python source.
-/
import TonVerif.Spec.Tlb.PyViewTx
import TonVerif.Model.TlbRdBlk

namespace TonVerif.Tlb
open TonVerif

namespace Blk

/-! ### augmented dictionaries (`Slice.load_hashmap_aug_e`) -/

/-- entries `(key bits, view of the leaf value)` of the tree value `tv` of `hashmapAugF X Y fuel n`, left to right -/
def flattenAug (w : Val → Val) : Nat → Nat → Bits → Val → List (Bits × Val)
  | 0, _, _, _ => []
  | fuel+1, n, pfx, tv =>
    let lv := tv.get "label"
    let nv := tv.get "node"
    let l := labelLen lv
    let key := pfx ++ Rd.labelBitsOf lv
    if n - l = 0 then [(key, w (nv.get "value"))]
    else flattenAug w fuel (n - l - 1) (key ++ [false]) (nv.get "left") ++ flattenAug w fuel (n - l - 1) (key ++ [true]) (nv.get "right")

/-- the `extra:Y` of every node of the tree value, in the order `parse_aug` appends them (children first, then the fork's own) -/
def extrasAug (w : Val → Val) : Nat → Nat → Val → List Val
  | 0, _, _ => []
  | fuel+1, n, tv =>
    let lv := tv.get "label"
    let nv := tv.get "node"
    let l := labelLen lv
    if n - l = 0 then [w (nv.get "extra")]
    else extrasAug w fuel (n - l - 1) (nv.get "left") ++ extrasAug w fuel (n - l - 1) (nv.get "right") ++ [w (nv.get "extra")]

/-- `HashmapAugE n X Y` as returned by `load_hashmap_aug_e`: the tuple `(dict, extras)`; the top-level `extra:Y` of a non-empty
    dictionary is read and dropped; an empty one gives `({}, [extra])` -/
def viewAugE (wx wy : Val → Val) (n : Nat) : Val → Val
  | .con "ahme_root" r =>
    Rd.tuple [Rd.dict (flattenAug wx (n + 1) n [] (r.get "root")), Rd.list (extrasAug wy (n + 1) n (r.get "root"))]
  | .con "ahme_empty" r => Rd.tuple [Rd.dict [], Rd.list [wy (r.get "extra")]]
  | _ => .unit


/-! ### config.py -/

/-- the seven fields every `ConsensusConfig` constructor ends with (before `proto_version`) -/
def consensusTailView (x : Val) : List (String × Val) :=
  [("next_candidate_delay_ms", x.get "next_candidate_delay_ms"), ("consensus_timeout_ms", x.get "consensus_timeout_ms"),
   ("fast_attempts", x.get "fast_attempts"), ("attempt_duration", x.get "attempt_duration"),
   ("catchain_max_deps", x.get "catchain_max_deps"), ("max_block_bytes", x.get "max_block_bytes"),
   ("max_collated_bytes", x.get "max_collated_bytes")]

/-- `ConsensusConfig`: every constructor passes all thirteen keyword arguments; those its layout does not have are `None` -/
def view_ConsensusConfig : Val → Val
  | .con "consensus_config" x =>
    Rd.obj "ConsensusConfig" ([("type_", Rd.str "consensus_config"), ("flags", .unit), ("new_catchain_ids", .unit),
      ("round_candidates", x.get "round_candidates")] ++ consensusTailView x ++
      [("proto_version", .unit), ("catchain_max_blocks_coeff", .unit)])
  | .con "consensus_config_new" x =>
    Rd.obj "ConsensusConfig" ([("type_", Rd.str "consensus_config_new"), ("flags", x.get "flags"),
      ("new_catchain_ids", x.get "new_catchain_ids"), ("round_candidates", x.get "round_candidates")] ++ consensusTailView x ++
      [("proto_version", .unit), ("catchain_max_blocks_coeff", .unit)])
  | .con "consensus_config_v3" x =>
    Rd.obj "ConsensusConfig" ([("type_", Rd.str "consensus_config_v3"), ("flags", x.get "flags"),
      ("new_catchain_ids", x.get "new_catchain_ids"), ("round_candidates", x.get "round_candidates")] ++ consensusTailView x ++
      [("proto_version", x.get "proto_version"), ("catchain_max_blocks_coeff", .unit)])
  | .con "consensus_config_v4" x =>
    Rd.obj "ConsensusConfig" ([("type_", Rd.str "consensus_config_v4"), ("flags", x.get "flags"),
      ("new_catchain_ids", x.get "new_catchain_ids"), ("round_candidates", x.get "round_candidates")] ++ consensusTailView x ++
      [("proto_version", x.get "proto_version"), ("catchain_max_blocks_coeff", x.get "catchain_max_blocks_coeff")])
  | _ => .unit

/-- `ValidatorSet`: `validators#11` holds an inline `Hashmap 16 ValidatorDescr` (`load_hashmap`), `validators_ext#12` a
    `HashmapE 16 ValidatorDescr` (`load_dict`: `None` when empty); `list` is the dict position ↦ ValidatorDescr, in key order;
    `validators#11` has no `total_weight`: `None` -/
def view_ValidatorSet : Val → Val
  | .con "validators" x =>
    Rd.obj "ValidatorSet" [("type_", Rd.str "validators"), ("utime_since", x.get "utime_since"), ("utime_until", x.get "utime_until"),
      ("total", x.get "total"), ("main", x.get "main"), ("total_weight", .unit),
      ("list", Rd.dict (flattenF view_ValidatorDescr 17 16 [] (x.get "list")))]
  | .con "validators_ext" x =>
    Rd.obj "ValidatorSet" [("type_", Rd.str "validators_ext"), ("utime_since", x.get "utime_since"), ("utime_until", x.get "utime_until"),
      ("total", x.get "total"), ("main", x.get "main"), ("total_weight", x.get "total_weight"),
      ("list", viewDict view_ValidatorDescr 16 (x.get "list"))]
  | _ => .unit

/-! ### block.py -/

/-- `BlockInfo` (parsed by `__init__`): the attributes in the order they are stored; `seq_no ↦ seqno`, `vert_seq_no ↦ vert_seqno`;
    the conditional fields (`flags . 0?GlobalVersion`, `not_master?^BlkMasterInfo`, `vert_seqno_incr?^(BlkPrevInfo 0)`) are `None`
    when absent -/
def view_BlockInfo (v : Val) : Val :=
  Rd.obj "BlockInfo" [("version", v.get "version"), ("not_master", v.get "not_master"), ("after_merge", v.get "after_merge"),
    ("before_split", v.get "before_split"), ("after_split", v.get "after_split"), ("want_split", v.get "want_split"),
    ("want_merge", v.get "want_merge"), ("key_block", v.get "key_block"), ("vert_seqno_incr", v.get "vert_seqno_incr"),
    ("flags", v.get "flags"), ("seqno", v.get "seq_no"), ("vert_seqno", v.get "vert_seq_no"),
    ("shard", view_ShardIdent (v.get "shard")), ("gen_utime", v.get "gen_utime"), ("start_lt", v.get "start_lt"),
    ("end_lt", v.get "end_lt"), ("gen_validator_list_hash_short", v.get "gen_validator_list_hash_short"),
    ("gen_catchain_seqno", v.get "gen_catchain_seqno"), ("min_ref_mc_seqno", v.get "min_ref_mc_seqno"),
    ("prev_key_block_seqno", v.get "prev_key_block_seqno"),
    ("gen_software", viewMaybe view_GlobalVersion (v.get "gen_software")),
    ("master_ref", viewMaybe view_BlkMasterInfo (v.get "master_ref")),
    ("prev_ref", view_BlkPrevInfo (v.get "prev_ref")),
    ("prev_vert_ref", viewMaybe view_BlkPrevInfo (v.get "prev_vert_ref"))]

def view_DepthBalanceInfo (v : Val) : Val :=
  Rd.obj "DepthBalanceInfo" [("split_depth", v.get "split_depth"), ("balance", Tx.view_CurrencyCollection (v.get "balance"))]

/-- `ValueFlow`: the fields of the two `^[ … ]` groups arrive flattened, in schema order; `value_flow_v2` has `burned` -/
def view_ValueFlow : Val → Val
  | .con "value_flow" x =>
    let a := x.get "_ref1"
    let b := x.get "_ref2"
    Rd.obj "ValueFlow" [("type_", Rd.str "value_flow"),
      ("from_prev_blk", Tx.view_CurrencyCollection (a.get "from_prev_blk")), ("to_next_blk", Tx.view_CurrencyCollection (a.get "to_next_blk")),
      ("imported", Tx.view_CurrencyCollection (a.get "imported")), ("exported", Tx.view_CurrencyCollection (a.get "exported")),
      ("fees_collected", Tx.view_CurrencyCollection (x.get "fees_collected")),
      ("fees_imported", Tx.view_CurrencyCollection (b.get "fees_imported")), ("recovered", Tx.view_CurrencyCollection (b.get "recovered")),
      ("created", Tx.view_CurrencyCollection (b.get "created")), ("minted", Tx.view_CurrencyCollection (b.get "minted"))]
  | .con "value_flow_v2" x =>
    let a := x.get "_ref1"
    let b := x.get "_ref2"
    Rd.obj "ValueFlow" [("type_", Rd.str "value_flow_v2"),
      ("from_prev_blk", Tx.view_CurrencyCollection (a.get "from_prev_blk")), ("to_next_blk", Tx.view_CurrencyCollection (a.get "to_next_blk")),
      ("imported", Tx.view_CurrencyCollection (a.get "imported")), ("exported", Tx.view_CurrencyCollection (a.get "exported")),
      ("fees_collected", Tx.view_CurrencyCollection (x.get "fees_collected")), ("burned", Tx.view_CurrencyCollection (x.get "burned")),
      ("fees_imported", Tx.view_CurrencyCollection (b.get "fees_imported")), ("recovered", Tx.view_CurrencyCollection (b.get "recovered")),
      ("created", Tx.view_CurrencyCollection (b.get "created")), ("minted", Tx.view_CurrencyCollection (b.get "minted"))]
  | _ => .unit

/-- the seventeen fields both `ShardDescr` layouts start with -/
def shardDescrHeadView (x : Val) : List (String × Val) :=
  [("seq_no", x.get "seq_no"), ("reg_mc_seqno", x.get "reg_mc_seqno"), ("start_lt", x.get "start_lt"), ("end_lt", x.get "end_lt"),
   ("root_hash", x.get "root_hash"), ("file_hash", x.get "file_hash"), ("before_split", x.get "before_split"),
   ("before_merge", x.get "before_merge"), ("want_split", x.get "want_split"), ("want_merge", x.get "want_merge"),
   ("nx_cc_updated", x.get "nx_cc_updated"), ("flags", x.get "flags"), ("next_catchain_seqno", x.get "next_catchain_seqno"),
   ("next_validator_shard", x.get "next_validator_shard"), ("min_ref_mc_seqno", x.get "min_ref_mc_seqno"),
   ("gen_utime", x.get "gen_utime"), ("split_merge_at", view_FutureSplitMerge (x.get "split_merge_at"))]

/-- `ShardDescr`: the object does not record which layout was read; `shard_descr_new#a` keeps the two fee fields in a `^[ … ]` group -/
def view_ShardDescr : Val → Val
  | .con "shard_descr" x =>
    Rd.obj "ShardDescr" (shardDescrHeadView x ++ [("fees_collected", Tx.view_CurrencyCollection (x.get "fees_collected")),
      ("funds_created", Tx.view_CurrencyCollection (x.get "funds_created"))])
  | .con "shard_descr_new" x =>
    let r := x.get "_ref1"
    Rd.obj "ShardDescr" (shardDescrHeadView x ++ [("fees_collected", Tx.view_CurrencyCollection (r.get "fees_collected")),
      ("funds_created", Tx.view_CurrencyCollection (r.get "funds_created"))])
  | _ => .unit

/-! ### account.py -/

def view_AccountStorage (v : Val) : Val :=
  Rd.obj "AccountStorage" [("last_trans_lt", v.get "last_trans_lt"), ("balance", Tx.view_CurrencyCollection (v.get "balance")),
    ("state", view_AccountState (v.get "state"))]

/-- `account_none$0` is `None` -/
def view_Account : Val → Val
  | .con "account" x =>
    Rd.obj "Account" [("addr", Tx.view_MsgAddressInt (x.get "addr")), ("storage_stat", view_StorageInfo (x.get "storage_stat")),
      ("storage", view_AccountStorage (x.get "storage"))]
  | _ => .unit

/-- `ShardAccount`; the bookkeeping argument `cell=` (a copy of the slice) is not part of the object (declared) -/
def view_ShardAccount (v : Val) : Val :=
  Rd.obj "ShardAccount" [("account", view_Account (v.get "account")), ("last_trans_hash", v.get "last_trans_hash"),
    ("last_trans_lt", v.get "last_trans_lt")]

/-- the leaves of a `BinTree X` value, left to right -/
def btLeaves (w : Val → Val) : Nat → Val → List Val
  | 0, _ => []
  | _+1, .con "bt_leaf" x => [w x]
  | fuel+1, .con "bt_fork" r => btLeaves w fuel (r.get "left") ++ btLeaves w fuel (r.get "right")
  | _+1, _ => []

/-- `BinTree` object: `.list` = the leaves -/
def viewBinTree (w : Val → Val) (tv : Val) : Val := Rd.obj "BinTree" [("list", Rd.list (btLeaves w 64 tv))]

/-- `deserialize_shard_hashes`: `None` (empty) or the dict workchain ↦ BinTree of parsed ShardDescr -/
def view_ShardHashes : Val → Val := viewDict (viewBinTree view_ShardDescr) 32

/-- `ShardAccounts.deserialize` returns the `(dict, extras)` tuple of `load_hashmap_aug_e` -/
def view_ShardAccounts : Val → Val := viewAugE view_ShardAccount view_DepthBalanceInfo 256

/-- `OldMcBlocksInfo.deserialize` returns the `(dict, extras)` tuple of `load_hashmap_aug_e` -/
def view_OldMcBlocksInfo : Val → Val := viewAugE view_KeyExtBlkRef view_KeyMaxLt 32

/-- `BlockCreateStats`: `block_create_stats#17` a `HashmapE 256 CreatorStats` (`load_dict`), `block_create_stats_ext#34` a
    `HashmapAugE 256 CreatorStats uint32` (`load_hashmap_aug_e`) -/
def view_BlockCreateStats : Val → Val
  | .con "block_create_stats" x =>
    Rd.obj "BlockCreateStats" [("type_", Rd.str "block_create_stats"), ("counters", viewDict view_CreatorStats 256 (x.get "counters"))]
  | .con "block_create_stats_ext" x =>
    Rd.obj "BlockCreateStats" [("type_", Rd.str "block_create_stats_ext"),
      ("counters", viewAugE view_CreatorStats id 256 (x.get "counters"))]
  | _ => .unit

/-- `ConfigParams`: `config` = the inline `Hashmap 32 ^Cell` behind the reference as a dict signed parameter number ↦ Slice over the
    parameter's cell, in walk order -/
def view_ConfigParams (v : Val) : Val :=
  Rd.obj "ConfigParams" [("config_addr", Rd.hex (v.get "config_addr")),
    ("config", Rd.dictS (flattenF (fun c => .con "slice" c) 33 32 [] (v.get "config")))]

/-- `McStateExtra`: the fields of the `^[ … ]` group arrive flattened; `block_create_stats` is `None` unless `flags . 0` -/
def view_McStateExtra (v : Val) : Val :=
  let r := v.get "_ref1"
  Rd.obj "McStateExtra" [("shard_hashes", view_ShardHashes (v.get "shard_hashes")), ("config", view_ConfigParams (v.get "config")),
    ("flags", r.get "flags"), ("validator_info", view_ValidatorInfo (r.get "validator_info")),
    ("prev_blocks", view_OldMcBlocksInfo (r.get "prev_blocks")), ("after_key_block", r.get "after_key_block"),
    ("last_key_block", viewMaybe view_ExtBlkRef (r.get "last_key_block")),
    ("block_create_stats", viewMaybe view_BlockCreateStats (r.get "block_create_stats")),
    ("global_balance", Tx.view_CurrencyCollection (v.get "global_balance"))]

/-- a dictionary read without a value_deserializer: the keys, each with a raw Slice (declared: presence only) -/
def viewDictRaw (n : Nat) : Val → Val := viewDict (fun _ => .con "slice" .unit) n

/-- `ShardStateUnsplit` (`shard_state#9023afe2`): `out_msg_queue_info` is kept as the referenced cell, `accounts` is the `(dict, extras)`
    tuple of ShardAccounts, the fields of the `^[ … ]` group arrive flattened (`libraries`: keys with raw Slices), `custom` is `None` or
    the McStateExtra -/
def view_ShardStateUnsplit (v : Val) : Val :=
  let r := v.get "_ref1"
  Rd.obj "ShardStateUnsplit" [("global_id", v.get "global_id"), ("shard_id", view_ShardIdent (v.get "shard_id")),
    ("seq_no", v.get "seq_no"), ("vert_seq_no", v.get "vert_seq_no"), ("gen_utime", v.get "gen_utime"), ("gen_lt", v.get "gen_lt"),
    ("min_ref_mc_seqno", v.get "min_ref_mc_seqno"), ("out_msg_queue_info", v.get "out_msg_queue_info"),
    ("before_split", v.get "before_split"), ("accounts", view_ShardAccounts (v.get "accounts")),
    ("overload_history", r.get "overload_history"), ("underload_history", r.get "underload_history"),
    ("total_balance", Tx.view_CurrencyCollection (r.get "total_balance")),
    ("total_validator_fees", Tx.view_CurrencyCollection (r.get "total_validator_fees")),
    ("libraries", viewDictRaw 256 (r.get "libraries")), ("master_ref", viewMaybe view_BlkMasterInfo (r.get "master_ref")),
    ("custom", viewMaybe view_McStateExtra (v.get "custom"))]

/-- `ShardState`: `_` (an unsplit state) / `split_state#5f327da5` (two unsplit states by reference) -/
def view_ShardState : Val → Val
  | .con "_" x => Rd.obj "ShardState" [("type_", Rd.str "_"), ("shard_state_unsplit", view_ShardStateUnsplit x)]
  | .con "split_state" x =>
    Rd.obj "ShardState" [("type_", Rd.str "split_state"), ("left", view_ShardStateUnsplit (x.get "left")),
      ("right", view_ShardStateUnsplit (x.get "right"))]
  | _ => .unit

/-- a `HashmapAugE` the parser keeps as its root cell: `None` (empty) / "a cell" (declared: presence only) -/
def presenceOfAugE : Val → Val
  | .con "ahme_root" _ => .con "cell" .unit
  | _ => .unit

/-- `McBlockExtra` (`masterchain_block_extra#cca5`): `shard_fees` by presence (the parser keeps the root cell and skips the top-level
    extra), the fields of the `^[ … ]` group flattened (`prev_blk_signatures`: keys with raw Slices; the two `^InMsg` as cells),
    `config` iff `key_block` -/
def view_McBlockExtra (v : Val) : Val :=
  let r := v.get "_ref1"
  Rd.obj "McBlockExtra" [("key_block", v.get "key_block"), ("shard_hashes", view_ShardHashes (v.get "shard_hashes")),
    ("shard_fees", presenceOfAugE (v.get "shard_fees")), ("prev_blk_signatures", viewDictRaw 16 (r.get "prev_blk_signatures")),
    ("recover_create_msg", r.get "recover_create_msg"), ("mint_msg", r.get "mint_msg"),
    ("config", viewMaybe view_ConfigParams (v.get "config"))]

/-- an inline `HashmapAug n X Y` as returned by `load_hashmap_aug`: the `(dict, extras)` tuple -/
def viewAug (wx wy : Val → Val) (n : Nat) (tv : Val) : Val :=
  Rd.tuple [Rd.dict (flattenAug wx (n + 1) n [] tv), Rd.list (extrasAug wy (n + 1) n tv)]

/-- `AccountBlock` (`acc_trans#5`): `transactions` = the `(dict, extras)` tuple of the inline `HashmapAug 64 ^Transaction CurrencyCollection`
    (each Transaction parsed from its own cell, nesting budget 3 = the spec's `transaction`), `state_update` by reference -/
def view_AccountBlock (v : Val) : Val :=
  Rd.obj "AccountBlock" [("account_addr", Rd.hex (v.get "account_addr")),
    ("transactions", viewAug (Tx.view_Transaction 3) Tx.view_CurrencyCollection 64 (v.get "transactions")),
    ("state_update", view_HashUpdate (v.get "state_update"))]

/-- `BlockExtra` (`block_extra#4a33f6fd`): the three descriptor dictionaries as `(dict, extras)` tuples, `custom` = `None` / McBlockExtra -/
def view_BlockExtra (v : Val) : Val :=
  Rd.obj "BlockExtra" [
    ("in_msg_descr", viewAugE (Tx.view_InMsg (Tx.view_Transaction 3)) Tx.view_ImportFees 256 (v.get "in_msg_descr")),
    ("out_msg_descr", viewAugE (Tx.view_OutMsg (Tx.view_Transaction 3)) Tx.view_CurrencyCollection 256 (v.get "out_msg_descr")),
    ("account_blocks", viewAugE view_AccountBlock Tx.view_CurrencyCollection 256 (v.get "account_blocks")),
    ("rand_seed", v.get "rand_seed"), ("created_by", v.get "created_by"),
    ("custom", viewMaybe view_McBlockExtra (v.get "custom"))]

/-- the `state_update` of a `Block` value is an ordinary cell (the model of `MerkleUpdate.deserialize` covers only those) -/
def ordinaryStateUpdate (v : Val) : Bool :=
  match v.get "state_update" with
  | .cell c => !c.exotic
  | _ => false

/-- `Block` (`block#11ef55aa`): `info`, `value_flow`, `extra` parsed from their own cells; `state_update` = what
    `MerkleUpdate.deserialize` returns for an ordinary cell: `None` -/
def view_Block (v : Val) : Val :=
  Rd.obj "Block" [("global_id", v.get "global_id"), ("info", view_BlockInfo (v.get "info")),
    ("value_flow", view_ValueFlow (v.get "value_flow")), ("state_update", .unit), ("extra", view_BlockExtra (v.get "extra"))]

end Blk
end TonVerif.Tlb
